(* C08 - executable model of src/threadqueues/sherwood_threadqueues.c (list layer).

   A queue is the list of its nodes, HEAD LEFT / TAIL RIGHT, together with the two counters
   the C code maintains separately (qlength, qlength_stealable : long).  The counters are state
   of their own (not derived from the list) because the C steal scan is *driven* by
   qlength_stealable; Proofs.v shows they are exact in every reachable state.

   Mirrored functions (branch by branch):
     qt_threadqueue_enqueue            -> enqueue            (tail)
     qt_threadqueue_enqueue_yielded    -> enqueue_yielded    (head)
     owner path of qt_scheduler_get_thread (q->head != NULL; pop q->tail) -> dequeue_owner (worker 0 / single worker)
                                                                              dequeue_worker (any worker: McCoy left in place)
     qt_threadqueue_dequeue_steal      -> dequeue_steal / scan
     qt_threadqueue_enqueue_multiple   -> enqueue_multiple   (adds addCnt to BOTH counters)
     qthread_steal                     -> qsteal / steal_loop (stealing flag, victim index i++; i*=(i<n-1))
     qt_scheduler_get_thread           -> get_thread / get_loop (McCoy hand-off, stealing 0/1/2)
     qt_threadqueue_dequeue_specific   -> dequeue_specific   (moves the match to the tail)
   No proofs in this file. *)
From Coq Require Import List ZArith NArith Bool Arith.
Import ListNotations.
Local Open Scope Z_scope.

Record node := mkNode { tid : N; stl : bool; mccoy : bool; retv : N }.

Definition node_eqb (a b : node) : bool :=
  N.eqb (tid a) (tid b) && Bool.eqb (stl a) (stl b) && Bool.eqb (mccoy a) (mccoy b) && N.eqb (retv a) (retv b).

Record queue := mkQ { items : list node; qlen : Z; qstl : Z }.

Definition empty_queue : queue := mkQ [] 0 0.
Definition b2z (b : bool) : Z := if b then 1 else 0.

Fixpoint count_stl (l : list node) : nat :=
  match l with [] => O | n :: tl => if stl n then S (count_stl tl) else count_stl tl end.

(* qt_threadqueue_enqueue: node at the tail; qlength++; qlength_stealable += node->stealable *)
Definition enqueue (q : queue) (n : node) : queue :=
  mkQ (items q ++ [n]) (qlen q + 1) (qstl q + b2z (stl n)).

(* qt_threadqueue_enqueue_yielded: node at the head *)
Definition enqueue_yielded (q : queue) (n : node) : queue :=
  mkQ (n :: items q) (qlen q + 1) (if stl n then qstl q + 1 else qstl q).

(* owner dequeue: `else if (q->head) { lock; node = q->tail; if (node != NULL) {...}` *)
Definition dequeue_owner (q : queue) : option node * queue :=
  match rev (items q) with
  | [] => (None, q)
  | n :: r => (Some n, mkQ (rev r) (qlen q - 1) (qstl q - b2z (stl n)))
  end.

(* owner path of qt_scheduler_get_thread as a function of the (packed) worker id, after the fix
   "a worker that may not run the McCoy task leaves it in place": node = q->tail; if it is the McCoy task and the
   caller is not worker 0, node = node->prev (possibly NULL: nothing is taken); general doubly-linked unlink *)
Definition dequeue_worker (q : queue) (w : nat) : option node * queue :=
  match rev (items q) with
  | [] => (None, q)
  | n :: r =>
      if mccoy n && negb (Nat.eqb w O) then
        match r with
        | [] => (None, q)
        | m :: r' => (Some m, mkQ (rev r' ++ [n]) (qlen q - 1) (qstl q - b2z (stl m)))
        end
      else (Some n, mkQ (rev r) (qlen q - 1) (qstl q - b2z (stl n)))
  end.

(* ---- qt_threadqueue_dequeue_steal ------------------------------------------------------- *)
(* One pass over the list from the head.  `run = false`: inside "Find next stealable node" (a stealable
   node found there is taken unconditionally); `run = true`: inside "Find next unstealable node, or amount
   we want to steal" with next_to_steal = head of l; when the run ends the do-while condition
   (v->qlength_stealable > 0 && amtStolen < desired_stolen) decides whether the scan goes on.
   Result: (kept nodes in order, stolen nodes in order, qlength, qlength_stealable). *)
Fixpoint scan (l : list node) (run : bool) (amt ql qs d : Z) : list node * list node * Z * Z :=
  match l with
  | [] => ([], [], ql, qs)
  | n :: tl =>
      if run then
        if amt <? d then
          if stl n then
            let '(k, s, ql', qs') := scan tl true (amt + 1) (ql - 1) (qs - 1) d in (k, n :: s, ql', qs')
          else if 0 <? qs then
            let '(k, s, ql', qs') := scan tl false amt ql qs d in (n :: k, s, ql', qs')
          else (l, [], ql, qs)
        else (l, [], ql, qs)
      else
        if stl n then
          let '(k, s, ql', qs') := scan tl true (amt + 1) (ql - 1) (qs - 1) d in (k, n :: s, ql', qs')
        else
          let '(k, s, ql', qs') := scan tl false amt ql qs d in (n :: k, s, ql', qs')
  end.

(* desired_stolen: v->qlength_stealable / 2 (C division) or steal_chunksize; 0 becomes 1 *)
Definition desired (chunk : Z) (q : queue) : Z :=
  let d := if chunk =? 0 then Z.quot (qstl q) 2 else chunk in
  if d =? 0 then 1 else d.

(* victim lock held by somebody else: QTHREAD_TRYLOCK_TRY fails, NULL returned, nothing changes *)
Definition dequeue_steal (chunk : Z) (vlocked : bool) (v : queue) : list node * queue :=
  if vlocked then ([], v)
  else
    let d := desired chunk v in
    if (0 <? qstl v) && (0 <? d) then
      let '(k, s, ql, qs) := scan (items v) false 0 (qlen v) (qstl v) d in (s, mkQ k ql qs)
    else ([], v).

(* qt_threadqueue_enqueue_multiple: chain appended at the tail, addCnt added to both counters *)
Definition enqueue_multiple (q : queue) (l : list node) : queue :=
  match l with
  | [] => q
  | _ => mkQ (items q ++ l) (qlen q + Z.of_nat (length l)) (qstl q + Z.of_nat (length l))
  end.

(* qt_threadqueue_dequeue_specific: from the tail, first node whose value->ret == value; it is moved to
   the tail (not removed) and its thread returned *)
Fixpoint find_ret (r : list node) (val : N) : option (list node * node * list node) :=
  (* r is the reversed list (tail first); returns (before-in-r, match, after-in-r) *)
  match r with
  | [] => None
  | n :: tl => if N.eqb (retv n) val then Some ([], n, tl)
               else match find_ret tl val with
                    | Some (a, m, b) => Some (n :: a, m, b)
                    | None => None
                    end
  end.

Definition dequeue_specific (q : queue) (val : N) : option node * queue :=
  if 0 <? qlen q then
    match find_ret (rev (items q)) val with
    | None => (None, q)
    | Some (a, m, b) => (Some m, mkQ (rev b ++ rev a ++ [m]) (qlen q) (qstl q))
    end
  else (None, q).

(* ---- the system of shepherds -------------------------------------------------------------- *)
Record sys := mkSys {
  queues   : list queue;          (* shepherds[i].ready *)
  stealing : list Z;              (* shepherds[i].stealing : 0 / 1 (a thief is out) / 2 (McCoy hand-off) *)
  sorted   : list (list nat);     (* shepherds[i].sorted_sheplist *)
  chunk    : Z;                   (* steal_chunksize (QT_STEAL_CHUNK) *)
  disable  : bool                 (* steal_disable *)
}.

Definition nsheps (st : sys) : nat := length (queues st).
Definition getq (st : sys) (s : nat) : queue := nth s (queues st) empty_queue.
Definition getst (st : sys) (s : nat) : Z := nth s (stealing st) 0.

Fixpoint upd {A} (l : list A) (i : nat) (x : A) : list A :=
  match l, i with
  | [], _ => []
  | _ :: tl, O => x :: tl
  | y :: tl, S j => y :: upd tl j x
  end.

Definition setq (st : sys) (s : nat) (q : queue) : sys :=
  mkSys (upd (queues st) s q) (stealing st) (sorted st) (chunk st) (disable st).
Definition setst (st : sys) (s : nat) (v : Z) : sys :=
  mkSys (queues st) (upd (stealing st) s v) (sorted st) (chunk st) (disable st).

(* i++; i *= (i < qlib->nshepherds - 1); *)
Definition next_idx (n i : nat) : nat := if Nat.ltb (S i) (n - 1) then S i else O.

Inductive steal_res := SGot (first : node) (st : sys) | SNone (st : sys) | SSpin (st : sys).

(* the `while (stolen == NULL)` loop of qthread_steal.  The state does not change while attempts fail, so a
   full round (nsheps-1 iterations) without success or break repeats for ever: SSpin. *)
Fixpoint steal_loop (fuel : nat) (i : nat) (st : sys) (s : nat) (lockmask : list bool) : steal_res :=
  match fuel with
  | O => SSpin st
  | S f =>
      let v := nth i (nth s (sorted st) []) O in
      let vq := getq st v in
      let '(stolen, vq') :=
         if qstl vq =? 0 then ([], vq) else dequeue_steal (chunk st) (nth v lockmask false) vq in
      match stolen with
      | first :: surplus =>
          let st1 := setq st v vq' in
          let st2 := match surplus with
                     | [] => st1
                     | _ => setq st1 s (enqueue_multiple (getq st1 s) surplus)
                     end in
          SGot first st2
      | [] =>
          if (0 <? qlen (getq st s)) || disable st then SNone st
          else steal_loop f (next_idx (nsheps st) i) st s lockmask
      end
  end.

(* qthread_steal: stealing != 0 -> NULL; CAS 0->1; loop; stealing = 0 *)
Definition qsteal (st : sys) (s : nat) (lockmask : list bool) : steal_res :=
  if negb (getst st s =? 0) then SNone st
  else
    let st1 := setst st s 1 in
    match steal_loop (Nat.max 1 (nsheps st - 1)) O st1 s lockmask with
    | SGot n st2 => SGot n (setst st2 s 0)
    | SNone st2 => SNone (setst st2 s 0)
    | SSpin st2 => SSpin st2                  (* the thief is still out: the flag stays 1 *)
    end.

Inductive get_res :=
| GGot (n : node)      (* returned this thread *)
| GSpin                (* spins for ever unless another worker acts *)
| GLive.               (* McCoy ping-pong on a worker != 0 with nothing else to run *)

(* `if (node)` tail of one iteration: a McCoy task is returned only on (packed) worker 0, which also clears
   the hand-off flag; any other worker sets stealing = 2, puts it back at the HEAD and keeps looking *)
Inductive fin := FDone (r : get_res) (st : sys) | FCont (st : sys).

Definition finish_node (st : sys) (s w : nat) (n : node) : fin :=
  if mccoy n then
    match w with
    | O => FDone (GGot n) (if negb (getst st s =? 0) then setst st s 0 else st)
    | S _ => let st1 := setst st s 2 in FCont (setq st1 s (enqueue_yielded (getq st1 s) n))
    end
  else FDone (GGot n) st.

(* the while(1) of qt_scheduler_get_thread (no spawn cache, no aggregation, no local priority queue);
   w is the packed worker id (0 only for worker 0 of shepherd 0) *)
Fixpoint get_loop (fuel : nat) (st : sys) (s w : nat) (active : bool) : get_res * sys :=
  match fuel with
  | O => (GLive, st)
  | S f =>
      let q := getq st s in
      let '(node1, st1) :=
         match items q with
         | [] => (None, st)                                  (* q->head == NULL: not even locked *)
         | _ => let '(o, q') := dequeue_worker q w in (o, setq st s q')
         end in
      match node1 with
      | Some n =>
          match finish_node st1 s w n with
          | FDone r st2 => (r, st2)
          | FCont st2 => get_loop f st2 s w active
          end
      | None =>
          if negb (getst st1 s =? 0) then (GSpin, st1)       (* both variants of the wait spin (or busy-loop) *)
          else if active && Nat.ltb 1 (nsheps st1) then
            if disable st1 then (GSpin, st1)
            else match qsteal st1 s [] with
                 | SGot n st2 =>
                     match finish_node st2 s w n with
                     | FDone r st3 => (r, st3)
                     | FCont st3 => get_loop f st3 s w active
                     end
                 | SNone st2 => (GSpin, st2)
                 | SSpin st2 => (GSpin, st2)
                 end
          else (GSpin, st1)
      end
  end.

(* two or more items, every one a McCoy task, and the caller is not worker 0: the real loop never leaves
   (it keeps re-queueing the McCoy in front of the tail; cannot happen with the single real McCoy task) *)
Definition all_mccoy (q : queue) : bool := forallb mccoy (items q).

Definition get_thread (st : sys) (s w : nat) (active : bool) : get_res * sys :=
  match w with
  | S _ => if Nat.ltb 1 (length (items (getq st s))) && all_mccoy (getq st s)
           then (GLive, st)
           else get_loop (S (S (length (items (getq st s))))) st s w active
  | O => get_loop (S (S (length (items (getq st s))))) st s w active
  end.

(* ---- operations of the correspondence scripts / of the theorems ---------------------------- *)
Inductive op :=
| OEnq (s : nat) (n : node)
| OEnqY (s : nat) (n : node)
| OGet (s w : nat) (active : bool)
| ODeqSteal (h v : nat) (vlocked : bool)      (* raw dequeue_steal(h,v); the whole chain goes to h by enqueue_multiple *)
| OSteal (s : nat) (lockmask : list bool)     (* qthread_steal(shepherd s) *)
| OSpecific (s : nat) (val : N)
| OSetStealing (s : nat) (v : Z)
| OSetChunk (c : Z)
| OSetDisable (b : bool).

Inductive res :=
| RUnit
| RNode (o : option node)
| RList (l : list node)
| RSpin
| RLive.

Definition valid (st : sys) (s : nat) : bool := Nat.ltb s (nsheps st).

Definition step (st : sys) (o : op) : sys * res :=
  match o with
  | OEnq s n => if valid st s then (setq st s (enqueue (getq st s) n), RUnit) else (st, RUnit)
  | OEnqY s n => if valid st s then (setq st s (enqueue_yielded (getq st s) n), RUnit) else (st, RUnit)
  | OGet s w a =>
      if valid st s then
        match get_thread st s w a with
        | (GGot n, st') => (st', RNode (Some n))
        | (GSpin, st') => (st', RSpin)
        | (GLive, st') => (st', RLive)
        end
      else (st, RUnit)
  | ODeqSteal h v lk =>
      if valid st h && valid st v then
        let '(stolen, vq') := dequeue_steal (chunk st) lk (getq st v) in
        let st1 := setq st v vq' in
        (setq st1 h (enqueue_multiple (getq st1 h) stolen), RList stolen)
      else (st, RUnit)
  | OSteal s mask =>
      if valid st s && Nat.ltb 1 (nsheps st) then
        match qsteal st s mask with
        | SGot n st' => (st', RNode (Some n))
        | SNone st' => (st', RNode None)
        | SSpin st' => (st', RSpin)
        end
      else (st, RUnit)
  | OSpecific s val =>
      if valid st s then
        let '(o, q') := dequeue_specific (getq st s) val in (setq st s q', RNode o)
      else (st, RUnit)
  | OSetStealing s v => if valid st s then (setst st s v, RUnit) else (st, RUnit)
  | OSetChunk c => (mkSys (queues st) (stealing st) (sorted st) c (disable st), RUnit)
  | OSetDisable b => (mkSys (queues st) (stealing st) (sorted st) (chunk st) b, RUnit)
  end.

Fixpoint run (st : sys) (ops : list op) : sys * list res :=
  match ops with
  | [] => (st, [])
  | o :: tl => let '(st1, r) := step st o in let '(st2, rs) := run st1 tl in (st2, r :: rs)
  end.

(* initial system: n empty queues, sorted_sheplist of s = s+1, s+2, ... (mod n), as the harness builds it *)
Fixpoint others (n s k : nat) : list nat :=
  match k with O => [] | S k' => others n s k' ++ [Nat.modulo (s + k) n] end.
Definition init_sys (n : nat) (chunk : Z) : sys :=
  mkSys (repeat empty_queue n) (repeat 0 n) (map (fun s => others n s (n - 1)) (seq 0 n)) chunk false.

(* ---- single worker scheduler round (for the yield theorems) -------------------------------- *)
(* what a dequeued task does before control returns to the worker loop of qthread_master:
   it spawns `spawned` (qt_threadqueue_enqueue at the tail, in order) and then either yields
   (QTHREAD_STATE_YIELDED -> qt_threadqueue_enqueue_yielded at the head) or leaves (terminates / blocks) *)
Record round := mkRound { spawned : list node; yields : bool }.

Definition sched_round (q : queue) (r : round) : option node * queue :=
  match dequeue_owner q with
  | (None, q') => (None, q')
  | (Some t, q') =>
      let q1 := fold_left enqueue (spawned r) q' in
      (Some t, if yields r then enqueue_yielded q1 t else q1)
  end.

Fixpoint sched_run (q : queue) (rs : list round) : list (option node) * queue :=
  match rs with
  | [] => ([], q)
  | r :: tl => let '(o, q1) := sched_round q r in let '(os, q2) := sched_run q1 tl in (o :: os, q2)
  end.

(* single-queue operations (the owner and the thieves of ONE queue), for yield_precedence *)
Inductive qop := QEnq (n : node) | QEnqY (n : node) | QDeq | QSteal (chunk : Z).

Definition qstep (q : queue) (o : qop) : queue * list node :=
  match o with
  | QEnq n => (enqueue q n, [])
  | QEnqY n => (enqueue_yielded q n, [])
  | QDeq => match dequeue_owner q with (Some n, q') => (q', [n]) | (None, q') => (q', []) end
  | QSteal c => let '(s, q') := dequeue_steal c false q in (q', s)
  end.

Fixpoint qrun (q : queue) (ops : list qop) : queue * list (list node) :=
  match ops with
  | [] => (q, [])
  | o :: tl => let '(q1, out) := qstep q o in let '(q2, outs) := qrun q1 tl in (q2, out :: outs)
  end.

(* ---- deterministic 1x1 scenario (live yield order, compared with the real runtime) ---------- *)
(* a task body is a list of actions; the worker loop of qthread_master re-queues the task according to the
   state it left (YIELDED -> head; YIELDED_NEAR -> get f; enqueue t; enqueue f; TERMINATED -> gone) *)
Inductive act :=
| AYield                 (* qthread_yield() *)
| AYieldNear             (* qthread_yield_near() *)
| ASpawn (child : N)     (* qthread_fork: enqueue at the tail of the own (only) shepherd *)
| ASetFlag               (* flag = 1 *)
| AWaitFlag              (* while (!flag) qthread_yield(); *)
| ADrain.                (* main only: while (live tasks) qthread_yield();  on 1x1 every other live task is queued *)

Fixpoint lookup {A} (k : N) (l : list (N * A)) (d : A) : A :=
  match l with [] => d | (k', v) :: tl => if N.eqb k k' then v else lookup k tl d end.

Definition tnode (t : N) : node := mkNode t true false 0.

Inductive sim_end := SimDone | SimHang | SimFuel.

(* cur runs `prog`; log records the tid each time a task is (re)entered *)
Fixpoint sim (fuel : nat) (ptab : list (N * list act)) (q : queue) (rem : list (N * list act))
             (flag : bool) (cur : N) (prog : list act) (log : list N) : list N * sim_end :=
  match fuel with
  | O => (rev log, SimFuel)
  | S f =>
      let switch (q1 : queue) (rem1 : list (N * list act)) :=
          match dequeue_owner q1 with
          | (None, _) => (rev log, SimDone)            (* nothing left: the worker idles *)
          | (Some n, q2) => sim f ptab q2 rem1 flag (tid n) (lookup (tid n) rem1 []) (tid n :: log)
          end in
      match prog with
      | [] => switch q rem                              (* TERMINATED *)
      | AYield :: p => switch (enqueue_yielded q (tnode cur)) ((cur, p) :: rem)
      | AWaitFlag :: p =>
          if flag then sim f ptab q rem flag cur p log
          else switch (enqueue_yielded q (tnode cur)) ((cur, prog) :: rem)
      | AYieldNear :: p =>
          match dequeue_owner q with
          | (None, _) => (rev log, SimHang)             (* qt_scheduler_get_thread never returns on 1x1 *)
          | (Some n, q1) =>
              let q2 := enqueue (enqueue q1 (tnode cur)) n in
              switch q2 ((cur, p) :: rem)
          end
      | ASpawn c :: p => sim f ptab (enqueue q (tnode c)) ((c, lookup c ptab []) :: rem) flag cur p log
      | ASetFlag :: p => sim f ptab q rem true cur p log
      | ADrain :: p =>
          match items q with
          | [] => sim f ptab q rem flag cur p log
          | _ => switch (enqueue_yielded q (tnode cur)) ((cur, prog) :: rem)
          end
      end
  end.

(* ---- all workers of ONE shepherd on its queue (lock-section granularity), for the McCoy hand-over ---------- *)
Inductive wop := WPop (w : nat) | WPushY (n : node) | WPush (n : node) | WSteal (chunk : Z).

Definition wstep (q : queue) (o : wop) : queue * list node :=
  match o with
  | WPop w => match dequeue_worker q w with (Some n, q') => (q', [n]) | (None, q') => (q', []) end
  | WPushY n => (enqueue_yielded q n, [])
  | WPush n => (enqueue q n, [])
  | WSteal c => let '(s, q') := dequeue_steal c false q in (q', s)
  end.

Fixpoint wrun (q : queue) (ops : list wop) : queue * list (list node) :=
  match ops with
  | [] => (q, [])
  | o :: tl => let '(q1, out) := wstep q o in let '(q2, outs) := wrun q1 tl in (q2, out :: outs)
  end.

(* the rule BEFORE the fix (kept as a regression model): every worker pops the tail, whatever it is *)
Definition wstep_old (q : queue) (o : wop) : queue * list node :=
  match o with
  | WPop _ => match dequeue_owner q with (Some n, q') => (q', [n]) | (None, q') => (q', []) end
  | _ => wstep q o
  end.

Fixpoint wrun_old (q : queue) (ops : list wop) : queue * list (list node) :=
  match ops with
  | [] => (q, [])
  | o :: tl => let '(q1, out) := wstep_old q o in let '(q2, outs) := wrun_old q1 tl in (q2, out :: outs)
  end.
