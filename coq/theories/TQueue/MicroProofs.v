(* C08 - the micro-step lock machine (Micro.v): invariant for every schedule; mutual exclusion, refinement of the atomic
   list-level operations, conservation at every point, peek safety, no stuck state. *)
From Coq Require Import List ZArith NArith Bool Arith Lia ZifyBool ZifyNat ZifyN Permutation.
From QV Require Import TQueue.Model TQueue.Proofs TQueue.Micro.
Import ListNotations.
Local Open Scope Z_scope.

(* ---------------------------------------------------------------- tables *)
Lemma get_set_thr t t' c l : get_thr t' (set_thr t c l) = if Nat.eqb t' t then c else get_thr t' l.
Proof.
  induction l as [|[t2 c2] r IH]; cbn [set_thr get_thr].
  - destruct (Nat.eqb t' t); reflexivity.
  - destruct (Nat.eqb t t2) eqn:E; cbn [get_thr].
    + apply Nat.eqb_eq in E. subst t2. destruct (Nat.eqb t' t); reflexivity.
    + destruct (Nat.eqb t' t2) eqn:E2.
      * apply Nat.eqb_eq in E2. subst t2. rewrite Nat.eqb_sym, E. reflexivity.
      * exact IH.
Qed.

Lemma nth_upd_eq : forall A (l : list A) k x d, (k < length l)%nat -> nth k (upd l k x) d = x.
Proof. induction l as [|y tl IH]; intros k x d H; cbn [length] in H; [lia|]. destruct k; cbn [upd nth]; [reflexivity|]. apply IH. lia. Qed.
Lemma nth_upd_ne : forall A (l : list A) k j x d, j <> k -> nth j (upd l k x) d = nth j l d.
Proof.
  induction l as [|y tl IH]; intros k j x d H; [reflexivity|]. destruct k, j; cbn [upd nth]; try reflexivity; try congruence.
  apply IH. congruence.
Qed.

Definition heldsum (x : N) (l : list (nat * thread)) : nat :=
  fold_right (fun e acc => (cnt x (held (t_pc (snd e))) + acc)%nat) O l.
Lemma heldsum_set x t c l :
  (heldsum x (set_thr t c l) + cnt x (held (t_pc (get_thr t l))) = heldsum x l + cnt x (held (t_pc c)))%nat.
Proof.
  induction l as [|[t2 c2] r IH]; cbn [set_thr get_thr heldsum fold_right snd].
  - cbn. lia.
  - destruct (Nat.eqb t t2); cbn [heldsum fold_right snd]; fold (heldsum x r); fold (heldsum x (set_thr t c r)); lia.
Qed.

(* ---------------------------------------------------------------- list-level facts about the bodies *)
Lemma steal_with_spec : forall d v s v', exact v -> steal_with d v = (s, v') ->
  exact v' /\ Forall (fun n => stl n = true) s /\ (forall x, (cnt x (items v') + cnt x s = cnt x (items v))%nat) /\
  Z.of_nat (length s) <= Z.max d 0.
Proof.
  intros d v s v' [Hl Hs] H. unfold steal_with in H.
  destruct ((0 <? qstl v) && (0 <? d)) eqn:E.
  - apply andb_prop in E. destruct E as [E1 E2].
    rewrite (scan_spec (items v) false 0 (qlen v) (qstl v) d Hs ltac:(intros _; lia)) in H. rewrite Z.sub_0_r in H.
    destruct (take_stl (Z.to_nat d) (items v)) as [kp s0] eqn:Et. inversion H; subst.
    destruct (take_stl_kept_count _ _ _ _ Et) as [Hc Hn].
    repeat split.
    + cbn [items qlen]. lia.
    + cbn [items qstl]. lia.
    + eapply take_stl_stolen_stealable; eassumption.
    + intros x. cbn [items]. rewrite <- (cnt_perm x _ _ (take_stl_perm _ _ _ _ Et)), cnt_app. reflexivity.
    + pose proof (take_stl_length _ _ _ _ Et). lia.
  - inversion H; subst. repeat split; auto. cbn. lia.
Qed.

Lemma steal_with_desired : forall c v, dequeue_steal c false v = steal_with (desired c v) v.
Proof. reflexivity. Qed.

Lemma enqueue_multiple_cnt : forall q l x, (cnt x (items (enqueue_multiple q l)) = cnt x (items q) + cnt x l)%nat.
Proof. intros q [|n tl] x; cbn [enqueue_multiple items cnt]; [lia|]. rewrite cnt_app. reflexivity. Qed.

(* ---------------------------------------------------------------- the invariant *)
Definition thr (m : mstate) (u : nat) : thread := get_thr u (m_thr m).

Definition pc_wf (c : pc) : Prop :=
  match c with
  | E_Lock k _ _ | E_Body k _ _ _ | E_Unlock k => (k < 2)%nat
  | T_Unlock s => Forall (fun n => stl n = true) s
  | T_MLock _ sur | T_MBody _ sur _ => Forall (fun n => stl n = true) sur
  | _ => True
  end.
Definition op_wf (o : mop) : Prop := match o with MEnq k _ | MEnqY k _ => (k < 2)%nat | _ => True end.

Definition thr_ok (m : mstate) (u : nat) (th : thread) : Prop :=
  (t_home th < 2)%nat /\ pc_wf (t_pc th) /\ Forall op_wf (t_prog th) /\
  (forall k, holds (t_home th) (t_pc th) = Some k -> lockat m k = Some u) /\
  (forall k s, seen_of (t_home th) (t_pc th) = Some (k, s) -> s = qat m k).

Definition conserved (m : mstate) : Prop :=
  forall x, (cntq x (m_q m) + heldsum x (m_thr m) + cnt x (m_out m) = cnt x (m_added m))%nat.

Record MI (m : mstate) : Prop := mkMI {
  mi_lq : length (m_q m) = 2%nat;
  mi_ll : length (m_lock m) = 2%nat;
  mi_thr : forall u, thr_ok m u (thr m u);
  mi_owner : forall k u, lockat m k = Some u -> holds (t_home (thr m u)) (t_pc (thr m u)) = Some k;
  mi_exact : Forall exact (m_q m);
  mi_cons : conserved m
}.

Lemma other_lt : forall k, (other k < 2)%nat.
Proof. destruct k; cbn; lia. Qed.
Lemma holds_lt : forall home c k, (home < 2)%nat -> pc_wf c -> holds home c = Some k -> (k < 2)%nat.
Proof.
  intros home c k Hh Hw H. destruct c; cbn [holds pc_wf] in *; try discriminate; inversion H; subst; auto using other_lt.
Qed.
Lemma seen_holds : forall home c k s, seen_of home c = Some (k, s) -> holds home c = Some k.
Proof. intros home c k s H. destruct c; cbn [seen_of holds] in *; try discriminate; inversion H; reflexivity. Qed.
Lemma exact_qat : forall m k, Forall exact (m_q m) -> exact (qat m k).
Proof. intros m k H. unfold qat. apply Forall_nth_d; [exact H | exact exact_empty]. Qed.

(* mutual exclusion is a direct consequence *)
Lemma MI_mutex : forall m t u k, MI m ->
  holds (t_home (thr m t)) (t_pc (thr m t)) = Some k -> holds (t_home (thr m u)) (t_pc (thr m u)) = Some k -> t = u.
Proof.
  intros m t u k HM Ht Hu.
  destruct (mi_thr m HM t) as (_ & _ & _ & Ha & _). destruct (mi_thr m HM u) as (_ & _ & _ & Hb & _).
  pose proof (Ha k Ht). pose proof (Hb k Hu). congruence.
Qed.

(* the general preservation lemma: thread t moves to th', the shared fields change as described *)
Lemma MI_update : forall m m' t th',
  MI m ->
  m_thr m' = set_thr t th' (m_thr m) ->
  length (m_q m') = 2%nat -> length (m_lock m') = 2%nat ->
  thr_ok m' t th' ->
  (forall u k, u <> t -> holds (t_home (thr m u)) (t_pc (thr m u)) = Some k -> lockat m' k = lockat m k /\ qat m' k = qat m k) ->
  (forall k u, lockat m' k = Some u -> u <> t -> lockat m k = Some u) ->
  (forall k, lockat m' k = Some t -> holds (t_home th') (t_pc th') = Some k) ->
  Forall exact (m_q m') ->
  (forall x, (cntq x (m_q m') + cnt x (held (t_pc th')) + cnt x (m_out m') + cnt x (m_added m) =
              cntq x (m_q m) + cnt x (held (t_pc (thr m t))) + cnt x (m_out m) + cnt x (m_added m'))%nat) ->
  MI m'.
Proof.
  intros m m' t th' HM Hthr Hlq Hll Hok Hfr Hnew Hmine Hex Hcnt.
  assert (Hget : forall u, thr m' u = if Nat.eqb u t then th' else thr m u).
  { intros u. unfold thr. rewrite Hthr, get_set_thr. reflexivity. }
  constructor; try assumption.
  - intros u. rewrite Hget. destruct (Nat.eqb u t) eqn:E.
    + apply Nat.eqb_eq in E. subst u. exact Hok.
    + apply Nat.eqb_neq in E. destruct (mi_thr m HM u) as (H1 & H2 & H3 & H4 & H5).
      repeat split; try assumption.
      * intros k Hk. destruct (Hfr u k E Hk) as [Hl _]. rewrite Hl. apply H4. exact Hk.
      * intros k s Hs. destruct (Hfr u k E (seen_holds _ _ _ _ Hs)) as [_ Hq]. rewrite Hq. apply (H5 k s Hs).
  - intros k u Hl. rewrite Hget. destruct (Nat.eqb u t) eqn:E.
    + apply Nat.eqb_eq in E. subst u. apply Hmine. exact Hl.
    + apply Nat.eqb_neq in E. apply (mi_owner m HM). apply Hnew; assumption.
  - intros x. pose proof (mi_cons m HM x) as Hc. pose proof (heldsum_set x t th' (m_thr m)) as Hh. rewrite <- Hthr in Hh.
    specialize (Hcnt x). unfold thr in Hcnt. lia.
Qed.

Lemma lockat_goto m t th c k : lockat (goto m t th c) k = lockat m k. Proof. reflexivity. Qed.
Lemma qat_goto m t th c k : qat (goto m t th c) k = qat m k. Proof. reflexivity. Qed.
Lemma lockat_set_q m j q k : lockat (set_q m j q) k = lockat m k. Proof. reflexivity. Qed.
Lemma qat_set_lock m j o k : qat (set_lock m j o) k = qat m k. Proof. reflexivity. Qed.
Lemma lockat_finish m t th r k : lockat (finish m t th r) k = lockat m k. Proof. reflexivity. Qed.
Lemma qat_finish m t th r k : qat (finish m t th r) k = qat m k. Proof. reflexivity. Qed.
Ltac norm := rewrite ?lockat_goto, ?qat_goto, ?lockat_set_q, ?qat_set_lock, ?lockat_finish, ?qat_finish in *.

(* ---------------------------------------------------------------- the classes of steps *)
Section Classes.
  Variables (m : mstate) (t : nat).
  Hypothesis HM : MI m.
  Let th := thr m t.
  Let home := t_home th.

  Lemma th_ok : thr_ok m t th.
  Proof. apply (mi_thr m HM). Qed.

  (* only the program counter changes; nothing held before or after *)
  Lemma MI_plain : forall c', holds home (t_pc th) = None -> holds home c' = None -> seen_of home c' = None -> pc_wf c' ->
    (forall x, cnt x (held c') = cnt x (held (t_pc th))) -> MI (goto m t th c').
  Proof.
    intros c' H0 H1 H2 Hw Hc. destruct th_ok as (Hh & _ & Hp & _ & _).
    apply (MI_update m _ t (with_pc th c') HM);
      try reflexivity; try apply (mi_lq m HM); try apply (mi_ll m HM); try apply (mi_exact m HM).
    - repeat split; cbn [t_home t_pc t_prog with_pc]; fold home; try assumption.
      + intros k Hk. rewrite H1 in Hk. discriminate.
      + intros k s Hk. rewrite H2 in Hk. discriminate.
    - intros u k _ _. split; reflexivity.
    - intros k u Hl _. norm. exact Hl.
    - intros k Hl. norm. apply (mi_owner m HM) in Hl. fold th home in Hl. rewrite H0 in Hl. discriminate.
    - intros x. cbn [goto finish deliver with_thr with_pc set_q set_lock m_q m_out m_added t_pc]. rewrite Hc. fold th. lia.
  Qed.

  (* LOCK / successful TRY of lock k *)
  Lemma MI_acquire : forall k c', (k < 2)%nat -> lockat m k = None -> holds home (t_pc th) = None ->
    holds home c' = Some k -> seen_of home c' = Some (k, qat m k) -> pc_wf c' ->
    (forall x, cnt x (held c') = cnt x (held (t_pc th))) -> MI (goto (set_lock m k (Some t)) t th c').
  Proof.
    intros k c' Hk Hfree H0 H1 H2 Hw Hc. destruct th_ok as (Hh & _ & Hp & _ & _).
    assert (Hsame : lockat (set_lock m k (Some t)) k = Some t).
    { unfold lockat, set_lock. cbn [m_lock]. apply nth_upd_eq. rewrite (mi_ll m HM). exact Hk. }
    assert (Hoth : forall j, j <> k -> lockat (set_lock m k (Some t)) j = lockat m j).
    { intros j Hj. unfold lockat, set_lock. cbn [m_lock]. apply nth_upd_ne. exact Hj. }
    apply (MI_update m _ t (with_pc th c') HM);
      try reflexivity; try apply (mi_lq m HM); try apply (mi_exact m HM).
    - cbn [goto with_thr set_lock m_lock]. rewrite length_upd. apply (mi_ll m HM).
    - repeat split; cbn [t_home t_pc t_prog with_pc]; fold home; try assumption.
      + intros j Hj. rewrite H1 in Hj. inversion Hj; subst. norm. exact Hsame.
      + intros j s Hj. rewrite H2 in Hj. inversion Hj; subst. norm. reflexivity.
    - intros u j Hu Hj. norm. split; [|reflexivity]. apply Hoth. intros ->.
      destruct (mi_thr m HM u) as (_ & _ & _ & Ha & _). rewrite (Ha k Hj) in Hfree. discriminate.
    - intros j u Hl Hu. norm. destruct (Nat.eq_dec j k) as [->|Hj]; [rewrite Hsame in Hl; congruence|]. rewrite (Hoth j Hj) in Hl. exact Hl.
    - intros j Hl. norm. destruct (Nat.eq_dec j k) as [->|Hj]; [exact H1|]. rewrite (Hoth j Hj) in Hl.
      apply (mi_owner m HM) in Hl. fold th home in Hl. rewrite H0 in Hl. discriminate.
    - intros x. cbn [goto finish deliver with_thr with_pc set_q set_lock m_q m_out m_added t_pc]. rewrite Hc. fold th. lia.
  Qed.

  (* the body of a critical section on queue k *)
  Lemma MI_body : forall k seen q' c', seen_of home (t_pc th) = Some (k, seen) ->
    holds home c' = Some k -> seen_of home c' = None -> pc_wf c' ->
    (exact seen -> exact q') ->
    (forall x, (cnt x (items q') + cnt x (held c') = cnt x (items seen) + cnt x (held (t_pc th)))%nat) ->
    MI (goto (set_q m k q') t th c').
  Proof.
    intros k seen q' c' Hs H1 H2 Hw Hex Hc. destruct th_ok as (Hh & Hwf & Hp & Ha & Hb).
    pose proof (seen_holds _ _ _ _ Hs) as H0. pose proof (Ha k H0) as Hlk. pose proof (Hb k seen Hs) as Hseen.
    pose proof (holds_lt _ _ _ Hh Hwf H0) as Hk.
    assert (Hoth : forall j, j <> k -> qat (set_q m k q') j = qat m j).
    { intros j Hj. unfold qat, set_q. cbn [m_q]. apply nth_upd_ne. exact Hj. }
    apply (MI_update m _ t (with_pc th c') HM);
      try reflexivity; try apply (mi_ll m HM).
    - cbn [goto with_thr set_q m_q]. rewrite length_upd. apply (mi_lq m HM).
    - repeat split; cbn [t_home t_pc t_prog with_pc]; fold home; try assumption.
      + intros j Hj. rewrite H1 in Hj. inversion Hj; subst. norm. exact Hlk.
      + intros j s Hj. rewrite H2 in Hj. discriminate.
    - intros u j Hu Hj. norm. split; [reflexivity|]. apply Hoth. intros ->.
      destruct (mi_thr m HM u) as (_ & _ & _ & Ha' & _). pose proof (Ha' k Hj). congruence.
    - intros j u Hl _. norm. exact Hl.
    - intros j Hl. norm. apply (mi_owner m HM) in Hl. fold th home in Hl. rewrite H0 in Hl. inversion Hl; subst. exact H1.
    - apply Forall_upd; [apply (mi_exact m HM)|]. apply Hex. rewrite Hseen. apply exact_qat. apply (mi_exact m HM).
    - intros x. cbn [goto finish deliver with_thr with_pc set_q set_lock m_q m_out m_added t_pc]. pose proof (cntq_upd x (m_q m) k q' empty_queue ltac:(rewrite (mi_lq m HM); exact Hk)) as Hu.
      specialize (Hc x). rewrite Hseen in Hc. unfold qat in Hc. fold th. lia.
  Qed.

  (* UNLOCK of lock k *)
  Lemma MI_release : forall k c', holds home (t_pc th) = Some k -> holds home c' = None -> seen_of home c' = None -> pc_wf c' ->
    (forall x, cnt x (held c') = cnt x (held (t_pc th))) -> MI (goto (set_lock m k None) t th c').
  Proof.
    intros k c' H0 H1 H2 Hw Hc. destruct th_ok as (Hh & Hwf & Hp & Ha & _).
    pose proof (Ha k H0) as Hlk. pose proof (holds_lt _ _ _ Hh Hwf H0) as Hk.
    assert (Hsame : lockat (set_lock m k None) k = None).
    { unfold lockat, set_lock. cbn [m_lock]. apply nth_upd_eq. rewrite (mi_ll m HM). exact Hk. }
    assert (Hoth : forall j, j <> k -> lockat (set_lock m k None) j = lockat m j).
    { intros j Hj. unfold lockat, set_lock. cbn [m_lock]. apply nth_upd_ne. exact Hj. }
    apply (MI_update m _ t (with_pc th c') HM);
      try reflexivity; try apply (mi_lq m HM); try apply (mi_exact m HM).
    - cbn [goto with_thr set_lock m_lock]. rewrite length_upd. apply (mi_ll m HM).
    - repeat split; cbn [t_home t_pc t_prog with_pc]; fold home; try assumption.
      + intros j Hj. rewrite H1 in Hj. discriminate.
      + intros j s Hj. rewrite H2 in Hj. discriminate.
    - intros u j Hu Hj. norm. split; [|reflexivity]. apply Hoth. intros ->.
      destruct (mi_thr m HM u) as (_ & _ & _ & Ha' & _). pose proof (Ha' k Hj). congruence.
    - intros j u Hl Hu. norm. destruct (Nat.eq_dec j k) as [->|Hj]; [rewrite Hsame in Hl; discriminate|]. rewrite (Hoth j Hj) in Hl. exact Hl.
    - intros j Hl. norm. destruct (Nat.eq_dec j k) as [->|Hj]; [rewrite Hsame in Hl; discriminate|]. rewrite (Hoth j Hj) in Hl.
      apply (mi_owner m HM) in Hl. fold th home in Hl. rewrite H0 in Hl. inversion Hl; subst. contradiction.
    - intros x. cbn [goto finish deliver with_thr with_pc set_q set_lock m_q m_out m_added t_pc]. rewrite Hc. fold th. lia.
  Qed.

  (* the operation returns r (nothing locked) *)
  Lemma MI_finish : forall r, holds home (t_pc th) = None -> (forall x, cnt x (held (t_pc th)) = cnt x (olist r)) -> MI (finish m t th r).
  Proof.
    intros r H0 Hc. destruct th_ok as (Hh & _ & Hp & _ & _).
    apply (MI_update m _ t (mkThr (t_home th) (t_w th) Idle (t_prog th) (r :: t_ret th)) HM);
      try reflexivity; try apply (mi_lq m HM); try apply (mi_ll m HM); try apply (mi_exact m HM).
    - repeat split; cbn [t_home t_pc t_prog holds seen_of pc_wf]; try assumption; intros; discriminate.
    - intros u k _ _. split; reflexivity.
    - intros k u Hl _. norm. exact Hl.
    - intros k Hl. norm. apply (mi_owner m HM) in Hl. fold th home in Hl. rewrite H0 in Hl. discriminate.
    - intros x. cbn [goto finish deliver with_thr with_pc set_q set_lock m_q m_out m_added t_pc]. rewrite cnt_app. cbn [held cnt]. fold th. rewrite (Hc x). lia.
  Qed.

  (* Idle: the next operation starts *)
  Lemma MI_start : forall c' rest adds, t_pc th = Idle -> holds home c' = None -> seen_of home c' = None -> pc_wf c' -> Forall op_wf rest ->
    (forall x, cnt x (held c') = cnt x adds) ->
    MI (mkM (m_q m) (m_lock m) (m_steal m) (m_chunk m) (m_dis m) (adds ++ m_added m) (m_out m)
            (set_thr t (mkThr (t_home th) (t_w th) c' rest (t_ret th)) (m_thr m))).
  Proof.
    intros c' rest adds Hi H1 H2 Hw Hr Hc. destruct th_ok as (Hh & _ & _ & _ & _).
    apply (MI_update m _ t (mkThr (t_home th) (t_w th) c' rest (t_ret th)) HM);
      try reflexivity; try apply (mi_lq m HM); try apply (mi_ll m HM); try apply (mi_exact m HM).
    - repeat split; cbn [t_home t_pc t_prog]; fold home; try assumption.
      + intros k Hk. rewrite H1 in Hk. discriminate.
      + intros k s Hk. rewrite H2 in Hk. discriminate.
    - intros u k _ _. split; reflexivity.
    - intros k u Hl _. norm. exact Hl.
    - intros k Hl. change (lockat m k = Some t) in Hl. apply (mi_owner m HM) in Hl. fold th home in Hl. rewrite Hi in Hl. discriminate.
    - intros x. cbn [goto finish deliver with_thr with_pc set_q set_lock m_q m_out m_added t_pc]. rewrite cnt_app, Hc. fold th. rewrite Hi. cbn [held cnt]. lia.
  Qed.
End Classes.

Lemma MI_set_steal : forall m k v, MI m -> MI (set_steal m k v).
Proof. intros m k v [H1 H2 H3 H4 H5 H6]. constructor; assumption. Qed.

(* set_steal commutes with the thread lookups used by finish / goto *)
Lemma thr_set_steal : forall m k v u, thr (set_steal m k v) u = thr m u.
Proof. reflexivity. Qed.

(* ---------------------------------------------------------------- one step *)
(* a step leaves the queues alone or performs exactly one atomic list-level operation on them *)
Definition qstep_rel (m m' : mstate) : Prop := m_q m' = m_q m \/ exists a, m_q m' = astep (m_q m) a.

Lemma qat_nth : forall m k, qat m k = nth k (m_q m) empty_queue.
Proof. reflexivity. Qed.


Lemma mstep_MI : forall m t m', MI m -> mstep true m t = Some m' -> MI m' /\ qstep_rel m m'.
Proof.
  intros m t m' HM Hs.
  pose proof (mi_thr m HM t) as (Hh & Hwf & Hp & Ha & Hb).
  unfold mstep in Hs. cbv zeta in Hs. fold (thr m t) in Hs.
  assert (Ev : (other (t_home (thr m t)) < 2)%nat) by apply other_lt.
  destruct (t_pc (thr m t)) eqn:Epc; cbn [pc_wf holds seen_of] in *.
  - (* Idle *)
    destruct (t_prog (thr m t)) as [|o rest] eqn:Epr; [discriminate|]. assert (Ho : op_wf o /\ Forall op_wf rest) by (inversion Hp; auto). destruct Ho as [Ho Hrest].
    destruct o as [k n|k n| |]; injection Hs as <-; (split; [|left; reflexivity]).
    + apply (MI_start m t HM (E_Lock k n false) rest [n]); rewrite ?Epc; cbn; auto.
    + apply (MI_start m t HM (E_Lock k n true) rest [n]); rewrite ?Epc; cbn; auto.
    + apply (MI_start m t HM D_Peek rest []); rewrite ?Epc; cbn; auto.
    + apply (MI_start m t HM T_PeekFlag rest []); rewrite ?Epc; cbn; auto.
  - (* E_Lock *)
    destruct (lockat m k) eqn:El; [discriminate|]. injection Hs as <-. split; [|left; reflexivity].
    apply MI_acquire; rewrite ?Epc; cbn; auto.
  - (* E_Body *)
    injection Hs as <-. split.
    + eapply MI_body; rewrite ?Epc; cbn [seen_of holds pc_wf held]; try reflexivity; auto.
      * intros He. destruct y; [apply exact_enqueue_yielded | apply exact_enqueue]; exact He.
      * intros x. destruct y; cbn [enqueue enqueue_yielded items cnt]; rewrite ?cnt_app; cbn [cnt]; lia.
    + right. pose proof (Hb k seen eq_refl) as Hse. destruct y.
      * exists (AEnqY k n). cbn [goto with_thr set_q m_q astep]. rewrite Hse. reflexivity.
      * exists (AEnq k n). cbn [goto with_thr set_q m_q astep]. rewrite Hse. reflexivity.
  - (* E_Unlock *)
    injection Hs as <-. split; [|left; reflexivity].
    eapply MI_release; rewrite ?Epc; cbn; auto.
  - (* D_Peek *)
    destruct (items (qat m (t_home (thr m t)))); injection Hs as <-; (split; [|left; reflexivity]).
    + apply MI_finish; rewrite ?Epc; cbn; auto.
    + apply MI_plain; rewrite ?Epc; cbn; auto.
  - (* D_Lock *)
    destruct (lockat m (t_home (thr m t))) eqn:El; [discriminate|]. injection Hs as <-. split; [|left; reflexivity].
    apply MI_acquire; rewrite ?Epc; cbn; auto.
  - (* D_Body *)
    destruct (dequeue_worker seen (t_w (thr m t))) as [o q'] eqn:Ed. injection Hs as <-. split.
    + eapply MI_body; rewrite ?Epc; cbn [seen_of holds pc_wf held]; try reflexivity; auto.
      * intros He. eapply exact_dequeue_worker; eassumption.
      * intros x. pose proof (dequeue_worker_cnt _ _ _ _ Ed x) as Hc. unfold olist. cbn [cnt]. lia.
    + right. exists (APop (t_home (thr m t)) (t_w (thr m t))). pose proof (Hb _ seen eq_refl) as Hse.
      cbn [goto with_thr set_q m_q astep]. rewrite <- qat_nth, <- Hse, Ed. reflexivity.
  - (* D_Unlock *)
    injection Hs as <-. split; [|left; reflexivity].
    eapply MI_release; rewrite ?Epc; cbn; auto.
  - (* D_Fin *)
    injection Hs as <-. split; [|left; destruct r as [n|]; [destruct (mccoy n && negb (stat m (t_home (thr m t)) =? 0))|]; reflexivity].
    assert (Hgen : forall m1, MI m1 -> thr m1 t = thr m t -> MI (finish m1 t (thr m t) r)).
    { intros m1 HM1 E1. rewrite <- E1. apply MI_finish; [exact HM1 | rewrite E1, Epc; reflexivity | rewrite E1, Epc; reflexivity]. }
    destruct r as [n|]; [destruct (mccoy n && negb (stat m (t_home (thr m t)) =? 0))|];
      apply Hgen; try apply MI_set_steal; try exact HM; reflexivity.
  - (* T_PeekFlag *)
    destruct (stat m (t_home (thr m t)) =? 0); injection Hs as <-; (split; [|left; reflexivity]).
    + apply MI_plain; rewrite ?Epc; cbn; auto.
    + apply MI_finish; rewrite ?Epc; cbn; auto.
  - (* T_Cas *)
    destruct (stat m (t_home (thr m t)) =? 0); injection Hs as <-; (split; [|left; reflexivity]).
    + apply (MI_plain (set_steal m (t_home (thr m t)) 1) t (MI_set_steal _ _ _ HM)); rewrite ?thr_set_steal, ?Epc; cbn; auto.
    + apply MI_finish; rewrite ?Epc; cbn; auto.
  - (* T_PeekV *)
    destruct (qstl (qat m (other (t_home (thr m t)))) =? 0); injection Hs as <-; (split; [|left; reflexivity]);
      apply MI_plain; rewrite ?Epc; cbn; auto.
  - (* T_ReadD *)
    injection Hs as <-. split; [|left; reflexivity]. apply MI_plain; rewrite ?Epc; cbn; auto.
  - (* T_Try *)
    destruct (lockat m (other (t_home (thr m t)))) eqn:El; injection Hs as <-; (split; [|left; reflexivity]).
    + apply MI_plain; rewrite ?Epc; cbn; auto.
    + apply MI_acquire; rewrite ?Epc; cbn; auto.
  - (* T_Body *)
    destruct (steal_with d seen) as [s v'] eqn:Est. injection Hs as <-. split.
    + eapply MI_body; rewrite ?Epc; cbn [seen_of holds pc_wf held]; try reflexivity; auto.
      * pose proof (Hb _ seen eq_refl) as Hse. pose proof (exact_qat m (other (t_home (thr m t))) (mi_exact m HM)) as Hex. rewrite <- Hse in Hex.
        destruct (steal_with_spec _ _ _ _ Hex Est) as (_ & Hall & _). exact Hall.
      * intros He. destruct (steal_with_spec _ _ _ _ He Est) as (H1 & _). exact H1.
      * intros x. pose proof (Hb _ seen eq_refl) as Hse. pose proof (exact_qat m (other (t_home (thr m t))) (mi_exact m HM)) as Hex. rewrite <- Hse in Hex.
        destruct (steal_with_spec _ _ _ _ Hex Est) as (_ & _ & Hc & _). specialize (Hc x). cbn [cnt]. lia.
    + right. exists (ASteal (other (t_home (thr m t))) d). pose proof (Hb _ seen eq_refl) as Hse.
      cbn [goto with_thr set_q m_q astep]. rewrite <- qat_nth, <- Hse, Est. reflexivity.
  - (* T_Unlock *)
    destruct s as [|f [|g sur]]; injection Hs as <-; (split; [|left; reflexivity]);
      eapply MI_release; rewrite ?Epc; cbn [holds seen_of pc_wf held olist]; try reflexivity; auto.
    inversion Hwf; assumption.
  - (* T_MLock *)
    destruct (lockat m (t_home (thr m t))) eqn:El; [discriminate|]. injection Hs as <-. split; [|left; reflexivity].
    apply MI_acquire; rewrite ?Epc; cbn; auto.
  - (* T_MBody *)
    injection Hs as <-. split.
    + eapply MI_body; rewrite ?Epc; cbn [seen_of holds pc_wf held]; try reflexivity; auto.
      * intros He. apply exact_enqueue_multiple; assumption.
      * intros x. rewrite enqueue_multiple_cnt. cbn [cnt]. lia.
    + right. exists (AMulti (t_home (thr m t)) sur). pose proof (Hb _ seen eq_refl) as Hse.
      cbn [goto with_thr set_q m_q astep]. rewrite <- qat_nth, <- Hse. reflexivity.
  - (* T_MUnlock *)
    injection Hs as <-. split; [|left; reflexivity].
    eapply MI_release; rewrite ?Epc; cbn; auto.
  - (* T_PeekOwn *)
    destruct ((0 <? qlen (qat m (t_home (thr m t)))) || m_dis m); injection Hs as <-; (split; [|left; reflexivity]);
      apply MI_plain; rewrite ?Epc; cbn; auto.
  - (* T_Spin *)
    injection Hs as <-. split; [|left; reflexivity]. apply MI_plain; rewrite ?Epc; cbn; auto.
  - (* T_Clear *)
    injection Hs as <-. split; [|left; reflexivity].
    apply (MI_finish (set_steal m (t_home (thr m t)) 0) t (MI_set_steal _ _ _ HM)); rewrite ?thr_set_steal, ?Epc; reflexivity.
Qed.

(* ---------------------------------------------------------------- every schedule *)
Definition cfg_wf (cfg : list (nat * (nat * nat * list mop))) : Prop :=
  Forall (fun e => (fst (fst (snd e)) < 2)%nat /\ Forall op_wf (snd (snd e))) cfg.

Lemma get_mk_threads : forall cfg u, cfg_wf cfg ->
  t_pc (get_thr u (mk_threads cfg)) = Idle /\ (t_home (get_thr u (mk_threads cfg)) < 2)%nat /\
  Forall op_wf (t_prog (get_thr u (mk_threads cfg))).
Proof.
  induction cfg as [|[t0 [[h w] pr]] r IH]; intros u Hc; cbn [mk_threads map get_thr fst snd].
  - cbn. repeat split; [lia | constructor].
  - inversion Hc as [|? ? [H1 H2] Hr]; subst. cbn [fst snd] in *. destruct (Nat.eqb u t0).
    + cbn. repeat split; assumption.
    + apply IH. exact Hr.
Qed.
Lemma heldsum_mk : forall cfg x, heldsum x (mk_threads cfg) = O.
Proof. induction cfg as [|e r IH]; intros x; [reflexivity|]. cbn [mk_threads map heldsum fold_right snd t_pc held cnt]. apply IH. Qed.

Lemma MI_init : forall q0 q1 chunk dis cfg, exact q0 -> exact q1 -> cfg_wf cfg -> MI (minit q0 q1 chunk dis cfg).
Proof.
  intros q0 q1 chunk dis cfg H0 H1 Hc. constructor; cbn [minit m_q m_lock m_thr m_out m_added].
  - reflexivity.
  - reflexivity.
  - intros u. unfold thr. cbn [minit m_thr]. destruct (get_mk_threads cfg u Hc) as (Hp & Hh & Hpr).
    unfold thr_ok. rewrite Hp. cbn [holds seen_of pc_wf]. repeat split; auto; intros; discriminate.
  - intros k u Hl. unfold lockat in Hl. cbn [minit m_lock] in Hl. destruct k as [|[|k]]; cbn in Hl; try discriminate. destruct k; discriminate.
  - constructor; [exact H0|]. constructor; [exact H1|]. constructor.
  - intros x. cbn [minit m_q m_thr m_out m_added cntq cnt]. rewrite heldsum_mk, cnt_app. lia.
Qed.

Lemma mrun_MI : forall s m m', MI m -> mrun true m s = Some m' -> MI m' /\ exists h, m_q m' = arun (m_q m) h.
Proof.
  induction s as [|t s IH]; intros m m' HM Hr; cbn [mrun] in Hr.
  - injection Hr as <-. split; [exact HM|]. exists []. reflexivity.
  - destruct (mstep true m t) as [m1|] eqn:Es; [|discriminate].
    destruct (mstep_MI m t m1 HM Es) as [HM1 Hq]. destruct (IH m1 m' HM1 Hr) as [HM' [h Hh]].
    split; [exact HM'|]. destruct Hq as [Hq|[a Hq]].
    + exists h. rewrite Hh, Hq. reflexivity.
    + exists (a :: h). rewrite Hh, Hq. reflexivity.
Qed.

(* at most one thread inside a qlock critical section; a thread inside sees the queue as it locked it *)
Theorem tq_lock_mutex_all : forall q0 q1 chunk dis cfg s m,
  exact q0 -> exact q1 -> cfg_wf cfg -> mrun true (minit q0 q1 chunk dis cfg) s = Some m ->
  (forall t u k, holds (t_home (thr m t)) (t_pc (thr m t)) = Some k -> holds (t_home (thr m u)) (t_pc (thr m u)) = Some k -> t = u) /\
  (forall t k, holds (t_home (thr m t)) (t_pc (thr m t)) = Some k -> lockat m k = Some t) /\
  (forall t k seen, seen_of (t_home (thr m t)) (t_pc (thr m t)) = Some (k, seen) -> seen = qat m k /\ lockat m k = Some t).
Proof.
  intros q0 q1 chunk dis cfg s m H0 H1 Hc Hr.
  destruct (mrun_MI s _ m (MI_init q0 q1 chunk dis cfg H0 H1 Hc) Hr) as [HM _].
  split; [|split].
  - intros t u k. apply MI_mutex. exact HM.
  - intros t k Hk. destruct (mi_thr m HM t) as (_ & _ & _ & Ha & _). apply Ha. exact Hk.
  - intros t k seen Hs. destruct (mi_thr m HM t) as (_ & _ & _ & Ha & Hb). split; [apply (Hb k seen Hs)|].
    apply Ha. eapply seen_holds. exact Hs.
Qed.

(* every reachable micro state: the queues are those of the list-level model after the operations whose critical-section body
   has run, in lock-acquisition order; both counters exact; no task lost or duplicated at any point *)
Theorem tq_micro_refines_atomic_all : forall q0 q1 chunk dis cfg s m,
  exact q0 -> exact q1 -> cfg_wf cfg -> mrun true (minit q0 q1 chunk dis cfg) s = Some m ->
  (exists h, m_q m = arun [q0; q1] h) /\
  Forall exact (m_q m) /\
  (forall x, (cntq x (m_q m) + heldsum x (m_thr m) + cnt x (m_out m) = cnt x (m_added m))%nat).
Proof.
  intros q0 q1 chunk dis cfg s m H0 H1 Hc Hr.
  destruct (mrun_MI s _ m (MI_init q0 q1 chunk dis cfg H0 H1 Hc) Hr) as [HM Hh].
  split; [exact Hh|]. split; [apply (mi_exact m HM) | apply (mi_cons m HM)].
Qed.

(* ---------------------------------------------------------------- peeks *)
Definition is_peek (c : pc) : bool :=
  match c with D_Peek | T_PeekFlag | T_PeekV | T_ReadD | T_PeekOwn => true | _ => false end.

Lemma upd_nth_same : forall A (l : list A) k d, upd l k (nth k l d) = l.
Proof. induction l as [|y tl IH]; intros k d; [reflexivity|]. destruct k; cbn [upd nth]; [reflexivity|]. rewrite IH. reflexivity. Qed.

Lemma peek_step : forall m t m', mstep true m t = Some m' -> is_peek (t_pc (thr m t)) = true ->
  m_q m' = m_q m /\ m_lock m' = m_lock m /\ m_steal m' = m_steal m /\ m_out m' = m_out m /\ held (t_pc (thr m' t)) = [].
Proof.
  intros m t m' Hs Hp. unfold mstep in Hs. cbv zeta in Hs. fold (thr m t) in Hs.
  assert (Hself : forall m0 c, thr (goto m0 t (thr m t) c) t = with_pc (thr m t) c).
  { intros. unfold thr, goto, with_thr. cbn [m_thr]. rewrite get_set_thr, Nat.eqb_refl. reflexivity. }
  assert (Hfin : forall m0 r, t_pc (thr (finish m0 t (thr m t) r) t) = Idle).
  { intros. unfold thr, finish, with_thr. cbn [m_thr]. rewrite get_set_thr, Nat.eqb_refl. reflexivity. }
  destruct (t_pc (thr m t)) eqn:Epc; cbn [is_peek] in Hp; try discriminate.
  - destruct (items (qat m (t_home (thr m t)))); injection Hs as <-; rewrite ?Hself, ?Hfin; repeat split; reflexivity.
  - destruct (stat m (t_home (thr m t)) =? 0); injection Hs as <-; rewrite ?Hself, ?Hfin; repeat split; reflexivity.
  - destruct (qstl (qat m (other (t_home (thr m t)))) =? 0); injection Hs as <-; rewrite ?Hself, ?Hfin; repeat split; reflexivity.
  - injection Hs as <-. rewrite ?Hself. repeat split; reflexivity.
  - destruct ((0 <? qlen (qat m (t_home (thr m t)))) || m_dis m); injection Hs as <-; rewrite ?Hself; repeat split; reflexivity.
Qed.

(* An unlocked peek - stale or not - writes nothing and moves no task: it only decides between a skipped attempt and a locked
   attempt.  A locked attempt whose peek was stale (the queue is empty / has nothing stealable once the lock is held) takes
   nothing and leaves the queue as it is.  In every case nothing is lost: the state after the step is conserved and exact. *)
Theorem tq_peek_safe_all : forall q0 q1 chunk dis cfg s m t m',
  exact q0 -> exact q1 -> cfg_wf cfg -> mrun true (minit q0 q1 chunk dis cfg) s = Some m -> mstep true m t = Some m' ->
  (is_peek (t_pc (thr m t)) = true ->
     m_q m' = m_q m /\ m_lock m' = m_lock m /\ m_steal m' = m_steal m /\ m_out m' = m_out m /\ held (t_pc (thr m' t)) = []) /\
  (forall seen, t_pc (thr m t) = D_Body seen -> items seen = [] -> m_q m' = m_q m /\ t_pc (thr m' t) = D_Unlock None) /\
  (forall d seen, t_pc (thr m t) = T_Body d seen -> qstl seen = 0 -> m_q m' = m_q m /\ t_pc (thr m' t) = T_Unlock []) /\
  Forall exact (m_q m') /\
  (forall x, (cntq x (m_q m') + heldsum x (m_thr m') + cnt x (m_out m') = cnt x (m_added m'))%nat).
Proof.
  intros q0 q1 chunk dis cfg s m t m' H0 H1 Hc Hr Hs.
  destruct (mrun_MI s _ m (MI_init q0 q1 chunk dis cfg H0 H1 Hc) Hr) as [HM _].
  destruct (mstep_MI m t m' HM Hs) as [HM' _].
  pose proof (mi_thr m HM t) as (_ & _ & _ & _ & Hb).
  assert (Hself : forall m0 c, t_pc (thr (goto m0 t (thr m t) c) t) = c).
  { intros. unfold thr, goto, with_thr. cbn [m_thr]. rewrite get_set_thr, Nat.eqb_refl. reflexivity. }
  split; [apply peek_step; exact Hs|]. split; [|split; [|split; [apply (mi_exact m' HM') | apply (mi_cons m' HM')]]].
  - intros seen Epc He. unfold mstep in Hs. cbv zeta in Hs. fold (thr m t) in Hs. rewrite Epc in Hs, Hb.
    assert (Ed : dequeue_worker seen (t_w (thr m t)) = (None, seen)) by (unfold dequeue_worker; rewrite He; reflexivity).
    rewrite Ed in Hs. injection Hs as <-. rewrite Hself. split; [|reflexivity].
    cbn [goto with_thr set_q m_q]. rewrite (Hb _ seen eq_refl). unfold qat. apply upd_nth_same.
  - intros d seen Epc He. unfold mstep in Hs. cbv zeta in Hs. fold (thr m t) in Hs. rewrite Epc in Hs, Hb.
    assert (Ed : steal_with d seen = ([], seen)) by (unfold steal_with; rewrite He; reflexivity).
    rewrite Ed in Hs. injection Hs as <-. rewrite Hself. split; [|reflexivity].
    cbn [goto with_thr set_q m_q]. rewrite (Hb _ seen eq_refl). unfold qat. apply upd_nth_same.
Qed.

(* ---------------------------------------------------------------- progress *)
Lemma holder_enabled : forall m v k, holds (t_home (thr m v)) (t_pc (thr m v)) = Some k -> mstep true m v <> None.
Proof.
  intros m v k Hk. unfold mstep. cbv zeta. fold (thr m v).
  destruct (t_pc (thr m v)); cbn [holds] in Hk; try discriminate; try (intros H; discriminate).
  - destruct (dequeue_worker seen (t_w (thr m v))). discriminate.
  - destruct (steal_with d seen). discriminate.
  - destruct s as [|f [|g sur]]; discriminate.
Qed.

(* no reachable state in which every unfinished thread is waiting: whenever some thread has not finished its program, some
   thread can take a step (a waiting thread waits for a qlock whose holder is inside its critical section and always enabled;
   a failed TRY, a failed CAS and a SPIN are steps) *)
Theorem tq_no_stuck_all : forall q0 q1 chunk dis cfg s m u,
  exact q0 -> exact q1 -> cfg_wf cfg -> mrun true (minit q0 q1 chunk dis cfg) s = Some m ->
  (t_pc (thr m u) <> Idle \/ t_prog (thr m u) <> []) ->
  exists v, mstep true m v <> None.
Proof.
  intros q0 q1 chunk dis cfg s m u H0 H1 Hc Hr Hu.
  destruct (mrun_MI s _ m (MI_init q0 q1 chunk dis cfg H0 H1 Hc) Hr) as [HM _].
  destruct (mstep true m u) as [m1|] eqn:Es; [exists u; rewrite Es; discriminate|].
  assert (Hw : exists k v, lockat m k = Some v).
  { unfold mstep in Es. cbv zeta in Es. fold (thr m u) in Es.
    destruct (t_pc (thr m u)) eqn:Epc; try discriminate.
    - destruct (t_prog (thr m u)) as [|[k n|k n| |] rest] eqn:Ep; try discriminate. destruct Hu as [Hu|Hu]; congruence.
    - destruct (lockat m k) eqn:El; [eauto | discriminate].
    - destruct (items (qat m (t_home (thr m u)))); discriminate.
    - destruct (lockat m (t_home (thr m u))) eqn:El; [eauto | discriminate].
    - destruct (dequeue_worker seen (t_w (thr m u))). discriminate.
    - destruct (stat m (t_home (thr m u)) =? 0); discriminate.
    - destruct (stat m (t_home (thr m u)) =? 0); discriminate.
    - destruct (qstl (qat m (other (t_home (thr m u)))) =? 0); discriminate.
    - destruct (lockat m (other (t_home (thr m u)))); discriminate.
    - destruct (steal_with d seen). discriminate.
    - destruct s0 as [|f [|g sur]]; discriminate.
    - destruct (lockat m (t_home (thr m u))) eqn:El; [eauto | discriminate].
    - destruct ((0 <? qlen (qat m (t_home (thr m u)))) || m_dis m); discriminate. }
  destruct Hw as (k & v & Hl). exists v. eapply holder_enabled. apply (mi_owner m HM). exact Hl.
Qed.

(* ---------------------------------------------------------------- the lock is needed (regression of the discipline) *)
Definition nA := mkNode 1 true false 0.
Definition nB := mkNode 2 true false 0.
Definition cfg2 : list (nat * (nat * nat * list mop)) := [(0%nat, (0%nat, 0%nat, [MEnq 0 nA])); (1%nat, (1%nat, 2%nat, [MEnq 0 nB]))].
(* enqueue without taking qlock: both threads work from the queue they saw; the first task is lost *)
Theorem tq_nolock_refuted_all :
  exists m, mrun false (minit empty_queue empty_queue 0 false cfg2) [0; 1; 0; 1; 0; 1; 0; 1]%nat = Some m /\
    (forall u, t_pc (thr m u) = Idle /\ t_prog (thr m u) = []) /\
    items (qat m 0) = [nB] /\ m_added m = [nB; nA] /\ m_out m = [] /\
    ~ (forall x, (cntq x (m_q m) + heldsum x (m_thr m) + cnt x (m_out m) = cnt x (m_added m))%nat).
Proof.
  eexists. split; [vm_compute; reflexivity|]. split; [|split; [|split; [|split]]]; try reflexivity.
  - intros u. unfold thr. cbn [m_thr get_thr]. destruct (Nat.eqb u 0); [split; reflexivity|]. destruct (Nat.eqb u 1); split; reflexivity.
  - intros H. specialize (H 1%N). vm_compute in H. discriminate.
Qed.
(* the same schedule with the lock is infeasible (thread 1 is blocked), and a feasible one keeps both tasks *)
Example tq_lock_same_schedule_blocked : mrun true (minit empty_queue empty_queue 0 false cfg2) [0; 1; 0; 1; 0; 1; 0; 1]%nat = None.
Proof. vm_compute. reflexivity. Qed.

(* non-vacuity: a reachable state with a stale emptiness peek.  Queue 0 holds one stealable task; the owner peeks (non-empty) and
   is about to lock; the thief steals the task; the owner then locks, finds nothing, and returns without a task *)
Definition cfg3 : list (nat * (nat * nat * list mop)) := [(0%nat, (0%nat, 0%nat, [MDeq])); (1%nat, (1%nat, 2%nat, [MSteal]))].
Definition q_one : queue := mkQ [nA] 1 1.
Example ex_stale_peek :
  exists m, mrun true (minit q_one empty_queue 0 false cfg3) ([0; 0] ++ repeat 1%nat 9 ++ [0; 0; 0; 0])%nat = Some m /\
    t_ret (thr m 0) = [None] /\ t_ret (thr m 1) = [Some nA] /\ items (qat m 0) = [] /\ m_out m = [nA] /\
    (forall u, t_pc (thr m u) = Idle).
Proof.
  eexists. split; [vm_compute; reflexivity|]. repeat split; try reflexivity.
  intros u. unfold thr. cbn [m_thr get_thr]. destruct (Nat.eqb u 0); [reflexivity|]. destruct (Nat.eqb u 1); reflexivity.
Qed.
Example ex_cfg_wf : exact q_one /\ cfg_wf cfg3 /\ cfg_wf cfg2.
Proof. split; [split; reflexivity|]. split; repeat constructor. Qed.
