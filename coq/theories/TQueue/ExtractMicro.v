From Coq Require Import List ZArith NArith.
From QV Require Import TQueue.Model TQueue.PtrModel TQueue.PtrScan TQueue.Micro.
Require Extraction.
Require Import ExtrOcamlBasic.
Extraction Language OCaml.
Extraction "../ocaml/gen/c08micro_model.ml" pm_init pm_step pm_getq walk_nx walk_pv minit mstep run_to_sp kind_of get_thr qat lockat stat.
