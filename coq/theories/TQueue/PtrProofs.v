(* C08 - pointer layer refines the list layer (per operation) *)
From Coq Require Import List Arith Bool Lia ZArith.
From QV Require Import TQueue.Model TQueue.PtrModel.
Import ListNotations.

(* ---- heap updates ---------------------------------------------------------------------------- *)
Lemma upd_same : forall h i c, upd_h h i c i = c.
Proof. intros. unfold upd_h. rewrite Nat.eqb_refl. reflexivity. Qed.
Lemma upd_other : forall h i c j, j <> i -> upd_h h i c j = h j.
Proof. intros h i c j H. unfold upd_h. destruct (Nat.eqb_spec j i); [contradiction | reflexivity]. Qed.

Lemma set_nx_nx_same : forall h i v, nx (set_nx h i v i) = v.
Proof. intros. unfold set_nx. rewrite upd_same. reflexivity. Qed.
Lemma set_nx_pv : forall h i v j, pv (set_nx h i v j) = pv (h j).
Proof. intros h i v j. unfold set_nx, upd_h. destruct (Nat.eqb_spec j i) as [->|]; reflexivity. Qed.
Lemma set_nx_nx_other : forall h i v j, j <> i -> nx (set_nx h i v j) = nx (h j).
Proof. intros h i v j H. unfold set_nx. rewrite upd_other by exact H. reflexivity. Qed.
Lemma set_nx_cval : forall h i v j, cval (set_nx h i v j) = cval (h j).
Proof. intros h i v j. unfold set_nx, upd_h. destruct (Nat.eqb_spec j i) as [->|]; reflexivity. Qed.

Lemma set_pv_pv_same : forall h i v, pv (set_pv h i v i) = v.
Proof. intros. unfold set_pv. rewrite upd_same. reflexivity. Qed.
Lemma set_pv_nx : forall h i v j, nx (set_pv h i v j) = nx (h j).
Proof. intros h i v j. unfold set_pv, upd_h. destruct (Nat.eqb_spec j i) as [->|]; reflexivity. Qed.
Lemma set_pv_pv_other : forall h i v j, j <> i -> pv (set_pv h i v j) = pv (h j).
Proof. intros h i v j H. unfold set_pv. rewrite upd_other by exact H. reflexivity. Qed.
Lemma set_pv_cval : forall h i v j, cval (set_pv h i v j) = cval (h j).
Proof. intros h i v j. unfold set_pv, upd_h. destruct (Nat.eqb_spec j i) as [->|]; reflexivity. Qed.

(* ---- segments -------------------------------------------------------------------------------- *)
Lemma ohd_app : forall r b e, ohd (r ++ b) e = ohd r (ohd b e).
Proof. destruct r; reflexivity. Qed.
Lemma olast_app : forall a b p, olast (a ++ b) p = olast b (olast a p).
Proof. induction a as [|i r IH]; intros b p; [reflexivity|]. cbn [app olast]. apply IH. Qed.
Lemma olast_nonempty : forall b x y, b <> [] -> olast b x = olast b y.
Proof. destruct b as [|j r]; intros x y H; [contradiction | reflexivity]. Qed.
Lemma olast_snoc : forall a k p, olast (a ++ [k]) p = Some k.
Proof. intros. rewrite olast_app. reflexivity. Qed.

Lemma dl_ext : forall h h' ids p e,
  (forall x, In x ids -> nx (h' x) = nx (h x) /\ pv (h' x) = pv (h x)) -> dl h p ids e -> dl h' p ids e.
Proof.
  intros h h'. induction ids as [|i r IH]; intros p e Hx H; [exact I|]. cbn [dl] in *. destruct H as [Hp [Hn Hr]].
  destruct (Hx i (or_introl eq_refl)) as [En Ep]. rewrite En, Ep. repeat split; auto.
  apply IH; [|exact Hr]. intros x Hin. apply Hx. right. exact Hin.
Qed.

Lemma dl_app : forall h a b p e, dl h p (a ++ b) e <-> dl h p a (ohd b e) /\ dl h (olast a p) b e.
Proof.
  intros h. induction a as [|i r IH]; intros b p e; cbn [app dl olast].
  - tauto.
  - rewrite ohd_app, IH. tauto.
Qed.

Lemma dl_snoc_set : forall h p a0 k e e', dl h p (a0 ++ [k]) e -> ~ In k a0 -> dl (set_nx h k e') p (a0 ++ [k]) e'.
Proof.
  intros h p a0 k e e' H Hn. apply dl_app in H. destruct H as [Ha Hk]. apply dl_app. split.
  - cbn [ohd] in *. eapply dl_ext; [|exact Ha]. intros x Hx. rewrite set_nx_pv. split; [|reflexivity].
    apply set_nx_nx_other. intros ->. contradiction.
  - cbn [dl] in *. destruct Hk as [Hp _]. rewrite set_nx_pv, set_nx_nx_same. repeat split; auto.
Qed.

Lemma dl_cons_set : forall h p j b' e p', dl h p (j :: b') e -> ~ In j b' -> dl (set_pv h j p') p' (j :: b') e.
Proof.
  intros h p j b' e p' H Hn. cbn [dl] in *. destruct H as [_ [Hnx Hr]]. rewrite set_pv_pv_same, set_pv_nx. repeat split; auto.
  eapply dl_ext; [|exact Hr]. intros x Hx. rewrite set_pv_nx. split; [reflexivity|]. apply set_pv_pv_other. intros ->. contradiction.
Qed.

Lemma dl_set_nx_frame : forall h k v ids p e, ~ In k ids -> dl h p ids e -> dl (set_nx h k v) p ids e.
Proof.
  intros h k v ids p e Hn H. eapply dl_ext; [|exact H]. intros x Hx. rewrite set_nx_pv. split; [|reflexivity].
  apply set_nx_nx_other. intros ->. contradiction.
Qed.
Lemma dl_set_pv_frame : forall h k v ids p e, ~ In k ids -> dl h p ids e -> dl (set_pv h k v) p ids e.
Proof.
  intros h k v ids p e Hn H. eapply dl_ext; [|exact H]. intros x Hx. rewrite set_pv_nx. split; [reflexivity|].
  apply set_pv_pv_other. intros ->. contradiction.
Qed.
Lemma dl_upd_frame : forall h k c ids p e, ~ In k ids -> dl h p ids e -> dl (upd_h h k c) p ids e.
Proof.
  intros h k c ids p e Hn H. eapply dl_ext; [|exact H]. intros x Hx. rewrite upd_other; [split; reflexivity|]. intros ->. contradiction.
Qed.

Lemma dl_first_pv : forall h p i r e, dl h p (i :: r) e -> pv (h i) = p.
Proof. intros h p i r e H. cbn [dl] in H. tauto. Qed.
Lemma dl_last_nx : forall h p a k e, dl h p (a ++ [k]) e -> nx (h k) = e.
Proof. intros h p a k e H. apply dl_app in H. destruct H as [_ H]. cbn [dl ohd] in H. tauto. Qed.
Lemma dl_last_pv : forall h p a k e, dl h p (a ++ [k]) e -> pv (h k) = olast a p.
Proof. intros h p a k e H. apply dl_app in H. destruct H as [_ H]. cbn [dl] in H. tauto. Qed.

Lemma abs_ext : forall h h' ids, (forall x, cval (h' x) = cval (h x)) -> abs h' ids = abs h ids.
Proof. intros h h' ids H. unfold abs. apply map_ext. intros a. apply H. Qed.

Lemma NoDup_snoc : forall (l : list nat) i, NoDup l -> ~ In i l -> NoDup (l ++ [i]).
Proof.
  induction l as [|x r IH]; intros i Hnd Hni; cbn [app]; [constructor; [intros []|constructor]|].
  inversion Hnd; subst. constructor.
  - intros Hin. apply in_app_or in Hin. destruct Hin as [Hin|[->|[]]]; [contradiction|]. apply Hni. left. reflexivity.
  - apply IH; [assumption|]. intros Hin. apply Hni. right. exact Hin.
Qed.

(* NoDup of an append: the parts are NoDup and disjoint *)
Lemma NoDup_app_inv : forall (a b : list nat), NoDup (a ++ b) -> NoDup a /\ NoDup b /\ (forall x, In x a -> ~ In x b).
Proof.
  induction a as [|x r IH]; intros b H; cbn [app] in H; [repeat split; [constructor | exact H | intros x []]|].
  inversion H; subst. destruct (IH b H3) as [Ha [Hb Hd]]. repeat split.
  - constructor; [|exact Ha]. intros Hin. apply H2. apply in_or_app. left. exact Hin.
  - exact Hb.
  - intros y [->|Hy]; [|apply Hd; exact Hy]. intros Hin. apply H2. apply in_or_app. right. exact Hin.
Qed.

Lemma NoDup_app_intro : forall (a b : list nat), NoDup a -> NoDup b -> (forall x, In x a -> ~ In x b) -> NoDup (a ++ b).
Proof.
  induction a as [|x r IH]; intros b Ha Hb Hd; cbn [app]; [exact Hb|]. inversion Ha; subst. constructor.
  - intros Hin. apply in_app_or in Hin. destruct Hin as [Hin|Hin]; [contradiction|]. apply (Hd x); [left; reflexivity | exact Hin].
  - apply IH; auto. intros y Hy. apply Hd. right. exact Hy.
Qed.

(* ---- enqueue at the tail ---------------------------------------------------------------------- *)
Theorem ptr_enqueue_refines : forall h q ids i v h' q',
  wf h q ids -> ~ In i ids -> p_enqueue h q i v = (h', q') ->
  wf h' q' (ids ++ [i]) /\ abs h' (ids ++ [i]) = abs h ids ++ [v].
Proof.
  intros h q ids i v h' q' [Hnd [Hhd [Htl Hdl]]] Hni H. unfold p_enqueue in H.
  assert (Hnd' : NoDup (ids ++ [i])) by (apply NoDup_snoc; assumption).
  destruct ids as [|f r] using rev_ind.
  - cbn [ohd olast] in *. rewrite Hhd in H. inversion H; subst. split.
    + split; [exact Hnd'|]. cbn [app ohd olast dl]. rewrite upd_same. cbn. rewrite Htl. repeat split; auto.
    + unfold abs. cbn [app map]. rewrite upd_same. reflexivity.
  - clear IHr. rename f into t. rename r into a0.
    assert (Hh : exists f0, phd q = Some f0).
    { rewrite Hhd. destruct a0; cbn; eexists; reflexivity. }
    destruct Hh as [f0 Hf0]. rewrite Hf0 in H. rewrite olast_snoc in Htl. rewrite Htl in H. inversion H; subst. clear H.
    assert (Hit : i <> t) by (intros ->; apply Hni; apply in_or_app; right; left; reflexivity).
    assert (Hta : ~ In t a0).
    { intros Hin. apply NoDup_remove_2 in Hnd. rewrite app_nil_r in Hnd. contradiction. }
    split.
    + split; [exact Hnd'|]. split; [|split].
      * cbn [phd]. try rewrite <- Hf0. rewrite Hhd. destruct a0; reflexivity.
      * cbn [ptl]. rewrite olast_snoc. reflexivity.
      * apply dl_app. split.
        -- cbn [ohd]. apply dl_snoc_set with (e := None); [|exact Hta]. apply dl_upd_frame; assumption.
        -- rewrite olast_snoc. cbn [dl ohd]. rewrite set_nx_pv. rewrite set_nx_nx_other by exact Hit. rewrite upd_same. cbn. try rewrite Htl.
           repeat split; auto.
    + unfold abs. rewrite (map_app _ (a0 ++ [t]) [i]). cbn [map]. rewrite set_nx_cval, upd_same. cbn [cval]. f_equal.
      apply map_ext_in. intros x Hx. rewrite set_nx_cval. rewrite upd_other; [reflexivity|]. intros ->. contradiction.
Qed.

(* ---- the general unlink (owner pop of the tail, or of the node in front of the McCoy task) ------ *)
Theorem ptr_unlink_refines : forall h q a i b h' q',
  wf h q (a ++ i :: b) -> p_unlink h q i = (h', q') ->
  wf h' q' (a ++ b) /\ (forall x, cval (h' x) = cval (h x)) /\ abs h' (a ++ b) = abs h a ++ abs h b.
Proof.
  intros h q a i b h' q' [Hnd [Hhd [Htl Hdl]]] H.
  pose proof (NoDup_remove_1 _ _ _ Hnd) as Hnd'.
  destruct (NoDup_app_inv _ _ Hnd) as [Hnda [Hndib Hdis]]. inversion Hndib as [|? ? Hib Hndb]; subst.
  assert (Hia : ~ In i a) by (intros Hin; apply (Hdis i Hin); left; reflexivity).
  apply dl_app in Hdl. destruct Hdl as [Hda Hdib]. cbn [ohd] in Hda.
  pose proof (dl_first_pv _ _ _ _ _ Hdib) as Hpv.
  assert (Hnx : nx (h i) = ohd b None) by (cbn [dl] in Hdib; tauto).
  assert (Hdb : dl h (Some i) b None) by (cbn [dl] in Hdib; tauto).
  unfold p_unlink in H. rewrite Hpv, Hnx in H.
  (* the heap after the two conditional stores, described pointwise *)
  assert (Hcv : forall x, cval (h' x) = cval (h x)).
  { destruct b as [|j b']; destruct a as [|k0 a0] using rev_ind; cbn [ohd olast] in H; try rewrite olast_snoc in H;
      inversion H; subst; intros x; rewrite ?set_nx_cval, ?set_pv_cval; reflexivity. }
  split; [|split; [exact Hcv|unfold abs; rewrite map_app; f_equal; apply map_ext; intros; apply Hcv]].
  split; [exact Hnd'|].
  destruct b as [|j b'].
  - (* i was the tail *)
    cbn [ohd] in H. rewrite app_nil_r in *.
    destruct a as [|k a0 _] using rev_ind.
    + cbn [olast] in H. inversion H; subst. cbn. repeat split; auto.
    + rewrite olast_snoc in H. inversion H; subst. cbn [phd ptl].
      assert (Hka : ~ In k a0).
      { apply NoDup_remove_2 in Hnda. rewrite app_nil_r in Hnda. exact Hnda. }
      split; [|split].
      * rewrite Hhd. rewrite <- app_assoc, !ohd_app. destruct a0; reflexivity.
      * rewrite olast_snoc. reflexivity.
      * apply dl_snoc_set with (e := Some i); assumption.
  - cbn [ohd] in H.
    assert (Hjb : ~ In j b') by (inversion Hndb; assumption).
    assert (Hja : ~ In j a) by (intros Hin; apply (Hdis j Hin); right; left; reflexivity).
    destruct a as [|k a0 _] using rev_ind.
    + (* i was the head *)
      cbn [olast] in H. inversion H; subst. cbn [app phd ptl]. split; [reflexivity|]. split.
      * rewrite Htl. cbn [app olast]. reflexivity.
      * apply dl_cons_set with (p := Some i); assumption.
    + rewrite olast_snoc in H. inversion H; subst. cbn [phd ptl].
      assert (Hka : ~ In k a0).
      { apply NoDup_remove_2 in Hnda. rewrite app_nil_r in Hnda. exact Hnda. }
      assert (Hkb : ~ In k (j :: b')).
      { intros Hin. apply (Hdis k); [apply in_or_app; right; left; reflexivity | right; exact Hin]. }
      split; [|split].
      * rewrite Hhd. rewrite <- !app_assoc, !ohd_app. destruct a0; reflexivity.
      * rewrite Htl. rewrite !olast_app. reflexivity.
      * apply dl_app. split.
        -- cbn [ohd]. apply dl_snoc_set with (e := Some i); [|exact Hka]. apply dl_set_pv_frame; [|exact Hda].
           intros Hin. apply Hja. exact Hin.
        -- rewrite olast_snoc. apply dl_set_nx_frame; [exact Hkb|].
           replace (Some k) with (olast (a0 ++ [k]) None) by apply olast_snoc.
           apply dl_cons_set with (p := Some i); assumption.
Qed.

Lemma dw_tail : forall l t ql qs w, mccoy t && negb (Nat.eqb w 0) = false ->
  dequeue_worker (mkQ (l ++ [t]) ql qs) w = (Some t, mkQ l (ql - 1)%Z (qs - b2z (stl t))%Z).
Proof.
  intros l t ql qs w Hc. unfold dequeue_worker. cbn [items qlen qstl]. rewrite rev_app_distr. cbn [rev app]. rewrite Hc, rev_involutive. reflexivity.
Qed.
Lemma dw_front : forall l m t ql qs w, mccoy t && negb (Nat.eqb w 0) = true ->
  dequeue_worker (mkQ (l ++ [m; t]) ql qs) w = (Some m, mkQ (l ++ [t]) (ql - 1)%Z (qs - b2z (stl m))%Z).
Proof.
  intros l m t ql qs w Hc. unfold dequeue_worker. cbn [items qlen qstl]. rewrite rev_app_distr. cbn [rev app]. rewrite Hc, rev_involutive. reflexivity.
Qed.
Lemma dw_only_mccoy : forall t ql qs w, mccoy t && negb (Nat.eqb w 0) = true ->
  dequeue_worker (mkQ [t] ql qs) w = (None, mkQ [t] ql qs).
Proof. intros t ql qs w Hc. unfold dequeue_worker. cbn [items rev app]. rewrite Hc. reflexivity. Qed.

(* the owner path as a whole: the pointer-level choice of the node (q->tail, or q->tail->prev when the tail is the McCoy
   task and the caller is not worker 0) and its unlink are the list-level dequeue_worker *)
Theorem ptr_pop_refines : forall h q ids w ql qs o h' q',
  wf h q ids -> p_pop h q w = (o, h', q') ->
  match o with
  | None => fst (dequeue_worker (mkQ (abs h ids) ql qs) w) = None /\ h' = h /\ q' = q
  | Some i => exists a b, ids = a ++ i :: b /\ wf h' q' (a ++ b) /\
                          fst (dequeue_worker (mkQ (abs h ids) ql qs) w) = Some (cval (h i)) /\
                          items (snd (dequeue_worker (mkQ (abs h ids) ql qs) w)) = abs h' (a ++ b)
  end.
Proof.
  intros h q ids w ql qs o h' q' Hwf H. pose proof Hwf as [Hnd [Hhd [Htl Hdl]]].
  unfold p_pop, p_pop_target in H.
  destruct ids as [|t a0 _] using rev_ind.
  - cbn [olast] in Htl. rewrite Htl in H. inversion H; subst. cbn. auto.
  - rewrite olast_snoc in Htl. rewrite Htl in H.
    destruct (mccoy (cval (h t)) && negb (Nat.eqb w 0)) eqn:Em.
    + pose proof (dl_last_pv _ _ _ _ _ Hdl) as Hpv. rewrite Hpv in H.
      destruct a0 as [|m a1 _] using rev_ind.
      * cbn [olast] in H. inversion H; subst. cbn [app abs map]. rewrite (dw_only_mccoy _ ql qs w Em). auto.
      * rewrite olast_snoc in H. destruct (p_unlink h q m) as [h1 q1] eqn:Eu. inversion H; subst.
        assert (Hids : (a1 ++ [m]) ++ [t] = a1 ++ m :: [t]) by (rewrite <- app_assoc; reflexivity).
        rewrite Hids in Hwf. destruct (ptr_unlink_refines _ _ _ _ _ _ _ Hwf Eu) as [Hwf' [Hcv Habs]].
        exists a1, [t]. split; [exact Hids|]. split; [exact Hwf'|].
        assert (Ha : abs h ((a1 ++ [m]) ++ [t]) = abs h a1 ++ [cval (h m); cval (h t)]).
        { rewrite Hids. unfold abs. rewrite map_app. reflexivity. }
        rewrite Ha, (dw_front _ _ _ ql qs w Em). cbn [fst snd items]. split; [reflexivity|]. rewrite Habs. reflexivity.
    + destruct (p_unlink h q t) as [h1 q1] eqn:Eu. inversion H; subst.
      destruct (ptr_unlink_refines _ _ _ _ _ _ _ Hwf Eu) as [Hwf' [Hcv Habs]].
      exists a0, []. split; [reflexivity|]. split; [exact Hwf'|].
      assert (Ha : abs h (a0 ++ [t]) = abs h a0 ++ [cval (h t)]) by (unfold abs; rewrite map_app; reflexivity).
      rewrite Ha, (dw_tail _ _ ql qs w Em). cbn [fst snd items]. split; [reflexivity|]. rewrite Habs. unfold abs. cbn [map]. rewrite !app_nil_r. reflexivity.
Qed.

(* ---- the steal splice -------------------------------------------------------------------------- *)
Lemma bypass : forall h a b ea pb,
  NoDup a -> NoDup b -> (forall x, In x a -> ~ In x b) ->
  dl h None a ea -> dl h pb b None ->
  let h1 := match olast a None with Some k => set_nx h k (ohd b None) | None => h end in
  let h2 := match ohd b None with Some j => set_pv h1 j (olast a None) | None => h1 end in
  dl h2 None (a ++ b) None.
Proof.
  intros h a b ea pb Hnda Hndb Hdis Hda Hdb. cbv zeta. apply dl_app.
  destruct a as [|k a0 _] using rev_ind.
  - cbn [olast dl]. split; [exact I|]. destruct b as [|j b']; cbn [ohd]; [exact I|].
    inversion Hndb; subst. apply dl_cons_set with (p := pb); assumption.
  - rewrite olast_snoc.
    assert (Hka : ~ In k a0).
    { apply NoDup_remove_2 in Hnda. rewrite app_nil_r in Hnda. exact Hnda. }
    assert (Hkb : ~ In k b) by (apply Hdis; apply in_or_app; right; left; reflexivity).
    destruct b as [|j b']; cbn [ohd].
    + split; [|exact I]. apply dl_snoc_set with (e := ea); assumption.
    + inversion Hndb; subst.
      assert (Hja : ~ In j (a0 ++ [k])) by (intros Hin; apply (Hdis j Hin); left; reflexivity).
      split.
      * apply dl_set_pv_frame; [exact Hja|]. apply dl_snoc_set with (e := ea); assumption.
      * apply dl_cons_set with (p := pb); [|assumption]. apply dl_set_nx_frame; assumption.
Qed.

Lemma ohd_nonempty : forall b x y, b <> [] -> ohd b x = ohd b y.
Proof. destruct b; intros x y H; [contradiction | reflexivity]. Qed.
Lemma ohd_in : forall a e k, ohd a e = Some k -> a <> [] -> In k a.
Proof. destruct a as [|x r]; intros e k H Hne; [contradiction|]. cbn in H. inversion H. left. reflexivity. Qed.
Lemma olast_in : forall a p k, olast a p = Some k -> a <> [] -> In k a.
Proof.
  intros a p k H Hne. destruct a as [|x r _] using rev_ind; [contradiction|]. rewrite olast_snoc in H. inversion H.
  apply in_or_app. right. left. reflexivity.
Qed.
Lemma opt_is_true : forall o i, opt_is o i = true <-> o = Some i.
Proof.
  intros [j|] i; cbn [opt_is]; [|split; discriminate]. split; [intros H; apply Nat.eqb_eq in H; congruence|].
  intros H. inversion H. apply Nat.eqb_refl.
Qed.

(* One "patch up the victim queue / update steal list" step of qt_threadqueue_dequeue_steal.  The victim holds
   a ++ run ++ b, the run goes from fs to ls; the thief's chain so far is sc (empty iff chain = None).  Afterwards the victim
   is the well-formed queue a ++ b and the thief's chain is the well-formed standalone list sc ++ run, ending in ls. *)
Theorem ptr_splice_refines : forall h q a run b fs ls sc chain h' q' chain',
  wf h q (a ++ run ++ b) -> ohd run None = Some fs -> olast run None = Some ls ->
  NoDup sc -> (forall x, In x sc -> ~ In x (a ++ run ++ b)) -> dl h None sc None ->
  match chain with
  | None => sc = []
  | Some (cf, cl) => ohd sc None = Some cf /\ olast sc None = Some cl /\ sc <> []
  end ->
  p_splice h q fs ls chain = (h', q', chain') ->
  wf h' q' (a ++ b) /\
  NoDup (sc ++ run) /\ dl h' None (sc ++ run) None /\
  ohd (sc ++ run) None = Some (fst chain') /\ snd chain' = ls /\
  (forall x, cval (h' x) = cval (h x)).
Proof.
  intros h q a run b fs ls sc chain h' q' chain' [Hnd [Hhd [Htl Hdl]]] Hfs Hls Hndsc Hdsc Hdlsc Hchain H.
  assert (Hrne : run <> []) by (intros ->; discriminate).
  destruct (NoDup_app_inv _ _ Hnd) as [Hnda [Hndrb Hd1]].
  destruct (NoDup_app_inv _ _ Hndrb) as [Hndr [Hndb Hd2]].
  assert (Hdab : forall x, In x a -> ~ In x b) by (intros x Hx Hb; apply (Hd1 x Hx); apply in_or_app; right; exact Hb).
  assert (Hdar : forall x, In x a -> ~ In x run) by (intros x Hx Hr; apply (Hd1 x Hx); apply in_or_app; left; exact Hr).
  assert (Hfsr : In fs run) by (eapply ohd_in; eassumption).
  assert (Hlsr : In ls run) by (eapply olast_in; eassumption).
  apply dl_app in Hdl. destruct Hdl as [Hda Hdrb]. apply dl_app in Hdrb. destruct Hdrb as [Hdr Hdb].
  rewrite (olast_nonempty run (olast a None) None Hrne), Hls in Hdb.
  (* the two pointers the code reads *)
  assert (Hfp : pv (h fs) = olast a None).
  { destruct run as [|x r]; [contradiction|]. cbn in Hfs. inversion Hfs; subst. eapply dl_first_pv; eassumption. }
  assert (Hln : nx (h ls) = ohd b None).
  { destruct run as [|x r _] using rev_ind; [contradiction|]. rewrite olast_snoc in Hls. inversion Hls; subst. eapply dl_last_nx; eassumption. }
  (* head / tail tests *)
  assert (Hht : opt_is (phd q) fs = match a with [] => true | _ => false end).
  { rewrite Hhd. destruct a as [|k0 a']; cbn [app].
    - rewrite ohd_app, (ohd_nonempty run _ None Hrne), Hfs. cbn. apply Nat.eqb_refl.
    - cbn [ohd opt_is]. apply Nat.eqb_neq. intros ->. apply (Hdar fs); [left; reflexivity | exact Hfsr]. }
  assert (Htt : opt_is (ptl q) ls = match b with [] => true | _ => false end).
  { rewrite Htl. rewrite !olast_app. destruct b as [|j b']; cbn [olast].
    - rewrite (olast_nonempty run _ None Hrne), Hls. cbn. apply Nat.eqb_refl.
    - destruct (opt_is (olast b' (Some j)) ls) eqn:E; [|reflexivity]. apply opt_is_true in E. exfalso.
      apply (Hd2 ls Hlsr). change (In ls ([j] ++ b')). eapply olast_in with (p := None); [|discriminate].
      cbn [app olast]. exact E. }
  unfold p_splice in H. rewrite Hht, Htt, Hfp, Hln in H.
  (* the victim after the two conditional stores *)
  set (h1 := match olast a None with Some k => set_nx h k (ohd b None) | None => h end) in *.
  set (h2 := match ohd b None with Some j => set_pv h1 j (olast a None) | None => h1 end) in *.
  assert (Hv : dl h2 None (a ++ b) None) by (eapply bypass; eassumption).
  assert (Hstep1 : (if match a with [] => true | _ => false end then (h, ohd b None)
                    else match olast a None with Some k => (set_nx h k (ohd b None), phd q) | None => (h, phd q) end)
                   = (h1, ohd (a ++ b) None)).
  { unfold h1. destruct a as [|k0 a']; [reflexivity|]. cbn [app]. rewrite Hhd. cbn [app ohd].
    destruct (olast (k0 :: a') None); reflexivity. }
  rewrite Hstep1 in H.
  assert (Hstep2 : (if match b with [] => true | _ => false end then (h1, olast a None)
                    else match ohd b None with Some k => (set_pv h1 k (olast a None), ptl q) | None => (h1, ptl q) end)
                   = (h2, olast (a ++ b) None)).
  { unfold h2. rewrite olast_app. destruct b as [|j b']; [reflexivity|]. cbn [ohd]. rewrite Htl, !olast_app. cbn [olast]. reflexivity. }
  rewrite Hstep2 in H.
  (* frames: what h1/h2 touch lies in a and b *)
  assert (Hfr12 : forall ids p e, (forall x, In x ids -> ~ In x a /\ ~ In x b) -> dl h p ids e -> dl h2 p ids e).
  { intros ids p e Hout Hd. unfold h2, h1.
    assert (Hk : forall k, olast a None = Some k -> ~ In k ids).
    { intros k Hk Hin. destruct a as [|x0 a']; [discriminate|]. apply (proj1 (Hout k Hin)). eapply olast_in; [exact Hk | discriminate]. }
    assert (Hj : forall j, ohd b None = Some j -> ~ In j ids).
    { intros j Hj Hin. destruct b as [|x0 b']; [discriminate|]. apply (proj2 (Hout j Hin)). eapply ohd_in; [exact Hj | discriminate]. }
    destruct (ohd b None) as [j|]; destruct (olast a None) as [k|];
      repeat (first [apply dl_set_pv_frame; [auto|] | apply dl_set_nx_frame; [auto|]]); exact Hd. }
  assert (Hcv2 : forall x, cval (h2 x) = cval (h x)).
  { intros x. unfold h2, h1. destruct (ohd b None); destruct (olast a None); rewrite ?set_pv_cval, ?set_nx_cval; reflexivity. }
  set (h3 := set_nx (set_pv h2 fs None) ls None) in *.
  assert (Hfsab : ~ In fs (a ++ b)).
  { intros Hin. apply in_app_or in Hin. destruct Hin as [Hin|Hin]; [exact (Hdar fs Hin Hfsr) | exact (Hd2 fs Hfsr Hin)]. }
  assert (Hlsab : ~ In ls (a ++ b)).
  { intros Hin. apply in_app_or in Hin. destruct Hin as [Hin|Hin]; [exact (Hdar ls Hin Hlsr) | exact (Hd2 ls Hlsr Hin)]. }
  assert (Hv3 : dl h3 None (a ++ b) None).
  { unfold h3. apply dl_set_nx_frame; [exact Hlsab|]. apply dl_set_pv_frame; [exact Hfsab|]. exact Hv. }
  assert (Hr3 : dl h3 None run None).
  { assert (Hr2 : dl h2 (olast a None) run (ohd b None)).
    { apply Hfr12; [|exact Hdr]. intros x Hx. split; [intros Ha; exact (Hdar x Ha Hx) | exact (Hd2 x Hx)]. }
    unfold h3.
    assert (Hr2' : dl (set_pv h2 fs None) None run (ohd b None)).
    { destruct run as [|x r]; [contradiction|]. cbn in Hfs. inversion Hfs; subst. inversion Hndr; subst.
      eapply dl_cons_set; eassumption. }
    destruct run as [|x r _] using rev_ind; [contradiction|]. rewrite olast_snoc in Hls. inversion Hls; subst.
    eapply dl_snoc_set; [exact Hr2'|]. apply NoDup_remove_2 in Hndr. rewrite app_nil_r in Hndr. exact Hndr. }
  assert (Hsc3 : dl h3 None sc None).
  { unfold h3. apply dl_set_nx_frame; [intros Hin; apply (Hdsc ls Hin); apply in_or_app; right; apply in_or_app; left; exact Hlsr|].
    apply dl_set_pv_frame; [intros Hin; apply (Hdsc fs Hin); apply in_or_app; right; apply in_or_app; left; exact Hfsr|].
    apply Hfr12; [|exact Hdlsc]. intros x Hx. split; intros Hin; apply (Hdsc x Hx); apply in_or_app; [left; exact Hin|].
    right. apply in_or_app. right. exact Hin. }
  assert (Hcv3 : forall x, cval (h3 x) = cval (h x)).
  { intros x. unfold h3. rewrite set_nx_cval, set_pv_cval. apply Hcv2. }
  assert (Hndsr : NoDup (sc ++ run)).
  { apply NoDup_app_intro; auto. intros x Hx Hr. apply (Hdsc x Hx). apply in_or_app. right. apply in_or_app. left. exact Hr. }
  assert (Hwfv : forall hh, dl hh None (a ++ b) None -> wf hh (mkPq (ohd (a ++ b) None) (olast (a ++ b) None)) (a ++ b)).
  { intros hh Hd. split; [|repeat split; auto]. apply NoDup_app_intro; auto. }
  destruct chain as [[cf cl]|].
  - destruct Hchain as [Hcf [Hcl Hscne]]. inversion H; subst. cbn [fst snd].
    assert (Hclsc : In cl sc) by (eapply olast_in; eassumption).
    assert (Hclrun : ~ In cl run).
    { intros Hin. apply (Hdsc cl Hclsc). apply in_or_app. right. apply in_or_app. left. exact Hin. }
    assert (Hclab : ~ In cl (a ++ b)).
    { intros Hin. apply (Hdsc cl Hclsc). apply in_app_or in Hin. destruct Hin as [Hin|Hin]; apply in_or_app; [left; exact Hin|].
      right. apply in_or_app. right. exact Hin. }
    assert (Hfssc : ~ In fs sc).
    { intros Hin. apply (Hdsc fs Hin). apply in_or_app. right. apply in_or_app. left. exact Hfsr. }
    split; [|split; [exact Hndsr|split; [|split; [|split]]]].
    + apply Hwfv. apply dl_set_pv_frame; [exact Hfsab|]. apply dl_set_nx_frame; [exact Hclab|]. exact Hv3.
    + apply dl_app. split.
      * apply dl_set_pv_frame; [exact Hfssc|].
        destruct sc as [|x r _] using rev_ind; [contradiction|]. rewrite olast_snoc in Hcl. inversion Hcl; subst.
        rewrite Hfs. eapply dl_snoc_set; [exact Hsc3|]. apply NoDup_remove_2 in Hndsc. rewrite app_nil_r in Hndsc. exact Hndsc.
      * rewrite Hcl. destruct run as [|x r]; [contradiction|]. cbn in Hfs. inversion Hfs; subst. inversion Hndr; subst.
        eapply dl_cons_set; [|assumption]. apply dl_set_nx_frame; [exact Hclrun | exact Hr3].
    + rewrite ohd_app. destruct sc; [contradiction|]. cbn in Hcf |- *. exact Hcf.
    + reflexivity.
    + intros x. rewrite set_pv_cval, set_nx_cval. apply Hcv3.
  - subst sc. inversion H; subst. cbn [app fst snd] in *.
    split; [apply Hwfv; exact Hv3|]. split; [exact Hndr|]. split; [exact Hr3|]. split; [exact Hfs|]. split; [reflexivity | exact Hcv3].
Qed.

(* ---- enqueue_multiple: the thief's surplus chain goes to the tail of its own queue ------------- *)
Theorem ptr_enqueue_multiple_refines : forall h q ids c pc ec first last h' q',
  wf h q ids -> NoDup c -> (forall x, In x c -> ~ In x ids) -> dl h pc c ec ->
  ohd c None = Some first -> olast c None = Some last ->
  p_enqueue_multiple h q first last = (h', q') ->
  wf h' q' (ids ++ c) /\ (forall x, cval (h' x) = cval (h x)) /\ abs h' (ids ++ c) = abs h ids ++ abs h c.
Proof.
  intros h q ids c pc ec first last h' q' [Hnd [Hhd [Htl Hdl]]] Hndc Hdis Hdc Hf Hl H.
  assert (Hcne : c <> []) by (intros ->; discriminate).
  assert (Hfc : In first c) by (eapply ohd_in; eassumption).
  assert (Hlc : In last c) by (eapply olast_in; eassumption).
  set (h1 := set_pv (set_nx h last None) first (ptl q)) in *.
  assert (Hc1 : dl h1 (ptl q) c None).
  { unfold h1.
    assert (Hc0 : dl (set_nx h last None) pc c None).
    { destruct c as [|x r _] using rev_ind; [contradiction|]. rewrite olast_snoc in Hl. inversion Hl; subst.
      eapply dl_snoc_set; [exact Hdc|]. apply NoDup_remove_2 in Hndc. rewrite app_nil_r in Hndc. exact Hndc. }
    destruct c as [|x r]; [contradiction|]. cbn in Hf. inversion Hf; subst. inversion Hndc; subst.
    eapply dl_cons_set; eassumption. }
  assert (Hi1 : dl h1 None ids None).
  { unfold h1. apply dl_set_pv_frame; [intros Hin; exact (Hdis first Hfc Hin)|].
    apply dl_set_nx_frame; [intros Hin; exact (Hdis last Hlc Hin)|]. exact Hdl. }
  assert (Hndic : NoDup (ids ++ c)).
  { apply NoDup_app_intro; auto. intros x Hx Hcx. exact (Hdis x Hcx Hx). }
  assert (Hcv1 : forall x, cval (h1 x) = cval (h x)) by (intros x; unfold h1; rewrite set_pv_cval, set_nx_cval; reflexivity).
  unfold p_enqueue_multiple in H. fold h1 in H.
  assert (Hres : wf h' q' (ids ++ c) /\ (forall x, cval (h' x) = cval (h x))).
  { destruct ids as [|t a0 _] using rev_ind.
    - cbn [ohd olast] in Hhd, Htl. rewrite Hhd in H. inversion H; subst. cbn [app]. split; [|exact Hcv1].
      split; [exact Hndc|]. cbn [phd ptl]. rewrite Hf, Hl. repeat split; auto. rewrite Htl in Hc1. exact Hc1.
    - assert (Hh : exists f0, phd q = Some f0) by (rewrite Hhd; destruct a0; cbn; eexists; reflexivity).
      destruct Hh as [f0 Hf0]. rewrite olast_snoc in Htl. rewrite Hf0, Htl in H. inversion H; subst.
      assert (Hta : ~ In t a0) by (apply NoDup_remove_2 in Hnd; rewrite app_nil_r in Hnd; exact Hnd).
      assert (Htc : ~ In t c) by (intros Hin; apply (Hdis t Hin); apply in_or_app; right; left; reflexivity).
      split; [|intros x; rewrite set_nx_cval; apply Hcv1].
      split; [exact Hndic|]. cbn [phd ptl]. split; [|split].
      + rewrite <- Hf0, Hhd. rewrite !ohd_app. destruct a0; reflexivity.
      + rewrite olast_app, (olast_nonempty c _ None Hcne), Hl. reflexivity.
      + apply dl_app. split.
        * rewrite Hf. eapply dl_snoc_set; [exact Hi1 | exact Hta].
        * rewrite olast_snoc. apply dl_set_nx_frame; [exact Htc|]. rewrite Htl in Hc1. exact Hc1. }
  destruct Hres as [Hwf Hcv]. split; [exact Hwf|]. split; [exact Hcv|].
  unfold abs. rewrite map_app. f_equal; apply map_ext; intros; apply Hcv.
Qed.

(* ---- enqueue_yielded: at the head --------------------------------------------------------------- *)
Theorem ptr_enqueue_yielded_refines : forall h q ids i v h' q',
  wf h q ids -> ~ In i ids -> p_enqueue_yielded h q i v = (h', q') ->
  wf h' q' (i :: ids) /\ abs h' (i :: ids) = v :: abs h ids.
Proof.
  intros h q ids i v h' q' [Hnd [Hhd [Htl Hdl]]] Hni H. unfold p_enqueue_yielded in H.
  assert (Hnd' : NoDup (i :: ids)) by (constructor; assumption).
  destruct ids as [|f r].
  - cbn [ohd olast] in *. rewrite Htl in H. inversion H; subst. split.
    + split; [exact Hnd'|]. cbn [ohd olast dl]. rewrite upd_same. cbn. rewrite Hhd. repeat split; auto.
    + unfold abs. cbn [map]. rewrite upd_same. reflexivity.
  - assert (Ht : exists t0, ptl q = Some t0).
    { rewrite Htl. cbn [olast]. destruct r as [|x r' _] using rev_ind; [eexists; reflexivity|]. rewrite olast_snoc. eexists; reflexivity. }
    destruct Ht as [t0 Ht0]. cbn [ohd] in Hhd. rewrite Ht0, Hhd in H. inversion H; subst. clear H.
    assert (Hif : f <> i) by (intros ->; apply Hni; left; reflexivity).
    inversion Hnd; subst.
    split.
    + split; [exact Hnd'|]. cbn [phd ptl ohd olast]. split; [reflexivity|]. split; [rewrite <- Ht0, Htl; reflexivity|].
      cbn [dl ohd]. rewrite set_pv_nx. rewrite set_pv_pv_other by (intros E; apply Hif; symmetry; exact E). rewrite upd_same. cbn [pv nx].
      try rewrite Hhd. split; [reflexivity|]. split; [reflexivity|].
      change (dl (set_pv (upd_h h i (mkCell (Some f) None (stl v) v)) f (Some i)) (Some i) (f :: r) None).
      apply dl_cons_set with (p := None); [|assumption]. apply dl_upd_frame; [exact Hni | exact Hdl].
    + unfold abs. cbn [map]. rewrite set_pv_cval, upd_same. cbn [cval]. f_equal.
      rewrite set_pv_cval. rewrite upd_other by exact Hif. f_equal.
      apply map_ext_in. intros x Hx. rewrite set_pv_cval. rewrite upd_other; [reflexivity|]. intros ->. apply Hni. right. exact Hx.
Qed.

(* ---- non-vacuity: a reachable well-formed heap with three nodes, then a pop in front of the McCoy task ---- *)
Definition h0 : heap := fun _ => mkCell None None false (mkNode 0 false false 0).
Lemma wf_empty : wf h0 (mkPq None None) [].
Proof. repeat split; constructor. Qed.
Lemma enq_wf : forall h q ids i v, wf h q ids -> ~ In i ids ->
  wf (fst (p_enqueue h q i v)) (snd (p_enqueue h q i v)) (ids ++ [i]).
Proof.
  intros h q ids i v W N. destruct (p_enqueue h q i v) as [h' q'] eqn:E.
  destruct (ptr_enqueue_refines _ _ _ _ _ _ _ W N E) as [W' _]. exact W'.
Qed.
Example ex_ptr_reachable :
  let M := mkNode 9 false true 0 in
  let s1 := p_enqueue h0 (mkPq None None) 10 (mkNode 1 true false 0) in
  let s2 := p_enqueue (fst s1) (snd s1) 11 (mkNode 2 true false 0) in
  let s3 := p_enqueue (fst s2) (snd s2) 12 M in
  wf (fst s3) (snd s3) [10; 11; 12] /\
  fst (fst (p_pop (fst s3) (snd s3) 1)) = Some 11 /\
  abs (snd (fst (p_pop (fst s3) (snd s3) 1))) [10; 12] = [mkNode 1 true false 0; M] /\
  snd (p_pop (fst s3) (snd s3) 1) = mkPq (Some 10) (Some 12).
Proof.
  cbv zeta. split.
  - apply (enq_wf _ _ [10; 11]); [|intros [H|[H|[]]]; discriminate].
    apply (enq_wf _ _ [10]); [|intros [H|[]]; discriminate].
    apply (enq_wf _ _ []); [exact wf_empty | intros []].
  - vm_compute. repeat split.
Qed.
