(* C13 extension W -- the outer loop of drf_qsort_dbl / drf_qsort_algt with its explicit stack (SeqSort.outer):
     outer_rel     every run that returns has only rearranged the segment (no property of the comparison, any capacity)
     outer_some    the smaller part is kept on top, so entry k holds at most elements / 2^k elements: a capacity larger
                   than log2(elements) is never exceeded, and 2*elements + 2 units of fuel are enough
     outer_sorted  elements of different live entries are in order; with the stack empty the segment is sorted *)
From Coq Require Import List NArith Bool Lia Permutation FMapPositive ZArith.
From QV Require Import Util.Sort Util.SortProofs Util.SortCorrect Util.SeqSort Util.SeqSortProofs.
Import ListNotations.
Local Open Scope N_scope.

Section SeqSortOuter.
  Variable V : Type.
  Variable leb : V -> V -> bool.
  Variable dflt : V.

  Notation arr := (arr V).
  Notation aget := (aget V dflt).
  Notation aset := (aset V).
  Notation to_list := (to_list V dflt).
  Notation SegRel := (SegRel V dflt).
  Notation PRel := (PRel V dflt).
  Notation ploop := (ploop V leb dflt).
  Notation outer := (outer V leb dflt).

  (* ------------------------------------------------------------------ the live entries *)
  Definition esize (e : N * N) : N := snd e - fst e.
  (* every entry is an interval inside [0, len) *)
  Definition Rng (len : N) (stk : list (N * N)) : Prop := Forall (fun e => fst e <= snd e /\ snd e <= len) stk.
  (* entry k (counted from the bottom) holds at most len / 2^k elements, and 2^k <= len *)
  Fixpoint Depth (len : N) (stk : list (N * N)) : Prop :=
    match stk with
    | [] => True
    | e :: rest => esize e * 2 ^ N.of_nat (length rest) <= len /\ 2 ^ N.of_nat (length rest) <= len /\ Depth len rest
    end.
  (* loop-head visits still to come: a split removes the pivot (2s+1 -> 2s), any other visit removes an entry *)
  Fixpoint meas (stk : list (N * N)) : N :=
    match stk with [] => 0 | e :: rest => 2 * esize e + 1 + meas rest end.

  Lemma pow2_succ : forall k, 2 ^ N.of_nat (S k) = 2 * 2 ^ N.of_nat k.
  Proof. intros k. rewrite Nat2N.inj_succ. rewrite N.pow_succ_r'. reflexivity. Qed.

  (* what one split does: the pivot position Lf of the entry (B, E) *)
  Lemma split_facts : forall a b B E a1 Lf, B < E - 1 ->
    ploop (S (N.to_nat (E - 1 - B))) a b (aget a (b + B)) B (E - 1) = Some (a1, Lf) ->
    B <= Lf /\ Lf <= E - 1 /\ PRel a (aset a1 (b + Lf) (aget a (b + B))) (b + B) (E - B).
  Proof.
    intros a b B E a1 Lf Hlt Hp.
    destruct (ploop_rel V leb dflt _ a b (aget a (b + B)) B (E - 1) a1 Lf ltac:(lia) Hp) as [H1 [H2 H3]].
    split; [exact H1|]. split; [exact H2|].
    replace (E - 1 - B + 1) with (E - B) in H3 by lia.
    eapply PRel_ext_l; [|exact H3]. intros k. symmetry. apply Ext_aset_self.
  Qed.

  (* ------------------------------------------------------------------ every returning run rearranges the segment only *)
  Lemma outer_rel : forall fuel cap a b len stk maxd iters a' d it, Rng len stk ->
    outer fuel cap a b stk maxd iters = Some (a', d, it) -> PRel a a' b len.
  Proof.
    induction fuel as [|f IH]; intros cap a b len stk maxd iters a' d it HR H; cbn [SeqSort.outer] in H; [discriminate|].
    destruct stk as [|[B E] rest].
    - inversion H; subst. apply PRel_refl.
    - apply Forall_cons_iff in HR. destruct HR as [[Hbe Hel] HR']. simpl in Hbe, Hel.
      destruct (N.ltb_spec B (E - 1)) as [Hlt|Hge].
      + destruct (ploop (S (N.to_nat (E - 1 - B))) a b (aget a (b + B)) B (E - 1)) as [[a1 Lf]|] eqn:Ep; [|discriminate].
        destruct (split_facts a b B E a1 Lf Hlt Ep) as [S1 [S2 S3]].
        destruct (cap <=? N.of_nat (length rest) + 1); [discriminate|].
        eapply PRel_trans; [eapply PRel_widen; [| |exact S3]; lia|].
        destruct (Lf - B <? E - (Lf + 1)).
        * eapply (IH cap _ b len); [|exact H].
          constructor; [simpl; lia|constructor; [simpl; lia|exact HR']].
        * eapply (IH cap _ b len); [|exact H].
          constructor; [simpl; lia|constructor; [simpl; lia|exact HR']].
      + eapply (IH cap _ b len); [exact HR'|exact H].
  Qed.

  (* ------------------------------------------------------------------ termination and stack depth *)
  Lemma outer_some : forall fuel cap a b len stk maxd iters, 0 < len ->
    Rng len stk -> Depth len stk -> (forall k, 2 ^ k <= len -> k < cap) -> (N.to_nat (meas stk) < fuel)%nat ->
    exists a' d it, outer fuel cap a b stk maxd iters = Some (a', d, it) /\
                    d <= N.max maxd (N.log2 len) /\ it <= iters + meas stk.
  Proof.
    induction fuel as [|f IH]; intros cap a b len stk maxd iters Hlen HR HD Hcap Hf; [lia|]. cbn [SeqSort.outer].
    destruct stk as [|[B E] rest].
    - exists a, maxd, iters. split; [reflexivity|]. simpl. lia.
    - apply Forall_cons_iff in HR. destruct HR as [[Hbe Hel] HR']. simpl in Hbe, Hel.
      destruct HD as [D1 [D2 D3]]. unfold esize in D1. simpl in D1.
      set (k := N.of_nat (length rest)) in *.
      assert (Hk : k <= N.log2 len) by (apply N.log2_le_pow2; [exact Hlen|exact D2]).
      cbn [meas] in Hf. unfold esize in Hf. simpl fst in Hf. simpl snd in Hf.
      destruct (N.ltb_spec B (E - 1)) as [Hlt|Hge].
      + destruct (ploop_some V leb dflt (S (N.to_nat (E - 1 - B))) a b (aget a (b + B)) B (E - 1) ltac:(lia) ltac:(lia))
          as [a1 [Lf Ep]].
        rewrite Ep.
        destruct (split_facts a b B E a1 Lf Hlt Ep) as [S1 [S2 S3]].
        (* the entry holds >= 2 elements: 2^(k+1) <= len, the push stays inside the capacity *)
        assert (P2 : 2 ^ (k + 1) <= len).
        { rewrite N.pow_add_r. change (2 ^ 1) with 2. nia. }
        pose proof (Hcap (k + 1) P2) as Hc.
        destruct (N.leb_spec cap (k + 1)) as [Hbad|_]; [lia|].
        assert (Ek : 2 ^ N.of_nat (S (length rest)) = 2 * 2 ^ k) by apply pow2_succ.
        destruct (N.ltb_spec (Lf - B) (E - (Lf + 1))) as [Hsw|Hns].
        * (* (B, Lf) is the smaller part: on top *)
          destruct (IH cap (aset a1 (b + Lf) (aget a (b + B))) b len ((B, Lf) :: (Lf + 1, E) :: rest) (N.max maxd k) (iters + 1) Hlen)
            as [a' [d [it [E1 [E2 E3]]]]].
          -- constructor; [simpl; lia|constructor; [simpl; lia|exact HR']].
          -- cbn [Depth length]. unfold esize. simpl fst. simpl snd. fold k. rewrite Ek.
             split; [nia|]. split; [rewrite N.pow_add_r in P2; change (2 ^ 1) with 2 in P2; lia|].
             split; [nia|]. split; [exact D2|exact D3].
          -- exact Hcap.
          -- cbn [meas]. unfold esize. simpl fst. simpl snd. lia.
          -- exists a', d, it. split; [exact E1|]. split; [lia|].
             cbn [meas] in E3. unfold esize in E3. simpl fst in E3. simpl snd in E3. cbn [meas]. unfold esize. simpl fst. simpl snd. lia.
        * destruct (IH cap (aset a1 (b + Lf) (aget a (b + B))) b len ((Lf + 1, E) :: (B, Lf) :: rest) (N.max maxd k) (iters + 1) Hlen)
            as [a' [d [it [E1 [E2 E3]]]]].
          -- constructor; [simpl; lia|constructor; [simpl; lia|exact HR']].
          -- cbn [Depth length]. unfold esize. simpl fst. simpl snd. fold k. rewrite Ek.
             split; [nia|]. split; [rewrite N.pow_add_r in P2; change (2 ^ 1) with 2 in P2; lia|].
             split; [nia|]. split; [exact D2|exact D3].
          -- exact Hcap.
          -- cbn [meas]. unfold esize. simpl fst. simpl snd. lia.
          -- exists a', d, it. split; [exact E1|]. split; [lia|].
             cbn [meas] in E3. unfold esize in E3. simpl fst in E3. simpl snd in E3. cbn [meas]. unfold esize. simpl fst. simpl snd. lia.
      + destruct (IH cap a b len rest (N.max maxd k) (iters + 1) Hlen HR' D3 Hcap ltac:(lia)) as [a' [d [it [E1 [E2 E3]]]]].
        exists a', d, it. split; [exact E1|]. split; [lia|]. cbn [meas]. lia.
  Qed.

  (* ------------------------------------------------------------------ sortedness *)
  Section Order.
    Hypothesis leb_total : forall x y, leb x y = false -> leb y x = true.
    Hypothesis leb_trans : forall x y z, leb x y = true -> leb y z = true -> leb x z = true.

    (* live entries do not overlap *)
    Fixpoint Disj (stk : list (N * N)) : Prop :=
      match stk with
      | [] => True
      | e :: rest => Forall (fun e' => snd e <= fst e' \/ snd e' <= fst e) rest /\ Disj rest
      end.
    (* two positions that no live entry holds together are in order *)
    Definition Cross (a : arr) (b len : N) (stk : list (N * N)) : Prop :=
      forall i j, i < j -> j < len -> (forall e, In e stk -> ~ (fst e <= i /\ j < snd e)) ->
                  leb (aget a (b + i)) (aget a (b + j)) = true.

    Lemma cross_pop : forall a b len e rest, snd e <= fst e + 1 -> Cross a b len (e :: rest) -> Cross a b len rest.
    Proof.
      intros a b len e rest He Hc i j Hij Hj Hno. apply Hc; [exact Hij|exact Hj|].
      intros e' [<-|Hin]; [lia|apply Hno; exact Hin].
    Qed.

    (* the split of the top entry (B, E) at Lf, the two new entries in either order *)
    Lemma cross_split : forall a a2 b len B E Lf rest stk', B < E -> E <= len -> B <= Lf -> Lf < E ->
      Forall (fun e' => E <= fst e' \/ snd e' <= B) rest ->
      Cross a b len ((B, E) :: rest) ->
      SegRel a a2 (b + B) (E - B) ->
      LEp V leb dflt a2 b (aget a2 (b + Lf)) B Lf -> GEp V leb dflt a2 b (aget a2 (b + Lf)) Lf E ->
      (forall e, In e stk' <-> e = (B, Lf) \/ e = (Lf + 1, E) \/ In e rest) ->
      Cross a2 b len stk'.
    Proof.
      intros a a2 b len B E Lf rest stk' HBE HEl HBL HLE HD Hc [So [Sf Sb]] Hle Hge Hin i j Hij Hj Hno.
      rewrite Forall_forall in HD.
      assert (Hrefl : forall x, leb x x = true) by (apply (leb_refl V leb leb_total)).
      (* an element of the new array inside the segment is an element of the old array inside the segment *)
      assert (Hfrom : forall k, B <= k -> k < E -> exists k', B <= k' /\ k' < E /\ aget a2 (b + k) = aget a (b + k')).
      { intros k Hk1 Hk2. destruct (Sf (k - B)) as [j' [Hj' Ej']]; [lia|].
        exists (B + j'). split; [lia|]. split; [lia|].
        replace (b + B + (k - B)) with (b + k) in Ej' by lia. replace (b + (B + j')) with (b + B + j') by lia. exact Ej'. }
      assert (Hout : forall k, k < B \/ E <= k -> aget a2 (b + k) = aget a (b + k)).
      { intros k Hk. apply So. lia. }
      destruct (N.lt_ge_cases i B) as [HiB|HiB]; [|destruct (N.lt_ge_cases i E) as [HiE|HiE]].
      - (* i left of the segment *)
        destruct (N.lt_ge_cases j B) as [HjB|HjB]; [|destruct (N.lt_ge_cases j E) as [HjE|HjE]].
        + rewrite !Hout by lia. apply Hc; [exact Hij|exact Hj|].
          intros e [<-|He]; [simpl; lia|]. apply Hno. apply Hin. right. right. exact He.
        + destruct (Hfrom j HjB HjE) as [k' [K1 [K2 K3]]]. rewrite K3. rewrite Hout by lia.
          apply Hc; [lia|lia|]. intros e [<-|He]; [simpl; lia|]. specialize (HD e He). simpl. lia.
        + rewrite !Hout by lia. apply Hc; [exact Hij|exact Hj|].
          intros e [<-|He]; [simpl; lia|]. apply Hno. apply Hin. right. right. exact He.
      - (* i inside *)
        destruct (N.lt_ge_cases j E) as [HjE|HjE].
        + (* both inside: on different sides of the pivot *)
          assert (HiL : i <= Lf).
          { destruct (N.le_gt_cases i Lf) as [Q|Q]; [exact Q|]. exfalso.
            apply (Hno (Lf + 1, E)); [apply Hin; right; left; reflexivity|simpl; lia]. }
          assert (HjL : Lf <= j).
          { destruct (N.le_gt_cases Lf j) as [Q|Q]; [exact Q|]. exfalso.
            apply (Hno (B, Lf)); [apply Hin; left; reflexivity|simpl; lia]. }
          apply leb_trans with (y := aget a2 (b + Lf)).
          * destruct (N.eq_dec i Lf) as [->|Hne]; [apply Hrefl|apply Hle; lia].
          * destruct (N.eq_dec j Lf) as [->|Hne]; [apply Hrefl|apply Hge; lia].
        + destruct (Hfrom i HiB HiE) as [k' [K1 [K2 K3]]]. rewrite K3. rewrite (Hout j) by lia.
          apply Hc; [lia|lia|]. intros e [<-|He]; [simpl; lia|]. specialize (HD e He). simpl. lia.
      - (* both right of the segment *)
        rewrite !Hout by lia. apply Hc; [exact Hij|exact Hj|].
        intros e [<-|He]; [simpl; lia|]. apply Hno. apply Hin. right. right. exact He.
    Qed.

    Lemma disj_split : forall B E Lf rest, B <= Lf -> Lf < E -> Disj ((B, E) :: rest) ->
      Disj ((B, Lf) :: (Lf + 1, E) :: rest) /\ Disj ((Lf + 1, E) :: (B, Lf) :: rest).
    Proof.
      intros B E Lf rest H1 H2 [HF HD]. simpl in HF. rewrite Forall_forall in HF.
      assert (F1 : Forall (fun e' : N * N => Lf <= fst e' \/ snd e' <= B) rest).
      { apply Forall_forall. intros e He. specialize (HF e He). lia. }
      assert (F2 : Forall (fun e' : N * N => E <= fst e' \/ snd e' <= Lf + 1) rest).
      { apply Forall_forall. intros e He. specialize (HF e He). lia. }
      split; cbn [Disj fst snd].
      - split; [constructor; [simpl; lia|exact F1]|]. split; [exact F2|exact HD].
      - split; [constructor; [simpl; lia|exact F2]|]. split; [exact F1|exact HD].
    Qed.

    Lemma outer_sorted : forall fuel cap a b len stk maxd iters a' d it,
      Rng len stk -> Disj stk -> Cross a b len stk ->
      outer fuel cap a b stk maxd iters = Some (a', d, it) -> Cross a' b len [].
    Proof.
      induction fuel as [|f IH]; intros cap a b len stk maxd iters a' d it HR HD HC H; cbn [SeqSort.outer] in H; [discriminate|].
      destruct stk as [|[B E] rest].
      - inversion H; subst. exact HC.
      - apply Forall_cons_iff in HR. destruct HR as [[Hbe Hel] HR']. simpl in Hbe, Hel.
        destruct (N.ltb_spec B (E - 1)) as [Hlt|Hge].
        + destruct (ploop (S (N.to_nat (E - 1 - B))) a b (aget a (b + B)) B (E - 1)) as [[a1 Lf]|] eqn:Ep; [|discriminate].
          destruct (split_facts a b B E a1 Lf Hlt Ep) as [S1 [S2 S3]].
          destruct (cap <=? N.of_nat (length rest) + 1); [discriminate|].
          set (piv := aget a (b + B)) in *.
          set (a2 := aset a1 (b + Lf) piv) in *.
          (* the partition property of the loop, carried over the final arr[L] = piv *)
          destruct (ploop_order V leb dflt leb_total _ a b piv B E B (E - 1) a1 Lf ltac:(lia) ltac:(lia) ltac:(lia)
                      ltac:(intros i; lia) ltac:(intros i; lia) Ep) as [O1 O2].
          assert (Ep2 : aget a2 (b + Lf) = piv) by (unfold a2; apply gss).
          assert (O1' : LEp V leb dflt a2 b (aget a2 (b + Lf)) B Lf).
          { rewrite Ep2. intros i Hi1 Hi2. unfold a2. rewrite gso by lia. apply O1; assumption. }
          assert (O2' : GEp V leb dflt a2 b (aget a2 (b + Lf)) Lf E).
          { rewrite Ep2. intros i Hi1 Hi2. unfold a2. rewrite gso by lia. apply O2; assumption. }
          destruct (disj_split B E Lf rest S1 ltac:(lia) HD) as [D1 D2].
          destruct HD as [HF _]. simpl in HF.
          destruct (Lf - B <? E - (Lf + 1)).
          * eapply (IH cap a2 b len ((B, Lf) :: (Lf + 1, E) :: rest)); [| exact D1 | | exact H].
            -- constructor; [simpl; lia|constructor; [simpl; lia|exact HR']].
            -- apply (cross_split a a2 b len B E Lf rest); try assumption; try lia; [exact (proj1 S3)|].
               intros e. simpl. intuition congruence.
          * eapply (IH cap a2 b len ((Lf + 1, E) :: (B, Lf) :: rest)); [| exact D2 | | exact H].
            -- constructor; [simpl; lia|constructor; [simpl; lia|exact HR']].
            -- apply (cross_split a a2 b len B E Lf rest); try assumption; try lia; [exact (proj1 S3)|].
               intros e. simpl. intuition congruence.
        + eapply (IH cap a b len rest); [exact HR'|exact (proj2 HD)| |exact H].
          apply (cross_pop a b len (B, E) rest); [simpl; lia|exact HC].
    Qed.
  End Order.
End SeqSortOuter.
