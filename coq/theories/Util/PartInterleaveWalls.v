(* C13 extension F -- the shared bookkeeping of one partition pass under EVERY schedule:
   furthest_leftwall / furthest_rightwall merged by the CAS loops of qutil.c or under the lock of qloop.c, the return
   words and the parent's wait.  Invariant WInv (per program counter); consequences: when every thread has returned,
   fl = min(2^64-1, leftwall_t + offset_t), fr = max(0, rightwall_t + offset_t); the lock is a mutex; the parent's copy
   of retval is taken after every thread has returned. *)
From Coq Require Import List NArith Bool Lia FMapPositive PeanoNat.
From QV Require Import Util.Sort Util.PartInterleave Util.PartInterleaveLocal Util.PartInterleaveArray.
Import ListNotations.
Local Open Scope N_scope.

Definition M64 : N := 18446744073709551615.

Definition qpc (p : pc) : bool := match p with QL_LOAD | QL_CAS | QR_LOAD | QR_CAS => true | _ => false end.
Definition kpc (p : pc) : bool :=
  match p with KLOCK | KL_LOAD | KL_STORE | KR_LOAD | KR_STORE | KUNLOCK => true | _ => false end.
Definition kcrit (p : pc) : bool :=
  match p with KL_LOAD | KL_STORE | KR_LOAD | KR_STORE | KUNLOCK => true | _ => false end.

Section Walls.
  Variable V : Type.
  Variable leb : V -> V -> bool.
  Variable dflt : V.
  Variable P : params.
  Variable lockf : bool.
  Variable pivot : V.
  Variable gs : list targs.

  Notation thr := (thr V).
  Notation gstate := (gstate V).
  Notation astep := (astep V leb dflt P lockf pivot).
  Notation wstep := (wstep V).
  Notation step := (step V leb dflt P lockf pivot gs).
  Notation run := (run V leb dflt P lockf pivot gs).
  Notation mine_l := (mine_l V).
  Notation mine_r := (mine_r V).
  Notation n := (length gs).

  (* per-thread part of the invariant *)
  Definition TW (t : nat) (g : targs) (c : thr) (w : wallst) : Prop :=
    (qpc (t_pc c) = true -> lockf = false) /\ (kpc (t_pc c) = true -> lockf = true) /\
    (w_lock w = Some t -> kcrit (t_pc c) = true) /\
    match t_pc c with
    | QL_CAS => mine_l g c < t_tmp c /\ w_fl w <= t_tmp c
    | QR_LOAD => w_fl w <= mine_l g c
    | QR_CAS => w_fl w <= mine_l g c /\ t_tmp c < mine_r g c /\ t_tmp c <= w_fr w
    | PRET | PDONE => w_fl w <= mine_l g c /\ mine_r g c <= w_fr w
    | KL_LOAD => w_lock w = Some t
    | KL_STORE => w_lock w = Some t /\ t_cur c = w_fl w /\ mine_l g c < t_cur c
    | KR_LOAD => w_lock w = Some t /\ w_fl w <= mine_l g c
    | KR_STORE => w_lock w = Some t /\ w_fl w <= mine_l g c /\ t_cur c = w_fr w /\ t_cur c < mine_r g c
    | KUNLOCK => w_lock w = Some t /\ w_fl w <= mine_l g c /\ mine_r g c <= w_fr w
    | _ => True
    end.

  (* what a step of thread `who` may do to the shared words, as seen by the others *)
  Definition WOK (who : nat) (w w' : wallst) : Prop :=
    w_fl w' <= w_fl w /\ w_fr w <= w_fr w' /\
    ((w_fl w' = w_fl w /\ w_fr w' = w_fr w) \/ lockf = false \/ w_lock w = Some who) /\
    (w_lock w' = w_lock w \/ (w_lock w = None /\ w_lock w' = Some who) \/ (w_lock w = Some who /\ w_lock w' = None)).

  Lemma WOK_refl : forall who w, WOK who w w.
  Proof. intros who w. unfold WOK. repeat split; try lia; auto. Qed.

  Lemma TW_frame : forall who u g c w w', u <> who -> TW u g c w -> WOK who w w' -> TW u g c w'.
  Proof.
    intros who u g c w w' Hne [Q [K [L M]]] [F1 [F2 [F3 F4]]].
    assert (LK : forall x : unit, w_lock w = Some u -> w_lock w' = Some u).
    { intros _ Hu. destruct F4 as [E|[[E _]|[E _]]]; [congruence|congruence|]. rewrite E in Hu. injection Hu as Hu. congruence. }
    assert (SAME : kpc (t_pc c) = true -> w_lock w = Some u -> w_fl w' = w_fl w /\ w_fr w' = w_fr w).
    { intros Hk Hu. destruct F3 as [E|[E|E]]; [exact E| |].
      - rewrite (K Hk) in E. discriminate.
      - rewrite E in Hu. injection Hu as Hu. congruence. }
    split; [exact Q|]. split; [exact K|]. split.
    - intros Hu. apply L. destruct F4 as [E|[[_ E]|[_ E]]]; [congruence| |congruence].
      rewrite E in Hu. injection Hu as Hu. congruence.
    - destruct (t_pc c) eqn:Ep; try exact I.
      + destruct M as [M1 M2]. split; [exact M1|lia].
      + lia.
      + destruct M as [M1 [M2 M3]]. repeat split; lia.
      + exact (LK tt M).
      + destruct M as [M1 [M2 M3]]. destruct (SAME eq_refl M1) as [E1 E2]. split; [exact (LK tt M1)|]. split; [congruence|exact M3].
      + destruct M as [M1 M2]. split; [exact (LK tt M1)|lia].
      + destruct M as [M1 [M2 [M3 M4]]]. destruct (SAME eq_refl M1) as [E1 E2].
        split; [exact (LK tt M1)|]. split; [lia|]. split; [congruence|exact M4].
      + destruct M as [M1 [M2 M3]]. split; [exact (LK tt M1)|]. split; lia.
      + lia.
      + lia.
  Qed.

  (* the stepping thread itself *)
  Lemma wstep_ok : forall who g c w, array_pc (t_pc c) = false -> TW who g c w ->
    TW who g (fst (wstep who g c w)) (snd (wstep who g c w)) /\
    WOK who w (snd (wstep who g c w)) /\
    (w_fl (snd (wstep who g c w)) = w_fl w \/ w_fl (snd (wstep who g c w)) = mine_l g c) /\
    (w_fr (snd (wstep who g c w)) = w_fr w \/ w_fr (snd (wstep who g c w)) = mine_r g c) /\
    ((w_rets (snd (wstep who g c w)) = w_rets w /\ (t_pc (fst (wstep who g c w)) = PDONE <-> t_pc c = PDONE)) \/
     (t_pc c = PRET /\ t_pc (fst (wstep who g c w)) = PDONE /\ w_rets (snd (wstep who g c w)) = upd (w_rets w) who true)).
  Proof.
    intros who g c w Ha [Q [K [L M]]]. unfold PartInterleave.wstep.
    destruct (t_pc c) eqn:Ep; try discriminate; cbn [qpc kpc kcrit] in *.
    - (* QL_LOAD *)
      destruct (N.ltb_spec (mine_l g c) (w_fl w)) as [H|H]; cbn [fst snd];
        (split; [unfold TW, PartInterleave.mine_l, PartInterleave.mine_r in *; cbn; repeat split; auto; try lia; try discriminate|]);
        (split; [apply WOK_refl|]); (split; [auto|]); (split; [auto|]); left; (split; [reflexivity|cbn; rewrite ?Ep; split; discriminate]).
    - (* QL_CAS *)
      destruct M as [M1 M2]. cbn [fst snd].
      destruct (N.eqb_spec (w_fl w) (t_tmp c)) as [E|E]; cbn [negb andb].
      + split; [unfold TW, PartInterleave.mine_l, PartInterleave.mine_r in *; cbn; repeat split; auto; try lia; try discriminate|].
        split; [unfold WOK; cbn; unfold PartInterleave.mine_l in *; repeat split; auto; lia|].
        split; [right; reflexivity|]. split; [left; reflexivity|]. left. split; [reflexivity|cbn; rewrite ?Ep; split; discriminate].
      + destruct (N.ltb_spec (mine_l g c) (w_fl w)) as [H|H];
          (split; [unfold TW, PartInterleave.mine_l, PartInterleave.mine_r in *; cbn; repeat split; auto; try lia; try discriminate|]);
          (split; [apply WOK_refl|]); (split; [auto|]); (split; [auto|]); left; (split; [reflexivity|cbn; rewrite ?Ep; split; discriminate]).
    - (* QR_LOAD *)
      destruct (N.ltb_spec (w_fr w) (mine_r g c)) as [H|H]; cbn [fst snd];
        (split; [unfold TW, PartInterleave.mine_l, PartInterleave.mine_r in *; cbn; repeat split; auto; try lia; try discriminate|]);
        (split; [apply WOK_refl|]); (split; [auto|]); (split; [auto|]); left; (split; [reflexivity|cbn; rewrite ?Ep; split; discriminate]).
    - (* QR_CAS *)
      destruct M as [M1 [M2 M3]]. cbn [fst snd].
      destruct (N.eqb_spec (w_fr w) (t_tmp c)) as [E|E]; cbn [negb andb].
      + split; [unfold TW, PartInterleave.mine_l, PartInterleave.mine_r in *; cbn; repeat split; auto; try lia; try discriminate|].
        split; [unfold WOK; cbn; unfold PartInterleave.mine_r in *; repeat split; auto; lia|].
        split; [left; reflexivity|]. split; [right; reflexivity|]. left. split; [reflexivity|cbn; rewrite ?Ep; split; discriminate].
      + destruct (N.ltb_spec (w_fr w) (mine_r g c)) as [H|H];
          (split; [unfold TW, PartInterleave.mine_l, PartInterleave.mine_r in *; cbn; repeat split; auto; try lia; try discriminate|]);
          (split; [apply WOK_refl|]); (split; [auto|]); (split; [auto|]); left; (split; [reflexivity|cbn; rewrite ?Ep; split; discriminate]).
    - (* KLOCK *)
      destruct (w_lock w) as [h|] eqn:El; cbn [fst snd].
      + split; [unfold TW; rewrite Ep, El; cbn; repeat split; auto|].
        split; [apply WOK_refl|]. split; [auto|]. split; [auto|]. left. split; [reflexivity|rewrite ?Ep; tauto].
      + split; [unfold TW; cbn; repeat split; auto|].
        split; [unfold WOK; cbn; rewrite El; repeat split; auto; lia|].
        split; [auto|]. split; [auto|]. left. split; [reflexivity|cbn; rewrite ?Ep; split; discriminate].
    - (* KL_LOAD *)
      cbn [fst snd]. destruct (N.ltb_spec (mine_l g c) (w_fl w)) as [H|H];
        (split; [unfold TW, PartInterleave.mine_l, PartInterleave.mine_r in *; cbn; repeat split; auto; try lia; try discriminate|]);
        (split; [apply WOK_refl|]); (split; [auto|]); (split; [auto|]); left; (split; [reflexivity|cbn; rewrite ?Ep; split; discriminate]).
    - (* KL_STORE *)
      destruct M as [M1 [M2 M3]]. cbn [fst snd].
      split; [unfold TW, PartInterleave.mine_l, PartInterleave.mine_r in *; cbn; repeat split; auto; try lia; try discriminate|].
      split; [unfold WOK; cbn; unfold PartInterleave.mine_l in *; repeat split; auto; lia|].
      split; [right; reflexivity|]. split; [left; reflexivity|]. left. split; [reflexivity|cbn; rewrite ?Ep; split; discriminate].
    - (* KR_LOAD *)
      destruct M as [M1 M2]. cbn [fst snd]. destruct (N.ltb_spec (w_fr w) (mine_r g c)) as [H|H];
        (split; [unfold TW, PartInterleave.mine_l, PartInterleave.mine_r in *; cbn; repeat split; auto; try lia; try discriminate|]);
        (split; [apply WOK_refl|]); (split; [auto|]); (split; [auto|]); left; (split; [reflexivity|cbn; rewrite ?Ep; split; discriminate]).
    - (* KR_STORE *)
      destruct M as [M1 [M2 [M3 M4]]]. cbn [fst snd].
      split; [unfold TW, PartInterleave.mine_l, PartInterleave.mine_r in *; cbn; repeat split; auto; try lia; try discriminate|].
      split; [unfold WOK; cbn; unfold PartInterleave.mine_r in *; repeat split; auto; lia|].
      split; [left; reflexivity|]. split; [right; reflexivity|]. left. split; [reflexivity|cbn; rewrite ?Ep; split; discriminate].
    - (* KUNLOCK *)
      destruct M as [M1 [M2 M3]]. cbn [fst snd].
      split; [unfold TW, PartInterleave.mine_l, PartInterleave.mine_r in *; cbn; repeat split; auto; try lia; try discriminate|].
      split; [unfold WOK; cbn; repeat split; auto; lia|].
      split; [auto|]. split; [auto|]. left. split; [reflexivity|cbn; rewrite ?Ep; split; discriminate].
    - (* PRET *)
      destruct M as [M1 M2]. cbn [fst snd].
      split; [unfold TW, PartInterleave.mine_l, PartInterleave.mine_r in *; cbn; repeat split; auto; try lia; try discriminate|].
      split; [unfold WOK; cbn; repeat split; auto; lia|].
      split; [auto|]. split; [auto|]. right. cbn. auto.
    - (* PDONE *)
      destruct M as [M1 M2]. cbn [fst snd]. split; [unfold TW; rewrite Ep; repeat split; auto|].
      split; [apply WOK_refl|]. split; [auto|]. split; [auto|]. left. split; [reflexivity|rewrite ?Ep; tauto].
  Qed.

  (* an array step ends in the array phase or at the first pc of quickexit *)
  Lemma astep_pc : forall g c a, array_pc (t_pc c) = true ->
    array_pc (t_pc (fst (astep g c a))) = true \/ t_pc (fst (astep g c a)) = qentry lockf.
  Proof.
    intros g c a H. unfold PartInterleave.astep.
    destruct (t_pc c); try discriminate; cbn [fst];
      repeat match goal with
             | |- context [if ?b then _ else _] => destruct b
             | |- context [match ?x with Some _ => _ | None => _ end] => destruct x
             end; cbn; auto.
  Qed.

  Definition WInv (st : gstate) : Prop :=
    length (w_rets (s_w st)) = n /\ length (s_thr st) = n /\
    (forall t g c, nth_error gs t = Some g -> nth_error (s_thr st) t = Some c ->
       TW t g c (s_w st) /\ (nth t (w_rets (s_w st)) false = true <-> t_pc c = PDONE)) /\
    w_fl (s_w st) <= M64 /\
    (w_fl (s_w st) = M64 \/
     exists t g c, nth_error gs t = Some g /\ nth_error (s_thr st) t = Some c /\ array_pc (t_pc c) = false /\ w_fl (s_w st) = mine_l g c) /\
    (w_fr (s_w st) = 0 \/
     exists t g c, nth_error gs t = Some g /\ nth_error (s_thr st) t = Some c /\ array_pc (t_pc c) = false /\ w_fr (s_w st) = mine_r g c).

  Lemma WInv_init : forall a0, WInv (ginit V dflt gs a0).
  Proof.
    intros a0. unfold WInv. cbn. rewrite !map_length. split; [reflexivity|]. split; [reflexivity|]. split.
    - intros t g c Hg Hc. rewrite nth_error_map, Hg in Hc. cbn in Hc. injection Hc as <-. split.
      + unfold TW. cbn. repeat split; auto; discriminate.
      + cbn. split; [|discriminate]. intros H. exfalso.
        assert (X : forall (l : list targs) k, nth k (map (fun _ : targs => false) l) false = false).
        { induction l as [|y r IH]; intros [|k]; cbn; auto. }
        rewrite X in H. discriminate.
    - split; [unfold M64; lia|]. split; left; reflexivity.
  Qed.

  Lemma WInv_step : forall st who, WInv st -> WInv (step st who).
  Proof.
    intros st who HW. pose proof HW as [HR [HL [HT [HM [HF1 HF2]]]]]. unfold PartInterleave.step.
    assert (Hidle : WInv (if Nat.eqb who (length gs)
                          then {| s_a := s_a st; s_w := s_w st; s_thr := s_thr st; s_par := pstep gs (s_par st) (s_w st) |}
                          else st)) by (destruct (Nat.eqb who (length gs)); exact HW).
    destruct (nth_error (s_thr st) who) as [c|] eqn:Ec; [|exact Hidle].
    destruct (nth_error gs who) as [g|] eqn:Eg; [|exact Hidle].
    clear Hidle.
    assert (Hwho : (who < n)%nat) by (apply nth_error_Some; congruence).
    destruct (HT who g c Eg Ec) as [T0 R0].
    destruct (array_pc (t_pc c)) eqn:Ea.
    - (* array step: the shared words do not change, the thread stays in the array phase or enters quickexit *)
      pose proof (astep_pc g c (s_a st) Ea) as Hpc.
      destruct (astep g c (s_a st)) as [c' a'] eqn:Es. cbn [fst] in Hpc.
      unfold WInv. cbn [s_w s_thr]. rewrite upd_length.
      split; [exact HR|]. split; [exact HL|]. split; [|split; [exact HM|split]].
      + intros t g' ct Hg' Hct. destruct (Nat.eq_dec t who) as [->|Hne].
        * rewrite Eg in Hg'. injection Hg' as <-. rewrite nth_error_upd_same in Hct by lia. injection Hct as <-.
          destruct T0 as [Q [K [L M]]].
          assert (NL : w_lock (s_w st) <> Some who).
          { intros E. specialize (L E). destruct (t_pc c); discriminate. }
          split.
          -- unfold TW. destruct Hpc as [Hp|Hp].
             ++ destruct (t_pc c'); try discriminate; cbn; repeat split; auto; try discriminate; intros; contradiction.
             ++ rewrite Hp. unfold qentry. destruct lockf; cbn; repeat split; auto; try discriminate; intros; contradiction.
          -- assert (N1 : t_pc c <> PDONE) by (intros E; rewrite E in Ea; discriminate).
             assert (N2 : t_pc c' <> PDONE).
             { destruct Hpc as [Hp|Hp]; intros E; rewrite E in Hp; [discriminate|]. unfold qentry in Hp. destruct lockf; discriminate. }
             split; [intros H; exfalso; apply N1; apply R0; exact H|intros H; contradiction].
        * rewrite nth_error_upd_other in Hct by exact Hne. exact (HT t g' ct Hg' Hct).
      + destruct HF1 as [E|[t [g' [ct [Hg' [Hct [Hn E]]]]]]]; [left; exact E|right].
        exists t, g', ct. split; [exact Hg'|]. split; [|split; assumption].
        rewrite nth_error_upd_other; [exact Hct|]. intros ->. rewrite Ec in Hct. injection Hct as <-. congruence.
      + destruct HF2 as [E|[t [g' [ct [Hg' [Hct [Hn E]]]]]]]; [left; exact E|right].
        exists t, g', ct. split; [exact Hg'|]. split; [|split; assumption].
        rewrite nth_error_upd_other; [exact Hct|]. intros ->. rewrite Ec in Hct. injection Hct as <-. congruence.
    - (* quickexit step *)
      destruct (wstep_ok who g c (s_w st) Ea T0) as [T1 [OK [FL [FR RT]]]].
      destruct (wstep_keeps V who g c (s_w st) Ea) as [K1 [K2 K3]].
      destruct (wstep who g c (s_w st)) as [c' w'] eqn:Es. cbn [fst snd] in *.
      assert (ML : mine_l g c' = mine_l g c) by (unfold PartInterleave.mine_l; rewrite K2; reflexivity).
      assert (MR : mine_r g c' = mine_r g c) by (unfold PartInterleave.mine_r; rewrite K3; reflexivity).
      assert (RL : length (w_rets w') = n).
      { destruct RT as [[E _]|[_ [_ E]]]; rewrite E; [exact HR|rewrite upd_length; exact HR]. }
      unfold WInv. cbn [s_w s_thr]. rewrite upd_length.
      split; [exact RL|]. split; [exact HL|]. split; [|split; [destruct OK as [O1 _]; lia|split]].
      + intros t g' ct Hg' Hct. destruct (Nat.eq_dec t who) as [->|Hne].
        * rewrite Eg in Hg'. injection Hg' as <-. rewrite nth_error_upd_same in Hct by lia. injection Hct as <-.
          split; [exact T1|].
          destruct RT as [[E1 E2]|[E1 [E2 E3]]].
          -- rewrite E1. rewrite R0. tauto.
          -- rewrite E3, nth_upd_same by lia. tauto.
        * rewrite nth_error_upd_other in Hct by exact Hne.
          destruct (HT t g' ct Hg' Hct) as [T2 R2]. split; [eapply TW_frame; eauto|].
          destruct RT as [[E1 _]|[_ [_ E3]]]; [rewrite E1; exact R2|rewrite E3, nth_upd_other by exact Hne; exact R2].
      + destruct FL as [E|E].
        * rewrite E. destruct HF1 as [E'|[t [g' [ct [Hg' [Hct [Hn E']]]]]]]; [left; exact E'|right].
          destruct (Nat.eq_dec t who) as [->|Hne].
          -- rewrite Eg in Hg'. injection Hg' as <-. rewrite Ec in Hct. injection Hct as <-.
             exists who, g, c'. split; [exact Eg|]. split; [apply nth_error_upd_same; lia|]. split; [exact K1|congruence].
          -- exists t, g', ct. split; [exact Hg'|]. split; [rewrite nth_error_upd_other by exact Hne; exact Hct|]. split; assumption.
        * right. exists who, g, c'. split; [exact Eg|]. split; [apply nth_error_upd_same; lia|]. split; [exact K1|congruence].
      + destruct FR as [E|E].
        * rewrite E. destruct HF2 as [E'|[t [g' [ct [Hg' [Hct [Hn E']]]]]]]; [left; exact E'|right].
          destruct (Nat.eq_dec t who) as [->|Hne].
          -- rewrite Eg in Hg'. injection Hg' as <-. rewrite Ec in Hct. injection Hct as <-.
             exists who, g, c'. split; [exact Eg|]. split; [apply nth_error_upd_same; lia|]. split; [exact K1|congruence].
          -- exists t, g', ct. split; [exact Hg'|]. split; [rewrite nth_error_upd_other by exact Hne; exact Hct|]. split; assumption.
        * right. exists who, g, c'. split; [exact Eg|]. split; [apply nth_error_upd_same; lia|]. split; [exact K1|congruence].
  Qed.

  Theorem WInv_run : forall sched st, WInv st -> WInv (run st sched).
  Proof.
    induction sched as [|who r IH]; intros st H; [exact H|].
    cbn [PartInterleave.run fold_left]. apply IH. apply WInv_step. exact H.
  Qed.

  (* ------------------------------------------------------------------ the parent *)
  Definition PInv (st : gstate) : Prop :=
    (p_i (s_par st) <= n)%nat /\
    (forall u c, (u < p_i (s_par st))%nat -> nth_error (s_thr st) u = Some c -> t_pc c = PDONE) /\
    (forall l r, p_res (s_par st) = Some (l, r) -> p_i (s_par st) = n /\ l = w_fl (s_w st) /\ r = w_fr (s_w st)).

  Lemma PInv_init : forall a0, PInv (ginit V dflt gs a0).
  Proof. intros a0. unfold PInv. cbn. split; [lia|]. split; [intros; lia|intros; discriminate]. Qed.

  Lemma wstep_done : forall tid g c w, t_pc c = PDONE -> wstep tid g c w = (c, w).
  Proof. intros tid g c w H. unfold PartInterleave.wstep. rewrite H. reflexivity. Qed.

  Lemma PInv_step : forall st who, WInv st -> PInv st -> PInv (step st who).
  Proof.
    intros st who HW [P1 [P2 P3]]. pose proof HW as [HR [HL [HT _]]]. unfold PartInterleave.step.
    destruct (nth_error (s_thr st) who) as [c|] eqn:Ec; [destruct (nth_error gs who) as [g|] eqn:Eg|].
    - (* a thread *)
      assert (Hwho : (who < n)%nat) by (apply nth_error_Some; congruence).
      destruct (array_pc (t_pc c)) eqn:Ea.
      + destruct (astep g c (s_a st)) as [c' a'] eqn:Es. unfold PInv. cbn [s_par s_thr s_w].
        assert (NW : ~ (who < p_i (s_par st))%nat).
        { intros H. rewrite (P2 who c H Ec) in Ea. discriminate. }
        split; [exact P1|]. split.
        * intros u cu Hu Hcu. rewrite nth_error_upd_other in Hcu by lia. exact (P2 u cu Hu Hcu).
        * intros l r E. destruct (P3 l r E) as [E1 _]. lia.
      + destruct (Nat.lt_ge_cases who (p_i (s_par st))) as [Hlt|Hge].
        * rewrite (wstep_done who g c (s_w st) (P2 who c Hlt Ec)). unfold PInv. cbn [s_par s_thr s_w].
          split; [exact P1|]. split; [|exact P3].
          intros u cu Hu Hcu. destruct (Nat.eq_dec u who) as [->|Hne].
          -- rewrite nth_error_upd_same in Hcu by lia. injection Hcu as <-. exact (P2 who c Hlt Ec).
          -- rewrite nth_error_upd_other in Hcu by exact Hne. exact (P2 u cu Hu Hcu).
        * destruct (wstep who g c (s_w st)) as [c' w'] eqn:Es. unfold PInv. cbn [s_par s_thr s_w].
          split; [exact P1|]. split.
          -- intros u cu Hu Hcu. rewrite nth_error_upd_other in Hcu by lia. exact (P2 u cu Hu Hcu).
          -- intros l r E. destruct (P3 l r E) as [E1 _]. lia.
    - exfalso. apply nth_error_None in Eg. assert ((who < n)%nat) by (rewrite <- HL; apply nth_error_Some; congruence). lia.
    - unfold nthreads. destruct (Nat.eqb who (length gs)); [|split; [exact P1|split; [exact P2|exact P3]]].
      (* the parent *)
      unfold PInv, PartInterleave.pstep, nthreads. cbn [s_par s_thr s_w].
      destruct (p_res (s_par st)) as [[l0 r0]|] eqn:Er; [split; [exact P1|split; [exact P2|rewrite Er; exact P3]]|].
      destruct (Nat.ltb_spec (p_i (s_par st)) n) as [Hlt|Hge].
      + destruct (nth (p_i (s_par st)) (w_rets (s_w st)) false) eqn:En.
        * cbn [p_i p_res]. split; [lia|]. split; [|intros; discriminate].
          intros u cu Hu Hcu. destruct (Nat.eq_dec u (p_i (s_par st))) as [->|Hne]; [|apply (P2 u cu); [lia|exact Hcu]].
          destruct (nth_error gs (p_i (s_par st))) as [g|] eqn:Eg; [|apply nth_error_None in Eg; lia].
          apply (HT _ g cu Eg Hcu). exact En.
        * split; [exact P1|]. split; [exact P2|rewrite Er; intros; discriminate].
      + cbn [p_i p_res]. split; [exact P1|]. split; [exact P2|]. intros l r E. injection E as <- <-. split; [lia|auto].
  Qed.

  Theorem Inv_run : forall sched st, WInv st -> PInv st -> WInv (run st sched) /\ PInv (run st sched).
  Proof.
    induction sched as [|who r IH]; intros st H1 H2; [split; assumption|].
    cbn [PartInterleave.run fold_left]. apply IH; [apply WInv_step; exact H1|apply PInv_step; assumption].
  Qed.

  (* ------------------------------------------------------------------ consequences *)
  (* the lock is a mutex: two threads are never both inside the critical section *)
  Theorem lock_mutex : forall st, WInv st -> forall t u g g' c c', nth_error gs t = Some g -> nth_error gs u = Some g' ->
    nth_error (s_thr st) t = Some c -> nth_error (s_thr st) u = Some c' ->
    kcrit (t_pc c) = true -> kcrit (t_pc c') = true -> t = u.
  Proof.
    intros st [_ [_ [HT _]]] t u g g' c c' Hg Hg' Hc Hc' K K'.
    destruct (HT t g c Hg Hc) as [[_ [_ [_ M]]] _]. destruct (HT u g' c' Hg' Hc') as [[_ [_ [_ M']]] _].
    assert (E : w_lock (s_w st) = Some t) by (destruct (t_pc c); try discriminate; tauto).
    assert (E' : w_lock (s_w st) = Some u) by (destruct (t_pc c'); try discriminate; tauto).
    congruence.
  Qed.

  (* all threads returned: the wall words are the minimum / maximum of the threads' walls *)
  Theorem walls_final : forall st, WInv st ->
    (forall t c, nth_error (s_thr st) t = Some c -> t_pc c = PDONE) ->
    (forall t g c, nth_error gs t = Some g -> nth_error (s_thr st) t = Some c ->
       w_fl (s_w st) <= mine_l g c /\ mine_r g c <= w_fr (s_w st)) /\
    w_fl (s_w st) <= M64 /\
    (w_fl (s_w st) = M64 \/ exists t g c, nth_error gs t = Some g /\ nth_error (s_thr st) t = Some c /\ w_fl (s_w st) = mine_l g c) /\
    (w_fr (s_w st) = 0 \/ exists t g c, nth_error gs t = Some g /\ nth_error (s_thr st) t = Some c /\ w_fr (s_w st) = mine_r g c).
  Proof.
    intros st [_ [_ [HT [HM [HF1 HF2]]]]] HD. split; [|split; [exact HM|split]].
    - intros t g c Hg Hc. destruct (HT t g c Hg Hc) as [[_ [_ [_ M]]] _]. rewrite (HD t c Hc) in M. exact M.
    - destruct HF1 as [E|[t [g [c [H1 [H2 [_ H3]]]]]]]; [left; exact E|right; exists t, g, c; auto].
    - destruct HF2 as [E|[t [g [c [H1 [H2 [_ H3]]]]]]]; [left; exact E|right; exists t, g, c; auto].
  Qed.

  (* the parent has returned: every thread has returned and its retval is the current pair of wall words *)
  Theorem parent_returned : forall st l r, WInv st -> PInv st -> p_res (s_par st) = Some (l, r) ->
    (forall t c, nth_error (s_thr st) t = Some c -> t_pc c = PDONE) /\ l = w_fl (s_w st) /\ r = w_fr (s_w st).
  Proof.
    intros st l r [_ [HL _]] [P1 [P2 P3]] E. destruct (P3 l r E) as [E1 [E2 E3]]. split; [|auto].
    intros t c Hc. apply (P2 t c); [|exact Hc]. rewrite E1, <- HL. apply nth_error_Some. congruence.
  Qed.
End Walls.
