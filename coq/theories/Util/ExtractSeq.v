From Coq Require Import List NArith.
From QV Require Import Util.Sort Util.SeqSort.
Require Extraction.
Require Import ExtrOcamlBasic.
Extraction Language OCaml.
Extraction "../ocaml/gen/c13seq_model.ml"
  aget aset of_list int_log stack_cap seqsort_run seqsort outer seq_fuel.
