(* C13 -- executable model of the parallel reductions of qloop.c and qutil.c.
   Definitions only (the proofs are in ReduceProofs.v).

   qloop.c  qt_loopaccum_balance_inner / qloopaccum_wrapper / PARALLEL_FUNC kernels
   qutil.c  OUTER_LOOP / INNER_LOOP (chained chunks of MT_LOOP_CHUNK)

   The operator is a Section variable: after extraction every function takes the operator as an
   argument, so the same extracted code runs on 64-bit integers and on IEEE doubles (the driver
   supplies the machine operator); the theorems quantify over the operator. *)
From Coq Require Import List Arith.
Import ListNotations.

Section Reduce.
  Variable V : Type.
  Variable op : V -> V -> V.
  Variable dflt : V.           (* what a read outside the array yields in the model *)

  (* the sequential definition: acc = a[0]; for (i = 1; i < len; i++) acc = op(acc, a[i]) *)
  Definition seqfold (a : list V) : V :=
    match a with
    | [] => dflt
    | x :: r => fold_left op r x
    end.

  Definition slice (a : list V) (s e : nat) : list V := firstn (e - s) (skipn s a).

  (* qt<..>_worker / INNER_LOOP:  acc = a[startat]; for (i = startat+1; i < stopat; i++) acc = op(acc, a[i]).
     a[startat] is read even when the range is empty. *)
  Definition kernel (a : list V) (startat stopat : nat) : V :=
    fold_left op (firstn (stopat - startat - 1) (skipn (S startat) a)) (nth startat a dflt).

  (* ---- qt_loopaccum_balance_inner: the split ---- *)
  (* for (i = 0; i < maxworkers; i++) { startat = iterend; stopat = iterend + each;
                                        if (extra > 0) { stopat++; extra--; } iterend = stopat; } *)
  Fixpoint split_ranges (n iterend each extra : nat) : list (nat * nat) :=
    match n with
    | 0 => []
    | S n' =>
      let stopat := iterend + each + (if 0 <? extra then 1 else 0) in
      (iterend, stopat) :: split_ranges n' stopat each (extra - 1)
    end.

  (* maxworkers = (stop - start > workers) ? workers : stop - start   (the clamp of fix 2402abf) *)
  Definition maxworkers (start stop workers : nat) : nat :=
    if workers <? stop - start then workers else stop - start.

  Definition loopaccum_ranges (start stop workers : nat) : list (nat * nat) :=
    let mw := maxworkers start stop workers in
    let each := (stop - start) / mw in
    let extra := (stop - start) - each * mw in
    split_ranges mw start each extra.

  (* per-worker partial results: worker 0 writes `out`, worker i>0 writes realrets[i-1] *)
  Definition partials (a : list V) (start stop workers : nat) : list V :=
    map (fun r => kernel a (fst r) (snd r)) (loopaccum_ranges start stop workers).

  (* SYNCVAR_T and DONECOUNT flavours:  for (i = 1; i < maxworkers; i++) acc(out, realrets[i-1]) *)
  Definition loopaccum (a : list V) (start stop workers : nat) : V :=
    seqfold (partials a start stop workers).

  (* SINC_T flavour (sincs/donecount.c): every (shepherd, worker) slot starts as the initial value `init`
     (= *out at the call); a wrapper submits its partial into the slot of the worker it happens to run on
     (op(slot, partial)); the last submit collates  result = init; for every slot: op(result, slot).
     `slots` lists, per slot, the partials that were submitted to it, in submission order: it is the
     schedule's choice; the theorem quantifies over it. *)
  Definition sinc_collate (init : V) (slots : list (list V)) : V :=
    fold_left op (map (fun s => fold_left op s init) slots) init.

  (* ---- qutil.c OUTER_LOOP: chained chunks of C = MT_LOOP_CHUNK ----
     while (start + C < length) { spawn inner(start, start+C, addlast = previous chunk's ret); start += C; }
     myret = kernel(start, length);  if (waitfor) myret = op(myret, *waitfor);
     inner: ret = kernel(start, stop); if (addlast) ret = op(ret, *addlast); *)
  Fixpoint qutil_chain (C : nat) (a : list V) (fuel start : nat) (prev : option V) : nat * option V :=
    match fuel with
    | 0 => (start, prev)
    | S f =>
      if start + C <? length a then
        let r := kernel a start (start + C) in
        let r' := match prev with None => r | Some p => op r p end in
        qutil_chain C a f (start + C) (Some r')
      else (start, prev)
    end.

  Definition qutil_reduce (C : nat) (a : list V) : V :=
    let '(start, prev) := qutil_chain C a (length a) 0 None in
    let my := kernel a start (length a) in
    match prev with None => my | Some p => op my p end.

  (* ---- expression trees: what "within re-association" means for a non-associative operator ---- *)
  Inductive tree : Type :=
  | Leaf (v : V)
  | Node (l r : tree).

  Fixpoint eval (t : tree) : V :=
    match t with
    | Leaf v => v
    | Node l r => op (eval l) (eval r)
    end.

  Fixpoint leaves (t : tree) : list V :=
    match t with
    | Leaf v => [v]
    | Node l r => leaves l ++ leaves r
    end.
End Reduce.

(* ---- the integer operators of the kernels, on Z with the C wrap-around ---- *)
From Coq Require Import ZArith.
Local Open Scope Z_scope.

Definition wrapu (x : Z) : Z := x mod 18446744073709551616.
Definition wraps (x : Z) : Z := (x + 9223372036854775808) mod 18446744073709551616 - 9223372036854775808.

Definition u_add (a b : Z) : Z := wrapu (a + b).
Definition u_mul (a b : Z) : Z := wrapu (a * b).
Definition s_add (a b : Z) : Z := wraps (a + b).
Definition s_mul (a b : Z) : Z := wraps (a * b).
(* qloop.c MAX(a,b) = (a > b) ? a : b ; MIN(a,b) = (a < b) ? a : b ; qutil: if (max < c) max = c *)
Definition z_max (a b : Z) : Z := if b <? a then a else b.
Definition z_min (a b : Z) : Z := if a <? b then a else b.
