(* C13 -- one pass of the strided multi-thread partitioner (partitioner / part_threads of Sort.v) is correct:
   per-thread lengths of the megachunk code, independence of the threads, wall merge by min/max. *)
From Coq Require Import List NArith Bool Lia Permutation FMapPositive ZArith.
From QV Require Import Util.Sort Util.SortProofs Util.SortCorrect Util.Strided Util.StridedThread.
Local Open Scope N_scope.

Section Pass.
  Variable V : Type.
  Variable leb : V -> V -> bool.
  Variable dflt : V.
  Variable bound : N.
  Variable P : params.
  Variable B LEN : N.          (* the sub-array [B, B+LEN) *)
  Variable p : V.
  Variable nt : N.

  Let cs := p_chunk P.
  Let mcs := cs * nt.
  Let M := LEN / mcs.
  Let ex := LEN mod mcs.
  Let jump := (nt - 1) * cs + 1.

  Hypothesis cs_pos : 0 < cs.
  Hypothesis nt_pos : 0 < nt.
  Hypothesis mcs_le : mcs <= LEN.
  Hypothesis in_bound : B + LEN <= bound.

  Notation idx := (idx P nt).
  Notation aget := (aget V dflt).

  Lemma len_split : LEN = M * mcs + ex /\ ex < mcs /\ 1 <= M.
  Proof.
    assert (Hm : 0 < mcs) by (unfold mcs; nia).
    pose proof (N.div_mod LEN mcs ltac:(lia)) as D. pose proof (N.mod_lt LEN mcs ltac:(lia)) as R.
    fold M in D. fold ex in D, R. split; [lia|]. split; [exact R|].
    destruct (N.eq_dec M 0) as [E|E]; [|lia]. rewrite E in D. lia.
  Qed.

  (* ------------------------------------------------------------------ (2) how many elements thread t owns *)
  (* position of the last element thread t owns (the thread owns idx 0 .. idx (ymax t)) *)
  Definition ymax (t : N) : N :=
    if ex =? 0 then cs * (M - 1) + (cs - 1)
    else if (t + 1) * cs <? ex then cs * M + (cs - 1)
    else if t * cs <? ex then cs * M + (ex - t * cs - 1)
    else cs * (M - 1) + (cs - 1).
  (* the mutable `megachunks` of the spawning loop when thread i is set up *)
  Definition mcur (i : N) : N := if ex =? 0 then M else if i * cs <? ex then M else M - 1.

  (* the length the code hands to thread i, and the next value of `megachunks` *)
  Definition len_of (i mega : N) : N :=
    let len0 := if negb (ex =? 0) then mega * mcs + cs else LEN - mcs + cs in
    let clip := negb (ex =? 0) && (LEN <=? len0 + i * cs) in
    if clip then LEN - i * cs else len0.
  Definition mega_next (i mega : N) : N :=
    let len0 := if negb (ex =? 0) then mega * mcs + cs else LEN - mcs + cs in
    let clip := negb (ex =? 0) && (LEN <=? len0 + i * cs) in
    if clip then mega - 1 else mega.

  Lemma thread_length : forall i, i < nt ->
    len_of i (mcur i) = idx (ymax i) + 1 /\ mega_next i (mcur i) = mcur (i + 1).
  Proof.
    intros i Hi. destruct len_split as [HL [Hex HM]].
    assert (Hic : (i + 1) * cs <= mcs) by (unfold mcs; nia).
    unfold len_of, mega_next, mcur, ymax.
    destruct (N.eqb_spec ex 0) as [E0|E0]; simpl.
    - rewrite (idx_of_qr P nt) by (fold cs; lia). fold cs. fold mcs. split; [nia|reflexivity].
    - destruct (N.ltb_spec (i * cs) ex) as [H1|H1].
      + destruct (N.ltb_spec ((i + 1) * cs) ex) as [H2|H2].
        * destruct (N.leb_spec LEN (M * mcs + cs + i * cs)); [nia|].
          rewrite (idx_of_qr P nt) by (fold cs; lia). fold cs. fold mcs. split; [nia|reflexivity].
        * destruct (N.leb_spec LEN (M * mcs + cs + i * cs)); [|nia].
          rewrite (idx_of_qr P nt) by (fold cs; nia). fold cs. fold mcs. split; [nia|reflexivity].
      + destruct (N.ltb_spec ((i + 1) * cs) ex) as [H2|H2]; [nia|].
        destruct (N.leb_spec LEN ((M - 1) * mcs + cs + i * cs)); [nia|].
        rewrite (idx_of_qr P nt) by (fold cs; lia). fold cs. fold mcs. split; [nia|reflexivity].
  Qed.

  (* exactly the elements idx 0 .. idx (ymax t) of thread t lie inside the sub-array *)
  Lemma coverage : forall t k, t < nt -> (t * cs + idx k < LEN <-> k <= ymax t).
  Proof.
    intros t k Ht. destruct len_split as [HL [Hex HM]].
    assert (Htc : (t + 1) * cs <= mcs) by (unfold mcs; nia).
    pose proof (N.div_mod k cs ltac:(lia)) as D. pose proof (N.mod_lt k cs ltac:(lia)) as R.
    set (q := k / cs) in *. set (r := k mod cs) in *.
    rewrite D. rewrite (idx_of_qr P nt) by (fold cs; exact R). fold cs. fold mcs.
    assert (P3 : cs * M = cs * (M - 1) + cs) by (replace M with (M - 1 + 1) at 1 by lia; lia).
    assert (Hcases : (q < M /\ (q + 1) * mcs <= M * mcs /\ cs * q <= cs * (M - 1)) \/ q = M \/
                     (M < q /\ (M + 1) * mcs <= q * mcs /\ cs * (M + 1) <= cs * q)).
    { destruct (N.lt_trichotomy q M) as [X|[X|X]].
      - left. split; [exact X|]. split; [apply N.mul_le_mono_r; lia|apply N.mul_le_mono_l; lia].
      - right. left. exact X.
      - right. right. split; [exact X|]. split; [apply N.mul_le_mono_r; lia|apply N.mul_le_mono_l; lia]. }
    unfold ymax.
    destruct (N.eqb_spec ex 0) as [E0|E0]; [|destruct (N.ltb_spec ((t + 1) * cs) ex) as [H2|H2];
                                             [|destruct (N.ltb_spec (t * cs) ex) as [H1|H1]]];
      (destruct Hcases as [[X [Y Z]]|[X|[X [Y Z]]]]; [| subst q |]; split; intros; lia).
  Qed.

  (* ------------------------------------------------------------------ (1) instantiated: thread t *)
  Notation TPt t := (TP V leb dflt idx (B + t * cs) p (ymax t)).
  Notation OSt t := (OnlySlice V dflt idx (B + t * cs) (ymax t) B LEN).

  Lemma idx_mono : forall x y, x < y -> idx x < idx y.
  Proof. apply (e_mono idx (idx_increasing P nt cs_pos nt_pos) (idx_0 P nt cs_pos nt_pos)). Qed.

  Lemma idx_lt_inv : forall x y, idx x < idx y -> x < y.
  Proof.
    intros x y H. destruct (N.lt_ge_cases x y) as [L|G]; [exact L|].
    destruct (N.eq_dec x y) as [->|Hne]; [lia|]. pose proof (idx_mono y x ltac:(lia)). lia.
  Qed.

  Lemma thread_spec : forall t a, t < nt ->
    exists a' X Y, part_thread V leb dflt bound P a (B + t * cs) (idx (ymax t) + 1) jump p = Some (a', idx X, idx Y) /\
                   OSt t a a' /\ TPt t a' X Y.
  Proof.
    intros t a Ht.
    apply (part_thread_spec V leb dflt bound P jump idx
             (lstep_idx P nt cs_pos nt_pos) (rstep_idx_succ P nt cs_pos nt_pos) (rstep_idx_0 P nt cs_pos nt_pos)
             (idx_increasing P nt cs_pos nt_pos) (idx_0 P nt cs_pos nt_pos)).
    pose proof (proj2 (coverage t (ymax t) Ht) (N.le_refl _)) as C.
    split; [lia|]. split; [lia|exact in_bound].
  Qed.

  (* ------------------------------------------------------------------ (3)+(4) the spawning loop *)
  Definition PInv (a0 a : arr V) (i lwall rwall : N) : Prop :=
    SegRel V dflt a0 a B LEN /\ rwall < LEN /\
    forall t, t < i -> exists X Y, TPt t a X Y /\ lwall <= t * cs + idx X /\ t * cs + idx Y <= rwall.

  Lemma part_threads_S : forall k i a mega lw rw,
    part_threads V leb dflt bound P (S k) i a B LEN nt mcs ex mega p lw rw =
    match part_thread V leb dflt bound P a (B + i * cs) (len_of i mega) jump p with
    | None => None
    | Some (a', l, r) =>
      part_threads V leb dflt bound P k (i + 1) a' B LEN nt mcs ex (mega_next i mega) p
                   (if l + i * cs <? lw then l + i * cs else lw) (if rw <? r + i * cs then r + i * cs else rw)
    end.
  Proof. reflexivity. Qed.

  Lemma part_threads_spec : forall a0 k i a lwall rwall, i + N.of_nat k = nt -> PInv a0 a i lwall rwall ->
    exists a' l r, part_threads V leb dflt bound P k i a B LEN nt mcs ex (mcur i) p lwall rwall = Some (a', l, r) /\
                   PInv a0 a' nt l r.
  Proof.
    intros a0. induction k as [|k IH]; intros i a lwall rwall Hik [S0 [R0 T0]].
    - assert (E : i = nt) by (simpl in Hik; lia). subst i.
      simpl. exists a, lwall, rwall. split; [reflexivity|]. split; [exact S0|]. split; [exact R0|exact T0].
    - assert (Hi : i < nt) by lia.
      rewrite part_threads_S.
      destruct (thread_length i Hi) as [EL EM]. rewrite EL, EM.
      destruct (thread_spec i a Hi) as [a' [X [Y [E1 [[O1 O2] T1]]]]]. rewrite E1.
      apply IH; [lia|].
      destruct T1 as [T1a [T1b T1c]].
      assert (CY : i * cs + idx Y < LEN).
      { destruct (N.eq_dec Y (ymax i)) as [->|Hne]; [apply (coverage i); [exact Hi|lia]|].
        apply (coverage i); [exact Hi|exact T1a]. }
      split; [eapply SegRel_trans; [exact S0|exact O2]|]. split.
      + destruct (N.ltb_spec rwall (idx Y + i * cs)); lia.
      + intros t Ht. destruct (N.eq_dec t i) as [->|Hne].
        * exists X, Y. split; [repeat split; assumption|]. split.
          -- destruct (N.ltb_spec (idx X + i * cs) lwall); lia.
          -- destruct (N.ltb_spec rwall (idx Y + i * cs)); lia.
        * destruct (T0 t ltac:(lia)) as [Xt [Yt [[Ta [Tb Tc]] [W1 W2]]]].
          assert (Same : forall k0, aget a' (B + t * cs + idx k0) = aget a (B + t * cs + idx k0)).
          { intros k0. apply O1. intros k1 _ Q.
            assert (Q' : t * cs + idx k0 = i * cs + idx k1) by lia.
            destruct (slice_unique P nt cs_pos nt_pos t k0 i k1 ltac:(lia) Hi Q') as [Q1 _]. contradiction. }
          exists Xt, Yt. split; [|split].
          -- split; [exact Ta|]. split.
             ++ intros k0 K1 K2. unfold LEp. rewrite Same. apply Tb; assumption.
             ++ intros k0 K1 K2. unfold GTp. rewrite Same. apply Tc; assumption.
          -- destruct (N.ltb_spec (idx X + i * cs) lwall); lia.
          -- destruct (N.ltb_spec rwall (idx Y + i * cs)); lia.
  Qed.

  (* the whole pass, for nt = p_nthreads P LEN *)
  Theorem pass_correct : nt = p_nthreads P LEN -> forall a,
    exists a2 l r, partitioner V leb dflt bound P a B LEN p = Some (a2, l, r) /\
                   SegRel V dflt a a2 B LEN /\ r < LEN /\
                   (forall i, i < l -> i <= r -> LE V leb dflt a2 B p i) /\
                   (forall i, r < i -> i < LEN -> GT V leb dflt a2 B p i).
  Proof.
    intros Hnt a. destruct len_split as [HL [Hex HM]].
    unfold Sort.partitioner. rewrite <- Hnt. fold cs. fold mcs.
    destruct (N.eqb_spec mcs 0) as [E|E]; [unfold mcs in E; nia|].
    fold M. fold ex.
    assert (Hm0 : mcur 0 = M).
    { unfold mcur. destruct (N.eqb_spec ex 0); [reflexivity|]. destruct (N.ltb_spec (0 * cs) ex); [reflexivity|lia]. }
    rewrite <- Hm0.
    destruct (part_threads_spec a (N.to_nat nt) 0 a 18446744073709551615 0) as [a2 [l [r [E2 [S2 [R2 T2]]]]]].
    - lia.
    - split; [apply SegRel_refl|]. split; [lia|]. intros t Ht. lia.
    - exists a2, l, r. split; [exact E2|]. split; [exact S2|]. split; [exact R2|]. split.
      + intros j J1 J2.
        destruct (slice_decompose P nt cs_pos nt_pos j) as [t [k [Ht Ej]]]. fold cs in Ej.
        destruct (T2 t Ht) as [X [Y [[Ta [Tb Tc]] [W1 W2]]]].
        assert (Hk : k <= ymax t) by (apply (coverage t k Ht); lia).
        assert (HkX : k < X) by (apply idx_lt_inv; lia).
        unfold LE. replace (B + j) with (B + t * cs + idx k) by lia. apply Tb; assumption.
      + intros j J1 J2.
        destruct (slice_decompose P nt cs_pos nt_pos j) as [t [k [Ht Ej]]]. fold cs in Ej.
        destruct (T2 t Ht) as [X [Y [[Ta [Tb Tc]] [W1 W2]]]].
        assert (Hk : k <= ymax t) by (apply (coverage t k Ht); lia).
        assert (HkY : Y < k) by (apply idx_lt_inv; lia).
        unfold GT. replace (B + j) with (B + t * cs + idx k) by lia. apply Tc; assumption.
  Qed.
End Pass.
