(* C13 extension W -- executable model of the library's OWN sequential sort, the one the parallel sorts qutil_qsort /
   qutil_aligned_qsort use below the cutoff (len <= MT_LOOP_CHUNK) and qutil_mergesort uses for its presort:
   src/qutil.c  drf_qsort_dbl / drf_qsort_algt  (the two functions differ only in the element type), an iterative
   quicksort with an explicit stack beg[MAX] / end[MAX] (variable-length arrays), MAX = QT_INT_LOG(elements) + 5.
   Definitions only (proofs: SeqSortProofs.v, SeqSortOuter.v, SeqSortArr.v, SeqSortTop.v).

       const ssize_t MAX = QT_INT_LOG(elements) + 5;
       ssize_t beg[MAX], end[MAX], i = 0, L, R, swap;   T piv;
       beg[0] = 0; end[0] = elements;
       while (i >= 0) {
           assert(i < MAX);                                   (compiled out: QTHREAD_NO_ASSERTS)
           L = beg[i]; R = end[i] - 1;
           if (L < R) {
               piv = arr[L];
               while (L < R) {
                   while (arr[R] >= piv && L < R) R--;
                   if (L < R) arr[L++] = arr[R];
                   while (arr[L] <= piv && L < R) L++;
                   if (L < R) arr[R--] = arr[L];
               }
               arr[L] = piv;
               beg[i + 1] = L + 1; end[i + 1] = end[i]; end[i++] = L;
               if (end[i] - beg[i] > end[i - 1] - beg[i - 1]) { swap entries i and i-1 }
           } else i--;
       }

   Arrays: the map type of Sort.v (index -> value, `aget a (b + k)` is arr[k] of a call on array + b).  Elements: an
   abstract type with a comparison `leb` (x <= y); `arr[R] >= piv` is `leb piv arr[R]` (no NaN, as in Sort.v).
   The explicit stack: the list of the live entries (beg[k], end[k]), k = i, i-1, .., 0 (head = entry i).  Entries above i
   are never read before they are written (beg[i+1] / end[i+1] are assigned before i++), so the list is an exact data
   refinement of the two arrays and the index (proved: SeqSortArr.outer_arr_refines, for arbitrary initial contents of
   the arrays); `length - 1` is the code's i.  The capacity is the code's: a write to
   beg[i+1] with i+1 >= MAX is outside the variable-length array (undefined behaviour): the model stops (None), as it does
   when it runs out of fuel.  Besides the array the run returns the largest i seen at the loop head and the number of
   loop-head visits (the two observables the harness probes through the assert macro). *)
From Coq Require Import List NArith Bool FMapPositive.
From QV Require Import Util.Sort.
Import ListNotations.
Local Open Scope N_scope.

(* QT_INT_LOG(uint32_t v) (include/qt_int_log.h): floor(log2 v) by table lookup; the argument is truncated to 32 bits; for
   v = 0 the table holds (char)-1, i.e. 2^32 - 1 after the conversion to uint32_t (signed char) *)
Definition int_log (elements : N) : N :=
  let v := elements mod 4294967296 in
  if v =? 0 then 4294967295 else N.log2 v.
(* const ssize_t MAX = QT_INT_LOG(elements) + 5;   (the sum is computed in uint32_t) *)
Definition stack_cap (elements : N) : N := (int_log elements + 5) mod 4294967296.

Section SeqSort.
  Variable V : Type.
  Variable leb : V -> V -> bool.          (* x <= y *)
  Variable dflt : V.

  Notation arr := (arr V).
  Notation aget := (aget V dflt).
  Notation aset := (aset V).

  (* while (arr[R] >= piv && L < R) R--; *)
  Fixpoint scanR (fuel : nat) (a : arr) (b : N) (piv : V) (L R : N) : N :=
    match fuel with
    | O => R
    | S f => if leb piv (aget a (b + R)) && (L <? R) then scanR f a b piv L (R - 1) else R
    end.

  (* while (arr[L] <= piv && L < R) L++; *)
  Fixpoint scanL (fuel : nat) (a : arr) (b : N) (piv : V) (L R : N) : N :=
    match fuel with
    | O => L
    | S f => if leb (aget a (b + L)) piv && (L <? R) then scanL f a b piv (L + 1) R else L
    end.

  (* one turn of `while (L < R) { ... }` (entered with L < R) *)
  Definition pstep (a : arr) (b : N) (piv : V) (L R : N) : arr * N * N :=
    let R1 := scanR (S (N.to_nat (R - L))) a b piv L R in
    (* if (L < R) arr[L++] = arr[R]; *)
    let '(a1, L1) := if L <? R1 then (aset a (b + L) (aget a (b + R1)), L + 1) else (a, L) in
    let L2 := scanL (S (N.to_nat (R1 - L1))) a1 b piv L1 R1 in
    (* if (L < R) arr[R--] = arr[L]; *)
    let '(a2, R2) := if L2 <? R1 then (aset a1 (b + R1) (aget a1 (b + L2)), R1 - 1) else (a1, R1) in
    (a2, L2, R2).

  (* while (L < R) { ... }   returns the array and the final L *)
  Fixpoint ploop (fuel : nat) (a : arr) (b : N) (piv : V) (L R : N) : option (arr * N) :=
    match fuel with
    | O => None
    | S f =>
      if L <? R then
        let '(a2, L2, R2) := pstep a b piv L R in ploop f a2 b piv L2 R2
      else Some (a, L)
    end.

  (* while (i >= 0) { ... }   stk = the entries i, i-1, .., 0 *)
  Fixpoint outer (fuel : nat) (cap : N) (a : arr) (b : N) (stk : list (N * N)) (maxd iters : N)
    : option (arr * N * N) :=
    match fuel with
    | O => None
    | S f =>
      match stk with
      | [] => Some (a, maxd, iters)                                     (* i < 0 *)
      | (B, E) :: rest =>
        let i := N.of_nat (length rest) in
        let maxd' := N.max maxd i in
        let L := B in
        let R := E - 1 in                                               (* E = 0: R = -1 in C, L < R false either way *)
        if L <? R then
          let piv := aget a (b + L) in
          match ploop (S (N.to_nat (R - L))) a b piv L R with
          | None => None
          | Some (a1, Lf) =>
            let a2 := aset a1 (b + Lf) piv in                           (* arr[L] = piv; *)
            if cap <=? i + 1 then None                                  (* beg[i + 1]: outside beg[MAX] *)
            else
              (* beg[i + 1] = L + 1; end[i + 1] = end[i]; end[i++] = L;  entry i-1 = (B, Lf), entry i = (Lf+1, E);
                 if (end[i] - beg[i] > end[i - 1] - beg[i - 1]) exchange the two *)
              let lo := (B, Lf) in
              let hi := (Lf + 1, E) in
              let stk' := if Lf - B <? E - (Lf + 1) then lo :: hi :: rest else hi :: lo :: rest in
              outer f cap a2 b stk' maxd' (iters + 1)
          end
        else outer f cap a b rest maxd' (iters + 1)                     (* i--; *)
      end
    end.

  (* every split removes the pivot from the live entries, every other visit removes an entry: at most 2*elements + 1
     loop-head visits, plus the final test *)
  Definition seq_fuel (elements : N) : nat := S (S (N.to_nat (2 * elements))).

  (* drf_qsort_dbl(array + b, elements) / drf_qsort_algt(array + b, elements): (array, largest i, loop-head visits) *)
  Definition seqsort_run (a : arr) (b elements : N) : option (arr * N * N) :=
    outer (seq_fuel elements) (stack_cap elements) a b [(0, elements)] 0 0.

  (* as a total function (the shape of Sort.v's base_sort); SeqSortTop.seqsort_terminates: the None branch is dead
     for elements < 2^32 *)
  Definition seqsort (a : arr) (b elements : N) : arr :=
    match seqsort_run a b elements with
    | Some (a', _, _) => a'
    | None => a
    end.

  (* the same loop with the exchange test reversed (the LARGER part on top) -- not the code; used for the
     counterfactual example that the explicit stack then overflows (SeqSortTop.larger_first_overflows) *)
  Fixpoint outer_larger_first (fuel : nat) (cap : N) (a : arr) (b : N) (stk : list (N * N)) (maxd iters : N)
    : option (arr * N * N) :=
    match fuel with
    | O => None
    | S f =>
      match stk with
      | [] => Some (a, maxd, iters)
      | (B, E) :: rest =>
        let i := N.of_nat (length rest) in
        let maxd' := N.max maxd i in
        if B <? E - 1 then
          let piv := aget a (b + B) in
          match ploop (S (N.to_nat (E - 1 - B))) a b piv B (E - 1) with
          | None => None
          | Some (a1, Lf) =>
            let a2 := aset a1 (b + Lf) piv in
            if cap <=? i + 1 then None
            else
              let lo := (B, Lf) in
              let hi := (Lf + 1, E) in
              let stk' := if E - (Lf + 1) <? Lf - B then lo :: hi :: rest else hi :: lo :: rest in
              outer_larger_first f cap a2 b stk' maxd' (iters + 1)
          end
        else outer_larger_first f cap a b rest maxd' (iters + 1)
      end
    end.
End SeqSort.
