(* C13 -- theorems about the reduction model (Reduce.v). *)
From Coq Require Import List Arith Lia Permutation ZArith.
From QV Require Import Util.Reduce.
Import ListNotations.

Section Proofs.
  Variable V : Type.
  Variable op : V -> V -> V.
  Variable dflt : V.

  Notation seqfold := (seqfold V op dflt).
  Notation slice := (slice V).
  Notation kernel := (kernel V op dflt).
  Notation loopaccum := (loopaccum V op dflt).
  Notation partials := (partials V op dflt).
  Notation qutil_reduce := (qutil_reduce V op dflt).
  Notation qutil_chain := (qutil_chain V op dflt).
  Notation tree := (tree V).
  Notation eval := (eval V op).
  Notation leaves := (leaves V).

  (* ------------------------------------------------------------------ slices *)
  Lemma firstn_plus : forall (l : list V) n m, firstn (n + m) l = firstn n l ++ firstn m (skipn n l).
  Proof.
    induction l as [|x l IH]; intros n m.
    - rewrite skipn_nil, !firstn_nil. reflexivity.
    - destruct n as [|n]; simpl; [reflexivity|]. rewrite IH. reflexivity.
  Qed.

  Lemma skipn_plus : forall (l : list V) n m, skipn m (skipn n l) = skipn (n + m) l.
  Proof.
    induction l as [|x l IH]; intros n m.
    - rewrite !skipn_nil. reflexivity.
    - destruct n as [|n]; simpl; [reflexivity|]. apply IH.
  Qed.

  Lemma slice_length : forall a s e, e <= length a -> length (slice a s e) = e - s.
  Proof.
    intros a s e He. unfold Reduce.slice. rewrite firstn_length, skipn_length. lia.
  Qed.

  Lemma slice_app : forall a s m e, s <= m -> m <= e ->
    slice a s m ++ slice a m e = slice a s e.
  Proof.
    intros a s m e Hsm Hme. unfold Reduce.slice.
    replace (e - s) with ((m - s) + (e - m)) by lia.
    rewrite firstn_plus. f_equal.
    rewrite skipn_plus. replace (s + (m - s)) with m by lia. reflexivity.
  Qed.

  Lemma slice_full : forall a, slice a 0 (length a) = a.
  Proof. intros a. unfold Reduce.slice. rewrite Nat.sub_0_r. simpl. apply firstn_all. Qed.

  Lemma slice_empty : forall a s, slice a s s = [].
  Proof. intros. unfold Reduce.slice. rewrite Nat.sub_diag. reflexivity. Qed.

  Lemma skipn_nth_cons : forall (a : list V) s, s < length a ->
    skipn s a = nth s a dflt :: skipn (S s) a.
  Proof.
    induction a as [|x a IH]; intros s Hs; simpl in Hs; [lia|].
    destruct s as [|s]; [reflexivity|].
    simpl. apply IH. lia.
  Qed.

  (* the kernel computes the sequential fold of its slice (no hypothesis on op) *)
  Lemma kernel_seqfold : forall a s e, s < e -> e <= length a ->
    kernel a s e = seqfold (slice a s e).
  Proof.
    intros a s e Hse He. unfold Reduce.kernel, Reduce.seqfold, Reduce.slice.
    rewrite (skipn_nth_cons a s) by lia.
    remember (e - s - 1) as k eqn:Hk.
    replace (e - s) with (S k) by lia.
    rewrite firstn_cons. reflexivity.
  Qed.

  Lemma slice_nonempty : forall a s e, s < e -> e <= length a -> slice a s e <> [].
  Proof.
    intros a s e Hse He Hnil.
    assert (Hl : length (slice a s e) = e - s) by (apply slice_length; lia).
    rewrite Hnil in Hl. simpl in Hl. lia.
  Qed.

  (* ------------------------------------------------------------------ the split *)
  Fixpoint Chain (s : nat) (rs : list (nat * nat)) (e : nat) : Prop :=
    match rs with
    | [] => s = e
    | (a, b) :: r => a = s /\ a < b /\ Chain b r e
    end.

  Lemma split_chain : forall n it each extra, 1 <= each ->
    Chain it (split_ranges n it each extra) (it + n * each + Nat.min extra n).
  Proof.
    induction n as [|n IH]; intros it each extra He; simpl.
    - lia.
    - split; [reflexivity|]. split.
      + destruct (0 <? extra); lia.
      + specialize (IH (it + each + (if 0 <? extra then 1 else 0)) each (extra - 1) He).
        replace (it + (each + n * each) + Nat.min extra (S n))
          with (it + each + (if 0 <? extra then 1 else 0) + n * each + Nat.min (extra - 1) n).
        * exact IH.
        * destruct (Nat.ltb_spec 0 extra); lia.
  Qed.

  Lemma split_length : forall n it each extra, length (split_ranges n it each extra) = n.
  Proof. induction n; intros; simpl; [reflexivity| rewrite IHn; reflexivity]. Qed.

  Lemma split_sizes : forall n it each extra r, In r (split_ranges n it each extra) ->
    snd r - fst r = each \/ snd r - fst r = S each.
  Proof.
    induction n as [|n IH]; intros it each extra r Hin; simpl in Hin; [contradiction|].
    destruct Hin as [<-|Hin].
    - simpl. destruct (0 <? extra); lia.
    - eapply IH; eauto.
  Qed.

  Lemma chain_concat : forall a rs s e, Chain s rs e -> e <= length a ->
    concat (map (fun r => slice a (fst r) (snd r)) rs) = slice a s e.
  Proof.
    intros a rs. induction rs as [|[x y] rs IH]; intros s e Hc He; simpl in *.
    - subst. symmetry. apply slice_empty.
    - destruct Hc as [-> [Hlt Hc]].
      assert (Hye : y <= e).
      { clear - Hc. revert y Hc. induction rs as [|[p q] rs IH]; intros y Hc; simpl in Hc.
        - lia.
        - destruct Hc as [-> [Hpq Hc]]. apply IH in Hc. lia. }
      rewrite (IH y e Hc He). apply slice_app; lia.
  Qed.

  Lemma chain_bounds : forall rs s e, Chain s rs e ->
    Forall (fun r => s <= fst r /\ fst r < snd r /\ snd r <= e) rs.
  Proof.
    induction rs as [|[x y] rs IH]; intros s e Hc; simpl in *; constructor.
    - destruct Hc as [-> [Hlt Hc]]. simpl.
      assert (y <= e).
      { clear - Hc. revert y Hc. induction rs as [|[p q] rs IH]; intros y Hc; simpl in Hc.
        - lia.
        - destruct Hc as [-> [Hpq Hc]]. apply IH in Hc. lia. }
      lia.
    - destruct Hc as [-> [Hlt Hc]]. apply IH in Hc.
      eapply Forall_impl; [|exact Hc]. simpl. intros; lia.
  Qed.

  Lemma maxworkers_bounds : forall start stop workers, start < stop -> 1 <= workers ->
    1 <= maxworkers start stop workers <= stop - start /\ maxworkers start stop workers <= workers.
  Proof.
    intros. unfold maxworkers. destruct (Nat.ltb_spec workers (stop - start)); lia.
  Qed.

  (* split_partition (own copy for the accumulating loop): the worker ranges are non-empty, consecutive,
     tile [start,stop), there are min(len,workers) of them and their sizes differ by at most one *)
  Theorem loopaccum_split_partition : forall start stop workers, start < stop -> 1 <= workers ->
    Chain start (loopaccum_ranges start stop workers) stop /\
    length (loopaccum_ranges start stop workers) = Nat.min (stop - start) workers /\
    (forall r, In r (loopaccum_ranges start stop workers) ->
       snd r - fst r = (stop - start) / Nat.min (stop - start) workers \/
       snd r - fst r = S ((stop - start) / Nat.min (stop - start) workers)).
  Proof.
    intros start stop workers Hlt Hw.
    destruct (maxworkers_bounds start stop workers Hlt Hw) as [[Hm1 Hm2] Hm3].
    assert (Hmw : maxworkers start stop workers = Nat.min (stop - start) workers).
    { unfold maxworkers. destruct (Nat.ltb_spec workers (stop - start)); lia. }
    unfold loopaccum_ranges.
    set (mw := maxworkers start stop workers) in *.
    set (len := stop - start) in *.
    assert (Hdm : len = mw * (len / mw) + len mod mw) by (apply Nat.div_mod; lia).
    assert (Hmod : len mod mw < mw) by (apply Nat.mod_upper_bound; lia).
    assert (Heach : 1 <= len / mw).
    { apply Nat.div_le_lower_bound; lia. }
    assert (Hextra : len - len / mw * mw = len mod mw) by lia.
    rewrite Hextra. split; [|split].
    - pose proof (split_chain mw start (len / mw) (len mod mw) Heach) as Hc.
      replace (start + mw * (len / mw) + Nat.min (len mod mw) mw) with stop in Hc; [exact Hc|].
      unfold len in *. lia.
    - rewrite split_length. exact Hmw.
    - intros r Hin. rewrite <- Hmw. eapply split_sizes; eauto.
  Qed.

  (* ------------------------------------------------------------------ folds, associative operator *)
  Section Assoc.
    Hypothesis op_assoc : forall x y z, op (op x y) z = op x (op y z).

    Lemma fold_left_op_assoc : forall l x y, fold_left op l (op x y) = op x (fold_left op l y).
    Proof.
      induction l as [|z l IH]; intros x y; simpl; [reflexivity|].
      rewrite op_assoc. apply IH.
    Qed.

    Lemma seqfold_app : forall l1 l2, l1 <> [] -> l2 <> [] ->
      seqfold (l1 ++ l2) = op (seqfold l1) (seqfold l2).
    Proof.
      intros l1 l2 H1 H2. destruct l1 as [|x l1]; [contradiction|]. destruct l2 as [|y l2]; [contradiction|].
      simpl. rewrite fold_left_app. simpl. apply fold_left_op_assoc.
    Qed.

    (* folding the folds of non-empty pieces = folding the concatenation *)
    Lemma seqfold_concat : forall ls, ls <> [] -> Forall (fun l => l <> []) ls ->
      seqfold (map seqfold ls) = seqfold (concat ls).
    Proof.
      intros ls Hne Hall. destruct ls as [|l0 ls]; [contradiction|]. clear Hne.
      inversion Hall as [|? ? Hl0 Hls]; subst. clear Hall.
      simpl. revert l0 Hl0. induction ls as [|l1 ls IH]; intros l0 Hl0.
      - simpl. rewrite app_nil_r. reflexivity.
      - inversion Hls as [|? ? Hl1 Hls']; subst. simpl.
        rewrite <- (seqfold_app l0 l1 Hl0 Hl1).
        rewrite (IH Hls' (l0 ++ l1)).
        + rewrite app_assoc. reflexivity.
        + destruct l0; [contradiction|discriminate].
    Qed.

    (* loopaccum_eq_fold, SYNCVAR_T / DONECOUNT flavours: associativity is enough (the partials are
       combined in index order); all lengths >= 1 (also below the worker count), all worker counts >= 1 *)
    Theorem loopaccum_eq_fold_assoc : forall a start stop workers,
      start < stop -> stop <= length a -> 1 <= workers ->
      loopaccum a start stop workers = seqfold (slice a start stop).
    Proof.
      intros a start stop workers Hlt Hle Hw.
      destruct (loopaccum_split_partition start stop workers Hlt Hw) as [Hc [Hlen _]].
      unfold Reduce.loopaccum, Reduce.partials.
      set (rs := loopaccum_ranges start stop workers) in *.
      pose proof (chain_bounds rs start stop Hc) as Hb.
      assert (Hmap : map (fun r => kernel a (fst r) (snd r)) rs =
                     map seqfold (map (fun r => slice a (fst r) (snd r)) rs)).
      { rewrite map_map. apply map_ext_in. intros r Hin.
        rewrite Forall_forall in Hb. destruct (Hb r Hin) as [? [? ?]].
        apply kernel_seqfold; lia. }
      rewrite Hmap. rewrite seqfold_concat.
      - rewrite (chain_concat a rs start stop Hc Hle). reflexivity.
      - destruct rs; [simpl in Hlen; lia| discriminate].
      - rewrite Forall_map. eapply Forall_impl; [|exact Hb]. simpl. intros r [? [? ?]].
        apply slice_nonempty; lia.
    Qed.
  End Assoc.

  (* ------------------------------------------------------------------ associative-commutative operator *)
  Section AC.
    Hypothesis op_assoc : forall x y z, op (op x y) z = op x (op y z).
    Hypothesis op_comm : forall x y, op x y = op y x.

    Lemma fold_left_perm : forall l l', Permutation l l' -> forall x, fold_left op l x = fold_left op l' x.
    Proof.
      induction 1 as [|y l l' _ IH|y z l|l l' l'' _ IH1 _ IH2]; intros x; simpl.
      - reflexivity.
      - apply IH.
      - f_equal. rewrite !op_assoc. f_equal. apply op_comm.
      - rewrite IH1. apply IH2.
    Qed.

    Definition ChainInv (a : list V) (start : nat) (prev : option V) : Prop :=
      match prev with
      | None => start = 0
      | Some p => 0 < start /\ p = seqfold (slice a 0 start)
      end.

    (* the chain of qutil: `prev` always is the fold of the first `start` elements *)
    Lemma qutil_chain_inv : forall C a fuel start prev, 1 <= C -> start < length a ->
      ChainInv a start prev ->
      fst (qutil_chain C a fuel start prev) < length a /\
      ChainInv a (fst (qutil_chain C a fuel start prev)) (snd (qutil_chain C a fuel start prev)).
    Proof.
      intros C a fuel. induction fuel as [|f IH]; intros start prev HC Hs Hp; simpl.
      - split; assumption.
      - destruct (Nat.ltb_spec (start + C) (length a)) as [Hlt|Hge].
        + apply IH; [exact HC|lia|].
          assert (Hk : kernel a start (start + C) = seqfold (slice a start (start + C)))
            by (apply kernel_seqfold; lia).
          unfold ChainInv. split; [lia|]. destruct prev as [p|].
          * destruct Hp as [Hpos ->]. rewrite Hk, op_comm.
            rewrite <- seqfold_app; auto.
            -- rewrite slice_app; [reflexivity|lia|lia].
            -- apply slice_nonempty; lia.
            -- apply slice_nonempty; lia.
          * unfold ChainInv in Hp. subst start. rewrite Hk. reflexivity.
        + split; assumption.
    Qed.

    (* chunked_reduce_eq_fold: the chained-chunk reduction of qutil.c equals the sequential fold,
       every chunk size >= 1, every non-empty array *)
    Theorem chunked_reduce_eq_fold : forall C a, 1 <= C -> a <> [] ->
      qutil_reduce C a = seqfold a.
    Proof.
      intros C a HC Hne. unfold Reduce.qutil_reduce.
      assert (Hlen : 0 < length a) by (destruct a; [contradiction|simpl; lia]).
      pose proof (qutil_chain_inv C a (length a) 0 None HC Hlen eq_refl) as H.
      destruct (qutil_chain C a (length a) 0 None) as [s p]. simpl in H.
      destruct H as [Hs Hp].
      assert (Hk : kernel a s (length a) = seqfold (slice a s (length a)))
        by (apply kernel_seqfold; lia).
      rewrite Hk. destruct p as [p|]; unfold ChainInv in Hp.
      - destruct Hp as [Hpos ->]. rewrite op_comm. rewrite <- seqfold_app; auto.
        + rewrite slice_app by lia. rewrite slice_full. reflexivity.
        + apply slice_nonempty; lia.
        + apply slice_nonempty; lia.
      - subst s. rewrite slice_full. reflexivity.
    Qed.

    (* the chain does consume the array: with fuel = length it stops only when start + C >= length,
       so the caller's own piece is at most one chunk (the code's while-condition) *)
    Lemma qutil_chain_complete : forall C a fuel start prev, 1 <= C ->
      length a - start <= fuel -> length a <= fst (qutil_chain C a fuel start prev) + C.
    Proof.
      intros C a fuel. induction fuel as [|f IH]; intros start prev HC Hf; simpl.
      - lia.
      - destruct (Nat.ltb_spec (start + C) (length a)) as [Hlt|Hge]; simpl; [|lia].
        apply IH; lia.
    Qed.

    (* SINC_T flavour: whatever slots the partials were submitted to, and in whatever order, the collated
       value is the fold of the partials when the initial value is an identity of the operator *)
    Variable e : V.
    Hypothesis op_id_l : forall x, op e x = x.

    Lemma fold_left_from_id : forall l x, fold_left op l x = op x (fold_left op l e).
    Proof.
      intros l x. rewrite <- (fold_left_op_assoc op_assoc). rewrite (op_comm x e), op_id_l. reflexivity.
    Qed.

    Lemma sinc_collate_concat : forall slots,
      sinc_collate V op e slots = fold_left op (concat slots) e.
    Proof.
      unfold sinc_collate. intros slots.
      assert (G : forall x, fold_left op (map (fun s => fold_left op s e) slots) x
                           = fold_left op (concat slots) x).
      { induction slots as [|s slots IH]; intros x; simpl; [reflexivity|].
        rewrite fold_left_app. rewrite IH. f_equal.
        symmetry. apply fold_left_from_id. }
      apply G.
    Qed.

    Theorem loopaccum_sinc_eq_fold : forall a start stop workers slots,
      start < stop -> stop <= length a -> 1 <= workers ->
      Permutation (concat slots) (partials a start stop workers) ->
      sinc_collate V op e slots = seqfold (slice a start stop).
    Proof.
      intros a start stop workers slots Hlt Hle Hw Hperm.
      rewrite sinc_collate_concat. rewrite (fold_left_perm _ _ Hperm).
      rewrite <- (loopaccum_eq_fold_assoc op_assoc a start stop workers Hlt Hle Hw).
      unfold Reduce.loopaccum, Reduce.seqfold.
      destruct (loopaccum_split_partition start stop workers Hlt Hw) as [_ [Hlen _]].
      assert (Hl : length (partials a start stop workers) = Nat.min (stop - start) workers).
      { unfold Reduce.partials. rewrite map_length. exact Hlen. }
      destruct (partials a start stop workers) as [|x l]; simpl.
      - simpl in Hl. lia.
      - rewrite op_id_l. reflexivity.
    Qed.
  End AC.

  (* ------------------------------------------------------------------ no hypothesis on the operator:
     floating-point sums and products.  The result is the value of SOME bracketing of the operands. *)
  Lemma fold_left_tree : forall l t0, exists t,
    eval t = fold_left op l (eval t0) /\ leaves t = leaves t0 ++ l.
  Proof.
    induction l as [|x l IH]; intros t0; simpl.
    - exists t0. rewrite app_nil_r. split; reflexivity.
    - destruct (IH (Node V t0 (Leaf V x))) as [t [He Hl]]. exists t. split.
      + exact He.
      + rewrite Hl. simpl. rewrite <- app_assoc. reflexivity.
  Qed.

  Lemma seqfold_tree : forall l, l <> [] -> exists t, eval t = seqfold l /\ leaves t = l.
  Proof.
    intros [|x l] Hne; [contradiction|]. simpl.
    destruct (fold_left_tree l (Leaf V x)) as [t [He Hl]]. exists t. split; assumption.
  Qed.

  Lemma fold_left_trees : forall (ts : list tree) t0, exists t,
    eval t = fold_left op (map eval ts) (eval t0) /\ leaves t = leaves t0 ++ concat (map leaves ts).
  Proof.
    induction ts as [|x ts IH]; intros t0; simpl.
    - exists t0. rewrite app_nil_r. split; reflexivity.
    - destruct (IH (Node V t0 x)) as [t [He Hl]]. exists t. split.
      + exact He.
      + rewrite Hl. simpl. rewrite <- app_assoc. reflexivity.
  Qed.

  (* loopaccum_reassoc (SYNCVAR_T / DONECOUNT): for ANY operator the result is the value of a bracketing of
     a[start], ..., a[stop-1] in index order *)
  Theorem loopaccum_reassoc : forall a start stop workers,
    start < stop -> stop <= length a -> 1 <= workers ->
    exists t, eval t = loopaccum a start stop workers /\ leaves t = slice a start stop.
  Proof.
    intros a start stop workers Hlt Hle Hw.
    destruct (loopaccum_split_partition start stop workers Hlt Hw) as [Hc [Hlen _]].
    unfold Reduce.loopaccum, Reduce.partials.
    set (rs := loopaccum_ranges start stop workers) in *.
    pose proof (chain_bounds rs start stop Hc) as Hb.
    rewrite <- (chain_concat a rs start stop Hc Hle).
    assert (Hts : exists ts : list tree,
               map eval ts = map (fun r => kernel a (fst r) (snd r)) rs /\
               map leaves ts = map (fun r => slice a (fst r) (snd r)) rs).
    { clear Hc Hlen. induction rs as [|r rs IH].
      - exists []. split; reflexivity.
      - inversion Hb as [|? ? Hr Hrs]; subst. destruct (IH Hrs) as [ts [H1 H2]].
        destruct Hr as [? [? ?]].
        destruct (seqfold_tree (slice a (fst r) (snd r))) as [t [He Hl]].
        { apply slice_nonempty; lia. }
        exists (t :: ts). simpl. rewrite H1, H2, He, Hl.
        rewrite kernel_seqfold by lia. split; reflexivity. }
    destruct Hts as [ts [H1 H2]]. rewrite <- H1, <- H2.
    destruct ts as [|t0 ts].
    - destruct rs; [simpl in Hlen; lia|discriminate].
    - simpl. destruct (fold_left_trees ts t0) as [t [He Hl]]. exists t. split; assumption.
  Qed.

  Definition TreeInv (a : list V) (start : nat) (prev : option V) : Prop :=
    match prev with
    | None => start = 0
    | Some p => 0 < start /\ exists t, eval t = p /\ Permutation (leaves t) (slice a 0 start)
    end.

  Lemma qutil_chain_tree : forall C a fuel start prev, 1 <= C -> start < length a ->
    TreeInv a start prev ->
    fst (qutil_chain C a fuel start prev) < length a /\
    TreeInv a (fst (qutil_chain C a fuel start prev)) (snd (qutil_chain C a fuel start prev)).
  Proof.
    intros C a fuel. induction fuel as [|f IH]; intros start prev HC Hs Hp; simpl.
    - split; assumption.
    - destruct (Nat.ltb_spec (start + C) (length a)) as [Hlt|Hge].
      + apply IH; [exact HC|lia|].
        destruct (seqfold_tree (slice a start (start + C))) as [tk [Hek Hlk]].
        { apply slice_nonempty; lia. }
        rewrite <- kernel_seqfold in Hek by lia.
        unfold TreeInv. split; [lia|]. destruct prev as [p|].
        * destruct Hp as [Hpos [tp [Hep Hlp]]]. exists (Node V tk tp). split.
          -- simpl. rewrite Hek, Hep. reflexivity.
          -- simpl. rewrite Hlk. rewrite <- (slice_app a 0 start (start + C)) by lia.
             rewrite Permutation_app_comm. apply Permutation_app_tail. exact Hlp.
        * unfold TreeInv in Hp. subst start. exists tk. split; [exact Hek|]. rewrite Hlk. apply Permutation_refl.
      + split; assumption.
  Qed.

  (* chunked_reduce_reassoc: for ANY operator the qutil reduction is the value of a bracketing of a
     permutation of the operands (the chunks are combined last-to-first) *)
  Theorem chunked_reduce_reassoc : forall C a, 1 <= C -> a <> [] ->
    exists t, eval t = qutil_reduce C a /\ Permutation (leaves t) a.
  Proof.
    intros C a HC Hne. unfold Reduce.qutil_reduce.
    assert (Hlen : 0 < length a) by (destruct a; [contradiction|simpl; lia]).
    pose proof (qutil_chain_tree C a (length a) 0 None HC Hlen eq_refl) as H.
    destruct (qutil_chain C a (length a) 0 None) as [s p]. simpl in H.
    destruct H as [Hs Hp].
    destruct (seqfold_tree (slice a s (length a))) as [tk [Hek Hlk]].
    { apply slice_nonempty; lia. }
    rewrite <- kernel_seqfold in Hek by lia.
    destruct p as [p|]; unfold TreeInv in Hp.
    - destruct Hp as [Hpos [tp [Hep Hlp]]]. exists (Node V tk tp). split.
      + simpl. rewrite Hek, Hep. reflexivity.
      + simpl. rewrite Hlk. rewrite <- (slice_full a) at 3.
        rewrite <- (slice_app a 0 s (length a)) by lia.
        rewrite Permutation_app_comm. apply Permutation_app_tail. exact Hlp.
    - subst s. exists tk. split; [exact Hek|]. rewrite Hlk, slice_full. apply Permutation_refl.
  Qed.
End Proofs.

(* ---------------------------------------------------------------------- the integer instances *)
Local Open Scope Z_scope.
Local Notation M := 18446744073709551616.
Local Notation H := 9223372036854775808.

Lemma wrapu_cong : forall x, (wrapu x) mod M = x mod M.
Proof. intros. unfold wrapu. apply Z.mod_mod. lia. Qed.
Lemma wrapu_of_mod : forall x y, x mod M = y mod M -> wrapu x = wrapu y.
Proof. intros x y E. exact E. Qed.
Lemma wraps_cong : forall x, (wraps x) mod M = x mod M.
Proof.
  intros. unfold wraps. rewrite Zminus_mod_idemp_l. f_equal. lia.
Qed.
Lemma wraps_of_mod : forall x y, x mod M = y mod M -> wraps x = wraps y.
Proof.
  intros x y E. unfold wraps. f_equal. rewrite (Z.add_mod x), (Z.add_mod y) by lia. rewrite E. reflexivity.
Qed.

Lemma u_add_assoc : forall x y z, u_add (u_add x y) z = u_add x (u_add y z).
Proof.
  intros. unfold u_add. apply wrapu_of_mod.
  rewrite <- Z.add_mod_idemp_l, wrapu_cong, Z.add_mod_idemp_l by lia.
  rewrite <- (Z.add_mod_idemp_r x), wrapu_cong, Z.add_mod_idemp_r by lia.
  f_equal. lia.
Qed.
Lemma u_add_comm : forall x y, u_add x y = u_add y x.
Proof. intros. unfold u_add. f_equal. lia. Qed.
Lemma u_mul_assoc : forall x y z, u_mul (u_mul x y) z = u_mul x (u_mul y z).
Proof.
  intros. unfold u_mul. apply wrapu_of_mod.
  rewrite <- Z.mul_mod_idemp_l, wrapu_cong, Z.mul_mod_idemp_l by lia.
  rewrite <- (Z.mul_mod_idemp_r x), wrapu_cong, Z.mul_mod_idemp_r by lia.
  f_equal. ring.
Qed.
Lemma u_mul_comm : forall x y, u_mul x y = u_mul y x.
Proof. intros. unfold u_mul. f_equal. ring. Qed.
Lemma s_add_assoc : forall x y z, s_add (s_add x y) z = s_add x (s_add y z).
Proof.
  intros. unfold s_add. apply wraps_of_mod.
  rewrite <- Z.add_mod_idemp_l, wraps_cong, Z.add_mod_idemp_l by lia.
  rewrite <- (Z.add_mod_idemp_r x), wraps_cong, Z.add_mod_idemp_r by lia.
  f_equal. lia.
Qed.
Lemma s_add_comm : forall x y, s_add x y = s_add y x.
Proof. intros. unfold s_add. f_equal. lia. Qed.
Lemma s_mul_assoc : forall x y z, s_mul (s_mul x y) z = s_mul x (s_mul y z).
Proof.
  intros. unfold s_mul. apply wraps_of_mod.
  rewrite <- Z.mul_mod_idemp_l, wraps_cong, Z.mul_mod_idemp_l by lia.
  rewrite <- (Z.mul_mod_idemp_r x), wraps_cong, Z.mul_mod_idemp_r by lia.
  f_equal. ring.
Qed.
Lemma s_mul_comm : forall x y, s_mul x y = s_mul y x.
Proof. intros. unfold s_mul. f_equal. ring. Qed.
Lemma z_max_assoc : forall x y z, z_max (z_max x y) z = z_max x (z_max y z).
Proof.
  intros. unfold z_max.
  destruct (Z.ltb_spec y x); destruct (Z.ltb_spec z y);
  repeat match goal with |- context [?a <? ?b] => destruct (Z.ltb_spec a b) end; lia.
Qed.
Lemma z_max_comm : forall x y, z_max x y = z_max y x.
Proof. intros. unfold z_max. repeat match goal with |- context [?a <? ?b] => destruct (Z.ltb_spec a b) end; lia. Qed.
Lemma z_min_assoc : forall x y z, z_min (z_min x y) z = z_min x (z_min y z).
Proof.
  intros. unfold z_min.
  destruct (Z.ltb_spec x y); destruct (Z.ltb_spec y z);
  repeat match goal with |- context [?a <? ?b] => destruct (Z.ltb_spec a b) end; lia.
Qed.
Lemma z_min_comm : forall x y, z_min x y = z_min y x.
Proof. intros. unfold z_min. repeat match goal with |- context [?a <? ?b] => destruct (Z.ltb_spec a b) end; lia. Qed.

(* the operators really are the C ones on the machine range *)
Lemma u_add_range : forall x y, 0 <= u_add x y < M.
Proof. intros. unfold u_add, wrapu. apply Z.mod_pos_bound. lia. Qed.
Lemma s_add_range : forall x y, - H <= s_add x y < H.
Proof. intros. unfold s_add, wraps. pose proof (Z.mod_pos_bound (x + y + H) M). lia. Qed.

(* non-vacuity: fewer elements than workers, a remainder, and a wrap *)
Example loopaccum_short : loopaccum Z u_add 0 [1; 2; 3] 0 3 4 = 6.
Proof. reflexivity. Qed.
Example loopaccum_ranges_rem : loopaccum_ranges 0 11 4 = [(0, 3); (3, 6); (6, 9); (9, 11)]%nat.
Proof. reflexivity. Qed.
Example qutil_chain_ex : qutil_reduce Z u_add 0 3 [18446744073709551615; 2; 3; 4; 5; 6; 7] = 26.
Proof. reflexivity. Qed.
