(* C13 extension F -- the array phase of the micro-step machine under EVERY schedule.
   Ghost-counter invariant: after any schedule, every thread's configuration and the contents of its slice are those of
   its own solo run (some number of its own steps) from the initial array, and nothing outside the slices has changed.
   Uses only: slices pairwise disjoint + the step is local to the slice (PartInterleaveLocal.astep_local). *)
From Coq Require Import List NArith Bool Lia FMapPositive PeanoNat.
From QV Require Import Util.Sort Util.PartInterleave Util.PartInterleaveLocal.
Import ListNotations.
Local Open Scope N_scope.

(* ---------------------------------------------------------------------- list update *)
Lemma upd_length : forall (A : Type) (l : list A) k x, length (upd l k x) = length l.
Proof. induction l as [|y r IH]; intros [|k] x; cbn; auto. Qed.

Lemma nth_error_upd_same : forall (A : Type) (l : list A) k x, (k < length l)%nat -> nth_error (upd l k x) k = Some x.
Proof.
  induction l as [|y r IH]; intros [|k] x H; cbn in *; try lia; [reflexivity|]. apply IH. lia.
Qed.

Lemma nth_error_upd_other : forall (A : Type) (l : list A) k j x, j <> k -> nth_error (upd l k x) j = nth_error l j.
Proof.
  induction l as [|y r IH]; intros [|k] [|j] x H; cbn; try reflexivity; try congruence. apply IH. congruence.
Qed.

Lemma nth_upd_same : forall (l : list bool) k x d, (k < length l)%nat -> nth k (upd l k x) d = x.
Proof.
  induction l as [|y r IH]; intros [|k] x d H; cbn in *; try lia; [reflexivity|]. apply IH. lia.
Qed.

Lemma nth_upd_other : forall (l : list bool) k j x d, j <> k -> nth j (upd l k x) d = nth j l d.
Proof.
  induction l as [|y r IH]; intros [|k] [|j] x d H; cbn; try reflexivity; try congruence. apply IH. congruence.
Qed.

Section ArrayPhase.
  Variable V : Type.
  Variable leb : V -> V -> bool.
  Variable dflt : V.
  Variable P : params.
  Variable lockf : bool.
  Variable pivot : V.
  Variable gs : list targs.

  Notation thr := (thr V).
  Notation gstate := (gstate V).
  Notation astep := (astep V leb dflt P lockf pivot).
  Notation wstep := (wstep V).
  Notation iter := (iter V leb dflt P lockf pivot).
  Notation step := (step V leb dflt P lockf pivot gs).
  Notation run := (run V leb dflt P lockf pivot gs).
  Notation tinit := (tinit V dflt).
  Notation n := (length gs).

  (* the slices and the per-thread index invariant, abstractly *)
  Variable F : nat -> N -> Prop.
  Variable InvTt : nat -> thr -> Prop.
  Hypothesis F_disjoint : forall t u j, (t < n)%nat -> (u < n)%nat -> t <> u -> F t j -> F u j -> False.
  Hypothesis inv_init : forall t g, nth_error gs t = Some g -> InvTt t (tinit g).
  Hypothesis step_local : forall t g, nth_error gs t = Some g -> forall c a1 a2, InvTt t c -> AgreeOn V (F t) a1 a2 ->
    fst (astep g c a1) = fst (astep g c a2) /\
    AgreeOn V (F t) (snd (astep g c a1)) (snd (astep g c a2)) /\
    Outside V (F t) a1 (snd (astep g c a1)) /\ Outside V (F t) a2 (snd (astep g c a2)) /\
    InvTt t (fst (astep g c a1)).
  Hypothesis iter_snoc' : forall g k c a, iter g (S k) c a = astep g (fst (iter g k c a)) (snd (iter g k c a)).

  Definition AnyF (j : N) : Prop := exists t, (t < n)%nat /\ F t j.

  Lemma Outside_weaken : forall (G H : N -> Prop) (a a' : arr V), (forall j, G j -> H j) -> Outside V G a a' -> Outside V H a a'.
  Proof. intros G H a a' GH O k Hk. apply O. intros j Gj. apply Hk. apply GH. exact Gj. Qed.

  (* the thread's configuration c against its solo configuration c0 *)
  Definition Sync (c c0 : thr) : Prop :=
    if array_pc (t_pc c) then c = c0
    else array_pc (t_pc c0) = false /\ t_lw c = t_lw c0 /\ t_rw c = t_rw c0.

  Definition AInv (a0 : arr V) (st : gstate) : Prop :=
    length (s_thr st) = n /\
    exists cnt : nat -> nat,
      (forall t g c, nth_error gs t = Some g -> nth_error (s_thr st) t = Some c ->
         InvTt t (fst (iter g (cnt t) (tinit g) a0)) /\
         Sync c (fst (iter g (cnt t) (tinit g) a0)) /\
         AgreeOn V (F t) (s_a st) (snd (iter g (cnt t) (tinit g) a0))) /\
      Outside V AnyF a0 (s_a st).

  Lemma AInv_init : forall a0, AInv a0 (ginit V dflt gs a0).
  Proof.
    intros a0. split; [cbn; apply map_length|]. exists (fun _ => O). split.
    - intros t g c Hg Hc. cbn [PartInterleaveLocal.iter fst snd].
      cbn [ginit s_thr] in Hc. rewrite nth_error_map, Hg in Hc. cbn in Hc. injection Hc as <-.
      split; [apply inv_init; exact Hg|]. split; [unfold Sync; cbn; reflexivity|]. cbn. apply AgreeOn_refl.
    - cbn. apply Outside_refl.
  Qed.

  (* quickexit steps never touch the walls of the array phase and never return to it *)
  Lemma wstep_keeps : forall tid g c w, array_pc (t_pc c) = false ->
    array_pc (t_pc (fst (wstep tid g c w))) = false /\
    t_lw (fst (wstep tid g c w)) = t_lw c /\ t_rw (fst (wstep tid g c w)) = t_rw c.
  Proof.
    intros tid g c w H. unfold PartInterleave.wstep.
    destruct (t_pc c) eqn:E; try discriminate; cbn [fst];
      repeat match goal with
             | |- context [if ?b then _ else _] => destruct b
             | |- context [match ?x with Some _ => _ | None => _ end] => destruct x
             end; cbn; rewrite ?E; auto.
  Qed.

  Lemma AInv_step : forall a0 st who, AInv a0 st -> AInv a0 (step st who).
  Proof.
    intros a0 st who [HL [cnt [HT HO]]]. unfold PartInterleave.step.
    assert (Hidle : AInv a0 (if Nat.eqb who (length gs)
                             then {| s_a := s_a st; s_w := s_w st; s_thr := s_thr st; s_par := pstep gs (s_par st) (s_w st) |}
                             else st)).
    { destruct (Nat.eqb who (length gs)); (split; [exact HL|exists cnt; split; [exact HT|exact HO]]). }
    destruct (nth_error (s_thr st) who) as [c|] eqn:Ec; [|exact Hidle].
    destruct (nth_error gs who) as [g|] eqn:Eg; [|exact Hidle].
    clear Hidle.
    assert (Hwho : (who < n)%nat) by (apply nth_error_Some; congruence).
    destruct (HT who g c Eg Ec) as [I0 [S0 A0]].
    destruct (array_pc (t_pc c)) eqn:Ea.
    - (* a step of the array phase *)
      unfold Sync in S0. rewrite Ea in S0.
      destruct (step_local who g Eg c (s_a st) (snd (iter g (cnt who) (tinit g) a0)) ltac:(rewrite S0; exact I0) A0)
        as [E1 [A1 [O1 [O2 I1]]]].
      destruct (astep g c (s_a st)) as [c' a'] eqn:Es. cbn [fst snd] in *.
      split; [cbn; rewrite upd_length; exact HL|].
      exists (fun u => if Nat.eqb u who then S (cnt who) else cnt u). split.
      + intros t g' ct Hg' Hct. cbn [s_thr s_a] in *.
        destruct (Nat.eqb_spec t who) as [->|Hne].
        * rewrite Eg in Hg'. injection Hg' as <-.
          rewrite nth_error_upd_same in Hct by lia. injection Hct as <-.
          rewrite iter_snoc'. rewrite <- S0. rewrite <- E1.
          split; [exact I1|]. split; [|exact A1].
          unfold Sync. destruct (array_pc (t_pc c')); [reflexivity|]. auto.
        * rewrite nth_error_upd_other in Hct by exact Hne.
          destruct (HT t g' ct Hg' Hct) as [I2 [S2 A2]].
          split; [exact I2|]. split; [exact S2|].
          assert (Ht : (t < n)%nat) by (apply nth_error_Some; congruence).
          eapply AgreeOn_Outside; [|exact O1|exact A2].
          intros j Fj Gj. exact (F_disjoint t who j Ht Hwho Hne Fj Gj).
      + cbn [s_a]. eapply Outside_trans; [exact HO|].
        eapply Outside_weaken; [|exact O1]. intros j Fj. exists who. split; [exact Hwho|exact Fj].
    - (* a step of quickexit *)
      destruct (wstep_keeps who g c (s_w st) Ea) as [K1 [K2 K3]].
      destruct (wstep who g c (s_w st)) as [c' w'] eqn:Es. cbn [fst snd] in *.
      split; [cbn; rewrite upd_length; exact HL|].
      exists cnt. split; [|exact HO].
      intros t g' ct Hg' Hct. cbn [s_thr s_a] in *.
      destruct (Nat.eq_dec t who) as [->|Hne].
      + rewrite Eg in Hg'. injection Hg' as <-.
        rewrite nth_error_upd_same in Hct by lia. injection Hct as <-.
        split; [exact I0|]. split; [|exact A0].
        unfold Sync in *. rewrite Ea in S0. rewrite K1. destruct S0 as [S1 [S2 S3]]. rewrite K2, K3. auto.
      + rewrite nth_error_upd_other in Hct by exact Hne. exact (HT t g' ct Hg' Hct).
  Qed.

  Theorem AInv_run : forall a0 sched st, AInv a0 st -> AInv a0 (run st sched).
  Proof.
    intros a0 sched. induction sched as [|who r IH]; intros st H; [exact H|].
    cbn [PartInterleave.run fold_left]. apply IH. apply AInv_step. exact H.
  Qed.
End ArrayPhase.
