(* C13 extension F -- micro-step machine of ONE parallel partition pass of the quicksorts
   (qutil.c: qutil_qsort_partition / qutil_aligned_qsort_partition under qutil_*_inner_partitioner;
    qloop.c: qt_qsort_partition under qt_qsort_inner_partitioner).  Definitions only (proofs: PartInterleaveProofs*.v).

   K partition threads and the spawning parent.  One step of the machine = one step of ONE agent and contains at most one
   access to shared memory (the array, the two wall words furthest_leftwall / furthest_rightwall, the lock word of the
   qloop.c flavour, the return slots the parent waits on):

     array phase (identical in the three C functions)
       PA   x = a[leftwall]; x <= pivot ? PA2 : PB                      while (a[leftwall] <= pivot) {
       PA2  leftwall = lstep; rightwall < leftwall ? quickexit : PA        step; if (rightwall < leftwall) goto quickexit; }
       PB   x = a[rightwall]; x > pivot ? PB2 : PS0                     while (a[rightwall] > pivot) {
       PB2  rstep (or quickexit); rightwall < leftwall ? quickexit : PB    step/quickexit; if (rw < lw) goto quickexit; }
       PS0  temp = a[leftwall]          PS1  x = a[rightwall]           SWAP(a, leftwall, rightwall):
       PS2  a[leftwall] = x             PS3  a[rightwall] = temp  -> PL   temp = a[m]; a[m] = a[n]; a[n] = temp
       PL   leftwall = lstep; rightwall < leftwall ? quickexit : PL2    do { step; if (rw < lw) goto quickexit;
       PL2  x = a[leftwall]; x <= pivot ? PL : (rw <= lw ? quickexit(break) : PR)     } while (a[leftwall] <= pivot); if (rw <= lw) break;
       PR   rstep (or quickexit) -> PR2                                 do { step/quickexit;
       PR2  x = a[rightwall]; x > pivot ? PR : (rw <= lw ? quickexit(break) : PS0)    } while (a[rightwall] > pivot); if (rw <= lw) break; SWAP
     quickexit, qutil.c flavour (lockf = false): two CAS loops
       QL_LOAD cur = *fl; mine < cur ? (tmp = cur; QL_CAS) : QR_LOAD
       QL_CAS  cur = tmp; tmp = CAS(fl, cur, mine); (tmp != cur && mine < tmp) ? QL_CAS : QR_LOAD
       QR_LOAD / QR_CAS  the same with > on furthest_rightwall, then PRET
     quickexit, qloop.c flavour (lockf = true): qthread_lock(fl); if (lw+off < *fl) *fl = ..; if (rw+off > *fr) *fr = ..; unlock
       KLOCK (blocked while the lock is held) KL_LOAD KL_STORE KR_LOAD KR_STORE KUNLOCK, then PRET
     PRET  the runtime fills the thread's return word rets[t] (what the parent's readFF waits on); PDONE.
   The parent (agent number nt): for (i = 0; i < nt; i++) readFF(rets + i);  then reads retval = (fl, fr).

   The local computations between two shared accesses are merged into the step of the preceding / following access or are
   steps of their own (PA2, PB2, PL, PR: the wall steps -- these are the points where the C code evaluates
   `% MT_CHUNKSIZE`, i.e. calls qthread_cacheline(), which the correspondence harness interposes as its yield point). *)
From Coq Require Import List NArith Bool FMapPositive.
From QV Require Import Util.Sort.
Import ListNotations.
Local Open Scope N_scope.

Inductive pc : Type :=
  | PA | PA2 | PB | PB2 | PS0 | PS1 | PS2 | PS3 | PL | PL2 | PR | PR2
  | QL_LOAD | QL_CAS | QR_LOAD | QR_CAS
  | KLOCK | KL_LOAD | KL_STORE | KR_LOAD | KR_STORE | KUNLOCK
  | PRET | PDONE.

Definition array_pc (p : pc) : bool :=
  match p with
  | PA | PA2 | PB | PB2 | PS0 | PS1 | PS2 | PS3 | PL | PL2 | PR | PR2 => true
  | _ => false
  end.

(* the wall steps: the thread is about to evaluate `% MT_CHUNKSIZE` *)
Definition hook_pc (p : pc) : bool := match p with PA2 | PB2 | PL | PR => true | _ => false end.

(* per-thread constants: global index of the thread's local index 0, args->length, args->jump, args->offset *)
Record targs := { g_b : N; g_len : N; g_jump : N; g_off : N }.

(* the shared bookkeeping: retval.leftwall, retval.rightwall, the lock on &retval.leftwall, the return words *)
Record wallst := { w_fl : N; w_fr : N; w_lock : option nat; w_rets : list bool }.

(* the parent: index of the return word it waits on; its copy of retval once it has returned *)
Record parent := { p_i : nat; p_res : option (N * N) }.

Fixpoint upd {A : Type} (l : list A) (k : nat) (x : A) : list A :=
  match l, k with
  | [], _ => []
  | _ :: r, O => x :: r
  | y :: r, S k' => y :: upd r k' x
  end.

Section Machine.
  Variable V : Type.
  Variable leb : V -> V -> bool.
  Variable dflt : V.
  Variable P : params.        (* only p_chunk is used (lstep / rstep) *)
  Variable lockf : bool.      (* true: qloop.c flavour (walls merged under qthread_lock); false: qutil.c (CAS loops) *)
  Variable pivot : V.

  Notation aget := (aget V dflt).
  Notation aset := (aset V).

  Record thr := { t_pc : pc; t_lw : N; t_rw : N; t_t1 : V; t_t2 : V; t_cur : N; t_tmp : N }.

  Definition setpc (t : thr) (p : pc) : thr :=
    {| t_pc := p; t_lw := t_lw t; t_rw := t_rw t; t_t1 := t_t1 t; t_t2 := t_t2 t; t_cur := t_cur t; t_tmp := t_tmp t |}.
  Definition setwalls (t : thr) (p : pc) (lw rw : N) : thr :=
    {| t_pc := p; t_lw := lw; t_rw := rw; t_t1 := t_t1 t; t_t2 := t_t2 t; t_cur := t_cur t; t_tmp := t_tmp t |}.
  Definition sett1 (t : thr) (p : pc) (v : V) : thr :=
    {| t_pc := p; t_lw := t_lw t; t_rw := t_rw t; t_t1 := v; t_t2 := t_t2 t; t_cur := t_cur t; t_tmp := t_tmp t |}.
  Definition sett2 (t : thr) (p : pc) (v : V) : thr :=
    {| t_pc := p; t_lw := t_lw t; t_rw := t_rw t; t_t1 := t_t1 t; t_t2 := v; t_cur := t_cur t; t_tmp := t_tmp t |}.
  Definition setct (t : thr) (p : pc) (cur tmp : N) : thr :=
    {| t_pc := p; t_lw := t_lw t; t_rw := t_rw t; t_t1 := t_t1 t; t_t2 := t_t2 t; t_cur := cur; t_tmp := tmp |}.

  (* first pc of quickexit *)
  Definition qentry : pc := if lockf then KLOCK else QL_LOAD.

  (* leftwall = 0; rightwall = length - 1 *)
  Definition tinit (g : targs) : thr :=
    {| t_pc := PA; t_lw := 0; t_rw := g_len g - 1; t_t1 := dflt; t_t2 := dflt; t_cur := 0; t_tmp := 0 |}.

  (* ---------------------------------------------------------------- one step of a thread in the array phase *)
  Definition astep (g : targs) (t : thr) (a : arr V) : thr * arr V :=
    let b := g_b g in
    let jump := g_jump g in
    let lw := t_lw t in
    let rw := t_rw t in
    match t_pc t with
    | PA => (setpc t (if leb (aget a (b + lw)) pivot then PA2 else PB), a)
    | PA2 => let lw' := lstep P jump lw in (setwalls t (if rw <? lw' then qentry else PA) lw' rw, a)
    | PB => (setpc t (if gtb V leb (aget a (b + rw)) pivot then PB2 else PS0), a)
    | PB2 => match rstep P jump rw with
             | None => (setpc t qentry, a)
             | Some rw' => (setwalls t (if rw' <? lw then qentry else PB) lw rw', a)
             end
    | PS0 => (sett1 t PS1 (aget a (b + lw)), a)
    | PS1 => (sett2 t PS2 (aget a (b + rw)), a)
    | PS2 => (setpc t PS3, aset a (b + lw) (t_t2 t))
    | PS3 => (setpc t PL, aset a (b + rw) (t_t1 t))
    | PL => let lw' := lstep P jump lw in (setwalls t (if rw <? lw' then qentry else PL2) lw' rw, a)
    | PL2 => (setpc t (if leb (aget a (b + lw)) pivot then PL else if rw <=? lw then qentry else PR), a)
    | PR => match rstep P jump rw with
            | None => (setpc t qentry, a)
            | Some rw' => (setwalls t PR2 lw rw', a)
            end
    | PR2 => (setpc t (if gtb V leb (aget a (b + rw)) pivot then PR else if rw <=? lw then qentry else PS0), a)
    | _ => (t, a)
    end.

  (* the global index the next step of the thread loads or stores, if any *)
  Definition access_of (g : targs) (t : thr) : option N :=
    match t_pc t with
    | PA | PS0 | PS2 | PL2 => Some (g_b g + t_lw t)
    | PB | PS1 | PS3 | PR2 => Some (g_b g + t_rw t)
    | _ => None
    end.

  (* ---------------------------------------------------------------- one step of a thread in quickexit *)
  Definition setfl (w : wallst) (x : N) : wallst := {| w_fl := x; w_fr := w_fr w; w_lock := w_lock w; w_rets := w_rets w |}.
  Definition setfr (w : wallst) (x : N) : wallst := {| w_fl := w_fl w; w_fr := x; w_lock := w_lock w; w_rets := w_rets w |}.
  Definition setlock (w : wallst) (x : option nat) : wallst := {| w_fl := w_fl w; w_fr := w_fr w; w_lock := x; w_rets := w_rets w |}.
  Definition setret (w : wallst) (k : nat) : wallst :=
    {| w_fl := w_fl w; w_fr := w_fr w; w_lock := w_lock w; w_rets := upd (w_rets w) k true |}.

  Definition mine_l (g : targs) (t : thr) : N := t_lw t + g_off g.
  Definition mine_r (g : targs) (t : thr) : N := t_rw t + g_off g.

  Definition wstep (tid : nat) (g : targs) (t : thr) (w : wallst) : thr * wallst :=
    let ml := mine_l g t in
    let mr := mine_r g t in
    match t_pc t with
    | QL_LOAD => let cur := w_fl w in
                 if ml <? cur then (setct t QL_CAS cur cur, w) else (setct t QR_LOAD cur (t_tmp t), w)
    | QL_CAS => let cur := t_tmp t in
                let old := w_fl w in
                let w' := if old =? cur then setfl w ml else w in
                (setct t (if negb (old =? cur) && (ml <? old) then QL_CAS else QR_LOAD) cur old, w')
    | QR_LOAD => let cur := w_fr w in
                 if cur <? mr then (setct t QR_CAS cur cur, w) else (setct t PRET cur (t_tmp t), w)
    | QR_CAS => let cur := t_tmp t in
                let old := w_fr w in
                let w' := if old =? cur then setfr w mr else w in
                (setct t (if negb (old =? cur) && (old <? mr) then QR_CAS else PRET) cur old, w')
    | KLOCK => match w_lock w with
               | None => (setpc t KL_LOAD, setlock w (Some tid))
               | Some _ => (t, w)
               end
    | KL_LOAD => let cur := w_fl w in (setct t (if ml <? cur then KL_STORE else KR_LOAD) cur (t_tmp t), w)
    | KL_STORE => (setpc t KR_LOAD, setfl w ml)
    | KR_LOAD => let cur := w_fr w in (setct t (if cur <? mr then KR_STORE else KUNLOCK) cur (t_tmp t), w)
    | KR_STORE => (setpc t KUNLOCK, setfr w mr)
    | KUNLOCK => (setpc t PRET, setlock w None)
    | PRET => (setpc t PDONE, setret w tid)
    | _ => (t, w)
    end.

  (* ---------------------------------------------------------------- the machine *)
  Record gstate := { s_a : arr V; s_w : wallst; s_thr : list thr; s_par : parent }.

  Variable gs : list targs.          (* args[0 .. nt-1] *)
  Definition nthreads : nat := length gs.

  (* retval = { (aligned_t)-1, 0 }; rets all empty *)
  Definition winit : wallst :=
    {| w_fl := 18446744073709551615; w_fr := 0; w_lock := None; w_rets := map (fun _ => false) gs |}.
  Definition ginit (a : arr V) : gstate :=
    {| s_a := a; s_w := winit; s_thr := map tinit gs; s_par := {| p_i := O; p_res := None |} |}.

  Definition pstep (p : parent) (w : wallst) : parent :=
    match p_res p with
    | Some _ => p
    | None =>
      if Nat.ltb (p_i p) nthreads then
        (if nth (p_i p) (w_rets w) false then {| p_i := S (p_i p); p_res := None |} else p)
      else {| p_i := p_i p; p_res := Some (w_fl w, w_fr w) |}
    end.

  Definition step (st : gstate) (who : nat) : gstate :=
    match nth_error (s_thr st) who, nth_error gs who with
    | Some t, Some g =>
      if array_pc (t_pc t) then
        let (t', a') := astep g t (s_a st) in
        {| s_a := a'; s_w := s_w st; s_thr := upd (s_thr st) who t'; s_par := s_par st |}
      else
        let (t', w') := wstep who g t (s_w st) in
        {| s_a := s_a st; s_w := w'; s_thr := upd (s_thr st) who t'; s_par := s_par st |}
    | _, _ =>
      if Nat.eqb who nthreads then
        {| s_a := s_a st; s_w := s_w st; s_thr := s_thr st; s_par := pstep (s_par st) (s_w st) |}
      else st
    end.

  Definition run (st : gstate) (sched : list nat) : gstate := fold_left step sched st.

  Definition thr_done (t : thr) : bool := match t_pc t with PDONE => true | _ => false end.
  Definition all_done (st : gstate) : bool := forallb thr_done (s_thr st).
  Definition parent_done (st : gstate) : bool := match p_res (s_par st) with Some _ => true | None => false end.

  (* coarser scheduling units for the correspondence: run thread `who` until it is about to take a wall step again (the
     yield point of the harness), has entered quickexit (array phase over), or fuel is exhausted *)
  Fixpoint run_to_hook (fuel : nat) (st : gstate) (who : nat) : gstate :=
    match fuel with
    | O => st
    | S f =>
      let st' := step st who in
      match nth_error (s_thr st') who with
      | Some t => if hook_pc (t_pc t) || negb (array_pc (t_pc t)) then st' else run_to_hook f st' who
      | None => st'
      end
    end.
End Machine.

Arguments t_pc {V} _.
Arguments t_lw {V} _.
Arguments t_rw {V} _.
Arguments t_t1 {V} _.
Arguments t_t2 {V} _.
Arguments t_cur {V} _.
Arguments t_tmp {V} _.
Arguments s_a {V} _.
Arguments s_w {V} _.
Arguments s_thr {V} _.
Arguments s_par {V} _.

(* ---------------------------------------------------------------------- the args[] the spawning loop computes
   (same computation as Sort.part_threads: per-thread length with the mutable `megachunks`) *)
Fixpoint mk_targs (k : nat) (i : N) (b length nt cs mcs extra megachunks : N) : list targs :=
  match k with
  | O => []
  | S k' =>
    let offset := i * cs in
    let jump := (nt - 1) * cs + 1 in
    let len0 := if negb (extra =? 0) then megachunks * mcs + cs else length - mcs + cs in
    let clip := negb (extra =? 0) && (length <=? len0 + offset) in
    let len_i := if clip then length - offset else len0 in
    let megachunks' := if clip then megachunks - 1 else megachunks in
    {| g_b := b + offset; g_len := len_i; g_jump := jump; g_off := offset |}
      :: mk_targs k' (i + 1) b length nt cs mcs extra megachunks'
  end.

Definition pass_targs (P : params) (b length : N) : list targs :=
  let nt := p_nthreads P length in
  let cs := p_chunk P in
  let mcs := cs * nt in
  mk_targs (N.to_nat nt) 0 b length nt cs mcs (length mod mcs) (length / mcs).

(* one pass under a schedule: Some (array, leftwall, rightwall) when the parent has returned *)
Definition partitioner_sched (V : Type) (leb : V -> V -> bool) (dflt : V) (P : params) (lockf : bool)
           (sched : list nat) (a : arr V) (b length : N) (pivot : V) : option (arr V * N * N) :=
  let gs := pass_targs P b length in
  let st := run V leb dflt P lockf pivot gs (ginit V dflt gs a) sched in
  match p_res (s_par st) with
  | Some (l, r) => Some (s_a st, l, r)
  | None => None
  end.
