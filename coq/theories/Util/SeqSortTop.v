(* C13 extension W -- drf_qsort_dbl / drf_qsort_algt (SeqSort.v): the theorems, and the instantiation of the parallel
   sorts' "sort used below the cutoff" by the proved model. *)
From Coq Require Import List NArith Bool Lia Permutation FMapPositive ZArith.
From QV Require Import Util.Sort Util.SortProofs Util.SortCorrect Util.MergeCorrect Util.SortFinal
                       Util.SeqSort Util.SeqSortProofs Util.SeqSortOuter.
Import ListNotations.
Local Open Scope N_scope.

(* ---------------------------------------------------------------------- the capacity of the explicit stack *)
Lemma int_log_small : forall n, 0 < n -> n < 4294967296 -> int_log n = N.log2 n.
Proof.
  intros n H0 H1. unfold int_log. rewrite N.mod_small by exact H1.
  destruct (N.eqb_spec n 0); [lia|reflexivity].
Qed.

Lemma log2_small : forall n, 0 < n -> n < 4294967296 -> N.log2 n < 32.
Proof. intros n H0 H1. apply N.log2_lt_pow2; [exact H0|exact H1]. Qed.

(* MAX = floor(log2 elements) + 5 for 1 <= elements < 2^32 *)
Lemma stack_cap_small : forall n, 0 < n -> n < 4294967296 -> stack_cap n = N.log2 n + 5.
Proof.
  intros n H0 H1. unfold stack_cap. rewrite int_log_small by assumption.
  pose proof (log2_small n H0 H1). apply N.mod_small. lia.
Qed.

Section Top.
  Variable V : Type.
  Variable leb : V -> V -> bool.
  Variable dflt : V.

  Notation arr := (arr V).
  Notation aget := (aget V dflt).
  Notation to_list := (to_list V dflt).
  Notation outer := (outer V leb dflt).
  Notation seqsort_run := (seqsort_run V leb dflt).
  Notation seqsort := (seqsort V leb dflt).

  Lemma rng_init : forall len, Rng len [(0, len)].
  Proof. intros len. constructor; [simpl; lia|constructor]. Qed.

  (* ------------------------------------------------------------------ permutation: every comparison function, every
     input, every length, every capacity, every fuel -- a run that returns has only rearranged [b, b+elements) *)
  Lemma outer_run_permutation : forall fuel cap a b elements a' d it,
    outer fuel cap a b [(0, elements)] 0 0 = Some (a', d, it) ->
    SegRel V dflt a a' b elements /\ forall n, b + elements <= n -> Permutation (to_list a n) (to_list a' n).
  Proof.
    intros fuel cap a b elements a' d it H.
    exact (outer_rel V leb dflt fuel cap a b elements [(0, elements)] 0 0 a' d it (rng_init elements) H).
  Qed.

  (* the total function: unconditional (a stack overflow / running out of fuel would leave the array as it was) *)
  Lemma seqsort_permutation : forall a b elements,
    SegRel V dflt a (seqsort a b elements) b elements /\
    forall n, b + elements <= n -> Permutation (to_list a n) (to_list (seqsort a b elements) n).
  Proof.
    intros a b elements. unfold SeqSort.seqsort.
    destruct (seqsort_run a b elements) as [[[a' d] it]|] eqn:E.
    - exact (outer_run_permutation _ _ a b elements a' d it E).
    - split; [apply SegRel_refl|]. intros. apply Permutation_refl.
  Qed.

  (* ------------------------------------------------------------------ stack depth and termination: every comparison
     function, every input.  A capacity of floor(log2 elements) + 1 entries is never exceeded (the code allocates
     floor(log2 elements) + 5), the largest index used is at most floor(log2 elements), and the loop head is visited at
     most 2 * elements + 1 times. *)
  Lemma depth_init : forall len, 0 < len -> Depth len [(0, len)].
  Proof. intros len H. simpl. unfold esize. simpl. lia. Qed.

  Lemma seqsort_stack_depth_bound : forall fuel cap a b elements, 0 < elements ->
    N.log2 elements < cap -> (N.to_nat (2 * elements + 1) < fuel)%nat ->
    exists a' d it, outer fuel cap a b [(0, elements)] 0 0 = Some (a', d, it) /\
                    d <= N.log2 elements /\ it <= 2 * elements + 1.
  Proof.
    intros fuel cap a b len H0 Hcap Hf.
    destruct (outer_some V leb dflt fuel cap a b len [(0, len)] 0 0 H0 (rng_init len) (depth_init len H0)) as [a' [d [it [E1 [E2 E3]]]]].
    - intros k Hk. assert (k <= N.log2 len) by (apply N.log2_le_pow2; assumption). lia.
    - cbn [meas]. unfold esize. cbn [fst snd]. lia.
    - exists a', d, it. split; [exact E1|]. cbn [meas] in E3. unfold esize in E3. cbn [fst snd] in E3. lia.
  Qed.

  (* the code's own capacity and the model's fuel: the call returns for every length below 2^32 *)
  Lemma seqsort_terminates : forall a b elements, elements < 4294967296 ->
    exists a' d it, seqsort_run a b elements = Some (a', d, it) /\
                    d <= N.log2 elements /\ d < stack_cap elements /\ it <= 2 * elements + 1.
  Proof.
    intros a b len H1. destruct (N.eq_dec len 0) as [->|Hne].
    - exists a, 0, 1. split; [reflexivity|]. split; [reflexivity|]. split; [reflexivity|]. vm_compute. discriminate.
    - assert (H0 : 0 < len) by lia.
      destruct (seqsort_stack_depth_bound (seq_fuel len) (stack_cap len) a b len H0) as [a' [d [it [E1 [E2 E3]]]]].
      + rewrite stack_cap_small by assumption. lia.
      + unfold seq_fuel. lia.
      + exists a', d, it. split; [exact E1|]. split; [exact E2|]. split; [|exact E3].
        rewrite stack_cap_small by assumption. lia.
  Qed.

  (* ------------------------------------------------------------------ sortedness (total, transitive comparison) *)
  Lemma seqsort_sorted : forall a b elements, OrderOK V leb -> elements < 4294967296 ->
    SortedSeg V leb dflt (seqsort a b elements) b elements.
  Proof.
    intros a b len [T1 T2] H1.
    destruct (seqsort_terminates a b len H1) as [a' [d [it [E _]]]].
    unfold SeqSort.seqsort. rewrite E.
    assert (C : Cross V leb dflt a' b len []).
    { eapply (outer_sorted V leb dflt T1 T2 (seq_fuel len) (stack_cap len) a b len [(0, len)] 0 0 a' d it (rng_init len)); [| |exact E].
      - simpl. split; [constructor|exact I].
      - intros i j Hij Hj Hno. exfalso. apply (Hno (0, len)); [left; reflexivity|simpl; lia]. }
    intros i j Hij Hj. destruct (N.eq_dec i j) as [->|Hne].
    - apply (leb_refl V leb T1).
    - apply C; [lia|exact Hj|]. intros e [].
  Qed.

  (* the model satisfies what SortCorrect.v / MergeCorrect.v assume about the sort below the cutoff *)
  Lemma seqsort_base_ok : forall bound, OrderOK V leb -> bound < 4294967296 ->
    BaseSortOK V leb dflt bound seqsort.
  Proof.
    intros bound O Hb. split.
    - intros a b len Hle. split; [exact (proj1 (seqsort_permutation a b len))|].
      apply seqsort_sorted; [exact O|lia].
    - intros a b len Hle. apply (proj2 (seqsort_permutation a b len)). exact Hle.
  Qed.

  (* ------------------------------------------------------------------ the instantiation: qutil_qsort, qutil_aligned_qsort
     and qutil_mergesort with the library's own sequential sort in the place of the assumed one *)
  Lemma qutil_qsort_sorted_permutation_unconditional : forall (bound : N) wfuel,
    OrderOK V leb -> bound < 4294967296 ->
    forall a len, 0 < len -> len <= bound ->
    exists a', qsort_inner V leb dflt bound seqsort (qutil_params 64 10000) (S (N.to_nat len)) wfuel a 0 len = Some a' /\
               Permutation (to_list a bound) (to_list a' bound) /\
               SortedSeg V leb dflt a' 0 len /\ (forall k, len <= k -> aget a' k = aget a k).
  Proof.
    intros bound wfuel O Hb.
    exact (qutil_qsort_sorted_permutation V leb dflt bound seqsort wfuel O (seqsort_base_ok bound O Hb)).
  Qed.

  Lemma mergesort_sorted_permutation_unconditional : forall n, OrderOK V leb -> 0 < n -> n < 4294967296 ->
    forall a, Permutation (to_list a n) (to_list (mergesort V leb dflt seqsort a n) n) /\
              SortedSeg V leb dflt (mergesort V leb dflt seqsort a n) 0 n /\
              (forall k, n <= k -> aget (mergesort V leb dflt seqsort a n) k = aget a k).
  Proof.
    intros n O H0 H1.
    exact (mergesort_sorted_permutation V leb dflt seqsort n O (seqsort_base_ok n O H1) H0).
  Qed.
End Top.

(* ---------------------------------------------------------------------- non-vacuity and counterfactuals *)
Lemma zle_order : OrderOK Z Z.leb.
Proof.
  split.
  - intros x y H. apply Z.leb_gt in H. apply Z.leb_le. lia.
  - intros x y z H1 H2. apply Z.leb_le in H1, H2. apply Z.leb_le. lia.
Qed.

Definition zsort (l : list Z) : option (list Z * N * N) :=
  let n := N.of_nat (length l) in
  match seqsort_run Z Z.leb 0%Z (of_list Z (7 :: 7 :: l ++ [9; 9])%Z) 2 n with
  | Some (a, d, it) => Some (to_list Z 0%Z a (n + 4), d, it)
  | None => None
  end.

(* a run with equal keys, through every branch of the partition loop; guard elements untouched; largest index 2 = log2 7 *)
Example seqsort_example :
  zsort [5; 3; 8; 3; 9; 1; 5]%Z = Some ([7; 7; 1; 3; 3; 5; 5; 8; 9; 9; 9]%Z, 2, 11).
Proof. vm_compute. reflexivity. Qed.

(* the depth bound is attained: 2 elements use index 1 = log2 2, 5 elements index 2 = log2 5 *)
Example depth_bound_tight :
  zsort [2; 1]%Z = Some ([7; 7; 1; 2; 9; 9]%Z, 1, 3) /\ (exists l, length l = 5%nat /\ exists r it, zsort l = Some (r, 2, it)).
Proof.
  split; [vm_compute; reflexivity|]. exists [3; 1; 2; 4; 5]%Z. split; [reflexivity|]. eexists. eexists. vm_compute. reflexivity.
Qed.

Fixpoint zrange (k : nat) (from : Z) : list Z :=
  match k with O => [] | S k' => from :: zrange k' (from + 1)%Z end.

(* counterfactual: with the exchange test reversed (the larger part kept on top) an already sorted array of 64 elements
   needs 64 stack entries; the code's capacity for 64 elements is 11: the push at index 11 is outside the array.
   The loop as it is uses index 1 at most on the same input. *)
Example larger_first_overflows :
  stack_cap 64 = 11 /\
  outer_larger_first Z Z.leb 0%Z 1000 (stack_cap 64) (of_list Z (zrange 64 0)) 0 [(0, 64)] 0 0 = None /\
  (exists a it, outer_larger_first Z Z.leb 0%Z 1000 100 (of_list Z (zrange 64 0)) 0 [(0, 64)] 0 0 = Some (a, 63, it)) /\
  (exists a it, outer Z Z.leb 0%Z 1000 (stack_cap 64) (of_list Z (zrange 64 0)) 0 [(0, 64)] 0 0 = Some (a, 1, it)).
Proof.
  split; [vm_compute; reflexivity|]. split; [vm_compute; reflexivity|].
  split; eexists; eexists; vm_compute; reflexivity.
Qed.

(* the 32-bit truncation of QT_INT_LOG's argument: for elements = 2^32 the capacity is 4 (callers: <= MT_LOOP_CHUNK = 10000
   resp. <= 10 elements -- the reason for the guard elements < 2^32 above) *)
Example stack_cap_truncation : stack_cap 4294967296 = 4 /\ stack_cap 0 = 4 /\ stack_cap 10000 = 18 /\ stack_cap 4294967295 = 36.
Proof. vm_compute. repeat split. Qed.
