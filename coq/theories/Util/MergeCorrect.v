(* C13 -- qutil_mergesort (model in Sort.v): every call returns a sorted permutation.
   presort of chunks of 10 by the cutoff sort, then rounds of in-place merges of neighbouring runs whose length doubles. *)
From Coq Require Import List NArith Bool Lia Permutation FMapPositive ZArith.
From QV Require Import Util.Sort Util.SortProofs Util.SortCorrect.
Import ListNotations.
Local Open Scope N_scope.

Section MergeCorrect.
  Variable V : Type.
  Variable leb : V -> V -> bool.
  Variable dflt : V.
  Variable base_sort : arr V -> N -> N -> arr V.

  Hypothesis leb_total : forall x y, leb x y = false -> leb y x = true.
  Hypothesis leb_trans : forall x y z, leb x y = true -> leb y z = true -> leb x z = true.

  Notation aget := (aget V dflt).
  Notation aset := (aset V).
  Notation to_list := (to_list V dflt).

  (* ------------------------------------------------------------------ reading through an injection is a permutation *)
  Lemma perm_of_injection : forall (a a' : arr V) n (s : N -> N),
    (forall i, i < n -> aget a' i = aget a (s i)) ->
    (forall i, i < n -> s i < n) ->
    (forall x y, s x = s y -> x = y) ->
    Permutation (to_list a n) (to_list a' n).
  Proof.
    intros a a' n s Hget Hlt Hinj. unfold Sort.to_list.
    set (r := nrange (N.to_nat n) 0).
    assert (E : map (Sort.aget V dflt a') r = map (Sort.aget V dflt a) (map s r)).
    { rewrite map_map. apply map_ext_in. intros i Hi. apply Hget. apply in_range0. exact Hi. }
    rewrite E. apply Permutation_map. apply Permutation_sym.
    apply NoDup_Permutation_bis.
    - apply FinFun.Injective_map_NoDup; [exact Hinj|apply nodup_nrange].
    - rewrite map_length. apply le_n.
    - intros x Hx. apply in_map_iff in Hx. destruct Hx as [y [<- Hy]].
      apply in_range0. apply Hlt. apply in_range0. exact Hy.
  Qed.

  (* ------------------------------------------------------------------ the rotation of the in-place merge *)
  Lemma shift_right_spec : forall n a fs i,
    aget (shift_right V dflt n a (fs + N.of_nat n - 1)) i =
    if (fs <? i) && (i <=? fs + N.of_nat n) then aget a (i - 1) else aget a i.
  Proof.
    induction n as [|n IH]; intros a fs i.
    - simpl. destruct (N.ltb_spec fs i); destruct (N.leb_spec i (fs + 0)); simpl; try reflexivity. lia.
    - rewrite Nat2N.inj_succ.
      set (m := N.of_nat n) in *.
      replace (fs + N.succ m - 1) with (fs + m) by lia.
      change (shift_right V dflt (S n) a (fs + m)) with
        (shift_right V dflt n (Sort.aset V a (fs + m + 1) (Sort.aget V dflt a (fs + m))) (fs + m - 1)).
      rewrite IH. fold m.
      destruct (N.ltb_spec fs i); destruct (N.leb_spec i (fs + m)); destruct (N.leb_spec i (fs + N.succ m));
        simpl; try lia.
      + rewrite (aget_aset_other V dflt) by lia. reflexivity.
      + assert (i = fs + m + 1) by lia. subst i. rewrite (aget_aset_same V dflt).
        f_equal. lia.
      + rewrite (aget_aset_other V dflt) by lia. reflexivity.
      + rewrite (aget_aset_other V dflt) by lia. reflexivity.
  Qed.

  Definition rot (a : arr V) (fs ss : N) : arr V :=
    aset (shift_right V dflt (N.to_nat (ss - fs)) a (ss - 1)) fs (aget a ss).
  Definition rot_idx (fs ss i : N) : N :=
    if i =? fs then ss else if (fs <? i) && (i <=? ss) then i - 1 else i.

  Lemma rot_spec : forall a fs ss i, fs <= ss -> aget (rot a fs ss) i = aget a (rot_idx fs ss i).
  Proof.
    intros a fs ss i H. unfold rot, rot_idx.
    destruct (N.eqb_spec i fs) as [->|Hne].
    - apply (aget_aset_same V dflt).
    - rewrite (aget_aset_other V dflt) by congruence.
      replace (ss - 1) with (fs + N.of_nat (N.to_nat (ss - fs)) - 1) by lia.
      rewrite shift_right_spec. replace (fs + N.of_nat (N.to_nat (ss - fs))) with ss by lia.
      destruct ((fs <? i) && (i <=? ss)); reflexivity.
  Qed.

  Lemma rot_idx_inj : forall fs ss x y, fs <= ss -> rot_idx fs ss x = rot_idx fs ss y -> x = y.
  Proof.
    intros fs ss x y H. unfold rot_idx.
    destruct (N.eqb_spec x fs); destruct (N.eqb_spec y fs);
      destruct (N.ltb_spec fs x); destruct (N.leb_spec x ss); destruct (N.ltb_spec fs y); destruct (N.leb_spec y ss);
      simpl; lia.
  Qed.

  Lemma rot_idx_lt : forall fs ss n i, fs <= ss -> ss < n -> i < n -> rot_idx fs ss i < n.
  Proof.
    intros fs ss n i H1 H2 H3. unfold rot_idx.
    destruct (N.eqb_spec i fs); [lia|]. destruct (N.ltb_spec fs i); destruct (N.leb_spec i ss); simpl; lia.
  Qed.

  Lemma rot_perm : forall a fs ss n, fs <= ss -> ss < n -> Permutation (to_list a n) (to_list (rot a fs ss) n).
  Proof.
    intros a fs ss n H1 H2. apply (perm_of_injection a (rot a fs ss) n (rot_idx fs ss)).
    - intros i _. apply rot_spec. exact H1.
    - intros i Hi. apply rot_idx_lt; assumption.
    - intros x y. apply rot_idx_inj. exact H1.
  Qed.

  (* ------------------------------------------------------------------ sorted ranges *)
  Definition SortedR (a : arr V) (lo hi : N) : Prop :=
    forall i j, lo <= i -> i <= j -> j < hi -> leb (aget a i) (aget a j) = true.

  Lemma SortedR_join : forall a lo m hi, SortedR a lo m -> SortedR a m hi ->
    (forall i j, lo <= i -> i < m -> m <= j -> j < hi -> leb (aget a i) (aget a j) = true) ->
    SortedR a lo hi.
  Proof.
    intros a lo m hi H1 H2 H3 i j Hi Hij Hj.
    destruct (N.lt_ge_cases j m); [apply H1; lia|].
    destruct (N.lt_ge_cases i m); [apply H3; lia|apply H2; lia].
  Qed.

  Lemma SortedR_ext : forall a a' lo hi, (forall k, lo <= k -> k < hi -> aget a' k = aget a k) ->
    SortedR a lo hi -> SortedR a' lo hi.
  Proof. intros a a' lo hi E H i j Hi Hij Hj. rewrite !E by lia. apply H; lia. Qed.

  Lemma leb_refl' : forall x, leb x x = true.
  Proof. intros x. destruct (leb x x) eqn:E; [reflexivity|]. pose proof (leb_total x x E). congruence. Qed.

  (* ------------------------------------------------------------------ the in-place merge *)
  (* invariant: [lo, fs) merged prefix, [fs, ss) first run, [ss, se] second run, ss = fe + 1 *)
  Definition MI (a : arr V) (lo fs fe ss se : N) : Prop :=
    lo <= fs /\ fs <= ss /\ ss = fe + 1 /\ ss <= se + 1 /\
    SortedR a lo fs /\ SortedR a fs ss /\ SortedR a ss (se + 1) /\
    (forall i j, lo <= i -> i < fs -> fs <= j -> j <= se -> leb (aget a i) (aget a j) = true).

  Lemma merge_inner_spec : forall n lo se, se < n ->
    forall fuel a fs fe ss, MI a lo fs fe ss se -> (N.to_nat (se + 1 - fs) < fuel)%nat ->
    let a' := merge_inner V leb dflt fuel a fs fe ss se in
    SortedR a' lo (se + 1) /\ (forall k, k < lo \/ se < k -> aget a' k = aget a k) /\
    Permutation (to_list a n) (to_list a' n).
  Proof.
    intros n lo se Hn. induction fuel as [|f IH]; intros a fs fe ss [M1 [M2 [M3 [M4 [S1 [S2 [S3 C]]]]]]] Hf; [lia|].
    simpl.
    destruct (N.leb_spec fs fe) as [Hfe|Hfe]; simpl.
    2:{ (* first run exhausted: fs = ss *)
      split; [|split; [reflexivity|apply Permutation_refl]].
      assert (E : ss = fs) by lia. rewrite E in S3. apply (SortedR_join a lo fs (se + 1) S1 S3).
      intros i j Hi1 Hi2 Hj1 Hj2. apply C; lia. }
    destruct (N.leb_spec ss se) as [Hse|Hse]; simpl.
    2:{ (* second run exhausted: ss = se + 1 *)
      split; [|split; [reflexivity|apply Permutation_refl]].
      assert (E : ss = se + 1) by lia. rewrite E in S2. apply (SortedR_join a lo fs (se + 1) S1 S2).
      intros i j Hi1 Hi2 Hj1 Hj2. apply C; lia. }
    unfold Sort.ltb. destruct (leb (aget a ss) (aget a fs)) eqn:Ecmp; simpl.
    - (* a[ss] <= a[fs]: rotate *)
      fold (rot a fs ss).
      assert (Hr : forall i, aget (rot a fs ss) i = aget a (rot_idx fs ss i)) by (intros; apply rot_spec; lia).
      assert (Hsame : forall k, k < fs \/ ss < k -> aget (rot a fs ss) k = aget a k).
      { intros k Hk. rewrite Hr. unfold rot_idx. destruct (N.eqb_spec k fs); [lia|].
        destruct (N.ltb_spec fs k); destruct (N.leb_spec k ss); simpl; try reflexivity; lia. }
      assert (Hfs : aget (rot a fs ss) fs = aget a ss).
      { rewrite Hr. unfold rot_idx. rewrite N.eqb_refl. reflexivity. }
      assert (Hmid : forall k, fs < k -> k <= ss -> aget (rot a fs ss) k = aget a (k - 1)).
      { intros k H1 H2. rewrite Hr. unfold rot_idx. destruct (N.eqb_spec k fs); [lia|].
        destruct (N.ltb_spec fs k); destruct (N.leb_spec k ss); simpl; try reflexivity; lia. }
      destruct (IH (rot a fs ss) (fs + 1) (fe + 1) (ss + 1)) as [R1 [R2 R3]].
      + unfold MI. repeat split; try lia.
        * (* new prefix [lo, fs+1) *)
          intros i j Hi Hij Hj. destruct (N.eq_dec j fs) as [->|Hjn].
          -- rewrite Hfs. destruct (N.eq_dec i fs) as [->|Hin]; [rewrite Hfs; apply leb_refl'|].
             rewrite Hsame by lia. apply C; lia.
          -- rewrite !Hsame by lia. apply S1; lia.
        * (* new first run [fs+1, ss+1) *)
          intros i j Hi Hij Hj. rewrite !Hmid by lia. apply S2; lia.
        * (* second run [ss+1, se+1) *)
          intros i j Hi Hij Hj. rewrite !Hsame by lia. apply S3; lia.
        * (* prefix <= rest *)
          intros i j Hi1 Hi2 Hj1 Hj2.
          assert (Hj : exists j', fs <= j' /\ j' <= se /\ aget (rot a fs ss) j = aget a j' /\ (j <= ss -> j' < ss) /\ (ss < j -> j' = j)).
          { destruct (N.le_gt_cases j ss).
            - exists (j - 1). rewrite Hmid by lia. split; [lia|]. split; [lia|]. split; [reflexivity|]. split; lia.
            - exists j. rewrite Hsame by lia. split; [lia|]. split; [lia|]. split; [reflexivity|]. split; lia. }
          destruct Hj as [j' [J1 [J2 [J3 [J4 J5]]]]]. rewrite J3.
          destruct (N.eq_dec i fs) as [->|Hin].
          -- rewrite Hfs. destruct (N.le_gt_cases j ss) as [X|X].
             ++ eapply leb_trans; [exact Ecmp|]. apply S2; lia.
             ++ rewrite (J5 X). apply S3; lia.
          -- rewrite Hsame by lia. apply C; lia.
      + lia.
      + split; [exact R1|]. split.
        * intros k Hk. rewrite R2 by lia. apply Hsame. lia.
        * eapply Permutation_trans; [|exact R3]. apply rot_perm; lia.
    - (* a[fs] < a[ss]: keep *)
      assert (Hle : leb (aget a fs) (aget a ss) = true) by (apply leb_total; exact Ecmp).
      destruct (IH a (fs + 1) fe ss) as [R1 [R2 R3]].
      + unfold MI. repeat split; try lia; try assumption.
        * intros i j Hi Hij Hj. destruct (N.eq_dec j fs) as [->|Hjn].
          -- destruct (N.eq_dec i fs) as [->|Hin]; [apply leb_refl'|]. apply C; lia.
          -- apply S1; lia.
        * intros i j Hi Hij Hj. apply S2; lia.
        * intros i j Hi1 Hi2 Hj1 Hj2. destruct (N.eq_dec i fs) as [->|Hin].
          -- destruct (N.lt_ge_cases j ss) as [X|X]; [apply S2; lia|].
             eapply leb_trans; [exact Hle|]. apply S3; lia.
          -- apply C; lia.
      + lia.
      + split; [exact R1|]. split; assumption.
  Qed.

  (* ------------------------------------------------------------------ runs, rounds *)
  Variable n : N.       (* the array length *)

  (* from position p on, the array consists of sorted runs of length cs (the last one may be shorter) *)
  Inductive RunsFrom (a : arr V) (cs : N) : N -> Prop :=
  | rf_end : forall p, n <= p -> RunsFrom a cs p
  | rf_step : forall p, p < n -> SortedR a p (N.min (p + cs) n) -> RunsFrom a cs (p + cs) -> RunsFrom a cs p.

  Lemma RunsFrom_ext : forall a a' cs p, (forall k, p <= k -> aget a' k = aget a k) ->
    RunsFrom a cs p -> RunsFrom a' cs p.
  Proof.
    intros a a' cs p E H. induction H as [p Hp|p Hp Hs Hr IH].
    - apply rf_end. exact Hp.
    - apply rf_step; [exact Hp| |].
      + eapply SortedR_ext; [|exact Hs]. intros k Hk1 Hk2. apply E. exact Hk1.
      + apply IH. intros k Hk. apply E. lia.
  Qed.

  Lemma merge_round_spec : forall cs, 0 < cs ->
    forall fuel a i, RunsFrom a cs i -> (N.to_nat (n - i) < fuel)%nat ->
    let a' := merge_round V leb dflt fuel a n cs i in
    RunsFrom a' (2 * cs) i /\ (forall k, k < i \/ n <= k -> aget a' k = aget a k) /\
    Permutation (to_list a n) (to_list a' n).
  Proof.
    intros cs Hcs. induction fuel as [|f IH]; intros a i Hruns Hf; [lia|]. cbn [merge_round].
    destruct (N.ltb_spec i (n - cs)) as [Hlt|Hge].
    - inversion Hruns as [p Hp|p Hp Hs1 Hr1]; subst; [lia|].
      inversion Hr1 as [p Hp'|p Hp' Hs2 Hr2]; subst; [lia|].
      set (se := if i + 2 * cs - 1 <? n - 1 then i + 2 * cs - 1 else n - 1).
      assert (Hse : se + 1 = N.min (i + 2 * cs) n).
      { unfold se. destruct (N.ltb_spec (i + 2 * cs - 1) (n - 1)); lia. }
      destruct (merge_inner_spec n i se ltac:(lia) (S (N.to_nat (2 * cs))) a i (i + cs - 1) (i + cs)) as [R1 [R2 R3]].
      + unfold MI. split; [lia|]. split; [lia|]. split; [lia|]. split; [lia|].
        split; [intros x y X1 X2 X3; lia|].
        split; [rewrite N.min_l in Hs1 by lia; exact Hs1|].
        split; [rewrite Hse; replace (i + 2 * cs) with (i + cs + cs) by lia; exact Hs2|].
        intros x y X1 X2 X3 X4. lia.
      + lia.
      + set (a1 := merge_inner V leb dflt (S (N.to_nat (2 * cs))) a i (i + cs - 1) (i + cs) se) in *.
        destruct (IH a1 (i + 2 * cs)) as [Q1 [Q2 Q3]].
        * apply (RunsFrom_ext a); [intros k Hk; apply R2; lia|].
          replace (i + 2 * cs) with (i + cs + cs) by lia. exact Hr2.
        * lia.
        * split; [|split].
          -- apply rf_step; [lia| |exact Q1].
             eapply SortedR_ext; [|rewrite <- Hse; exact R1].
             intros k Hk1 Hk2. apply Q2. lia.
          -- intros k Hk. rewrite Q2 by lia. apply R2. lia.
          -- eapply Permutation_trans; [exact R3|exact Q3].
    - split; [|split; [reflexivity|apply Permutation_refl]].
      destruct (N.lt_ge_cases i n) as [X|X]; [|apply rf_end; exact X].
      inversion Hruns as [p Hp|p Hp Hs1 Hr1]; subst; [lia|].
      apply rf_step; [exact X| |apply rf_end; lia].
      rewrite N.min_r in Hs1 by lia. rewrite N.min_r by lia. exact Hs1.
  Qed.

  Lemma merge_rounds_spec : 0 < n -> forall fuel cs a, 0 < cs -> RunsFrom a cs 0 -> n < cs * 2 ^ N.of_nat fuel ->
    let a' := merge_rounds V leb dflt fuel a n cs in
    SortedR a' 0 n /\ (forall k, n <= k -> aget a' k = aget a k) /\ Permutation (to_list a n) (to_list a' n).
  Proof.
    intros Hn.
    assert (Done : forall cs a, n < cs -> RunsFrom a cs 0 -> SortedR a 0 n).
    { intros cs a Hc Hr. inversion Hr as [p Hp|p Hp Hs _]; subst; [lia|].
      rewrite N.min_r in Hs by lia. exact Hs. }
    induction fuel as [|f IH]; intros cs a Hcs Hruns Hpow.
    - simpl in *. split; [|split; [reflexivity|apply Permutation_refl]]. apply (Done cs); [lia|exact Hruns].
    - simpl merge_rounds. destruct (N.leb_spec cs n) as [Hle|Hgt].
      + destruct (merge_round_spec cs Hcs (S (N.to_nat n)) a 0 Hruns) as [R1 [R2 R3]]; [lia|].
        set (a1 := merge_round V leb dflt (S (N.to_nat n)) a n cs 0) in *.
        destruct (IH (2 * cs) a1) as [Q1 [Q2 Q3]]; [lia|exact R1| |].
        * rewrite Nat2N.inj_succ, N.pow_succ_r' in Hpow.
          replace (2 * cs * 2 ^ N.of_nat f) with (cs * (2 * 2 ^ N.of_nat f)) by ring. exact Hpow.
        * split; [exact Q1|]. split.
          -- intros k Hk. rewrite Q2 by exact Hk. apply R2. right. exact Hk.
          -- eapply Permutation_trans; [exact R3|exact Q3].
      + split; [|split; [reflexivity|apply Permutation_refl]]. apply (Done cs); assumption.
  Qed.

  (* ------------------------------------------------------------------ presort + the whole sort *)
  Hypothesis base_sort_ok : forall a b len, b + len <= n ->
    SegRel V dflt a (base_sort a b len) b len /\ SortedSeg V leb dflt (base_sort a b len) b len.
  Hypothesis base_sort_perm : forall a b len, b + len <= n ->
    Permutation (to_list a n) (to_list (base_sort a b len) n).

  Lemma SortedSeg_R : forall a b len, SortedSeg V leb dflt a b len -> SortedR a b (b + len).
  Proof.
    intros a b len H i j Hi Hij Hj.
    replace i with (b + (i - b)) by lia. replace j with (b + (j - b)) by lia. apply H; lia.
  Qed.

  Lemma presort_spec : forall k a i,
    n <= (i + N.of_nat k) * 10 -> ((0 < k)%nat -> (i + N.of_nat k - 1) * 10 < n) ->
    let a' := presort V base_sort k a n 10 i in
    RunsFrom a' 10 (i * 10) /\ (forall j, j < i * 10 \/ n <= j -> aget a' j = aget a j) /\
    Permutation (to_list a n) (to_list a' n).
  Proof.
    induction k as [|k IH]; intros a i H1 H2.
    - simpl. split; [apply rf_end; lia|]. split; [reflexivity|apply Permutation_refl].
    - assert (Hi : i * 10 < n) by (specialize (H2 ltac:(lia)); lia).
      simpl presort.
      set (fe := if n <=? (i + 1) * 10 - 1 then n - 1 else (i + 1) * 10 - 1).
      assert (Hfe : fe - i * 10 + 1 = N.min ((i + 1) * 10) n - i * 10).
      { unfold fe. destruct (N.leb_spec n ((i + 1) * 10 - 1)); lia. }
      set (lc := fe - i * 10 + 1) in *.
      assert (Hb : i * 10 + lc <= n) by lia.
      destruct (base_sort_ok a (i * 10) lc Hb) as [[O _] Sd].
      set (a1 := base_sort a (i * 10) lc) in *.
      destruct (IH a1 (i + 1)) as [R1 [R2 R3]].
      + lia.
      + intros Hk. specialize (H2 ltac:(lia)). lia.
      + split; [|split].
        * apply rf_step; [exact Hi| |replace (i * 10 + 10) with ((i + 1) * 10) by lia; exact R1].
          assert (Hs : SortedR a1 (i * 10) (N.min (i * 10 + 10) n)).
          { replace (N.min (i * 10 + 10) n) with (i * 10 + lc) by lia. apply SortedSeg_R. exact Sd. }
          eapply SortedR_ext; [|exact Hs]. intros j Hj1 Hj2. apply R2. lia.
        * intros j Hj. rewrite R2 by lia. apply O. lia.
        * eapply Permutation_trans; [apply base_sort_perm; exact Hb|exact R3].
  Qed.

  (* mergesort_sorted_permutation: every array of length n >= 1 *)
  Theorem mergesort_total : 0 < n -> forall a,
    let a' := mergesort V leb dflt base_sort a n in
    Permutation (to_list a n) (to_list a' n) /\ SortedSeg V leb dflt a' 0 n /\
    (forall k, n <= k -> aget a' k = aget a k).
  Proof.
    intros Hn a. unfold Sort.mergesort.
    set (q := n / 10).
    assert (Hq1 : 10 * q <= n) by (apply N.mul_div_le; lia).
    assert (Hq2 : n < 10 * N.succ q) by (apply N.mul_succ_div_gt; lia).
    set (nth := q + (if negb (n - q * 10 =? 0) then 1 else 0)).
    assert (Hn1 : n <= nth * 10 /\ (nth - 1) * 10 < n /\ 0 < nth).
    { unfold nth. destruct (N.eqb_spec (n - q * 10) 0); simpl; lia. }
    destruct (presort_spec (N.to_nat nth) a 0) as [P1 [P2 P3]]; [lia|intros _; lia|].
    set (a1 := presort V base_sort (N.to_nat nth) a n 10 0) in *.
    destruct (merge_rounds_spec Hn (S (N.to_nat (N.log2 n))) 10 a1) as [M1 [M2 M3]]; [lia|exact P1| |].
    - destruct (N.log2_spec n Hn) as [_ L2].
      rewrite Nat2N.inj_succ, N2Nat.id. lia.
    - split; [eapply Permutation_trans; [exact P3|exact M3]|]. split.
      + intros i j Hij Hj. rewrite !N.add_0_l. apply M1; lia.
      + intros k Hk. rewrite M2 by exact Hk. apply P2. right. exact Hk.
  Qed.
End MergeCorrect.

(* qutil_mergesort: every array of length n >= 1, any total transitive comparison, correct chunk sort (drf_qsort_dbl) *)
Theorem mergesort_sorted_permutation :
  forall (V : Type) (leb : V -> V -> bool) (dflt : V) bs (n : N),
  OrderOK V leb -> BaseSortOK V leb dflt n bs -> 0 < n ->
  forall a, Permutation (to_list V dflt a n) (to_list V dflt (mergesort V leb dflt bs a n) n) /\
            SortedSeg V leb dflt (mergesort V leb dflt bs a n) 0 n /\
            (forall k, n <= k -> aget V dflt (mergesort V leb dflt bs a n) k = aget V dflt a k).
Proof.
  intros V leb dflt bs n [T1 T2] [B1 B2] Hn a.
  exact (mergesort_total V leb dflt bs T1 T2 n B1 B2 Hn a).
Qed.
