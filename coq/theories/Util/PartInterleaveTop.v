(* C13 extension F -- closed statements (no section variables) about the micro-step machine of one partition pass,
   consumed by Properties/Properties_C13_part.v, and non-vacuity examples. *)
From Coq Require Import List NArith Bool Lia FMapPositive PeanoNat Permutation.
From QV Require Import Util.Sort Util.SortProofs Util.SortCorrect Util.Strided Util.StridedThread Util.StridedPass Util.SortFinal
                       Util.PartInterleave Util.PartInterleaveLocal Util.PartInterleaveArray Util.PartInterleaveWalls
                       Util.PartInterleaveFinal.
Import ListNotations.
Local Open Scope N_scope.

(* the sub-array holds at least one chunk per thread (SortCorrect.PassWF, which ParamsWF guarantees for every pass the
   quicksorts start) and lies inside the allocation *)
Definition PassOK (P : params) (bound B LEN : N) : Prop := PassWF P LEN /\ B + LEN <= bound.

(* ---------------------------------------------------------------------- slices *)
(* thread t (t < nt) owns the sub-array indices t*cs + idx k; two threads never share one, whatever the chunk size, the
   thread count and the positions *)
Theorem slices_disjoint : forall (P : params) (nt : N), 0 < p_chunk P -> 0 < nt ->
  forall t t' k k', t < nt -> t' < nt -> t <> t' -> t * p_chunk P + idx P nt k <> t' * p_chunk P + idx P nt k'.
Proof.
  intros P nt Hc Hn t t' k k' Ht Ht' Hne E.
  destruct (slice_unique P nt Hc Hn t k t' k' Ht Ht' E) as [Q _]. contradiction.
Qed.

(* and every index of the sub-array belongs to the slice of some thread *)
Theorem slices_cover : forall (P : params) (nt : N), 0 < p_chunk P -> 0 < nt ->
  forall j, exists t k, t < nt /\ j = t * p_chunk P + idx P nt k.
Proof. intros P nt Hc Hn j. exact (slice_decompose P nt Hc Hn j). Qed.

Section Closed.
  Variable V : Type.
  Variable leb : V -> V -> bool.
  Variable dflt : V.
  Variable bound : N.
  Variable P : params.
  Variable lockf : bool.

  Notation run := (run V leb dflt P lockf).
  Notation ginit := (ginit V dflt).

  Lemma pass_targs_gs : forall B LEN, pass_targs P B LEN = gs P B LEN (p_nthreads P LEN).
  Proof. reflexivity. Qed.

  (* in every state reachable under any schedule, the index a thread is about to load or store lies in its own slice, inside
     the sub-array *)
  Theorem access_in_own_slice_closed : forall B LEN p a0 sched t c j, PassOK P bound B LEN ->
    nth_error (s_thr (run p (pass_targs P B LEN) (ginit (pass_targs P B LEN) a0) sched)) t = Some c ->
    access_of V (G P B LEN (p_nthreads P LEN) t) c = Some j ->
    (exists k, k <= ymax P LEN (p_nthreads P LEN) (N.of_nat t) /\
               j = B + N.of_nat t * p_chunk P + idx P (p_nthreads P LEN) k) /\ B <= j /\ j < B + LEN.
  Proof.
    intros B LEN p a0 sched t c j [[W1 [W2 W3]] Hb] Hc Ha. rewrite pass_targs_gs in Hc.
    destruct (access_in_own_slice V leb dflt bound P lockf B LEN p (p_nthreads P LEN) W1 W2 W3 Hb a0 sched t c j Hc Ha) as [Fj Hj].
    split; [exact Fj|exact Hj].
  Qed.

  (* the final array and the wall words after ANY schedule that lets every thread return equal those of the sequential-in-
     index-order model *)
  Theorem interleaving_independent_closed : forall B LEN p a0 sched afin l r, PassOK P bound B LEN ->
    partitioner V leb dflt bound P a0 B LEN p = Some (afin, l, r) ->
    AllDone V (run p (pass_targs P B LEN) (ginit (pass_targs P B LEN) a0) sched) ->
    SameArr V (s_a (run p (pass_targs P B LEN) (ginit (pass_targs P B LEN) a0) sched)) afin /\
    w_fl (s_w (run p (pass_targs P B LEN) (ginit (pass_targs P B LEN) a0) sched)) = l /\
    w_fr (s_w (run p (pass_targs P B LEN) (ginit (pass_targs P B LEN) a0) sched)) = r.
  Proof.
    intros B LEN p a0 sched afin l r [[W1 [W2 W3]] Hb] EP HD. rewrite pass_targs_gs in *.
    exact (interleaving_independent V leb dflt bound P lockf B LEN p (p_nthreads P LEN) W1 W2 W3 Hb a0 sched afin l r EP eq_refl HD).
  Qed.

  (* the parent: when it has returned (under any schedule), every thread has returned, and the pass's result -- array and
     retval -- is the sequential model's *)
  Theorem pass_sched_eq_partitioner : forall B LEN p a0 sched a2 l r, PassOK P bound B LEN ->
    partitioner_sched V leb dflt P lockf sched a0 B LEN p = Some (a2, l, r) ->
    AllDone V (run p (pass_targs P B LEN) (ginit (pass_targs P B LEN) a0) sched) /\
    exists afin, partitioner V leb dflt bound P a0 B LEN p = Some (afin, l, r) /\ SameArr V a2 afin.
  Proof.
    intros B LEN p a0 sched a2 l r HOK E. pose proof HOK as [[W1 [W2 W3]] Hb]. unfold partitioner_sched in E.
    destruct (p_res (s_par (run p (pass_targs P B LEN) (ginit (pass_targs P B LEN) a0) sched))) as [[l' r']|] eqn:ER; [|discriminate].
    injection E as <- <- <-.
    destruct (pass_correct V leb dflt bound P B LEN p (p_nthreads P LEN) W1 W2 W3 Hb eq_refl a0) as [afin [l0 [r0 [EP _]]]].
    rewrite pass_targs_gs in ER.
    destruct (parent_view V leb dflt bound P lockf B LEN p (p_nthreads P LEN) W1 W2 W3 Hb a0 sched afin l0 r0 l' r' EP eq_refl ER)
      as [HD [SA [-> ->]]].
    rewrite pass_targs_gs. split; [exact HD|]. exists afin. split; [exact EP|exact SA].
  Qed.

  Lemma SameArr_aget : forall a1 a2, SameArr V a1 a2 -> forall j, aget V dflt a1 j = aget V dflt a2 j.
  Proof. intros a1 a2 H j. rewrite !aget_find. rewrite (H (key j)). reflexivity. Qed.

  Lemma SegRel_same : forall a a1 a2 b len, SameArr V a2 a1 -> SegRel V dflt a a1 b len -> SegRel V dflt a a2 b len.
  Proof.
    intros a a1 a2 b len S [O [F1 F2]]. pose proof (SameArr_aget a2 a1 S) as E. split; [|split].
    - intros k Hk. rewrite E. apply O. exact Hk.
    - intros i Hi. destruct (F1 i Hi) as [j [Hj Ej]]. exists j. split; [exact Hj|]. rewrite E. exact Ej.
    - intros i Hi. destruct (F2 i Hi) as [j [Hj Ej]]. exists j. split; [exact Hj|]. rewrite E. exact Ej.
  Qed.

  (* the postcondition the sort proof consumes (SortCorrect.strided_pass_post) holds for the machine under every schedule *)
  Theorem pass_post_every_schedule : forall B LEN p a0 sched a2 l r, PassOK P bound B LEN ->
    partitioner_sched V leb dflt P lockf sched a0 B LEN p = Some (a2, l, r) ->
    SegRel V dflt a0 a2 B LEN /\ r < LEN /\
    (forall i, i < l -> i <= r -> LE V leb dflt a2 B p i) /\ (forall i, r < i -> i < LEN -> GT V leb dflt a2 B p i).
  Proof.
    intros B LEN p a0 sched a2 l r HOK E. pose proof HOK as [[W1 [W2 W3]] Hb].
    destruct (pass_sched_eq_partitioner B LEN p a0 sched a2 l r HOK E) as [_ [afin [EP SA]]].
    destruct (pass_correct V leb dflt bound P B LEN p (p_nthreads P LEN) W1 W2 W3 Hb eq_refl a0) as [af [l0 [r0 [EP' [S0 [R0 [L0 G0]]]]]]].
    rewrite EP in EP'. injection EP' as <- <- <-.
    pose proof (SameArr_aget a2 afin SA) as Eg.
    split; [eapply SegRel_same; eauto|]. split; [exact R0|]. split.
    - intros i H1 H2. unfold LE. rewrite Eg. apply L0; assumption.
    - intros i H1 H2. unfold GT. rewrite Eg. apply G0; assumption.
  Qed.

  (* mutual exclusion of the critical section of the qloop.c flavour, in every reachable state *)
  Theorem lock_mutex_closed : forall gs p a0 sched t u c c',
    nth_error (s_thr (run p gs (ginit gs a0) sched)) t = Some c -> nth_error (s_thr (run p gs (ginit gs a0) sched)) u = Some c' ->
    kcrit (t_pc c) = true -> kcrit (t_pc c') = true -> t = u.
  Proof.
    intros gs p a0 sched t u c c' Hc Hc' K K'.
    destruct (Inv_run V leb dflt P lockf p gs sched (ginit gs a0) (WInv_init V dflt lockf gs a0) (PInv_init V dflt gs a0)) as [HW _].
    pose proof HW as [_ [HL _]].
    destruct (nth_error gs t) as [g|] eqn:Eg; [|apply nth_error_None in Eg; assert ((t < length gs)%nat) by (rewrite <- HL; apply nth_error_Some; congruence); lia].
    destruct (nth_error gs u) as [g'|] eqn:Eg'; [|apply nth_error_None in Eg'; assert ((u < length gs)%nat) by (rewrite <- HL; apply nth_error_Some; congruence); lia].
    exact (lock_mutex V leb dflt lockf gs _ HW t u g g' c c' Eg Eg' Hc Hc' K K').
  Qed.
End Closed.

(* ---------------------------------------------------------------------- the corollary for the whole sorts
   (1) the quicksort model returns a sorted permutation for every input (SortFinal), and (2) every partition pass it
   performs -- any sub-array it may be started on -- may be replaced by the micro-step machine under ANY schedule that lets
   the parent return: same walls, same array contents (key by key), hence the same postcondition. *)
Theorem qsort_every_schedule :
  forall (V : Type) (leb : V -> V -> bool) (dflt : V) (bound : N) bs (P : params) (lockf : bool) L wfuel,
  OrderOK V leb -> BaseSortOK V leb dflt bound bs -> ParamsWF P L ->
  (forall a len, 0 < len -> len <= L -> len <= bound ->
     exists a', qsort_inner V leb dflt bound bs P (S (N.to_nat len)) wfuel a 0 len = Some a' /\
                Permutation (to_list V dflt a bound) (to_list V dflt a' bound) /\
                SortedSeg V leb dflt a' 0 len /\ (forall k, len <= k -> aget V dflt a' k = aget V dflt a k)) /\
  (forall len l b a p sched a2 lw rw, 0 < len -> len <= L -> p_small P len = false -> p_thresh P len + 1 < l -> l <= len ->
     b + l <= bound ->
     partitioner_sched V leb dflt P lockf sched a b l p = Some (a2, lw, rw) ->
     exists a3, partitioner V leb dflt bound P a b l p = Some (a3, lw, rw) /\ SameArr V a2 a3 /\
                SegRel V dflt a a2 b l /\ rw < l /\
                (forall i, i < lw -> i <= rw -> LE V leb dflt a2 b p i) /\ (forall i, rw < i -> i < l -> GT V leb dflt a2 b p i)).
Proof.
  intros V leb dflt bound bs P lockf L wfuel O Bs W. split.
  - intros a len H1 H2 H3. exact (qsort_returns_sorted_permutation V leb dflt bound bs P L wfuel O Bs W a len H1 H2 H3).
  - intros len l b a p sched a2 lw rw H1 H2 H3 H4 H5 H6 E.
    assert (OK : PassOK P bound b l) by (split; [exact (W len l H1 H2 H3 H4 H5)|exact H6]).
    destruct (pass_sched_eq_partitioner V leb dflt bound P lockf b l p a sched a2 lw rw OK E) as [_ [a3 [EP SA]]].
    destruct (pass_post_every_schedule V leb dflt bound P lockf b l p a sched a2 lw rw OK E) as [Q1 [Q2 [Q3 Q4]]].
    exists a3. split; [exact EP|]. split; [exact SA|]. split; [exact Q1|]. split; [exact Q2|]. split; [exact Q3|exact Q4].
Qed.

(* ---------------------------------------------------------------------- non-vacuity: a concrete pass
   chunk 2, 3 threads, 17 elements of a sub-array starting at index 1, both flavours; a round-robin schedule and a
   "last thread first" schedule both let the parent return, and give the partitioner's result *)
Definition exP : params := {| p_chunk := 2; p_nthreads := fun _ => 3; p_small := fun _ => false; p_thresh := fun _ => 0 |}.
Definition exA : arr N := of_list N (0 :: map (fun x => (x * 7 + 3) mod 11) (nrange 17 0) ++ [0]).
Fixpoint repeat_list (k : nat) (l : list nat) : list nat := match k with O => [] | S k' => l ++ repeat_list k' l end.
Definition exRR : list nat := repeat_list 120 [0; 1; 2; 3]%nat.
Definition exRev : list nat := repeat_list 120 [2; 2; 2; 1; 3; 0]%nat.
Definition same_res (x y : option (arr N * N * N)) : bool :=
  match x, y with
  | Some (a1, l1, r1), Some (a2, l2, r2) =>
    (l1 =? l2) && (r1 =? r2) && forallb (fun j => aget N 0 a1 j =? aget N 0 a2 j) (nrange 19 0)
  | _, _ => false
  end.

Example pass_ok_example : PassOK exP 19 1 17.
Proof. unfold PassOK, PassWF. cbn. lia. Qed.

Example sched_example :
  forallb (fun lf => forallb (fun s => same_res (partitioner_sched N N.leb 0 exP lf s exA 1 17 5) (partitioner N N.leb 0 19 exP exA 1 17 5))
                             [exRR; exRev]) [false; true] = true.
Proof. vm_compute. reflexivity. Qed.

(* the pass really moves elements and both walls on this input *)
Example sched_example_nontrivial :
  match partitioner N N.leb 0 19 exP exA 1 17 5 with
  | Some (a, l, r) => negb (forallb (fun j => aget N 0 a j =? aget N 0 exA j) (nrange 19 0)) && (0 <? l) && (r <? 16)
  | None => false
  end = true.
Proof. vm_compute. reflexivity. Qed.

(* a schedule that starves a thread does not let the parent return *)
Example starving_schedule_does_not_return :
  partitioner_sched N N.leb 0 exP false (repeat_list 200 [0; 1; 3]%nat) exA 1 17 5 = None.
Proof. vm_compute. reflexivity. Qed.
