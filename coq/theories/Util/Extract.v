From Coq Require Import List NArith ZArith.
From QV Require Import Util.Reduce Util.Sort Util.Allpairs.
Require Extraction.
Require Import ExtrOcamlBasic.
Extraction Language OCaml.
Extraction "../ocaml/gen/c13_model.ml"
  seqfold kernel loopaccum_ranges partials loopaccum sinc_collate qutil_reduce
  u_add u_mul s_add s_mul z_max z_min
  aget aset of_list to_list part_thread partitioner walls fixup trimedian qsort_inner qsort_inner_old qsort_inner_nostall qsort_node movepiv mergesort qutil_params qt_params
  ap_init ap_step ap_step_ptrtest ap_run all_done ap_processed tr_init tr_step tr_final_ok.
