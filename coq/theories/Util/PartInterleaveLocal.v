(* C13 extension F -- one partition thread of the micro-step machine (PartInterleave.v):
   (1) footprint: every step reads / writes the array only inside the thread's slice {b + e k | k <= ymax}
       (index arithmetic only, whatever the array holds), so the step is LOCAL: it acts in the same way on two arrays
       that agree on the slice and leaves everything outside the slice alone;
   (2) bridge: the solo run of the micro-steps reaches quickexit with exactly the array and walls the functional
       model Sort.part_thread computes. *)
From Coq Require Import List NArith Bool Lia FMapPositive PeanoNat.
From QV Require Import Util.Sort Util.SortProofs Util.SortCorrect Util.StridedThread Util.PartInterleave.
Import ListNotations.
Local Open Scope N_scope.

(* ---------------------------------------------------------------------- arrays compared key by key *)
Definition key (j : N) : positive := N.succ_pos j.

Lemma key_inj : forall i j, key i = key j -> i = j.
Proof.
  intros i j H. unfold key in H.
  assert (E : N.pos (N.succ_pos i) = N.pos (N.succ_pos j)) by (rewrite H; reflexivity).
  rewrite !N.succ_pos_spec in E. lia.
Qed.

Lemma key_surj : forall k, exists j, k = key j.
Proof.
  intros k. exists (N.pred (N.pos k)). unfold key.
  assert (E : N.pos (N.succ_pos (N.pred (N.pos k))) = N.pos k) by (rewrite N.succ_pos_spec; lia).
  injection E as E. symmetry. exact E.
Qed.

Section Arr.
  Variable V : Type.
  Variable dflt : V.
  Notation aget := (aget V dflt).
  Notation aset := (aset V).

  Definition AgreeOn (F : N -> Prop) (a1 a2 : arr V) : Prop :=
    forall j, F j -> PositiveMap.find (key j) a1 = PositiveMap.find (key j) a2.
  Definition Outside (F : N -> Prop) (a a' : arr V) : Prop :=
    forall k, (forall j, F j -> k <> key j) -> PositiveMap.find k a' = PositiveMap.find k a.
  Definition SameArr (a1 a2 : arr V) : Prop := forall k, PositiveMap.find k a1 = PositiveMap.find k a2.

  Lemma AgreeOn_refl : forall F a, AgreeOn F a a.
  Proof. intros F a j _. reflexivity. Qed.
  Lemma AgreeOn_sym : forall F a1 a2, AgreeOn F a1 a2 -> AgreeOn F a2 a1.
  Proof. intros F a1 a2 H j Hj. symmetry. apply H. exact Hj. Qed.
  Lemma AgreeOn_trans : forall F a1 a2 a3, AgreeOn F a1 a2 -> AgreeOn F a2 a3 -> AgreeOn F a1 a3.
  Proof. intros F a1 a2 a3 H1 H2 j Hj. rewrite (H1 j Hj). apply H2. exact Hj. Qed.
  Lemma Outside_refl : forall F a, Outside F a a.
  Proof. intros F a k _. reflexivity. Qed.
  Lemma Outside_trans : forall F a1 a2 a3, Outside F a1 a2 -> Outside F a2 a3 -> Outside F a1 a3.
  Proof. intros F a1 a2 a3 H1 H2 k Hk. rewrite (H2 k Hk). apply H1. exact Hk. Qed.

  Lemma aget_find : forall a j, aget a j = match PositiveMap.find (key j) a with Some v => v | None => dflt end.
  Proof. reflexivity. Qed.

  Lemma AgreeOn_aget : forall F a1 a2 j, AgreeOn F a1 a2 -> F j -> aget a1 j = aget a2 j.
  Proof. intros F a1 a2 j H Hj. rewrite !aget_find. rewrite (H j Hj). reflexivity. Qed.

  Lemma find_aset : forall a j v k,
    PositiveMap.find k (aset a j v) = if Pos.eqb k (key j) then Some v else PositiveMap.find k a.
  Proof.
    intros a j v k. unfold Sort.aset. fold (key j). destruct (Pos.eqb_spec k (key j)) as [->|Hne].
    - apply PositiveMap.gss.
    - apply PositiveMap.gso. exact Hne.
  Qed.

  Lemma AgreeOn_aset : forall F a1 a2 j v, AgreeOn F a1 a2 -> AgreeOn F (aset a1 j v) (aset a2 j v).
  Proof. intros F a1 a2 j v H i Hi. rewrite !find_aset. destruct (Pos.eqb (key i) (key j)); [reflexivity|apply H; exact Hi]. Qed.

  Lemma Outside_aset : forall (F : N -> Prop) a j v, F j -> Outside F a (aset a j v).
  Proof.
    intros F a j v Hj k Hk. rewrite find_aset. destruct (Pos.eqb_spec k (key j)) as [E|Hne]; [|reflexivity].
    exfalso. exact (Hk j Hj E).
  Qed.

  (* a thread whose footprint is disjoint from F does not disturb agreement on F *)
  Lemma AgreeOn_Outside : forall (F G : N -> Prop) a a' p, (forall j, F j -> G j -> False) ->
    Outside G a a' -> AgreeOn F a p -> AgreeOn F a' p.
  Proof.
    intros F G a a' p D O A j Hj. rewrite <- (A j Hj). apply O.
    intros i Hi E. apply key_inj in E. subst i. exact (D j Hj Hi).
  Qed.
End Arr.

(* ---------------------------------------------------------------------- one thread *)
Section Local.
  Variable V : Type.
  Variable leb : V -> V -> bool.
  Variable dflt : V.
  Variable P : params.
  Variable lockf : bool.
  Variable pivot : V.
  Variable jump : N.
  Variable e : N -> N.

  Hypothesis e_left : forall k, lstep P jump (e k) = e (k + 1).
  Hypothesis e_right : forall k, rstep P jump (e (k + 1)) = Some (e k).
  Hypothesis e_first : rstep P jump (e 0) = None.
  Hypothesis e_step : forall k, e k < e (k + 1).
  Hypothesis e_zero : e 0 = 0.

  Variable g : targs.
  Variable ymax : N.
  Hypothesis g_jump_eq : g_jump g = jump.
  Hypothesis g_len_eq : g_len g = e ymax + 1.
  Let b := g_b g.

  Notation aget := (aget V dflt).
  Notation aset := (aset V).
  Notation thr := (thr V).
  Notation astep := (astep V leb dflt P lockf pivot g).
  Notation qentry := (qentry lockf).

  Let eltb := e_ltb e e_step e_zero.
  Let eleb := e_leb e e_step e_zero.

  (* the slice: the global indices the thread owns *)
  Definition Fp (j : N) : Prop := exists k, k <= ymax /\ j = b + e k.

  Lemma Fp_intro : forall k, k <= ymax -> Fp (b + e k).
  Proof. intros k H. exists k. split; [exact H|reflexivity]. Qed.

  (* index invariant of a thread configuration: both walls are slice positions inside the slice *)
  Definition Walls (c : thr) (ordered : bool) : Prop :=
    exists x y, t_lw c = e x /\ t_rw c = e y /\ y <= ymax /\ (if ordered then x <= y else x <= ymax).
  Definition InvT (c : thr) : Prop :=
    match t_pc c with
    | PA | PA2 | PB | PB2 | PS0 | PS1 | PS2 | PS3 | PL | PL2 => Walls c true
    | PR | PR2 => Walls c false
    | _ => True
    end.

  Lemma InvT_init : InvT (tinit V dflt g).
  Proof.
    unfold InvT, tinit. cbn [t_pc]. exists 0, ymax. cbn [t_lw t_rw]. rewrite g_len_eq, e_zero.
    split; [reflexivity|]. split; [lia|]. split; lia.
  Qed.

  Lemma qentry_not_array : array_pc qentry = false.
  Proof. unfold PartInterleave.qentry. destruct lockf; reflexivity. Qed.

  Lemma InvT_qentry : forall c, t_pc c = qentry -> InvT c.
  Proof. intros c H. unfold InvT. rewrite H. unfold PartInterleave.qentry. destruct lockf; exact I. Qed.

  (* every access of a configuration that satisfies the invariant is inside the slice *)
  Lemma access_in_slice : forall c j, InvT c -> access_of V g c = Some j -> Fp j.
  Proof.
    intros c j HI HA. unfold access_of in HA. unfold InvT in HI. fold b in HA.
    destruct (t_pc c); try discriminate; destruct HI as [x [y [Hx [Hy [H1 H2]]]]]; injection HA as <-;
      rewrite ?Hx, ?Hy; apply Fp_intro; lia.
  Qed.

  Ltac walls_of H x y Hx Hy H1 H2 := destruct H as [x [y [Hx [Hy [H1 H2]]]]].
  Ltac mk_walls x y := exists x, y; cbn [t_lw t_rw setpc setwalls sett1 sett2]; repeat split; try assumption; try lia.

  (* the step is local to the slice *)
  Lemma astep_local : forall c a1 a2, InvT c -> AgreeOn V Fp a1 a2 ->
    fst (astep c a1) = fst (astep c a2) /\
    AgreeOn V Fp (snd (astep c a1)) (snd (astep c a2)) /\
    Outside V Fp a1 (snd (astep c a1)) /\ Outside V Fp a2 (snd (astep c a2)) /\
    InvT (fst (astep c a1)).
  Proof.
    intros c a1 a2 HI HA. unfold InvT in HI. unfold PartInterleave.astep. fold b. rewrite g_jump_eq.
    destruct (t_pc c) eqn:Hpc; cbn [fst snd];
      try (split; [reflexivity|]; split; [exact HA|]; split; [apply Outside_refl|]; split; [apply Outside_refl|];
           unfold InvT; rewrite Hpc; exact I).
    - (* PA *) walls_of HI x y Hx Hy H1 H2. rewrite Hx.
      rewrite (AgreeOn_aget V dflt Fp a1 a2 (b + e x) HA) by (apply Fp_intro; lia).
      split; [reflexivity|]. split; [exact HA|]. split; [apply Outside_refl|]. split; [apply Outside_refl|].
      unfold InvT. destruct (leb (aget a2 (b + e x)) pivot); cbn [t_pc setpc]; mk_walls x y.
    - (* PA2 *) walls_of HI x y Hx Hy H1 H2. rewrite Hx, Hy, e_left, eltb.
      split; [reflexivity|]. split; [exact HA|]. split; [apply Outside_refl|]. split; [apply Outside_refl|].
      destruct (N.ltb_spec y (x + 1)); [apply InvT_qentry; reflexivity|].
      unfold InvT. cbn [t_pc setwalls]. mk_walls (x + 1) y.
    - (* PB *) walls_of HI x y Hx Hy H1 H2. rewrite Hy.
      rewrite (AgreeOn_aget V dflt Fp a1 a2 (b + e y) HA) by (apply Fp_intro; lia).
      split; [reflexivity|]. split; [exact HA|]. split; [apply Outside_refl|]. split; [apply Outside_refl|].
      unfold InvT. destruct (gtb V leb (aget a2 (b + e y)) pivot); cbn [t_pc setpc]; mk_walls x y.
    - (* PB2 *) walls_of HI x y Hx Hy H1 H2. rewrite Hx, Hy.
      destruct (N.eq_dec y 0) as [->|Hy0].
      + rewrite e_first. cbn [fst snd].
        split; [reflexivity|]. split; [exact HA|]. split; [apply Outside_refl|]. split; [apply Outside_refl|].
        apply InvT_qentry. reflexivity.
      + pose proof (e_right (y - 1)) as Er. replace (y - 1 + 1) with y in Er by lia. rewrite Er. cbn [fst snd]. rewrite eltb.
        split; [reflexivity|]. split; [exact HA|]. split; [apply Outside_refl|]. split; [apply Outside_refl|].
        destruct (N.ltb_spec (y - 1) x); [apply InvT_qentry; reflexivity|].
        unfold InvT. cbn [t_pc setwalls]. mk_walls x (y - 1).
    - (* PS0 *) walls_of HI x y Hx Hy H1 H2. rewrite Hx.
      rewrite (AgreeOn_aget V dflt Fp a1 a2 (b + e x) HA) by (apply Fp_intro; lia).
      split; [reflexivity|]. split; [exact HA|]. split; [apply Outside_refl|]. split; [apply Outside_refl|].
      unfold InvT. cbn [t_pc sett1]. mk_walls x y.
    - (* PS1 *) walls_of HI x y Hx Hy H1 H2. rewrite Hy.
      rewrite (AgreeOn_aget V dflt Fp a1 a2 (b + e y) HA) by (apply Fp_intro; lia).
      split; [reflexivity|]. split; [exact HA|]. split; [apply Outside_refl|]. split; [apply Outside_refl|].
      unfold InvT. cbn [t_pc sett2]. mk_walls x y.
    - (* PS2 *) walls_of HI x y Hx Hy H1 H2. rewrite Hx.
      split; [reflexivity|]. split; [apply AgreeOn_aset; exact HA|].
      split; [apply Outside_aset; apply Fp_intro; lia|]. split; [apply Outside_aset; apply Fp_intro; lia|].
      unfold InvT. cbn [t_pc setpc]. mk_walls x y.
    - (* PS3 *) walls_of HI x y Hx Hy H1 H2. rewrite Hy.
      split; [reflexivity|]. split; [apply AgreeOn_aset; exact HA|].
      split; [apply Outside_aset; apply Fp_intro; lia|]. split; [apply Outside_aset; apply Fp_intro; lia|].
      unfold InvT. cbn [t_pc setpc]. mk_walls x y.
    - (* PL *) walls_of HI x y Hx Hy H1 H2. rewrite Hx, Hy, e_left, eltb.
      split; [reflexivity|]. split; [exact HA|]. split; [apply Outside_refl|]. split; [apply Outside_refl|].
      destruct (N.ltb_spec y (x + 1)); [apply InvT_qentry; reflexivity|].
      unfold InvT. cbn [t_pc setwalls]. mk_walls (x + 1) y.
    - (* PL2 *) walls_of HI x y Hx Hy H1 H2. rewrite Hx, Hy.
      rewrite (AgreeOn_aget V dflt Fp a1 a2 (b + e x) HA) by (apply Fp_intro; lia).
      split; [reflexivity|]. split; [exact HA|]. split; [apply Outside_refl|]. split; [apply Outside_refl|].
      destruct (leb (aget a2 (b + e x)) pivot).
      + unfold InvT. cbn [t_pc setpc]. mk_walls x y.
      + rewrite eleb. destruct (N.leb_spec y x); [apply InvT_qentry; reflexivity|].
        unfold InvT. cbn [t_pc setpc]. mk_walls x y.
    - (* PR *) walls_of HI x y Hx Hy H1 H2. rewrite Hy.
      destruct (N.eq_dec y 0) as [->|Hy0].
      + rewrite e_first. cbn [fst snd].
        split; [reflexivity|]. split; [exact HA|]. split; [apply Outside_refl|]. split; [apply Outside_refl|].
        apply InvT_qentry. reflexivity.
      + pose proof (e_right (y - 1)) as Er. replace (y - 1 + 1) with y in Er by lia. rewrite Er. cbn [fst snd].
        split; [reflexivity|]. split; [exact HA|]. split; [apply Outside_refl|]. split; [apply Outside_refl|].
        unfold InvT. cbn [t_pc setwalls]. mk_walls x (y - 1).
    - (* PR2 *) walls_of HI x y Hx Hy H1 H2. rewrite Hx, Hy.
      rewrite (AgreeOn_aget V dflt Fp a1 a2 (b + e y) HA) by (apply Fp_intro; lia).
      split; [reflexivity|]. split; [exact HA|]. split; [apply Outside_refl|]. split; [apply Outside_refl|].
      destruct (gtb V leb (aget a2 (b + e y)) pivot).
      + unfold InvT. cbn [t_pc setpc]. mk_walls x y.
      + rewrite eleb. destruct (N.leb_spec y x); [apply InvT_qentry; reflexivity|].
        unfold InvT. cbn [t_pc setpc]. mk_walls x y.
  Qed.

  (* ------------------------------------------------------------------ the solo run *)
  Fixpoint iter (n : nat) (c : thr) (a : arr V) : thr * arr V :=
    match n with
    | O => (c, a)
    | S n' => let (c', a') := astep c a in iter n' c' a'
    end.

  Lemma iter_add : forall n m c a, iter (n + m) c a = iter m (fst (iter n c a)) (snd (iter n c a)).
  Proof.
    induction n as [|n IH]; intros m c a; [reflexivity|].
    cbn [Nat.add iter]. destruct (astep c a) as [c' a']. apply IH.
  Qed.

  Lemma iter_snoc : forall n c a, iter (S n) c a = astep (fst (iter n c a)) (snd (iter n c a)).
  Proof.
    intros n c a. replace (S n) with (n + 1)%nat by lia. rewrite iter_add. cbn [iter].
    destruct (astep (fst (iter n c a)) (snd (iter n c a))); reflexivity.
  Qed.

  Lemma iter_local : forall n c a1 a2, InvT c -> AgreeOn V Fp a1 a2 ->
    fst (iter n c a1) = fst (iter n c a2) /\
    AgreeOn V Fp (snd (iter n c a1)) (snd (iter n c a2)) /\
    Outside V Fp a1 (snd (iter n c a1)) /\ Outside V Fp a2 (snd (iter n c a2)) /\
    InvT (fst (iter n c a1)).
  Proof.
    induction n as [|n IH]; intros c a1 a2 HI HA.
    - cbn [iter fst snd]. split; [reflexivity|]. split; [exact HA|]. split; [apply Outside_refl|]. split; [apply Outside_refl|exact HI].
    - cbn [iter]. destruct (astep_local c a1 a2 HI HA) as [E1 [A1 [O1 [O2 I1]]]].
      destruct (astep c a1) as [c1 b1]. destruct (astep c a2) as [c2 b2]. cbn [fst snd] in *. subst c2.
      destruct (IH c1 b1 b2 I1 A1) as [E2 [A2 [O3 [O4 I2]]]].
      split; [exact E2|]. split; [exact A2|]. split; [eapply Outside_trans; eauto|]. split; [eapply Outside_trans; eauto|exact I2].
  Qed.

  (* quickexit is absorbing for the array steps *)
  Lemma astep_stutter : forall c a, array_pc (t_pc c) = false -> astep c a = (c, a).
  Proof. intros c a H. unfold PartInterleave.astep. destruct (t_pc c); try discriminate; reflexivity. Qed.

  Lemma iter_stutter : forall n c a, array_pc (t_pc c) = false -> iter n c a = (c, a).
  Proof. induction n as [|n IH]; intros c a H; [reflexivity|]. cbn [iter]. rewrite astep_stutter by exact H. apply IH. exact H. Qed.

  Lemma iter_final_unique : forall n m c a,
    array_pc (t_pc (fst (iter n c a))) = false -> array_pc (t_pc (fst (iter m c a))) = false -> iter n c a = iter m c a.
  Proof.
    assert (G : forall n m c a, (n <= m)%nat -> array_pc (t_pc (fst (iter n c a))) = false -> iter m c a = iter n c a).
    { intros n m c a Hle Hn. replace m with (n + (m - n))%nat by lia. rewrite iter_add.
      rewrite iter_stutter by exact Hn. destruct (iter n c a); reflexivity. }
    intros n m c a Hn Hm. destruct (Nat.le_ge_cases n m) as [L|L].
    - symmetry. apply G; assumption.
    - apply G; assumption.
  Qed.

  (* ------------------------------------------------------------------ bridge to the functional model Sort.part_thread *)
  Notation St c p lw rw := (t_pc c = p /\ t_lw c = lw /\ t_rw c = rw).

  Lemma astep_PA : forall c a, t_pc c = PA ->
    astep c a = (setpc V c (if leb (aget a (b + t_lw c)) pivot then PA2 else PB), a).
  Proof. intros c a H. unfold PartInterleave.astep. rewrite H. reflexivity. Qed.

  Lemma bridge_loopA : forall fuel c a lw rw r, St c PA lw rw ->
    loopA V leb dflt P fuel a b jump pivot lw rw = Some r ->
    exists n c', iter n c a = (c', a) /\ St c' (if snd r then qentry else PB) (fst r) rw.
  Proof.
    induction fuel as [|f IH]; intros c a lw rw r [Hp [Hl Hr]] E; [discriminate|].
    cbn [loopA] in E.
    destruct (leb (aget a (b + lw)) pivot) eqn:C.
    - set (lw' := lstep P jump lw) in *.
      set (c1 := setpc V c PA2).
      set (c2 := setwalls V c1 (if rw <? lw' then qentry else PA) lw' rw).
      assert (S2 : iter 2 c a = (c2, a)).
      { cbn [iter]. unfold PartInterleave.astep at 1. rewrite Hp, Hl. fold b. rewrite C.
        unfold PartInterleave.astep at 1. cbn [t_pc setpc t_lw t_rw]. rewrite Hl, Hr, g_jump_eq. reflexivity. }
      destruct (rw <? lw') eqn:Q.
      + injection E as <-. exists 2%nat, c2. split; [exact S2|]. cbn [snd fst]. unfold c2. cbn. auto.
      + destruct (IH c2 a lw' rw r) as [n [c' [En S']]]; [unfold c2; cbn; auto|exact E|].
        exists (2 + n)%nat, c'. split; [|exact S']. rewrite iter_add, S2. exact En.
    - injection E as <-. exists 1%nat, (setpc V c PB). split.
      + cbn [iter]. unfold PartInterleave.astep. rewrite Hp, Hl. fold b. rewrite C. reflexivity.
      + cbn. auto.
  Qed.

  Lemma bridge_loopB : forall fuel c a lw rw r, St c PB lw rw ->
    loopB V leb dflt P fuel a b jump pivot lw rw = Some r ->
    exists n c', iter n c a = (c', a) /\ St c' (if snd r then qentry else PS0) lw (fst r).
  Proof.
    induction fuel as [|f IH]; intros c a lw rw r [Hp [Hl Hr]] E; [discriminate|].
    cbn [loopB] in E.
    destruct (gtb V leb (aget a (b + rw)) pivot) eqn:C.
    - set (c1 := setpc V c PB2).
      assert (S1 : iter 1 c a = (c1, a)).
      { cbn [iter]. unfold PartInterleave.astep. rewrite Hp, Hr. fold b. rewrite C. reflexivity. }
      destruct (rstep P jump rw) as [rw'|] eqn:R.
      + set (c2 := setwalls V c1 (if rw' <? lw then qentry else PB) lw rw').
        assert (S2 : iter 2 c a = (c2, a)).
        { replace 2%nat with (1 + 1)%nat by reflexivity. rewrite iter_add, S1. cbn [fst snd iter].
          unfold PartInterleave.astep. cbn [t_pc setpc c1 t_lw t_rw]. rewrite Hl, Hr, g_jump_eq, R. reflexivity. }
        destruct (rw' <? lw) eqn:Q.
        * injection E as <-. exists 2%nat, c2. split; [exact S2|]. unfold c2. cbn. auto.
        * destruct (IH c2 a lw rw' r) as [n [c' [En S']]]; [unfold c2; cbn; auto|exact E|].
          exists (2 + n)%nat, c'. split; [|exact S']. rewrite iter_add, S2. exact En.
      + injection E as <-. exists 2%nat, (setpc V c1 qentry). split.
        * replace 2%nat with (1 + 1)%nat by reflexivity. rewrite iter_add, S1. cbn [fst snd iter].
          unfold PartInterleave.astep. cbn [t_pc setpc c1 t_lw t_rw]. rewrite Hr, g_jump_eq, R. reflexivity.
        * cbn. auto.
    - injection E as <-. exists 1%nat, (setpc V c PS0). split.
      + cbn [iter]. unfold PartInterleave.astep. rewrite Hp, Hr. fold b. rewrite C. reflexivity.
      + cbn. auto.
  Qed.

  Lemma bridge_swap : forall c a lw rw, St c PS0 lw rw ->
    exists c', iter 4 c a = (c', aswap V dflt a (b + lw) (b + rw)) /\ St c' PL lw rw.
  Proof.
    intros c a lw rw [Hp [Hl Hr]].
    eexists. split.
    - cbn [iter]. unfold PartInterleave.astep at 1. rewrite Hp.
      unfold PartInterleave.astep at 1. cbn [t_pc sett1].
      unfold PartInterleave.astep at 1. cbn [t_pc sett2].
      unfold PartInterleave.astep at 1. cbn [t_pc setpc sett1 sett2 t_lw t_rw t_t1 t_t2].
      fold b. rewrite Hl, Hr. unfold aswap. reflexivity.
    - cbn. auto.
  Qed.

  Lemma bridge_doL : forall fuel c a lw rw r, St c PL lw rw ->
    doL V leb dflt P fuel a b jump pivot lw rw = Some r ->
    exists n c', iter n c a = (c', a) /\
                 St c' (if snd r then qentry else if rw <=? fst r then qentry else PR) (fst r) rw.
  Proof.
    induction fuel as [|f IH]; intros c a lw rw r [Hp [Hl Hr]] E; [discriminate|].
    cbn [doL] in E. set (lw' := lstep P jump lw) in *.
    set (c1 := setwalls V c (if rw <? lw' then qentry else PL2) lw' rw).
    assert (S1 : iter 1 c a = (c1, a)).
    { cbn [iter]. unfold PartInterleave.astep. rewrite Hp, Hl, Hr, g_jump_eq. reflexivity. }
    destruct (rw <? lw') eqn:Q.
    - injection E as <-. exists 1%nat, c1. split; [exact S1|]. unfold c1. cbn. auto.
    - destruct (leb (aget a (b + lw')) pivot) eqn:C.
      + set (c2 := setpc V c1 PL).
        assert (S2 : iter 2 c a = (c2, a)).
        { replace 2%nat with (1 + 1)%nat by reflexivity. rewrite iter_add, S1. cbn [fst snd iter].
          unfold PartInterleave.astep. cbn [t_pc setwalls c1 t_lw t_rw]. fold b. rewrite C. reflexivity. }
        destruct (IH c2 a lw' rw r) as [n [c' [En S']]]; [unfold c2, c1; cbn; auto|exact E|].
        exists (2 + n)%nat, c'. split; [|exact S']. rewrite iter_add, S2. exact En.
      + injection E as <-. cbn [fst snd].
        exists 2%nat, (setpc V c1 (if rw <=? lw' then qentry else PR)). split.
        * replace 2%nat with (1 + 1)%nat by reflexivity. rewrite iter_add, S1. cbn [fst snd iter].
          unfold PartInterleave.astep. cbn [t_pc setwalls c1 t_lw t_rw]. fold b. rewrite C. reflexivity.
        * unfold c1. cbn. auto.
  Qed.

  Lemma bridge_doR : forall fuel c a lw rw r, St c PR lw rw ->
    doR V leb dflt P fuel a b jump pivot rw = Some r ->
    exists n c', iter n c a = (c', a) /\
                 St c' (if snd r then qentry else if fst r <=? lw then qentry else PS0) lw (fst r).
  Proof.
    induction fuel as [|f IH]; intros c a lw rw r [Hp [Hl Hr]] E; [discriminate|].
    cbn [doR] in E.
    destruct (rstep P jump rw) as [rw'|] eqn:R.
    - set (c1 := setwalls V c PR2 lw rw').
      assert (S1 : iter 1 c a = (c1, a)).
      { cbn [iter]. unfold PartInterleave.astep. rewrite Hp, Hl, Hr, g_jump_eq, R. reflexivity. }
      destruct (gtb V leb (aget a (b + rw')) pivot) eqn:C.
      + set (c2 := setpc V c1 PR).
        assert (S2 : iter 2 c a = (c2, a)).
        { replace 2%nat with (1 + 1)%nat by reflexivity. rewrite iter_add, S1. cbn [fst snd iter].
          unfold PartInterleave.astep. cbn [t_pc setwalls c1 t_lw t_rw]. fold b. rewrite C. reflexivity. }
        destruct (IH c2 a lw rw' r) as [n [c' [En S']]]; [unfold c2, c1; cbn; auto|exact E|].
        exists (2 + n)%nat, c'. split; [|exact S']. rewrite iter_add, S2. exact En.
      + injection E as <-. cbn [fst snd].
        exists 2%nat, (setpc V c1 (if rw' <=? lw then qentry else PS0)). split.
        * replace 2%nat with (1 + 1)%nat by reflexivity. rewrite iter_add, S1. cbn [fst snd iter].
          unfold PartInterleave.astep. cbn [t_pc setwalls c1 t_lw t_rw]. fold b. rewrite C. reflexivity.
        * unfold c1. cbn. auto.
    - injection E as <-. cbn [fst snd]. exists 1%nat, (setpc V c qentry). split.
      + cbn [iter]. unfold PartInterleave.astep. rewrite Hp, Hr, g_jump_eq, R. reflexivity.
      + cbn. auto.
  Qed.

  Variable bound : N.

  Lemma aswap_c_inv : forall a i j a', aswap_c V dflt bound a i j = Some a' -> a' = aswap V dflt a i j.
  Proof. intros a i j a' H. unfold aswap_c in H. destruct ((i <? bound) && (j <? bound)); [injection H as <-; reflexivity|discriminate]. Qed.

  Lemma bridge_pmain : forall fuel c a lw rw a' lw' rw', St c PL lw rw ->
    pmain V leb dflt bound P fuel a b jump pivot lw rw = Some (a', lw', rw') ->
    exists n c', iter n c a = (c', a') /\ St c' qentry lw' rw'.
  Proof.
    induction fuel as [|f IH]; intros c a lw rw a' lw' rw' HS E; [discriminate|].
    change (pmain V leb dflt bound P (S f) a b jump pivot lw rw) with
      (match doL V leb dflt P (S f) a b jump pivot lw rw with
       | None => None
       | Some (l1, true) => Some (a, l1, rw)
       | Some (l1, false) =>
         if rw <=? l1 then Some (a, l1, rw)
         else match doR V leb dflt P (S f) a b jump pivot rw with
              | None => None
              | Some (r1, true) => Some (a, l1, r1)
              | Some (r1, false) =>
                if r1 <=? l1 then Some (a, l1, r1)
                else match aswap_c V dflt bound a (b + l1) (b + r1) with
                     | None => None
                     | Some a0 => pmain V leb dflt bound P f a0 b jump pivot l1 r1
                     end
              end
       end) in E.
    destruct (doL V leb dflt P (S f) a b jump pivot lw rw) as [[l1 q1]|] eqn:EL; [|discriminate].
    destruct (bridge_doL (S f) c a lw rw (l1, q1) HS EL) as [n1 [c1 [I1 S1]]]. cbn [fst snd] in S1.
    destruct q1.
    - injection E as <- <- <-. exists n1, c1. split; [exact I1|exact S1].
    - destruct (rw <=? l1) eqn:Q1.
      + injection E as <- <- <-. exists n1, c1. split; [exact I1|exact S1].
      + destruct (doR V leb dflt P (S f) a b jump pivot rw) as [[r1 q2]|] eqn:ER; [|discriminate].
        destruct (bridge_doR (S f) c1 a l1 rw (r1, q2) S1 ER) as [n2 [c2 [I2 S2]]]. cbn [fst snd] in S2.
        assert (I12 : iter (n1 + n2) c a = (c2, a)) by (rewrite iter_add, I1; exact I2).
        destruct q2.
        * injection E as <- <- <-. exists (n1 + n2)%nat, c2. split; [exact I12|exact S2].
        * destruct (r1 <=? l1) eqn:Q2.
          -- injection E as <- <- <-. exists (n1 + n2)%nat, c2. split; [exact I12|exact S2].
          -- destruct (aswap_c V dflt bound a (b + l1) (b + r1)) as [a0|] eqn:ES; [|discriminate].
             apply aswap_c_inv in ES. subst a0.
             destruct (bridge_swap c2 a l1 r1 S2) as [c3 [I3 S3]].
             destruct (IH c3 _ l1 r1 a' lw' rw' S3 E) as [n4 [c4 [I4 S4]]].
             exists (n1 + n2 + 4 + n4)%nat, c4. split; [|exact S4].
             rewrite iter_add. replace (n1 + n2 + 4)%nat with ((n1 + n2) + 4)%nat by lia.
             rewrite iter_add, I12. cbn [fst snd]. rewrite I3. exact I4.
  Qed.

  Theorem bridge_thread : forall a a' lw rw,
    part_thread V leb dflt bound P a b (g_len g) jump pivot = Some (a', lw, rw) ->
    exists n c', iter n (tinit V dflt g) a = (c', a') /\ St c' qentry lw rw.
  Proof.
    intros a a' lw rw E. unfold part_thread in E.
    set (fuel := S (S (N.to_nat (g_len g)))) in *.
    set (c0 := tinit V dflt g).
    assert (S0 : St c0 PA 0 (g_len g - 1)) by (unfold c0, tinit; cbn; auto).
    destruct (loopA V leb dflt P fuel a b jump pivot 0 (g_len g - 1)) as [[l1 q1]|] eqn:EA; [|discriminate].
    destruct (bridge_loopA fuel c0 a 0 (g_len g - 1) (l1, q1) S0 EA) as [n1 [c1 [I1 S1]]]. cbn [fst snd] in S1.
    destruct q1.
    - injection E as <- <- <-. exists n1, c1. split; [exact I1|exact S1].
    - destruct (loopB V leb dflt P fuel a b jump pivot l1 (g_len g - 1)) as [[r1 q2]|] eqn:EB; [|discriminate].
      destruct (bridge_loopB fuel c1 a l1 (g_len g - 1) (r1, q2) S1 EB) as [n2 [c2 [I2 S2]]]. cbn [fst snd] in S2.
      assert (I12 : iter (n1 + n2) c0 a = (c2, a)) by (rewrite iter_add, I1; exact I2).
      destruct q2.
      + injection E as <- <- <-. exists (n1 + n2)%nat, c2. split; [exact I12|exact S2].
      + destruct (aswap_c V dflt bound a (b + l1) (b + r1)) as [a0|] eqn:ES; [|discriminate].
        apply aswap_c_inv in ES. subst a0.
        destruct (bridge_swap c2 a l1 r1 S2) as [c3 [I3 S3]].
        destruct (bridge_pmain fuel c3 _ l1 r1 a' lw rw S3 E) as [n4 [c4 [I4 S4]]].
        exists (n1 + n2 + 4 + n4)%nat, c4. split; [|exact S4].
        rewrite iter_add. replace (n1 + n2 + 4)%nat with ((n1 + n2) + 4)%nat by lia.
        rewrite iter_add, I12. cbn [fst snd]. rewrite I3. exact I4.
  Qed.
End Local.
