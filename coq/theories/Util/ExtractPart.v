From Coq Require Import List NArith.
From QV Require Import Util.Sort Util.PartInterleave.
Require Extraction.
Require Import ExtrOcamlBasic.
Extraction Language OCaml.
Extraction "../ocaml/gen/c13part_model.ml"
  aget aset of_list partitioner pass_targs ginit step run partitioner_sched access_of array_pc hook_pc
  s_a s_w s_thr s_par t_pc t_lw t_rw w_fl w_fr w_lock w_rets p_i p_res g_b g_len g_jump g_off.
