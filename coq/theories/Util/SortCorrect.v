(* C13 -- total correctness of the quicksort model (Sort.v, current code): every call returns a sorted
   permutation.  Fully proved: tri-median, sequential fix-up, pivot-is-maximum rule, recursion.  The strided
   parallel partition enters through the named hypothesis `strided_partition_post` (discharged when the
   partition loop is not entered). *)
From Coq Require Import List NArith Bool Lia Permutation FMapPositive ZArith.
From QV Require Import Util.Sort Util.SortProofs.
Import ListNotations.
Local Open Scope N_scope.

Section SortCorrect.
  Variable V : Type.
  Variable leb : V -> V -> bool.
  Variable dflt : V.
  Variable bound : N.
  Variable base_sort : arr V -> N -> N -> arr V.
  Variable P : params.

  Hypothesis leb_total : forall x y, leb x y = false -> leb y x = true.
  Hypothesis leb_trans : forall x y z, leb x y = true -> leb y z = true -> leb x z = true.

  Notation aget := (aget V dflt).
  Notation aswap := (aswap V dflt).
  Notation aswap_c := (aswap_c V dflt bound).

  Lemma leb_refl : forall x, leb x x = true.
  Proof. intros x. destruct (leb x x) eqn:E; [reflexivity|]. pose proof (leb_total x x E). congruence. Qed.

  (* ------------------------------------------------------------------ swaps *)
  Lemma aget_aswap_other : forall a x y k, k <> x -> k <> y -> aget (aswap a x y) k = aget a k.
  Proof.
    intros. rewrite (aget_aswap V dflt). unfold transp.
    destruct (N.eqb_spec k x); [contradiction|]. destruct (N.eqb_spec k y); [contradiction|]. reflexivity.
  Qed.
  Lemma aget_aswap_l : forall a x y, aget (aswap a x y) x = aget a y.
  Proof. intros. rewrite (aget_aswap V dflt). unfold transp. rewrite N.eqb_refl. reflexivity. Qed.
  Lemma aget_aswap_r : forall a x y, aget (aswap a x y) y = aget a x.
  Proof.
    intros. rewrite (aget_aswap V dflt). unfold transp.
    destruct (N.eqb_spec y x) as [->|_]; [reflexivity|]. rewrite N.eqb_refl. reflexivity.
  Qed.

  Lemma aswap_c_some : forall a x y, x < bound -> y < bound -> aswap_c a x y = Some (aswap a x y).
  Proof.
    intros a x y Hx Hy. unfold Sort.aswap_c.
    destruct (N.ltb_spec x bound); [|lia]. destruct (N.ltb_spec y bound); [|lia]. reflexivity.
  Qed.

  (* ------------------------------------------------------------------ "same values in the segment, same outside" *)
  Definition VSub (a a' : arr V) (b len : N) : Prop :=
    forall i, i < len -> exists j, j < len /\ aget a' (b + i) = aget a (b + j).
  Definition SegRel (a a' : arr V) (b len : N) : Prop :=
    (forall k, k < b \/ b + len <= k -> aget a' k = aget a k) /\ VSub a a' b len /\ VSub a' a b len.

  Lemma SegRel_refl : forall a b len, SegRel a a b len.
  Proof. intros. split; [reflexivity|]. split; intros i Hi; exists i; auto. Qed.

  Lemma VSub_trans : forall a1 a2 a3 b len, VSub a1 a2 b len -> VSub a2 a3 b len -> VSub a1 a3 b len.
  Proof.
    intros a1 a2 a3 b len H12 H23 i Hi. destruct (H23 i Hi) as [j [Hj Ej]]. destruct (H12 j Hj) as [k [Hk Ek]].
    exists k. split; [exact Hk|congruence].
  Qed.

  Lemma SegRel_trans : forall a1 a2 a3 b len, SegRel a1 a2 b len -> SegRel a2 a3 b len -> SegRel a1 a3 b len.
  Proof.
    intros a1 a2 a3 b len [O1 [F1 B1]] [O2 [F2 B2]]. split; [|split].
    - intros k Hk. rewrite (O2 k Hk). apply O1. exact Hk.
    - eapply VSub_trans; eauto.
    - eapply VSub_trans; eauto.
  Qed.

  Lemma SegRel_swap : forall a b len x y, x < len -> y < len -> SegRel a (aswap a (b + x) (b + y)) b len.
  Proof.
    intros a b len x y Hx Hy. split; [|split].
    - intros k Hk. apply aget_aswap_other; lia.
    - intros i Hi. destruct (N.eq_dec i x) as [->|Nx].
      + exists y. split; [exact Hy|apply aget_aswap_l].
      + destruct (N.eq_dec i y) as [->|Ny].
        * exists x. split; [exact Hx|apply aget_aswap_r].
        * exists i. split; [exact Hi|apply aget_aswap_other; lia].
    - intros i Hi. destruct (N.eq_dec i x) as [->|Nx].
      + exists y. split; [exact Hy|symmetry; apply aget_aswap_r].
      + destruct (N.eq_dec i y) as [->|Ny].
        * exists x. split; [exact Hx|symmetry; apply aget_aswap_l].
        * exists i. split; [exact Hi|symmetry; apply aget_aswap_other; lia].
  Qed.

  Lemma VSub_widen : forall a a' b len b' len',
    (forall k, k < b' \/ b' + len' <= k -> aget a' k = aget a k) ->
    b <= b' -> b' + len' <= b + len -> VSub a a' b' len' -> VSub a a' b len.
  Proof.
    intros a a' b len b' len' Ho Hb He Hs i Hi.
    destruct (N.lt_ge_cases (b + i) b') as [Hlt|Hge].
    - exists i. split; [exact Hi|apply Ho; left; exact Hlt].
    - destruct (N.lt_ge_cases (b + i) (b' + len')) as [Hin|Hout].
      + destruct (Hs (b + i - b')) as [j [Hj Ej]]; [lia|].
        exists (b' + j - b). split; [lia|].
        replace (b + (b' + j - b)) with (b' + j) by lia.
        replace (b' + (b + i - b')) with (b + i) in Ej by lia. exact Ej.
      + exists i. split; [exact Hi|apply Ho; right; exact Hout].
  Qed.

  Lemma SegRel_widen : forall a a' b len b' len',
    b <= b' -> b' + len' <= b + len -> SegRel a a' b' len' -> SegRel a a' b len.
  Proof.
    intros a a' b len b' len' Hb He [O [F B]]. split; [|split].
    - intros k Hk. apply O. lia.
    - eapply VSub_widen; eauto.
    - eapply VSub_widen; eauto. intros k Hk. symmetry. apply O. exact Hk.
  Qed.

  (* ------------------------------------------------------------------ the walking loops of the fix-up *)
  Section Loops.
    Variable a : arr V.
    Variable b : N.
    Variable p : V.
    Let le (i : N) : Prop := leb (aget a (b + i)) p = true.
    Let gt (i : N) : Prop := leb (aget a (b + i)) p = false.

    Lemma fixA_spec : forall rw fuel lw, lw <= rw -> (N.to_nat (rw - lw) < fuel)%nat ->
      let l1 := fixA V leb dflt fuel a b p lw rw in
      lw <= l1 /\ l1 <= rw /\ (forall i, lw <= i -> i < l1 -> le i) /\ (l1 < rw -> gt l1).
    Proof.
      intros rw. induction fuel as [|f IH]; intros lw Hle Hf; [lia|]. simpl.
      destruct (N.ltb_spec lw rw) as [Hlt|Hge]; simpl.
      - destruct (leb (aget a (b + lw)) p) eqn:E.
        + destruct (IH (lw + 1)) as [H1 [H2 [H3 H4]]]; [lia|lia|].
          repeat split; try lia; try exact H4.
          intros i Hi1 Hi2. destruct (N.eq_dec i lw) as [->|Hne]; [exact E|]. apply H3; lia.
        + repeat split; try lia. intros _. exact E.
      - repeat split; try lia.
    Qed.

    Lemma fixA_ge : forall fuel lw rw, rw <= lw -> fixA V leb dflt fuel a b p lw rw = lw.
    Proof.
      intros [|f] lw rw H; simpl; [reflexivity|]. destruct (N.ltb_spec lw rw); [lia|reflexivity].
    Qed.

    Lemma fixB_spec : forall lw fuel rw, lw <= rw -> (N.to_nat (rw - lw) < fuel)%nat ->
      let r1 := fixB V leb dflt fuel a b p lw rw in
      lw <= r1 /\ r1 <= rw /\ (forall i, r1 < i -> i <= rw -> gt i) /\ (lw < r1 -> le r1).
    Proof.
      intros lw. induction fuel as [|f IH]; intros rw Hle Hf; [lia|]. simpl.
      destruct (N.ltb_spec lw rw) as [Hlt|Hge]; simpl.
      - unfold gtb. destruct (leb (aget a (b + rw)) p) eqn:E; simpl.
        + repeat split; try lia. intros _. exact E.
        + destruct (IH (rw - 1)) as [H1 [H2 [H3 H4]]]; [lia|lia|].
          repeat split; try lia; try exact H4.
          intros i Hi1 Hi2. destruct (N.eq_dec i rw) as [->|Hne]; [exact E|]. apply H3; lia.
      - repeat split; try lia.
    Qed.

    Lemma fixB_ge : forall fuel lw rw, rw <= lw -> fixB V leb dflt fuel a b p lw rw = rw.
    Proof.
      intros [|f] lw rw H; simpl; [reflexivity|]. destruct (N.ltb_spec lw rw); [lia|reflexivity].
    Qed.

    Lemma fixL_spec : forall rw fuel lw, (N.to_nat (rw - lw) < fuel)%nat ->
      let l' := fixL V leb dflt fuel a b p lw rw in
      lw < l' /\ (lw < rw -> l' <= rw) /\ (rw <= lw -> l' = lw + 1) /\
      (forall i, lw < i -> i < l' -> le i) /\ (l' < rw -> gt l').
    Proof.
      intros rw. induction fuel as [|f IH]; intros lw Hf; [lia|]. simpl.
      destruct (N.ltb_spec (lw + 1) rw) as [Hlt|Hge]; simpl.
      - destruct (leb (aget a (b + (lw + 1))) p) eqn:E.
        + destruct (IH (lw + 1)) as [H1 [H2 [H3 [H4 H5]]]]; [lia|].
          repeat split; try lia; try exact H5.
          intros i Hi1 Hi2. destruct (N.eq_dec i (lw + 1)) as [->|Hne]; [exact E|]. apply H4; lia.
        + repeat split; try lia. intros _. exact E.
      - repeat split; try lia.
    Qed.

    Lemma fixR_spec : forall lw fuel rw, 0 < rw -> (N.to_nat (rw - lw) < fuel)%nat ->
      exists r', fixR V leb dflt fuel a b p lw rw = Some r' /\ r' < rw /\ (r' = rw - 1 \/ lw <= r') /\
                 (forall i, r' < i -> i < rw -> gt i) /\ (lw < r' -> le r').
    Proof.
      intros lw. induction fuel as [|f IH]; intros rw Hpos Hf; [lia|]. simpl.
      destruct (N.eqb_spec rw 0) as [->|Hnz]; [lia|].
      destruct (N.ltb_spec lw (rw - 1)) as [Hlt|Hge]; simpl.
      - unfold gtb. destruct (leb (aget a (b + (rw - 1))) p) eqn:E; simpl.
        + exists (rw - 1). repeat split; try lia. intros _. exact E.
        + destruct (IH (rw - 1)) as [r' [E1 [H1 [H2 [H3 H4]]]]]; [lia|lia|].
          exists r'. repeat split; try lia; try exact E1; try exact H4.
          intros i Hi1 Hi2. destruct (N.eq_dec i (rw - 1)) as [->|Hne]; [exact E|]. apply H3; lia.
      - exists (rw - 1). repeat split; try lia.
    Qed.
  End Loops.

  (* ------------------------------------------------------------------ the fix-up is a complete partition *)
  Definition LE (a : arr V) (b : N) (p : V) (i : N) : Prop := leb (aget a (b + i)) p = true.
  Definition GT (a : arr V) (b : N) (p : V) (i : N) : Prop := leb (aget a (b + i)) p = false.

  Definition Kinv (a : arr V) (b : N) (p : V) (len lw rw : N) : Prop :=
    lw <= rw /\ rw < len /\ (forall i, i < lw -> LE a b p i) /\ (forall i, rw < i -> i < len -> GT a b p i) /\
    GT a b p rw /\ (lw < rw -> LE a b p lw).
  Definition Post2 (a : arr V) (b : N) (p : V) (len r : N) : Prop :=
    r < len /\ (forall i, i < r -> LE a b p i) /\ (forall i, r < i -> i < len -> GT a b p i).

  Lemma fixmain_spec : forall b p len, b + len <= bound ->
    forall fuel a lw rw, Kinv a b p len lw rw -> (N.to_nat (rw - lw) < fuel)%nat ->
    exists a' l r fl, fixmain V leb dflt bound fuel a b p lw rw = Some (a', l, r, fl) /\
                      SegRel a a' b len /\ Post2 a' b p len r.
  Proof.
    intros b p len Hb. induction fuel as [|f IH]; intros a lw rw [H1 [H2 [H3 [H4 [H5 H6]]]]] Hf; [lia|].
    change (fixmain V leb dflt bound (S f) a b p lw rw) with
      (let lw' := fixL V leb dflt (S f) a b p lw rw in
       if rw <? lw' then Some (a, lw', rw, true)
       else match fixR V leb dflt (S f) a b p lw' rw with
            | None => None
            | Some rw' =>
              if rw' <? lw' then Some (a, lw', rw', true)
              else match aswap_c a (b + lw') (b + rw') with
                   | None => None
                   | Some a0 => fixmain V leb dflt bound f a0 b p lw' rw'
                   end
            end).
    cbv zeta.
    destruct (fixL_spec a b p rw (S f) lw Hf) as [L1 [L2 [L3 [L4 L5]]]].
    set (l' := fixL V leb dflt (S f) a b p lw rw) in *.
    destruct (N.ltb_spec rw l') as [Hcross|Hle].
    - (* lw = rw *)
      assert (lw = rw) by (destruct (N.lt_ge_cases lw rw) as [X|X]; [specialize (L2 X); lia|lia]). subst lw.
      exists a, l', rw, true. split; [reflexivity|]. split; [apply SegRel_refl|].
      split; [exact H2|]. split; [exact H3|exact H4].
    - assert (Hlt : lw < rw) by (destruct (N.lt_ge_cases lw rw) as [X|X]; [exact X|specialize (L3 X); lia]).
      destruct (fixR_spec a b p l' (S f) rw) as [r' [E1 [R1 [R2 [R3 R4]]]]]; [lia|lia|].
      rewrite E1.
      destruct (N.ltb_spec r' l') as [Hx|Hy].
      + exists a, l', r', true. split; [reflexivity|]. split; [apply SegRel_refl|].
        assert (r' = rw - 1) by lia. assert (l' = rw) by lia.
        split; [lia|]. split.
        * intros i Hi. destruct (N.lt_ge_cases i lw) as [X|X]; [apply H3; exact X|].
          destruct (N.eq_dec i lw) as [->|Y]; [apply H6; exact Hlt|]. apply L4; lia.
        * intros i Hi1 Hi2. destruct (N.eq_dec i rw) as [->|Y]; [exact H5|]. apply H4; lia.
      + rewrite aswap_c_some by lia.
        assert (Hgl : GT a b p l') by (apply L5; lia).
        destruct (IH (aswap a (b + l') (b + r')) l' r') as [a' [l [r [fl [E [S1 S2]]]]]].
        * unfold Kinv, LE, GT. repeat split.
          -- exact Hy.
          -- lia.
          -- intros i Hi. rewrite aget_aswap_other by lia.
             destruct (N.lt_ge_cases i lw) as [X|X]; [apply H3; exact X|].
             destruct (N.eq_dec i lw) as [->|Y]; [apply H6; exact Hlt|]. apply L4; lia.
          -- intros i Hi1 Hi2. rewrite aget_aswap_other by lia.
             destruct (N.lt_ge_cases i rw) as [X|X]; [apply R3; lia|].
             destruct (N.eq_dec i rw) as [->|Y]; [exact H5|]. apply H4; lia.
          -- rewrite aget_aswap_r. exact Hgl.
          -- intros Hlr. rewrite aget_aswap_l. apply R4. exact Hlr.
        * lia.
        * exists a', l, r, fl. split; [exact E|]. split; [|exact S2].
          eapply SegRel_trans; [|exact S1]. apply SegRel_swap; lia.
  Qed.

  (* what the fix-up needs of the walls (they may have crossed; the left wall may point past the right one) *)
  Definition Iinv (a : arr V) (b : N) (p : V) (len lwall rwall : N) : Prop :=
    rwall < len /\ (forall i, i < lwall -> i <= rwall -> LE a b p i) /\ (forall i, rwall < i -> i < len -> GT a b p i).

  (* what a node needs from the partition: left of r everything is <= pivot, from r on everything is > pivot *)
  Definition Parted (a : arr V) (b : N) (p : V) (len r : N) : Prop :=
    r <= len /\ (forall i, i < r -> LE a b p i) /\ (forall i, r <= i -> i < len -> GT a b p i).

  Lemma adjust_parted : forall a b p len r0, Post2 a b p len r0 ->
    Parted a b p len (if leb (aget a (b + r0)) p then r0 + 1 else r0).
  Proof.
    intros a b p len r0 [H1 [H2 H3]]. destruct (leb (aget a (b + r0)) p) eqn:E.
    - split; [lia|]. split.
      + intros i Hi. destruct (N.eq_dec i r0) as [->|Y]; [exact E|]. apply H2; lia.
      + intros i Hi1 Hi2. apply H3; lia.
    - split; [lia|]. split; [exact H2|].
      intros i Hi1 Hi2. destruct (N.eq_dec i r0) as [->|Y]; [exact E|]. apply H3; lia.
  Qed.

  Lemma fixup_spec : forall a b len p lwall rwall, b + len <= bound -> Iinv a b p len lwall rwall ->
    exists a' r, fixup V leb dflt bound a b len p lwall rwall = Some (a', r) /\
                 SegRel a a' b len /\ Parted a' b p len r.
  Proof.
    intros a b len p lwall rwall Hb [I1 [I2 I3]]. unfold Sort.fixup.
    set (fuel := S (S (N.to_nat len))).
    destruct (N.lt_ge_cases rwall lwall) as [Hc|Hc].
    - rewrite fixA_ge by lia. rewrite fixB_ge by lia.
      destruct (N.ltb_spec lwall rwall); [lia|].
      exists a, (if leb (aget a (b + rwall)) p then rwall + 1 else rwall).
      split; [reflexivity|]. split; [apply SegRel_refl|]. apply adjust_parted.
      split; [exact I1|]. split; [|exact I3]. intros i Hi. apply I2; lia.
    - destruct (fixA_spec a b p rwall fuel lwall Hc) as [A1 [A2 [A3 A4]]]; [unfold fuel; lia|].
      set (l1 := fixA V leb dflt fuel a b p lwall rwall) in *.
      destruct (fixB_spec a b p l1 fuel rwall A2) as [B1 [B2 [B3 B4]]]; [unfold fuel; lia|].
      set (r1 := fixB V leb dflt fuel a b p l1 rwall) in *.
      assert (Hleft : forall i, i < l1 -> LE a b p i).
      { intros i Hi. destruct (N.lt_ge_cases i lwall) as [X|X]; [apply I2; lia|apply A3; lia]. }
      assert (Hright : forall i, r1 < i -> i < len -> GT a b p i).
      { intros i Hi1 Hi2. destruct (N.le_gt_cases i rwall) as [X|X]; [apply B3; lia|apply I3; lia]. }
      destruct (N.ltb_spec l1 r1) as [Hlr|Hrl].
      + rewrite aswap_c_some by lia.
        destruct (fixmain_spec b p len Hb fuel (aswap a (b + l1) (b + r1)) l1 r1) as [a' [l [r [fl [E [S1 S2]]]]]].
        * unfold Kinv, LE, GT. repeat split.
          -- lia.
          -- lia.
          -- intros i Hi. rewrite aget_aswap_other by lia. apply Hleft. exact Hi.
          -- intros i Hi1 Hi2. rewrite aget_aswap_other by lia. apply Hright; assumption.
          -- rewrite aget_aswap_r. apply A4. lia.
          -- intros _. rewrite aget_aswap_l. apply B4. exact Hlr.
        * unfold fuel. lia.
        * rewrite E. exists a', (if leb (aget a' (b + r)) p then r + 1 else r).
          split; [reflexivity|]. split.
          -- eapply SegRel_trans; [|exact S1]. apply SegRel_swap; lia.
          -- apply adjust_parted. exact S2.
      + assert (r1 = l1) by lia.
        exists a, (if leb (aget a (b + r1)) p then r1 + 1 else r1).
        split; [reflexivity|]. split; [apply SegRel_refl|]. apply adjust_parted.
        split; [lia|]. split; [|exact Hright]. intros i Hi. apply Hleft. lia.
  Qed.

  (* ------------------------------------------------------------------ the pivot-is-maximum rule *)
  Notation eqv := (eqv V leb).

  Lemma movepiv_spec : forall b p len, b + len <= bound ->
    forall fuel a l rw,
    l <= rw -> rw <= len -> (forall i, i < len -> LE a b p i) ->
    (forall i, i < l -> eqv (aget a (b + i)) p = false) ->
    (forall i, rw <= i -> i < len -> eqv (aget a (b + i)) p = true) ->
    (N.to_nat (rw - l) < fuel)%nat ->
    exists a' r', movepiv V leb dflt bound fuel a b p l rw = Some (a', r') /\ SegRel a a' b len /\ r' <= len /\
                  (forall i, i < len -> LE a' b p i) /\
                  (forall i, i < r' -> eqv (aget a' (b + i)) p = false) /\
                  (forall i, r' <= i -> i < len -> eqv (aget a' (b + i)) p = true).
  Proof.
    intros b p len Hb. induction fuel as [|f IH]; intros a l rw H1 H2 H3 H4 H5 Hf; [lia|]. simpl.
    destruct (N.ltb_spec l rw) as [Hlt|Hge].
    - destruct (eqv (aget a (b + l)) p) eqn:E.
      + rewrite aswap_c_some by lia.
        destruct (IH (aswap a (b + l) (b + (rw - 1))) l (rw - 1)) as [a' [r' [E1 [S1 [S2 [S3 [S4 S5]]]]]]]; try lia.
        * intros i Hi. unfold LE.
          destruct (N.eq_dec i l) as [->|Y]; [rewrite aget_aswap_l; apply H3; lia|].
          destruct (N.eq_dec i (rw - 1)) as [->|Z]; [rewrite aget_aswap_r; apply H3; lia|].
          rewrite aget_aswap_other by lia. apply H3. exact Hi.
        * intros i Hi. rewrite aget_aswap_other by lia. apply H4. exact Hi.
        * intros i Hi1 Hi2. destruct (N.eq_dec i (rw - 1)) as [->|Z]; [rewrite aget_aswap_r; exact E|].
          rewrite aget_aswap_other by lia. apply H5; lia.
        * exists a', r'. split; [exact E1|]. split; [|repeat split; assumption].
          eapply SegRel_trans; [|exact S1]. apply SegRel_swap; lia.
      + destruct (IH a (l + 1) rw) as [a' [r' [E1 S]]]; try lia; try assumption.
        * intros i Hi. destruct (N.eq_dec i l) as [->|Y]; [exact E|]. apply H4. lia.
        * exists a', r'. split; [exact E1|exact S].
    - assert (l = rw) by lia. subst l.
      exists a, rw. split; [reflexivity|]. split; [apply SegRel_refl|]. repeat split; assumption.
  Qed.

  (* ------------------------------------------------------------------ tri-median *)
  Lemma SegRel_swap_abs : forall a b len x y, b <= x -> x < b + len -> b <= y -> y < b + len ->
    SegRel a (aswap a x y) b len.
  Proof.
    intros a b len x y Hx1 Hx2 Hy1 Hy2.
    replace x with (b + (x - b)) by lia. replace y with (b + (y - b)) by lia. apply SegRel_swap; lia.
  Qed.

  Lemma cond_swap_spec : forall a b len (c : bool) x y, b + len <= bound ->
    b <= x -> x < b + len -> b <= y -> y < b + len ->
    exists a', (if c then aswap_c a x y else Some a) = Some a' /\ SegRel a a' b len.
  Proof.
    intros a b len c x y Hb Hx1 Hx2 Hy1 Hy2. destruct c.
    - rewrite aswap_c_some by lia. eexists. split; [reflexivity|]. apply SegRel_swap_abs; assumption.
    - exists a. split; [reflexivity|apply SegRel_refl].
  Qed.

  Lemma trimedian_spec : forall a b len, 0 < len -> b + len <= bound ->
    exists a1, trimedian V leb dflt bound a b len = Some a1 /\ SegRel a a1 b len.
  Proof.
    intros a b len Hl Hb. unfold Sort.trimedian.
    assert (Hm : len / 2 < len) by (apply N.div_lt; lia).
    set (m := len / 2) in *.
    assert (X1 : b <= b) by lia. assert (X2 : b < b + len) by lia.
    assert (X3 : b <= b + m) by lia. assert (X4 : b + m < b + len) by lia.
    assert (X5 : b <= b + len - 1) by lia. assert (X6 : b + len - 1 < b + len) by lia.
    destruct (cond_swap_spec a b len (gtb V leb (aget a b) (aget a (b + m))) b (b + m) Hb X1 X2 X3 X4)
      as [a1 [E1 S1]].
    rewrite E1.
    destruct (cond_swap_spec a1 b len (gtb V leb (aget a1 b) (aget a1 (b + len - 1))) b (b + len - 1) Hb X1 X2 X5 X6)
      as [a2 [E2 S2]].
    rewrite E2.
    destruct (cond_swap_spec a2 b len (gtb V leb (aget a2 (b + m)) (aget a2 (b + len - 1)))
                             (b + m) (b + len - 1) Hb X3 X4 X5 X6) as [a3 [E3 S3]].
    exists a3. split; [exact E3|]. eapply SegRel_trans; [exact S1|]. eapply SegRel_trans; [exact S2|exact S3].
  Qed.

  (* ------------------------------------------------------------------ one node *)
  (* NAMED HYPOTHESIS (the part that is not proved): the strided parallel partition loop, started on the whole
     segment, returns, has only rearranged the segment, and leaves walls such that everything left of the left wall
     is <= pivot and everything right of the right wall is > pivot.  L bounds the segment lengths it is asked for. *)
  Definition strided_partition_post (L : N) : Prop :=
    forall a b len p, 0 < len -> len <= L -> b + len <= bound -> p_small P len = false ->
      exists a2 lw rw,
        walls V leb dflt bound P true (S (N.to_nat len)) a b (p_thresh P len) p 0 (len - 1) = Some (a2, lw, rw) /\
        SegRel a a2 b len /\ Iinv a2 b p len lw rw.

  (* it holds outright for every segment on which the loop is not entered (gap <= threshold) *)
  Lemma partition_post_not_entered : forall L,
    (forall l, 0 < l -> l <= L -> l - 1 <= p_thresh P l) -> strided_partition_post L.
  Proof.
    intros L H a b len p Hl HL Hb _. exists a, 0, (len - 1).
    split; [|split; [apply SegRel_refl|]].
    - simpl. rewrite N.sub_0_r.
      destruct (N.ltb_spec (p_thresh P len) (len - 1)) as [X|X]; [specialize (H len Hl HL); lia|].
      rewrite andb_false_r. reflexivity.
    - split; [lia|]. split; intros; lia.
  Qed.

  (* NAMED HYPOTHESIS, one level down: ONE pass of the strided partitioner on a sub-array of length <= L returns, only
     rearranges that sub-array, and its walls (l, r) have everything below l (up to r) <= pivot, everything above r > pivot *)
  (* the pass is only ever run on sub-arrays that hold at least one chunk per thread *)
  Definition PassWF (l : N) : Prop :=
    0 < p_chunk P /\ 0 < p_nthreads P l /\ p_chunk P * p_nthreads P l <= l.
  (* parameter well-formedness: above the cutoff, every gap that exceeds the threshold is such a sub-array *)
  Definition ParamsWF (L : N) : Prop :=
    forall len l, 0 < len -> len <= L -> p_small P len = false -> p_thresh P len + 1 < l -> l <= len -> PassWF l.

  Definition strided_pass_post (L : N) : Prop :=
    forall a b' len' p, 0 < len' -> len' <= L -> b' + len' <= bound -> PassWF len' ->
      exists a2 l r, partitioner V leb dflt bound P a b' len' p = Some (a2, l, r) /\
                     SegRel a a2 b' len' /\ r < len' /\
                     (forall i, i < l -> i <= r -> LE a2 b' p i) /\ (forall i, r < i -> i < len' -> GT a2 b' p i).

  (* the partition LOOP (with its no-progress exit) is proved from the single pass: invariant Iinv, measure = the gap *)
  Lemma walls_spec : forall L b len p thresh, strided_pass_post L -> len <= L -> b + len <= bound ->
    (forall l, thresh + 1 < l -> l <= len -> PassWF l) ->
    forall wfuel a lw rw, Iinv a b p len lw rw -> (N.to_nat (rw - lw) < wfuel)%nat ->
    exists a2 lw2 rw2, walls V leb dflt bound P true wfuel a b thresh p lw rw = Some (a2, lw2, rw2) /\
                       SegRel a a2 b len /\ Iinv a2 b p len lw2 rw2.
  Proof.
    intros L b len p thresh Hpass HL Hb Hwf. induction wfuel as [|f IH]; intros a lw rw [I1 [I2 I3]] Hf; [lia|].
    simpl.
    destruct (N.ltb_spec lw rw) as [Hlt|Hge]; simpl;
      [|exists a, lw, rw; split; [reflexivity|split; [apply SegRel_refl|repeat split; assumption]]].
    destruct (N.ltb_spec thresh (rw - lw)) as [Hth|Hth]; simpl;
      [|exists a, lw, rw; split; [reflexivity|split; [apply SegRel_refl|repeat split; assumption]]].
    destruct (Hpass a (b + lw) (rw - lw + 1) p) as [a0 [l0 [r0 [E0 [S0 [R0 [F1 F2]]]]]]]; [lia|lia|lia|apply Hwf; lia|].
    rewrite E0.
    assert (S0' : SegRel a a0 b len) by (eapply SegRel_widen; [| |exact S0]; lia).
    assert (Inv0 : Iinv a0 b p len (l0 + lw) (r0 + lw)).
    { destruct S0 as [O0 _]. split; [lia|]. split.
      - intros i Hi1 Hi2. destruct (N.lt_ge_cases i lw) as [X|X].
        + unfold LE. rewrite O0 by (left; lia). apply I2; lia.
        + specialize (F1 (i - lw)). unfold LE in *. replace (b + lw + (i - lw)) with (b + i) in F1 by lia. apply F1; lia.
      - intros i Hi1 Hi2. destruct (N.lt_ge_cases rw i) as [X|X].
        + unfold GT. rewrite O0 by (right; lia). apply I3; lia.
        + specialize (F2 (i - lw)). unfold GT in *. replace (b + lw + (i - lw)) with (b + i) in F2 by lia. apply F2; lia. }
    destruct (N.leb_spec (r0 + lw) (l0 + lw)) as [Hx|Hx]; simpl;
      [exists a0, (l0 + lw), (r0 + lw); split; [reflexivity|split; assumption]|].
    destruct (N.leb_spec (rw - lw) (r0 + lw - (l0 + lw))) as [Hy|Hy]; simpl;
      [exists a0, (l0 + lw), (r0 + lw); split; [reflexivity|split; assumption]|].
    destruct (IH a0 (l0 + lw) (r0 + lw) Inv0) as [a2 [lw2 [rw2 [E2 [S2 I2']]]]]; [lia|].
    exists a2, lw2, rw2. split; [exact E2|]. split; [|exact I2']. eapply SegRel_trans; [exact S0'|exact S2].
  Qed.

  Lemma pass_to_partition : forall L, ParamsWF L -> strided_pass_post L -> strided_partition_post L.
  Proof.
    intros L Hwf Hpass a b len p Hl HL Hb Hs.
    apply (walls_spec L b len p (p_thresh P len) Hpass HL Hb (fun l H1 H2 => Hwf len l Hl HL Hs H1 H2)
                      (S (N.to_nat len)) a 0 (len - 1)); [|lia].
    split; [lia|]. split; intros; lia.
  Qed.

  Definition NodePost (a' : arr V) (b len rw : N) (pd : bool) : Prop :=
    rw < len /\ (pd = false -> 0 < rw) /\
    exists p, (forall i, i < rw -> LE a' b p i) /\
              (pd = false -> forall i, rw <= i -> i < len -> GT a' b p i) /\
              (pd = true -> forall i, rw <= i -> i < len -> eqv (aget a' (b + i)) p = true).

  Lemma node_spec : forall L wfuel a b len, strided_partition_post L ->
    0 < len -> len <= L -> b + len <= bound -> p_small P len = false ->
    exists a' rw pd, qsort_node V leb dflt bound P true true wfuel a b len = Some (a', rw, pd) /\
                     SegRel a a' b len /\ NodePost a' b len rw pd.
  Proof.
    intros L wfuel a b len Hpart Hl HL Hb Hs. unfold Sort.qsort_node.
    destruct (trimedian_spec a b len Hl Hb) as [a1 [E1 S1]]. rewrite E1.
    set (p := aget a1 (b + len / 2)).
    destruct (Hpart a1 b len p Hl HL Hb Hs) as [a2 [lw [rw [E2 [S2 I2]]]]]. rewrite E2.
    destruct (fixup_spec a2 b len p lw rw Hb I2) as [a3 [r [E3 [S3 [P1 [P2 P3]]]]]]. rewrite E3.
    assert (Hm : len / 2 < len) by (apply N.div_lt; lia).
    assert (S13 : SegRel a1 a3 b len) by (eapply SegRel_trans; eauto).
    simpl andb.
    destruct (N.eqb_spec r len) as [->|Hne].
    - destruct (movepiv_spec b p len Hb (S (S (N.to_nat len))) a3 0 len) as [a4 [r' [E4 [S4 [M1 [M2 [M3 M4]]]]]]];
        try lia; try assumption.
      rewrite E4. exists a4, r', true. split; [reflexivity|]. split.
        * eapply SegRel_trans; [exact S1|]. eapply SegRel_trans; [exact S2|]. eapply SegRel_trans; [exact S3|exact S4].
        * assert (S14 : SegRel a1 a4 b len) by (eapply SegRel_trans; eauto).
          destruct S14 as [_ [_ B14]]. destruct (B14 (len / 2) Hm) as [i0 [Hi0 Ei0]].
          split.
          -- destruct (N.lt_ge_cases r' len) as [X|X]; [exact X|]. exfalso.
             assert (Hc : eqv (aget a4 (b + i0)) p = false) by (apply M3; lia).
             rewrite <- Ei0 in Hc. fold p in Hc. unfold Sort.eqv in Hc. rewrite leb_refl in Hc. discriminate.
          -- split; [discriminate|]. exists p. split; [|split].
             ++ intros i Hi. apply M2. lia.
             ++ discriminate.
             ++ intros _ i Hi1 Hi2. apply M4; assumption.
    - exists a3, r, false. split; [reflexivity|]. split.
      + eapply SegRel_trans; [exact S1|]. eapply SegRel_trans; [exact S2|exact S3].
      + destruct S13 as [_ [_ B13]]. destruct (B13 (len / 2) Hm) as [i0 [Hi0 Ei0]].
        split; [lia|]. split.
        * intros _. destruct (N.lt_ge_cases i0 r) as [X|X]; [lia|]. exfalso.
          specialize (P3 i0 X Hi0). unfold GT in P3. rewrite <- Ei0 in P3. fold p in P3. rewrite leb_refl in P3. discriminate.
        * exists p. split; [exact P2|]. split; [intros _; exact P3|discriminate].
  Qed.

  (* ------------------------------------------------------------------ the recursion *)
  Definition SortedSeg (a : arr V) (b len : N) : Prop :=
    forall i j, i <= j -> j < len -> leb (aget a (b + i)) (aget a (b + j)) = true.

  (* the sort used below the cutoff (libc qsort, drf_qsort_dbl/_algt): returns its segment sorted, rearranged only *)
  Hypothesis base_sort_ok : forall a b len, b + len <= bound ->
    SegRel a (base_sort a b len) b len /\ SortedSeg (base_sort a b len) b len.

  Lemma le_gt_leb : forall x y p, leb x p = true -> leb y p = false -> leb x y = true.
  Proof.
    intros x y p H1 H2. destruct (leb x y) eqn:E; [reflexivity|].
    pose proof (leb_total x y E) as H3. pose proof (leb_trans y x p H3 H1). congruence.
  Qed.

  Notation qsort_inner_gen := (qsort_inner_gen V leb dflt bound base_sort P).

  Theorem qsort_total : forall L wfuel, strided_partition_post L ->
    forall fuel a b len, 0 < len -> len <= L -> b + len <= bound -> (N.to_nat len < fuel)%nat ->
    exists a', qsort_inner_gen true true fuel wfuel a b len = Some a' /\
               SegRel a a' b len /\ SortedSeg a' b len.
  Proof.
    intros L wfuel Hpart. induction fuel as [|f IH]; intros a b len Hl HL Hb Hf; [lia|].
    simpl. destruct (p_small P len) eqn:Es.
    - destruct (N.leb_spec (b + len) bound); [|lia].
      eexists. split; [reflexivity|]. apply base_sort_ok. exact Hb.
    - destruct (node_spec L wfuel a b len Hpart Hl HL Hb Es) as [a3 [rw [pd [En [S3 [N1 [N2 [p [N3 [N4 N5]]]]]]]]]].
      rewrite En.
      (* the left call *)
      assert (Left : exists a4, (if 0 <? rw then qsort_inner_gen true true f wfuel a3 b rw else Some a3) = Some a4 /\
                                SegRel a3 a4 b rw /\ SortedSeg a4 b rw).
      { destruct (N.ltb_spec 0 rw) as [X|X].
        - apply IH; lia.
        - exists a3. split; [reflexivity|]. split; [apply SegRel_refl|]. intros i j Hij Hj. lia. }
      destruct Left as [a4 [E4 [S4 Sorted4]]]. rewrite E4.
      assert (LE4 : forall i, i < rw -> LE a4 b p i).
      { intros i Hi. destruct S4 as [_ [F4 _]]. destruct (F4 i Hi) as [j [Hj Ej]]. unfold LE. rewrite Ej. apply N3. exact Hj. }
      assert (Same4 : forall i, rw <= i -> aget a4 (b + i) = aget a3 (b + i)).
      { intros i Hi. destruct S4 as [O4 _]. apply O4. right. lia. }
      destruct pd.
      + (* pivots_done: [rw, len) holds only pivots, no right call *)
        simpl. exists a4. split; [reflexivity|]. split.
        * eapply SegRel_trans; [exact S3|]. eapply SegRel_widen; [| |exact S4]; lia.
        * specialize (N5 eq_refl).
          assert (EQ4 : forall i, rw <= i -> i < len -> leb (aget a4 (b + i)) p = true /\ leb p (aget a4 (b + i)) = true).
          { intros i Hi1 Hi2. rewrite Same4 by exact Hi1. specialize (N5 i Hi1 Hi2). unfold Sort.eqv in N5.
            apply andb_true_iff in N5. exact N5. }
          intros i j Hij Hj.
          destruct (N.lt_ge_cases j rw) as [Xj|Xj]; [apply Sorted4; assumption|].
          destruct (EQ4 j Xj Hj) as [_ Hpj].
          destruct (N.lt_ge_cases i rw) as [Xi|Xi].
          -- eapply leb_trans; [apply LE4; exact Xi|exact Hpj].
          -- destruct (EQ4 i Xi) as [Hip _]; [lia|]. eapply leb_trans; [exact Hip|exact Hpj].
      + (* the right call *)
        specialize (N2 eq_refl). specialize (N4 eq_refl).
        destruct (N.ltb_spec 0 (len - rw)) as [X|X]; [|lia].
        destruct (N.ltb_spec rw len) as [Y|Y]; [|lia]. simpl.
        destruct (IH a4 (b + rw) (len - rw)) as [a5 [E5 [S5 Sorted5]]]; try lia.
        rewrite E5. exists a5. split; [reflexivity|]. split.
        * eapply SegRel_trans; [exact S3|]. eapply SegRel_trans.
          -- eapply SegRel_widen; [| |exact S4]; lia.
          -- eapply SegRel_widen; [| |exact S5]; lia.
        * assert (LE5 : forall i, i < rw -> aget a5 (b + i) = aget a4 (b + i)).
          { intros i Hi. destruct S5 as [O5 _]. apply O5. left. lia. }
          assert (GT5 : forall i, rw <= i -> i < len -> GT a5 b p i).
          { intros i Hi1 Hi2. destruct S5 as [_ [F5 _]]. destruct (F5 (i - rw)) as [j [Hj Ej]]; [lia|].
            unfold GT. replace (b + i) with (b + rw + (i - rw)) by lia. rewrite Ej.
            replace (b + rw + j) with (b + (rw + j)) by lia. rewrite Same4 by lia. apply N4; lia. }
          intros i j Hij Hj.
          destruct (N.lt_ge_cases j rw) as [Xj|Xj].
          -- rewrite !LE5 by lia. apply Sorted4; assumption.
          -- destruct (N.lt_ge_cases i rw) as [Xi|Xi].
             ++ eapply le_gt_leb; [rewrite LE5 by exact Xi; apply LE4; exact Xi|apply GT5; assumption].
             ++ replace (b + i) with (b + rw + (i - rw)) by lia. replace (b + j) with (b + rw + (j - rw)) by lia.
                apply Sorted5; lia.
  Qed.

  Hypothesis base_sort_perm : forall a b len, b + len <= bound ->
    Permutation (to_list V dflt a bound) (to_list V dflt (base_sort a b len) bound).

  (* qsort_returns_sorted_permutation (`_partial`: the strided parallel partition is the named hypothesis):
     the current code, called on a whole array of any length 1..L that fits the allocation, with fuel = length + 1,
     RETURNS, the result is a permutation of the input, its first `len` elements are sorted, the rest is untouched *)
  Theorem qsort_returns_sorted_permutation_partial : forall L wfuel, strided_partition_post L ->
    forall a len, 0 < len -> len <= L -> len <= bound ->
    exists a', qsort_inner V leb dflt bound base_sort P (S (N.to_nat len)) wfuel a 0 len = Some a' /\
               Permutation (to_list V dflt a bound) (to_list V dflt a' bound) /\
               SortedSeg a' 0 len /\ (forall k, len <= k -> aget a' k = aget a k).
  Proof.
    intros L wfuel Hpart a len Hl HL Hb. unfold Sort.qsort_inner.
    destruct (qsort_total L wfuel Hpart (S (N.to_nat len)) a 0 len Hl HL) as [a' [E [S1 S2]]]; [lia|lia|].
    exists a'. split; [exact E|]. split; [|split; [exact S2|]].
    - exact (qsort_permutation V leb dflt bound base_sort P base_sort_perm true true _ _ _ _ _ _ E).
    - intros k Hk. destruct S1 as [O _]. apply O. right. lia.
  Qed.

  (* hypothesis-free whenever the partition loop is not entered on any segment of length <= L *)
  Corollary qsort_returns_sorted_permutation_seq : forall L wfuel,
    (forall l, 0 < l -> l <= L -> l - 1 <= p_thresh P l) ->
    forall a len, 0 < len -> len <= L -> len <= bound ->
    exists a', qsort_inner V leb dflt bound base_sort P (S (N.to_nat len)) wfuel a 0 len = Some a' /\
               Permutation (to_list V dflt a bound) (to_list V dflt a' bound) /\
               SortedSeg a' 0 len /\ (forall k, len <= k -> aget a' k = aget a k).
  Proof.
    intros L wfuel H. apply qsort_returns_sorted_permutation_partial. apply partition_post_not_entered. exact H.
  Qed.
End SortCorrect.

(* ---------------------------------------------------------------------- the instances *)
(* what is assumed of the comparison and of the sort used below the cutoff *)
Definition OrderOK (V : Type) (leb : V -> V -> bool) : Prop :=
  (forall x y, leb x y = false -> leb y x = true) /\
  (forall x y z, leb x y = true -> leb y z = true -> leb x z = true).
Definition BaseSortOK (V : Type) (leb : V -> V -> bool) (dflt : V) (bound : N) (bs : arr V -> N -> N -> arr V) : Prop :=
  (forall a b len, b + len <= bound ->
     SegRel V dflt a (bs a b len) b len /\ SortedSeg V leb dflt (bs a b len) b len) /\
  (forall a b len, b + len <= bound ->
     Permutation (to_list V dflt a bound) (to_list V dflt (bs a b len) bound)).

(* qutil_qsort / qutil_aligned_qsort (any cache line, any MT_LOOP_CHUNK): every array of up to 2*MT_LOOP_CHUNK+1
   elements (20001) -- hypothesis-free, the parallel partition loop is not entered there *)
Theorem qutil_qsort_sorted_permutation_upto_2chunks :
  forall (V : Type) (leb : V -> V -> bool) (dflt : V) (bound : N) bs cacheline loop_chunk wfuel,
  OrderOK V leb -> BaseSortOK V leb dflt bound bs ->
  forall a len, 0 < len -> len <= 2 * loop_chunk + 1 -> len <= bound ->
  exists a', qsort_inner V leb dflt bound bs (qutil_params cacheline loop_chunk) (S (N.to_nat len)) wfuel a 0 len = Some a' /\
             Permutation (to_list V dflt a bound) (to_list V dflt a' bound) /\
             SortedSeg V leb dflt a' 0 len /\ (forall k, len <= k -> aget V dflt a' k = aget V dflt a k).
Proof.
  intros V leb dflt bound bs cl lc wfuel [T1 T2] [B1 B2].
  apply (qsort_returns_sorted_permutation_seq V leb dflt bound bs (qutil_params cl lc) T1 T2 B1 B2 (2 * lc + 1) wfuel).
  intros l Hl HL. change (p_thresh (qutil_params cl lc) l) with (2 * lc). lia.
Qed.

(* qt_qsort on two shepherds: every length (the gap never exceeds 2*(len/2)); on one shepherd every call is the
   cutoff sort *)
Theorem qt_qsort_sorted_permutation_2sheps :
  forall (V : Type) (leb : V -> V -> bool) (dflt : V) (bound : N) bs wfuel,
  OrderOK V leb -> BaseSortOK V leb dflt bound bs ->
  forall a len, 0 < len -> len <= bound ->
  exists a', qsort_inner V leb dflt bound bs (qt_params 2) (S (N.to_nat len)) wfuel a 0 len = Some a' /\
             Permutation (to_list V dflt a bound) (to_list V dflt a' bound) /\
             SortedSeg V leb dflt a' 0 len /\ (forall k, len <= k -> aget V dflt a' k = aget V dflt a k).
Proof.
  intros V leb dflt bound bs wfuel [T1 T2] [B1 B2] a len Hl Hb.
  apply (qsort_returns_sorted_permutation_seq V leb dflt bound bs (qt_params 2) T1 T2 B1 B2 len wfuel); try lia.
  intros l H0 HL. change (p_thresh (qt_params 2) l) with (2 * (l / 2)).
  pose proof (N.div_mod l 2) as D. pose proof (N.mod_lt l 2) as M. lia.
Qed.

(* the general statement for the three instances, any length: under the named hypothesis on the strided partition *)
Theorem qsort_returns_sorted_permutation_partial_inst :
  forall (V : Type) (leb : V -> V -> bool) (dflt : V) (bound : N) bs (P : params) L wfuel,
  OrderOK V leb -> BaseSortOK V leb dflt bound bs ->
  strided_partition_post V leb dflt bound P L ->
  forall a len, 0 < len -> len <= L -> len <= bound ->
  exists a', qsort_inner V leb dflt bound bs P (S (N.to_nat len)) wfuel a 0 len = Some a' /\
             Permutation (to_list V dflt a bound) (to_list V dflt a' bound) /\
             SortedSeg V leb dflt a' 0 len /\ (forall k, len <= k -> aget V dflt a' k = aget V dflt a k).
Proof.
  intros V leb dflt bound bs P L wfuel [T1 T2] [B1 B2].
  apply (qsort_returns_sorted_permutation_partial V leb dflt bound bs P T1 T2 B1 B2).
Qed.

(* non-vacuity: integers with <=, the cutoff sort of the examples is replaced by a real one on a small instance *)
Example orderok_Z : OrderOK Z Z.leb.
Proof.
  split.
  - intros x y H. apply Z.leb_le. apply Z.leb_gt in H. lia.
  - intros x y z H1 H2. apply Z.leb_le. apply Z.leb_le in H1. apply Z.leb_le in H2. lia.
Qed.

(* the hypotheses on the cutoff sort are satisfiable (degenerate carrier: one value, any sort is the identity) *)
Example basesortok_unit : forall bound,
  OrderOK unit (fun _ _ => true) /\ BaseSortOK unit (fun _ _ => true) tt bound (fun a _ _ => a).
Proof.
  intros bound. split; [split; intros; reflexivity|]. split.
  - intros a b len _. split; [apply SegRel_refl|]. intros i j _ _. reflexivity.
  - intros a b len _. apply Permutation_refl.
Qed.

(* the same under the weaker named hypothesis: ONE strided partitioner pass is correct (the loop around it, with its
   no-progress exit, is proved: walls_spec) *)
Theorem qsort_returns_sorted_permutation_pass_inst :
  forall (V : Type) (leb : V -> V -> bool) (dflt : V) (bound : N) bs (P : params) L wfuel,
  OrderOK V leb -> BaseSortOK V leb dflt bound bs ->
  ParamsWF P L -> strided_pass_post V leb dflt bound P L ->
  forall a len, 0 < len -> len <= L -> len <= bound ->
  exists a', qsort_inner V leb dflt bound bs P (S (N.to_nat len)) wfuel a 0 len = Some a' /\
             Permutation (to_list V dflt a bound) (to_list V dflt a' bound) /\
             SortedSeg V leb dflt a' 0 len /\ (forall k, len <= k -> aget V dflt a' k = aget V dflt a k).
Proof.
  intros V leb dflt bound bs P L wfuel O B Hwf Hpass.
  apply (qsort_returns_sorted_permutation_partial_inst V leb dflt bound bs P L wfuel O B).
  apply pass_to_partition; assumption.
Qed.
