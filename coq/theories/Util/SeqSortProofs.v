(* C13 extension W -- the partition loop of drf_qsort_dbl / drf_qsort_algt (SeqSort.ploop).
   The loop moves a "hole": the pivot is kept in a variable, arr[L++] = arr[R] / arr[R--] = arr[L] duplicate an element
   into the hole, the final arr[L] = piv closes it.  The proofs speak about the array with the hole filled by the pivot
   (`aset a (b + L) piv`): every move of the hole is a SWAP of that array, so it stays a rearrangement of the segment. *)
From Coq Require Import List NArith Bool Lia Permutation FMapPositive ZArith.
From QV Require Import Util.Sort Util.SortProofs Util.SortCorrect Util.SeqSort.
Import ListNotations.
Local Open Scope N_scope.

Section SeqSortProofs.
  Variable V : Type.
  Variable leb : V -> V -> bool.
  Variable dflt : V.

  Notation arr := (arr V).
  Notation aget := (aget V dflt).
  Notation aset := (aset V).
  Notation aswap := (aswap V dflt).
  Notation to_list := (to_list V dflt).
  Notation SegRel := (SegRel V dflt).
  Notation scanR := (scanR V leb dflt).
  Notation scanL := (scanL V leb dflt).
  Notation pstep := (pstep V leb dflt).
  Notation ploop := (ploop V leb dflt).

  Lemma gss : forall a i v, aget (aset a i v) i = v.
  Proof. intros. apply aget_aset_same. Qed.
  Lemma gso : forall a i j v, i <> j -> aget (aset a i v) j = aget a j.
  Proof. intros. apply aget_aset_other. assumption. Qed.

  (* ------------------------------------------------------------------ extensional equality of array maps *)
  Definition Ext (a a' : arr) : Prop := forall k, aget a k = aget a' k.

  Lemma Ext_refl : forall a, Ext a a.
  Proof. intros a k. reflexivity. Qed.

  Lemma Ext_to_list : forall a a' n, Ext a a' -> to_list a n = to_list a' n.
  Proof. intros a a' n H. unfold Sort.to_list. apply map_ext. intros k. apply H. Qed.

  Lemma Ext_aset_self : forall a i, Ext (aset a i (aget a i)) a.
  Proof.
    intros a i k. destruct (N.eq_dec i k) as [->|Hne]; [apply gss|apply gso; assumption].
  Qed.

  (* moving the hole from x to y = swapping x and y in the array whose hole is filled *)
  Lemma hole_move : forall a x y p, x <> y ->
    Ext (aset (aset a x (aget a y)) y p) (aswap (aset a x p) x y).
  Proof.
    intros a x y p Hne k. rewrite (aget_aswap V dflt). unfold transp.
    destruct (N.eqb_spec k x) as [->|Hkx].
    - rewrite gso by congruence. rewrite gss. rewrite gso by congruence. reflexivity.
    - destruct (N.eqb_spec k y) as [->|Hky].
      + rewrite gss. rewrite gss. reflexivity.
      + rewrite gso by congruence. rewrite gso by congruence. rewrite gso by congruence. reflexivity.
  Qed.

  (* ------------------------------------------------------------------ "rearranged inside the segment [sb, sb+slen)":
     SegRel (same values in the segment, nothing changed outside) and a permutation of every prefix that holds the segment *)
  Definition PRel (a a' : arr) (sb slen : N) : Prop :=
    SegRel a a' sb slen /\ forall n, sb + slen <= n -> Permutation (to_list a n) (to_list a' n).

  Lemma PRel_refl : forall a sb slen, PRel a a sb slen.
  Proof. intros. split; [apply SegRel_refl|]. intros. apply Permutation_refl. Qed.

  Lemma PRel_trans : forall a1 a2 a3 sb slen, PRel a1 a2 sb slen -> PRel a2 a3 sb slen -> PRel a1 a3 sb slen.
  Proof.
    intros a1 a2 a3 sb slen [S1 P1] [S2 P2]. split; [eapply SegRel_trans; eauto|].
    intros n Hn. eapply Permutation_trans; [apply P1|apply P2]; exact Hn.
  Qed.

  Lemma SegRel_ext_r : forall a a' a'' sb slen, Ext a' a'' -> SegRel a a' sb slen -> SegRel a a'' sb slen.
  Proof.
    intros a a' a'' sb slen He [O [F B]]. split; [|split].
    - intros k Hk. rewrite <- He. apply O. exact Hk.
    - intros i Hi. destruct (F i Hi) as [j [Hj Ej]]. exists j. split; [exact Hj|]. rewrite <- He. exact Ej.
    - intros i Hi. destruct (B i Hi) as [j [Hj Ej]]. exists j. split; [exact Hj|]. rewrite <- He. exact Ej.
  Qed.

  Lemma SegRel_ext_l : forall a a0 a' sb slen, Ext a0 a -> SegRel a a' sb slen -> SegRel a0 a' sb slen.
  Proof.
    intros a a0 a' sb slen He [O [F B]]. split; [|split].
    - intros k Hk. rewrite He. apply O. exact Hk.
    - intros i Hi. destruct (F i Hi) as [j [Hj Ej]]. exists j. split; [exact Hj|]. rewrite He. exact Ej.
    - intros i Hi. destruct (B i Hi) as [j [Hj Ej]]. exists j. split; [exact Hj|]. rewrite He. exact Ej.
  Qed.

  Lemma PRel_ext_r : forall a a' a'' sb slen, Ext a' a'' -> PRel a a' sb slen -> PRel a a'' sb slen.
  Proof.
    intros a a' a'' sb slen He [S1 P1]. split; [eapply SegRel_ext_r; eauto|].
    intros n Hn. rewrite <- (Ext_to_list a' a'' n He). apply P1. exact Hn.
  Qed.

  Lemma PRel_ext_l : forall a a0 a' sb slen, Ext a0 a -> PRel a a' sb slen -> PRel a0 a' sb slen.
  Proof.
    intros a a0 a' sb slen He [S1 P1]. split; [eapply SegRel_ext_l; eauto|].
    intros n Hn. rewrite (Ext_to_list a0 a n He). apply P1. exact Hn.
  Qed.

  Lemma PRel_swap : forall a sb slen x y, sb <= x -> x < sb + slen -> sb <= y -> y < sb + slen ->
    PRel a (aswap a x y) sb slen.
  Proof.
    intros a sb slen x y H1 H2 H3 H4. split; [apply SegRel_swap_abs; assumption|].
    intros n Hn. apply aswap_perm; lia.
  Qed.

  Lemma PRel_widen : forall a a' sb slen sb' slen', sb <= sb' -> sb' + slen' <= sb + slen ->
    PRel a a' sb' slen' -> PRel a a' sb slen.
  Proof.
    intros a a' sb slen sb' slen' H1 H2 [S1 P1]. split; [eapply SegRel_widen; eauto|].
    intros n Hn. apply P1. lia.
  Qed.

  (* ------------------------------------------------------------------ the two scans: where they stop (no property of
     the comparison needed) *)
  Lemma scanR_range : forall fuel a b piv L R, L <= R -> L <= scanR fuel a b piv L R /\ scanR fuel a b piv L R <= R.
  Proof.
    induction fuel as [|f IH]; intros a b piv L R Hle; simpl; [lia|].
    destruct (leb piv (aget a (b + R))); simpl; [|lia].
    destruct (N.ltb_spec L R) as [Hlt|Hge]; [|lia].
    destruct (IH a b piv L (R - 1)) as [I1 I2]; lia.
  Qed.

  Lemma scanL_range : forall fuel a b piv L R, L <= R -> L <= scanL fuel a b piv L R /\ scanL fuel a b piv L R <= R.
  Proof.
    induction fuel as [|f IH]; intros a b piv L R Hle; simpl; [lia|].
    destruct (leb (aget a (b + L)) piv); simpl; [|lia].
    destruct (N.ltb_spec L R) as [Hlt|Hge]; [|lia].
    destruct (IH a b piv (L + 1) R) as [I1 I2]; lia.
  Qed.

  (* everything the right scan passed is >= piv; where it stops above L the element is not *)
  Lemma scanR_spec : forall fuel a b piv L R, L <= R -> (N.to_nat (R - L) < fuel)%nat ->
    (forall i, scanR fuel a b piv L R < i -> i <= R -> leb piv (aget a (b + i)) = true) /\
    (L < scanR fuel a b piv L R -> leb piv (aget a (b + scanR fuel a b piv L R)) = false).
  Proof.
    induction fuel as [|f IH]; intros a b piv L R Hle Hf; [lia|]. simpl.
    destruct (leb piv (aget a (b + R))) eqn:E; simpl.
    - destruct (N.ltb_spec L R) as [Hlt|Hge].
      + destruct (IH a b piv L (R - 1)) as [I1 I2]; [lia|lia|]. split; [|exact I2].
        intros i Hi HiR. destruct (N.eq_dec i R) as [->|Hne]; [exact E|]. apply I1; lia.
      + split; [intros; lia|intros; lia].
    - split; [intros; lia|]. intros _. exact E.
  Qed.

  Lemma scanL_spec : forall fuel a b piv L R, L <= R -> (N.to_nat (R - L) < fuel)%nat ->
    (forall i, L <= i -> i < scanL fuel a b piv L R -> leb (aget a (b + i)) piv = true) /\
    (scanL fuel a b piv L R < R -> leb (aget a (b + scanL fuel a b piv L R)) piv = false).
  Proof.
    induction fuel as [|f IH]; intros a b piv L R Hle Hf; [lia|]. simpl.
    destruct (leb (aget a (b + L)) piv) eqn:E; simpl.
    - destruct (N.ltb_spec L R) as [Hlt|Hge].
      + destruct (IH a b piv (L + 1) R) as [I1 I2]; [lia|lia|]. split; [|exact I2].
        intros i Hi HiR. destruct (N.eq_dec i L) as [->|Hne]; [exact E|]. apply I1; lia.
      + split; [intros; lia|intros; lia].
    - split; [intros; lia|]. intros _. exact E.
  Qed.

  (* ------------------------------------------------------------------ one turn of the partition loop *)
  (* the facts about one turn, with the scans named *)
  Lemma pstep_unfold : forall a b piv L R, L < R ->
    exists R1 a1 L1 L2 a2 R2,
      pstep a b piv L R = (a2, L2, R2) /\
      R1 = scanR (S (N.to_nat (R - L))) a b piv L R /\ L <= R1 /\ R1 <= R /\
      ((L < R1 /\ a1 = aset a (b + L) (aget a (b + R1)) /\ L1 = L + 1) \/ (R1 = L /\ a1 = a /\ L1 = L)) /\
      L2 = scanL (S (N.to_nat (R1 - L1))) a1 b piv L1 R1 /\ L1 <= L2 /\ L2 <= R1 /\
      ((L2 < R1 /\ a2 = aset a1 (b + R1) (aget a1 (b + L2)) /\ R2 = R1 - 1) \/ (L2 = R1 /\ a2 = a1 /\ R2 = R1)).
  Proof.
    intros a b piv L R Hlt. unfold SeqSort.pstep.
    set (R1 := scanR (S (N.to_nat (R - L))) a b piv L R).
    destruct (scanR_range (S (N.to_nat (R - L))) a b piv L R ltac:(lia)) as [Ra Rb]. fold R1 in Ra, Rb.
    destruct (N.ltb_spec L R1) as [H1|H1].
    - set (a1 := aset a (b + L) (aget a (b + R1))).
      set (L2 := scanL (S (N.to_nat (R1 - (L + 1)))) a1 b piv (L + 1) R1).
      destruct (scanL_range (S (N.to_nat (R1 - (L + 1)))) a1 b piv (L + 1) R1 ltac:(lia)) as [La Lb]. fold L2 in La, Lb.
      destruct (N.ltb_spec L2 R1) as [H2|H2].
      + exists R1, a1, (L + 1), L2, (aset a1 (b + R1) (aget a1 (b + L2))), (R1 - 1).
        repeat split; try lia; try reflexivity.
        * left. repeat split; try lia; reflexivity.
        * left. repeat split; try lia; reflexivity.
      + exists R1, a1, (L + 1), L2, a1, R1.
        repeat split; try lia; try reflexivity.
        * left. repeat split; try lia; reflexivity.
        * right. repeat split; try lia; reflexivity.
    - assert (E1 : R1 = L) by lia.
      set (L2 := scanL (S (N.to_nat (R1 - L))) a b piv L R1).
      destruct (scanL_range (S (N.to_nat (R1 - L))) a b piv L R1 ltac:(lia)) as [La Lb]. fold L2 in La, Lb.
      destruct (N.ltb_spec L2 R1) as [H2|H2]; [lia|].
      exists R1, a, L, L2, a, R1.
      repeat split; try lia; try reflexivity.
      * right. repeat split; try lia; reflexivity.
      * right. repeat split; try lia; reflexivity.
  Qed.

  (* the hole-filled array is only rearranged, the window [L, R] shrinks *)
  Lemma pstep_rel : forall a b piv L R a2 L2 R2, L < R -> pstep a b piv L R = (a2, L2, R2) ->
    L <= L2 /\ L2 <= R2 /\ R2 <= R /\ R2 - L2 < R - L /\
    PRel (aset a (b + L) piv) (aset a2 (b + L2) piv) (b + L) (R - L + 1).
  Proof.
    intros a b piv L R a2 L2 R2 Hlt Hs.
    destruct (pstep_unfold a b piv L R Hlt) as [R1 [a1 [L1 [L2' [a2' [R2' [Es [ER1 [Ra [Rb [C1 [EL2 [La [Lb C2]]]]]]]]]]]]]].
    rewrite Es in Hs. injection Hs as Q1 Q2 Q3. subst a2' L2' R2'.
    destruct C1 as [[H1 [Ea1 EL1]]|[H1 [Ea1 EL1]]].
    - (* the hole moves to R1 *)
      assert (S1 : PRel (aset a (b + L) piv) (aset a1 (b + R1) piv) (b + L) (R - L + 1)).
      { eapply PRel_ext_r; [|apply (PRel_swap _ (b + L) (R - L + 1) (b + L) (b + R1)); lia].
        intros k. symmetry. rewrite Ea1. apply hole_move. lia. }
      destruct C2 as [[H2 [Ea2 ER2]]|[H2 [Ea2 ER2]]].
      + (* and back to L2 *)
        split; [lia|]. split; [lia|]. split; [lia|]. split; [lia|].
        eapply PRel_trans; [exact S1|].
        eapply PRel_ext_r; [|apply (PRel_swap _ (b + L) (R - L + 1) (b + R1) (b + L2)); lia].
        intros k. symmetry. rewrite Ea2. apply hole_move. lia.
      + subst a2 R2. subst L2. split; [lia|]. split; [lia|]. split; [lia|]. split; [lia|]. exact S1.
    - (* the right scan came down to L: nothing moves *)
      destruct C2 as [[H2 [Ea2 ER2]]|[H2 [Ea2 ER2]]]; [lia|].
      subst a1 a2. assert (EL : L2 = L) by lia. rewrite EL in *. subst R2.
      split; [lia|]. split; [lia|]. split; [lia|]. split; [lia|]. apply PRel_refl.
  Qed.

  (* ------------------------------------------------------------------ the partition loop: result is a rearrangement of
     the hole-filled array, the final L lies in the window *)
  Lemma ploop_rel : forall fuel a b piv L R a' Lf, L <= R -> ploop fuel a b piv L R = Some (a', Lf) ->
    L <= Lf /\ Lf <= R /\ PRel (aset a (b + L) piv) (aset a' (b + Lf) piv) (b + L) (R - L + 1).
  Proof.
    induction fuel as [|f IH]; intros a b piv L R a' Lf Hle H; simpl in H; [discriminate|].
    destruct (N.ltb_spec L R) as [Hlt|Hge].
    - destruct (pstep a b piv L R) as [[a2 L2] R2] eqn:Es.
      destruct (pstep_rel a b piv L R a2 L2 R2 Hlt Es) as [A1 [A2 [A3 [A4 A5]]]].
      destruct (IH a2 b piv L2 R2 a' Lf A2 H) as [B1 [B2 B3]].
      split; [lia|]. split; [lia|].
      eapply PRel_trans; [exact A5|]. eapply PRel_widen; [| |exact B3]; lia.
    - inversion H; subst a' Lf. assert (L = R) by lia. subst R. split; [lia|]. split; [lia|]. apply PRel_refl.
  Qed.

  (* with enough fuel the loop returns *)
  Lemma ploop_some : forall fuel a b piv L R, L <= R -> (N.to_nat (R - L) < fuel)%nat ->
    exists a' Lf, ploop fuel a b piv L R = Some (a', Lf).
  Proof.
    induction fuel as [|f IH]; intros a b piv L R Hle Hf; [lia|]. simpl.
    destruct (N.ltb_spec L R) as [Hlt|Hge].
    - destruct (pstep a b piv L R) as [[a2 L2] R2] eqn:Es.
      destruct (pstep_rel a b piv L R a2 L2 R2 Hlt Es) as [A1 [A2 [A3 [A4 A5]]]].
      apply IH; lia.
    - eexists. eexists. reflexivity.
  Qed.

  (* ------------------------------------------------------------------ the partition property (needs a total,
     transitive comparison) *)
  Section Order.
    Hypothesis leb_total : forall x y, leb x y = false -> leb y x = true.

    (* a[B..L) <= piv ;  a(R..E) >= piv *)
    Definition LEp (a : arr) (b : N) (piv : V) (B L : N) : Prop :=
      forall i, B <= i -> i < L -> leb (aget a (b + i)) piv = true.
    Definition GEp (a : arr) (b : N) (piv : V) (R E : N) : Prop :=
      forall i, R < i -> i < E -> leb piv (aget a (b + i)) = true.

    Lemma pstep_order : forall a b piv B E L R a2 L2 R2, L < R -> B <= L -> R < E ->
      LEp a b piv B L -> GEp a b piv R E -> pstep a b piv L R = (a2, L2, R2) ->
      LEp a2 b piv B L2 /\ GEp a2 b piv R2 E.
    Proof.
      intros a b piv B E L R a2 L2 R2 Hlt HB HE Hle Hge Hs.
      destruct (pstep_unfold a b piv L R Hlt) as [R1 [a1 [L1 [L2' [a2' [R2' [Es [ER1 [Ra [Rb [C1 [EL2 [La [Lb C2]]]]]]]]]]]]]].
      rewrite Es in Hs. injection Hs as Q1 Q2 Q3. subst a2' L2' R2'.
      destruct (scanR_spec (S (N.to_nat (R - L))) a b piv L R ltac:(lia) ltac:(lia)) as [SR1 SR2].
      rewrite <- ER1 in SR1, SR2.
      destruct C1 as [[H1 [Ea1 EL1]]|[H1 [Ea1 EL1]]].
      - destruct (scanL_spec (S (N.to_nat (R1 - L1))) a1 b piv L1 R1 ltac:(lia) ltac:(lia)) as [SL1 SL2].
        rewrite <- EL2 in SL1, SL2.
        (* a1: below L as a, at L the element found by the right scan (< piv), elsewhere as a *)
        assert (G1 : forall k, k <> L -> aget a1 (b + k) = aget a (b + k)).
        { intros k Hk. rewrite Ea1. apply gso. lia. }
        assert (G1L : leb (aget a1 (b + L)) piv = true).
        { rewrite Ea1. rewrite gss. apply leb_total. apply SR2. exact H1. }
        assert (LE1 : forall i, B <= i -> i < L2 -> leb (aget a1 (b + i)) piv = true).
        { intros i Hi1 Hi2. destruct (N.lt_ge_cases i L) as [Hl|Hg].
          - rewrite G1 by lia. apply Hle; assumption.
          - destruct (N.eq_dec i L) as [->|Hne]; [exact G1L|]. apply SL1; lia. }
        assert (GE1 : forall i, R1 < i -> i < E -> leb piv (aget a1 (b + i)) = true).
        { intros i Hi1 Hi2. rewrite G1 by lia. destruct (N.le_gt_cases i R) as [Hl|Hg].
          - apply SR1; assumption.
          - apply Hge; assumption. }
        destruct C2 as [[H2 [Ea2 ER2]]|[H2 [Ea2 ER2]]].
        + split.
          * intros i Hi1 Hi2. rewrite Ea2. rewrite gso by lia. apply LE1; assumption.
          * intros i Hi1 Hi2. rewrite Ea2. destruct (N.eq_dec i R1) as [->|Hne].
            -- rewrite gss. apply leb_total. apply SL2. exact H2.
            -- rewrite gso by lia. apply GE1; lia.
        + subst a2 R2. split; [exact LE1|exact GE1].
      - destruct C2 as [[H2 [Ea2 ER2]]|[H2 [Ea2 ER2]]]; [lia|].
        subst a1 a2 R2. assert (EL : L2 = L) by lia. rewrite EL in *. split; [exact Hle|].
        intros i Hi1 Hi2. destruct (N.le_gt_cases i R) as [Hl|Hg].
        + apply SR1; lia.
        + apply Hge; assumption.
    Qed.

    Lemma ploop_order : forall fuel a b piv B E L R a' Lf, L <= R -> B <= L -> R < E ->
      LEp a b piv B L -> GEp a b piv R E -> ploop fuel a b piv L R = Some (a', Lf) ->
      LEp a' b piv B Lf /\ GEp a' b piv Lf E.
    Proof.
      induction fuel as [|f IH]; intros a b piv B E L R a' Lf Hle HB HE Hl Hg H; simpl in H; [discriminate|].
      destruct (N.ltb_spec L R) as [Hlt|Hge].
      - destruct (pstep a b piv L R) as [[a2 L2] R2] eqn:Es.
        destruct (pstep_rel a b piv L R a2 L2 R2 Hlt Es) as [A1 [A2 [A3 [A4 A5]]]].
        destruct (pstep_order a b piv B E L R a2 L2 R2 Hlt HB HE Hl Hg Es) as [O1 O2].
        apply (IH a2 b piv B E L2 R2 a' Lf); try assumption; lia.
      - inversion H; subst a' Lf. assert (L = R) by lia. subst R. split; assumption.
    Qed.
  End Order.
End SeqSortProofs.
