(* C13 -- qt_allpairs: every work unit is processed exactly once before all workers have left, for every
   schedule (micro-step model of Allpairs.v). *)
From Coq Require Import List NArith Bool Arith Lia Permutation.
From QV Require Import Util.Allpairs.
Import ListNotations.

(* ---------------------------------------------------------------------- list update *)
Lemma upd_length : forall (A : Type) (l : list A) i x, length (upd l i x) = length l.
Proof. induction l as [|y l IH]; intros [|i] x; simpl; auto. Qed.

Lemma upd_split : forall (A : Type) (l : list A) i x y, nth_error l i = Some y ->
  exists l1 l2, l = l1 ++ y :: l2 /\ upd l i x = l1 ++ x :: l2 /\ length l1 = i.
Proof.
  induction l as [|z l IH]; intros [|i] x y H; simpl in H; try discriminate.
  - inversion H; subst. exists [], l. repeat split.
  - destruct (IH i x y H) as [l1 [l2 [E1 [E2 E3]]]]. exists (z :: l1), l2. simpl. rewrite E2, E3. rewrite <- E1. repeat split.
Qed.

Lemma nth_error_upd_eq : forall (A : Type) (l : list A) i x, i < length l -> nth_error (upd l i x) i = Some x.
Proof. induction l as [|y l IH]; intros [|i] x H; simpl in *; try lia; auto. apply IH. lia. Qed.

Lemma nth_error_upd_neq : forall (A : Type) (l : list A) i j x, i <> j -> nth_error (upd l i x) j = nth_error l j.
Proof.
  induction l as [|y l IH]; intros [|i] [|j] x H; simpl; auto; try congruence.
Qed.

Lemma nth_upd_neq : forall (A : Type) (l : list A) i j x d, i <> j -> nth j (upd l i x) d = nth j l d.
Proof.
  induction l as [|y l IH]; intros [|i] [|j] x d H; simpl; auto; try congruence.
Qed.

Lemma nth_error_nth_q : forall (A : Type) (l : list A) i d, i < length l -> nth_error l i = Some (nth i l d).
Proof. induction l as [|y l IH]; intros [|i] d H; simpl in *; try lia; auto. apply IH. lia. Qed.

(* ---------------------------------------------------------------------- the invariant *)
Definition contrib (w : wstate) : list N := match w with WProc u => [u] | _ => [] end.
Definition inproc (ws : list wstate) : list N := flat_map contrib ws.
Definition content (s : apstate) : list N :=
  map snd (ap_gen s) ++ concat (ap_queues s) ++ inproc (ap_workers s) ++ ap_processed s.

Record Inv (units : list N) (s : apstate) : Prop := {
  inv_perm : Permutation units (content s);
  inv_flag : ap_flag s = true -> ap_gen s = [];
  inv_len : length (ap_queues s) = length (ap_workers s) /\ 0 < length (ap_workers s);
  inv_deq : forall w, nth_error (ap_workers s) w = Some (WDeq true) -> ap_flag s = true;
  inv_done : forall w, nth_error (ap_workers s) w = Some WDone -> ap_flag s = true /\ nth w (ap_queues s) [] = []
}.

Lemma inproc_upd : forall ws w x old, nth_error ws w = Some old ->
  exists r1 r2, inproc ws = r1 ++ contrib old ++ r2 /\ inproc (upd ws w x) = r1 ++ contrib x ++ r2.
Proof.
  intros ws w x old H. destruct (upd_split _ ws w x old H) as [l1 [l2 [E1 [E2 _]]]].
  exists (inproc l1), (inproc l2). unfold inproc. rewrite E2. rewrite E1 at 1.
  rewrite !flat_map_app. simpl. split; reflexivity.
Qed.

Lemma concat_upd : forall (qs : list (list N)) q newq, q < length qs ->
  exists r1 r2, concat qs = r1 ++ nth q qs [] ++ r2 /\ concat (upd qs q newq) = r1 ++ newq ++ r2.
Proof.
  intros qs q newq H.
  destruct (upd_split _ qs q newq (nth q qs []) (nth_error_nth_q _ qs q [] H)) as [l1 [l2 [E1 [E2 _]]]].
  exists (concat l1), (concat l2). rewrite E2. rewrite E1 at 1. rewrite !concat_app. simpl. split; reflexivity.
Qed.

Lemma concat_repeat_nil : forall k, concat (repeat (@nil N) k) = [].
Proof. induction k; simpl; auto. Qed.
Lemma inproc_repeat_read : forall k, inproc (repeat WRead k) = [].
Proof. induction k; simpl; auto. Qed.

Lemma init_inv : forall units k, 0 < k -> Inv (map snd units) (ap_init units k).
Proof.
  intros units k Hk. constructor; simpl.
  - unfold content. simpl.
    rewrite concat_repeat_nil, inproc_repeat_read. simpl. rewrite app_nil_r. apply Permutation_refl.
  - discriminate.
  - rewrite !repeat_length. lia.
  - intros w H. apply nth_error_In in H. apply repeat_spec in H. discriminate.
  - intros w H. apply nth_error_In in H. apply repeat_spec in H. discriminate.
Qed.

(* permutations of concatenations of the same pieces: by counting occurrences *)
Ltac perm_count :=
  apply (Permutation_count_occ N.eq_dec); let x := fresh "x" in intro x;
  repeat rewrite count_occ_app; simpl; repeat rewrite count_occ_app; simpl;
  repeat match goal with |- context [N.eq_dec ?a ?b] => destruct (N.eq_dec a b) end; lia.

Lemma step_inv : forall units s st, Inv units s -> Inv units (ap_step s st).
Proof.
  intros units s st [Hp Hf [Hl Hk] Hd Hdn].
  destruct st as [|w victim]; simpl.
  - (* generator side *)
    destruct (ap_gen s) as [|[q u] rest] eqn:Eg.
    + constructor; simpl.
      * unfold content in *. simpl. rewrite Eg in Hp. exact Hp.
      * intros _. reflexivity.
      * split; assumption.
      * intros w Hw. reflexivity.
      * intros w Hw. split; [reflexivity|apply (Hdn w Hw)].
    + assert (Hff : ap_flag s = false).
      { destruct (ap_flag s) eqn:E; [|reflexivity]. specialize (Hf eq_refl). discriminate. }
      assert (Hq : q mod length (ap_queues s) < length (ap_queues s)) by (apply Nat.mod_upper_bound; lia).
      constructor; simpl.
      * unfold content in *. simpl. rewrite Eg in Hp. simpl in Hp. unfold enqueue.
        destruct (concat_upd (ap_queues s) (q mod length (ap_queues s))
                             (nth (q mod length (ap_queues s)) (ap_queues s) [] ++ [u]) Hq) as [r1 [r2 [E1 E2]]].
        rewrite E2. rewrite E1 in Hp. eapply Permutation_trans; [exact Hp|]. perm_count.
      * intros Hc. rewrite Hff in Hc. discriminate.
      * unfold enqueue. rewrite upd_length. split; assumption.
      * intros w Hw. specialize (Hd w Hw). congruence.
      * intros w Hw. destruct (Hdn w Hw) as [Hc _]. congruence.
  - (* worker w *)
    destruct (nth_error (ap_workers s) w) as [ws|] eqn:Ew; [|constructor; [exact Hp|exact Hf|split; assumption|exact Hd|exact Hdn]].
    assert (Hwl : w < length (ap_workers s)) by (apply nth_error_Some; congruence).
    destruct ws as [|f|u|].
    + (* WRead -> WDeq flag *)
      constructor; simpl.
      * unfold content in *. simpl.
        destruct (inproc_upd (ap_workers s) w (WDeq (ap_flag s)) WRead Ew) as [r1 [r2 [E1 E2]]].
        rewrite E2. rewrite E1 in Hp. exact Hp.
      * exact Hf.
      * rewrite upd_length. split; assumption.
      * intros w' Hw'. destruct (Nat.eq_dec w w') as [<-|Hne].
        -- rewrite nth_error_upd_eq in Hw' by assumption. inversion Hw'. reflexivity.
        -- rewrite nth_error_upd_neq in Hw' by assumption. eapply Hd; eauto.
      * intros w' Hw'. destruct (Nat.eq_dec w w') as [<-|Hne].
        -- rewrite nth_error_upd_eq in Hw' by assumption. discriminate.
        -- rewrite nth_error_upd_neq in Hw' by assumption. eapply Hdn; eauto.
    + (* WDeq f: the dequeue *)
      assert (Take : forall q u r, q < length (ap_queues s) -> nth q (ap_queues s) [] = u :: r ->
                Inv units {| ap_gen := ap_gen s; ap_flag := ap_flag s; ap_queues := upd (ap_queues s) q r;
                             ap_workers := upd (ap_workers s) w (WProc u); ap_processed := ap_processed s |}).
      { intros q u r Hq Hn. constructor; simpl.
        - unfold content in *. simpl.
          destruct (inproc_upd (ap_workers s) w (WProc u) (WDeq f) Ew) as [r1 [r2 [E1 E2]]].
          destruct (concat_upd (ap_queues s) q r Hq) as [c1 [c2 [C1 C2]]].
          rewrite E2, C2. rewrite E1, C1, Hn in Hp. simpl in *.
          eapply Permutation_trans; [exact Hp|]. perm_count.
        - exact Hf.
        - rewrite !upd_length. split; assumption.
        - intros w' Hw'. destruct (Nat.eq_dec w w') as [<-|Hne].
          + rewrite nth_error_upd_eq in Hw' by assumption. discriminate.
          + rewrite nth_error_upd_neq in Hw' by assumption. eapply Hd; eauto.
        - intros w' Hw'. destruct (Nat.eq_dec w w') as [<-|Hne].
          + rewrite nth_error_upd_eq in Hw' by assumption. discriminate.
          + rewrite nth_error_upd_neq in Hw' by assumption. destruct (Hdn w' Hw') as [H1 H2]. split; [exact H1|].
            destruct (Nat.eq_dec q w') as [<-|Hq'].
            * rewrite Hn in H2. discriminate.
            * rewrite nth_upd_neq by assumption. exact H2. }
      unfold dequeue_from.
      destruct (nth w (ap_queues s) []) as [|u r] eqn:Eown.
      * (* own sub-queue empty: look at the victim *)
        assert (Null : Inv units (set_worker s w (if f then WDone else WRead))).
        { constructor; simpl.
          - unfold content in *. simpl.
            destruct (inproc_upd (ap_workers s) w (if f then WDone else WRead) (WDeq f) Ew) as [r1 [r2 [E1 E2]]].
            rewrite E2. rewrite E1 in Hp. destruct f; exact Hp.
          - exact Hf.
          - rewrite upd_length. split; assumption.
          - intros w' Hw'. destruct (Nat.eq_dec w w') as [<-|Hne].
            + rewrite nth_error_upd_eq in Hw' by assumption. destruct f; discriminate.
            + rewrite nth_error_upd_neq in Hw' by assumption. eapply Hd; eauto.
          - intros w' Hw'. destruct (Nat.eq_dec w w') as [<-|Hne].
            + rewrite nth_error_upd_eq in Hw' by assumption. destruct f; [|discriminate].
              split; [eapply Hd; eauto|exact Eown].
            + rewrite nth_error_upd_neq in Hw' by assumption. eapply Hdn; eauto. }
        destruct victim as [v|]; [|exact Null].
        destruct (nth v (ap_queues s) []) as [|u r] eqn:Ev; [exact Null|].
        apply Take; [|exact Ev].
        destruct (Nat.lt_ge_cases v (length (ap_queues s))) as [Hlt|Hge]; [exact Hlt|].
        rewrite nth_overflow in Ev by assumption. discriminate.
      * apply Take; [lia|exact Eown].
    + (* WProc u -> processed *)
      constructor; simpl.
      * unfold content in *. simpl.
        destruct (inproc_upd (ap_workers s) w WRead (WProc u) Ew) as [r1 [r2 [E1 E2]]].
        rewrite E2. rewrite E1 in Hp. simpl in *.
        eapply Permutation_trans; [exact Hp|]. perm_count.
      * exact Hf.
      * rewrite upd_length. split; assumption.
      * intros w' Hw'. destruct (Nat.eq_dec w w') as [<-|Hne].
        -- rewrite nth_error_upd_eq in Hw' by assumption. discriminate.
        -- rewrite nth_error_upd_neq in Hw' by assumption. eapply Hd; eauto.
      * intros w' Hw'. destruct (Nat.eq_dec w w') as [<-|Hne].
        -- rewrite nth_error_upd_eq in Hw' by assumption. discriminate.
        -- rewrite nth_error_upd_neq in Hw' by assumption. eapply Hdn; eauto.
    + constructor; [exact Hp|exact Hf|split; assumption|exact Hd|exact Hdn].
Qed.

Lemma run_inv : forall units sched s, Inv units s -> Inv units (ap_run s sched).
Proof.
  intros units sched. induction sched as [|st sched IH]; intros s H; simpl; [exact H|].
  apply IH. apply step_inv. exact H.
Qed.

(* allpairs_exact: for every assignment of the units to sub-queues, every number of workers >= 1 and every
   schedule: (1) at any moment every unit is in exactly one place (still to be generated, queued, being processed,
   processed) -- none lost, none duplicated; (2) when all workers have left (the caller's wait condition
   donecount = number of workers), every unit has been processed exactly once. *)
Theorem allpairs_exact : forall (units : list (nat * N)) (k : nat) (sched : list apstep), 0 < k ->
  let s := ap_run (ap_init units k) sched in
  Permutation (map snd units) (content s) /\
  (all_done s = true -> Permutation (map snd units) (ap_processed s)).
Proof.
  intros units k sched Hk s.
  pose proof (run_inv (map snd units) sched (ap_init units k) (init_inv units k Hk)) as [Hp Hf [Hl Hpos] Hd Hdn].
  fold s in Hp, Hf, Hl, Hpos, Hd, Hdn.
  split; [exact Hp|]. intros Hall.
  unfold all_done in Hall. rewrite forallb_forall in Hall.
  assert (Hdone : forall w x, nth_error (ap_workers s) w = Some x -> x = WDone).
  { intros w x Hx. apply nth_error_In in Hx. specialize (Hall x Hx). destruct x; simpl in Hall; try discriminate. reflexivity. }
  assert (Hflag : ap_flag s = true).
  { destruct (nth_error (ap_workers s) 0) as [x|] eqn:E0.
    - rewrite (Hdone 0 x E0) in E0. apply (Hdn 0 E0).
    - apply nth_error_None in E0. lia. }
  assert (Hgen : ap_gen s = []) by (apply Hf; exact Hflag).
  assert (Hq : concat (ap_queues s) = []).
  { assert (G : forall qs : list (list N), (forall w, w < length qs -> nth w qs [] = []) -> concat qs = []).
    { induction qs as [|q qs IH]; intros H; [reflexivity|]. simpl.
      assert (Eq0 : q = []) by (apply (H 0); simpl; lia). subst q. simpl. apply IH. intros w Hw. apply (H (S w)). simpl. lia. }
    apply G. intros w Hw. rewrite Hl in Hw.
    destruct (nth_error (ap_workers s) w) as [x|] eqn:Ex.
    - rewrite (Hdone w x Ex) in Ex. apply (Hdn w Ex).
    - apply nth_error_None in Ex. lia. }
  assert (Hin : inproc (ap_workers s) = []).
  { unfold inproc. clear - Hall. induction (ap_workers s) as [|x ws IH]; [reflexivity|]. simpl.
    assert (Hx : is_done x = true) by (apply Hall; left; reflexivity).
    destruct x; simpl in Hx; try discriminate. simpl. apply IH. intros y Hy. apply Hall. right. exact Hy. }
  unfold content in Hp. rewrite Hgen, Hq, Hin in Hp. simpl in Hp. exact Hp.
Qed.

(* the pre-fix worker (pointer test): a schedule on which both workers leave while every unit is still queued
   -- the revert of fix 20d2f8a is refuted by the same model *)
Example ptrtest_early_exit :
  let s := fold_left ap_step_ptrtest [SWork 0 None; SWork 0 None; SWork 1 None; SWork 1 None; SGen; SGen; SGen]
                     (ap_init [(0, 10%N); (1, 11%N)] 2) in
  all_done s = true /\ ap_processed s = [] /\ concat (ap_queues s) = [10%N; 11%N].
Proof. vm_compute. repeat split. Qed.

(* non-vacuity: a complete run of the fixed protocol on two workers *)
Example fixed_run :
  let s := ap_run (ap_init [(0, 10%N); (1, 11%N)] 2)
                  [SWork 0 None; SWork 0 None; SGen; SGen; SWork 1 None; SWork 1 (Some 0); SWork 1 None; SGen;
                   SWork 0 None; SWork 0 None; SWork 0 None; SWork 0 None; SWork 0 None; SWork 0 None;
                   SWork 1 None; SWork 1 None; SWork 1 None; SWork 1 None] in
  all_done s = true /\ Permutation [10%N; 11%N] (ap_processed s).
Proof. vm_compute. split; [reflexivity|]. apply perm_swap || apply Permutation_refl. Qed.
