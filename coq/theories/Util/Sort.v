(* C13 -- executable model of the parallel sorts: qutil_qsort, qutil_aligned_qsort (qutil.c), qt_qsort
   (qloop.c) -- one partition/recursion model with parameters -- and qutil_mergesort.
   Definitions only (proofs in SortProofs.v).

   Arrays are finite maps index -> value (stdlib PositiveMap, key = index+1) so that the extracted model runs
   in O(log n) per access on 40001-element inputs; `to_list a n` is the abstraction the theorems speak about.
   The comparison, and the sort used below the parallel cutoff (libc qsort / drf_qsort_dbl, drf_qsort_algt), are Section
   variables: the extracted functions take them as arguments.

   The strided partition threads of one partitioner call work on pairwise disjoint index sets (thread i owns
   the chunks i, i+nt, i+2nt, ... of the sub-array), so their effects commute; the model runs them in index
   order.  Walls are merged by min / max (CAS loop in qutil.c, FEB lock in qloop.c: same result). *)
From Coq Require Import List NArith Bool FMapPositive.
Import ListNotations.
Local Open Scope N_scope.

Section Sort.
  Variable V : Type.
  Variable leb : V -> V -> bool.          (* x <= y *)
  Variable dflt : V.

  Definition arr := PositiveMap.t V.
  Definition aget (a : arr) (i : N) : V :=
    match PositiveMap.find (N.succ_pos i) a with Some v => v | None => dflt end.
  Definition aset (a : arr) (i : N) (v : V) : arr := PositiveMap.add (N.succ_pos i) v a.
  (* SWAP(a, m, n): temp = a[m]; a[m] = a[n]; a[n] = temp *)
  Definition aswap (a : arr) (i j : N) : arr :=
    let x := aget a i in let y := aget a j in aset (aset a i y) j x.
  (* the allocation holds `bound` elements; a SWAP that touches an index outside it is undefined behaviour in C:
     the model stops (None), like it does when it runs out of fuel *)
  Variable bound : N.
  Definition aswap_c (a : arr) (i j : N) : option arr :=
    if (i <? bound) && (j <? bound) then Some (aswap a i j) else None.
  Definition gtb (x y : V) : bool := negb (leb x y).     (* x > y  (no NaN) *)
  Definition ltb (x y : V) : bool := negb (leb y x).     (* x < y *)

  Fixpoint nrange (n : nat) (from : N) : list N :=
    match n with O => [] | S n' => from :: nrange n' (from + 1) end.
  Definition to_list (a : arr) (n : N) : list V := map (aget a) (nrange (N.to_nat n) 0).
  Fixpoint of_list_from (l : list V) (i : N) (a : arr) : arr :=
    match l with [] => a | x :: r => of_list_from r (i + 1) (aset a i x) end.
  Definition of_list (l : list V) : arr := of_list_from l 0 (PositiveMap.empty V).

  (* the sort used below the cutoff, on the segment [base, base+len) *)
  Variable base_sort : arr -> N -> N -> arr.

  (* ------------------------------------------------------------------ parameters of the three quicksorts *)
  Record params := {
    p_chunk    : N;            (* MT_CHUNKSIZE = cacheline/8 ; qt_qsort: 10 *)
    p_nthreads : N -> N;       (* partition threads for a sub-array of this length *)
    p_small    : N -> bool;    (* below the cutoff: sequential sort *)
    p_thresh   : N -> N        (* parallel partition while rightwall-leftwall > thresh(len of this call) *)
  }.
  Variable P : params.

  (* ------------------------------------------------------------------ one partition thread
     local index i of the thread is global index b+i *)
  (* leftwall += ((leftwall + 1) % chunk != 0) ? 1 : jump *)
  Definition lstep (jump lw : N) : N :=
    if ((lw + 1) mod p_chunk P =? 0) then lw + jump else lw + 1.
  (* the right step; None = goto quickexit *)
  Definition rstep (jump rw : N) : option N :=
    if negb (rw mod p_chunk P =? 0) then (if rw =? 0 then None else Some (rw - 1))
    else (if rw <? jump then None else Some (rw - jump)).

  (* while (a[leftwall] <= pivot) { step; if (rightwall < leftwall) goto quickexit; }   result (lw, quick) *)
  Fixpoint loopA (fuel : nat) (a : arr) (b jump : N) (pivot : V) (lw rw : N) : option (N * bool) :=
    match fuel with
    | O => None
    | S f =>
      if leb (aget a (b + lw)) pivot then
        let lw' := lstep jump lw in
        if rw <? lw' then Some (lw', true) else loopA f a b jump pivot lw' rw
      else Some (lw, false)
    end.

  (* while (a[rightwall] > pivot) { step or quickexit; if (rightwall < leftwall) goto quickexit; } *)
  Fixpoint loopB (fuel : nat) (a : arr) (b jump : N) (pivot : V) (lw rw : N) : option (N * bool) :=
    match fuel with
    | O => None
    | S f =>
      if gtb (aget a (b + rw)) pivot then
        match rstep jump rw with
        | None => Some (rw, true)
        | Some rw' => if rw' <? lw then Some (rw', true) else loopB f a b jump pivot lw rw'
        end
      else Some (rw, false)
    end.

  (* do { leftwall += ...; if (rightwall < leftwall) goto quickexit; } while (a[leftwall] <= pivot); *)
  Fixpoint doL (fuel : nat) (a : arr) (b jump : N) (pivot : V) (lw rw : N) : option (N * bool) :=
    match fuel with
    | O => None
    | S f =>
      let lw' := lstep jump lw in
      if rw <? lw' then Some (lw', true)
      else if leb (aget a (b + lw')) pivot then doL f a b jump pivot lw' rw
      else Some (lw', false)
    end.

  (* do { step or quickexit } while (a[rightwall] > pivot); *)
  Fixpoint doR (fuel : nat) (a : arr) (b jump : N) (pivot : V) (rw : N) : option (N * bool) :=
    match fuel with
    | O => None
    | S f =>
      match rstep jump rw with
      | None => Some (rw, true)
      | Some rw' => if gtb (aget a (b + rw')) pivot then doR f a b jump pivot rw' else Some (rw', false)
      end
    end.

  (* while (1) { doL; if (rw <= lw) break; doR; if (rw <= lw) break; SWAP } *)
  Fixpoint pmain (fuel : nat) (a : arr) (b jump : N) (pivot : V) (lw rw : N) : option (arr * N * N) :=
    match fuel with
    | O => None
    | S f =>
      match doL fuel a b jump pivot lw rw with
      | None => None
      | Some (lw', true) => Some (a, lw', rw)
      | Some (lw', false) =>
        if rw <=? lw' then Some (a, lw', rw)
        else match doR fuel a b jump pivot rw with
             | None => None
             | Some (rw', true) => Some (a, lw', rw')
             | Some (rw', false) =>
               if rw' <=? lw' then Some (a, lw', rw')
               else match aswap_c a (b + lw') (b + rw') with
                    | None => None
                    | Some a' => pmain f a' b jump pivot lw' rw'
                    end
             end
      end
    end.

  (* qutil_qsort_partition / qutil_aligned_qsort_partition / qt_qsort_partition; returns the array and
     the thread's final (leftwall, rightwall), local indices *)
  Definition part_thread (a : arr) (b len jump : N) (pivot : V) : option (arr * N * N) :=
    let fuel := S (S (N.to_nat len)) in
    let rw0 := len - 1 in
    match loopA fuel a b jump pivot 0 rw0 with
    | None => None
    | Some (lw, true) => Some (a, lw, rw0)
    | Some (lw, false) =>
      match loopB fuel a b jump pivot lw rw0 with
      | None => None
      | Some (rw, true) => Some (a, lw, rw)
      | Some (rw, false) =>
        match aswap_c a (b + lw) (b + rw) with
        | None => None
        | Some a' => pmain fuel a' b jump pivot lw rw
        end
      end
    end.

  (* ------------------------------------------------------------------ *_inner_partitioner
     the loop over the threads: per-thread length (with the mutable `megachunks`), min/max of the walls *)
  Fixpoint part_threads (k : nat) (i : N) (a : arr) (b length nt mcs extra megachunks : N) (pivot : V)
           (lwall rwall : N) : option (arr * N * N) :=
    match k with
    | O => Some (a, lwall, rwall)
    | S k' =>
      let cs := p_chunk P in
      let offset := i * cs in
      let jump := (nt - 1) * cs + 1 in
      let len0 := if negb (extra =? 0) then megachunks * mcs + cs else length - mcs + cs in
      let clip := negb (extra =? 0) && (length <=? len0 + offset) in
      let len_i := if clip then length - offset else len0 in
      let megachunks' := if clip then megachunks - 1 else megachunks in
      match part_thread a (b + offset) len_i jump pivot with
      | None => None
      | Some (a', lw, rw) =>
        let lwall' := if lw + offset <? lwall then lw + offset else lwall in
        let rwall' := if rwall <? rw + offset then rw + offset else rwall in
        part_threads k' (i + 1) a' b length nt mcs extra megachunks' pivot lwall' rwall'
      end
    end.

  Definition partitioner (a : arr) (b length : N) (pivot : V) : option (arr * N * N) :=
    let nt := p_nthreads P length in
    let mcs := p_chunk P * nt in
    if mcs =? 0 then None else
    part_threads (N.to_nat nt) 0 a b length nt mcs (length mod mcs) (length / mcs) pivot
                 18446744073709551615 0.

  (* while (rightwall > leftwall && rightwall - leftwall > thresh) {
       gap = rightwall - leftwall; partitioner on [leftwall, rightwall];
       if (rightwall <= leftwall || rightwall - leftwall >= gap) break;      (stall_exit: the no-progress exit) }
     stall_exit = false is the loop before the fix (kept for the regression examples) *)
  Fixpoint walls (stall_exit : bool) (wfuel : nat) (a : arr) (b thresh : N) (pivot : V) (lwall rwall : N)
    : option (arr * N * N) :=
    if (lwall <? rwall) && (thresh <? rwall - lwall) then
      match wfuel with
      | O => None
      | S f =>
        match partitioner a (b + lwall) (rwall - lwall + 1) pivot with
        | None => None
        | Some (a', l, r) =>
          let lw' := l + lwall in
          let rw' := r + lwall in
          if stall_exit && ((rw' <=? lw') || (rwall - lwall <=? rw' - lw')) then Some (a', lw', rw')
          else walls stall_exit f a' b thresh pivot lw' rw'
        end
      end
    else Some (a, lwall, rwall).

  (* ------------------------------------------------------------------ the sequential fix-up *)
  (* while (leftwall < rightwall && array[leftwall] <= pivot) leftwall++; *)
  Fixpoint fixA (fuel : nat) (a : arr) (b : N) (pivot : V) (lw rw : N) : N :=
    match fuel with
    | O => lw
    | S f => if (lw <? rw) && leb (aget a (b + lw)) pivot then fixA f a b pivot (lw + 1) rw else lw
    end.
  (* while (leftwall < rightwall && array[rightwall] > pivot) rightwall--; *)
  Fixpoint fixB (fuel : nat) (a : arr) (b : N) (pivot : V) (lw rw : N) : N :=
    match fuel with
    | O => rw
    | S f => if (lw <? rw) && gtb (aget a (b + rw)) pivot then fixB f a b pivot lw (rw - 1) else rw
    end.
  (* while (++leftwall < rightwall && array[leftwall] <= pivot) ;   (returns leftwall after the loop) *)
  Fixpoint fixL (fuel : nat) (a : arr) (b : N) (pivot : V) (lw rw : N) : N :=
    match fuel with
    | O => lw
    | S f => let lw' := lw + 1 in
             if (lw' <? rw) && leb (aget a (b + lw')) pivot then fixL f a b pivot lw' rw else lw'
    end.
  (* while (leftwall < --rightwall && array[rightwall] > pivot) ;   None: rightwall would pass below 0 *)
  Fixpoint fixR (fuel : nat) (a : arr) (b : N) (pivot : V) (lw rw : N) : option N :=
    match fuel with
    | O => None
    | S f => if rw =? 0 then None else
             let rw' := rw - 1 in
             if (lw <? rw') && gtb (aget a (b + rw')) pivot then fixR f a b pivot lw rw' else Some rw'
    end.
  (* for (;;) { fixL; if (rw < lw) break; fixR; if (rw < lw) break; SWAP }   returns (a, lw, rw); when the
     right wall passes below the left one at index 0 the C value is lw-1: the flag tells rw < lw *)
  Fixpoint fixmain (fuel : nat) (a : arr) (b : N) (pivot : V) (lw rw : N) : option (arr * N * N * bool) :=
    match fuel with
    | O => None
    | S f =>
      let lw' := fixL fuel a b pivot lw rw in
      if rw <? lw' then Some (a, lw', rw, true)
      else match fixR fuel a b pivot lw' rw with
           | None => None
           | Some rw' =>
             if rw' <? lw' then Some (a, lw', rw', true)
             else match aswap_c a (b + lw') (b + rw') with
                  | None => None
                  | Some a' => fixmain f a' b pivot lw' rw'
                  end
           end
    end.

  (* the whole fix-up; returns the array and the final `rightwall` (= length of the left part) *)
  Definition fixup (a : arr) (b len : N) (pivot : V) (lwall rwall : N) : option (arr * N) :=
    let fuel := S (S (N.to_nat len)) in
    let lw := fixA fuel a b pivot lwall rwall in
    let rw := fixB fuel a b pivot lw rwall in
    let r :=
      if lw <? rw then
        match aswap_c a (b + lw) (b + rw) with
        | None => None
        | Some a0 =>
          match fixmain fuel a0 b pivot lw rw with
          | None => None
          | Some (a', _, rw', _) => Some (a', rw')
          end
        end
      else Some (a, rw) in
    match r with
    | None => None
    | Some (a', rw') => Some (a', if leb (aget a' (b + rw')) pivot then rw' + 1 else rw')
    end.

  (* tri-median pivot selection on [b, b+len): three conditional swaps, pivot = a[b + len/2] *)
  Definition trimedian (a : arr) (b len : N) : option arr :=
    let i := len / 2 in
    match (if gtb (aget a b) (aget a (b + i)) then aswap_c a b (b + i) else Some a) with
    | None => None
    | Some a1 =>
      match (if gtb (aget a1 b) (aget a1 (b + len - 1)) then aswap_c a1 b (b + len - 1) else Some a1) with
      | None => None
      | Some a2 =>
        if gtb (aget a2 (b + i)) (aget a2 (b + len - 1)) then aswap_c a2 (b + i) (b + len - 1) else Some a2
      end
    end.

  (* x == y through the order (no NaN, no -0.0) *)
  Definition eqv (x y : V) : bool := leb x y && leb y x.

  (* the pivot-is-maximum rule (fix "parallel quicksorts ... pivot is the segment maximum"):
       l = 0; while (l < rightwall) { if (array[l] == pivot) { rightwall--; SWAP(array, l, rightwall); } else l++; }
     moves every element equal to the pivot to the end; returns the array and the new rightwall *)
  Fixpoint movepiv (fuel : nat) (a : arr) (b : N) (pivot : V) (l rw : N) : option (arr * N) :=
    match fuel with
    | O => None
    | S f =>
      if l <? rw then
        if eqv (aget a (b + l)) pivot then
          match aswap_c a (b + l) (b + (rw - 1)) with
          | None => None
          | Some a' => movepiv f a' b pivot l (rw - 1)
          end
        else movepiv f a b pivot (l + 1) rw
      else Some (a, rw)
    end.

  (* one call of *_qsort_inner up to the two forks: tri-median, parallel partition passes, sequential fix-up and
     (newrule) the pivot-is-maximum rule.  Returns the array, the final rightwall (= length of the left part) and
     pivots_done.  newrule / stall_exit = false is the code before the respective fix (kept for the regression examples). *)
  Definition qsort_node (newrule stall_exit : bool) (wfuel : nat) (a : arr) (b len : N) : option (arr * N * bool) :=
    match trimedian a b len with
    | None => None
    | Some a1 =>
      let pivot := aget a1 (b + len / 2) in
      (* with the no-progress exit the gap shrinks on every further pass: len passes are always enough *)
      let wf := if stall_exit then S (N.to_nat len) else wfuel in
      match walls stall_exit wf a1 b (p_thresh P len) pivot 0 (len - 1) with
      | None => None
      | Some (a2, lwall, rwall) =>
        match fixup a2 b len pivot lwall rwall with
        | None => None
        | Some (a3, rw) =>
          if newrule && (rw =? len) then
            match movepiv (S (S (N.to_nat len))) a3 b pivot 0 rw with
            | None => None
            | Some (a4, rw') => Some (a4, rw', true)
            end
          else Some (a3, rw, false)
        end
      end
    end.

  (* *_qsort_inner on the segment [b, b+len); the two recursive calls work on disjoint segments (forked in
     the code), the model runs left then right *)
  Fixpoint qsort_inner_gen (newrule stall_exit : bool) (fuel wfuel : nat) (a : arr) (b len : N) : option arr :=
    match fuel with
    | O => None
    | S f =>
      if p_small P len then (if b + len <=? bound then Some (base_sort a b len) else None)
      else
        match qsort_node newrule stall_exit wfuel a b len with
        | None => None
        | Some (a3, rw, pivots_done) =>
          match (if 0 <? rw then qsort_inner_gen newrule stall_exit f wfuel a3 b rw else Some a3) with
          | None => None
          | Some a4 =>
            if negb pivots_done && (0 <? len - rw) && (rw <? len)
            then qsort_inner_gen newrule stall_exit f wfuel a4 (b + rw) (len - rw) else Some a4
          end
        end
    end.

  Definition qsort_inner := qsort_inner_gen true true.              (* the code as it is now *)
  Definition qsort_inner_nostall := qsort_inner_gen true false.     (* before the no-progress exit *)
  Definition qsort_inner_old := qsort_inner_gen false false.        (* before both fixes *)

  (* ------------------------------------------------------------------ qutil_mergesort *)
  (* for (k = ss-1; k >= fs; k--) { a[k+1] = a[k]; if (k == 0) break; }   shifts [fs, ss) right by one *)
  Fixpoint shift_right (n : nat) (a : arr) (k : N) : arr :=
    match n with
    | O => a
    | S n' => shift_right n' (aset a (k + 1) (aget a k)) (k - 1)
    end.

  (* qutil_mergesort_inner: in-place merge of [fs, fe] and [ss, se] (inclusive bounds) *)
  Fixpoint merge_inner (fuel : nat) (a : arr) (fs fe ss se : N) : arr :=
    match fuel with
    | O => a
    | S f =>
      if (fs <=? fe) && (ss <=? se) then
        if ltb (aget a fs) (aget a ss) then merge_inner f a (fs + 1) fe ss se
        else
          let temp := aget a ss in
          let a' := aset (shift_right (N.to_nat (ss - fs)) a (ss - 1)) fs temp in
          merge_inner f a' (fs + 1) (fe + 1) (ss + 1) se
      else a
    end.

  (* one merge round: i = 0; while (i < length - chunksize) { merge(i, chunksize); i += 2*chunksize } *)
  Fixpoint merge_round (fuel : nat) (a : arr) (length cs i : N) : arr :=
    match fuel with
    | O => a
    | S f =>
      if i <? length - cs then
        let se := if i + 2 * cs - 1 <? length - 1 then i + 2 * cs - 1 else length - 1 in
        let a' := merge_inner (S (N.to_nat (2 * cs))) a i (i + cs - 1) (i + cs) se in
        merge_round f a' length cs (i + 2 * cs)
      else a
    end.

  (* while (chunksize <= length) { round; chunksize *= 2 } *)
  Fixpoint merge_rounds (fuel : nat) (a : arr) (length cs : N) : arr :=
    match fuel with
    | O => a
    | S f =>
      if cs <=? length then
        merge_rounds f (merge_round (S (N.to_nat length)) a length cs 0) length (2 * cs)
      else a
    end.

  (* presort: chunks [i*10, min((i+1)*10 - 1, length-1)] sorted by drf_qsort_dbl *)
  Fixpoint presort (k : nat) (a : arr) (length cs i : N) : arr :=
    match k with
    | O => a
    | S k' =>
      let fs := i * cs in
      let fe := if length <=? (i + 1) * cs - 1 then length - 1 else (i + 1) * cs - 1 in
      presort k' (base_sort a fs (fe - fs + 1)) length cs (i + 1)
    end.

  Definition mergesort (a : arr) (length : N) : arr :=
    let cs := 10 in
    let nth := length / cs + (if negb (length - (length / cs) * cs =? 0) then 1 else 0) in
    let a1 := presort (N.to_nat nth) a length cs 0 in
    merge_rounds (S (N.to_nat (N.log2 length))) a1 length cs.
End Sort.

(* ---------------------------------------------------------------------- the three instantiations *)
(* qutil_qsort / qutil_aligned_qsort: MT_CHUNKSIZE = cacheline / sizeof(double), threads = ceil(len / MT_LOOP_CHUNK),
   cutoff len <= MT_LOOP_CHUNK, parallel partition while the gap exceeds 2 * MT_LOOP_CHUNK *)
Definition qutil_params (cacheline loop_chunk : N) : params :=
  {| p_chunk := cacheline / 8;
     p_nthreads := fun len => len / loop_chunk + (if negb (len mod loop_chunk =? 0) then 1 else 0);
     p_small := fun len => len <=? loop_chunk;
     p_thresh := fun _ => 2 * loop_chunk |}.

(* qt_qsort: chunk 10, one thread per shepherd, cutoff (nsheps = 1 || len <= 10000), gap threshold
   2 * (len / nsheps) *)
Definition qt_params (nsheps : N) : params :=
  {| p_chunk := 10;
     p_nthreads := fun _ => nsheps;
     p_small := fun len => (nsheps =? 1) || (len <=? 10000);
     p_thresh := fun len => 2 * (len / nsheps) |}.
