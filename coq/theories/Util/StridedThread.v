(* C13 -- one strided partition thread (part_thread of Sort.v) is a Hoare partition of its slice.
   The slice is given by an enumeration e (instantiated with Strided.idx): local index e k is the k-th element the
   thread owns; the code's left / right steps are next / previous in e.  The thread's array base is b. *)
From Coq Require Import List NArith Bool Lia Permutation FMapPositive ZArith.
From QV Require Import Util.Sort Util.SortProofs Util.SortCorrect.
Local Open Scope N_scope.

Section Thread.
  Variable V : Type.
  Variable leb : V -> V -> bool.
  Variable dflt : V.
  Variable bound : N.
  Variable P : params.
  Variable jump : N.
  Variable e : N -> N.

  Hypothesis e_left : forall k, lstep P jump (e k) = e (k + 1).
  Hypothesis e_right : forall k, rstep P jump (e (k + 1)) = Some (e k).
  Hypothesis e_first : rstep P jump (e 0) = None.
  Hypothesis e_step : forall k, e k < e (k + 1).
  Hypothesis e_zero : e 0 = 0.

  Notation aget := (aget V dflt).
  Notation aswap := (aswap V dflt).

  (* ------------------------------------------------------------------ the enumeration is strictly increasing *)
  Lemma e_mono_add : forall d x, e x < e (x + 1 + d).
  Proof.
    induction d as [|d IH] using N.peano_ind; intros x.
    - rewrite N.add_0_r. apply e_step.
    - replace (x + 1 + N.succ d) with ((x + 1 + d) + 1) by lia.
      eapply N.lt_trans; [apply IH|apply e_step].
  Qed.

  Lemma e_mono : forall x y, x < y -> e x < e y.
  Proof. intros x y H. replace y with (x + 1 + (y - x - 1)) by lia. apply e_mono_add. Qed.

  Lemma e_inj : forall x y, e x = e y -> x = y.
  Proof.
    intros x y H. destruct (N.lt_trichotomy x y) as [L|[E|G]]; [|exact E|].
    - pose proof (e_mono x y L). lia.
    - pose proof (e_mono y x G). lia.
  Qed.

  Lemma e_ltb : forall x y, (e x <? e y) = (x <? y).
  Proof.
    intros x y. destruct (N.ltb_spec x y) as [L|G].
    - apply N.ltb_lt. apply e_mono. exact L.
    - apply N.ltb_ge. destruct (N.eq_dec x y) as [->|Hne]; [lia|]. pose proof (e_mono y x ltac:(lia)). lia.
  Qed.

  Lemma e_leb : forall x y, (e x <=? e y) = (x <=? y).
  Proof.
    intros x y. rewrite !N.leb_antisym. rewrite e_ltb. reflexivity.
  Qed.

  Lemma e_ge : forall k, k <= e k.
  Proof.
    induction k as [|k IH] using N.peano_ind; [lia|].
    replace (N.succ k) with (k + 1) by lia. pose proof (e_step k). lia.
  Qed.

  (* ------------------------------------------------------------------ the walking loops, in slice positions *)
  Section Walks.
    Variable a : arr V.
    Variable b : N.
    Variable p : V.
    Let LEp (k : N) : Prop := leb (aget a (b + e k)) p = true.
    Let GTp (k : N) : Prop := leb (aget a (b + e k)) p = false.

    Lemma loopA_spec : forall y fuel x, x <= y -> (N.to_nat (y + 1 - x) < fuel)%nat ->
      exists x' q, loopA V leb dflt P fuel a b jump p (e x) (e y) = Some (e x', q) /\ x <= x' /\
                   (forall k, x <= k -> k < x' -> LEp k) /\
                   (q = true -> x' = y + 1) /\ (q = false -> x' <= y /\ GTp x').
    Proof.
      intros y. induction fuel as [|f IH]; intros x Hxy Hf; [lia|]. simpl.
      destruct (leb (aget a (b + e x)) p) eqn:E.
      - rewrite e_left, e_ltb.
        destruct (N.ltb_spec y (x + 1)) as [H|H].
        + exists (x + 1), true. split; [reflexivity|]. split; [lia|]. split.
          * intros k H1 H2. assert (k = x) by lia. subst k. exact E.
          * split; [intros _; lia|discriminate].
        + destruct (IH (x + 1)) as [x' [q [E1 [H1 [H2 [H3 H4]]]]]]; [lia|lia|].
          exists x', q. split; [exact E1|]. split; [lia|]. split; [|split; assumption].
          intros k K1 K2. destruct (N.eq_dec k x) as [->|Hne]; [exact E|]. apply H2; lia.
      - exists x, false. split; [reflexivity|]. split; [lia|]. split; [intros; lia|].
        split; [discriminate|]. intros _. split; [exact Hxy|exact E].
    Qed.

    Lemma loopB_spec : forall x fuel y, x <= y -> (N.to_nat y < fuel)%nat ->
      exists y' q, loopB V leb dflt P fuel a b jump p (e x) (e y) = Some (e y', q) /\ y' <= y /\
                   (forall k, y' < k -> k <= y -> GTp k) /\
                   (q = false -> x <= y' /\ LEp y') /\
                   (q = true -> y' + 1 = x \/ (y' = 0 /\ x = 0 /\ GTp 0)).
    Proof.
      intros x. induction fuel as [|f IH]; intros y Hxy Hf; [lia|]. simpl. unfold gtb.
      destruct (leb (aget a (b + e y)) p) eqn:E; simpl.
      - exists y, false. split; [reflexivity|]. split; [lia|]. split; [intros; lia|].
        split; [intros _; split; [exact Hxy|exact E]|discriminate].
      - destruct (N.eq_dec y 0) as [->|Hy].
        + rewrite e_first. exists 0, true. split; [reflexivity|]. split; [lia|]. split; [intros; lia|].
          split; [discriminate|]. intros _. right. split; [reflexivity|]. split; [lia|exact E].
        + pose proof (e_right (y - 1)) as Er. replace (y - 1 + 1) with y in Er by lia. rewrite Er. rewrite e_ltb.
          destruct (N.ltb_spec (y - 1) x) as [H|H].
          * exists (y - 1), true. split; [reflexivity|]. split; [lia|]. split.
            -- intros k K1 K2. assert (k = y) by lia. subst k. exact E.
            -- split; [discriminate|]. intros _. left. lia.
          * destruct (IH (y - 1)) as [y' [q [E1 [H1 [H2 [H3 H4]]]]]]; [lia|lia|].
            exists y', q. split; [exact E1|]. split; [lia|]. split; [|split; assumption].
            intros k K1 K2. destruct (N.eq_dec k y) as [->|Hne]; [exact E|]. apply H2; lia.
    Qed.

    Lemma doL_spec : forall y fuel x, x <= y -> (N.to_nat (y + 1 - x) < fuel)%nat ->
      exists x' q, doL V leb dflt P fuel a b jump p (e x) (e y) = Some (e x', q) /\ x < x' /\
                   (forall k, x < k -> k < x' -> LEp k) /\
                   (q = true -> x' = y + 1) /\ (q = false -> x' <= y /\ GTp x').
    Proof.
      intros y. induction fuel as [|f IH]; intros x Hxy Hf; [lia|]. simpl.
      rewrite e_left, e_ltb.
      destruct (N.ltb_spec y (x + 1)) as [H|H].
      - exists (x + 1), true. split; [reflexivity|]. split; [lia|]. split; [intros; lia|].
        split; [intros _; lia|discriminate].
      - destruct (leb (aget a (b + e (x + 1))) p) eqn:E.
        + destruct (IH (x + 1)) as [x' [q [E1 [H1 [H2 [H3 H4]]]]]]; [lia|lia|].
          exists x', q. split; [exact E1|]. split; [lia|]. split; [|split; assumption].
          intros k K1 K2. destruct (N.eq_dec k (x + 1)) as [->|Hne]; [exact E|]. apply H2; lia.
        + exists (x + 1), false. split; [reflexivity|]. split; [lia|]. split; [intros; lia|].
          split; [discriminate|]. intros _. split; [lia|exact E].
    Qed.

    Lemma doR_spec : forall z, LEp z -> forall fuel y, z < y -> (N.to_nat y < fuel)%nat ->
      exists y', doR V leb dflt P fuel a b jump p (e y) = Some (e y', false) /\ z <= y' /\ y' < y /\ LEp y' /\
                 (forall k, y' < k -> k < y -> GTp k).
    Proof.
      intros z Hz. induction fuel as [|f IH]; intros y Hzy Hf; [lia|]. simpl.
      pose proof (e_right (y - 1)) as Er. replace (y - 1 + 1) with y in Er by lia. rewrite Er. unfold gtb.
      destruct (leb (aget a (b + e (y - 1))) p) eqn:E; simpl.
      - exists (y - 1). split; [reflexivity|]. split; [lia|]. split; [lia|]. split; [exact E|]. intros; lia.
      - assert (z <> y - 1) by (intros ->; unfold LEp in Hz; congruence).
        destruct (IH (y - 1)) as [y' [E1 [H1 [H2 [H3 H4]]]]]; [lia|lia|].
        exists y'. split; [exact E1|]. split; [lia|]. split; [lia|]. split; [exact H3|].
        intros k K1 K2. destruct (N.eq_dec k (y - 1)) as [->|Hne]; [exact E|]. apply H4; lia.
    Qed.
  End Walks.

  (* ------------------------------------------------------------------ the thread *)
  Variable b : N.          (* base of the thread's local coordinates *)
  Variable p : V.
  Variable ymax : N.       (* the thread owns e 0 .. e ymax;  len = e ymax + 1 *)
  Variable B LEN : N.      (* the enclosing sub-array [B, B+LEN) *)
  Hypothesis in_sub : B <= b /\ b + e ymax < B + LEN /\ B + LEN <= bound.

  Definition LEp (a : arr V) (k : N) : Prop := leb (aget a (b + e k)) p = true.
  Definition GTp (a : arr V) (k : N) : Prop := leb (aget a (b + e k)) p = false.

  (* the thread's result: only its slice is rearranged (inside the sub-array), the walls X, Y (positions) have
     everything below X <= pivot and everything above Y > pivot *)
  Definition OnlySlice (a a' : arr V) : Prop :=
    (forall pos, (forall k, k <= ymax -> pos <> b + e k) -> aget a' pos = aget a pos) /\ SegRel V dflt a a' B LEN.
  Definition TP (a' : arr V) (X Y : N) : Prop :=
    Y <= ymax /\ (forall k, k < X -> k <= ymax -> LEp a' k) /\ (forall k, Y < k -> k <= ymax -> GTp a' k).

  Lemma OnlySlice_refl : forall a, OnlySlice a a.
  Proof. intros a. split; [reflexivity|apply SegRel_refl]. Qed.

  Lemma OnlySlice_trans : forall a1 a2 a3, OnlySlice a1 a2 -> OnlySlice a2 a3 -> OnlySlice a1 a3.
  Proof.
    intros a1 a2 a3 [O1 S1] [O2 S2]. split; [|eapply SegRel_trans; eauto].
    intros pos H. rewrite O2 by exact H. apply O1. exact H.
  Qed.

  Lemma OnlySlice_swap : forall a x y, x <= ymax -> y <= ymax ->
    aswap_c V dflt bound a (b + e x) (b + e y) = Some (aswap a (b + e x) (b + e y)) /\
    OnlySlice a (aswap a (b + e x) (b + e y)).
  Proof.
    intros a x y Hx Hy. destruct in_sub as [I1 [I2 I3]].
    assert (Ex : e x <= e ymax) by (destruct (N.eq_dec x ymax) as [->|]; [lia|pose proof (e_mono x ymax ltac:(lia)); lia]).
    assert (Ey : e y <= e ymax) by (destruct (N.eq_dec y ymax) as [->|]; [lia|pose proof (e_mono y ymax ltac:(lia)); lia]).
    split; [apply (aswap_c_some V dflt bound); lia|]. split.
    - intros pos H. apply (aget_aswap_other V dflt); [apply (H x Hx)|apply (H y Hy)].
    - apply (SegRel_swap_abs V dflt); lia.
  Qed.

  Lemma pmain_spec : forall fuel a x y, x < y -> y <= ymax -> LEp a x -> GTp a y ->
    (forall k, k < x -> LEp a k) -> (forall k, y < k -> k <= ymax -> GTp a k) ->
    (N.to_nat y + 1 < fuel)%nat ->
    exists a' X Y, pmain V leb dflt bound P fuel a b jump p (e x) (e y) = Some (a', e X, e Y) /\
                   OnlySlice a a' /\ TP a' X Y.
  Proof.
    induction fuel as [|f IH]; intros a x y Hxy Hy Hlx Hgy Hl Hg Hf; [lia|].
    change (pmain V leb dflt bound P (S f) a b jump p (e x) (e y)) with
      (match doL V leb dflt P (S f) a b jump p (e x) (e y) with
       | None => None
       | Some (lw', true) => Some (a, lw', e y)
       | Some (lw', false) =>
         if e y <=? lw' then Some (a, lw', e y)
         else match doR V leb dflt P (S f) a b jump p (e y) with
              | None => None
              | Some (rw', true) => Some (a, lw', rw')
              | Some (rw', false) =>
                if rw' <=? lw' then Some (a, lw', rw')
                else match aswap_c V dflt bound a (b + lw') (b + rw') with
                     | None => None
                     | Some a0 => pmain V leb dflt bound P f a0 b jump p lw' rw'
                     end
              end
       end).
    destruct (doL_spec a b p y (S f) x) as [x' [q [E1 [L1 [L2 [L3 L4]]]]]]; [lia|lia|].
    rewrite E1.
    assert (Hbelow : forall k, k < x' -> LEp a k).
    { intros k Hk. destruct (N.lt_ge_cases k x) as [X|X]; [apply Hl; exact X|].
      destruct (N.eq_dec k x) as [->|Y]; [exact Hlx|]. apply L2; lia. }
    destruct q.
    - specialize (L3 eq_refl). exists a, x', y. split; [reflexivity|]. split; [apply OnlySlice_refl|].
      split; [exact Hy|]. split; [intros k K1 K2; apply Hbelow; exact K1|exact Hg].
    - destruct (L4 eq_refl) as [L5 L6]. rewrite e_leb.
      destruct (N.leb_spec y x') as [H|H].
      + exists a, x', y. split; [reflexivity|]. split; [apply OnlySlice_refl|].
        split; [exact Hy|]. split; [intros k K1 K2; apply Hbelow; exact K1|exact Hg].
      + destruct (doR_spec a b p x Hlx (S f) y) as [y' [E2 [R1 [R2 [R3 R4]]]]]; [lia|lia|].
        rewrite E2. rewrite e_leb.
        assert (Habove : forall k, y' < k -> k <= ymax -> GTp a k).
        { intros k K1 K2. destruct (N.lt_ge_cases k y) as [X|X]; [apply R4; assumption|].
          destruct (N.eq_dec k y) as [->|Y]; [exact Hgy|]. apply Hg; lia. }
        destruct (N.leb_spec y' x') as [H'|H'].
        * exists a, x', y'. split; [reflexivity|]. split; [apply OnlySlice_refl|].
          split; [lia|]. split; [intros k K1 K2; apply Hbelow; exact K1|exact Habove].
        * destruct (OnlySlice_swap a x' y') as [Es Os]; [lia|lia|]. rewrite Es.
          set (a0 := aswap a (b + e x') (b + e y')) in *.
          destruct (IH a0 x' y') as [a' [X [Y [E3 [O3 T3]]]]]; try lia.
          -- unfold LEp, a0. rewrite (aget_aswap_l V dflt). exact R3.
          -- unfold GTp, a0. rewrite (aget_aswap_r V dflt). exact L6.
          -- intros k Hk. unfold LEp, a0. rewrite (aget_aswap_other V dflt).
             ++ apply Hbelow. exact Hk.
             ++ intro Q. apply N.add_cancel_l in Q. apply e_inj in Q. lia.
             ++ intro Q. apply N.add_cancel_l in Q. apply e_inj in Q. lia.
          -- intros k K1 K2. unfold GTp, a0. rewrite (aget_aswap_other V dflt).
             ++ apply Habove; assumption.
             ++ intro Q. apply N.add_cancel_l in Q. apply e_inj in Q. lia.
             ++ intro Q. apply N.add_cancel_l in Q. apply e_inj in Q. lia.
          -- exists a', X, Y. split; [exact E3|]. split; [|exact T3]. eapply OnlySlice_trans; [exact Os|exact O3].
  Qed.

  (* part_thread on len = e ymax + 1 elements *)
  Theorem part_thread_spec : forall a,
    exists a' X Y, part_thread V leb dflt bound P a b (e ymax + 1) jump p = Some (a', e X, e Y) /\
                   OnlySlice a a' /\ TP a' X Y.
  Proof.
    intros a. unfold Sort.part_thread.
    replace (e ymax + 1 - 1) with (e ymax) by lia.
    set (fuel := S (S (N.to_nat (e ymax + 1)))).
    pose proof (e_ge ymax) as Hge.
    destruct (loopA_spec a b p ymax fuel 0) as [x [q [E1 [A1 [A2 [A3 A4]]]]]]; [lia|unfold fuel; lia|].
    rewrite e_zero in E1. rewrite E1.
    destruct q.
    - specialize (A3 eq_refl). exists a, x, ymax. split; [reflexivity|]. split; [apply OnlySlice_refl|].
      split; [lia|]. split; [intros k K1 K2; apply A2; lia|intros; lia].
    - destruct (A4 eq_refl) as [A5 A6].
      destruct (loopB_spec a b p x fuel ymax A5) as [y [q2 [E2 [B1 [B2 [B3 B4]]]]]]; [unfold fuel; lia|].
      rewrite E2. destruct q2.
      + exists a, x, y. split; [reflexivity|]. split; [apply OnlySlice_refl|].
        destruct (B4 eq_refl) as [H|[H1 [H2 H3]]].
        * split; [lia|]. split; [intros k K1 K2; apply A2; lia|].
          intros k K1 K2. destruct (N.eq_dec k x) as [->|Hne]; [exact A6|]. apply B2; lia.
        * subst. split; [lia|]. split; [intros; lia|]. intros k K1 K2. apply B2; lia.
      + destruct (B3 eq_refl) as [B5 B6].
        assert (x <> y) by (intros ->; congruence).
        destruct (OnlySlice_swap a x y) as [Es Os]; [lia|lia|]. rewrite Es.
        set (a0 := aswap a (b + e x) (b + e y)) in *.
        destruct (pmain_spec fuel a0 x y) as [a' [X [Y [E3 [O3 T3]]]]]; try lia.
        * unfold LEp, a0. rewrite (aget_aswap_l V dflt). exact B6.
        * unfold GTp, a0. rewrite (aget_aswap_r V dflt). exact A6.
        * intros k Hk. unfold LEp, a0. rewrite (aget_aswap_other V dflt).
          -- apply A2; lia.
          -- intro Q. apply N.add_cancel_l in Q. apply e_inj in Q. lia.
          -- intro Q. apply N.add_cancel_l in Q. apply e_inj in Q. lia.
        * intros k K1 K2. unfold GTp, a0. rewrite (aget_aswap_other V dflt).
          -- apply B2; lia.
          -- intro Q. apply N.add_cancel_l in Q. apply e_inj in Q. lia.
          -- intro Q. apply N.add_cancel_l in Q. apply e_inj in Q. lia.
        * exists a', X, Y. split; [exact E3|]. split; [|exact T3]. eapply OnlySlice_trans; [exact Os|exact O3].
  Qed.
End Thread.
