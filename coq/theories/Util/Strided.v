(* C13 -- the index arithmetic of one strided partition thread (groundwork for the named hypothesis
   strided_pass_post of SortCorrect.v; not yet connected to it).

   Thread t of a partitioner pass with chunk size cs and nt threads starts at offset t*cs of the sub-array and
   visits, in its local coordinates, the chunks 0, nt, 2nt, ... : the k-th element of its slice is
        idx k = (k / cs) * (cs * nt) + k mod cs.
   The code walks the slice with `leftwall += ((leftwall+1) % cs != 0) ? 1 : jump` and the mirrored right step,
   jump = (nt-1)*cs + 1.  Here: those two steps are exactly "next / previous element of the enumeration". *)
From Coq Require Import NArith Bool Lia.
From QV Require Import Util.Sort.
Local Open Scope N_scope.

Section Strided.
  Variable P : params.
  Variable nt : N.
  Let cs := p_chunk P.
  Let jump := (nt - 1) * cs + 1.
  Hypothesis cs_pos : 0 < cs.
  Hypothesis nt_pos : 0 < nt.

  Definition idx (k : N) : N := (k / cs) * (cs * nt) + k mod cs.

  Lemma idx_of_qr : forall q r, r < cs -> idx (cs * q + r) = q * (cs * nt) + r.
  Proof.
    intros q r Hr. unfold idx.
    assert (Hq : (cs * q + r) / cs = q) by (symmetry; apply (N.div_unique _ _ q r); [exact Hr|reflexivity]).
    assert (Hm : (cs * q + r) mod cs = r) by (symmetry; apply (N.mod_unique _ _ q r); [exact Hr|reflexivity]).
    rewrite Hq, Hm. reflexivity.
  Qed.

  Lemma split_k : forall k, exists q r, k = cs * q + r /\ r < cs.
  Proof.
    intros k. exists (k / cs), (k mod cs). split; [apply N.div_mod; lia|apply N.mod_lt; lia].
  Qed.

  Lemma mod_cs_of : forall q r, (q * (cs * nt) + r) mod cs = r mod cs.
  Proof.
    intros q r. replace (q * (cs * nt) + r) with (r + (q * nt) * cs) by ring. apply N.mod_add. lia.
  Qed.

  (* the left step is "next element of the slice" *)
  Lemma lstep_idx : forall k, lstep P jump (idx k) = idx (k + 1).
  Proof.
    intros k. destruct (split_k k) as [q [r [-> Hr]]]. rewrite idx_of_qr by exact Hr.
    unfold lstep. fold cs.
    replace (q * (cs * nt) + r + 1) with (q * (cs * nt) + (r + 1)) by lia. rewrite mod_cs_of.
    destruct (N.eq_dec (r + 1) cs) as [E|E].
    - rewrite E, N.mod_same by lia. rewrite N.eqb_refl.
      replace (cs * q + r + 1) with (cs * (q + 1) + 0) by nia. rewrite idx_of_qr by lia.
      unfold jump. nia.
    - rewrite N.mod_small by lia. destruct (N.eqb_spec (r + 1) 0); [lia|].
      replace (cs * q + r + 1) with (cs * q + (r + 1)) by lia. rewrite idx_of_qr by lia. lia.
  Qed.

  Lemma idx_increasing : forall k, idx k < idx (k + 1).
  Proof.
    intros k. rewrite <- lstep_idx. unfold lstep, jump. set (X := (nt - 1) * cs). set (y := idx k).
    destruct ((y + 1) mod p_chunk P =? 0); lia.
  Qed.

  Lemma idx_0 : idx 0 = 0.
  Proof. unfold idx. rewrite N.div_0_l, N.mod_0_l by lia. reflexivity. Qed.

  (* the right step is "previous element of the slice", and there is none before the first *)
  Lemma rstep_idx_succ : forall k, rstep P jump (idx (k + 1)) = Some (idx k).
  Proof.
    intros k. destruct (split_k (k + 1)) as [q [r [E Hr]]]. rewrite E. rewrite idx_of_qr by exact Hr.
    unfold rstep. fold cs. rewrite mod_cs_of. rewrite N.mod_small by exact Hr.
    destruct (N.eqb_spec r 0) as [->|Hr0]; simpl.
    - assert (Hq : 0 < q) by (destruct (N.eq_dec q 0); [subst; lia|lia]).
      assert (Hk : k = cs * (q - 1) + (cs - 1)) by nia.
      rewrite Hk. rewrite idx_of_qr by lia.
      assert (Hj : jump <= q * (cs * nt) + 0) by (unfold jump; nia).
      destruct (N.ltb_spec (q * (cs * nt) + 0) jump); [lia|]. f_equal. unfold jump. nia.
    - assert (Hk : k = cs * q + (r - 1)) by lia.
      rewrite Hk. rewrite idx_of_qr by lia.
      destruct (N.eqb_spec (q * (cs * nt) + r) 0); [lia|]. f_equal. lia.
  Qed.

  Lemma rstep_idx_0 : rstep P jump (idx 0) = None.
  Proof.
    rewrite idx_0. unfold rstep. fold cs. rewrite N.mod_0_l by lia. simpl.
    destruct (N.ltb_spec 0 jump) as [|X]; [reflexivity|]. unfold jump in X. set (Y := (nt - 1) * cs) in X. lia.
  Qed.

  (* slices of distinct threads are disjoint and every index belongs to one: index j of the sub-array is element
     idx k of thread t (offset t*cs) exactly for t = (j / cs) mod nt, k = (j / cs / nt) * cs + j mod cs *)
  Lemma slice_decompose : forall j, exists t k, t < nt /\ j = t * cs + idx k.
  Proof.
    intros j. destruct (split_k j) as [c [r [-> Hr]]].
    exists (c mod nt), (cs * (c / nt) + r). split; [apply N.mod_lt; lia|].
    rewrite idx_of_qr by exact Hr.
    pose proof (N.div_mod c nt ltac:(lia)) as D. nia.
  Qed.

  Lemma slice_unique : forall t k t' k', t < nt -> t' < nt -> t * cs + idx k = t' * cs + idx k' -> t = t' /\ k = k'.
  Proof.
    intros t k t' k' Ht Ht' E.
    destruct (split_k k) as [q [r [-> Hr]]]. destruct (split_k k') as [q' [r' [-> Hr']]].
    rewrite !idx_of_qr in E by assumption.
    (* both sides are cs * (q*nt + t) + r: compare quotient and remainder by cs, then by nt *)
    assert (E1 : cs * (q * nt + t) + r = cs * (q' * nt + t') + r') by nia.
    assert (Hc : q * nt + t = q' * nt + t' /\ r = r').
    { split.
      - rewrite (N.div_unique (cs * (q * nt + t) + r) cs (q * nt + t) r Hr eq_refl).
        rewrite E1. symmetry. apply (N.div_unique _ _ (q' * nt + t') r' Hr' eq_refl).
      - rewrite (N.mod_unique (cs * (q * nt + t) + r) cs (q * nt + t) r Hr eq_refl).
        rewrite E1. symmetry. apply (N.mod_unique _ _ (q' * nt + t') r' Hr' eq_refl). }
    destruct Hc as [Hc ->].
    assert (Hq : q = q' /\ t = t').
    { split.
      - rewrite (N.div_unique (nt * q + t) nt q t Ht eq_refl).
        replace (nt * q + t) with (nt * q' + t') by nia. symmetry. apply (N.div_unique _ _ q' t' Ht' eq_refl).
      - rewrite (N.mod_unique (nt * q + t) nt q t Ht eq_refl).
        replace (nt * q + t) with (nt * q' + t') by nia. symmetry. apply (N.mod_unique _ _ q' t' Ht' eq_refl). }
    destruct Hq as [-> ->]. split; reflexivity.
  Qed.
End Strided.
