(* C13 -- the parallel quicksorts return a sorted permutation, for every input: the strided partitioner pass
   (StridedPass.pass_correct) discharges the last hypothesis of SortCorrect.v. *)
From Coq Require Import List NArith Bool Lia Permutation ZArith.
From QV Require Import Util.Sort Util.SortProofs Util.SortCorrect Util.StridedPass.
Import ListNotations.
Local Open Scope N_scope.

Lemma strided_pass_post_holds : forall (V : Type) (leb : V -> V -> bool) (dflt : V) (bound : N) (P : params) (L : N),
  strided_pass_post V leb dflt bound P L.
Proof.
  intros V leb dflt bound P L a b' len' p Hl HL Hb [W1 [W2 W3]].
  exact (pass_correct V leb dflt bound P b' len' p (p_nthreads P len') W1 W2 W3 Hb eq_refl a).
Qed.

(* every parameter record that is well formed (ParamsWF: above the cutoff every gap larger than the threshold holds at
   least one chunk per partition thread), every array, every length: fuel = length + 1 suffices, the call returns a
   sorted permutation and touches nothing else *)
Theorem qsort_returns_sorted_permutation :
  forall (V : Type) (leb : V -> V -> bool) (dflt : V) (bound : N) bs (P : params) L wfuel,
  OrderOK V leb -> BaseSortOK V leb dflt bound bs -> ParamsWF P L ->
  forall a len, 0 < len -> len <= L -> len <= bound ->
  exists a', qsort_inner V leb dflt bound bs P (S (N.to_nat len)) wfuel a 0 len = Some a' /\
             Permutation (to_list V dflt a bound) (to_list V dflt a' bound) /\
             SortedSeg V leb dflt a' 0 len /\ (forall k, len <= k -> aget V dflt a' k = aget V dflt a k).
Proof.
  intros V leb dflt bound bs P L wfuel O B W.
  apply (qsort_returns_sorted_permutation_pass_inst V leb dflt bound bs P L wfuel O B W).
  apply strided_pass_post_holds.
Qed.

(* ---------------------------------------------------------------------- the three instances *)
(* qutil_qsort / qutil_aligned_qsort: cache line 64 bytes (chunk 8), MT_LOOP_CHUNK = 10000 *)
Lemma qutil_params_wf : forall L, ParamsWF (qutil_params 64 10000) L.
Proof.
  intros L len l Hl HL Hs Ht Hle. change (p_thresh (qutil_params 64 10000) len) with 20000 in Ht.
  unfold PassWF. change (p_chunk (qutil_params 64 10000)) with 8.
  change (p_nthreads (qutil_params 64 10000) l) with (l / 10000 + (if negb (l mod 10000 =? 0) then 1 else 0)).
  pose proof (N.mul_div_le l 10000 ltac:(lia)) as D1. pose proof (N.mul_succ_div_gt l 10000 ltac:(lia)) as D2.
  set (q := l / 10000) in *.
  destruct (negb (l mod 10000 =? 0)); lia.
Qed.

Theorem qutil_qsort_sorted_permutation :
  forall (V : Type) (leb : V -> V -> bool) (dflt : V) (bound : N) bs wfuel,
  OrderOK V leb -> BaseSortOK V leb dflt bound bs ->
  forall a len, 0 < len -> len <= bound ->
  exists a', qsort_inner V leb dflt bound bs (qutil_params 64 10000) (S (N.to_nat len)) wfuel a 0 len = Some a' /\
             Permutation (to_list V dflt a bound) (to_list V dflt a' bound) /\
             SortedSeg V leb dflt a' 0 len /\ (forall k, len <= k -> aget V dflt a' k = aget V dflt a k).
Proof.
  intros V leb dflt bound bs wfuel O B a len Hl Hb.
  apply (qsort_returns_sorted_permutation V leb dflt bound bs (qutil_params 64 10000) len wfuel O B (qutil_params_wf len)); lia.
Qed.

(* qt_qsort on ns shepherds (chunk 10, one partition thread per shepherd); the side condition holds for ns <= 44 *)
Lemma qt_params_wf : forall ns L, 0 < ns -> 10 * ns <= 2 * (10001 / ns) -> ParamsWF (qt_params ns) L.
Proof.
  intros ns L Hns Hc len l Hl HL Hs Ht Hle.
  change (p_small (qt_params ns) len) with ((ns =? 1) || (len <=? 10000)) in Hs.
  change (p_thresh (qt_params ns) len) with (2 * (len / ns)) in Ht.
  apply orb_false_iff in Hs. destruct Hs as [_ Hs]. apply N.leb_gt in Hs.
  unfold PassWF. change (p_chunk (qt_params ns)) with 10. change (p_nthreads (qt_params ns) l) with ns.
  pose proof (N.div_le_mono 10001 len ns ltac:(lia) ltac:(lia)) as D.
  split; [lia|]. split; [exact Hns|lia].
Qed.

Theorem qt_qsort_sorted_permutation :
  forall (V : Type) (leb : V -> V -> bool) (dflt : V) (bound : N) bs ns wfuel,
  OrderOK V leb -> BaseSortOK V leb dflt bound bs -> 0 < ns -> 10 * ns <= 2 * (10001 / ns) ->
  forall a len, 0 < len -> len <= bound ->
  exists a', qsort_inner V leb dflt bound bs (qt_params ns) (S (N.to_nat len)) wfuel a 0 len = Some a' /\
             Permutation (to_list V dflt a bound) (to_list V dflt a' bound) /\
             SortedSeg V leb dflt a' 0 len /\ (forall k, len <= k -> aget V dflt a' k = aget V dflt a k).
Proof.
  intros V leb dflt bound bs ns wfuel O B H1 H2 a len Hl Hb.
  apply (qsort_returns_sorted_permutation V leb dflt bound bs (qt_params ns) len wfuel O B (qt_params_wf ns len H1 H2)); lia.
Qed.

(* the side condition for the shepherd counts of the check's configurations (and up to 44) *)
Example qt_side_condition : forallb (fun ns => 10 * ns <=? 2 * (10001 / ns)) [1; 2; 3; 4; 5; 7; 8; 16; 32; 44] = true.
Proof. vm_compute. reflexivity. Qed.
