(* C13 extension F -- one parallel partition pass under EVERY interleaving of its threads equals the sequential-in-index-
   order model Sort.partitioner that SortCorrect.v / StridedPass.v reason about. *)
From Coq Require Import List NArith Bool Lia FMapPositive PeanoNat Permutation.
From QV Require Import Util.Sort Util.SortProofs Util.SortCorrect Util.Strided Util.StridedThread Util.StridedPass Util.SortFinal
                       Util.PartInterleave Util.PartInterleaveLocal Util.PartInterleaveArray Util.PartInterleaveWalls.
Import ListNotations.
Local Open Scope N_scope.

Section Pass.
  Variable V : Type.
  Variable leb : V -> V -> bool.
  Variable dflt : V.
  Variable bound : N.
  Variable P : params.
  Variable lockf : bool.
  Variable B LEN : N.
  Variable p : V.
  Variable nt : N.

  Let cs := p_chunk P.
  Let mcs := cs * nt.
  Let jump := (nt - 1) * cs + 1.
  Let ntn := N.to_nat nt.

  Hypothesis cs_pos : 0 < cs.
  Hypothesis nt_pos : 0 < nt.
  Hypothesis mcs_le : mcs <= LEN.
  Hypothesis in_bound : B + LEN <= bound.

  Notation idx := (idx P nt).
  Notation ymx := (ymax P LEN nt).
  Notation thr := (thr V).
  Notation iter := (iter V leb dflt P lockf p).
  Notation tinit := (tinit V dflt).

  (* args[t] *)
  Definition G (t : nat) : targs :=
    {| g_b := B + N.of_nat t * cs; g_len := idx (ymx (N.of_nat t)) + 1; g_jump := jump; g_off := N.of_nat t * cs |}.
  Definition gs : list targs := mk_targs ntn 0 B LEN nt cs mcs (LEN mod mcs) (LEN / mcs).

  Lemma mk_targs_nth : forall k i, (i + k = ntn)%nat ->
    forall t, (t < k)%nat ->
    nth_error (mk_targs k (N.of_nat i) B LEN nt cs mcs (LEN mod mcs) (mcur P LEN nt (N.of_nat i))) t = Some (G (i + t)).
  Proof.
    induction k as [|k IH]; intros i Hik t Ht; [lia|].
    assert (Hi : N.of_nat i < nt) by (unfold ntn in Hik; lia).
    destruct (thread_length bound P B LEN nt cs_pos nt_pos mcs_le in_bound (N.of_nat i) Hi) as [EL EM].
    cbn [mk_targs].
    change (if negb (LEN mod mcs =? 0) && (LEN <=? (if negb (LEN mod mcs =? 0) then mcur P LEN nt (N.of_nat i) * mcs + cs else LEN - mcs + cs) + N.of_nat i * cs)
            then LEN - N.of_nat i * cs
            else if negb (LEN mod mcs =? 0) then mcur P LEN nt (N.of_nat i) * mcs + cs else LEN - mcs + cs)
      with (len_of P LEN nt (N.of_nat i) (mcur P LEN nt (N.of_nat i))).
    change (if negb (LEN mod mcs =? 0) && (LEN <=? (if negb (LEN mod mcs =? 0) then mcur P LEN nt (N.of_nat i) * mcs + cs else LEN - mcs + cs) + N.of_nat i * cs)
            then mcur P LEN nt (N.of_nat i) - 1 else mcur P LEN nt (N.of_nat i))
      with (mega_next P LEN nt (N.of_nat i) (mcur P LEN nt (N.of_nat i))).
    rewrite EL, EM.
    destruct t as [|t].
    - cbn [nth_error]. unfold G. rewrite Nat.add_0_r. reflexivity.
    - cbn [nth_error]. replace (N.of_nat i + 1) with (N.of_nat (S i)) by lia.
      rewrite (IH (S i)) by lia. f_equal. f_equal. lia.
  Qed.

  Lemma mcur_0 : mcur P LEN nt 0 = LEN / mcs.
  Proof.
    unfold mcur, mcs, cs. destruct (N.eqb_spec (LEN mod (p_chunk P * nt)) 0) as [E|E]; [reflexivity|].
    destruct (N.ltb_spec (0 * p_chunk P) (LEN mod (p_chunk P * nt))) as [H|H]; [reflexivity|].
    exfalso. apply E. rewrite N.mul_0_l in H. apply N.le_0_r in H. exact H.
  Qed.

  Lemma gs_nth : forall t, (t < ntn)%nat -> nth_error gs t = Some (G t).
  Proof.
    intros t Ht. unfold gs. rewrite <- mcur_0. change 0 with (N.of_nat 0). rewrite (mk_targs_nth ntn 0) by lia. reflexivity.
  Qed.

  Lemma mk_targs_length : forall k i b l n c m e mg, length (mk_targs k i b l n c m e mg) = k.
  Proof. induction k as [|k IH]; intros; cbn; [reflexivity|]. rewrite IH. reflexivity. Qed.

  Lemma gs_length : length gs = ntn.
  Proof. apply mk_targs_length. Qed.

  Lemma gs_nth_inv : forall t g, nth_error gs t = Some g -> (t < ntn)%nat /\ g = G t.
  Proof.
    intros t g H. assert (Ht : (t < ntn)%nat) by (rewrite <- gs_length; apply nth_error_Some; congruence).
    split; [exact Ht|]. rewrite (gs_nth t Ht) in H. congruence.
  Qed.

  (* the slices *)
  Definition F (t : nat) : N -> Prop := Fp idx (G t) (ymx (N.of_nat t)).
  Definition InvTt (t : nat) : thr -> Prop := InvT V idx (ymx (N.of_nat t)).

  Let e_left := lstep_idx P nt cs_pos nt_pos.
  Let e_right := rstep_idx_succ P nt cs_pos nt_pos.
  Let e_first := rstep_idx_0 P nt cs_pos nt_pos.
  Let e_stepi := idx_increasing P nt cs_pos nt_pos.
  Let e_zero := idx_0 P nt cs_pos nt_pos.

  Lemma F_in_sub : forall t j, (t < ntn)%nat -> F t j -> B <= j /\ j < B + LEN.
  Proof.
    intros t j Ht [k [Hk E]]. cbn [g_b G] in E.
    pose proof (proj2 (coverage bound P B LEN nt cs_pos nt_pos mcs_le in_bound (N.of_nat t) k ltac:(unfold ntn in Ht; lia)) Hk) as C.
    fold cs in C. lia.
  Qed.

  (* part_slices_disjoint: no index belongs to the slices of two threads *)
  Lemma F_disjoint : forall t u j, (t < length gs)%nat -> (u < length gs)%nat -> t <> u -> F t j -> F u j -> False.
  Proof.
    intros t u j Ht Hu Hne [k [Hk E]] [k' [Hk' E']]. rewrite gs_length in Ht, Hu. cbn [g_b G] in E, E'.
    assert (Q : N.of_nat t = N.of_nat u /\ k = k').
    { apply (slice_unique P nt cs_pos nt_pos); [unfold ntn in *; lia|unfold ntn in *; lia|fold cs; lia]. }
    destruct Q as [Q _]. apply Hne. lia.
  Qed.

  Lemma AnyF_dec : forall j, AnyF gs F j \/ ~ AnyF gs F j.
  Proof.
    intros j. destruct (N.lt_ge_cases j B) as [H1|H1].
    - right. intros [t [Ht Ft]]. rewrite gs_length in Ht. destruct (F_in_sub t j Ht Ft). lia.
    - destruct (N.lt_ge_cases j (B + LEN)) as [H2|H2].
      + left. destruct (slice_decompose P nt cs_pos nt_pos (j - B)) as [t [k [Ht E]]]. fold cs in E.
        exists (N.to_nat t). rewrite gs_length. split; [unfold ntn; lia|].
        exists k. rewrite N2Nat.id. split.
        * apply (coverage bound P B LEN nt cs_pos nt_pos mcs_le in_bound t k Ht). fold cs. lia.
        * cbn [g_b G]. rewrite N2Nat.id. lia.
      + right. intros [t [Ht Ft]]. rewrite gs_length in Ht. destruct (F_in_sub t j Ht Ft). lia.
  Qed.

  Lemma G_jump : forall t, g_jump (G t) = jump. Proof. reflexivity. Qed.
  Lemma G_len : forall t, g_len (G t) = idx (ymx (N.of_nat t)) + 1. Proof. reflexivity. Qed.

  Lemma inv_init : forall t g, nth_error gs t = Some g -> InvTt t (tinit g).
  Proof.
    intros t g H. destruct (gs_nth_inv t g H) as [_ ->].
    exact (InvT_init V dflt jump idx e_zero (G t) (ymx (N.of_nat t)) (G_jump t) (G_len t)).
  Qed.

  Lemma step_local : forall t g, nth_error gs t = Some g -> forall c a1 a2, InvTt t c -> AgreeOn V (F t) a1 a2 ->
    fst (astep V leb dflt P lockf p g c a1) = fst (astep V leb dflt P lockf p g c a2) /\
    AgreeOn V (F t) (snd (astep V leb dflt P lockf p g c a1)) (snd (astep V leb dflt P lockf p g c a2)) /\
    Outside V (F t) a1 (snd (astep V leb dflt P lockf p g c a1)) /\ Outside V (F t) a2 (snd (astep V leb dflt P lockf p g c a2)) /\
    InvTt t (fst (astep V leb dflt P lockf p g c a1)).
  Proof.
    intros t g H. destruct (gs_nth_inv t g H) as [_ ->].
    exact (astep_local V leb dflt P lockf p jump idx e_left e_right e_first e_stepi e_zero (G t) (ymx (N.of_nat t)) (G_jump t) (G_len t)).
  Qed.

  Lemma iter_local_t : forall t k c a1 a2, InvTt t c -> AgreeOn V (F t) a1 a2 ->
    fst (iter (G t) k c a1) = fst (iter (G t) k c a2) /\
    AgreeOn V (F t) (snd (iter (G t) k c a1)) (snd (iter (G t) k c a2)) /\
    Outside V (F t) a1 (snd (iter (G t) k c a1)) /\ Outside V (F t) a2 (snd (iter (G t) k c a2)) /\
    InvTt t (fst (iter (G t) k c a1)).
  Proof.
    intros t.
    exact (iter_local V leb dflt P lockf p jump idx e_left e_right e_first e_stepi e_zero (G t) (ymx (N.of_nat t)) (G_jump t) (G_len t)).
  Qed.

  Lemma iter_snoc_t : forall g k c a, iter g (S k) c a = astep V leb dflt P lockf p g (fst (iter g k c a)) (snd (iter g k c a)).
  Proof.
    intros g k c a. replace (S k) with (k + 1)%nat by lia.
    assert (A : forall n m c a, iter g (n + m) c a = iter g m (fst (iter g n c a)) (snd (iter g n c a))).
    { induction n as [|n IH]; intros m c0 a0; [reflexivity|].
      cbn [Nat.add PartInterleaveLocal.iter]. destruct (astep V leb dflt P lockf p g c0 a0) as [c' a']. apply IH. }
    rewrite A. cbn [PartInterleaveLocal.iter]. destruct (astep V leb dflt P lockf p g (fst (iter g k c a)) (snd (iter g k c a))); reflexivity.
  Qed.

  (* ------------------------------------------------------------------ the solo run of thread t from a0 and its end *)
  Variable a0 : arr V.

  Definition Final (t : nat) (c : thr) (pa : arr V) : Prop :=
    exists m, iter (G t) m (tinit (G t)) a0 = (c, pa) /\ array_pc (t_pc c) = false.

  Lemma Final_unique : forall t c pa c' pa', Final t c pa -> Final t c' pa' -> c = c' /\ pa = pa'.
  Proof.
    intros t c pa c' pa' [m [E1 H1]] [m' [E2 H2]].
    pose proof (iter_final_unique V leb dflt P lockf p jump idx e_zero (G t) (ymx (N.of_nat t)) (G_jump t) (G_len t)
                  m m' (tinit (G t)) a0) as U.
    rewrite E1, E2 in U. cbn [fst] in U. specialize (U H1 H2). injection U as -> ->. split; reflexivity.
  Qed.

  Definition off (t : nat) : N := N.of_nat t * cs.

  (* ------------------------------------------------------------------ the sequential model, thread by thread *)
  Definition SeqInv (i : nat) (a : arr V) (lwall rwall : N) : Prop :=
    (forall t, (t < i)%nat -> exists c pa, Final t c pa /\ AgreeOn V (F t) a pa) /\
    (forall t, (i <= t)%nat -> (t < ntn)%nat -> AgreeOn V (F t) a a0) /\
    Outside V (AnyF gs F) a0 a /\
    lwall <= M64 /\
    (forall t c pa, (t < i)%nat -> Final t c pa -> lwall <= t_lw c + off t /\ t_rw c + off t <= rwall) /\
    (lwall = M64 \/ exists t c pa, (t < i)%nat /\ Final t c pa /\ lwall = t_lw c + off t) /\
    (rwall = 0 \/ exists t c pa, (t < i)%nat /\ Final t c pa /\ rwall = t_rw c + off t).

  Lemma AnyF_of : forall t j, (t < ntn)%nat -> F t j -> AnyF gs F j.
  Proof. intros t j Ht Fj. exists t. rewrite gs_length. split; assumption. Qed.

  Lemma seq_spec : forall k i a lwall rwall afin l r, (i + k = ntn)%nat -> SeqInv i a lwall rwall ->
    part_threads V leb dflt bound P k (N.of_nat i) a B LEN nt mcs (LEN mod mcs) (mcur P LEN nt (N.of_nat i)) p lwall rwall
      = Some (afin, l, r) ->
    SeqInv ntn afin l r.
  Proof.
    induction k as [|k IH]; intros i a lwall rwall afin l r Hik HS E.
    - cbn in E. injection E as <- <- <-. replace ntn with i by lia. exact HS.
    - assert (Hi : N.of_nat i < nt) by (unfold ntn in Hik; lia).
      assert (Hin : (i < ntn)%nat) by lia.
      unfold mcs in E. rewrite (part_threads_S V leb dflt bound P B LEN p nt) in E.
      destruct (thread_length bound P B LEN nt cs_pos nt_pos mcs_le in_bound (N.of_nat i) Hi) as [EL EM].
      rewrite EL, EM in E. fold cs in E. fold jump in E.
      destruct (part_thread V leb dflt bound P a (B + N.of_nat i * cs) (idx (ymx (N.of_nat i)) + 1) jump p) as [[[a' lw] rw]|] eqn:ET;
        [|discriminate].
      destruct (bridge_thread V leb dflt P lockf p jump idx e_zero (G i) (ymx (N.of_nat i)) (G_jump i) (G_len i) bound a a' lw rw ET)
        as [m [c' [EI [Hp [Hlw Hrw]]]]].
      destruct HS as [S1 [S2 [S3 [S4 [S5 [S6 S7]]]]]].
      pose proof (inv_init i (G i) (gs_nth i Hin)) as II.
      destruct (iter_local_t i m (tinit (G i)) a a0 II (S2 i ltac:(lia) Hin)) as [L1 [L2 [L3 [L4 L5]]]].
      rewrite EI in L1, L2, L3. cbn [fst snd] in L1, L2, L3.
      assert (HF : Final i c' (snd (iter (G i) m (tinit (G i)) a0))).
      { exists m. split; [rewrite L1; apply surjective_pairing|].
        rewrite Hp. unfold qentry. destruct lockf; reflexivity. }
      replace (N.of_nat i + 1) with (N.of_nat (S i)) in E by lia.
      refine (IH (S i) a' _ _ afin l r ltac:(lia) _ E).
      assert (DJ : forall t, (t < ntn)%nat -> t <> i -> forall j, F t j -> F i j -> False).
      { intros t Ht Hne j. apply F_disjoint; rewrite ?gs_length; assumption. }
      split; [|split; [|split; [|split; [|split; [|split]]]]].
      + intros t Ht. destruct (Nat.eq_dec t i) as [->|Hne].
        * exists c', (snd (iter (G i) m (tinit (G i)) a0)). split; [exact HF|exact L2].
        * destruct (S1 t ltac:(lia)) as [c [pa [Fc Ac]]]. exists c, pa. split; [exact Fc|].
          eapply AgreeOn_Outside; [|exact L3|exact Ac]. apply DJ; lia.
      + intros t Ht1 Ht2. eapply AgreeOn_Outside; [|exact L3|apply S2; lia]. apply DJ; lia.
      + eapply Outside_trans; [exact S3|]. eapply Outside_weaken; [|exact L3]. intros j Fj. exact (AnyF_of i j Hin Fj).
      + destruct (N.ltb_spec (lw + N.of_nat i * cs) lwall); [lia|exact S4].
      + intros t c pa Ht Fc. destruct (Nat.eq_dec t i) as [->|Hne].
        * destruct (Final_unique i c pa c' _ Fc HF) as [-> _]. rewrite Hlw, Hrw. unfold off.
          destruct (N.ltb_spec (lw + N.of_nat i * cs) lwall); destruct (N.ltb_spec rwall (rw + N.of_nat i * cs)); lia.
        * destruct (S5 t c pa ltac:(lia) Fc) as [X Y].
          destruct (N.ltb_spec (lw + N.of_nat i * cs) lwall); destruct (N.ltb_spec rwall (rw + N.of_nat i * cs)); lia.
      + destruct (N.ltb_spec (lw + N.of_nat i * cs) lwall).
        * right. exists i, c', (snd (iter (G i) m (tinit (G i)) a0)). split; [lia|]. split; [exact HF|]. rewrite Hlw. reflexivity.
        * destruct S6 as [E6|[t [c [pa [Ht [Fc E6]]]]]]; [left; exact E6|right; exists t, c, pa; split; [lia|auto]].
      + destruct (N.ltb_spec rwall (rw + N.of_nat i * cs)).
        * right. exists i, c', (snd (iter (G i) m (tinit (G i)) a0)). split; [lia|]. split; [exact HF|]. rewrite Hrw. reflexivity.
        * destruct S7 as [E7|[t [c [pa [Ht [Fc E7]]]]]]; [left; exact E7|right; exists t, c, pa; split; [lia|auto]].
  Qed.

  Lemma SeqInv_init : SeqInv 0 a0 M64 0.
  Proof.
    split; [intros; lia|]. split; [intros; apply AgreeOn_refl|]. split; [apply Outside_refl|].
    split; [lia|]. split; [intros; lia|]. split; left; reflexivity.
  Qed.

  (* ------------------------------------------------------------------ the machine *)
  Notation run := (run V leb dflt P lockf p gs).
  Notation ginit := (ginit V dflt gs).

  Definition AllDone (st : gstate V) : Prop := forall t c, nth_error (s_thr st) t = Some c -> t_pc c = PDONE.

  Lemma mach_inv : forall sched,
    AInv V leb dflt P lockf p gs F InvTt a0 (run (ginit a0) sched) /\
    WInv V lockf gs (run (ginit a0) sched) /\ PInv V gs (run (ginit a0) sched).
  Proof.
    intros sched. split.
    - apply AInv_run; [exact F_disjoint|exact step_local|exact iter_snoc_t|].
      apply AInv_init. exact inv_init.
    - apply Inv_run; [apply WInv_init|apply PInv_init].
  Qed.

  (* every access of every thread in every reachable state lies in that thread's slice (inside the sub-array) *)
  Theorem access_in_own_slice : forall sched t c j,
    nth_error (s_thr (run (ginit a0) sched)) t = Some c -> access_of V (G t) c = Some j ->
    F t j /\ B <= j /\ j < B + LEN.
  Proof.
    intros sched t c j Hc Ha. destruct (mach_inv sched) as [[HL [cnt [HT _]]] _].
    assert (Ht : (t < ntn)%nat) by (rewrite <- gs_length, <- HL; apply nth_error_Some; congruence).
    destruct (HT t (G t) c (gs_nth t Ht) Hc) as [I0 [S0 _]].
    assert (Hap : array_pc (t_pc c) = true) by (unfold access_of in Ha; destruct (t_pc c); try discriminate; reflexivity).
    unfold Sync in S0. rewrite Hap in S0. subst c.
    assert (Fj : F t j) by exact (access_in_slice V jump idx e_zero (G t) (ymx (N.of_nat t)) (G_jump t) (G_len t) _ j I0 Ha).
    split; [exact Fj|exact (F_in_sub t j Ht Fj)].
  Qed.

  Theorem interleaving_independent : forall sched afin l r,
    partitioner V leb dflt bound P a0 B LEN p = Some (afin, l, r) -> nt = p_nthreads P LEN ->
    AllDone (run (ginit a0) sched) ->
    SameArr V (s_a (run (ginit a0) sched)) afin /\
    w_fl (s_w (run (ginit a0) sched)) = l /\ w_fr (s_w (run (ginit a0) sched)) = r.
  Proof.
    intros sched afin l r EP Hnt HD. set (st := run (ginit a0) sched) in *.
    destruct (mach_inv sched) as [[HL [cnt [HT HO]]] [HW HP]]. fold st in HL, HT, HO, HW, HP.
    (* the sequential side *)
    unfold partitioner in EP. rewrite <- Hnt in EP. fold cs in EP. fold mcs in EP.
    destruct (N.eqb_spec mcs 0) as [E0|E0]; [unfold mcs in E0; nia|].
    rewrite <- mcur_0 in EP. change 0 with (N.of_nat 0) in EP at 1.
    pose proof (seq_spec ntn 0 a0 M64 0 afin l r ltac:(lia) SeqInv_init EP) as [Q1 [_ [Q3 [Q4 [Q5 [Q6 Q7]]]]]].
    (* the machine side: every thread's final configuration is the end of its solo run *)
    assert (MF : forall t, (t < ntn)%nat -> exists ct c pa, nth_error (s_thr st) t = Some ct /\ Final t c pa /\
                   AgreeOn V (F t) (s_a st) pa /\ t_lw ct = t_lw c /\ t_rw ct = t_rw c).
    { intros t Ht. destruct (nth_error (s_thr st) t) as [ct|] eqn:Ec; [|apply nth_error_None in Ec; rewrite HL, gs_length in Ec; lia].
      destruct (HT t (G t) ct (gs_nth t Ht) Ec) as [_ [S0 A0]].
      unfold Sync in S0. rewrite (HD t ct Ec) in S0. cbn [array_pc] in S0. destruct S0 as [S1 [S2 S3]].
      exists ct, (fst (iter (G t) (cnt t) (tinit (G t)) a0)), (snd (iter (G t) (cnt t) (tinit (G t)) a0)).
      split; [reflexivity|]. split; [exists (cnt t); split; [apply surjective_pairing|exact S1]|]. auto. }
    split.
    - intros k. destruct (key_surj k) as [j ->]. destruct (AnyF_dec j) as [[t [Ht Fj]]|NF].
      + rewrite gs_length in Ht. destruct (MF t Ht) as [ct [c [pa [_ [Fc [Ac _]]]]]].
        destruct (Q1 t Ht) as [c2 [pa2 [Fc2 Ac2]]]. destruct (Final_unique t c pa c2 pa2 Fc Fc2) as [_ <-].
        rewrite (Ac j Fj), (Ac2 j Fj). reflexivity.
      + assert (NK : forall j', AnyF gs F j' -> key j <> key j') by (intros j' A E; apply key_inj in E; subst j'; exact (NF A)).
        rewrite (HO _ NK), (Q3 _ NK). reflexivity.
    - destruct (walls_final V lockf gs st HW HD) as [W1 [W2 [W3 W4]]].
      assert (WM : forall t ct c pa, (t < ntn)%nat -> nth_error (s_thr st) t = Some ct -> Final t c pa ->
                   mine_l V (G t) ct = t_lw c + off t /\ mine_r V (G t) ct = t_rw c + off t).
      { intros t ct c pa Ht Ec Fc. destruct (MF t Ht) as [ct' [c' [pa' [Ec' [Fc' [_ [X Y]]]]]]].
        rewrite Ec in Ec'. injection Ec' as <-. destruct (Final_unique t c pa c' pa' Fc Fc') as [<- _].
        unfold mine_l, mine_r, off. cbn [g_off G]. rewrite X, Y. split; reflexivity. }
      split.
      + apply N.le_antisymm.
        * destruct Q6 as [E|[t [c [pa [Ht [Fc E]]]]]]; [rewrite E; exact W2|].
          destruct (MF t Ht) as [ct [c' [pa' [Ec [Fc' _]]]]].
          destruct (W1 t (G t) ct (gs_nth t Ht) Ec) as [X _]. destruct (WM t ct c pa Ht Ec Fc) as [Y _]. lia.
        * destruct W3 as [E|[t [g [ct [Hg [Ec E]]]]]]; [rewrite E; exact Q4|].
          destruct (gs_nth_inv t g Hg) as [Ht ->]. destruct (MF t Ht) as [ct' [c [pa [Ec' [Fc _]]]]].
          rewrite Ec in Ec'. injection Ec' as <-.
          destruct (Q5 t c pa Ht Fc) as [X _]. destruct (WM t ct c pa Ht Ec Fc) as [Y _]. lia.
      + apply N.le_antisymm.
        * destruct W4 as [E|[t [g [ct [Hg [Ec E]]]]]]; [rewrite E; lia|].
          destruct (gs_nth_inv t g Hg) as [Ht ->]. destruct (MF t Ht) as [ct' [c [pa [Ec' [Fc _]]]]].
          rewrite Ec in Ec'. injection Ec' as <-.
          destruct (Q5 t c pa Ht Fc) as [_ X]. destruct (WM t ct c pa Ht Ec Fc) as [_ Y]. lia.
        * destruct Q7 as [E|[t [c [pa [Ht [Fc E]]]]]]; [rewrite E; lia|].
          destruct (MF t Ht) as [ct [c' [pa' [Ec [Fc' _]]]]].
          destruct (W1 t (G t) ct (gs_nth t Ht) Ec) as [_ X]. destruct (WM t ct c pa Ht Ec Fc) as [_ Y]. lia.
  Qed.

  (* the parent's view: when it has returned, every thread has, and its retval and the array are the sequential model's *)
  Theorem parent_view : forall sched afin l r l' r',
    partitioner V leb dflt bound P a0 B LEN p = Some (afin, l, r) -> nt = p_nthreads P LEN ->
    p_res (s_par (run (ginit a0) sched)) = Some (l', r') ->
    AllDone (run (ginit a0) sched) /\ SameArr V (s_a (run (ginit a0) sched)) afin /\ l' = l /\ r' = r.
  Proof.
    intros sched afin l r l' r' EP Hnt ER. destruct (mach_inv sched) as [_ [HW HP]].
    destruct (parent_returned V lockf gs _ l' r' HW HP ER) as [HD [E1 E2]].
    destruct (interleaving_independent sched afin l r EP Hnt HD) as [SA [F1 F2]].
    split; [exact HD|]. split; [exact SA|]. split; congruence.
  Qed.
End Pass.
