(* C13 -- qt_allpairs (src/patterns/allpairs.c): micro-step model of the work-queue protocol, and the trace
   acceptor used on the event log of the real code.  Definitions only (proofs in AllpairsProofs.v).

   Generators (the qarray_iter_constloop callbacks qt_ap_genwork / qt_ap_genwork2) enqueue one work unit
   per (range of array1) x (range of array2) into the per-shepherd sub-queue they choose; when
   qarray_iter_constloop has returned, the caller stores no_more_work = 1 and waits for donecount = number
   of workers.  A worker (one per shepherd) loops:
        finished = *no_more_work;  wu = qdqueue_dequeue(q);
        if (wu == NULL) { if (finished) { donecount++; break; } yield; } else { process wu }
   qdqueue_dequeue looks at the caller's own sub-queue first and returns NULL only when it found that one
   (and the remote ones it looked at) empty. *)
From Coq Require Import List NArith Bool Arith.
Import ListNotations.

Inductive wstate : Type :=
| WRead                      (* about to read no_more_work *)
| WDeq (finished : bool)     (* flag read, about to call qdqueue_dequeue *)
| WProc (u : N)              (* holds work unit u, about to apply the function to all its pairs *)
| WDone.                     (* incremented donecount and left *)

Record apstate : Type := {
  ap_gen : list (nat * N);       (* units not yet enqueued, with the sub-queue the generator will choose *)
  ap_flag : bool;                (* no_more_work *)
  ap_queues : list (list N);     (* one sub-queue per shepherd *)
  ap_workers : list wstate;      (* one worker per shepherd *)
  ap_processed : list N          (* units whose pairs have been processed, latest first *)
}.

(* schedule steps: the generator side, or worker w (with the remote sub-queue it inspects when its own
   one is empty; None = it finds nothing) *)
Inductive apstep : Type :=
| SGen
| SWork (w : nat) (victim : option nat).

Fixpoint upd {A : Type} (l : list A) (i : nat) (x : A) : list A :=
  match l, i with
  | [], _ => []
  | _ :: r, O => x :: r
  | y :: r, S i' => y :: upd r i' x
  end.

Definition enqueue (qs : list (list N)) (q : nat) (u : N) : list (list N) :=
  upd qs q (nth q qs [] ++ [u]).

(* take the head of sub-queue q *)
Definition dequeue_from (qs : list (list N)) (q : nat) : option (N * list (list N)) :=
  match nth q qs [] with
  | [] => None
  | u :: r => Some (u, upd qs q r)
  end.

Definition set_worker (s : apstate) (w : nat) (x : wstate) : apstate :=
  {| ap_gen := ap_gen s; ap_flag := ap_flag s; ap_queues := ap_queues s;
     ap_workers := upd (ap_workers s) w x; ap_processed := ap_processed s |}.

Definition ap_step (s : apstate) (st : apstep) : apstate :=
  match st with
  | SGen =>
    match ap_gen s with
    | (q, u) :: rest =>
      {| ap_gen := rest; ap_flag := ap_flag s;
         ap_queues := enqueue (ap_queues s) (q mod length (ap_queues s)) u;
         ap_workers := ap_workers s; ap_processed := ap_processed s |}
    | [] =>
      {| ap_gen := []; ap_flag := true; ap_queues := ap_queues s;
         ap_workers := ap_workers s; ap_processed := ap_processed s |}
    end
  | SWork w victim =>
    match nth_error (ap_workers s) w with
    | None => s
    | Some WRead => set_worker s w (WDeq (ap_flag s))
    | Some (WDeq f) =>
      let try q :=
          match dequeue_from (ap_queues s) q with
          | Some (u, qs') =>
            Some {| ap_gen := ap_gen s; ap_flag := ap_flag s; ap_queues := qs';
                    ap_workers := upd (ap_workers s) w (WProc u); ap_processed := ap_processed s |}
          | None => None
          end in
      match try w with
      | Some s' => s'
      | None =>
        match (match victim with Some v => try v | None => None end) with
        | Some s' => s'
        | None => set_worker s w (if f then WDone else WRead)     (* NULL *)
        end
      end
    | Some (WProc u) =>
      {| ap_gen := ap_gen s; ap_flag := ap_flag s; ap_queues := ap_queues s;
         ap_workers := upd (ap_workers s) w WRead; ap_processed := u :: ap_processed s |}
    | Some WDone => s
    end
  end.

Definition ap_run (s : apstate) (sched : list apstep) : apstate := fold_left ap_step sched s.

Definition ap_init (units : list (nat * N)) (k : nat) : apstate :=
  {| ap_gen := units; ap_flag := false; ap_queues := repeat [] k;
     ap_workers := repeat WRead k; ap_processed := [] |}.

Definition is_done (w : wstate) : bool := match w with WDone => true | _ => false end.
(* the caller's wait: donecount == number of workers *)
Definition all_done (s : apstate) : bool := forallb is_done (ap_workers s).

(* the pre-fix worker (tested the pointer no_more_work, always non-NULL): leaves on the first empty poll *)
Definition ap_step_ptrtest (s : apstate) (st : apstep) : apstate :=
  match st with
  | SWork w _ =>
    match nth_error (ap_workers s) w with
    | Some WRead => set_worker s w (WDeq true)
    | _ => ap_step s st
    end
  | _ => ap_step s st
  end.

(* ---------------------------------------------------------------------- work units tile the pair space *)
Definition expand (r : N * N) : list N :=
  map (fun i => (fst r + N.of_nat i)%N) (seq 0 (N.to_nat (snd r - fst r))).
Definition unit_pairs (u : (N * N) * (N * N)) : list (N * N) := list_prod (expand (fst u)) (expand (snd u)).
(* one unit per (range of array1, range of array2) *)
Definition units_of (r1 r2 : list (N * N)) : list ((N * N) * (N * N)) := list_prod r1 r2.

(* ---------------------------------------------------------------------- trace acceptor (M4)
   events of the real run, in the order of a global atomic sequence number:
     EEnq u          logged before qdqueue_enqueue[_there] of unit u
     EDeq w f r      logged after qdqueue_dequeue returned r to the worker of shepherd w; f = value of
                     *no_more_work read just before the call (>= the value the worker itself read)
     EDone w         logged at the worker's donecount increment *)
Inductive apevent : Type :=
| EEnq (u : N)
| EDeq (w : nat) (f : bool) (r : option N)
| EDone (w : nat).

Record trstate : Type := {
  tr_flagseen : bool;
  tr_queued : list N;            (* enqueued, not yet dequeued *)
  tr_enq : list N;               (* every unit ever enqueued *)
  tr_deq : list N;               (* every unit ever dequeued *)
  tr_last : list (nat * bool);   (* per worker: its previous event was an empty poll with flag f *)
  tr_done : list nat
}.

Fixpoint memN (x : N) (l : list N) : bool :=
  match l with [] => false | y :: r => N.eqb x y || memN x r end.
Fixpoint remN (x : N) (l : list N) : list N :=
  match l with [] => [] | y :: r => if N.eqb x y then r else y :: remN x r end.
Fixpoint mem_nat (x : nat) (l : list nat) : bool :=
  match l with [] => false | y :: r => Nat.eqb x y || mem_nat x r end.
Fixpoint assoc_rm (w : nat) (l : list (nat * bool)) : list (nat * bool) :=
  match l with [] => [] | (k, v) :: r => if Nat.eqb w k then assoc_rm w r else (k, v) :: assoc_rm w r end.
Fixpoint assoc_get (w : nat) (l : list (nat * bool)) : option bool :=
  match l with [] => None | (k, v) :: r => if Nat.eqb w k then Some v else assoc_get w r end.

Definition tr_init : trstate :=
  {| tr_flagseen := false; tr_queued := []; tr_enq := []; tr_deq := []; tr_last := []; tr_done := [] |}.

(* None = the event is not a behaviour of the protocol *)
Definition tr_step (s : trstate) (e : apevent) : option trstate :=
  match e with
  | EEnq u =>
    if tr_flagseen s || memN u (tr_enq s) then None
    else Some {| tr_flagseen := false; tr_queued := u :: tr_queued s; tr_enq := u :: tr_enq s;
                 tr_deq := tr_deq s; tr_last := tr_last s; tr_done := tr_done s |}
  | EDeq w f r =>
    if mem_nat w (tr_done s) then None else
    match r with
    | Some u =>
      if memN u (tr_queued s) then
        Some {| tr_flagseen := tr_flagseen s || f; tr_queued := remN u (tr_queued s); tr_enq := tr_enq s;
                tr_deq := u :: tr_deq s; tr_last := assoc_rm w (tr_last s); tr_done := tr_done s |}
      else None                       (* a unit nobody enqueued, or dequeued twice *)
    | None =>
      Some {| tr_flagseen := tr_flagseen s || f; tr_queued := tr_queued s; tr_enq := tr_enq s;
              tr_deq := tr_deq s; tr_last := (w, f) :: assoc_rm w (tr_last s); tr_done := tr_done s |}
    end
  | EDone w =>
    if mem_nat w (tr_done s) then None else
    match assoc_get w (tr_last s) with
    | Some true =>                    (* leaves only after an empty poll that began with the flag set *)
      Some {| tr_flagseen := tr_flagseen s; tr_queued := tr_queued s; tr_enq := tr_enq s;
              tr_deq := tr_deq s; tr_last := tr_last s; tr_done := w :: tr_done s |}
    | _ => None
    end
  end.

(* end-of-run obligations: every worker left, nothing is still queued *)
Definition tr_final_ok (s : trstate) (nworkers : nat) : bool :=
  Nat.eqb (length (tr_done s)) nworkers && match tr_queued s with [] => true | _ => false end.
