(* C13 extension W -- the explicit stack of drf_qsort_dbl / drf_qsort_algt as the code has it: two arrays beg[] / end[]
   and the index i, every assignment of the C text one update, the uninitialised contents of the two variable-length
   arrays arbitrary.  Theorem: this loop computes exactly what SeqSort.outer (stack = list of the live entries)
   computes -- entries above i are never read before they are written, whatever the arrays held initially.

       beg[i + 1] = L + 1; end[i + 1] = end[i]; end[i++] = L;
       if (end[i] - beg[i] > end[i - 1] - beg[i - 1]) {
           swap = beg[i]; beg[i] = beg[i - 1]; beg[i - 1] = swap;
           swap = end[i]; end[i] = end[i - 1]; end[i - 1] = swap;
       }                                                                                                         *)
From Coq Require Import List NArith Bool Lia Arith.
From QV Require Import Util.Sort Util.SeqSort.
Import ListNotations.
Local Open Scope N_scope.

Section SeqSortArr.
  Variable V : Type.
  Variable leb : V -> V -> bool.
  Variable dflt : V.

  Notation arr := (arr V).
  Notation aget := (aget V dflt).
  Notation aset := (aset V).
  Notation ploop := (ploop V leb dflt).
  Notation outer := (outer V leb dflt).

  (* an array of ssize_t indexed by the stack index; m[k] = v *)
  Definition supd (m : nat -> N) (k : nat) (v : N) : nat -> N := fun j => if Nat.eqb j k then v else m j.

  Lemma supd_same : forall m k v, supd m k v k = v.
  Proof. intros. unfold supd. rewrite Nat.eqb_refl. reflexivity. Qed.
  Lemma supd_other : forall m k v j, j <> k -> supd m k v j = m j.
  Proof. intros m k v j H. unfold supd. destruct (Nat.eqb_spec j k); [contradiction|reflexivity]. Qed.

  (* `live` = i + 1 (0: i < 0, the loop is left) *)
  Fixpoint outer_arr (fuel : nat) (cap : N) (a : arr) (b : N) (beg en : nat -> N) (live : nat) (maxd iters : N)
    : option (arr * N * N) :=
    match fuel with
    | O => None
    | S f =>
      match live with
      | O => Some (a, maxd, iters)
      | S i =>
        let maxd' := N.max maxd (N.of_nat i) in
        let L := beg i in
        let R := en i - 1 in
        if L <? R then
          let piv := aget a (b + L) in
          match ploop (S (N.to_nat (R - L))) a b piv L R with
          | None => None
          | Some (a1, Lf) =>
            let a2 := aset a1 (b + Lf) piv in
            if cap <=? N.of_nat i + 1 then None
            else
              let beg1 := supd beg (S i) (Lf + 1) in                    (* beg[i + 1] = L + 1; *)
              let en1 := supd en (S i) (en i) in                        (* end[i + 1] = end[i]; *)
              let en2 := supd en1 i Lf in                               (* end[i++] = L;   from here on the code's i is S i *)
              if en2 i - beg1 i <? en2 (S i) - beg1 (S i) then          (* end[i] - beg[i] > end[i-1] - beg[i-1] *)
                let sw := beg1 (S i) in
                let beg2 := supd beg1 (S i) (beg1 i) in
                let beg3 := supd beg2 i sw in
                let sw' := en2 (S i) in
                let en3 := supd en2 (S i) (en2 i) in
                let en4 := supd en3 i sw' in
                outer_arr f cap a2 b beg3 en4 (S (S i)) maxd' (iters + 1)
              else outer_arr f cap a2 b beg1 en2 (S (S i)) maxd' (iters + 1)
          end
        else outer_arr f cap a b beg en i maxd' (iters + 1)             (* i--; *)
      end
    end.

  (* the list holds the entries i, i-1, .., 0 of the two arrays *)
  Fixpoint Repr (stk : list (N * N)) (beg en : nat -> N) : Prop :=
    match stk with
    | [] => True
    | e :: rest => (beg (length rest), en (length rest)) = e /\ Repr rest beg en
    end.

  Lemma Repr_upd_beg : forall stk beg en k v, (length stk <= k)%nat -> Repr stk beg en -> Repr stk (supd beg k v) en.
  Proof.
    induction stk as [|e rest IH]; intros beg en k v Hk H; simpl in *; [exact I|].
    destruct H as [H1 H2]. split; [|apply IH; [lia|exact H2]].
    rewrite supd_other by lia. exact H1.
  Qed.
  Lemma Repr_upd_en : forall stk beg en k v, (length stk <= k)%nat -> Repr stk beg en -> Repr stk beg (supd en k v).
  Proof.
    induction stk as [|e rest IH]; intros beg en k v Hk H; simpl in *; [exact I|].
    destruct H as [H1 H2]. split; [|apply IH; [lia|exact H2]].
    rewrite supd_other by lia. exact H1.
  Qed.

  Lemma outer_arr_refines : forall fuel cap a b stk beg en maxd iters, Repr stk beg en ->
    outer_arr fuel cap a b beg en (length stk) maxd iters = outer fuel cap a b stk maxd iters.
  Proof.
    induction fuel as [|f IH]; intros cap a b stk beg en maxd iters HR; [reflexivity|].
    destruct stk as [|[B E] rest]; [reflexivity|].
    destruct HR as [HE HR]. injection HE as HB HE'.
    cbn [length outer_arr SeqSort.outer]. set (i := length rest) in *.
    rewrite HB, HE'.
    destruct (B <? E - 1).
    - destruct (ploop (S (N.to_nat (E - 1 - B))) a b (aget a (b + B)) B (E - 1)) as [[a1 Lf]|]; [|reflexivity].
      destruct (cap <=? N.of_nat i + 1); [reflexivity|].
      rewrite (supd_same (supd en (S i) E) i Lf).
      rewrite (supd_other beg (S i) (Lf + 1) i) by lia. rewrite HB.
      rewrite (supd_other (supd en (S i) E) i Lf (S i)) by lia. rewrite (supd_same en (S i) E).
      rewrite (supd_same beg (S i) (Lf + 1)).
      destruct (Lf - B <? E - (Lf + 1)).
      + change (S (S i)) with (length ((B, Lf) :: (Lf + 1, E) :: rest)). apply IH.
        cbn [Repr length]. fold i. split; [|split].
        * rewrite (supd_other _ i _ (S i)) by lia. rewrite supd_same.
          rewrite (supd_other _ i _ (S i)) by lia. rewrite supd_same. reflexivity.
        * rewrite !supd_same. reflexivity.
        * apply Repr_upd_beg; [fold i; lia|]. apply Repr_upd_beg; [fold i; lia|]. apply Repr_upd_beg; [fold i; lia|].
          apply Repr_upd_en; [fold i; lia|]. apply Repr_upd_en; [fold i; lia|]. apply Repr_upd_en; [fold i; lia|].
          apply Repr_upd_en; [fold i; lia|]. exact HR.
      + change (S (S i)) with (length ((Lf + 1, E) :: (B, Lf) :: rest)). apply IH.
        cbn [Repr length]. fold i. split; [|split].
        * rewrite supd_same. rewrite (supd_other _ i _ (S i)) by lia. rewrite supd_same. reflexivity.
        * rewrite (supd_other _ (S i) _ i) by lia. rewrite HB. rewrite supd_same. reflexivity.
        * apply Repr_upd_beg; [fold i; lia|]. apply Repr_upd_en; [fold i; lia|]. apply Repr_upd_en; [fold i; lia|]. exact HR.
    - apply IH. exact HR.
  Qed.

  (* drf_qsort_*: beg[0] = 0; end[0] = elements; i = 0; -- whatever the rest of the two arrays holds *)
  Lemma seqsort_array_stack_refines : forall (beg0 en0 : nat -> N) a b elements,
    outer_arr (seq_fuel elements) (stack_cap elements) a b (supd beg0 O 0) (supd en0 O elements) 1 0 0 =
    seqsort_run V leb dflt a b elements.
  Proof.
    intros beg0 en0 a b n. unfold SeqSort.seqsort_run.
    change 1%nat with (length [(0, n)]). apply outer_arr_refines.
    simpl. split; [|exact I]. rewrite !supd_same. reflexivity.
  Qed.
End SeqSortArr.
