(* C13 -- theorems about the sort model (Sort.v). *)
From Coq Require Import List NArith Bool Lia Permutation FMapPositive ZArith.
From QV Require Import Util.Sort.
Import ListNotations.
Local Open Scope N_scope.

Section SortProofs.
  Variable V : Type.
  Variable leb : V -> V -> bool.
  Variable dflt : V.
  Variable bound : N.
  Variable base_sort : arr V -> N -> N -> arr V.
  Variable P : params.

  Notation aget := (aget V dflt).
  Notation aset := (aset V).
  Notation aswap := (aswap V dflt).
  Notation aswap_c := (aswap_c V dflt bound).
  Notation to_list := (to_list V dflt).

  (* ------------------------------------------------------------------ the array map *)
  Lemma succ_pos_inj : forall i j, N.succ_pos i = N.succ_pos j -> i = j.
  Proof.
    intros i j H. apply N.succ_inj. rewrite <- !N.succ_pos_spec. rewrite H. reflexivity.
  Qed.

  Lemma aget_aset_same : forall a i v, aget (aset a i v) i = v.
  Proof. intros. unfold Sort.aget, Sort.aset. rewrite PositiveMap.gss. reflexivity. Qed.

  Lemma aget_aset_other : forall a i j v, i <> j -> aget (aset a i v) j = aget a j.
  Proof.
    intros a i j v Hne. unfold Sort.aget, Sort.aset. rewrite PositiveMap.gso; [reflexivity|].
    intro E. apply Hne. symmetry. apply succ_pos_inj. exact E.
  Qed.

  Definition transp (i j k : N) : N := if k =? i then j else if k =? j then i else k.

  Lemma aget_aswap : forall a i j k, aget (aswap a i j) k = aget a (transp i j k).
  Proof.
    intros a i j k. unfold Sort.aswap, transp.
    destruct (N.eqb_spec k j) as [->|Hkj].
    - rewrite aget_aset_same. destruct (N.eqb_spec j i) as [->|_]; reflexivity.
    - rewrite aget_aset_other by congruence.
      destruct (N.eqb_spec k i) as [->|Hki].
      + apply aget_aset_same.
      + apply aget_aset_other. congruence.
  Qed.

  Lemma transp_lt : forall n i j k, i < n -> j < n -> k < n -> transp i j k < n.
  Proof. intros. unfold transp. destruct (k =? i); [assumption|]. destruct (k =? j); assumption. Qed.

  Lemma transp_invol : forall i j k, transp i j (transp i j k) = k.
  Proof.
    intros. unfold transp.
    destruct (N.eqb_spec k i) as [->|Hki].
    - destruct (N.eqb_spec j i) as [->|Hji]; [reflexivity|]. rewrite N.eqb_refl. reflexivity.
    - destruct (N.eqb_spec k j) as [->|Hkj].
      + rewrite N.eqb_refl. reflexivity.
      + destruct (N.eqb_spec k i); [contradiction|]. destruct (N.eqb_spec k j); [contradiction|]. reflexivity.
  Qed.

  (* ------------------------------------------------------------------ index ranges *)
  Lemma in_nrange : forall k from x, In x (nrange k from) <-> from <= x < from + N.of_nat k.
  Proof.
    induction k as [|k IH]; intros from x; simpl.
    - split; [contradiction|lia].
    - rewrite IH. split.
      + intros [<-|H]; lia.
      + intros H. destruct (N.eq_dec from x); [left; assumption|right; lia].
  Qed.

  Lemma nodup_nrange : forall k from, NoDup (nrange k from).
  Proof.
    induction k as [|k IH]; intros from; simpl; constructor.
    - rewrite in_nrange. lia.
    - apply IH.
  Qed.

  Lemma in_range0 : forall n x, In x (nrange (N.to_nat n) 0) <-> x < n.
  Proof. intros. rewrite in_nrange. rewrite N2Nat.id. lia. Qed.

  (* reading the old array through an involution of the indices gives a permutation of the contents *)
  Lemma perm_of_involution : forall (a a' : arr V) n (s : N -> N),
    (forall i, i < n -> aget a' i = aget a (s i)) ->
    (forall i, i < n -> s i < n) ->
    (forall i, s (s i) = i) ->
    Permutation (to_list a n) (to_list a' n).
  Proof.
    intros a a' n s Hget Hlt Hinv. unfold Sort.to_list.
    set (r := nrange (N.to_nat n) 0).
    assert (E : map (Sort.aget V dflt a') r = map (Sort.aget V dflt a) (map s r)).
    { rewrite map_map. apply map_ext_in. intros i Hi. apply Hget. apply in_range0. exact Hi. }
    rewrite E. apply Permutation_map.
    apply NoDup_Permutation.
    - apply nodup_nrange.
    - apply FinFun.Injective_map_NoDup; [|apply nodup_nrange].
      intros x y Hxy. rewrite <- (Hinv x), <- (Hinv y), Hxy. reflexivity.
    - intros x. unfold r. rewrite in_map_iff. split.
      + intros Hx. exists (s x). split; [apply Hinv|]. apply in_range0. apply Hlt. apply in_range0. exact Hx.
      + intros [y [<- Hy]]. apply in_range0. apply Hlt. apply in_range0. exact Hy.
  Qed.

  Lemma aswap_perm : forall a n i j, i < n -> j < n ->
    Permutation (to_list a n) (to_list (aswap a i j) n).
  Proof.
    intros a n i j Hi Hj. apply (perm_of_involution a (aswap a i j) n (transp i j)).
    - intros k _. apply aget_aswap.
    - intros k Hk. apply transp_lt; assumption.
    - apply transp_invol.
  Qed.

  Definition PermA (a a' : arr V) : Prop := Permutation (to_list a bound) (to_list a' bound).

  Lemma PermA_refl : forall a, PermA a a.
  Proof. intros. apply Permutation_refl. Qed.
  Lemma PermA_trans : forall a b c, PermA a b -> PermA b c -> PermA a c.
  Proof. intros a b c. apply Permutation_trans. Qed.

  Lemma aswap_c_perm : forall a i j a', aswap_c a i j = Some a' -> PermA a a'.
  Proof.
    intros a i j a' H. unfold Sort.aswap_c in H.
    destruct (N.ltb_spec i bound); destruct (N.ltb_spec j bound); simpl in H; try discriminate.
    inversion H; subst. apply aswap_perm; assumption.
  Qed.

  (* ------------------------------------------------------------------ every phase only swaps *)
  Notation pmain := (pmain V leb dflt bound P).
  Notation part_thread := (part_thread V leb dflt bound P).
  Notation part_threads := (part_threads V leb dflt bound P).
  Notation partitioner := (partitioner V leb dflt bound P).
  Notation walls := (walls V leb dflt bound P).
  Notation fixmain := (fixmain V leb dflt bound).
  Notation fixup := (fixup V leb dflt bound).
  Notation trimedian := (trimedian V leb dflt bound).
  Notation qsort_inner_gen := (qsort_inner_gen V leb dflt bound base_sort P).
  Notation qsort_node := (qsort_node V leb dflt bound P).
  Notation movepiv := (movepiv V leb dflt bound).

  Lemma pmain_perm : forall fuel a b jump pivot lw rw a' l r,
    pmain fuel a b jump pivot lw rw = Some (a', l, r) -> PermA a a'.
  Proof.
    induction fuel as [|f IH]; intros a b jump pivot lw rw a' l r H; [discriminate|].
    change (pmain (S f) a b jump pivot lw rw) with
      (match doL V leb dflt P (S f) a b jump pivot lw rw with
       | None => None
       | Some (lw', true) => Some (a, lw', rw)
       | Some (lw', false) =>
         if rw <=? lw' then Some (a, lw', rw)
         else match doR V leb dflt P (S f) a b jump pivot rw with
              | None => None
              | Some (rw', true) => Some (a, lw', rw')
              | Some (rw', false) =>
                if rw' <=? lw' then Some (a, lw', rw')
                else match aswap_c a (b + lw') (b + rw') with
                     | None => None
                     | Some a0 => pmain f a0 b jump pivot lw' rw'
                     end
              end
       end) in H.
    destruct (doL V leb dflt P (S f) a b jump pivot lw rw) as [[lw' [|]]|]; try discriminate.
    - inversion H; subst. apply PermA_refl.
    - destruct (rw <=? lw'); [inversion H; subst; apply PermA_refl|].
      destruct (doR V leb dflt P (S f) a b jump pivot rw) as [[rw' [|]]|]; try discriminate.
      + inversion H; subst. apply PermA_refl.
      + destruct (rw' <=? lw'); [inversion H; subst; apply PermA_refl|].
        destruct (aswap_c a (b + lw') (b + rw')) as [a0|] eqn:Es; [|discriminate].
        eapply PermA_trans; [eapply aswap_c_perm; exact Es|]. eapply IH; exact H.
  Qed.

  Lemma part_thread_perm : forall a b len jump pivot a' l r,
    part_thread a b len jump pivot = Some (a', l, r) -> PermA a a'.
  Proof.
    intros a b len jump pivot a' l r H. unfold Sort.part_thread in H.
    destruct (loopA V leb dflt P _ a b jump pivot 0 (len - 1)) as [[lw [|]]|]; try discriminate.
    - inversion H; subst. apply PermA_refl.
    - destruct (loopB V leb dflt P _ a b jump pivot lw (len - 1)) as [[rw [|]]|]; try discriminate.
      + inversion H; subst. apply PermA_refl.
      + destruct (aswap_c a (b + lw) (b + rw)) as [a0|] eqn:Es; [|discriminate].
        eapply PermA_trans; [eapply aswap_c_perm; exact Es|]. eapply pmain_perm; exact H.
  Qed.

  Lemma part_threads_perm : forall k i a b length nt mcs extra mega pivot lwall rwall a' l r,
    part_threads k i a b length nt mcs extra mega pivot lwall rwall = Some (a', l, r) -> PermA a a'.
  Proof.
    induction k as [|k IH]; intros i a b length nt mcs extra mega pivot lwall rwall a' l r H; simpl in H.
    - inversion H; subst. apply PermA_refl.
    - match type of H with (match ?X with _ => _ end) = _ => destruct X as [[[a0 lw] rw]|] eqn:Et end; [|discriminate].
      eapply PermA_trans; [eapply part_thread_perm; exact Et|]. eapply IH; exact H.
  Qed.

  Lemma partitioner_perm : forall a b length pivot a' l r,
    partitioner a b length pivot = Some (a', l, r) -> PermA a a'.
  Proof.
    intros a b length pivot a' l r H. unfold Sort.partitioner in H.
    destruct (p_chunk P * p_nthreads P length =? 0); [discriminate|].
    eapply part_threads_perm; exact H.
  Qed.

  Lemma walls_perm : forall se wfuel a b thresh pivot lwall rwall a' l r,
    walls se wfuel a b thresh pivot lwall rwall = Some (a', l, r) -> PermA a a'.
  Proof.
    intros se. induction wfuel as [|f IH]; intros a b thresh pivot lwall rwall a' l r H; simpl in H.
    - destruct ((lwall <? rwall) && (thresh <? rwall - lwall)); [discriminate|].
      inversion H; subst. apply PermA_refl.
    - destruct ((lwall <? rwall) && (thresh <? rwall - lwall)).
      + destruct (partitioner a (b + lwall) (rwall - lwall + 1) pivot) as [[[a0 l0] r0]|] eqn:Ep; [|discriminate].
        assert (P0 : PermA a a0) by (eapply partitioner_perm; exact Ep).
        destruct (se && ((r0 + lwall <=? l0 + lwall) || (rwall - lwall <=? r0 + lwall - (l0 + lwall)))).
        * inversion H; subst. exact P0.
        * eapply PermA_trans; [exact P0|]. eapply IH; exact H.
      + inversion H; subst. apply PermA_refl.
  Qed.

  (* with the no-progress exit the partition loop cannot run out of fuel: when every pass returns, the loop
     returns as soon as the fuel exceeds the gap (the gap strictly shrinks on every pass that does not exit) *)
  Lemma walls_terminates : forall wfuel a b thresh pivot lwall rwall,
    (forall a0 b0 l0 p0, partitioner a0 b0 l0 p0 <> None) ->
    (N.to_nat (rwall - lwall) < wfuel)%nat ->
    walls true wfuel a b thresh pivot lwall rwall <> None.
  Proof.
    intros wfuel a b thresh pivot lwall rwall Hpart. revert a lwall rwall.
    induction wfuel as [|f IH]; intros a lwall rwall Hf; [lia|].
    simpl.
    destruct ((lwall <? rwall) && (thresh <? rwall - lwall)); [|discriminate].
    destruct (partitioner a (b + lwall) (rwall - lwall + 1) pivot) as [[[a0 l0] r0]|] eqn:Ep.
    - simpl.
      destruct (N.leb_spec (r0 + lwall) (l0 + lwall)); simpl; [discriminate|].
      destruct (N.leb_spec (rwall - lwall) (r0 + lwall - (l0 + lwall))); simpl; [discriminate|].
      apply IH. lia.
    - exfalso. exact (Hpart _ _ _ _ Ep).
  Qed.

  Lemma fixmain_perm : forall fuel a b pivot lw rw a' l r fl,
    fixmain fuel a b pivot lw rw = Some (a', l, r, fl) -> PermA a a'.
  Proof.
    induction fuel as [|f IH]; intros a b pivot lw rw a' l r fl H; [discriminate|].
    change (fixmain (S f) a b pivot lw rw) with
      (let lw' := fixL V leb dflt (S f) a b pivot lw rw in
       if rw <? lw' then Some (a, lw', rw, true)
       else match fixR V leb dflt (S f) a b pivot lw' rw with
            | None => None
            | Some rw' =>
              if rw' <? lw' then Some (a, lw', rw', true)
              else match aswap_c a (b + lw') (b + rw') with
                   | None => None
                   | Some a0 => fixmain f a0 b pivot lw' rw'
                   end
            end) in H.
    cbv zeta in H.
    destruct (rw <? fixL V leb dflt (S f) a b pivot lw rw); [inversion H; subst; apply PermA_refl|].
    destruct (fixR V leb dflt (S f) a b pivot (fixL V leb dflt (S f) a b pivot lw rw) rw) as [rw'|]; [|discriminate].
    destruct (rw' <? fixL V leb dflt (S f) a b pivot lw rw); [inversion H; subst; apply PermA_refl|].
    destruct (aswap_c a (b + fixL V leb dflt (S f) a b pivot lw rw) (b + rw')) as [a0|] eqn:Es; [|discriminate].
    eapply PermA_trans; [eapply aswap_c_perm; exact Es|]. eapply IH; exact H.
  Qed.

  Lemma fixup_perm : forall a b len pivot lwall rwall a' rw,
    fixup a b len pivot lwall rwall = Some (a', rw) -> PermA a a'.
  Proof.
    intros a b len pivot lwall rwall a' rw H. unfold Sort.fixup in H.
    set (fuel := S (S (N.to_nat len))) in *.
    set (lw := fixA V leb dflt fuel a b pivot lwall rwall) in *.
    set (rw0 := fixB V leb dflt fuel a b pivot lw rwall) in *.
    destruct (lw <? rw0).
    - destruct (aswap_c a (b + lw) (b + rw0)) as [a0|] eqn:Es; [|discriminate].
      destruct (fixmain fuel a0 b pivot lw rw0) as [[[[a1 l1] r1] f1]|] eqn:Ef; [|discriminate].
      inversion H; subst.
      eapply PermA_trans; [eapply aswap_c_perm; exact Es|]. eapply fixmain_perm; exact Ef.
    - inversion H; subst. apply PermA_refl.
  Qed.

  Lemma trimedian_perm : forall a b len a', trimedian a b len = Some a' -> PermA a a'.
  Proof.
    intros a b len a' H. unfold Sort.trimedian in H.
    match type of H with (match ?X with _ => _ end) = _ => destruct X as [a1|] eqn:E1 end; [|discriminate].
    match type of H with (match ?X with _ => _ end) = _ => destruct X as [a2|] eqn:E2 end; [|discriminate].
    assert (P1 : PermA a a1).
    { destruct (gtb V leb (aget a b) (aget a (b + len / 2))).
      - eapply aswap_c_perm; exact E1.
      - inversion E1; subst. apply PermA_refl. }
    assert (P2 : PermA a1 a2).
    { destruct (gtb V leb (aget a1 b) (aget a1 (b + len - 1))).
      - eapply aswap_c_perm; exact E2.
      - inversion E2; subst. apply PermA_refl. }
    eapply PermA_trans; [exact P1|]. eapply PermA_trans; [exact P2|].
    destruct (gtb V leb (aget a2 (b + len / 2)) (aget a2 (b + len - 1))).
    - eapply aswap_c_perm; exact H.
    - inversion H; subst. apply PermA_refl.
  Qed.

  Lemma movepiv_perm : forall fuel a b pivot l rw a' rw',
    movepiv fuel a b pivot l rw = Some (a', rw') -> PermA a a'.
  Proof.
    induction fuel as [|f IH]; intros a b pivot l rw a' rw' H; simpl in H; [discriminate|].
    destruct (l <? rw).
    - destruct (eqv V leb (aget a (b + l)) pivot).
      + destruct (aswap_c a (b + l) (b + (rw - 1))) as [a0|] eqn:Es; [|discriminate].
        eapply PermA_trans; [eapply aswap_c_perm; exact Es|]. eapply IH; exact H.
      + eapply IH; exact H.
    - inversion H; subst. apply PermA_refl.
  Qed.

  (* the new right wall never exceeds the old one *)
  Lemma movepiv_le : forall fuel a b pivot l rw a' rw',
    movepiv fuel a b pivot l rw = Some (a', rw') -> rw' <= rw.
  Proof.
    induction fuel as [|f IH]; intros a b pivot l rw a' rw' H; simpl in H; [discriminate|].
    destruct (N.ltb_spec l rw).
    - destruct (eqv V leb (aget a (b + l)) pivot).
      + destruct (aswap_c a (b + l) (b + (rw - 1))) as [a0|]; [|discriminate].
        apply IH in H. lia.
      + eapply IH; exact H.
    - inversion H; subst. lia.
  Qed.

  Lemma node_perm : forall newrule se wfuel a b len a' rw pd,
    qsort_node newrule se wfuel a b len = Some (a', rw, pd) -> PermA a a'.
  Proof.
    intros newrule se wfuel a b len a' rw pd H. unfold Sort.qsort_node in H.
    destruct (trimedian a b len) as [a1|] eqn:Et; [|discriminate].
    destruct (walls se (if se then S (N.to_nat len) else wfuel) a1 b (p_thresh P len) (aget a1 (b + len / 2)) 0 (len - 1)) as [[[a2 lwall] rwall]|] eqn:Ew; [|discriminate].
    destruct (fixup a2 b len (aget a1 (b + len / 2)) lwall rwall) as [[a3 rw0]|] eqn:Ef; [|discriminate].
    assert (P3 : PermA a a3).
    { eapply PermA_trans; [eapply trimedian_perm; exact Et|].
      eapply PermA_trans; [eapply walls_perm; exact Ew|]. eapply fixup_perm; exact Ef. }
    destruct (newrule && (rw0 =? len)).
    - destruct (movepiv _ a3 b (aget a1 (b + len / 2)) 0 rw0) as [[a4 rw4]|] eqn:Em; [|discriminate].
      inversion H; subst. eapply PermA_trans; [exact P3|]. eapply movepiv_perm; exact Em.
    - inversion H; subst. exact P3.
  Qed.

  (* the sort used below the cutoff permutes the allocation when its segment lies inside it *)
  Hypothesis base_sort_perm : forall a b len, b + len <= bound -> PermA a (base_sort a b len).

  (* sort_permutation: whatever the parameters (chunk, thread count, cutoff, threshold), the rule (current code /
     code before the pivot-is-maximum fix), the fuel and the input, a run that returns has only permuted the array *)
  Theorem qsort_permutation : forall newrule se fuel wfuel a b len a',
    qsort_inner_gen newrule se fuel wfuel a b len = Some a' -> PermA a a'.
  Proof.
    intros newrule se. induction fuel as [|f IH]; intros wfuel a b len a' H; [discriminate|].
    simpl in H.
    destruct (p_small P len).
    - destruct (N.leb_spec (b + len) bound); [|discriminate]. inversion H; subst. apply base_sort_perm. assumption.
    - destruct (qsort_node newrule se wfuel a b len) as [[[a3 rw] pd]|] eqn:En; [|discriminate].
      assert (P3 : PermA a a3) by (eapply node_perm; exact En).
      destruct (0 <? rw).
      + destruct (qsort_inner_gen newrule se f wfuel a3 b rw) as [a4|] eqn:E4; [|discriminate].
        assert (P4 : PermA a a4) by (eapply PermA_trans; [exact P3|eapply IH; exact E4]).
        destruct (negb pd && (0 <? len - rw) && (rw <? len)).
        * eapply PermA_trans; [exact P4|]. eapply IH; exact H.
        * inversion H; subst. exact P4.
      + destruct (negb pd && (0 <? len - rw) && (rw <? len)).
        * eapply PermA_trans; [exact P3|]. eapply IH; exact H.
        * inversion H; subst. exact P3.
  Qed.

  (* ------------------------------------------------------------------ termination of the recursion *)
  (* The recursion of the current code: every recursive call is on a strictly shorter segment as soon as one call
     of the node (tri-median + partition passes + fix-up + pivot rule) returns with
       pivots_done = false  ->  0 < rightwall < len      (both parts non-empty: the partition postcondition)
       pivots_done = true   ->  rightwall < len           (the pivot itself was moved to the end).
     NodeOK states exactly that for every segment; under it fuel = len + 1 is enough for every input. *)
  Definition NodeOK (newrule se : bool) (wfuel : nat) : Prop :=
    forall a b len, p_small P len = false -> b + len <= bound ->
      exists a' rw pd, qsort_node newrule se wfuel a b len = Some (a', rw, pd) /\
                       rw < len /\ (pd = false -> 0 < rw).

  Theorem qsort_terminates_partial : forall newrule se wfuel, NodeOK newrule se wfuel ->
    forall fuel a b len, b + len <= bound -> (N.to_nat len < fuel)%nat ->
    qsort_inner_gen newrule se fuel wfuel a b len <> None.
  Proof.
    intros newrule se wfuel Hnode.
    induction fuel as [|f IH]; intros a b len Hb Hf; [lia|].
    simpl.
    destruct (p_small P len) eqn:Es.
    - destruct (N.leb_spec (b + len) bound); [discriminate|lia].
    - destruct (Hnode a b len Es Hb) as [a3 [rw [pd [En [Hlt Hpos]]]]]. rewrite En.
      assert (L : forall a0, (if 0 <? rw then qsort_inner_gen newrule se f wfuel a0 b rw else Some a0) <> None).
      { intros a0. destruct (0 <? rw); [|discriminate]. apply IH; lia. }
      destruct (if 0 <? rw then qsort_inner_gen newrule se f wfuel a3 b rw else Some a3) as [a4|] eqn:E4.
      + destruct (negb pd && (0 <? len - rw) && (rw <? len)) eqn:Ec; [|discriminate].
        assert (pd = false) by (destruct pd; [discriminate|reflexivity]).
        specialize (Hpos H). apply IH; lia.
      + exfalso. exact (L a3 E4).
  Qed.

  (* the mechanism of the non-termination of the code BEFORE the fix: when the node leaves the segment as it is
     with everything <= pivot (left part = whole segment), the call recurses on itself: no fuel is enough *)
  Lemma qsort_old_stuck : forall wfuel a b len,
    p_small P len = false ->
    qsort_node false false wfuel a b len = Some (a, len, false) ->
    0 < len ->
    forall fuel, qsort_inner_gen false false fuel wfuel a b len = None.
  Proof.
    intros wfuel a b len Hs Hn Hl fuel.
    induction fuel as [|f IH]; [reflexivity|].
    simpl. rewrite Hs, Hn.
    destruct (N.ltb_spec 0 len) as [_|Hc]; [|lia].
    rewrite IH. reflexivity.
  Qed.
End SortProofs.

(* ---------------------------------------------------------------------- regression: the code before the fix *)
(* scaled-down instance of qutil_qsort: cache line 16 bytes (chunk 2), MT_LOOP_CHUNK = 4 (cutoff: len <= 4,
   parallel partition when the gap exceeds 8); elements are integers *)
Definition id_sort (a : arr Z) (b len : N) : arr Z := a.
Definition small_qsort (newrule : bool) (bound : N) (fuel wfuel : nat) (l : list Z) : option (list Z) :=
  match qsort_inner_gen Z Z.leb 0%Z bound id_sort (qutil_params 16 4) newrule newrule fuel wfuel (of_list Z l) 0 (N.of_nat (length l)) with
  | None => None
  | Some a => Some (to_list Z 0%Z a (N.of_nat (length l)))
  end.

(* OLD rule: five equal elements, one more than the cutoff: the pivot is the maximum, the left part is the whole
   array again, and no amount of fuel is enough *)
Example qsort_const_diverged_old : forall fuel wfuel, small_qsort false 5 fuel wfuel [7; 7; 7; 7; 7]%Z = None.
Proof.
  intros fuel wfuel. unfold small_qsort.
  change (N.of_nat (length [7; 7; 7; 7; 7]%Z)) with 5.
  rewrite (qsort_old_stuck Z Z.leb 0%Z 5 id_sort (qutil_params 16 4) wfuel (of_list Z [7; 7; 7; 7; 7]%Z) 0 5).
  - reflexivity.
  - reflexivity.
  - destruct wfuel; vm_compute; reflexivity.
  - reflexivity.
Qed.

(* CURRENT rule: the same input returns (all five pivots are moved "to the end", the left part is empty) *)
Example qsort_const_returns : small_qsort true 5 6 1 [7; 7; 7; 7; 7]%Z = Some [7; 7; 7; 7; 7]%Z.
Proof. vm_compute. reflexivity. Qed.
Example qsort_mostly_max_returns : small_qsort true 6 7 1 [9; 5; 9; 9; 9; 9]%Z = Some [5; 9; 9; 9; 9; 9]%Z.
Proof. vm_compute. reflexivity. Qed.

(* the code returns when the elements differ (non-vacuity of the permutation theorem: swaps happen); the
   segments below the cutoff are left to the base sort, which is the identity in this instance *)
Example small_qsort_runs : small_qsort true 7 10 10 [5; 3; 9; 1; 7; 2; 8]%Z = Some [1; 3; 2; 5; 7; 9; 8]%Z.
Proof. vm_compute. reflexivity. Qed.

(* regression for the partition-stall fix: on this input the pass on [2, 11] returns the walls (2, 11) again.
   Loop before the fix (stall_exit = false): 40 passes are not enough (nor any other number: every pass is the same);
   current loop: the second pass does not narrow the gap, the loop exits and the call returns. *)
Definition stall_input : list Z := [1; 1; 2; 2; 1; 1; 1; 1; 2; 2; 1; 1]%Z.
Example qsort_stall_old_rule :
  qsort_inner_gen Z Z.leb 0%Z 12 id_sort (qutil_params 16 4) true false 13 40 (of_list Z stall_input) 0 12 = None.
Proof. vm_compute. reflexivity. Qed.
Example qsort_stall_fixed :
  small_qsort true 12 13 0 stall_input = Some [1; 1; 1; 1; 1; 1; 1; 1; 2; 2; 2; 2]%Z.
Proof. vm_compute. reflexivity. Qed.
