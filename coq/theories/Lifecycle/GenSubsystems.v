(* GENERATED on every run by lib/verif/props/c19_subsystems.py from the preprocessed library sources -- do not edit.
   row id = position.  Source facts:
      0  affinity/hwloc.c                   qt_affinity_init                             Normal cleanup=qt_affinity_internal_hwloc_teardown
      1  hazardptrs.c                       initialize_hazardptrs                        Normal cleanup=hazardptr_internal_teardown
      2  teams.c                            qt_internal_teams_init                       Normal cleanup=qt_internal_teams_shutdown
      3  teams.c                            qt_internal_teams_init                       Late   cleanup=qt_internal_teams_destroy
      4  queue.c                            qthread_queue_subsystem_init                 Normal cleanup=qthread_queue_subsystem_shutdown
      5  feb.c                              qt_feb_subsystem_init                        Late   cleanup=qt_feb_subsystem_shutdown
      6  syncvar.c                          qt_syncvar_subsystem_init                    Late   cleanup=qt_syncvar_subsystem_shutdown
      7  threadqueues/sherwood_threadqueues.c qt_threadqueue_subsystem_init                Normal cleanup=qt_threadqueue_subsystem_shutdown
      8  io.c                               qt_blocking_subsystem_init                   Early  cleanup=qt_blocking_subsystem_internal_stopwork
      9  io.c                               qt_blocking_subsystem_init                   Normal cleanup=qt_blocking_subsystem_internal_freemem
     10  barrier/feb.c                      qt_barrier_create                            Normal cleanup=cleanup_barrier  LAZY
     11  ds/qlfqueue.c                      qlfqueue_create                              Late   cleanup=qlfqueue_internal_cleanup  LAZY
     12  ds/dictionary/dictionary_shavit.c  qt_hash_create                               Late   cleanup=-  LAZY  !! created on first use, never destroyed, no cleanup registered
     13  patterns/wavefront.c               qt_wavefront                                 Late   cleanup=-  LAZY  !! created on first use, never destroyed, no cleanup registered
     14  ds/qarray.c                        qarray_create_internal                       Late   cleanup=atexit:qarray_free_cdt  LAZY  !! released by an atexit handler, not by qthread_finalize
*)
From Coq Require Import List.
From QV Require Import Lifecycle.Model.
Import ListNotations.

Definition gen_table : table :=
  [
    mkRow Normal false true true false;
    mkRow Normal false true true false;
    mkRow Normal false true true false;
    mkRow Late false true true false;
    mkRow Normal false true true false;
    mkRow Late false true true false;
    mkRow Late false true true false;
    mkRow Normal false true true false;
    mkRow Early false true true true;
    mkRow Normal false true true false;
    mkRow Normal true true true false;
    mkRow Late true true true false;
    mkRow Late true false true false;
    mkRow Late true false true false;
    mkRow Late true false true false
  ].

Definition gen_atexit_every_initialize : bool := false.
