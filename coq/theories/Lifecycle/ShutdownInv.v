(* C19 extension U: the invariant of the shutdown machine (code variant, v = false) and deadlock freedom *)
From Coq Require Import List Arith Bool Lia.
From QV Require Import Lifecycle.Shutdown Lifecycle.ShutdownProofs.
Import ListNotations.

Definition enq_pos (n : nat) f := match f with FEnq k => k | FRead k | FCas k => S k | _ => n end.
Definition act_pos (n : nat) f := match f with FEnq k | FRead k | FCas k => k | _ => n end.
Definition join_pos (n : nat) f := match f with FEnq _ | FRead _ | FCas _ | FEarly => 0 | FJoin k => k | _ => n end.
Definition fin_ok (n : nat) f := match f with FEnq k | FRead k | FCas k | FJoin k => k < n | _ => True end.
Definition qtl (l : list shep) i := match nth_error l i with Some sh => qterm sh | None => 0 end.
Definition ind (b : bool) := if b then 1 else 0.
Definition fex i w := ind ((wshep w =? i) && is_exit w).
Definition fen i w := ind ((wshep w =? i) && wterm w).
Definition fsh i w := ind (wshep w =? i).

Record Inv (s : state) : Prop := {
  i_fin : fin_ok (length (workers s)) (fin s);
  i_shep : forall k w, nth_error (workers s) k = Some w -> wshep w < length (sheps s);
  i_term : forall k w, nth_error (workers s) k = Some w -> (wterm w = true <-> k < enq_pos (length (workers s)) (fin s));
  i_act : forall k w, nth_error (workers s) k = Some w -> k < act_pos (length (workers s)) (fin s) -> wact w = true;
  i_join : forall k w, nth_error (workers s) k = Some w -> k < join_pos (length (workers s)) (fin s) -> wpc_ w = WExit;
  i_acc : forall i, qtl (sheps s) i + sum (fex i) (workers s) = sum (fen i) (workers s) }.

Lemma qtl_upd l i0 sh sh' i : nth_error l i0 = Some sh -> qtl (upd l i0 sh') i = if i =? i0 then qterm sh' else qtl l i.
Proof.
  intros H. unfold qtl. destruct (i =? i0) eqn:E.
  - apply Nat.eqb_eq in E. subst. rewrite (nth_error_upd_eq _ _ _ _ H). auto.
  - apply Nat.eqb_neq in E. rewrite nth_error_upd_neq; auto.
Qed.

Lemma qtl_same_qterm l i0 sh sh' i : nth_error l i0 = Some sh -> qterm sh' = qterm sh -> qtl (upd l i0 sh') i = qtl l i.
Proof.
  intros H E. rewrite (qtl_upd _ _ _ _ _ H). destruct (i =? i0) eqn:Q; auto.
  apply Nat.eqb_eq in Q. subst. unfold qtl. rewrite H. auto.
Qed.

(* a worker step that replaces worker k by w' with the same shepherd / flag / ghost, and exits only by `ex` *)
Lemma inv_worker_upd s k w w' shs' tr' :
  Inv s -> nth_error (workers s) k = Some w ->
  wshep w' = wshep w -> wact w' = wact w -> wterm w' = wterm w -> (wpc_ w = WExit -> wpc_ w' = WExit) ->
  length shs' = length (sheps s) ->
  (forall i, qtl shs' i + fex i w' + sum (fex i) (workers s) = qtl (sheps s) i + fex i w + sum (fex i) (workers s)) ->
  Inv (mkSt shs' (upd (workers s) k w') (fin s) tr').
Proof.
  intros I Hw E1 E2 E3 E4 L Q. destruct I as [If Is It Ia Ij Ic].
  constructor; cbn [workers sheps fin]; rewrite ?length_upd.
  - auto.
  - intros k' x H. rewrite L. destruct (nth_error_upd_cases _ _ _ _ _ _ Hw H) as [[-> ->]|[N H']]; eauto; try (rewrite E1; eauto).
  - intros k' x H. destruct (nth_error_upd_cases _ _ _ _ _ _ Hw H) as [[-> ->]|[N H']]; eauto; try (rewrite E3; eauto).
  - intros k' x H. destruct (nth_error_upd_cases _ _ _ _ _ _ Hw H) as [[-> ->]|[N H']]; eauto; try (rewrite E2; eauto).
  - intros k' x H P. destruct (nth_error_upd_cases _ _ _ _ _ _ Hw H) as [[-> ->]|[N H']]; eauto.
  - intros i. pose proof (sum_upd (fex i) _ _ w' _ Hw). pose proof (sum_upd (fen i) _ _ w' _ Hw).
    assert (fen i w' = fen i w) by (unfold fen; rewrite E1, E3; auto).
    specialize (Ic i). specialize (Q i). lia.
Qed.

Lemma fex_pc i w p : wpc_ w <> WExit -> p <> WExit -> fex i (set_pc w p) = fex i w.
Proof.
  intros A B. unfold fex, is_exit. cbn [wshep wpc_ set_pc]. destruct (wpc_ w), p; try congruence; auto.
Qed.

Lemma step_inv s a s' : Inv s -> step false s a = Some s' -> Inv s'.
Proof.
  intros I. destruct a as [|k|k|k d|k vi m|k]; cbn [step].
  - (* finalizer *)
    destruct I as [If Is It Ia Ij Ic]. unfold fin_step. destruct (fin s) eqn:F; cbn [fin_ok enq_pos act_pos join_pos] in *.
    + destruct (nth_error (workers s) k) as [w|] eqn:Hw; try discriminate.
      destruct (nth_error (sheps s) (wshep w)) as [sh|] eqn:Hs; try discriminate.
      intros H; injection H as <-.
      constructor; cbn [workers sheps fin fin_ok enq_pos act_pos join_pos]; rewrite ?length_upd; auto.
      * intros k' x H. destruct (nth_error_upd_cases _ _ _ _ _ _ Hw H) as [[-> ->]|[N H']]; eauto. cbn. eauto.
      * intros k' x H. destruct (nth_error_upd_cases _ _ _ _ _ _ Hw H) as [[-> ->]|[N H']].
        { cbn. split; auto. }
        { rewrite (It _ _ H'). lia. }
      * intros k' x H P. destruct (nth_error_upd_cases _ _ _ _ _ _ Hw H) as [[-> ->]|[N H']]; try lia. eauto.
      * intros k' x H P. lia.
      * intros i. rewrite (qtl_upd _ _ _ _ _ Hs).
        pose proof (sum_upd (fex i) _ _ (set_term w) _ Hw). pose proof (sum_upd (fen i) _ _ (set_term w) _ Hw).
        assert (fex i (set_term w) = fex i w) by reflexivity.
        assert (wterm w = false) as Wt.
        { destruct (wterm w) eqn:E; auto. apply (It _ _ Hw) in E. lia. }
        specialize (Ic i). unfold fen in *. cbn [wshep wterm set_term] in *. rewrite Wt in *.
        destruct (i =? wshep w) eqn:E.
        { apply Nat.eqb_eq in E. subst i. rewrite Nat.eqb_refl in *. unfold qtl in Ic. rewrite Hs in Ic. cbn in *. lia. }
        { rewrite Nat.eqb_sym in E. rewrite E in *. cbn in *. lia. }
    + destruct (nth_error (workers s) k) as [w|] eqn:Hw; try discriminate.
      intros H; injection H as <-. unfold with_fin.
      destruct (wact w) eqn:A.
      * destruct (next_enq_cases (length (workers s)) (S k)) as [[L ->]|[L ->]];
          constructor; cbn [workers sheps fin fin_ok enq_pos act_pos join_pos]; auto.
        all: try solve [intros k' x H P; lia].
        all: try solve [intros k' x H P; destruct (Nat.eq_dec k' k) as [->|N]; [congruence|]; apply (Ia _ _ H); pose proof (nth_error_lt _ _ _ H); lia].
        all: try solve [intros k' x H; rewrite (It _ _ H); pose proof (nth_error_lt _ _ _ H); lia].
      * constructor; cbn [workers sheps fin fin_ok enq_pos act_pos join_pos]; auto.
    + destruct (nth_error (workers s) k) as [w|] eqn:Hw; try discriminate.
      intros H; injection H as <-.
      assert (forall f : worker -> nat, f (set_act w true) = f w -> sum f (upd (workers s) k (set_act w true)) = sum f (workers s)) as SU.
      { intros f E. pose proof (sum_upd f _ _ (set_act w true) _ Hw). rewrite E in *. lia. }
      destruct (next_enq_cases (length (workers s)) (S k)) as [[L ->]|[L ->]];
        constructor; cbn [workers sheps fin fin_ok enq_pos act_pos join_pos]; rewrite ?length_upd; auto.
      all: try solve [intros i; rewrite !SU by reflexivity; auto].
      all: try solve [intros k' x H P; lia].
      all: try solve [intros k' x H; destruct (nth_error_upd_cases _ _ _ _ _ _ Hw H) as [[-> ->]|[N H']]; cbn [wshep set_act]; eauto].
      all: try solve [intros k' x H; destruct (nth_error_upd_cases _ _ _ _ _ _ Hw H) as [[-> ->]|[N H']]; cbn [wterm set_act];
                      [rewrite (It _ _ Hw); lia | rewrite (It _ _ H'); pose proof (nth_error_lt _ _ _ H'); lia]].
      all: try solve [intros k' x H P; destruct (nth_error_upd_cases _ _ _ _ _ _ Hw H) as [[-> ->]|[N H']];
                      [reflexivity | apply (Ia _ _ H'); pose proof (nth_error_lt _ _ _ H'); lia]].
    + intros H; injection H as <-. unfold with_fin.
      destruct (next_join_cases (length (workers s)) 0) as [[L ->]|[L ->]];
        constructor; cbn [workers sheps fin fin_ok enq_pos act_pos join_pos]; auto.
      all: try solve [intros k' x H P; lia].
      all: try solve [intros k' x H P; pose proof (nth_error_lt _ _ _ H); lia].
    + destruct (nth_error (workers s) k) as [w|] eqn:Hw; try discriminate.
      destruct (wpc_ w) eqn:P; try discriminate.
      intros H; injection H as <-. unfold with_fin.
      destruct (next_join_cases (length (workers s)) (S k)) as [[L ->]|[L ->]];
        constructor; cbn [workers sheps fin fin_ok enq_pos act_pos join_pos]; auto.
      all: try solve [intros k' x H Q; destruct (Nat.eq_dec k' k) as [->|N]; [congruence|]; apply (Ij _ _ H); pose proof (nth_error_lt _ _ _ H); lia].
    + intros H; injection H as <-. constructor; cbn [with_fin workers sheps fin fin_ok enq_pos act_pos join_pos]; auto.
    + intros H; injection H as <-. constructor; cbn [with_fin workers sheps fin fin_ok enq_pos act_pos join_pos]; auto.
    + intros H; injection H as <-. constructor; cbn [with_fin workers sheps fin fin_ok enq_pos act_pos join_pos]; auto.
    + discriminate.
  - unfold w_check. destruct (nth_error (workers s) k) as [w|] eqn:Hw; try discriminate.
    destruct (wpc_ w) eqn:P; try discriminate. destruct (wact w); intros H; injection H as <-; auto.
    apply (inv_worker_upd s k w); auto; try congruence.
    intros i. rewrite fex_pc; congruence.
  - unfold w_term. destruct (nth_error (workers s) k) as [w|] eqn:Hw; try discriminate.
    destruct (wpc_ w) eqn:P; try discriminate. destruct (nth_error (sheps s) (wshep w)) as [sh|] eqn:Hs; try discriminate.
    destruct (0 <? qterm sh) eqn:Q; try discriminate. apply Nat.ltb_lt in Q. intros H; injection H as <-.
    apply (inv_worker_upd s k w); auto; try congruence.
    + apply length_upd.
    + intros i. rewrite (qtl_upd _ _ _ _ _ Hs). unfold fex, is_exit. cbn [wshep wpc_ set_pc del_term qterm]. rewrite P.
      destruct (i =? wshep w) eqn:E.
      * apply Nat.eqb_eq in E. subst i. rewrite Nat.eqb_refl. unfold qtl. rewrite Hs. cbn. lia.
      * rewrite Nat.eqb_sym in E. rewrite E. cbn. lia.
  - unfold w_task. destruct (nth_error (workers s) k) as [w|] eqn:Hw; try discriminate.
    destruct (wpc_ w) eqn:P; try discriminate. destruct (nth_error (sheps s) (wshep w)) as [sh|] eqn:Hs; try discriminate.
    destruct (0 <? qtask sh); try discriminate.
    destruct (sact sh) eqn:A.
    + intros H; injection H as <-. apply (inv_worker_upd s k w); auto; try congruence.
      * apply length_upd.
      * intros i. rewrite (qtl_same_qterm _ _ _ _ _ Hs) by reflexivity. rewrite fex_pc; congruence.
    + destruct (nth_error (sheps s) d) as [shd|] eqn:Hd; try discriminate.
      destruct (sact shd) eqn:Ad; try discriminate. intros H; injection H as <-.
      assert (wshep w <> d) as N by (intros E; rewrite E in Hs; rewrite Hs in Hd; injection Hd as E'; subst shd; congruence).
      assert (nth_error (upd (sheps s) (wshep w) (set_task sh (pred (qtask sh)))) d = Some shd) as Hd' by (rewrite nth_error_upd_neq; auto).
      apply (inv_worker_upd s k w); auto; try congruence.
      * rewrite !length_upd. auto.
      * intros i. rewrite (qtl_same_qterm _ _ _ _ _ Hd') by reflexivity. rewrite (qtl_same_qterm _ _ _ _ _ Hs) by reflexivity.
        rewrite fex_pc; congruence.
  - unfold w_steal. destruct (nth_error (workers s) k) as [w|] eqn:Hw; try discriminate.
    destruct (wpc_ w) eqn:P; try discriminate. destruct (nth_error (sheps s) (wshep w)) as [sh|] eqn:Hs; try discriminate.
    destruct (nth_error (sheps s) vi) as [shv|] eqn:Hv; try discriminate.
    destruct (sact sh && (qterm sh =? 0) && (qtask sh =? 0) && negb (vi =? wshep w) && (m <? qtask shv)) eqn:C; try discriminate.
    repeat (apply andb_prop in C; destruct C as [C ?]).
    match goal with H : negb _ = true |- _ => apply negb_true_iff in H; apply Nat.eqb_neq in H end.
    intros H'; injection H' as <-.
    assert (nth_error (upd (sheps s) (wshep w) (set_task sh m)) vi = Some shv) as Hv' by (rewrite nth_error_upd_neq; auto).
    apply (inv_worker_upd s k w); auto; try congruence.
    + rewrite !length_upd. auto.
    + intros i. rewrite (qtl_same_qterm _ _ _ _ _ Hv') by reflexivity. rewrite (qtl_same_qterm _ _ _ _ _ Hs) by reflexivity.
      rewrite fex_pc; congruence.
  - unfold w_empty. destruct (nth_error (workers s) k) as [w|]; try discriminate. destruct (wpc_ w); try discriminate.
    intros H; injection H as <-; auto.
Qed.

Lemma run_inv s sched s' : Inv s -> run false s sched = Some s' -> Inv s'.
Proof.
  revert s; induction sched as [|a r IH]; intros s I H; cbn in H.
  - injection H as <-; auto.
  - destruct (step false s a) as [s1|] eqn:E; try discriminate. eapply IH; [eapply step_inv; eauto|auto].
Qed.

Lemma init_inv s : wf_init s = true -> Inv s.
Proof.
  unfold wf_init. intros H. apply andb_prop in H as [H F]. apply andb_prop in H as [Hw Hs].
  assert (forall k w, nth_error (workers s) k = Some w -> wshep w < length (sheps s) /\ is_exit w = false /\ wterm w = false) as W.
  { intros k w E. pose proof (forallb_nth _ _ _ _ Hw E) as Q. unfold wf_worker in Q.
    apply andb_prop in Q as [Q Q3]. apply andb_prop in Q as [Q1 Q2]. apply Nat.ltb_lt in Q1.
    apply negb_true_iff in Q2, Q3. auto. }
  assert (forall i, qtl (sheps s) i + sum (fex i) (workers s) = sum (fen i) (workers s)) as ACC.
  { intros i. rewrite (sum_zero (fex i)), (sum_zero (fen i)).
    - unfold qtl. destruct (nth_error (sheps s) i) eqn:E; auto. pose proof (forallb_nth _ _ _ _ Hs E) as Q. apply Nat.eqb_eq in Q. lia.
    - intros k x E. destruct (W _ _ E) as (_ & _ & T). unfold fen. rewrite T, andb_false_r. auto.
    - intros k x E. destruct (W _ _ E) as (_ & X & _). unfold fex. rewrite X, andb_false_r. auto. }
  destruct (fin s) eqn:Fs; try discriminate.
  - destruct k; try discriminate. apply Nat.ltb_lt in F.
    constructor; rewrite ?Fs; cbn [fin_ok enq_pos act_pos join_pos]; auto; try (intros; lia).
    + intros k w E. apply (W _ _ E).
    + intros k w E. destruct (W _ _ E) as (_ & _ & T). rewrite T. split; [discriminate|lia].
  - apply Nat.eqb_eq in F.
    constructor; rewrite ?Fs; cbn [fin_ok enq_pos act_pos join_pos]; auto;
      try (intros k w E; pose proof (nth_error_lt _ _ _ E); lia).
Qed.

(* ------------------------------------------------------------------ deadlock freedom *)
Lemma step_progress s a s' : step false s a = Some s' -> s' <> s -> mu s' < mu s.
Proof. intros H N. destruct (step_mu _ _ _ _ H); congruence. Qed.

Lemma progress s : Inv s -> fin s <> FDone -> exists a s', step false s a = Some s' /\ mu s' < mu s.
Proof.
  intros I N.
  assert (forall s', fin_step false s = Some s' -> exists a s', step false s a = Some s' /\ mu s' < mu s) as FS.
  { intros s' H. exists AFin, s'. split; auto. eapply fin_step_mu; eauto. }
  destruct I as [If Is It Ia Ij Ic].
  destruct (fin s) eqn:F; cbn [fin_ok enq_pos act_pos join_pos] in *; try congruence.
  - destruct (nth_error_some _ _ If) as [w Hw]. destruct (nth_error_some _ _ (Is _ _ Hw)) as [sh Hs].
    eapply FS. unfold fin_step. rewrite F, Hw, Hs. eauto.
  - destruct (nth_error_some _ _ If) as [w Hw]. eapply FS. unfold fin_step. rewrite F, Hw. eauto.
  - destruct (nth_error_some _ _ If) as [w Hw]. eapply FS. unfold fin_step. rewrite F, Hw. eauto.
  - eapply FS. unfold fin_step. rewrite F. eauto.
  - destruct (nth_error_some _ _ If) as [w Hw].
    destruct (wpc_ w) eqn:P.
    + (* at the flag test: the finalizer has made every worker active *)
      assert (wact w = true) as A by (apply (Ia _ _ Hw); auto).
      exists (ACheck k). eexists. split.
      * cbn. unfold w_check. rewrite Hw, P, A. eauto.
      * unfold mu. cbn [workers sheps fin]. rewrite length_upd.
        pose proof (sum_upd wm _ _ (set_pc w WGet) _ Hw). assert (wm (set_pc w WGet) = 1) by reflexivity.
        assert (wm w = 2) by (unfold wm; rewrite P; auto). lia.
    + (* inside get_thread: its shepherd's queue holds a terminator *)
      destruct (nth_error_some _ _ (Is _ _ Hw)) as [sh Hs].
      assert (sum (fex (wshep w)) (workers s) < sum (fen (wshep w)) (workers s)) as L.
      { apply (sum_le_lt _ _ _ k w); auto.
        - intros k' x H. assert (wterm x = true) as T by (apply (It _ _ H); apply (nth_error_lt _ _ _ H)).
          unfold fex, fen, ind. rewrite T. destruct (wshep x =? wshep w), (is_exit x); cbn; lia.
        - assert (wterm w = true) as T by (apply (It _ _ Hw); auto).
          unfold fex, fen, is_exit. rewrite T, P, Nat.eqb_refl. cbn. lia. }
      specialize (Ic (wshep w)). unfold qtl in Ic. rewrite Hs in Ic.
      assert (0 <? qterm sh = true) as Q by (apply Nat.ltb_lt; lia).
      exists (ATerm k). eexists. split.
      * cbn. unfold w_term. rewrite Hw, P, Hs, Q. eauto.
      * unfold mu. cbn [workers sheps fin]. rewrite length_upd.
        pose proof (sum_upd wm _ _ (set_pc w WExit) _ Hw). assert (wm (set_pc w WExit) = 0) by reflexivity.
        assert (wm w = 1) by (unfold wm; rewrite P; auto).
        pose proof (sum_upd tw _ _ (del_term sh) _ Hs). assert (tw (del_term sh) = tw sh) by reflexivity. lia.
    + eapply FS. unfold fin_step. rewrite F, Hw, P. eauto.
  - eapply FS. unfold fin_step. rewrite F. eauto.
  - eapply FS. unfold fin_step. rewrite F. eauto.
  - eapply FS. unfold fin_step. rewrite F. eauto.
Qed.
