From Coq Require Import List.
From QV Require Import Lifecycle.Model Lifecycle.GenSubsystems.
Require Extraction.
Require Import ExtrOcamlBasic.
Extraction Language OCaml.
Extraction "../ocaml/gen/c19_model.ml" gen_table gen_atexit_every_initialize fresh step initialize finalize use bad_rows init_ids io_wellformed good.
