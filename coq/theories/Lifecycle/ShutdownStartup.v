(* C19 extension U: the start-up side -- what the worker creation loop of qthread_initialize produces *)
From Coq Require Import List Arith Bool Lia.
From QV Require Import Lifecycle.Shutdown Lifecycle.ShutdownProofs.
Import ListNotations.

Definition ind (b : bool) := if b then 1 else 0.

Lemma sum_cons {A} (f : A -> nat) h t : sum f (h :: t) = f h + sum f t.
Proof. reflexivity. Qed.
Lemma sum_nil {A} (f : A -> nat) : sum f [] = 0.
Proof. reflexivity. Qed.

Lemma sum_app {A} (f : A -> nat) l1 l2 : sum f (l1 ++ l2) = sum f l1 + sum f l2.
Proof. induction l1 as [|h t IH]; cbn [app]; rewrite ?sum_cons, ?sum_nil; auto. rewrite IH. lia. Qed.

Lemma sum_ext {A} (f g : A -> nat) l : (forall x, In x l -> f x = g x) -> sum f l = sum g l.
Proof. induction l as [|h t IH]; intros H; rewrite ?sum_cons, ?sum_nil; auto. rewrite (H h), IH; auto; try (intros; apply H); cbn; auto. Qed.

Lemma sum_plus {A} (f g : A -> nat) l : sum (fun x => f x + g x) l = sum f l + sum g l.
Proof. induction l as [|h t IH]; rewrite ?sum_cons, ?sum_nil; auto. rewrite IH. lia. Qed.

Lemma sum_swap {A B} (f : A -> B -> nat) l1 l2 : sum (fun a => sum (fun b => f a b) l2) l1 = sum (fun b => sum (fun a => f a b) l1) l2.
Proof.
  induction l1 as [|h t IH]; rewrite ?sum_cons, ?sum_nil.
  - induction l2 as [|b r IH]; rewrite ?sum_cons, ?sum_nil; auto.
  - rewrite IH. clear IH. induction l2 as [|b r IH]; rewrite ?sum_cons, ?sum_nil; auto. rewrite <- IH. lia.
Qed.

Lemma len_filter_sum {A} (f : A -> bool) l : length (filter f l) = sum (fun x => ind (f x)) l.
Proof. induction l as [|h t IH]; cbn [filter]; rewrite ?sum_cons, ?sum_nil; auto. destruct (f h); cbn [length ind]; rewrite IH; auto. Qed.

Lemma sum_map {A B} (g : A -> B) (f : B -> nat) l : sum f (map g l) = sum (fun x => f (g x)) l.
Proof. induction l as [|h t IH]; cbn [map]; rewrite ?sum_cons, ?sum_nil; auto. Qed.

Lemma sum_prod {A B} (f : A * B -> nat) l1 l2 : sum f (list_prod l1 l2) = sum (fun a => sum (fun b => f (a, b)) l2) l1.
Proof. induction l1 as [|h t IH]; cbn [list_prod]; rewrite ?sum_cons, ?sum_nil; auto. rewrite sum_app, sum_map, IH. auto. Qed.

(* #{ i < n : i < c } = min n c *)
Lemma sum_below n c : sum (fun i => ind (i <? c)) (seq 0 n) = Nat.min n c.
Proof.
  induction n as [|n IH]; auto. rewrite seq_S, sum_app, IH. cbn [seq Nat.add]. rewrite sum_cons, sum_nil. destruct (n <? c) eqn:E; [apply Nat.ltb_lt in E|apply Nat.ltb_ge in E]; cbn [ind]; lia.
Qed.

(* the active cells of the grid: #{ (i,j) : i < S, j < W, j*S + i + 1 <= hw } = min hw (S*W) *)
Lemma grid_active S_ W_ hw :
  sum (fun p => ind ((snd p * S_) + fst p + 1 <=? hw)) (grid S_ W_) = Nat.min hw (S_ * W_).
Proof.
  unfold grid. rewrite sum_prod. cbn [fst snd]. rewrite sum_swap.
  induction W_ as [|w IH].
  - cbn. lia.
  - rewrite seq_S, sum_app, IH. cbn [seq Nat.add]. rewrite sum_cons, sum_nil, Nat.add_0_r.
    rewrite (sum_ext _ (fun i => ind (i <? hw - w * S_))).
    + rewrite sum_below. nia.
    + intros i _. f_equal. destruct (i <? hw - w * S_) eqn:E; [apply Nat.ltb_lt in E; apply Nat.leb_le|apply Nat.ltb_ge in E; apply Nat.leb_gt]; lia.
Qed.

Lemma grid_main S_ W_ : 1 <= S_ -> 1 <= W_ -> sum (fun p => ind (is_main p)) (grid S_ W_) = 1.
Proof.
  intros HS HW. unfold grid. rewrite sum_prod.
  rewrite (sum_ext _ (fun a => ind (a =? 0))).
  - destruct S_; [lia|]. cbn [seq]. rewrite sum_cons. cbn [Nat.eqb ind].
    rewrite (sum_zero (fun a => ind (a =? 0))); auto. intros k x H. apply nth_error_In in H. apply in_seq in H.
    destruct x; [lia|reflexivity].
  - intros a _. unfold is_main. cbn [fst snd]. destruct (a =? 0); cbn [andb].
    + destruct W_; [lia|]. cbn [seq]. rewrite sum_cons. cbn [Nat.eqb ind].
      rewrite (sum_zero (fun b => ind (b =? 0))); auto. intros k x H. apply nth_error_In in H. apply in_seq in H.
      destruct x; [lia|reflexivity].
    + apply sum_zero. auto.
Qed.

Lemma filter_map_len {A B} (g : A -> B) (f : B -> bool) l : length (filter f (map g l)) = length (filter (fun x => f (g x)) l).
Proof. induction l as [|h t IH]; cbn; auto. destruct (f (g h)); cbn; rewrite IH; auto. Qed.

Lemma init_workers_length S_ W_ hw : 1 <= S_ -> 1 <= W_ -> length (init_workers S_ W_ hw) = S_ * W_ - 1.
Proof.
  intros HS HW. unfold init_workers. rewrite map_length, len_filter_sum.
  pose proof (grid_main _ _ HS HW) as M.
  assert (sum (fun p => ind (negb (is_main p))) (grid S_ W_) + sum (fun p => ind (is_main p)) (grid S_ W_) = length (grid S_ W_)) as E.
  { rewrite <- sum_plus. generalize (grid S_ W_). intros l. induction l as [|h t IH]; cbn; auto. unfold sum in *. rewrite IH.
    destruct (is_main h); cbn; lia. }
  unfold grid in E at 3. rewrite prod_length, !seq_length in E. lia.
Qed.

Lemma active_workers_exact S_ W_ hw : 1 <= S_ -> 1 <= W_ -> 1 <= hw <= S_ * W_ -> active_workers S_ W_ hw = hw.
Proof.
  intros HS HW Hh. unfold active_workers, count, init_workers. rewrite filter_map_len. cbn [wact mk_worker].
  rewrite len_filter_sum.
  pose proof (grid_active S_ W_ hw) as G. pose proof (grid_main _ _ HS HW) as M.
  (* active cells = active non-main cells + the main cell *)
  assert (forall l, (forall p, In p l -> is_main p = true -> (snd p * S_ + fst p + 1 <=? hw) = true) ->
                    sum (fun p => ind (snd p * S_ + fst p + 1 <=? hw)) l =
                    sum (fun p => ind (snd p * S_ + fst p + 1 <=? hw)) (filter (fun p => negb (is_main p)) l) + sum (fun p => ind (is_main p)) l) as SPLIT.
  { induction l as [|h t IH]; intros H; cbn; auto. unfold sum in *.
    rewrite IH by (intros; apply H; cbn; auto). destruct (is_main h) eqn:E; cbn.
    - rewrite (H h) by (cbn; auto). cbn. lia.
    - lia. }
  rewrite SPLIT in G.
  - rewrite M in G. lia.
  - intros [i j] _ Q. unfold is_main in Q. cbn [fst snd] in *. apply andb_prop in Q as [Q1 Q2]. apply Nat.eqb_eq in Q1, Q2. subst.
    apply Nat.leb_le. lia.
Qed.

Lemma init_workers_spec S_ W_ hw w : In w (init_workers S_ W_ hw) ->
  wshep w < S_ /\ wloc w < W_ /\ (wshep w, wloc w) <> (0, 0) /\ wact w = ((wloc w * S_) + wshep w + 1 <=? hw) /\ wpc_ w = WSpin /\ wterm w = false.
Proof.
  unfold init_workers. intros H. apply in_map_iff in H as ([i j] & <- & H). apply filter_In in H as [H N].
  unfold grid in H. apply in_prod_iff in H as [Hi Hj]. apply in_seq in Hi, Hj. cbn [fst snd mk_worker wshep wloc wact wpc_ wterm].
  repeat split; auto; try lia; try (intros E; injection E as -> ->; discriminate).
Qed.

Lemma init_workers_complete S_ W_ hw i j : i < S_ -> j < W_ -> (i, j) <> (0, 0) -> In (mk_worker S_ hw i j) (init_workers S_ W_ hw).
Proof.
  intros Hi Hj N. unfold init_workers. apply in_map_iff. exists (i, j). split; auto. apply filter_In. split.
  - unfold grid. apply in_prod_iff. split; apply in_seq; lia.
  - unfold is_main. cbn [fst snd]. destruct i, j; cbn; auto; congruence.
Qed.

(* the state built by initialize (any hw_par, any later flag writes of the disable / enable calls) is an admissible start
   of the shutdown machine *)
Lemma init_state_wf S_ W_ hw sfl tasks : 1 <= S_ -> 1 <= W_ -> wf_init (init_state S_ W_ hw sfl tasks) = true.
Proof.
  intros HS HW. unfold wf_init, init_state. cbn [sheps workers fin]. rewrite map_length, seq_length.
  pose proof (init_workers_length S_ W_ hw HS HW) as L.
  apply andb_true_intro; split; [apply andb_true_intro; split|].
  - apply forallb_forall. intros w H. destruct (init_workers_spec _ _ _ _ H) as (A & _ & _ & _ & P & T).
    unfold wf_worker, is_exit. rewrite P, T. apply Nat.ltb_lt in A. rewrite A. auto.
  - apply forallb_forall. intros sh H. apply in_map_iff in H as (i & <- & _). auto.
  - rewrite L. unfold next_enq. destruct (0 <? S_ * W_ - 1) eqn:E; auto.
    apply Nat.ltb_ge in E. apply Nat.eqb_eq. lia.
Qed.

Lemma flag_writes_wf s : wf_init s = true -> (forall k b, wf_init (set_worker_flag s k b) = true) /\ (forall i b, wf_init (set_shep_flag s i b) = true).
Proof.
  unfold wf_init. intros H. apply andb_prop in H as [H F]. apply andb_prop in H as [Hw Hs]. split.
  - intros k b. unfold set_worker_flag. destruct (nth_error (workers s) k) as [w|] eqn:E.
    + cbn [sheps workers fin]. rewrite length_upd, Hs, F, andb_true_r, andb_true_r.
      apply forallb_of_nth. intros k' x Hx. destruct (nth_error_upd_cases _ _ _ _ _ _ E Hx) as [[-> ->]|[_ Hx']].
      * apply (forallb_nth _ _ _ _ Hw E).
      * apply (forallb_nth _ _ _ _ Hw Hx').
    + rewrite Hw, Hs, F. auto.
  - intros i b. unfold set_shep_flag. destruct (nth_error (sheps s) i) as [sh|] eqn:E.
    + cbn [sheps workers fin]. rewrite length_upd, Hw, F, andb_true_r. cbn [andb].
      apply forallb_of_nth. intros k' x Hx. destruct (nth_error_upd_cases _ _ _ _ _ _ E Hx) as [[-> ->]|[_ Hx']].
      * cbn. apply (forallb_nth _ _ _ _ Hs E).
      * apply (forallb_nth _ _ _ _ Hs Hx').
    + rewrite Hw, Hs, F. auto.
Qed.
