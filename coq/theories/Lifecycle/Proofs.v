(* C19 lifecycle: invariants of the bookkeeping model, for EVERY table and every sequence of operations. *)
From Coq Require Import List Bool Arith Lia Permutation.
From QV Require Import Lifecycle.Model.
Import ListNotations.

Definition regs (s : rt) : list nat := early s ++ normal s ++ late s.

Lemma mem_In : forall i l, mem i l = true <-> In i l.
Proof.
  intros i l. unfold mem. rewrite existsb_exists. split.
  - intros (x & Hx & E). apply Nat.eqb_eq in E. subst. exact Hx.
  - intros H. exists i. split; [exact H|apply Nat.eqb_refl].
Qed.
Lemma mem_false : forall i l, mem i l = false <-> ~ In i l.
Proof. intros. rewrite <- mem_In. destruct (mem i l); split; congruence. Qed.

Lemma In_del : forall i j l, In j (del i l) <-> In j l /\ j <> i.
Proof.
  intros i j l. unfold del. rewrite filter_In. split; intros [H1 H2]; split; auto.
  - apply negb_true_iff, Nat.eqb_neq in H2. congruence.
  - apply negb_true_iff, Nat.eqb_neq. congruence.
Qed.

(* ------------------------------------------------------------------ push *)
Lemma regs_push_perm : forall st i s, Permutation (regs (push st i s)) (i :: regs s).
Proof.
  intros st i s. unfold regs. destruct st; simpl.
  - apply Permutation_refl.
  - apply Permutation_sym. apply Permutation_middle.
  - rewrite app_assoc. apply Permutation_sym. rewrite (app_assoc (early s) (normal s) (late s)). apply Permutation_middle.
Qed.

Lemma push_fields : forall st i s,
    qlib (push st i s) = qlib s /\ ledger (push st i s) = ledger s /\ threads (push st i s) = threads s /\
    proxies (push st i s) = proxies s /\ created (push st i s) = created s /\ dirty (push st i s) = dirty s /\
    atexits (push st i s) = atexits s /\ fault (push st i s) = fault s /\ ran (push st i s) = ran s.
Proof. intros. destruct st; simpl; repeat split. Qed.

(* ------------------------------------------------------------------ bring_up *)
Definition row_at (tbl : table) (i : nat) (P : row -> Prop) : Prop := exists r, nth_error tbl i = Some r /\ P r.

Lemma bring_up_spec : forall tbl s i,
    qlib (bring_up tbl s i) = qlib s /\ threads (bring_up tbl s i) = threads s /\ proxies (bring_up tbl s i) = proxies s /\
    created (bring_up tbl s i) = created s /\ dirty (bring_up tbl s i) = dirty s /\ atexits (bring_up tbl s i) = atexits s /\
    fault (bring_up tbl s i) = fault s /\ ran (bring_up tbl s i) = ran s /\
    (forall j, In j (ledger (bring_up tbl s i)) -> j = i \/ In j (ledger s)) /\
    (forall j, In j (ledger s) -> In j (ledger (bring_up tbl s i))) /\
    ((row_at tbl i (fun r => r_registers r = true) /\ Permutation (regs (bring_up tbl s i)) (i :: regs s)) \/
     (~ row_at tbl i (fun r => r_registers r = true) /\ regs (bring_up tbl s i) = regs s)).
Proof.
  intros tbl s i. unfold bring_up. destruct (nth_error tbl i) as [r|] eqn:E.
  - destruct (r_registers r) eqn:R.
    + destruct (push_fields (r_stage r) i (add_res i s)) as (a & b & c & d & e & f & g & h & k).
      rewrite a, c, d, e, f, g, h, k, b. simpl. repeat split; auto.
      * intros j [->|H]; auto.
      * left. split; [exists r; auto|]. apply (regs_push_perm (r_stage r) i (add_res i s)).
    + simpl. repeat split; auto.
      * intros j [->|H]; auto.
      * right. split; [|reflexivity]. intros (r' & E' & R'). congruence.
  - repeat split; auto. right. split; [|reflexivity]. intros (r' & E' & _). congruence.
Qed.

(* ------------------------------------------------------------------ cleanup *)
Lemma cleanup_fields : forall tbl s i,
    qlib (cleanup tbl s i) = qlib s /\ early (cleanup tbl s i) = early s /\ normal (cleanup tbl s i) = normal s /\
    late (cleanup tbl s i) = late s /\ threads (cleanup tbl s i) = threads s /\ atexits (cleanup tbl s i) = atexits s /\
    fault (cleanup tbl s i) = fault s.
Proof. intros. unfold cleanup. destruct (nth_error tbl i); simpl; repeat split. Qed.

Lemma fold_cleanup_fields : forall tbl l s,
    let s' := fold_left (cleanup tbl) l s in
    qlib s' = qlib s /\ early s' = early s /\ normal s' = normal s /\ late s' = late s /\ threads s' = threads s /\
    atexits s' = atexits s /\ fault s' = fault s.
Proof.
  intros tbl l. induction l as [|i l IH]; intros s; simpl; [repeat split|].
  destruct (IH (cleanup tbl s i)) as (a & b & c & d & e & f & g).
  destruct (cleanup_fields tbl s i) as (a' & b' & c' & d' & e' & f' & g').
  cbv zeta in *. rewrite a, b, c, d, e, f, g. auto 10.
Qed.

Definition valid (tbl : table) (i : nat) : Prop := exists r, nth_error tbl i = Some r.

Lemma fold_cleanup_ran : forall tbl l s, Forall (valid tbl) l -> ran (fold_left (cleanup tbl) l s) = ran s ++ l.
Proof.
  intros tbl l. induction l as [|i l IH]; intros s H; simpl; [symmetry; apply app_nil_r|].
  inversion H as [|? ? (r & E) Hl]; subst. rewrite IH by exact Hl.
  unfold cleanup. rewrite E. simpl. rewrite <- app_assoc. reflexivity.
Qed.

Lemma fold_cleanup_ledger : forall tbl l s j, Forall (valid tbl) l ->
    (In j (ledger (fold_left (cleanup tbl) l s)) <-> In j (ledger s) /\ ~ In j l).
Proof.
  intros tbl l. induction l as [|i l IH]; intros s j H; simpl; [tauto|].
  inversion H as [|? ? (r & E) Hl]; subst. rewrite (IH _ _ Hl).
  unfold cleanup at 1. rewrite E. simpl. rewrite In_del. split.
  - intros ((a & b) & c). split; [exact a|]. intros [->|d]; tauto.
  - intros (a & b). split; [split; [exact a|]|]; intro; apply b; auto.
Qed.

(* created / dirty when every cleaned row restores its statics *)
Lemma fold_cleanup_good : forall tbl l s, Forall (fun i => good tbl i = true) l ->
    dirty (fold_left (cleanup tbl) l s) = dirty s /\
    (forall j, In j (created (fold_left (cleanup tbl) l s)) <-> In j (created s) /\ ~ In j l).
Proof.
  intros tbl l. induction l as [|i l IH]; intros s H; simpl; [split; [reflexivity|tauto]|].
  inversion H as [|? ? G Hl]; subst. destruct (IH (cleanup tbl s i) Hl) as [D C].
  unfold good in G. destruct (nth_error tbl i) as [r|] eqn:E; [|discriminate].
  unfold good_row in G. apply andb_prop in G. destruct G as [_ G].
  assert (K : dirty (cleanup tbl s i) = dirty s /\ created (cleanup tbl s i) = del i (created s)).
  { unfold cleanup. rewrite E, G. simpl. auto. }
  destruct K as [K1 K2]. rewrite D, K1. split; [reflexivity|].
  intros j. rewrite C, K2, In_del. split.
  - intros ((a & b) & c). split; [exact a|]. intros [->|d]; tauto.
  - intros (a & b). split; [split; [exact a|]|]; intro; apply b; auto.
Qed.

Lemma fold_cleanup_proxies : forall tbl l s,
    proxies (fold_left (cleanup tbl) l s) = proxies s \/ proxies (fold_left (cleanup tbl) l s) = 0.
Proof.
  intros tbl l. induction l as [|i l IH]; intros s; simpl; [auto|].
  destruct (IH (cleanup tbl s i)) as [H|H]; [|auto]. rewrite H. unfold cleanup.
  destruct (nth_error tbl i) as [r|]; simpl; [destruct (r_io r)|]; auto.
Qed.

Lemma fold_cleanup_proxies_io : forall tbl l s i r, In i l -> nth_error tbl i = Some r -> r_io r = true ->
    proxies (fold_left (cleanup tbl) l s) = 0.
Proof.
  intros tbl l. induction l as [|k l IH]; intros s i r Hin E Hio; [destruct Hin|]. simpl.
  destruct Hin as [->|Hin]; [|eapply IH; eauto].
  destruct (fold_cleanup_proxies tbl l (cleanup tbl s i)) as [H|H]; [|exact H].
  rewrite H. unfold cleanup. rewrite E, Hio. reflexivity.
Qed.

(* ------------------------------------------------------------------ the invariant *)
Record Inv (tbl : table) (s : rt) : Prop := mkInv {
  I_off    : qlib s = false -> regs s = [] /\ threads s = 0 /\ (io_wellformed tbl = true -> proxies s = 0);
  I_nodup  : NoDup (regs s);
  I_valid  : forall i, In i (regs s) ->
             exists r, nth_error tbl i = Some r /\ r_registers r = true /\ (r_lazy r = true -> In i (created s));
  I_ledger : forall i, In i (ledger s) ->
             (i = core_id tbl /\ qlib s = true) \/ In i (regs s) \/ row_at tbl i (fun r => r_registers r = false);
  I_init   : qlib s = true -> forall i r, nth_error tbl i = Some r -> r_lazy r = false -> r_registers r = true -> In i (regs s);
  I_io     : io_wellformed tbl = true -> proxies s <> 0 -> exists i r, In i (regs s) /\ nth_error tbl i = Some r /\ r_io r = true
}.

Lemma inv_fresh : forall tbl, Inv tbl fresh.
Proof.
  intros. constructor; simpl; try (intros; contradiction); try discriminate.
  - auto.
  - constructor.
Qed.

Lemma in_init_ids : forall tbl i, In i (init_ids tbl) <-> exists r, nth_error tbl i = Some r /\ r_lazy r = false.
Proof.
  intros tbl i. unfold init_ids. rewrite filter_In, in_seq. unfold is_lazy. split.
  - intros [[_ H] L]. simpl in H. destruct (nth_error tbl i) as [r|] eqn:E; [|discriminate].
    exists r. split; [reflexivity|]. apply negb_true_iff in L. exact L.
  - intros (r & E & L). rewrite E, L. split; [|reflexivity]. split; [lia|]. simpl. apply nth_error_Some. congruence.
Qed.

(* bringing up a NoDup list of non-lazy rows from a state without registrations *)
Lemma fold_bring_up : forall tbl l s,
    NoDup l -> (forall i, In i l -> ~ In i (regs s)) -> NoDup (regs s) ->
    (forall i, In i l -> exists r, nth_error tbl i = Some r /\ r_lazy r = false) ->
    let s' := fold_left (bring_up tbl) l s in
    qlib s' = qlib s /\ threads s' = threads s /\ proxies s' = proxies s /\ created s' = created s /\ dirty s' = dirty s /\
    atexits s' = atexits s /\ fault s' = fault s /\ ran s' = ran s /\
    NoDup (regs s') /\
    (forall j, In j (regs s') <-> In j (regs s) \/ (In j l /\ row_at tbl j (fun r => r_registers r = true))) /\
    (forall j, In j (ledger s') -> In j (ledger s) \/ In j l) /\
    (forall j, In j (ledger s) -> In j (ledger s')).
Proof.
  intros tbl l. induction l as [|i l IH]; intros s Hnd Hdisj Hs Hrows; simpl.
  - repeat split; auto; try tauto.
  - inversion Hnd as [|? ? Hni Hnd']; subst.
    destruct (bring_up_spec tbl s i) as (a & b & c & d & e & f & g & h & L1 & L2 & R).
    assert (Hregs1 : forall j, In j (regs (bring_up tbl s i)) <-> In j (regs s) \/ (j = i /\ row_at tbl i (fun r => r_registers r = true))).
    { intros j. destruct R as [(Hr & P)|(Hr & E)].
      - split.
        + intros H. apply (Permutation_in _ P) in H. destruct H as [<-|H]; auto.
        + intros [H|[-> _]]; apply (Permutation_in _ (Permutation_sym P)); simpl; auto.
      - rewrite E. split; [auto|]. intros [H|[_ H]]; [exact H|contradiction]. }
    assert (Hnd1 : NoDup (regs (bring_up tbl s i))).
    { destruct R as [(Hr & P)|(Hr & E)]; [|rewrite E; exact Hs].
      apply (Permutation_NoDup (Permutation_sym P)). constructor; [apply Hdisj; left; reflexivity|exact Hs]. }
    destruct (IH (bring_up tbl s i) Hnd') as (a' & b' & c' & d' & e' & f' & g' & h' & N & Rg & Lg1 & Lg2).
    + intros k Hk Hin. apply Hregs1 in Hin. destruct Hin as [Hin|[-> _]]; [|contradiction]. apply (Hdisj k); [right; exact Hk|exact Hin].
    + exact Hnd1.
    + intros k Hk. apply Hrows. right. exact Hk.
    + cbv zeta in *. rewrite a', b', c', d', e', f', g', h'. repeat split; auto.
      * intros H. apply Rg in H. destruct H as [H|[H1 H2]]; [|auto]. apply Hregs1 in H. destruct H as [H|[-> H]]; auto.
      * intros [H|[[<-|H1] H2]]; apply Rg; [left; apply Hregs1; auto|left; apply Hregs1; auto|auto].
      * intros j H. apply Lg1 in H. destruct H as [H|H]; [|auto]. apply L1 in H. destruct H as [->|H]; auto.
Qed.

Lemma inv_initialize : forall tbl ae w s, Inv tbl s -> Inv tbl (initialize tbl ae w s).
Proof.
  intros tbl ae w s I. unfold initialize. destruct (qlib s) eqn:Q; [exact I|].
  destruct (I_off _ _ I Q) as (Hr & Ht & Hp).
  cbv zeta.
  match goal with |- Inv tbl (fold_left _ _ ?x) => set (s0 := x) end.
  assert (Hs0 : qlib s0 = true /\ regs s0 = [] /\ ledger s0 = core_id tbl :: ledger s /\ created s0 = created s /\ proxies s0 = proxies s) by (unfold s0; simpl; auto).
  destruct Hs0 as (Q0 & R0 & L0 & C0 & P0).
  assert (Hnd : NoDup (init_ids tbl)) by (unfold init_ids; apply NoDup_filter, seq_NoDup).
  destruct (fold_bring_up tbl (init_ids tbl) s0 Hnd) as (a & b & c & d & e & f & g & h & N & Rg & L1 & L2).
  - intros i _ H. rewrite R0 in H. exact H.
  - rewrite R0. constructor.
  - intros i H. apply in_init_ids. exact H.
  - cbv zeta in *. constructor.
    + rewrite a, Q0. discriminate.
    + exact N.
    + intros i H. apply Rg in H. rewrite R0 in H. destruct H as [[]|(Hin & r & E & R)].
      apply in_init_ids in Hin. destruct Hin as (r' & E' & Lz). assert (r' = r) by congruence. subst.
      exists r. repeat split; auto. congruence.
    + intros i H. rewrite a, Q0. apply L1 in H. rewrite L0 in H. destruct H as [[<-|H]|H].
      * left. auto.
      * destruct (I_ledger _ _ I i H) as [[_ C]|[C|C]]; [congruence|rewrite Hr in C; destruct C|auto].
      * apply in_init_ids in H. destruct H as (r & E & Lz). destruct (r_registers r) eqn:R.
        -- right; left. apply Rg. right. split; [apply in_init_ids; eauto|exists r; auto].
        -- right; right. exists r. auto.
    + intros _ i r E Lz R. apply Rg. right. split; [apply in_init_ids; eauto|exists r; auto].
    + intros W Hnz. rewrite c, P0 in Hnz. exfalso. apply Hnz. apply Hp. exact W.
Qed.

Lemma inv_use : forall tbl i s, Inv tbl s -> Inv tbl (use tbl i s).
Proof.
  intros tbl i s I. unfold use. destruct (qlib s) eqn:Q; simpl; [|exact I].
  destruct (nth_error tbl i) as [r|] eqn:E; [|exact I].
  destruct (mem i (dirty s)) eqn:D.
  { destruct I. constructor; simpl; auto. }
  assert (Hproxy : forall s1, Inv tbl s1 -> qlib s1 = true -> (forall j, In j (regs s) -> In j (regs s1)) ->
                              Inv tbl (if r_io r then add_proxy s1 else s1)).
  { intros s1 I1 Q1 Sub. destruct (r_io r) eqn:Io; [|exact I1]. destruct I1. constructor; simpl; auto.
    - intros C; congruence.
    - intros W _. exists i, r. split; [|auto]. apply Sub.
      unfold io_wellformed in W. rewrite forallb_forall in W. specialize (W r (nth_error_In _ _ E)). rewrite Io in W. simpl in W.
      apply andb_prop in W. destruct W as [W1 W2]. apply negb_true_iff in W1. apply (I_init _ _ I Q i r); auto. }
  destruct (r_lazy r) eqn:Lz; [|apply Hproxy; auto].
  destruct (mem i (created s)) eqn:C; [apply Hproxy; auto|].
  apply mem_false in C.
  destruct (bring_up_spec tbl (mark_created i s) i) as (a & b & c & d & e & f & g & h & L1 & L2 & R).
  simpl in a, b, c, d, e, f, g, h.
  assert (Hni : ~ In i (regs s)).
  { intros H. destruct (I_valid _ _ I i H) as (r' & E' & _ & K). assert (r' = r) by congruence. subst. auto. }
  assert (Hregs : forall j, In j (regs (bring_up tbl (mark_created i s) i)) <-> In j (regs s) \/ (j = i /\ r_registers r = true)).
  { intros j. change (regs (mark_created i s)) with (regs s) in R. destruct R as [((r' & E' & R') & P)|(Hr & Eq)].
    - assert (r' = r) by congruence. subst. split.
      + intros H. apply (Permutation_in _ P) in H. destruct H as [<-|H]; auto.
      + intros [H|[-> _]]; apply (Permutation_in _ (Permutation_sym P)); simpl; auto.
    - rewrite Eq. split; [auto|]. intros [H|[_ H]]; [exact H|]. exfalso. apply Hr. exists r. auto. }
  apply Hproxy; [|rewrite a; exact Q|intros j H; apply Hregs; auto].
  constructor.
  - rewrite a. congruence.
  - change (regs (mark_created i s)) with (regs s) in R. destruct R as [(_ & P)|(_ & Eq)].
    + apply (Permutation_NoDup (Permutation_sym P)). constructor; [exact Hni|apply (I_nodup _ _ I)].
    + rewrite Eq. apply (I_nodup _ _ I).
  - intros j H. rewrite d. simpl. apply Hregs in H. destruct H as [H|[-> Rr]].
    + destruct (I_valid _ _ I j H) as (r' & E' & R' & K). exists r'. repeat split; auto.
    + exists r. repeat split; auto.
  - intros j H. rewrite a. apply L1 in H. simpl in H. destruct H as [->|H].
    + destruct (r_registers r) eqn:Rr.
      * right; left. apply Hregs. auto.
      * right; right. exists r. auto.
    + destruct (I_ledger _ _ I j H) as [K|[K|K]]; auto. right; left. apply Hregs. auto.
  - intros _ j r' E' Lz' R'. apply Hregs. left. apply (I_init _ _ I Q j r'); auto.
  - intros W Hnz. rewrite c in Hnz. simpl in Hnz. destruct (I_io _ _ I W Hnz) as (k & rk & Hk & Ek & Iok).
    exists k, rk. split; [apply Hregs; auto|auto].
Qed.

Lemma regs_valid : forall tbl s, Inv tbl s -> Forall (valid tbl) (early s) /\ Forall (valid tbl) (normal s) /\ Forall (valid tbl) (late s).
Proof.
  intros tbl s I.
  assert (H : forall i, In i (regs s) -> valid tbl i).
  { intros i Hi. destruct (I_valid _ _ I i Hi) as (r & E & _). exists r. exact E. }
  unfold regs in H. repeat split; apply Forall_forall; intros i Hi; apply H.
  - apply in_or_app; auto.
  - apply in_or_app; right; apply in_or_app; auto.
  - apply in_or_app; right; apply in_or_app; auto.
Qed.

(* what finalize leaves behind *)
Lemma finalize_spec : forall tbl s, Inv tbl s -> qlib s = true ->
    let s' := finalize tbl true s in
    qlib s' = false /\ regs s' = [] /\ early s' = [] /\ normal s' = [] /\ late s' = [] /\ threads s' = 0 /\
    ran s' = regs s /\ atexits s' = atexits s /\ fault s' = fault s /\
    (forall j, In j (ledger s') <-> In j (ledger s) /\ ~ In j (regs s) /\ j <> core_id tbl).
Proof.
  intros tbl s I Q. unfold finalize. replace (negb (qlib s) || negb true) with false by (rewrite Q; reflexivity).
  destruct (regs_valid tbl s I) as (Ve & Vn & Vl).
  set (s0 := mkRt (qlib s) (early s) (normal s) (late s) (ledger s) (threads s) (proxies s) (created s) (dirty s) (atexits s) (fault s) []).
  set (s1 := fold_left (cleanup tbl) (early s) s0).
  set (s3 := fold_left (cleanup tbl) (normal s) (join_workers s1)).
  set (s4 := fold_left (cleanup tbl) (late s) s3).
  destruct (fold_cleanup_fields tbl (early s) s0) as (_ & _ & _ & _ & t1 & x1 & f1).
  destruct (fold_cleanup_fields tbl (normal s) (join_workers s1)) as (_ & _ & _ & _ & t3 & x3 & f3).
  destruct (fold_cleanup_fields tbl (late s) s3) as (_ & _ & _ & _ & t4 & x4 & f4).
  fold s1 in t1, x1, f1. fold s3 in t3, x3, f3. fold s4 in t4, x4, f4. cbv zeta. simpl.
  split; [reflexivity|]. split; [reflexivity|]. split; [reflexivity|]. split; [reflexivity|]. split; [reflexivity|].
  split; [rewrite t4, t3; reflexivity|].
  split.
  { unfold s4, s3, s1. rewrite (fold_cleanup_ran _ _ _ Vl), (fold_cleanup_ran _ _ _ Vn). simpl.
    rewrite (fold_cleanup_ran _ _ _ Ve). simpl. unfold regs. rewrite app_assoc. reflexivity. }
  split; [rewrite x4, x3; simpl; rewrite x1; reflexivity|].
  split; [rewrite f4, f3; simpl; rewrite f1; reflexivity|].
  intros j. split.
  - intros HH. apply In_del in HH. destruct HH as [HH Hc]. unfold s4 in HH. apply (fold_cleanup_ledger _ _ _ _ Vl) in HH.
    destruct HH as [HH Hl]. unfold s3 in HH. apply (fold_cleanup_ledger _ _ _ _ Vn) in HH. destruct HH as [HH Hn]. simpl in HH.
    unfold s1 in HH. apply (fold_cleanup_ledger _ _ _ _ Ve) in HH. destruct HH as [HH He]. simpl in HH.
    split; [exact HH|]. split; [|exact Hc]. unfold regs. intros K. apply in_app_or in K. destruct K as [K|K]; [auto|].
    apply in_app_or in K. destruct K; auto.
  - intros (HH & Hr & Hc). apply In_del. split; [|exact Hc]. unfold regs in Hr.
    unfold s4. apply (fold_cleanup_ledger _ _ _ _ Vl). split; [|intro; apply Hr; apply in_or_app; right; apply in_or_app; auto].
    unfold s3. apply (fold_cleanup_ledger _ _ _ _ Vn). split; [|intro; apply Hr; apply in_or_app; right; apply in_or_app; auto].
    simpl. unfold s1. apply (fold_cleanup_ledger _ _ _ _ Ve). split; [exact HH|intro; apply Hr; apply in_or_app; auto].
Qed.

Lemma finalize_proxies : forall tbl s, Inv tbl s -> qlib s = true -> io_wellformed tbl = true -> proxies (finalize tbl true s) = 0.
Proof.
  intros tbl s I Q W. unfold finalize. replace (negb (qlib s) || negb true) with false by (rewrite Q; reflexivity).
  cbv zeta. simpl.
  set (s0 := mkRt (qlib s) (early s) (normal s) (late s) (ledger s) (threads s) (proxies s) (created s) (dirty s) (atexits s) (fault s) []).
  set (s1 := fold_left (cleanup tbl) (early s) s0).
  set (s3 := fold_left (cleanup tbl) (normal s) (join_workers s1)).
  assert (Z : forall l x, proxies x = 0 -> proxies (fold_left (cleanup tbl) l x) = 0).
  { intros l x Hx. destruct (fold_cleanup_proxies tbl l x) as [H|H]; congruence. }
  destruct (Nat.eq_dec (proxies s) 0) as [P0|Pn].
  - apply Z. apply Z. simpl. apply Z. exact P0.
  - destruct (I_io _ _ I W Pn) as (i & r & Hin & E & Io). unfold regs in Hin.
    apply in_app_or in Hin. destruct Hin as [Hin|Hin].
    + apply Z. apply Z. simpl. unfold s1. eapply fold_cleanup_proxies_io; eauto.
    + apply in_app_or in Hin. destruct Hin as [Hin|Hin].
      * apply Z. unfold s3. eapply fold_cleanup_proxies_io; eauto.
      * eapply fold_cleanup_proxies_io; eauto.
Qed.

Lemma inv_finalize : forall tbl ok s, Inv tbl s -> Inv tbl (finalize tbl ok s).
Proof.
  intros tbl ok s I. destruct (qlib s) eqn:Q; [|unfold finalize; rewrite Q; exact I].
  destruct ok; [|unfold finalize; rewrite Q; exact I].
  destruct (finalize_spec tbl s I Q) as (a & b & _ & _ & _ & t & _ & _ & _ & L). cbv zeta in *.
  constructor.
  - intros _. split; [exact b|]. split; [exact t|]. intros W. apply finalize_proxies; auto.
  - rewrite b. constructor.
  - rewrite b. intros i [].
  - intros i H. apply L in H. destruct H as (H & Hr & Hc).
    destruct (I_ledger _ _ I i H) as [[K _]|[K|K]]; [contradiction|contradiction|auto].
  - rewrite a. discriminate.
  - intros W Hnz. exfalso. apply Hnz. apply finalize_proxies; auto.
Qed.

Lemma inv_step : forall tbl ae s o, Inv tbl s -> Inv tbl (step tbl ae s o).
Proof. intros tbl ae s [w|ok|i] I; simpl; [apply inv_initialize|apply inv_finalize|apply inv_use]; exact I. Qed.

Lemma run_snoc : forall tbl ae ops o, run tbl ae (ops ++ [o]) = step tbl ae (run tbl ae ops) o.
Proof. intros. unfold run. rewrite fold_left_app. reflexivity. Qed.

Lemma inv_run : forall tbl ae ops, Inv tbl (run tbl ae ops).
Proof.
  intros tbl ae ops. induction ops as [|o l IH] using rev_ind; [apply inv_fresh|]. rewrite run_snoc. apply inv_step. exact IH.
Qed.

(* ------------------------------------------------------------------ workloads that only use well-behaved rows *)
Definition ops_good (tbl : table) (ops : list op) : Prop := forall i, In (OUse i) ops -> good tbl i = true.
Definition init_good (tbl : table) : bool := forallb (good tbl) (init_ids tbl).

Record GInv (tbl : table) (s : rt) : Prop := mkGInv {
  G_dirty   : dirty s = [];
  G_created : forall j, In j (created s) -> good tbl j = true /\ (qlib s = true -> In j (regs s));
  G_regs    : forall j, In j (regs s) -> good tbl j = true;
  G_ledger  : forall j, In j (ledger s) -> (j = core_id tbl /\ qlib s = true) \/ In j (regs s);
  G_off     : qlib s = false -> ledger s = [] /\ created s = []
}.

Lemma empty_list : forall (l : list nat), (forall j, ~ In j l) -> l = [].
Proof. intros [|a l] H; [reflexivity|]. exfalso. apply (H a). left. reflexivity. Qed.

Lemma good_registers : forall tbl i, good tbl i = true -> row_at tbl i (fun r => r_registers r = true).
Proof.
  intros tbl i G. unfold good in G. destruct (nth_error tbl i) as [r|] eqn:E; [|discriminate].
  unfold good_row in G. apply andb_prop in G. exists r. tauto.
Qed.

Lemma ginv_step : forall tbl ae s o, init_good tbl = true -> Inv tbl s -> GInv tbl s ->
    (forall i, o = OUse i -> good tbl i = true) -> GInv tbl (step tbl ae s o).
Proof.
  intros tbl ae s o IG I G Ho. destruct o as [w|ok|i]; simpl.
  - (* initialize *)
    unfold initialize. destruct (qlib s) eqn:Q; [exact G|].
    destruct (G_off _ _ G Q) as [Le Ce]. destruct (I_off _ _ I Q) as (Hr & _ & _).
    cbv zeta. match goal with |- GInv tbl (fold_left _ _ ?x) => set (s0 := x) end.
    assert (Hnd : NoDup (init_ids tbl)) by (unfold init_ids; apply NoDup_filter, seq_NoDup).
    destruct (fold_bring_up tbl (init_ids tbl) s0 Hnd) as (a & b & c & d & e & f & g & h & N & Rg & L1 & L2).
    + intros k _ H. exact H.
    + constructor.
    + intros k H. apply in_init_ids. exact H.
    + cbv zeta in *. unfold init_good in IG. rewrite forallb_forall in IG.
      assert (Rg' : forall j, In j (regs (fold_left (bring_up tbl) (init_ids tbl) s0)) <-> In j (init_ids tbl)).
      { intros j. rewrite Rg. simpl. split; [intros [[]|[H _]]; exact H|]. intros H. right. split; [exact H|]. apply good_registers. auto. }
      constructor.
      * rewrite e. simpl. apply (G_dirty _ _ G).
      * rewrite d. simpl. rewrite Ce. intros j [].
      * intros j H. apply IG. apply Rg'. exact H.
      * intros j H. rewrite a. simpl. apply L1 in H. simpl in H. rewrite Le in H.
        destruct H as [[<-|[]]|H]; [left; auto|right; apply Rg'; exact H].
      * rewrite a. simpl. discriminate.
  - (* finalize *)
    destruct (qlib s) eqn:Q; [|unfold finalize; rewrite Q; exact G].
    destruct ok; [|unfold finalize; rewrite Q; exact G].
    destruct (finalize_spec tbl s I Q) as (a & b & _ & _ & _ & _ & _ & _ & _ & L). cbv zeta in *.
    assert (Hl : ledger (finalize tbl true s) = []).
    { apply empty_list. intros j H. apply L in H. destruct H as (H & Hr & Hc). destruct (G_ledger _ _ G j H) as [[K _]|K]; contradiction. }
    (* created and dirty through the three folds *)
    assert (HCD : dirty (finalize tbl true s) = [] /\ created (finalize tbl true s) = []).
    { unfold finalize. replace (negb (qlib s) || negb true) with false by (rewrite Q; reflexivity). cbv zeta. simpl.
      set (s0 := mkRt (qlib s) (early s) (normal s) (late s) (ledger s) (threads s) (proxies s) (created s) (dirty s) (atexits s) (fault s) []).
      assert (Ge : Forall (fun i => good tbl i = true) (early s)) by (apply Forall_forall; intros k Hk; apply (G_regs _ _ G); unfold regs; apply in_or_app; auto).
      assert (Gn : Forall (fun i => good tbl i = true) (normal s)) by (apply Forall_forall; intros k Hk; apply (G_regs _ _ G); unfold regs; apply in_or_app; right; apply in_or_app; auto).
      assert (Gl : Forall (fun i => good tbl i = true) (late s)) by (apply Forall_forall; intros k Hk; apply (G_regs _ _ G); unfold regs; apply in_or_app; right; apply in_or_app; auto).
      destruct (fold_cleanup_good tbl (early s) s0 Ge) as [D1 C1].
      set (s1 := fold_left (cleanup tbl) (early s) s0) in *.
      destruct (fold_cleanup_good tbl (normal s) (join_workers s1) Gn) as [D3 C3].
      set (s3 := fold_left (cleanup tbl) (normal s) (join_workers s1)) in *.
      destruct (fold_cleanup_good tbl (late s) s3 Gl) as [D4 C4].
      split.
      - rewrite D4, D3. simpl. rewrite D1. simpl. apply (G_dirty _ _ G).
      - apply empty_list. intros j H. apply C4 in H. destruct H as [H H4]. apply C3 in H. destruct H as [H H3]. simpl in H.
        apply C1 in H. destruct H as [H H1]. simpl in H. destruct (G_created _ _ G j H) as [_ K]. specialize (K Q).
        unfold regs in K. apply in_app_or in K. destruct K as [K|K]; [auto|]. apply in_app_or in K. destruct K; auto. }
    destruct HCD as [HD HC].
    constructor.
    + exact HD.
    + rewrite HC. intros j [].
    + rewrite b. intros j [].
    + rewrite Hl. intros j [].
    + intros _. auto.
  - (* use *)
    specialize (Ho i eq_refl). unfold use. destruct (qlib s) eqn:Q; simpl; [|exact G].
    destruct (nth_error tbl i) as [r|] eqn:E; [|exact G].
    rewrite (G_dirty _ _ G). simpl.
    assert (Hproxy : forall s1, GInv tbl s1 -> GInv tbl (if r_io r then add_proxy s1 else s1)).
    { intros s1 G1. destruct (r_io r); [|exact G1]. destruct G1. constructor; simpl; auto. }
    apply Hproxy. destruct (r_lazy r) eqn:Lz; [|exact G].
    destruct (mem i (created s)) eqn:C; [exact G|]. apply mem_false in C.
    destruct (bring_up_spec tbl (mark_created i s) i) as (a & b & c & d & e & f & g & h & L1 & L2 & R).
    simpl in a, b, c, d, e, f, g, h. change (regs (mark_created i s)) with (regs s) in R.
    destruct (good_registers tbl i Ho) as (r' & E' & Rr). assert (r' = r) by congruence. subst r'.
    destruct R as [(_ & P)|(Hn & _)]; [|exfalso; apply Hn; exists r; auto].
    assert (Hregs : forall j, In j (regs (bring_up tbl (mark_created i s) i)) <-> j = i \/ In j (regs s)).
    { intros j. split; intros H.
      - apply (Permutation_in _ P) in H. destruct H as [<-|H]; auto.
      - apply (Permutation_in _ (Permutation_sym P)). destruct H as [->|H]; simpl; auto. }
    constructor.
    + rewrite e. apply (G_dirty _ _ G).
    + rewrite d, a. simpl. intros j [<-|H].
      * split; [exact Ho|]. intros _. apply Hregs. auto.
      * destruct (G_created _ _ G j H) as [K1 K2]. split; [exact K1|]. intros _. apply Hregs. right. apply K2. exact Q.
    + intros j H. apply Hregs in H. destruct H as [->|H]; [exact Ho|apply (G_regs _ _ G); exact H].
    + intros j H. rewrite a. simpl. apply L1 in H. simpl in H. destruct H as [->|H].
      * right. apply Hregs. auto.
      * destruct (G_ledger _ _ G j H) as [K|K]; [left; exact K|right; apply Hregs; auto].
    + rewrite a. simpl. congruence.
Qed.

Lemma ginv_run : forall tbl ae ops, init_good tbl = true -> ops_good tbl ops -> GInv tbl (run tbl ae ops).
Proof.
  intros tbl ae ops IG. induction ops as [|o l IH] using rev_ind; intros Hg.
  - constructor; simpl; auto; try (intros j []).
  - rewrite run_snoc. apply ginv_step; [exact IG|apply inv_run| |].
    + apply IH. intros i H. apply Hg. apply in_or_app. auto.
    + intros i ->. apply Hg. apply in_or_app. right. left. reflexivity.
Qed.
