(* C19 lifecycle: executable model of qthread_initialize / qthread_finalize bookkeeping (definitions only).

   The teardown-registration table (which *_init / first use registers which cleanup in which stage, whether the
   cleanup restores the subsystem's statics, which lazily created statics are never released) is READ FROM THE
   SOURCE on every run: Lifecycle/GenSubsystems.v (lib/verif/props/c19_subsystems.py).  Row id = position.

   State mirrors src/qthread.c: qlib present?, the three cleanup lists (LIFO: a registration pushes at the head,
   finalize pops from the head), a ledger of live resources (one per row: what that row's cleanup releases; `core` =
   everything initialize builds itself: qlib, shepherds, workers' arrays, generic pools, mccoy thread), the worker
   pthreads, the blocking-call proxy pthreads, which lazily created statics currently point at a resource, which
   statics are stale (destroyed but not reset / flag not re-initialised), the number of atexit registrations.  *)
From Coq Require Import List Bool Arith.
Import ListNotations.

Inductive stage := Early | Normal | Late.

Record row := mkRow {
  r_stage     : stage;
  r_lazy      : bool;     (* registered on first use of the subsystem, not on the qthread_initialize path *)
  r_registers : bool;     (* a cleanup function is registered (false: created on first use and never released by finalize) *)
  r_resets    : bool;     (* the cleanup leaves the statics as the registering code expects them in the next incarnation *)
  r_io        : bool      (* its cleanup stops the blocking-call proxy threads *)
}.
Definition table := list row.

Record rt := mkRt {
  qlib    : bool;
  early   : list nat;
  normal  : list nat;
  late    : list nat;
  ledger  : list nat;     (* live resources *)
  threads : nat;          (* worker pthreads created by initialize and not yet joined *)
  proxies : nat;          (* blocking-call proxy pthreads *)
  created : list nat;     (* lazy rows whose static is non-NULL *)
  dirty   : list nat;     (* rows whose static state is stale *)
  atexits : nat;
  fault   : bool;         (* a subsystem with stale statics was used (the real code hangs or crashes there) *)
  ran     : list nat      (* cleanup functions run by the last finalize, in order *)
}.

Definition fresh : rt := mkRt false [] [] [] [] 0 0 [] [] 0 false [].

Definition core_id (tbl : table) : nat := length tbl.
Definition mem (i : nat) (l : list nat) : bool := existsb (Nat.eqb i) l.
Definition del (i : nat) (l : list nat) : list nat := filter (fun j => negb (Nat.eqb i j)) l.

Definition push (st : stage) (i : nat) (s : rt) : rt :=
  match st with
  | Early  => mkRt (qlib s) (i :: early s) (normal s) (late s) (ledger s) (threads s) (proxies s) (created s) (dirty s) (atexits s) (fault s) (ran s)
  | Normal => mkRt (qlib s) (early s) (i :: normal s) (late s) (ledger s) (threads s) (proxies s) (created s) (dirty s) (atexits s) (fault s) (ran s)
  | Late   => mkRt (qlib s) (early s) (normal s) (i :: late s) (ledger s) (threads s) (proxies s) (created s) (dirty s) (atexits s) (fault s) (ran s)
  end.

Definition add_res (i : nat) (s : rt) : rt :=
  mkRt (qlib s) (early s) (normal s) (late s) (i :: ledger s) (threads s) (proxies s) (created s) (dirty s) (atexits s) (fault s) (ran s).

(* a subsystem's init function / first use: create its resource, register its cleanup *)
Definition bring_up (tbl : table) (s : rt) (i : nat) : rt :=
  match nth_error tbl i with
  | None => s
  | Some r => let s1 := add_res i s in if r_registers r then push (r_stage r) i s1 else s1
  end.

Definition is_lazy (tbl : table) (i : nat) : bool := match nth_error tbl i with Some r => r_lazy r | None => true end.
(* the rows brought up on the qthread_initialize path, in call order *)
Definition init_ids (tbl : table) : list nat := filter (fun i => negb (is_lazy tbl i)) (seq 0 (length tbl)).

(* qthread_initialize with w workers in total; `atexit_each`: atexit(qthread_finalize) on every call (else once per process) *)
Definition initialize (tbl : table) (atexit_each : bool) (w : nat) (s : rt) : rt :=
  if qlib s then s                                       (* redundant call *)
  else
    let s1 := fold_left (bring_up tbl) (init_ids tbl) (mkRt true [] [] [] (core_id tbl :: ledger s) (pred w) (proxies s) (created s) (dirty s)
                                    (if atexit_each then S (atexits s) else match atexits s with 0 => 1 | n => n end)
                                    (fault s) []) in
    s1.

Definition set_fault (s : rt) : rt :=
  mkRt (qlib s) (early s) (normal s) (late s) (ledger s) (threads s) (proxies s) (created s) (dirty s) (atexits s) true (ran s).
Definition mark_created (i : nat) (s : rt) : rt :=
  mkRt (qlib s) (early s) (normal s) (late s) (ledger s) (threads s) (proxies s) (i :: created s) (dirty s) (atexits s) (fault s) (ran s).
Definition add_proxy (s : rt) : rt :=
  mkRt (qlib s) (early s) (normal s) (late s) (ledger s) (threads s) (S (proxies s)) (created s) (dirty s) (atexits s) (fault s) (ran s).

(* the workload uses the subsystem of row i (for an r_io row: issues a blocking call, which spawns a proxy thread) *)
Definition use (tbl : table) (i : nat) (s : rt) : rt :=
  if negb (qlib s) then s
  else match nth_error tbl i with
       | None => s
       | Some r =>
           if mem i (dirty s) then set_fault s
           else
             let s1 := if r_lazy r then (if mem i (created s) then s else bring_up tbl (mark_created i s) i) else s in
             if r_io r then add_proxy s1 else s1
       end.

(* running cleanup function i *)
Definition cleanup (tbl : table) (s : rt) (i : nat) : rt :=
  match nth_error tbl i with
  | None => s
  | Some r =>
      mkRt (qlib s) (early s) (normal s) (late s) (del i (ledger s)) (threads s)
           (if r_io r then 0 else proxies s)
           (if r_resets r then del i (created s) else created s)
           (if r_resets r then dirty s else i :: dirty s)
           (atexits s) (fault s) (ran s ++ [i])
  end.

Definition join_workers (s : rt) : rt :=
  mkRt (qlib s) (early s) (normal s) (late s) (ledger s) 0 (proxies s) (created s) (dirty s) (atexits s) (fault s) (ran s).

(* qthread_finalize; caller_ok = called by the main task on shepherd 0 worker 0 *)
Definition finalize (tbl : table) (caller_ok : bool) (s : rt) : rt :=
  if negb (qlib s) || negb caller_ok then s
  else
    let s0 := mkRt (qlib s) (early s) (normal s) (late s) (ledger s) (threads s) (proxies s) (created s) (dirty s) (atexits s) (fault s) [] in
    let s1 := fold_left (cleanup tbl) (early s) s0 in
    let s2 := join_workers s1 in
    let s3 := fold_left (cleanup tbl) (normal s) s2 in
    let s4 := fold_left (cleanup tbl) (late s) s3 in
    mkRt false [] [] [] (del (core_id tbl) (ledger s4)) (threads s4) (proxies s4) (created s4) (dirty s4) (atexits s4) (fault s4) (ran s4).

Inductive op := OInit (w : nat) | OFin (caller_ok : bool) | OUse (i : nat).

Definition step (tbl : table) (atexit_each : bool) (s : rt) (o : op) : rt :=
  match o with
  | OInit w => initialize tbl atexit_each w s
  | OFin ok => finalize tbl ok s
  | OUse i => use tbl i s
  end.
Definition run (tbl : table) (atexit_each : bool) (ops : list op) : rt := fold_left (step tbl atexit_each) ops fresh.

(* rows that behave: registered and restoring their statics *)
Definition good_row (r : row) : bool := r_registers r && r_resets r.
Definition good (tbl : table) (i : nat) : bool := match nth_error tbl i with Some r => good_row r | None => false end.
(* the exceptions of a table: rows that leak or leave stale statics *)
Fixpoint bad_rows (tbl : table) (i : nat) : list nat :=
  match tbl with
  | [] => []
  | r :: tl => if good_row r then bad_rows tl (S i) else i :: bad_rows tl (S i)
  end.
(* io rows are brought up by initialize and registered (so that finalize always stops the proxies) *)
Definition io_wellformed (tbl : table) : bool := forallb (fun r => negb (r_io r) || (negb (r_lazy r) && r_registers r)) tbl.
