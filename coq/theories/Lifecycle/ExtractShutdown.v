From Coq Require Import List.
From QV Require Import Lifecycle.Shutdown.
Require Extraction.
Require Import ExtrOcamlBasic.
Extraction Language OCaml.
Extraction "../ocaml/gen/c19shutdown_model.ml" step run init_state init_workers active_workers set_worker_flag set_shep_flag stuck_at_join all_exited no_term_left after_join wf_init mu total_tasks set_pc.
