(* C19 lifecycle: the property theorems.  General statements hold for EVERY registration table and every sequence of
   initialize / finalize / use operations; they are then instantiated with GenSubsystems.gen_table, the table read from
   the sources on this run.  The facts about gen_table the instances need (which rows are exceptions, that the rows
   brought up by qthread_initialize restore their statics, that the proxy-stopping row is registered by initialize,
   that atexit is registered once) are obligations proved by computation: a source edit that changes them breaks them. *)
From Coq Require Import List Bool Arith Lia Permutation.
From QV Require Import Lifecycle.Model Lifecycle.GenSubsystems Lifecycle.Proofs.
Import ListNotations.

(* ------------------------------------------------------------------ obligations on the generated table *)
Lemma gen_exceptions : bad_rows gen_table 0 = [12; 13; 14].
Proof. vm_compute. reflexivity. Qed.
Lemma gen_exceptions_unregistered_lazy :
  forallb (fun i => match nth_error gen_table i with Some r => r_lazy r && negb (r_registers r) && r_resets r | None => false end) [12; 13; 14] = true.
Proof. vm_compute. reflexivity. Qed.
Lemma gen_init_good : init_good gen_table = true.
Proof. vm_compute. reflexivity. Qed.
Lemma gen_io_wellformed : io_wellformed gen_table = true.
Proof. vm_compute. reflexivity. Qed.
Lemma gen_atexit_once : gen_atexit_every_initialize = false.
Proof. reflexivity. Qed.
Lemma gen_has_proxy_row : existsb r_io gen_table = true.
Proof. vm_compute. reflexivity. Qed.

(* ------------------------------------------------------------------ general theorems *)
Section General.
  Variable tbl : table.
  Variable ae : bool.

  (* finalize runs every registered cleanup exactly once, early stage first, then normal, then late, in list order;
     the lists are empty afterwards; every cleanup registered on the initialize path is among them *)
  Theorem finalize_runs_all_cleanups_gen : forall ops, let s := run tbl ae ops in qlib s = true ->
      let s' := finalize tbl true s in
      ran s' = early s ++ normal s ++ late s /\ NoDup (ran s') /\ early s' = [] /\ normal s' = [] /\ late s' = [] /\
      (forall i r, nth_error tbl i = Some r -> r_lazy r = false -> r_registers r = true -> In i (ran s')) /\
      (forall i, In i (ran s') -> exists r, nth_error tbl i = Some r /\ r_registers r = true).
  Proof.
    intros ops s Q s'. pose proof (inv_run tbl ae ops) as I. fold s in I.
    destruct (finalize_spec tbl s I Q) as (_ & _ & e & n & l & _ & r & _). cbv zeta in *. fold s' in e, n, l, r.
    rewrite r. repeat split; auto.
    - apply (I_nodup _ _ I).
    - intros i r0 E L R. apply (I_init _ _ I Q i r0); auto.
    - intros i H. destruct (I_valid _ _ I i H) as (r0 & E & R & _). exists r0. auto.
  Qed.

  (* after finalize the only live resources are those of rows that never register a cleanup *)
  Theorem ledger_balanced_gen : forall ops, let s := run tbl ae ops in qlib s = true ->
      forall j, In j (ledger (finalize tbl true s)) -> exists r, nth_error tbl j = Some r /\ r_registers r = false.
  Proof.
    intros ops s Q j H. pose proof (inv_finalize tbl true s (inv_run tbl ae ops)) as I.
    destruct (I_ledger _ _ I j H) as [[_ K]|[K|K]].
    - unfold finalize in K. fold s in K. rewrite Q in K. simpl in K. discriminate.
    - destruct (finalize_spec tbl s (inv_run tbl ae ops) Q) as (_ & b & _). cbv zeta in b. rewrite b in K. destruct K.
    - exact K.
  Qed.

  Theorem workers_joined_gen : forall ops, let s := run tbl ae ops in qlib s = true ->
      threads (finalize tbl true s) = 0 /\ (io_wellformed tbl = true -> proxies (finalize tbl true s) = 0).
  Proof.
    intros ops s Q. split.
    - destruct (finalize_spec tbl s (inv_run tbl ae ops) Q) as (_ & _ & _ & _ & _ & t & _). exact t.
    - intros W. apply finalize_proxies; auto. apply inv_run.
  Qed.

  Theorem redundant_calls_noop_gen : forall s w,
      (qlib s = true -> initialize tbl ae w s = s) /\
      (qlib s = false -> forall ok, finalize tbl ok s = s) /\
      (finalize tbl false s = s) /\
      (qlib s = false -> forall i, use tbl i s = s).
  Proof.
    intros s w. repeat split.
    - intros Q. unfold initialize. rewrite Q. reflexivity.
    - intros Q ok. unfold finalize. rewrite Q. reflexivity.
    - unfold finalize. rewrite orb_true_r. reflexivity.
    - intros Q i. unfold use. rewrite Q. reflexivity.
  Qed.

  (* re-initialisation: when the workload only used rows that register a cleanup which restores their statics, the state
     after finalize; initialize is the state after the very first initialize (up to the exit-handler count, the fault
     flag and the log of the last finalize) *)
  Definition same_runtime (a b : rt) : Prop :=
    qlib a = qlib b /\ early a = early b /\ normal a = normal b /\ late a = late b /\ ledger a = ledger b /\
    threads a = threads b /\ proxies a = proxies b /\ created a = created b /\ dirty a = dirty b.

  Definition with_af (a : nat) (f : bool) (s : rt) : rt :=
    mkRt (qlib s) (early s) (normal s) (late s) (ledger s) (threads s) (proxies s) (created s) (dirty s) a f (ran s).

  Lemma bring_up_with_af : forall a f s i, bring_up tbl (with_af a f s) i = with_af a f (bring_up tbl s i).
  Proof.
    intros. unfold bring_up. destruct (nth_error tbl i) as [r|]; [|reflexivity].
    destruct (r_registers r); [destruct (r_stage r)|]; reflexivity.
  Qed.
  Lemma fold_with_af : forall a f l s, fold_left (bring_up tbl) l (with_af a f s) = with_af a f (fold_left (bring_up tbl) l s).
  Proof. intros a f l. induction l as [|i l IH]; intros s; simpl; [reflexivity|]. rewrite bring_up_with_af. apply IH. Qed.

  Theorem reinit_equivalent_gen : forall ops w, init_good tbl = true -> io_wellformed tbl = true -> ops_good tbl ops ->
      let s := run tbl ae ops in qlib s = true ->
      same_runtime (initialize tbl ae w (finalize tbl true s)) (initialize tbl ae w fresh).
  Proof.
    intros ops w IG W Hg s Q.
    pose proof (inv_run tbl ae ops) as I. fold s in I.
    pose proof (ginv_step tbl ae s (OFin true) IG I (ginv_run tbl ae ops IG Hg)) as G. simpl in G.
    assert (G' : GInv tbl (finalize tbl true s)) by (apply G; intros i C; discriminate). clear G.
    destruct (finalize_spec tbl s I Q) as (a & _ & e & n & l & t & _). cbv zeta in *.
    pose proof (finalize_proxies tbl s I Q W) as P.
    destruct (G_off _ _ G' a) as [Le Ce]. pose proof (G_dirty _ _ G') as De.
    remember (finalize tbl true s) as f. destruct f as [q e0 n0 l0 le th pr cr di ax fa ra]. simpl in *. subst.
    unfold initialize. simpl.
    set (base := mkRt true [] [] [] [core_id tbl] (pred w) 0 [] [] 0 false []).
    match goal with |- same_runtime (fold_left _ _ ?r1) (fold_left _ _ ?r2) =>
      replace r1 with (with_af (atexits r1) (fault r1) base) by reflexivity;
      replace r2 with (with_af (atexits r2) (fault r2) base) by reflexivity end.
    rewrite !fold_with_af. unfold same_runtime, with_af. simpl. repeat split.
  Qed.

  (* exit handlers: registered once per process when the code guards the registration *)
  Lemma atexits_step : forall s o, atexits s <= 1 -> atexits (step tbl false s o) <= 1.
  Proof.
    intros s [w|ok|i] H; simpl.
    - unfold initialize. destruct (qlib s); [exact H|]. cbv zeta.
      match goal with |- atexits (fold_left _ ?l ?x) <= 1 => assert (K : forall l0 y, atexits (fold_left (bring_up tbl) l0 y) = atexits y) end.
      { intros l0. induction l0 as [|k l0 IH]; intros y; simpl; [reflexivity|]. rewrite IH.
        destruct (bring_up_spec tbl y k) as (_ & _ & _ & _ & _ & x & _). exact x. }
      rewrite K. simpl. destruct (atexits s); lia.
    - unfold finalize. destruct (negb (qlib s) || negb ok); [exact H|]. simpl.
      repeat match goal with |- context [fold_left (cleanup tbl) ?l ?x] =>
        let F := fresh in destruct (fold_cleanup_fields tbl l x) as (_ & _ & _ & _ & _ & F & _); cbv zeta in F; rewrite F; clear F end.
      simpl.
      repeat match goal with |- context [fold_left (cleanup tbl) ?l ?x] =>
        let F := fresh in destruct (fold_cleanup_fields tbl l x) as (_ & _ & _ & _ & _ & F & _); cbv zeta in F; rewrite F; clear F end.
      simpl. exact H.
    - unfold use. destruct (negb (qlib s)); [exact H|]. destruct (nth_error tbl i) as [r|]; [|exact H].
      destruct (mem i (dirty s)); [exact H|].
      assert (K : atexits (if r_lazy r then if mem i (created s) then s else bring_up tbl (mark_created i s) i else s) = atexits s).
      { destruct (r_lazy r); [|reflexivity]. destruct (mem i (created s)); [reflexivity|].
        destruct (bring_up_spec tbl (mark_created i s) i) as (_ & _ & _ & _ & _ & x & _). exact x. }
      destruct (r_io r); simpl; rewrite K; exact H.
  Qed.
End General.

Theorem atexit_once_gen : forall tbl ops, atexits (run tbl false ops) <= 1.
Proof.
  intros tbl ops. induction ops as [|o l IH] using rev_ind; [simpl; lia|]. rewrite run_snoc. apply atexits_step. exact IH.
Qed.

(* ------------------------------------------------------------------ refuted variants (the behaviour before the fix: commits) *)
Definition unreset (i : nat) (tbl : table) : table :=
  map (fun p => if Nat.eqb (fst p) i then mkRow (r_stage (snd p)) (r_lazy (snd p)) (r_registers (snd p)) false (r_io (snd p)) else snd p)
      (combine (seq 0 (length tbl)) tbl).

(* a cleanup that destroys its lazily created pool without resetting the static (qlfqueue before dc2758f): the second
   incarnation uses a destroyed pool *)
Example stale_static_refuted :
  fault (run (unreset 11 gen_table) false [OInit 4; OUse 11; OFin true; OInit 4; OUse 11]) = true.
Proof. vm_compute. reflexivity. Qed.
(* the proxy-stopping flag not re-initialised (io.c before a2e4050): blocking calls of the second incarnation are lost *)
Example sticky_flag_refuted :
  fault (run (unreset 8 gen_table) false [OInit 4; OUse 8; OFin true; OInit 4; OUse 8]) = true.
Proof. vm_compute. reflexivity. Qed.
(* atexit on every initialize (qthread.c before 1c1da3c): the handler count grows with the number of cycles *)
Example atexit_every_cycle_refuted :
  atexits (run gen_table true (concat (repeat [OInit 4; OFin true] 40))) = 40.
Proof. vm_compute. reflexivity. Qed.
(* the listed exceptions: a row that never registers a cleanup keeps its resource across finalize (dictionary pool) *)
Example unregistered_row_leaks_refuted :
  ledger (run gen_table false [OInit 4; OUse 12; OFin true]) = [12].
Proof. vm_compute. reflexivity. Qed.
(* ... once: the next incarnation reuses it *)
Example unregistered_row_leaks_once :
  ledger (run gen_table false [OInit 4; OUse 12; OFin true; OInit 4; OUse 12; OFin true; OInit 4; OUse 12; OFin true]) = [12].
Proof. vm_compute. reflexivity. Qed.

(* non-vacuity: a run with lazily registered rows in two stages, a proxy thread, and a full teardown *)
Example ex_cycle :
  let s := run gen_table false [OInit 4; OUse 10; OUse 11; OUse 8; OUse 8; OUse 5] in
  qlib s = true /\ threads s = 3 /\ proxies s = 2 /\ early s = [8] /\ normal s = [10; 9; 7; 4; 2; 1; 0] /\ late s = [11; 6; 5; 3] /\
  ran (finalize gen_table true s) = [8; 10; 9; 7; 4; 2; 1; 0; 11; 6; 5; 3] /\ ledger (finalize gen_table true s) = [] /\
  proxies (finalize gen_table true s) = 0.
Proof. vm_compute. repeat split. Qed.
