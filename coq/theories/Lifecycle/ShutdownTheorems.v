(* C19 extension U: the theorems about the shutdown machine (stated again in Properties/Properties_C19_shutdown.v) *)
From Coq Require Import List Arith Bool Lia.
From QV Require Import Lifecycle.Shutdown Lifecycle.ShutdownProofs Lifecycle.ShutdownInv.
Import ListNotations.

Definition reach (s0 s : state) := exists sched, run false s0 sched = Some s.

Lemma reach_inv s0 s : wf_init s0 = true -> reach s0 s -> Inv s.
Proof. intros W [sched R]. eapply run_inv; [apply init_inv; eauto|eauto]. Qed.

Lemma fpc_done_dec f : {f = FDone} + {f <> FDone}.
Proof. destruct f; (left; reflexivity) || (right; discriminate). Qed.

Lemma inv_all_exited s : Inv s -> after_join (fin s) = true -> all_exited s = true.
Proof.
  intros I A. unfold all_exited. apply forallb_of_nth. intros k w H. unfold is_exit.
  rewrite (i_join _ I _ _ H); auto. pose proof (nth_error_lt _ _ _ H). destruct (fin s); cbn in *; try discriminate; auto.
Qed.

(* every schedule: no reachable state in which nobody can make progress, and progress is bounded by the measure *)
Lemma all_workers_exit_gen s0 s :
  wf_init s0 = true -> reach s0 s ->
  (fin s = FDone -> all_exited s = true) /\
  (fin s <> FDone -> exists a s', step false s a = Some s' /\ mu s' < mu s) /\
  (forall a s', step false s a = Some s' -> s' = s \/ mu s' < mu s).
Proof.
  intros W R. pose proof (reach_inv _ _ W R) as I. repeat split.
  - intros F. apply inv_all_exited; auto. rewrite F. auto.
  - apply progress; auto.
  - intros a s'. apply step_mu.
Qed.

Lemma run_app v s l1 l2 s1 : run v s l1 = Some s1 -> run v s (l1 ++ l2) = run v s1 l2.
Proof.
  revert s; induction l1 as [|a r IH]; intros s H; cbn in *.
  - injection H as <-; auto.
  - destruct (step v s a); try discriminate. auto.
Qed.

Lemma never_doomed_inv n s : Inv s -> mu s <= n ->
  exists sched sf, run false s sched = Some sf /\ fin sf = FDone /\ all_exited sf = true /\ length sched <= mu s.
Proof.
  revert s; induction n as [|n IH]; intros s I L.
  - destruct (fpc_done_dec (fin s)) as [F|F].
    + exists [], s. repeat split; auto; [|cbn; lia]. apply inv_all_exited; auto. rewrite F; auto.
    + destruct (progress _ I F) as (a & s' & _ & Q). lia.
  - destruct (fpc_done_dec (fin s)) as [F|F].
    + exists [], s. repeat split; auto; [|cbn; lia]. apply inv_all_exited; auto. rewrite F; auto.
    + destruct (progress _ I F) as (a & s' & St & Q).
      destruct (IH s') as (sched & sf & R & Fd & E & Len); [eapply step_inv; eauto|lia|].
      exists (a :: sched), sf. repeat split; auto; cbn; [rewrite St; auto|lia].
Qed.

Lemma never_doomed_gen s0 s : wf_init s0 = true -> reach s0 s ->
  exists sched sf, run false s sched = Some sf /\ fin sf = FDone /\ all_exited sf = true /\ length sched <= mu s.
Proof. intros W R. apply (never_doomed_inv (mu s)); auto. eapply reach_inv; eauto. Qed.

(* ------------------------------------------------------------------ terminators *)
Lemma exited_no_step s k w : nth_error (workers s) k = Some w -> wpc_ w = WExit ->
  forall v a, (a = ACheck k \/ a = ATerm k \/ (exists d, a = ATask k d) \/ (exists vi m, a = ASteal k vi m) \/ a = AEmpty k) -> step v s a = None.
Proof.
  intros H P v a [->|[->|[[d ->]|[[vi [m ->]]| ->]]]]; cbn; unfold w_check, w_term, w_task, w_steal, w_empty; rewrite H, P; auto.
Qed.

Lemma sum_qtask_upd l i sh sh' : nth_error l i = Some sh -> sum qtask (upd l i sh') + qtask sh = sum qtask l + qtask sh'.
Proof. apply sum_upd. Qed.

Lemma step_tasks v s a s' : step v s a = Some s' -> total_tasks s' = total_tasks s.
Proof.
  unfold total_tasks. destruct a as [|k|k|k d|k vi m|k]; cbn [step].
  - unfold fin_step. destruct (fin s); try discriminate;
      repeat match goal with |- context [match nth_error ?l ?k with _ => _ end] => destruct (nth_error l k) eqn:? ; try discriminate end;
      try (intros H; injection H as <-; reflexivity).
    + intros H; injection H as <-. cbn [trun sheps].
      match goal with H : nth_error (sheps s) _ = Some ?sh |- _ => pose proof (sum_qtask_upd _ _ _ (add_term sh) H); cbn [add_term qtask] in *; lia end.
    + destruct (wpc_ w); try discriminate. intros H; injection H as <-; reflexivity.
  - unfold w_check. destruct (nth_error (workers s) k) as [w|]; try discriminate. destruct (wpc_ w); try discriminate.
    destruct (wact w); intros H; injection H as <-; reflexivity.
  - unfold w_term. destruct (nth_error (workers s) k) as [w|]; try discriminate. destruct (wpc_ w); try discriminate.
    destruct (nth_error (sheps s) (wshep w)) as [sh|] eqn:Hs; try discriminate. destruct (0 <? qterm sh); try discriminate.
    intros H; injection H as <-. cbn [trun sheps]. pose proof (sum_qtask_upd _ _ _ (del_term sh) Hs). cbn [del_term qtask] in *. lia.
  - unfold w_task. destruct (nth_error (workers s) k) as [w|]; try discriminate. destruct (wpc_ w); try discriminate.
    destruct (nth_error (sheps s) (wshep w)) as [sh|] eqn:Hs; try discriminate.
    destruct (0 <? qtask sh) eqn:Q; try discriminate. apply Nat.ltb_lt in Q.
    pose proof (sum_qtask_upd _ _ _ (set_task sh (pred (qtask sh))) Hs) as E. cbn [set_task qtask] in E.
    destruct (sact sh) eqn:A.
    + intros H; injection H as <-. cbn [trun sheps]. lia.
    + destruct (nth_error (sheps s) d) as [shd|] eqn:Hd; try discriminate. destruct (sact shd) eqn:Ad; try discriminate.
      intros H; injection H as <-. cbn [trun sheps].
      assert (wshep w <> d) as N by (intros E'; rewrite E' in Hs; rewrite Hs in Hd; injection Hd as E''; subst shd; congruence).
      assert (nth_error (upd (sheps s) (wshep w) (set_task sh (pred (qtask sh)))) d = Some shd) as Hd' by (rewrite nth_error_upd_neq; auto).
      pose proof (sum_qtask_upd _ _ _ (set_task shd (S (qtask shd))) Hd') as E2. cbn [set_task qtask] in E2. lia.
  - unfold w_steal. destruct (nth_error (workers s) k) as [w|]; try discriminate. destruct (wpc_ w); try discriminate.
    destruct (nth_error (sheps s) (wshep w)) as [sh|] eqn:Hs; try discriminate.
    destruct (nth_error (sheps s) vi) as [shv|] eqn:Hv; try discriminate.
    destruct (sact sh && (qterm sh =? 0) && (qtask sh =? 0) && negb (vi =? wshep w) && (m <? qtask shv)) eqn:C; try discriminate.
    repeat (apply andb_prop in C; destruct C as [C ?]).
    match goal with H : (m <? _) = true |- _ => apply Nat.ltb_lt in H end.
    match goal with H : negb _ = true |- _ => apply negb_true_iff in H; apply Nat.eqb_neq in H end.
    match goal with H : (qtask sh =? 0) = true |- _ => apply Nat.eqb_eq in H end.
    intros H'; injection H' as <-. cbn [trun sheps].
    pose proof (sum_qtask_upd _ _ _ (set_task sh m) Hs) as E. cbn [set_task qtask] in E.
    assert (nth_error (upd (sheps s) (wshep w) (set_task sh m)) vi = Some shv) as Hv' by (rewrite nth_error_upd_neq; auto).
    pose proof (sum_qtask_upd _ _ _ (set_task shv (qtask shv - S m)) Hv') as E2. cbn [set_task qtask] in E2. lia.
  - unfold w_empty. destruct (nth_error (workers s) k) as [w|]; try discriminate. destruct (wpc_ w); try discriminate.
    intros H; injection H as <-; reflexivity.
Qed.

Lemma run_tasks v s sched s' : run v s sched = Some s' -> total_tasks s' = total_tasks s.
Proof.
  revert s; induction sched as [|a r IH]; intros s H; cbn in H.
  - injection H as <-; auto.
  - destruct (step v s a) as [s1|] eqn:E; try discriminate. rewrite (IH _ H). eapply step_tasks; eauto.
Qed.

Lemma each_terminator_taken_once_gen s0 s :
  wf_init s0 = true -> reach s0 s -> after_join (fin s) = true ->
  no_term_left s = true /\ all_exited s = true /\
  (forall i, sum (fex i) (workers s) = sum (fsh i) (workers s) /\ sum (fen i) (workers s) = sum (fsh i) (workers s)) /\
  total_tasks s = total_tasks s0 /\
  (forall k w v a, nth_error (workers s) k = Some w ->
     (a = ACheck k \/ a = ATerm k \/ (exists d, a = ATask k d) \/ (exists vi m, a = ASteal k vi m) \/ a = AEmpty k) -> step v s a = None).
Proof.
  intros W R A. pose proof (reach_inv _ _ W R) as I. pose proof (inv_all_exited _ I A) as E.
  assert (forall k w, nth_error (workers s) k = Some w -> is_exit w = true /\ wterm w = true) as X.
  { intros k w H. split; [eapply forallb_nth; eauto|].
    apply (i_term _ I _ _ H). pose proof (nth_error_lt _ _ _ H). destruct (fin s); cbn in *; try discriminate; auto. }
  assert (forall i, sum (fex i) (workers s) = sum (fsh i) (workers s) /\ sum (fen i) (workers s) = sum (fsh i) (workers s)) as Q.
  { intros i. split; apply sum_ext_nth; intros k w H; destruct (X _ _ H) as [X1 X2]; unfold fex, fen, fsh; rewrite ?X1, ?X2, andb_true_r; auto. }
  repeat split; auto; try apply Q.
  - unfold no_term_left. apply forallb_of_nth. intros i sh H. apply Nat.eqb_eq.
    pose proof (i_acc _ I i) as C. destruct (Q i) as [Q1 Q2]. unfold qtl in C. rewrite H in C. lia.
  - destruct R as [sched R]. eapply run_tasks; eauto.
  - intros k w v a H. apply (exited_no_step _ _ _ H). destruct (X _ _ H) as [X1 _]. unfold is_exit in X1. destruct (wpc_ w); congruence.
Qed.

Lemma join_after_exit_gen s0 s : wf_init s0 = true -> reach s0 s ->
  forall k w, nth_error (workers s) k = Some w -> k < join_pos (length (workers s)) (fin s) -> wpc_ w = WExit.
Proof. intros W R. apply (i_join _ (reach_inv _ _ W R)). Qed.

Lemma join_needs_exit v s k w s' : fin s = FJoin k -> nth_error (workers s) k = Some w -> step v s AFin = Some s' -> wpc_ w = WExit.
Proof. cbn. unfold fin_step. intros -> ->. destruct (wpc_ w); congruence. Qed.

Lemma cleanups_after_all_joined_gen s0 s : wf_init s0 = true -> reach s0 s -> after_join (fin s) = true -> all_exited s = true.
Proof. intros W R. apply inv_all_exited. eapply reach_inv; eauto. Qed.

(* ------------------------------------------------------------------ the seeded C19-3 / C19-4 change is refuted *)
Definition wit0 := init_state 4 2 7 [] [].
Definition wit_sched : list action :=
  repeat AFin 15 ++ flat_map (fun k => [ACheck k; ATerm k]) (seq 0 6) ++ repeat AFin 6.

Lemma shep_flag_test_refuted_gen :
  exists s, run true wit0 wit_sched = Some s /\ fin s = FJoin 6 /\ stuck_at_join s = Some (3, 1) /\
            (forall a s', step true s a = Some s' -> s' = s) /\ wf_init wit0 = true.
Proof.
  eexists. split; [vm_compute; reflexivity|]. split; [reflexivity|]. split; [reflexivity|]. split; [|reflexivity].
  intros a s' H. destruct a as [|k|k|k d|k vi m|k].
  - cbv in H. discriminate.
  - do 7 (destruct k as [|k]; [cbv in H; first [discriminate | injection H as <-; reflexivity]|]). destruct k; cbv in H; discriminate.
  - do 7 (destruct k as [|k]; [cbv in H; discriminate|]). destruct k; cbv in H; discriminate.
  - do 7 (destruct k as [|k]; [cbv in H; discriminate|]). destruct k; cbv in H; discriminate.
  - do 7 (destruct k as [|k]; [cbv in H; discriminate|]). destruct k; cbv in H; discriminate.
  - do 7 (destruct k as [|k]; [cbv in H; discriminate|]). destruct k; cbv in H; discriminate.
Qed.

(* why the machine assumes that no disable call runs concurrently with finalize: a worker disabled after the finalizer's test
   of its flag is never re-enabled *)
Lemma concurrent_disable_hangs_gen :
  exists s1, run false (init_state 1 2 2 [] []) [AFin; AFin; AFin] = Some s1 /\
             let s := set_worker_flag s1 0 false in
             stuck_at_join s = Some (0, 1) /\ (forall a s', step false s a = Some s' -> s' = s).
Proof.
  eexists. split; [vm_compute; reflexivity|]. split; [reflexivity|].
  intros a s' H. destruct a as [|k|k|k d|k vi m|k].
  - cbv in H. discriminate.
  - destruct k as [|k]; [cbv in H; first [discriminate | injection H as <-; reflexivity]|]. destruct k; cbv in H; discriminate.
  - destruct k as [|k]; [cbv in H; discriminate|]. destruct k; cbv in H; discriminate.
  - destruct k as [|k]; [cbv in H; discriminate|]. destruct k; cbv in H; discriminate.
  - destruct k as [|k]; [cbv in H; discriminate|]. destruct k; cbv in H; discriminate.
  - destruct k as [|k]; [cbv in H; discriminate|]. destruct k; cbv in H; discriminate.
Qed.

(* the same configuration with the code's test (the worker's own flag) is an admissible start: it terminates *)
Example wit0_code_terminates : exists sched sf, run false wit0 sched = Some sf /\ fin sf = FDone /\ all_exited sf = true /\ length sched <= mu wit0.
Proof. apply (never_doomed_gen wit0 wit0); [reflexivity|exists []; reflexivity]. Qed.

(* non-vacuity: an admissible start with an individually disabled worker, a disabled shepherd and queued tasks; a reachable
   state after the joins *)
Definition ex0 := set_shep_flag (set_worker_flag (init_state 3 2 5 [] [0; 2; 1]) 2 false) 2 false.
Example ex0_wf : wf_init ex0 = true.
Proof. reflexivity. Qed.
Example ex0_reaches_done : exists sched s, run false ex0 sched = Some s /\ after_join (fin s) = true /\ total_tasks s = 3.
Proof.
  destruct (never_doomed_gen ex0 ex0 ex0_wf) as (sched & sf & R & F & _); [exists []; reflexivity|].
  exists sched, sf. repeat split; auto; [rewrite F; auto|]. rewrite (run_tasks _ _ _ _ R). reflexivity.
Qed.
