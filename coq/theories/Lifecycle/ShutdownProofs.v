(* C19 extension U: proofs about the shutdown machine of Lifecycle/Shutdown.v *)
From Coq Require Import List Arith Bool Lia.
From QV Require Import Lifecycle.Shutdown.
Import ListNotations.

(* ------------------------------------------------------------------ lists with one replaced element *)
Lemma length_upd {A} (l : list A) k x : length (upd l k x) = length l.
Proof. revert k; induction l as [|h t IH]; intros [|k]; cbn; auto. Qed.

Lemma nth_error_upd_eq {A} (l : list A) k x y : nth_error l k = Some y -> nth_error (upd l k x) k = Some x.
Proof. revert k; induction l as [|h t IH]; intros [|k] H; cbn in *; try discriminate; auto. Qed.

Lemma nth_error_upd_neq {A} (l : list A) k k' x : k <> k' -> nth_error (upd l k x) k' = nth_error l k'.
Proof. revert k k'; induction l as [|h t IH]; intros [|k] [|k'] H; cbn; auto; try congruence. Qed.

Lemma nth_error_upd_cases {A} (l : list A) k k' x y z :
  nth_error l k = Some z -> nth_error (upd l k x) k' = Some y -> (k' = k /\ y = x) \/ (k' <> k /\ nth_error l k' = Some y).
Proof.
  intros Hz H. destruct (Nat.eq_dec k k') as [->|N].
  - rewrite (nth_error_upd_eq _ _ _ _ Hz) in H. left; split; congruence.
  - rewrite nth_error_upd_neq in H by auto. right; split; auto.
Qed.

Lemma sum_upd {A} (f : A -> nat) (l : list A) k x y : nth_error l k = Some y -> sum f (upd l k x) + f y = sum f l + f x.
Proof.
  revert k; induction l as [|h t IH]; intros [|k] H; cbn in *; try discriminate.
  - injection H as ->. lia.
  - specialize (IH _ H). unfold sum in IH. lia.
Qed.

Lemma sum_le_lt {A} (f g : A -> nat) (l : list A) k w :
  (forall k' x, nth_error l k' = Some x -> f x <= g x) -> nth_error l k = Some w -> f w < g w -> sum f l < sum g l.
Proof.
  revert k; induction l as [|h t IH]; intros [|k] Hle Hk Hlt; cbn in *; try discriminate.
  - injection Hk as ->.
    assert (sum f t <= sum g t).
    { clear - Hle. assert (H : forall k' x, nth_error t k' = Some x -> f x <= g x) by (intros k' x; apply (Hle (S k') x)).
      clear Hle. induction t as [|a t IH]; cbn; auto. pose proof (H 0 a eq_refl).
      assert (sum f t <= sum g t) by (apply IH; intros k' x; apply (H (S k') x)). unfold sum in *. lia. }
    unfold sum in *. lia.
  - pose proof (Hle 0 h eq_refl).
    assert (sum f t < sum g t) by (apply (IH k); auto; intros k' x; apply (Hle (S k') x)).
    unfold sum in *. lia.
Qed.

Lemma sum_zero {A} (f : A -> nat) (l : list A) : (forall k x, nth_error l k = Some x -> f x = 0) -> sum f l = 0.
Proof.
  induction l as [|h t IH]; intros H; cbn; auto.
  rewrite (H 0 h eq_refl). cbn. apply IH. intros k x; apply (H (S k) x).
Qed.

Lemma sum_ext_nth {A} (f g : A -> nat) (l : list A) : (forall k x, nth_error l k = Some x -> f x = g x) -> sum f l = sum g l.
Proof.
  induction l as [|h t IH]; intros H; cbn; auto.
  rewrite (H 0 h eq_refl). f_equal. apply IH. intros k x; apply (H (S k) x).
Qed.

Lemma nth_error_lt {A} (l : list A) k x : nth_error l k = Some x -> k < length l.
Proof. intros H. apply nth_error_Some. congruence. Qed.

Lemma nth_error_some {A} (l : list A) k : k < length l -> exists x, nth_error l k = Some x.
Proof. intros H. destruct (nth_error l k) eqn:E; eauto. apply nth_error_None in E. lia. Qed.

Lemma forallb_nth {A} (f : A -> bool) l k x : forallb f l = true -> nth_error l k = Some x -> f x = true.
Proof. intros H E. rewrite forallb_forall in H. apply H. eapply nth_error_In; eauto. Qed.

Lemma forallb_of_nth {A} (f : A -> bool) l : (forall k x, nth_error l k = Some x -> f x = true) -> forallb f l = true.
Proof.
  intros H. apply forallb_forall. intros x Hin. destruct (In_nth_error _ _ Hin) as [k Hk]. eauto.
Qed.

(* ------------------------------------------------------------------ every step stutters or decreases the measure *)
Lemma next_enq_cases n k : (k < n /\ next_enq n k = FEnq k) \/ (n <= k /\ next_enq n k = FEarly).
Proof. unfold next_enq. destruct (k <? n) eqn:E; [apply Nat.ltb_lt in E | apply Nat.ltb_ge in E]; auto. Qed.
Lemma next_join_cases n k : (k < n /\ next_join n k = FJoin k) \/ (n <= k /\ next_join n k = FFree).
Proof. unfold next_join. destruct (k <? n) eqn:E; [apply Nat.ltb_lt in E | apply Nat.ltb_ge in E]; auto. Qed.

Lemma finrem_next_enq n k : k < n -> finrem n (next_enq n (S k)) < finrem n (FCas k).
Proof. intros H. destruct (next_enq_cases n (S k)) as [[? ->]|[? ->]]; cbn; lia. Qed.
Lemma finrem_next_join n k : k < n -> finrem n (next_join n (S k)) < finrem n (FJoin k).
Proof. intros H. destruct (next_join_cases n (S k)) as [[? ->]|[? ->]]; cbn; lia. Qed.
Lemma finrem_next_join0 n : finrem n (next_join n 0) < finrem n FEarly.
Proof. destruct (next_join_cases n 0) as [[? ->]|[? ->]]; cbn; lia. Qed.

Lemma fin_step_mu v s s' : fin_step v s = Some s' -> mu s' < mu s.
Proof.
  unfold fin_step, mu. destruct (fin s) eqn:F; intros H.
  - destruct (nth_error (workers s) k) as [w|] eqn:Hw; try discriminate.
    destruct (nth_error (sheps s) (wshep w)) as [sh|] eqn:Hs; try discriminate.
    injection H as <-. cbn [workers sheps fin]. rewrite length_upd.
    pose proof (sum_upd wm _ _ (set_term w) _ Hw). pose proof (sum_upd tw _ _ (add_term sh) _ Hs).
    pose proof (nth_error_lt _ _ _ Hw).
    assert (wm (set_term w) = wm w) by reflexivity. assert (tw (add_term sh) = tw sh) by reflexivity. cbn [finrem]. lia.
  - destruct (nth_error (workers s) k) as [w|] eqn:Hw; try discriminate.
    pose proof (nth_error_lt _ _ _ Hw) as L. pose proof (finrem_next_enq _ _ L) as Q.
    injection H as <-. unfold with_fin. cbn [workers sheps fin].
    cbv zeta. destruct (if v then _ else _); cbv iota; cbn [finrem] in *; lia.
  - destruct (nth_error (workers s) k) as [w|] eqn:Hw; try discriminate.
    pose proof (nth_error_lt _ _ _ Hw) as L. pose proof (finrem_next_enq _ _ L) as Q.
    injection H as <-. cbn [workers sheps fin]. rewrite length_upd.
    pose proof (sum_upd wm _ _ (set_act w true) _ Hw). assert (wm (set_act w true) = wm w) by reflexivity. lia.
  - injection H as <-. unfold with_fin. cbn [workers sheps fin]. pose proof (finrem_next_join0 (length (workers s))). lia.
  - destruct (nth_error (workers s) k) as [w|] eqn:Hw; try discriminate.
    pose proof (nth_error_lt _ _ _ Hw) as L. pose proof (finrem_next_join _ _ L) as Q.
    destruct (wpc_ w); try discriminate. injection H as <-. unfold with_fin. cbn [workers sheps fin]. lia.
  - injection H as <-. unfold with_fin. cbn [workers sheps fin finrem]. lia.
  - injection H as <-. unfold with_fin. cbn [workers sheps fin finrem]. lia.
  - injection H as <-. unfold with_fin. cbn [workers sheps fin finrem]. lia.
  - discriminate.
Qed.

Lemma tw_set_task sh m : tw (set_task sh m) = m * (if sact sh then 3 else 5).
Proof. reflexivity. Qed.

Lemma step_mu v s a s' : step v s a = Some s' -> s' = s \/ mu s' < mu s.
Proof.
  destruct a as [|k|k|k d|k vi m|k]; cbn [step].
  - intros H. right. eapply fin_step_mu; eauto.
  - unfold w_check. destruct (nth_error (workers s) k) as [w|] eqn:Hw; try discriminate.
    destruct (wpc_ w) eqn:P; try discriminate. destruct (wact w); intros H; injection H as <-; auto.
    right. unfold mu. cbn [workers sheps fin]. rewrite length_upd.
    pose proof (sum_upd wm _ _ (set_pc w WGet) _ Hw). assert (wm (set_pc w WGet) = 1) by reflexivity.
    assert (wm w = 2) by (unfold wm; rewrite P; auto). lia.
  - unfold w_term. destruct (nth_error (workers s) k) as [w|] eqn:Hw; try discriminate.
    destruct (wpc_ w) eqn:P; try discriminate. destruct (nth_error (sheps s) (wshep w)) as [sh|] eqn:Hs; try discriminate.
    destruct (0 <? qterm sh); try discriminate. intros H; injection H as <-. right.
    unfold mu. cbn [workers sheps fin]. rewrite length_upd.
    pose proof (sum_upd wm _ _ (set_pc w WExit) _ Hw). assert (wm (set_pc w WExit) = 0) by reflexivity.
    assert (wm w = 1) by (unfold wm; rewrite P; auto).
    pose proof (sum_upd tw _ _ (del_term sh) _ Hs). assert (tw (del_term sh) = tw sh) by reflexivity. lia.
  - unfold w_task. destruct (nth_error (workers s) k) as [w|] eqn:Hw; try discriminate.
    destruct (wpc_ w) eqn:P; try discriminate. destruct (nth_error (sheps s) (wshep w)) as [sh|] eqn:Hs; try discriminate.
    destruct (0 <? qtask sh) eqn:Q; try discriminate. apply Nat.ltb_lt in Q.
    pose proof (sum_upd wm _ _ (set_pc w WSpin) _ Hw) as Ew. assert (wm (set_pc w WSpin) = 2) as E2 by reflexivity.
    assert (wm w = 1) as E1 by (unfold wm; rewrite P; auto).
    pose proof (sum_upd tw _ _ (set_task sh (pred (qtask sh))) _ Hs) as Es. rewrite tw_set_task in Es.
    assert (tw sh = qtask sh * (if sact sh then 3 else 5)) as Et by reflexivity.
    destruct (sact sh) eqn:A.
    + intros H; injection H as <-. right. unfold mu. cbn [workers sheps fin]. rewrite length_upd. lia.
    + destruct (nth_error (sheps s) d) as [shd|] eqn:Hd; try discriminate.
      destruct (sact shd) eqn:Ad; try discriminate. intros H; injection H as <-. right.
      assert (wshep w <> d) as N by (intros E; rewrite E in Hs; rewrite Hs in Hd; injection Hd as E'; subst shd; congruence).
      assert (nth_error (upd (sheps s) (wshep w) (set_task sh (pred (qtask sh)))) d = Some shd) as Hd' by (rewrite nth_error_upd_neq; auto).
      pose proof (sum_upd tw _ _ (set_task shd (S (qtask shd))) _ Hd') as Ed. rewrite tw_set_task in Ed. rewrite Ad in Ed.
      assert (tw shd = qtask shd * 3) as Etd by (unfold tw; rewrite Ad; auto).
      unfold mu. cbn [workers sheps fin]. rewrite length_upd. lia.
  - unfold w_steal. destruct (nth_error (workers s) k) as [w|] eqn:Hw; try discriminate.
    destruct (wpc_ w) eqn:P; try discriminate. destruct (nth_error (sheps s) (wshep w)) as [sh|] eqn:Hs; try discriminate.
    destruct (nth_error (sheps s) vi) as [shv|] eqn:Hv; try discriminate.
    destruct (sact sh && (qterm sh =? 0) && (qtask sh =? 0) && negb (vi =? wshep w) && (m <? qtask shv)) eqn:C; try discriminate.
    repeat (apply andb_prop in C; destruct C as [C ?]).
    intros H'; injection H' as <-. right.
    match goal with H : (m <? _) = true |- _ => apply Nat.ltb_lt in H end.
    match goal with H : negb _ = true |- _ => apply negb_true_iff in H; apply Nat.eqb_neq in H end.
    match goal with H : (qtask sh =? 0) = true |- _ => apply Nat.eqb_eq in H end.
    pose proof (sum_upd wm _ _ (set_pc w WSpin) _ Hw) as Ew. assert (wm (set_pc w WSpin) = 2) as E2 by reflexivity.
    assert (wm w = 1) as E1 by (unfold wm; rewrite P; auto).
    pose proof (sum_upd tw _ _ (set_task sh m) _ Hs) as Es. rewrite tw_set_task in Es. rewrite C in Es.
    assert (tw sh = 0) as Et by (unfold tw; lia).
    assert (nth_error (upd (sheps s) (wshep w) (set_task sh m)) vi = Some shv) as Hv' by (rewrite nth_error_upd_neq; auto).
    pose proof (sum_upd tw _ _ (set_task shv (qtask shv - S m)) _ Hv') as Ev. rewrite tw_set_task in Ev.
    assert (tw shv = qtask shv * (if sact shv then 3 else 5)) as Etv by reflexivity.
    unfold mu. cbn [workers sheps fin]. rewrite length_upd. destruct (sact shv); lia.
  - unfold w_empty. destruct (nth_error (workers s) k) as [w|]; try discriminate. destruct (wpc_ w); try discriminate.
    intros H; injection H as <-; auto.
Qed.
