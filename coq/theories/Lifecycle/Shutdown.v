(* C19 extension U: the worker start-up / shutdown protocol of qthread_initialize / qthread_finalize as a micro-step
   machine (definitions only; proofs in ShutdownProofs.v).

   Code modelled (src/qthread.c, src/workers.c, src/threadqueues/sherwood_threadqueues.c of the working tree):
   * qthread_initialize, worker creation loop: for i < S, j < W, (i,j) <> (0,0): worker (i,j) gets
       active := ((j * S) + i + 1 <= hw_par)   and a pthread running qthread_master; nworkers_active := hw_par.
   * qthread_master (one worker thread):   loop { while (!me_worker->active) spin;          -- WSpin, action ACheck
                                                  t = qt_scheduler_get_thread(own shepherd's queue, me->active);   -- WGet
                                                  if t is a TERM_SHEP terminator: free it, leave the loop, return   -- ATerm
                                                  else run it (shepherd active) or re-route it (shepherd disabled) } -- ATask
     qt_scheduler_get_thread takes from the worker's OWN shepherd's queue (any entry: the queue is an abstract bag here, the
     real one is taken from the tail); with an empty queue and an ACTIVE shepherd and S > 1 it steals STEALABLE entries from
     another shepherd (ASteal: the first stolen task is run, the surplus goes to the own queue); terminators are enqueued with
     flags = QTHREAD_UNSTEALABLE and are never stolen.  A terminator is NOT addressed to a particular worker: the finalizer
     enqueues one per worker (i,j) on shepherd i's queue and whichever worker of shepherd i dequeues it exits.
   * qthread_finalize (main thread = worker (0,0), never disabled, not in the list of worker threads):
       for every worker k (shepherd-major order, (0,0) skipped): allocate terminator; enqueue on shepherds[i].ready (FEnq);
            read workers[j].active (FRead); if 0: CAS(active, 0, 1) (FCas);
       early cleanup stage (FEarly); for every worker k: pthread_join (FJoin k: enabled only when worker k has exited);
       free worker memory / queues (FFree); normal cleanup stage (FNormal); late cleanup stage (FLate); FDone.
   The `variant` flag of the step function selects the seeded C19-3 / C19-4 change: FRead reads the SHEPHERD's flag. *)
From Coq Require Import List Arith Bool.
Import ListNotations.

Inductive wpc := WSpin | WGet | WExit.
Inductive fpc := FEnq (k : nat) | FRead (k : nat) | FCas (k : nat) | FEarly | FJoin (k : nat) | FFree | FNormal | FLate | FDone.

Record shep := mkS { sact : bool; qterm : nat; qtask : nat }.
(* wterm is a ghost: "the terminator enqueued on behalf of this worker has been enqueued" *)
Record worker := mkW { wshep : nat; wloc : nat; wact : bool; wpc_ : wpc; wterm : bool }.
Record state := mkSt { sheps : list shep; workers : list worker; fin : fpc; trun : nat }.

Fixpoint upd {A} (l : list A) (k : nat) (x : A) : list A :=
  match l, k with
  | [], _ => []
  | _ :: t, 0 => x :: t
  | h :: t, S k' => h :: upd t k' x
  end.

Definition set_pc w p := mkW (wshep w) (wloc w) (wact w) p (wterm w).
Definition set_act w b := mkW (wshep w) (wloc w) b (wpc_ w) (wterm w).
Definition set_term w := mkW (wshep w) (wloc w) (wact w) (wpc_ w) true.
Definition add_term sh := mkS (sact sh) (S (qterm sh)) (qtask sh).
Definition del_term sh := mkS (sact sh) (pred (qterm sh)) (qtask sh).
Definition set_task sh n := mkS (sact sh) (qterm sh) n.

Definition next_enq (n k : nat) := if k <? n then FEnq k else FEarly.
Definition next_join (n k : nat) := if k <? n then FJoin k else FFree.
Definition with_fin s f := mkSt (sheps s) (workers s) f (trun s).

(* the finalizer's next shared access; v = true: the re-enabling test reads the shepherd's flag (seeded C19-3/C19-4) *)
Definition fin_step (v : bool) (s : state) : option state :=
  let n := length (workers s) in
  match fin s with
  | FEnq k =>
      match nth_error (workers s) k with
      | Some w => match nth_error (sheps s) (wshep w) with
                  | Some sh => Some (mkSt (upd (sheps s) (wshep w) (add_term sh)) (upd (workers s) k (set_term w)) (FRead k) (trun s))
                  | None => None
                  end
      | None => None
      end
  | FRead k =>
      match nth_error (workers s) k with
      | Some w =>
          let flag := if v then match nth_error (sheps s) (wshep w) with Some sh => sact sh | None => true end else wact w in
          Some (with_fin s (if flag then next_enq n (S k) else FCas k))
      | None => None
      end
  | FCas k =>
      match nth_error (workers s) k with
      | Some w => Some (mkSt (sheps s) (upd (workers s) k (set_act w true)) (next_enq n (S k)) (trun s))
      | None => None
      end
  | FEarly => Some (with_fin s (next_join n 0))
  | FJoin k =>
      match nth_error (workers s) k with
      | Some w => match wpc_ w with WExit => Some (with_fin s (next_join n (S k))) | _ => None end
      | None => None
      end
  | FFree => Some (with_fin s FNormal)
  | FNormal => Some (with_fin s FLate)
  | FLate => Some (with_fin s FDone)
  | FDone => None
  end.

(* `while (!me_worker->active)`: one read of the worker's own flag *)
Definition w_check (s : state) (k : nat) : option state :=
  match nth_error (workers s) k with
  | Some w => match wpc_ w with
              | WSpin => Some (if wact w then mkSt (sheps s) (upd (workers s) k (set_pc w WGet)) (fin s) (trun s) else s)
              | _ => None
              end
  | None => None
  end.

(* get_thread returned a TERM_SHEP entry of the own queue: the worker frees it and leaves its loop *)
Definition w_term (s : state) (k : nat) : option state :=
  match nth_error (workers s) k with
  | Some w => match wpc_ w, nth_error (sheps s) (wshep w) with
              | WGet, Some sh =>
                  if 0 <? qterm sh
                  then Some (mkSt (upd (sheps s) (wshep w) (del_term sh)) (upd (workers s) k (set_pc w WExit)) (fin s) (trun s))
                  else None
              | _, _ => None
              end
  | None => None
  end.

(* get_thread returned an ordinary task of the own queue: run it (shepherd active) or send it to the active shepherd d *)
Definition w_task (s : state) (k d : nat) : option state :=
  match nth_error (workers s) k with
  | Some w => match wpc_ w, nth_error (sheps s) (wshep w) with
              | WGet, Some sh =>
                  if 0 <? qtask sh then
                    let ws' := upd (workers s) k (set_pc w WSpin) in
                    let sh' := set_task sh (pred (qtask sh)) in
                    if sact sh then Some (mkSt (upd (sheps s) (wshep w) sh') ws' (fin s) (S (trun s)))
                    else match nth_error (sheps s) d with
                         | Some shd => if sact shd
                                       then Some (mkSt (upd (upd (sheps s) (wshep w) sh') d (set_task shd (S (qtask shd)))) ws' (fin s) (trun s))
                                       else None
                         | None => None
                         end
                  else None
              | _, _ => None
              end
  | None => None
  end.

(* own queue empty, own shepherd active: steal m+1 stealable (= ordinary) tasks from shepherd vi, run the first *)
Definition w_steal (s : state) (k vi m : nat) : option state :=
  match nth_error (workers s) k with
  | Some w => match wpc_ w, nth_error (sheps s) (wshep w), nth_error (sheps s) vi with
              | WGet, Some sh, Some shv =>
                  if sact sh && (qterm sh =? 0) && (qtask sh =? 0) && negb (vi =? wshep w) && (m <? qtask shv)
                  then Some (mkSt (upd (upd (sheps s) (wshep w) (set_task sh m)) vi (set_task shv (qtask shv - S m)))
                                  (upd (workers s) k (set_pc w WSpin)) (fin s) (S (trun s)))
                  else None
              | _, _, _ => None
              end
  | None => None
  end.

(* nothing to take: the worker keeps spinning inside get_thread (or a steal attempt failed) *)
Definition w_empty (s : state) (k : nat) : option state :=
  match nth_error (workers s) k with
  | Some w => match wpc_ w with WGet => Some s | _ => None end
  | None => None
  end.

Inductive action := AFin | ACheck (k : nat) | ATerm (k : nat) | ATask (k d : nat) | ASteal (k vi m : nat) | AEmpty (k : nat).

Definition step (v : bool) (s : state) (a : action) : option state :=
  match a with
  | AFin => fin_step v s
  | ACheck k => w_check s k
  | ATerm k => w_term s k
  | ATask k d => w_task s k d
  | ASteal k vi m => w_steal s k vi m
  | AEmpty k => w_empty s k
  end.

Fixpoint run (v : bool) (s : state) (sched : list action) : option state :=
  match sched with
  | [] => Some s
  | a :: r => match step v s a with Some s' => run v s' r | None => None end
  end.

(* ------------------------------------------------------------------ start-up (qthread_initialize's creation loop) *)
Definition mk_worker (S_ hw i j : nat) := mkW i j ((j * S_) + i + 1 <=? hw) WSpin false.
(* every (i,j) of the grid in the loop's order, the main thread (0,0) included *)
Definition grid (S_ W_ : nat) : list (nat * nat) := list_prod (seq 0 S_) (seq 0 W_).
Definition is_main (p : nat * nat) := (fst p =? 0) && (snd p =? 0).
Definition init_workers (S_ W_ hw : nat) : list worker :=
  map (fun p => mk_worker S_ hw (fst p) (snd p)) (filter (fun p => negb (is_main p)) (grid S_ W_)).
Definition count {A} (f : A -> bool) (l : list A) := length (filter f l).
(* the number of workers scheduling work right after initialize: main + the active worker threads *)
Definition active_workers (S_ W_ hw : nat) := S (count wact (init_workers S_ W_ hw)).
Definition init_state (S_ W_ hw : nat) (sflags : list bool) (tasks : list nat) : state :=
  mkSt (map (fun i => mkS (nth i sflags true) 0 (nth i tasks 0)) (seq 0 S_)) (init_workers S_ W_ hw) (next_enq (S_ * W_ - 1) 0) 0.

(* qthread_disable_worker / qthread_enable_worker / disable_shepherd / enable_shepherd before finalize: flag writes *)
Definition set_worker_flag (s : state) (k : nat) (b : bool) : state :=
  match nth_error (workers s) k with
  | Some w => mkSt (sheps s) (upd (workers s) k (set_act w b)) (fin s) (trun s)
  | None => s
  end.
Definition set_shep_flag (s : state) (i : nat) (b : bool) : state :=
  match nth_error (sheps s) i with
  | Some sh => mkSt (upd (sheps s) i (mkS b (qterm sh) (qtask sh))) (workers s) (fin s) (trun s)
  | None => s
  end.

(* ------------------------------------------------------------------ measure and end-state predicates *)
Definition wm (w : worker) := match wpc_ w with WSpin => 2 | WGet => 1 | WExit => 0 end.
Definition tw (sh : shep) := qtask sh * (if sact sh then 3 else 5).
Definition finrem (n : nat) (f : fpc) :=
  match f with
  | FEnq k => 3 * (n - k) + n + 6
  | FRead k => 3 * (n - k) + n + 5
  | FCas k => 3 * (n - k) + n + 4
  | FEarly => n + 5
  | FJoin k => (n - k) + 4
  | FFree => 3 | FNormal => 2 | FLate => 1 | FDone => 0
  end.
Definition sum {A} (f : A -> nat) (l : list A) := fold_right (fun x a => f x + a) 0 l.
Definition mu (s : state) := finrem (length (workers s)) (fin s) + sum wm (workers s) + sum tw (sheps s).

Definition is_exit (w : worker) := match wpc_ w with WExit => true | _ => false end.
Definition all_exited (s : state) := forallb is_exit (workers s).
Definition after_join (f : fpc) := match f with FFree | FNormal | FLate | FDone => true | _ => false end.
Definition no_term_left (s : state) := forallb (fun sh => qterm sh =? 0) (sheps s).
Definition total_tasks (s : state) := trun s + sum qtask (sheps s).

(* an admissible state at the entry of qthread_finalize: nothing enqueued yet, no worker thread has exited, every worker
   sits on an existing shepherd; flags (worker and shepherd) and queued ordinary tasks are arbitrary *)
Definition wf_worker (ns : nat) (w : worker) := (wshep w <? ns) && negb (is_exit w) && negb (wterm w).
Definition wf_init (s : state) : bool :=
  forallb (wf_worker (length (sheps s))) (workers s) && forallb (fun sh => qterm sh =? 0) (sheps s) &&
  match fin s with FEnq 0 => 0 <? length (workers s) | FEarly => length (workers s) =? 0 | _ => false end.

(* the state in which the seeded change hangs: the finalizer waits in pthread_join for a worker that is inactive *)
Definition stuck_at_join (s : state) : option (nat * nat) :=
  match fin s with
  | FJoin k => match nth_error (workers s) k with
               | Some w => if negb (wact w) && negb (is_exit w) then Some (wshep w, wloc w) else None
               | None => None
               end
  | _ => None
  end.
