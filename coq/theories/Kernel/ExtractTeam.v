From Coq Require Import List ZArith.
From QV Require Import Kernel.TeamFinish Kernel.TeamFinishAccept.
Require Extraction.
Require Import ExtrOcamlBasic.
Extraction Language OCaml.
Extraction "../ocaml/gen/c05team_model.ml" init step run accept all_done estep espawn_default_member skip_default_finish next_op cur_team
  q_lpc q_wpc q_kind q_mpc q_mteam q_sinc q_subs q_fills q_eu uaf nt nm.
