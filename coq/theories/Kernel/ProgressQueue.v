(* C04 progress (extension M), proofs part 5: the queue invariant - the simulation relation between the sherwood queues and the
   kernel's InQueue references - and the three ways an event changes it (nothing / one node enqueued / one node handed out,
   stealable nodes possibly moved to another queue). *)
From Coq Require Import List Bool Arith NArith ZArith Lia.
From QV Require Import Kernel.GenSpawnTable Kernel.Placement Kernel.ProofsPlacement Kernel.Model Kernel.ProofsKernel
     Kernel.ProofsC07 Kernel.ProofsPin Kernel.Progress Kernel.ProgressInv Kernel.ProgressEnabled.
From QV Require TQueue.Model TQueue.Proofs TQueue.Proofs2.
Import ListNotations.

Local Notation getq := TQueue.Model.getq.
Local Notation setq := TQueue.Model.setq.
Local Notation items := TQueue.Model.items.
Local Notation queues := TQueue.Model.queues.
Local Notation nsheps := TQueue.Model.nsheps.
Local Notation stl := TQueue.Model.stl.
Local Notation tid := TQueue.Model.tid.
Local Notation cnt := TQueue.Proofs.cnt.
Local Notation cntq := TQueue.Proofs.cntq.

(* 1 when the kernel has task t in some ready queue *)
Definition inq (ps : list (nat * loc)) (t : nat) : nat :=
  match place_of t ps with Some (InQueue _ _) => 1 | _ => 0 end.

Definition Qrel (k : state) (ss : TQueue.Model.sys) : Prop :=
  nsheps ss = k.(nsh) /\ TQueue.Proofs.sys_exact ss /\ (0 <= TQueue.Model.chunk ss)%Z /\
  (forall i n, In n (items (getq ss i)) -> node_agrees k i n) /\
  (forall t, cntq (N.of_nat t) (queues ss) = inq k.(places) t).

Ltac qsplit := split; [|split; [|split; [|split]]].

Lemma tid_ntid n : tid n = N.of_nat (ntid n).
Proof. unfold ntid. rewrite N2Nat.id. reflexivity. Qed.

Lemma ntid_nd t b : ntid (nd t b) = t.
Proof. unfold ntid, nd. cbn. apply Nat2N.id. Qed.

Lemma cnt_in t l n : In n l -> tid n = t -> 1 <= cnt t l.
Proof.
  induction l as [|m r IH]; cbn; [tauto|]. intros [->|H] E.
  - rewrite E, N.eqb_refl. lia.
  - specialize (IH H E). lia.
Qed.

Lemma cntq_in t ss i n : In n (items (getq ss i)) -> tid n = t -> 1 <= cntq t (queues ss).
Proof.
  unfold TQueue.Model.getq. generalize (queues ss). intros qs. revert i.
  induction qs as [|q r IH]; intros i H E.
  - destruct i; cbn in H; contradiction.
  - destruct i; cbn in H; cbn [TQueue.Proofs.cntq].
    + pose proof (cnt_in _ _ _ H E). lia.
    + specialize (IH _ H E). lia.
Qed.

Lemma cnt_pos t l : 1 <= cnt t l -> exists n, In n l /\ tid n = t.
Proof.
  induction l as [|m r IH]; cbn; [lia|]. destruct (N.eqb (tid m) t) eqn:E.
  - intros _. exists m. split; auto. apply N.eqb_eq. exact E.
  - intros H. destruct (IH ltac:(lia)) as (n & I & X). eauto.
Qed.

Lemma cntq_pos t ss : 1 <= cntq t (queues ss) -> exists i n, i < nsheps ss /\ In n (items (getq ss i)) /\ tid n = t.
Proof.
  unfold TQueue.Model.getq, TQueue.Model.nsheps. generalize (queues ss). intros qs.
  induction qs as [|q r IH]; cbn [TQueue.Proofs.cntq]; [lia|]. intros H.
  destruct (le_lt_dec 1 (cnt t (items q))) as [L|L].
  - destruct (cnt_pos _ _ L) as (n & I & X). exists 0, n. cbn. repeat split; auto; lia.
  - destruct (IH ltac:(lia)) as (i & n & Li & I & X). exists (S i), n. cbn. repeat split; auto; lia.
Qed.

Lemma nth_upd_eq {A} (l : list A) i x d : i < length l -> nth i (TQueue.Model.upd l i x) d = x.
Proof. revert i. induction l as [|y r IH]; intros i L; cbn in L; [lia|]. destruct i; cbn; [reflexivity|]. apply IH. lia. Qed.

Lemma nth_upd_ne {A} (l : list A) i j x d : i <> j -> nth j (TQueue.Model.upd l i x) d = nth j l d.
Proof.
  revert i j. induction l as [|y r IH]; intros i j N; [destruct j; reflexivity|].
  destruct i, j; cbn; try reflexivity; try lia. apply IH. lia.
Qed.

Lemma getq_setq_eq ss s q : s < nsheps ss -> getq (setq ss s q) s = q.
Proof. intros L. unfold TQueue.Model.getq, TQueue.Model.setq. cbn. apply nth_upd_eq. exact L. Qed.

Lemma getq_setq_ne ss s q i : s <> i -> getq (setq ss s q) i = getq ss i.
Proof. intros N. unfold TQueue.Model.getq, TQueue.Model.setq. cbn. apply nth_upd_ne. exact N. Qed.

Lemma chunk_setq ss s q : TQueue.Model.chunk (setq ss s q) = TQueue.Model.chunk ss.
Proof. reflexivity. Qed.

Lemma place_of_move t to ps t' :
  place_of t' ((t, to) :: drop_tid t ps) = if t =? t' then Some to else place_of t' ps.
Proof.
  cbn [place_of]. destruct (t =? t') eqn:E; [reflexivity|].
  unfold drop_tid. induction ps as [|[k v] r IH]; cbn; [reflexivity|].
  destruct (k =? t) eqn:E1; cbn.
  - apply Nat.eqb_eq in E1; subst k. rewrite E. exact IH.
  - destruct (k =? t'); [reflexivity|exact IH].
Qed.

Lemma inq_move t to ps t' :
  inq ((t, to) :: drop_tid t ps) t' = if t =? t' then match to with InQueue _ _ => 1 | _ => 0 end else inq ps t'.
Proof. unfold inq. rewrite place_of_move. destruct (t =? t'); reflexivity. Qed.

Lemma node_agrees_frame k k' i n :
  node_agrees k i n -> place_of (ntid n) k'.(places) = place_of (ntid n) k.(places) -> node_agrees k' i n.
Proof. intros (M & from & P & U) E. split; auto. exists from. rewrite E. auto. Qed.

(* ---------------------------------------------------------------- (A) nothing enters or leaves a queue *)
Lemma Qrel_frame k k' ss :
  Qrel k ss -> k'.(nsh) = k.(nsh) ->
  (forall t, inq k'.(places) t = inq k.(places) t) ->
  (forall t, inq k.(places) t = 1 -> place_of t k'.(places) = place_of t k.(places)) ->
  Qrel k' ss.
Proof.
  intros (N & E & C & A & Q) Hn I P. qsplit; auto; try congruence.
  all: try (intros t; rewrite Q, I; reflexivity).
  intros i n Hin. eapply node_agrees_frame; [apply A; exact Hin|]. apply P.
  rewrite <- Q. pose proof (cntq_in _ _ _ _ Hin (tid_ntid n)) as L.
  assert (U : cntq (N.of_nat (ntid n)) (queues ss) <= 1) by (rewrite Q; unfold inq; destruct (place_of _ _) as [[]|]; lia).
  lia.
Qed.

(* ---------------------------------------------------------------- (B) one task is enqueued *)
Lemma cntq_setq' t ss s q : s < nsheps ss ->
  cntq t (queues (setq ss s q)) + cnt t (items (getq ss s)) = cntq t (queues ss) + cnt t (items q).
Proof. apply TQueue.Proofs.cntq_setq. Qed.

Lemma Qrel_enq_gen k k' ss t q b (qf : TQueue.Model.queue -> TQueue.Model.node -> TQueue.Model.queue) :
  (forall x n, TQueue.Proofs.exact x -> TQueue.Proofs.exact (qf x n)) ->
  (forall x n m, In m (items (qf x n)) <-> In m (items x) \/ m = n) ->
  (forall x n u, cnt u (items (qf x n)) = cnt u (items x) + cnt u [n]) ->
  Qrel k ss -> k'.(nsh) = k.(nsh) -> q < k.(nsh) -> inq k.(places) t = 0 ->
  k'.(places) = (t, InQueue q b) :: drop_tid t k.(places) ->
  Qrel k' (setq ss q (qf (getq ss q) (nd t b))).
Proof.
  intros Fex Fin Fcnt (N & E & C & A & Q) Hn Lq I0 P.
  assert (Lq' : q < nsheps ss) by lia.
  qsplit.
  - rewrite TQueue.Proofs.nsheps_setq. congruence.
  - apply TQueue.Proofs.sys_exact_setq; auto. apply Fex. apply TQueue.Proofs.exact_getq. exact E.
  - exact C.
  - intros i n Hin.
    assert (Old : forall m j, In m (items (getq ss j)) -> node_agrees k' j m).
    { intros m j Hm. eapply node_agrees_frame; [apply A; exact Hm|]. rewrite P, place_of_move.
      destruct (t =? ntid m) eqn:X; [|reflexivity]. exfalso. apply Nat.eqb_eq in X.
      pose proof (cntq_in _ _ _ _ Hm (tid_ntid m)) as L. rewrite <- X, Q, I0 in L. lia. }
    destruct (Nat.eq_dec q i) as [->|Ne].
    + rewrite getq_setq_eq in Hin by exact Lq'. apply Fin in Hin. destruct Hin as [Hin| ->]; [apply Old; exact Hin|].
      split; [cbn; rewrite ntid_nd; reflexivity|]. exists i. rewrite ntid_nd, P, place_of_move, Nat.eqb_refl. cbn. auto.
    + rewrite getq_setq_ne in Hin by exact Ne. apply Old. exact Hin.
  - intros u. pose proof (cntq_setq' (N.of_nat u) ss q (qf (getq ss q) (nd t b)) Lq') as X.
    rewrite Fcnt in X. rewrite P, inq_move. cbn [TQueue.Proofs.cnt TQueue.Model.tid nd] in X.
    destruct (t =? u) eqn:Eu.
    + apply Nat.eqb_eq in Eu; subst u. rewrite N.eqb_refl in X. specialize (Q t). rewrite I0 in Q. lia.
    + assert (Y : N.eqb (N.of_nat t) (N.of_nat u) = false).
      { apply N.eqb_neq. intros Z. apply Nat2N.inj in Z. apply Nat.eqb_neq in Eu. contradiction. }
      rewrite Y in X. specialize (Q u). lia.
Qed.

Lemma Qrel_enq k k' ss t q b :
  Qrel k ss -> k'.(nsh) = k.(nsh) -> q < k.(nsh) -> inq k.(places) t = 0 ->
  k'.(places) = (t, InQueue q b) :: drop_tid t k.(places) -> Qrel k' (enq ss q (nd t b)).
Proof.
  apply (Qrel_enq_gen k k' ss t q b TQueue.Model.enqueue).
  - apply TQueue.Proofs.exact_enqueue.
  - intros x n m. cbn. rewrite in_app_iff. cbn. intuition.
  - intros x n u. cbn [TQueue.Model.enqueue items]. rewrite TQueue.Proofs.cnt_app. reflexivity.
Qed.

Lemma Qrel_enq_head k k' ss t q b :
  Qrel k ss -> k'.(nsh) = k.(nsh) -> q < k.(nsh) -> inq k.(places) t = 0 ->
  k'.(places) = (t, InQueue q b) :: drop_tid t k.(places) -> Qrel k' (enq_head ss q (nd t b)).
Proof.
  apply (Qrel_enq_gen k k' ss t q b TQueue.Model.enqueue_yielded).
  - apply TQueue.Proofs.exact_enqueue_yielded.
  - intros x n m. cbn. intuition.
  - intros x n u. cbn. lia.
Qed.

(* ---------------------------------------------------------------- (C) one node is handed to a worker *)
Lemma Qrel_deq k k' ss ss' t to :
  Qrel k ss -> k'.(nsh) = k.(nsh) ->
  nsheps ss' = nsheps ss -> TQueue.Proofs.sys_exact ss' -> TQueue.Model.chunk ss' = TQueue.Model.chunk ss ->
  (forall u, cntq u (queues ss') + (if N.eqb (N.of_nat t) u then 1 else 0) = cntq u (queues ss)) ->
  (forall i m, In m (items (getq ss' i)) -> exists j, In m (items (getq ss j)) /\ (j = i \/ stl m = true)) ->
  k'.(places) = (t, to) :: drop_tid t k.(places) -> (forall q b, to <> InQueue q b) ->
  Qrel k' ss'.
Proof.
  intros (N & E & C & A & Q) Hn N' E' C' Cnt Sub P NQ.
  qsplit; try congruence.
  - intros i m Hin. destruct (Sub _ _ Hin) as (j & Hj & J).
    destruct (A _ _ Hj) as (Mc & from & Pl & U).
    assert (Ne : t <> ntid m).
    { intros X. pose proof (cntq_in _ _ _ _ Hin (tid_ntid m)) as L. specialize (Cnt (N.of_nat (ntid m))).
      rewrite X, N.eqb_refl in Cnt. specialize (Q (ntid m)). unfold inq in Q. rewrite Pl in Q. lia. }
    split; auto. exists from. rewrite P, place_of_move. apply Nat.eqb_neq in Ne. rewrite Ne. split; auto.
    intros S. destruct J as [->|J]; [auto|congruence].
  - intros u. specialize (Cnt (N.of_nat u)). rewrite P, inq_move. destruct (t =? u) eqn:Eu.
    + apply Nat.eqb_eq in Eu; subst u. rewrite N.eqb_refl in Cnt. specialize (Q t).
      assert (inq (places k) t <= 1) by (unfold inq; destruct (place_of _ _) as [[]|]; lia).
      destruct to; try lia. exfalso. eapply NQ. reflexivity.
    + assert (Y : N.eqb (N.of_nat t) (N.of_nat u) = false).
      { apply N.eqb_neq. intros Z. apply Nat2N.inj in Z. apply Nat.eqb_neq in Eu. contradiction. }
      rewrite Y in Cnt. specialize (Q u). lia.
Qed.
