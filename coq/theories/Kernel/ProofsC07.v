(* C07: placement theorems about the kernel model *)
From Coq Require Import List Bool Arith NArith Lia.
From QV Require Import Kernel.GenSpawnTable Kernel.Placement Kernel.ProofsPlacement Kernel.Model Kernel.ProofsKernel.
Import ListNotations.

(* the flags only change through qthread_disable_shepherd / qthread_enable_shepherd *)
Lemma active_step st l st' :
  step st l = Some st' ->
  st'.(active) = match l with
                 | LDisable s => disable_shep st.(nsh) st.(active) s
                 | LEnable s => enable_shep st.(nsh) st.(active) s
                 | _ => st.(active)
                 end /\ st'.(nsh) = st.(nsh).
Proof.
  intros H. destruct l; cbn [step] in H; inv_step H; use_running; use_moves;
    try (inversion H; subst; clear H); cbn; split; congruence.
Qed.

(* pinned_exec_home: whenever a task whose target shepherd h is enabled is executed (first start, after a yield, after a
   wake-up, after a migration: every execution is an LExec), and the worker's flag reads were current, it is on h *)
Theorem pinned_exec_home st s w t got st' x h :
  step st (LExec s w t got) = Some st' -> reads_current st (LExec s w t got) = true ->
  get_task t st.(tasks) = Some x -> x.(t_target) = Some h -> nthb st.(active) h = true -> s = h.
Proof.
  intros H R G T A. unfold reads_current, reads_of in R. rewrite G, T in R. cbn in R.
  destruct (h =? s) eqn:E; [apply Nat.eqb_eq in E; auto|].
  cbn in R. rewrite A in R. cbn in R. rewrite andb_false_r in R. discriminate.
Qed.

(* disabled_runs_nothing, one step: with current reads a disabled shepherd executes nothing *)
Theorem disabled_no_exec_step st s w t got st' :
  step st (LExec s w t got) = Some st' -> reads_current st (LExec s w t got) = true -> nthb st.(active) s = true.
Proof.
  intros H R. cbn [step] in H. destruct (get_task t (tasks st)) as [x|] eqn:G; [|discriminate].
  unfold reads_current, reads_of in R. rewrite G in R. cbn in R.
  apply andb_true_iff in R. destruct R as [R _]. apply eqb_prop in R. auto.
Qed.

Fixpoint all_reads_current (st : state) (tr : list label) : Prop :=
  match tr with
  | [] => True
  | l :: r => reads_current st l = true /\ match step st l with Some st' => all_reads_current st' r | None => True end
  end.

(* disabled_runs_nothing, trace form: between qthread_disable_shepherd(s) having taken effect and the next
   qthread_enable_shepherd(s), no execution happens on s - under the explicit hypothesis that every dispatch in the window
   read the flags after the disable (which is what "spawned after disable returned" provides) *)
Theorem disabled_runs_nothing tr : forall st st' s,
  nthb st.(active) s = false -> run st tr = Some st' -> all_reads_current st tr ->
  ~ In (LEnable s) tr -> forall w t got, ~ In (LExec s w t got) tr.
Proof.
  induction tr as [|l r IH]; cbn; intros st st' s A H RC NE w t got; [tauto|].
  destruct (step st l) as [s1|] eqn:E; [|discriminate]. destruct RC as [R RC].
  intros [X|X].
  - subst l. pose proof (disabled_no_exec_step _ _ _ _ _ _ E R). congruence.
  - revert X. apply (IH s1 st' s); auto.
    destruct (active_step _ _ _ E) as [Ea _]. rewrite Ea.
    destruct l; auto.
    + destruct (Nat.eq_dec s s0) as [->|Ne].
      * unfold disable_shep. destruct ((s0 =? 0) || negb (s0 <? nsh st)); auto.
        rewrite nthb_set_nth, Nat.eqb_refl. destruct (s0 <? length (active st)); auto.
      * rewrite disable_only_touches_s; auto.
    + destruct (Nat.eq_dec s s0) as [->|Ne]; [exfalso; apply NE; left; reflexivity|].
      rewrite enable_only_touches_s; auto.
Qed.

(* migrate_returns_there: qthread_migrate_to(h) pins the caller to h and the worker hands it to h's queue; the call
   returns in the next execution, which (pinned_exec_home) is on h when h is enabled *)
Theorem migrate_pins_and_enqueues_on_target st t h st1 s w x :
  running_on st t = Some (s, w, x) -> migrate_case_of x.(t_mccoy) s (Some h) st.(nsh) = MMove ->
  step st (LMigrate t (Some h)) = Some st1 ->
  exists x1, get_task t st1.(tasks) = Some x1 /\ x1.(t_target) = Some h /\ x1.(t_unsteal) = true /\ x1.(t_state) = MIGRATING /\
             forall st2, step st1 (LPostMigrate s w t) = Some st2 ->
                         place_of t st2.(places) = Some (InQueue h false) /\
                         exists x2, get_task t st2.(tasks) = Some x2 /\ x2.(t_target) = Some h /\ x2.(t_state) = RUNNING.
Proof.
  intros R C H. cbn [step] in H. rewrite R, C in H. destruct (t_simple x) eqn:S; [discriminate|].
  inversion H; subst; clear H. apply running_on_spec in R. destruct R as (P & G & St).
  cbn [tasks modify set_tasks]. rewrite get_upd, Nat.eqb_refl, G. cbn.
  eexists; split; [reflexivity|]. cbn. split; [auto|split; [auto|split; [auto|]]].
  intros s2 H2. cbn [step] in H2. cbn [tasks modify set_tasks] in H2. rewrite get_upd, Nat.eqb_refl, G in H2. cbn in H2.
  inv_step H2. use_moves. inversion H2; subst; clear H2. cbn [places tasks modify set_tasks].
  rewrite H0. cbn. rewrite Nat.eqb_refl. split; auto.
  rewrite H1. cbn [tasks modify set_tasks]. rewrite !get_upd, Nat.eqb_refl, G. cbn. eexists; split; [reflexivity|]. cbn. auto.
Qed.

(* migrate_to(NO_SHEPHERD) unpins, migrate_to(current shepherd) pins without a context switch, the main task is refused *)
Theorem migrate_other_cases st t h st1 s w x :
  running_on st t = Some (s, w, x) -> step st (LMigrate t h) = Some st1 ->
  match migrate_case_of x.(t_mccoy) s h st.(nsh) with
  | MNotAllowed | MBadArgs => st1 = st
  | MUnpin => exists x1, get_task t st1.(tasks) = Some x1 /\ x1.(t_target) = None /\ x1.(t_unsteal) = false /\ x1.(t_state) = RUNNING
  | MSame => exists x1, get_task t st1.(tasks) = Some x1 /\ x1.(t_target) = h /\ x1.(t_unsteal) = true /\ x1.(t_state) = RUNNING
  | MMove => True
  end.
Proof.
  intros R H. cbn [step] in H. rewrite R in H. apply running_on_spec in R. destruct R as (P & G & St).
  destruct (migrate_case_of (t_mccoy x) s h (nsh st)); auto; try (inversion H; subst; auto; fail);
    inversion H; subst; cbn [tasks modify set_tasks]; rewrite get_upd, Nat.eqb_refl, G; cbn;
      eexists; split; try reflexivity; cbn; auto.
Qed.

(* steal_respects_pin (partial: stated on the node's stealable bit, which every enqueue transition of the model sets to
   the negation of the task's UNSTEALABLE flag - Model.qnode - as qt_threadqueue_isstealable does): a worker only receives a task from another shepherd's queue if its node is stealable,
   and never receives the main task unless it is worker 0 *)
Theorem steal_respects_pin_partial st s w src t st' :
  step st (LTake s w src t) = Some st' ->
  exists b x, place_of t st.(places) = Some (InQueue src b) /\ get_task t st.(tasks) = Some x /\
              (src <> s -> b = true) /\ (x.(t_mccoy) = true -> w = 0).
Proof.
  intros H. cbn [step] in H.
  destruct (negb ((s <? nsh st) && (w <? nwk st) && (src <? nsh st))); [discriminate|].
  destruct (place_of t (places st)) as [[q b| | | | | |]|] eqn:P; try discriminate.
  destruct (get_task t (tasks st)) as [x|] eqn:G; [|discriminate].
  destruct (negb (q =? src)) eqn:E1; [discriminate|]. apply negb_false_iff, Nat.eqb_eq in E1; subst q.
  destruct (negb (src =? s) && negb b) eqn:E2; [discriminate|].
  destruct (t_mccoy x && negb (w =? 0)) eqn:E3; [discriminate|].
  exists b, x. repeat split; auto.
  - intros Ne. apply andb_false_iff in E2. destruct E2 as [E2|E2].
    + apply negb_false_iff, Nat.eqb_eq in E2. congruence.
    + apply negb_false_iff in E2. auto.
  - intros M. rewrite M in E3. cbn in E3. apply negb_false_iff, Nat.eqb_eq in E3. auto.
Qed.

(* mccoy_worker0 (partial): the main task cannot be pinned or migrated, is never a stealable node after an enqueue by
   the model's transitions, and qt_scheduler_get_thread hands it to worker 0 only *)
Theorem mccoy_refused_by_migrate st t h s w x :
  running_on st t = Some (s, w, x) -> x.(t_mccoy) = true -> step st (LMigrate t h) = Some st.
Proof.
  intros R M. cbn [step]. rewrite R. unfold migrate_case_of. rewrite M. reflexivity.
Qed.

(* rerouted_task_can_run: a task sent to an enabled shepherd r by the re-route branch is executed there unless its own
   target has been enabled again in the meantime (then it is sent home) *)
Theorem rerouted_task_dispatch r tg (act : nat -> bool) :
  act r = true ->
  match dispatch r tg (match tg with Some h => act h | None => false end) (act r) with
  | DExec => True
  | DSendHome h => tg = Some h /\ act h = true
  | DReroute _ => False
  end.
Proof.
  intros A. rewrite A. unfold dispatch. destruct tg as [h|]; cbn; auto.
  destruct (h =? r) eqn:E; cbn; auto. destruct (act h) eqn:Ah; cbn; auto.
Qed.
