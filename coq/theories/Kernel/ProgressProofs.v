(* C04 progress (extension M), proofs part 2: the composed system refines the kernel model; spawn failure *)
From Coq Require Import List Bool Arith NArith ZArith Lia.
From QV Require Import Kernel.GenSpawnTable Kernel.Placement Kernel.ProofsPlacement Kernel.Model Kernel.ProofsKernel
     Kernel.ProofsC07 Kernel.ProofsPin Kernel.Progress Kernel.ProgressInv.
Import ListNotations.

Lemma run_app st a b : run st (a ++ b) = match run st a with Some s1 => run s1 b | None => None end.
Proof.
  revert st. induction a as [|l r IH]; intros st; cbn; [reflexivity|]. destruct (step st l); auto.
Qed.

(* every composed step is a run of kernel labels of the composed system's alphabet *)
Lemma cstep_run c e c' :
  cstep c e = Some c' -> exists ls, forallb my_label ls = true /\ run c.(ck) ls = Some c'.(ck).
Proof.
  intros H. unfold cstep in H.
  repeat match type of H with
         | match ?x with _ => _ end = Some _ => destruct x eqn:?; try discriminate H
         | (if ?x then _ else _) = Some _ => destruct x eqn:?; try discriminate H
         | (let '(_, _) := ?x in _) = Some _ => destruct x eqn:?
         end;
    try (unfold with_k in H;
         match type of H with
         | match run ?k ?ls with _ => _ end = Some _ =>
           destruct (run k ls) eqn:R; [|discriminate H]; inversion H; subst; cbn [ck]; exists ls; split; [reflexivity|exact R]
         end);
    try (inversion H; subst; cbn [ck]; eexists; split; [|eassumption]; reflexivity);
    try (inversion H; subst; cbn [ck]; exists []; split; reflexivity).
Qed.

Lemma crun_run es : forall c c', crun c es = Some c' -> exists tr, forallb my_label tr = true /\ run c.(ck) tr = Some c'.(ck).
Proof.
  induction es as [|e r IH]; cbn; intros c c' H.
  - inversion H; subst. exists []. split; reflexivity.
  - destruct (cstep c e) as [c1|] eqn:E; [|discriminate].
    destruct (cstep_run _ _ _ E) as (l1 & M1 & R1). destruct (IH _ _ H) as (l2 & M2 & R2).
    exists (l1 ++ l2). split; [rewrite forallb_app, M1, M2; reflexivity|]. rewrite run_app, R1. exact R2.
Qed.

(* REFINEMENT: the kernel component of every execution of the composed system is a run of the kernel model; hence every
   theorem of Properties_C04 / Properties_C07 about kernel runs (loc_unique, runs_once, nothing_refers_to_freed,
   arg_semantics, steal_respects_pin ...) holds in every reachable composed state *)
Theorem composed_refines_kernel_l ns nw ac chunk prog es c :
  crun (cinit ns nw ac chunk prog) es = Some c -> exists tr, run (init ns nw ac) tr = Some c.(ck).
Proof. intros H. destruct (crun_run _ _ _ H) as (tr & _ & R). exists tr. exact R. Qed.

Lemma kinv_run_my tr : forall st st', kinv st -> forallb my_label tr = true -> run st tr = Some st' -> kinv st'.
Proof.
  induction tr as [|l r IH]; cbn; intros st st' I M H; [inversion H; subst; auto|].
  apply andb_true_iff in M. destruct M as [M1 M2].
  destruct (step st l) as [s1|] eqn:E; [|discriminate]. apply (IH s1 st'); auto. eapply kinv_step; eauto.
Qed.

Lemma kinv_init ns nw ac : 0 < ns -> 0 < nw -> kinv (init ns nw ac).
Proof.
  intros Hs Hw. split; [apply refs_ok_init|]. cbn. repeat split; auto.
  intros t l [X|[]]. inversion X; subst. exists mccoy_task. split; [reflexivity|].
  unfold cons_ok, mccoy_task; cbn. repeat split; auto; try discriminate; lia.
Qed.

(* ---------------------------------------------------------------- spawn failure *)
(* a spawn that fails while preparing its return location leaves the kernel state as it was: no task id is consumed, no
   descriptor reference exists anywhere (ready queues, workers, waiter lists), and - since only referenced descriptors are
   ever executed (LExec needs a Held reference) - nothing runs *)
Theorem spawn_failure_leaves_no_trace_l st caller row shep_param asize src pre rc :
  rc <> 0 ->
  exists st', spawn_call st caller row shep_param asize src pre (Some rc) = SpawnFailed rc st' /\
              st' = st /\ st'.(places) = st.(places) /\ st'.(tasks) = st.(tasks) /\ st'.(next) = st.(next).
Proof. intros H. destruct rc as [|rc]; [contradiction|]. exists st. cbn. auto. Qed.

(* and a spawn whose preparation succeeds (or that has no return location) is exactly the kernel's LSpawn transition *)
Theorem spawn_success_is_LSpawn_l st caller row shep_param asize src pre ret_rc st' :
  ret_rc = None \/ ret_rc = Some 0 ->
  (spawn_call st caller row shep_param asize src pre ret_rc = SpawnOk st' <->
   step st (LSpawn caller row shep_param asize src pre) = Some st').
Proof.
  intros [->| ->]; unfold spawn_call; destruct (step st (LSpawn caller row shep_param asize src pre)) as [s1|];
    split; intros H; inversion H; subst; reflexivity.
Qed.

(* in the composed system: the failing spawn of a body consumes the operation and changes neither the kernel state nor
   any ready queue *)
Theorem failed_spawn_in_body_l c s w c' t l x row sp asize src rest :
  worker_ref s w c.(ck).(places) = Some (t, l) -> get_task t c.(ck).(tasks) = Some x ->
  get_prog t c.(cprog) = Some (BSpawnFail row sp asize src :: rest) ->
  cstep c (EBody s w) = Some c' -> c'.(ck) = c.(ck) /\ c'.(cs) = c.(cs) /\ get_prog t c'.(cprog) = Some rest.
Proof.
  intros W G P H. unfold cstep in H. rewrite W in H. destruct l; try discriminate H. rewrite G, P in H.
  destruct (tstate_eqb (t_state x) RUNNING && negb (t_mayblock x)); [|discriminate H].
  inversion H; subst. cbn. rewrite Nat.eqb_refl. auto.
Qed.

(* the consistency invariant of ProgressInv holds in every reachable state of the composed system *)
Theorem reachable_kinv_l ns nw ac chunk prog es c :
  0 < ns -> 0 < nw -> crun (cinit ns nw ac chunk prog) es = Some c -> kinv c.(ck).
Proof.
  intros Hs Hw H. destruct (crun_run _ _ _ H) as (tr & M & R).
  eapply kinv_run_my; [exact (kinv_init ns nw ac Hs Hw)|exact M|exact R].
Qed.

Theorem reachable_pin_inv_l ns nw ac chunk prog es c :
  crun (cinit ns nw ac chunk prog) es = Some c -> pin_inv c.(ck).
Proof.
  intros H. destruct (crun_run _ _ _ H) as (tr & M & R). eapply pin_inv_run; [apply pin_inv_init|exact R].
Qed.
