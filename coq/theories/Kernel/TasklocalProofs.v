(* C09, task-local storage: proofs about Kernel/Tasklocal.v *)
From Coq Require Import List NArith Bool Arith Lia.
From QV Require Import Kernel.Tasklocal.
Import ListNotations.

(* ---------- association lists ---------- *)
Section Assoc.
  Context {A : Type}.
  Lemma aget_aset_same : forall (l : list (N * A)) k v, aget (aset l k v) k = Some v.
  Proof.
    induction l as [|[k' w] r IH]; intros k v; cbn [aset aget].
    - now rewrite N.eqb_refl.
    - destruct (N.eqb k' k) eqn:E; cbn [aget]; rewrite E; [reflexivity|apply IH].
  Qed.
  Lemma aget_aset_other : forall (l : list (N * A)) k k2 v, k <> k2 -> aget (aset l k v) k2 = aget l k2.
  Proof.
    induction l as [|[k' w] r IH]; intros k k2 v H; cbn [aset aget].
    - destruct (N.eqb k k2) eqn:E; [apply N.eqb_eq in E; contradiction|reflexivity].
    - destruct (N.eqb k' k) eqn:E; cbn [aget].
      + apply N.eqb_eq in E. subst k'. destruct (N.eqb k k2) eqn:E2; [apply N.eqb_eq in E2; contradiction|reflexivity].
      + destruct (N.eqb k' k2); [reflexivity|now apply IH].
  Qed.
  Lemma aget_adel_same : forall (l : list (N * A)) k, aget (adel l k) k = None.
  Proof.
    induction l as [|[k' w] r IH]; intros k; cbn [adel aget]; [reflexivity|].
    destruct (N.eqb k' k) eqn:E; [apply IH|]. cbn [aget]. rewrite E. apply IH.
  Qed.
  Lemma aget_adel_other : forall (l : list (N * A)) k k2, k <> k2 -> aget (adel l k) k2 = aget l k2.
  Proof.
    induction l as [|[k' w] r IH]; intros k k2 H; cbn [adel aget]; [reflexivity|].
    destruct (N.eqb k' k) eqn:E.
    - apply N.eqb_eq in E. subst k'. destruct (N.eqb k k2) eqn:E2; [apply N.eqb_eq in E2; contradiction|now apply IH].
    - cbn [aget]. destruct (N.eqb k' k2); [reflexivity|now apply IH].
  Qed.
  Lemma aget_cons_same : forall (l : list (N * A)) k v, aget ((k, v) :: l) k = Some v.
  Proof. intros. cbn [aget]. now rewrite N.eqb_refl. Qed.
  Lemma aget_cons_other : forall (l : list (N * A)) k k2 v, k <> k2 -> aget ((k, v) :: l) k2 = aget l k2.
  Proof. intros l k k2 v H. cbn [aget]. destruct (N.eqb k k2) eqn:E; [apply N.eqb_eq in E; contradiction|reflexivity]. Qed.
End Assoc.

(* ---------- byte ranges ---------- *)
Lemma slice_length : forall l off len, off + len <= length l -> length (slice l off len) = len.
Proof. intros. unfold slice. rewrite firstn_length, skipn_length. lia. Qed.

Lemma upd_range_length : forall l off bs, off + length bs <= length l -> length (upd_range l off bs) = length l.
Proof. intros. unfold upd_range. rewrite !app_length, firstn_length, skipn_length. lia. Qed.

Lemma junkbytes_length : forall j a n, length (junkbytes j a n) = n.
Proof. intros. unfold junkbytes. now rewrite map_length, seq_length. Qed.

Lemma skipn_app_exact : forall (A : Type) (a b : list A) n, n = length a -> skipn n (a ++ b) = b.
Proof. intros A a b n ->. rewrite skipn_app, skipn_all, Nat.sub_diag. reflexivity. Qed.

(* a store at [off, off+|bs|) leaves every range that ends at or before off untouched *)
Lemma firstn_skipn_prefix : forall (a b : list byte) o n, o + n <= length a ->
  firstn n (skipn o (a ++ b)) = firstn n (skipn o a).
Proof.
  intros a b o n H. rewrite skipn_app. replace (o - length a) with 0 by lia. cbn [skipn].
  rewrite firstn_app, skipn_length. replace (n - (length a - o)) with 0 by lia. cbn [firstn]. now rewrite app_nil_r.
Qed.

Lemma slice_upd_before : forall l off bs o n, o + n <= off -> off + length bs <= length l ->
  slice (upd_range l off bs) o n = slice l o n.
Proof.
  intros l off bs o n H1 H2. unfold slice, upd_range.
  assert (L1 : length (firstn off l) = off) by (rewrite firstn_length; lia).
  rewrite firstn_skipn_prefix by lia.
  rewrite <- (firstn_skipn_prefix (firstn off l) (skipn off l)) by lia.
  now rewrite firstn_skipn.
Qed.

(* ... and every range that starts at or after the end of the store *)
Lemma skipn_add : forall (l : list byte) a b, skipn a (skipn b l) = skipn (b + a) l.
Proof.
  intros l a b. revert l. induction b as [|b IH]; intros l; [reflexivity|].
  destruct l as [|x r]; cbn [skipn plus]; [now destruct a|apply IH].
Qed.

Lemma slice_upd_after : forall l off bs o n, off + length bs <= o -> off + length bs <= length l ->
  slice (upd_range l off bs) o n = slice l o n.
Proof.
  intros l off bs o n H1 H2. unfold slice, upd_range. f_equal.
  assert (L1 : length (firstn off l) = off) by (rewrite firstn_length; lia).
  rewrite app_assoc, skipn_app.
  rewrite (skipn_all2 (firstn off l ++ bs)) by (rewrite app_length; lia).
  cbn [app]. rewrite app_length, L1, skipn_add. f_equal. lia.
Qed.

(* the bytes stored are the bytes read back *)
Lemma slice_upd_same : forall l off bs, off + length bs <= length l -> slice (upd_range l off bs) off (length bs) = bs.
Proof.
  intros l off bs H. unfold slice, upd_range.
  rewrite skipn_app_exact by (rewrite firstn_length; lia).
  rewrite firstn_app, Nat.sub_diag, firstn_all. cbn [firstn]. now rewrite app_nil_r.
Qed.

(* ---------- invariant ---------- *)
Definition blob_of (t : task) : list N :=
  (if t_tlsz t =? 0 then [] else match t_slot t with Some b => [b] | None => [] end).
Definition argblk_of (t : task) : list N := match t_arg t with ArgHeap b _ => [b] | _ => [] end.
Definition blocks_of (t : task) : list N := blob_of t ++ argblk_of t.

Definition wf_task (c : cfg) (s : st) (t : task) : Prop :=
  tl_off c t + TL c <= length (t_data t) /\
  (t_tlsz t <> 0 -> exists b bytes, t_slot t = Some b /\ aget (s_heap s) b = Some bytes /\ length bytes = t_tlsz t) /\
  (forall n, t_arg t = ArgInDesc n -> t_big t = true /\ n <= AC c) /\
  (forall b n, t_arg t = ArgHeap b n -> exists x, aget (s_heap s) b = Some x /\ length x = n) /\
  NoDup (blocks_of t).

Record inv (c : cfg) (s : st) : Prop := mkinv {
  inv_wf : forall tid t, aget (s_tasks s) tid = Some t -> wf_task c s t;
  inv_fresh : forall b x, aget (s_heap s) b = Some x -> (b < s_next s)%N;
  inv_distinct : forall t1 t2 T1 T2 b, aget (s_tasks s) t1 = Some T1 -> aget (s_tasks s) t2 = Some T2 ->
                                       In b (blocks_of T1) -> In b (blocks_of T2) -> t1 = t2
}.

Lemma blocks_in_heap : forall c s t b, wf_task c s t -> In b (blocks_of t) -> exists x, aget (s_heap s) b = Some x.
Proof.
  intros c s t b (_ & Hb & _ & Ha & _) Hin. unfold blocks_of, blob_of, argblk_of in Hin.
  apply in_app_or in Hin. destruct Hin as [Hin|Hin].
  - destruct (t_tlsz t =? 0) eqn:E; [contradiction|]. apply Nat.eqb_neq in E.
    destruct (Hb E) as (b0 & bytes & Hs & Hg & _). rewrite Hs in Hin. destruct Hin as [<-|[]]. eauto.
  - destruct (t_arg t) as [|n|b0 n] eqn:E; try contradiction. destruct Hin as [<-|[]].
    destruct (Ha b0 n eq_refl) as (x & Hx & _). eauto.
Qed.

Lemma inv_init : forall c, inv c init.
Proof. intros c. constructor; cbn; intros; discriminate. Qed.

(* a heap change that keeps every block of [t] keeps wf_task t *)
Lemma wf_task_heap_ext : forall c s s' t,
  wf_task c s t -> (forall b, In b (blocks_of t) -> aget (s_heap s') b = aget (s_heap s) b) -> wf_task c s' t.
Proof.
  intros c s s' t (H1 & H2 & H3 & H4 & H5) Hext.
  split; [assumption|]. split; [|split; [assumption|split; [|assumption]]].
  - intros Hn. destruct (H2 Hn) as (b & bytes & Hs & Hg & Hl). exists b, bytes. repeat split; try assumption.
    rewrite Hext; [assumption|]. unfold blocks_of, blob_of. apply in_or_app. left.
    destruct (t_tlsz t =? 0) eqn:E; [apply Nat.eqb_eq in E; contradiction|]. rewrite Hs. now left.
  - intros b n Ha. destruct (H4 b n Ha) as (x & Hx & Hl). exists x. split; [|assumption].
    rewrite Hext; [assumption|]. unfold blocks_of, argblk_of. apply in_or_app. right. rewrite Ha. now left.
Qed.

(* ---------- preservation by every operation ---------- *)
Lemma wf_fresh : forall c s (big : bool) arg data,
  (if big then AC c else 0) + TL c <= length data ->
  (forall n, arg = ArgInDesc n -> big = true /\ n <= AC c) ->
  (forall b n, arg = ArgHeap b n -> exists x, aget (s_heap s) b = Some x /\ length x = n) ->
  wf_task c s (mktask big arg data 0 None).
Proof.
  intros c s big arg data H1 H2 H3. unfold wf_task, tl_off, blocks_of, blob_of, argblk_of. cbn [t_big t_arg t_data t_tlsz t_slot Nat.eqb app].
  split; [assumption|]. split; [intros Hn; contradiction|]. split; [assumption|]. split; [assumption|].
  destruct arg; cbn [app]; repeat constructor; intros Hx; exact Hx.
Qed.

Lemma blocks_fresh_task_ptr : forall big data n, blocks_of (mktask big (ArgInDesc n) data 0 None) = [].
Proof. reflexivity. Qed.

Lemma inv_thread_new : forall c junk s tid arg, inv c s -> aget (s_tasks s) tid = None -> inv c (thread_new c junk s tid arg).
Proof.
  intros c junk s tid arg I Hnone. unfold thread_new.
  assert (Hfresh : forall t0 t, aget (s_tasks s) t0 = Some t -> ~ In (s_next s) (blocks_of t)).
  { intros t0 t Hg Hin. destruct (blocks_in_heap c s t _ (inv_wf c s I _ _ Hg) Hin) as (x & Hx).
    apply (inv_fresh c s I) in Hx. lia. }
  destruct ((0 <? length arg) && (length arg <=? AC c)) eqn:E1; [|destruct (0 <? length arg) eqn:E2].
  - (* argument copy inside a BIG descriptor *)
    apply andb_true_iff in E1. destruct E1 as [Ea Eb]. apply Nat.ltb_lt in Ea. apply Nat.leb_le in Eb.
    constructor; cbn [s_tasks s_heap s_next].
    + intros t0 t Hg. destruct (N.eq_dec tid t0) as [<-|Hne].
      * rewrite aget_aset_same in Hg. inversion Hg; subst; clear Hg. apply wf_fresh.
        -- rewrite app_length, junkbytes_length. lia.
        -- intros n H. inversion H; subst. split; [reflexivity|assumption].
        -- intros b n H. discriminate.
      * rewrite aget_aset_other in Hg by assumption. eapply wf_task_heap_ext; [eapply inv_wf; eassumption|reflexivity].
    + apply (inv_fresh c s I).
    + intros t1 t2 T1 T2 b H1 H2 Hi1 Hi2.
      destruct (N.eq_dec tid t1) as [<-|N1]; [rewrite aget_aset_same in H1; inversion H1; subst; cbn in Hi1; contradiction|].
      destruct (N.eq_dec tid t2) as [<-|N2]; [rewrite aget_aset_same in H2; inversion H2; subst; cbn in Hi2; contradiction|].
      rewrite aget_aset_other in H1, H2 by assumption. eapply (inv_distinct c s I); eassumption.
  - (* heap argument copy *)
    apply Nat.ltb_lt in E2.
    constructor; cbn [s_tasks s_heap s_next].
    + intros t0 t Hg. destruct (N.eq_dec tid t0) as [<-|Hne].
      * rewrite aget_aset_same in Hg. inversion Hg; subst; clear Hg. apply wf_fresh.
        -- rewrite junkbytes_length. unfold PTR. lia.
        -- intros n H. discriminate.
        -- intros b n H. inversion H; subst. exists arg. cbn [s_heap]. rewrite aget_cons_same. auto.
      * rewrite aget_aset_other in Hg by assumption.
        eapply wf_task_heap_ext; [eapply inv_wf; eassumption|].
        intros b Hin. cbn [s_heap]. apply aget_cons_other. intros Heq. subst b. eapply Hfresh; eassumption.
    + intros b x Hg. destruct (N.eq_dec (s_next s) b) as [Heq|Hne]; [lia|].
      rewrite aget_cons_other in Hg by assumption. apply (inv_fresh c s I) in Hg. lia.
    + intros t1 t2 T1 T2 b H1 H2 Hi1 Hi2.
      destruct (N.eq_dec tid t1) as [<-|N1]; destruct (N.eq_dec tid t2) as [<-|N2]; try reflexivity.
      * rewrite aget_aset_same in H1. rewrite aget_aset_other in H2 by assumption. inversion H1; subst.
        cbn in Hi1. destruct Hi1 as [<-|[]]. exfalso. eapply Hfresh; eassumption.
      * rewrite aget_aset_same in H2. rewrite aget_aset_other in H1 by assumption. inversion H2; subst.
        cbn in Hi2. destruct Hi2 as [<-|[]]. exfalso. eapply Hfresh; eassumption.
      * rewrite aget_aset_other in H1, H2 by assumption. eapply (inv_distinct c s I); eassumption.
  - (* pointer argument *)
    constructor; cbn [s_tasks s_heap s_next].
    + intros t0 t Hg. destruct (N.eq_dec tid t0) as [<-|Hne].
      * rewrite aget_aset_same in Hg. inversion Hg; subst; clear Hg. apply wf_fresh.
        -- rewrite junkbytes_length. unfold PTR. lia.
        -- intros n H. discriminate.
        -- intros b n H. discriminate.
      * rewrite aget_aset_other in Hg by assumption. eapply wf_task_heap_ext; [eapply inv_wf; eassumption|reflexivity].
    + apply (inv_fresh c s I).
    + intros t1 t2 T1 T2 b H1 H2 Hi1 Hi2.
      destruct (N.eq_dec tid t1) as [<-|N1]; [rewrite aget_aset_same in H1; inversion H1; subst; cbn in Hi1; contradiction|].
      destruct (N.eq_dec tid t2) as [<-|N2]; [rewrite aget_aset_same in H2; inversion H2; subst; cbn in Hi2; contradiction|].
      rewrite aget_aset_other in H1, H2 by assumption. eapply (inv_distinct c s I); eassumption.
Qed.

(* one task's descriptor / blocks change, everything belonging to other tasks stays *)
Lemma inv_update : forall c s s' tid t t',
  inv c s -> aget (s_tasks s) tid = Some t -> aget (s_tasks s') tid = Some t' ->
  (forall t0, t0 <> tid -> aget (s_tasks s') t0 = aget (s_tasks s) t0) ->
  wf_task c s' t' ->
  (forall x, In x (blocks_of t') -> In x (blocks_of t) \/ (s_next s <= x)%N) ->
  (forall t0 T0 x, t0 <> tid -> aget (s_tasks s) t0 = Some T0 -> In x (blocks_of T0) -> aget (s_heap s') x = aget (s_heap s) x) ->
  (forall x v, aget (s_heap s') x = Some v -> (x < s_next s')%N) ->
  inv c s'.
Proof.
  intros c s s' tid t t' I Ht Ht' Hoth Hwf Hblk Hheap Hfr.
  assert (Hold : forall t0 T0 x, aget (s_tasks s) t0 = Some T0 -> In x (blocks_of T0) -> (x < s_next s)%N).
  { intros t0 T0 x Hg Hin. destruct (blocks_in_heap c s T0 x (inv_wf c s I _ _ Hg) Hin) as (v & Hv).
    eapply (inv_fresh c s I); eassumption. }
  constructor.
  - intros t0 T0 Hg. destruct (N.eq_dec t0 tid) as [->|Hne].
    + rewrite Ht' in Hg. inversion Hg; subst. assumption.
    + rewrite Hoth in Hg by assumption. eapply wf_task_heap_ext; [eapply inv_wf; eassumption|].
      intros b Hin. eapply Hheap; eassumption.
  - assumption.
  - intros t1 t2 T1 T2 b H1 H2 Hi1 Hi2.
    destruct (N.eq_dec t1 tid) as [->|N1]; destruct (N.eq_dec t2 tid) as [->|N2]; try reflexivity.
    + rewrite Ht' in H1. inversion H1; subst. rewrite Hoth in H2 by assumption.
      destruct (Hblk b Hi1) as [Hin|Hge].
      * eapply (inv_distinct c s I); eassumption.
      * pose proof (Hold _ _ _ H2 Hi2). lia.
    + rewrite Ht' in H2. inversion H2; subst. rewrite Hoth in H1 by assumption.
      destruct (Hblk b Hi2) as [Hin|Hge].
      * eapply (inv_distinct c s I); eassumption.
      * pose proof (Hold _ _ _ H1 Hi1). lia.
    + rewrite Hoth in H1, H2 by assumption. eapply (inv_distinct c s I); eassumption.
Qed.

Lemma blob_in_blocks : forall t b, t_tlsz t <> 0 -> t_slot t = Some b -> In b (blocks_of t).
Proof.
  intros t b Hn Hs. unfold blocks_of, blob_of. apply in_or_app. left.
  destruct (t_tlsz t =? 0) eqn:E; [apply Nat.eqb_eq in E; contradiction|]. rewrite Hs. now left.
Qed.

Lemma blocks_with_blob : forall big arg data size b, size <> 0 ->
  blocks_of (mktask big arg data size (Some b)) = b :: argblk_of (mktask big arg data size (Some b)).
Proof.
  intros. unfold blocks_of, blob_of. cbn [t_tlsz t_slot].
  destruct (size =? 0) eqn:E; [apply Nat.eqb_eq in E; contradiction|reflexivity].
Qed.
Lemma argblk_mk : forall t size sl, argblk_of (mktask (t_big t) (t_arg t) (t_data t) size sl) = argblk_of t.
Proof. reflexivity. Qed.
Lemma blocks_no_blob : forall t, t_tlsz t = 0 -> blocks_of t = argblk_of t.
Proof. intros t H. unfold blocks_of, blob_of. now rewrite H. Qed.
Lemma blocks_blob : forall t b, t_tlsz t <> 0 -> t_slot t = Some b -> blocks_of t = b :: argblk_of t.
Proof.
  intros t b Hn Hs. unfold blocks_of, blob_of.
  destruct (t_tlsz t =? 0) eqn:E; [apply Nat.eqb_eq in E; contradiction|]. now rewrite Hs.
Qed.

Lemma wf_with_blob : forall c s' t size b bytes,
  tl_off c t + TL c <= length (t_data t) ->
  size <> 0 -> aget (s_heap s') b = Some bytes -> length bytes = size ->
  (forall n, t_arg t = ArgInDesc n -> t_big t = true /\ n <= AC c) ->
  (forall b0 n, t_arg t = ArgHeap b0 n -> exists x, aget (s_heap s') b0 = Some x /\ length x = n) ->
  ~ In b (argblk_of t) -> NoDup (argblk_of t) ->
  wf_task c s' (mktask (t_big t) (t_arg t) (t_data t) size (Some b)).
Proof.
  intros c s' t size b bytes H1 Hsz Hg Hl H3 H4 Hni Hnd.
  unfold wf_task. rewrite blocks_with_blob by assumption. rewrite argblk_mk.
  cbn [t_big t_arg t_data t_tlsz t_slot]. unfold tl_off in *. cbn [t_big].
  split; [assumption|]. split; [intros _; exists b, bytes; auto|]. split; [assumption|]. split; [assumption|].
  constructor; assumption.
Qed.

Lemma inv_get : forall c junk s tid size r s', inv c s -> get_tasklocal c junk s tid size = Some (r, s') -> inv c s'.
Proof.
  intros c junk s tid size r s' I H. unfold get_tasklocal in H.
  destruct (aget (s_tasks s) tid) as [t|] eqn:Ht; [|discriminate].
  pose proof (inv_wf c s I _ _ Ht) as (W1 & W2 & W3 & W4 & W5).
  assert (Hold : forall x, In x (blocks_of t) -> (x < s_next s)%N).
  { intros x Hin. destruct (blocks_in_heap c s t x (inv_wf c s I _ _ Ht) Hin) as (v & Hv). eapply (inv_fresh c s I); eassumption. }
  destruct ((t_tlsz t =? 0) && (size <=? TL c)) eqn:E1; [inversion H; subst; assumption|].
  destruct (t_tlsz t =? 0) eqn:E2.
  - (* first blob *)
    apply Nat.eqb_eq in E2. cbn [andb] in E1.
    apply Nat.leb_gt in E1. inversion H; subst; clear H.
    pose proof (blocks_no_blob t E2) as Hab.
    assert (Hsz : size <> 0) by lia.
    eapply (inv_update c s _ tid t); try eassumption; cbn [s_tasks s_heap s_next].
    + apply aget_aset_same.
    + intros t0 Hne. apply aget_aset_other. auto.
    + eapply wf_with_blob; try eassumption; cbn [s_heap].
      * apply aget_cons_same.
      * rewrite app_length, junkbytes_length, slice_length by assumption. lia.
      * intros b n Ha. destruct (W4 b n Ha) as (x & Hx & Hl). exists x. split; [|assumption].
        rewrite aget_cons_other; [assumption|]. intros Heq. apply (inv_fresh c s I) in Hx. lia.
      * intros Hin. rewrite <- Hab in Hin. apply Hold in Hin. lia.
      * rewrite <- Hab. assumption.
    + intros x Hin. rewrite blocks_with_blob, argblk_mk in Hin by assumption.
      destruct Hin as [<-|Hin]; [right; lia|left]. rewrite Hab. exact Hin.
    + intros t0 T0 x Hne Hg Hin. apply aget_cons_other. intros Heq. subst x.
      destruct (blocks_in_heap c s T0 _ (inv_wf c s I _ _ Hg) Hin) as (v & Hv). apply (inv_fresh c s I) in Hv. lia.
    + intros x v Hg. destruct (N.eq_dec (s_next s) x) as [Heq|Hne]; [lia|].
      rewrite aget_cons_other in Hg by assumption. apply (inv_fresh c s I) in Hg. lia.
  - apply Nat.eqb_neq in E2.
    destruct (size <=? t_tlsz t) eqn:E3.
    + destruct (t_slot t); inversion H; subst; assumption.
    + (* realloc *)
      apply Nat.leb_gt in E3.
      destruct (t_slot t) as [b|] eqn:Hs; [|discriminate].
      destruct (aget (s_heap s) b) as [old|] eqn:Hb; [|discriminate].
      inversion H; subst; clear H.
      pose proof (blob_in_blocks t b E2 Hs) as Hbin.
      pose proof (blocks_blob t b E2 Hs) as Hblk.
      rewrite Hblk in W5. inversion W5 as [|? ? Hnotin Hnd]; subst.
      assert (Hsz : size <> 0) by lia.
      eapply (inv_update c s _ tid t); try eassumption; cbn [s_tasks s_heap s_next].
      * apply aget_aset_same.
      * intros t0 Hne. apply aget_aset_other. auto.
      * eapply wf_with_blob; try eassumption; cbn [s_heap].
        -- apply aget_cons_same.
        -- destruct (W2 E2) as (b0 & bytes & Hs0 & Hg0 & Hl0). try rewrite Hs in Hs0. inversion Hs0; subst b0.
           rewrite Hb in Hg0. inversion Hg0; subst bytes.
           rewrite app_length, junkbytes_length, firstn_length. lia.
        -- intros b0 n Ha. destruct (W4 b0 n Ha) as (x & Hx & Hl). exists x. split; [|assumption].
           rewrite aget_cons_other; [|intros Heq; apply (inv_fresh c s I) in Hx; lia].
           rewrite aget_adel_other; [assumption|]. intros Heq. subst b0. apply Hnotin.
           unfold argblk_of. rewrite Ha. now left.
        -- intros Hin. assert (In (s_next s) (blocks_of t)) as Hin2 by (rewrite Hblk; now right).
           apply Hold in Hin2. lia.
      * intros x Hin. rewrite blocks_with_blob, argblk_mk in Hin by assumption.
        destruct Hin as [<-|Hin]; [right; lia|left]. rewrite Hblk. now right.
      * intros t0 T0 x Hne Hg Hin.
        rewrite aget_cons_other.
        -- apply aget_adel_other. intros Heq. subst x. apply Hne. symmetry.
           eapply (inv_distinct c s I); [exact Ht|exact Hg|exact Hbin|exact Hin].
        -- intros Heq. subst x.
           destruct (blocks_in_heap c s T0 _ (inv_wf c s I _ _ Hg) Hin) as (v & Hv). apply (inv_fresh c s I) in Hv. lia.
      * intros x v Hg. destruct (N.eq_dec (s_next s) x) as [Heq|Hne]; [lia|].
        rewrite aget_cons_other in Hg by assumption.
        destruct (N.eq_dec b x) as [Heq2|Hne2]; [subst x; rewrite aget_adel_same in Hg; discriminate|].
        rewrite aget_adel_other in Hg by assumption. apply (inv_fresh c s I) in Hg. lia.
Qed.

Lemma aget_aset_some : forall (A : Type) (l : list (N * A)) k v x w, aget (aset l k v) x = Some w -> x = k \/ aget l x = Some w.
Proof.
  intros A l k v x w H. destruct (N.eq_dec k x) as [->|Hne]; [now left|right].
  now rewrite aget_aset_other in H by assumption.
Qed.
Lemma aget_adel_some : forall (A : Type) (l : list (N * A)) k x w, aget (adel l k) x = Some w -> x <> k /\ aget l x = Some w.
Proof.
  intros A l k x w H. destruct (N.eq_dec k x) as [->|Hne]; [rewrite aget_adel_same in H; discriminate|].
  rewrite aget_adel_other in H by assumption. split; [intros Heq; subst; contradiction|assumption].
Qed.

(* ---------- frame: what an operation of task [tid] leaves untouched ---------- *)
Definition frame (tid : N) (s s' : st) : Prop :=
  (forall t0, t0 <> tid -> aget (s_tasks s') t0 = aget (s_tasks s) t0) /\
  (forall t0 T0 x, t0 <> tid -> aget (s_tasks s) t0 = Some T0 -> In x (blocks_of T0) -> aget (s_heap s') x = aget (s_heap s) x).

Lemma frame_refl : forall tid s, frame tid s s.
Proof. intros. split; intros; reflexivity. Qed.

Lemma others_blocks_old : forall c s t0 T0 x, inv c s -> aget (s_tasks s) t0 = Some T0 -> In x (blocks_of T0) -> (x < s_next s)%N.
Proof.
  intros c s t0 T0 x I Hg Hin. destruct (blocks_in_heap c s T0 x (inv_wf c s I _ _ Hg) Hin) as (v & Hv).
  eapply (inv_fresh c s I); eassumption.
Qed.

Lemma frame_get : forall c junk s tid size r s', inv c s -> get_tasklocal c junk s tid size = Some (r, s') -> frame tid s s'.
Proof.
  intros c junk s tid size r s' I H. unfold get_tasklocal in H.
  destruct (aget (s_tasks s) tid) as [t|] eqn:Ht; [|discriminate].
  destruct ((t_tlsz t =? 0) && (size <=? TL c)); [inversion H; subst; apply frame_refl|].
  destruct (t_tlsz t =? 0) eqn:E2.
  - inversion H; subst; clear H. split; cbn [s_tasks s_heap].
    + intros t0 Hne. apply aget_aset_other. auto.
    + intros t0 T0 x Hne Hg Hin. apply aget_cons_other. intros Heq. subst x.
      pose proof (others_blocks_old c s t0 T0 _ I Hg Hin). lia.
  - apply Nat.eqb_neq in E2. destruct (size <=? t_tlsz t).
    + destruct (t_slot t); inversion H; subst; apply frame_refl.
    + destruct (t_slot t) as [b|] eqn:Hs; [|discriminate].
      destruct (aget (s_heap s) b) as [old|] eqn:Hb; [|discriminate].
      inversion H; subst; clear H. split; cbn [s_tasks s_heap].
      * intros t0 Hne. apply aget_aset_other. auto.
      * intros t0 T0 x Hne Hg Hin. rewrite aget_cons_other.
        -- apply aget_adel_other. intros Heq. subst x. apply Hne. symmetry.
           eapply (inv_distinct c s I); [exact Ht|exact Hg|apply blob_in_blocks; eassumption|exact Hin].
        -- intros Heq. subst x. pose proof (others_blocks_old c s t0 T0 _ I Hg Hin). lia.
Qed.

Lemma frame_write : forall c s tid pos bs s', inv c s -> tl_write c s tid pos bs = Some s' -> frame tid s s'.
Proof.
  intros c s tid pos bs s' I H. unfold tl_write in H.
  destruct (aget (s_tasks s) tid) as [t|] eqn:Ht; [|discriminate].
  destruct (t_tlsz t =? 0) eqn:E2.
  - destruct (pos + length bs <=? TL c); [|discriminate]. inversion H; subst; clear H. split; cbn [s_tasks s_heap].
    + intros t0 Hne. apply aget_aset_other. auto.
    + reflexivity.
  - apply Nat.eqb_neq in E2.
    destruct (t_slot t) as [b|] eqn:Hs; [|discriminate].
    destruct (aget (s_heap s) b) as [old|] eqn:Hb; [|discriminate].
    destruct (pos + length bs <=? length old); [|discriminate]. inversion H; subst; clear H. split; cbn [s_tasks s_heap].
    + reflexivity.
    + intros t0 T0 x Hne Hg Hin. apply aget_aset_other. intros Heq. subst x. apply Hne. symmetry.
      eapply (inv_distinct c s I); [exact Ht|exact Hg|apply blob_in_blocks; eassumption|exact Hin].
Qed.

Lemma frame_free : forall c s tid, inv c s -> frame tid s (thread_free s tid).
Proof.
  intros c s tid I. unfold thread_free.
  destruct (aget (s_tasks s) tid) as [t|] eqn:Ht; [|apply frame_refl].
  split; cbn [s_tasks s_heap].
  - intros t0 Hne. apply aget_adel_other. auto.
  - intros t0 T0 x Hne Hg Hin.
    assert (Hnot : ~ In x (blocks_of t)).
    { intros Hx. apply Hne. symmetry. eapply (inv_distinct c s I); [exact Ht|exact Hg|exact Hx|exact Hin]. }
    assert (H1 : aget (if t_tlsz t =? 0 then s_heap s else match t_slot t with Some b => adel (s_heap s) b | None => s_heap s end) x
                 = aget (s_heap s) x).
    { destruct (t_tlsz t =? 0) eqn:E; [reflexivity|]. apply Nat.eqb_neq in E.
      destruct (t_slot t) as [b|] eqn:Hs; [|reflexivity]. apply aget_adel_other. intros Heq. subst x.
      apply Hnot. apply blob_in_blocks; assumption. }
    destruct (t_arg t) as [|n|b n] eqn:Ha; try exact H1.
    rewrite aget_adel_other; [exact H1|]. intros Heq. subst x. apply Hnot.
    unfold blocks_of, argblk_of. apply in_or_app. right. rewrite Ha. now left.
Qed.

Lemma frame_new : forall c junk s tid arg, inv c s -> aget (s_tasks s) tid = None -> frame tid s (thread_new c junk s tid arg).
Proof.
  intros c junk s tid arg I Hn. unfold thread_new.
  destruct ((0 <? length arg) && (length arg <=? AC c)); [|destruct (0 <? length arg)]; split; cbn [s_tasks s_heap];
    try (intros t0 Hne; apply aget_aset_other; auto); try reflexivity.
  intros t0 T0 x Hne Hg Hin. apply aget_cons_other. intros Heq. subst x.
  pose proof (others_blocks_old c s t0 T0 _ I Hg Hin). lia.
Qed.

Lemma frame_step : forall c junk s o, inv c s -> frame (op_tid o) s (tstep c junk s o).
Proof.
  intros c junk s o I. destruct o as [tid arg|tid size|tid pos bs|tid]; cbn [tstep op_tid].
  - destruct (aget (s_tasks s) tid) eqn:E; [apply frame_refl|now apply frame_new].
  - destruct (get_tasklocal c junk s tid size) as [[r s']|] eqn:E; [eapply frame_get; eassumption|apply frame_refl].
  - destruct (tl_write c s tid pos bs) as [s'|] eqn:E; [eapply frame_write; eassumption|apply frame_refl].
  - now apply (frame_free c).
Qed.

(* ---------- tl_persist: an operation of another task changes neither my bytes nor my argument copy ---------- *)
Theorem tl_persist_step : forall c junk s o t, inv c s -> op_tid o <> t ->
  tl_view c (tstep c junk s o) t = tl_view c s t /\ arg_view (tstep c junk s o) t = arg_view s t /\
  tl_region c (tstep c junk s o) t = tl_region c s t.
Proof.
  intros c junk s o t I Hne. destruct (frame_step c junk s o I) as [F1 F2].
  assert (Ht : aget (s_tasks (tstep c junk s o)) t = aget (s_tasks s) t) by (apply F1; auto).
  unfold tl_view, arg_view, tl_region. rewrite Ht.
  destruct (aget (s_tasks s) t) as [T|] eqn:HT; [|auto].
  split; [|split; [|reflexivity]].
  - destruct (t_tlsz T =? 0) eqn:E; [reflexivity|]. apply Nat.eqb_neq in E.
    destruct (t_slot T) as [b|] eqn:Hs; [|reflexivity].
    eapply F2; [|exact HT|apply blob_in_blocks; eassumption]. auto.
  - destruct (t_arg T) as [|n|b n] eqn:Ha; try reflexivity.
    eapply F2; [|exact HT|]; [auto|]. unfold blocks_of, argblk_of. apply in_or_app. right. rewrite Ha. now left.
Qed.

Lemma inv_write : forall c s tid pos bs s', inv c s -> tl_write c s tid pos bs = Some s' -> inv c s'.
Proof.
  intros c s tid pos bs s' I H. destruct (frame_write c s tid pos bs s' I H) as [F1 F2].
  unfold tl_write in H.
  destruct (aget (s_tasks s) tid) as [t|] eqn:Ht; [|discriminate].
  pose proof (inv_wf c s I _ _ Ht) as (W1 & W2 & W3 & W4 & W5).
  destruct (t_tlsz t =? 0) eqn:E2.
  - destruct (pos + length bs <=? TL c) eqn:E3; [|discriminate]. apply Nat.leb_le in E3. apply Nat.eqb_eq in E2.
    inversion H; subst; clear H.
    eapply (inv_update c s _ tid t); try eassumption; cbn [s_tasks s_heap s_next].
    + apply aget_aset_same.
    + unfold wf_task, tl_off in *. cbn [t_big t_arg t_data t_tlsz t_slot s_heap].
      split; [rewrite upd_range_length; lia|]. split; [intros Hn; contradiction|]. split; [assumption|]. split; [assumption|exact W5].
    + intros x Hin. left. exact Hin.
    + apply (inv_fresh c s I).
  - apply Nat.eqb_neq in E2.
    destruct (t_slot t) as [b|] eqn:Hs; [|discriminate].
    destruct (aget (s_heap s) b) as [old|] eqn:Hb; [|discriminate].
    destruct (pos + length bs <=? length old) eqn:E3; [|discriminate]. apply Nat.leb_le in E3.
    inversion H; subst; clear H.
    pose proof (blocks_blob t b E2 Hs) as Hblk.
    eapply (inv_update c s _ tid t); try eassumption; cbn [s_tasks s_heap s_next].
    + unfold wf_task. cbn [s_heap].
      split; [assumption|]. split; [|split; [assumption|split; [|assumption]]].
      * intros _. destruct (W2 E2) as (b0 & bytes & Hs0 & Hg0 & Hl0).
        assert (b0 = b) by congruence. subst b0. assert (bytes = old) by congruence. subst bytes.
        exists b, (upd_range old pos bs). split; [exact Hs|]. split; [apply aget_aset_same|].
        rewrite upd_range_length; assumption.
      * intros b0 n Ha. destruct (W4 b0 n Ha) as (x & Hx & Hl). exists x. split; [|assumption].
        rewrite aget_aset_other; [assumption|]. intros Heq. subst b0.
        rewrite Hblk in W5. inversion W5 as [|? ? Hnotin Hnd]; subst. apply Hnotin. unfold argblk_of. rewrite Ha. now left.
    + intros x Hin. left. exact Hin.
    + intros x v Hg. apply aget_aset_some in Hg. destruct Hg as [->|Hg]; eapply (inv_fresh c s I); eassumption.
Qed.

Lemma inv_free : forall c s tid, inv c s -> inv c (thread_free s tid).
Proof.
  intros c s tid I. destruct (frame_free c s tid I) as [F1 F2]. unfold thread_free in *.
  destruct (aget (s_tasks s) tid) as [t|] eqn:Ht; [|assumption].
  cbn [s_tasks s_heap] in *.
  set (h2 := match t_arg t with ArgHeap b _ => adel (if t_tlsz t =? 0 then s_heap s else match t_slot t with Some b0 => adel (s_heap s) b0 | None => s_heap s end) b
                              | _ => (if t_tlsz t =? 0 then s_heap s else match t_slot t with Some b0 => adel (s_heap s) b0 | None => s_heap s end) end) in *.
  constructor; cbn [s_tasks s_heap s_next].
  - intros t0 T0 Hg. apply aget_adel_some in Hg. destruct Hg as [Hne Hg].
    eapply wf_task_heap_ext; [eapply inv_wf; eassumption|]. intros b Hin. cbn [s_heap]. eapply F2; eassumption.
  - intros b x Hg. eapply (inv_fresh c s I) with (x := x).
    subst h2. destruct (t_arg t); try (apply aget_adel_some in Hg; destruct Hg as [_ Hg]);
      (destruct (t_tlsz t =? 0); [exact Hg|destruct (t_slot t); [apply aget_adel_some in Hg; apply Hg|exact Hg]]).
  - intros t1 t2 T1 T2 b H1 H2 Hi1 Hi2. apply aget_adel_some in H1. apply aget_adel_some in H2.
    eapply (inv_distinct c s I); [apply H1|apply H2|eassumption|eassumption].
Qed.

Lemma inv_step : forall c junk s o, inv c s -> inv c (tstep c junk s o).
Proof.
  intros c junk s o I. destruct o as [tid arg|tid size|tid pos bs|tid]; cbn [tstep].
  - destruct (aget (s_tasks s) tid) eqn:E; [assumption|now apply inv_thread_new].
  - destruct (get_tasklocal c junk s tid size) as [[r s']|] eqn:E; [eapply inv_get; eassumption|assumption].
  - destruct (tl_write c s tid pos bs) as [s'|] eqn:E; [eapply inv_write; eassumption|assumption].
  - now apply inv_free.
Qed.

(* every state reachable by any interleaving of spawn / get_tasklocal / stores / free satisfies the invariant *)
Theorem inv_reachable : forall c junk ops, inv c (trun c junk init ops).
Proof.
  intros c junk ops. unfold trun. generalize (inv_init c). generalize init.
  induction ops as [|o r IH]; intros s I; cbn [fold_left]; [assumption|].
  apply IH. now apply inv_step.
Qed.

(* ---------- tl_grow_preserves ---------- *)
Theorem tl_grow_preserves_step : forall c junk s tid size r s' old,
  inv c s -> get_tasklocal c junk s tid size = Some (r, s') -> tl_view c s tid = Some old ->
  exists new, tl_view c s' tid = Some new /\ firstn (length old) new = old /\ length old <= length new /\
              size <= length new /\ size_tasklocal c s' tid = Some (length new) /\ tl_region c s' tid = Some r.
Proof.
  intros c junk s tid size r s' old I H Hv. unfold get_tasklocal in H. unfold tl_view in Hv.
  destruct (aget (s_tasks s) tid) as [t|] eqn:Ht; [|discriminate].
  pose proof (inv_wf c s I _ _ Ht) as (W1 & W2 & W3 & W4 & W5).
  destruct ((t_tlsz t =? 0) && (size <=? TL c)) eqn:E1.
  - (* in place *)
    apply andb_true_iff in E1. destruct E1 as [Ea Eb]. apply Nat.leb_le in Eb.
    inversion H; subst; clear H. rewrite Ea in Hv. inversion Hv; subst; clear Hv.
    exists (slice (t_data t) (tl_off c t) (TL c)). unfold tl_view, size_tasklocal, tl_region. rewrite Ht, Ea.
    rewrite slice_length by assumption. repeat split; try lia.
    rewrite <- (slice_length (t_data t) (tl_off c t) (TL c)) at 1 by assumption. apply firstn_all.
  - destruct (t_tlsz t =? 0) eqn:E2.
    + (* first blob: the TL default bytes are copied *)
      cbn [andb] in E1. apply Nat.leb_gt in E1. inversion H; subst; clear H. inversion Hv; subst; clear Hv.
      eexists. unfold tl_view, size_tasklocal, tl_region. cbn [s_tasks s_heap]. rewrite aget_aset_same. cbn [t_tlsz t_slot].
      destruct (size =? 0) eqn:Es; [apply Nat.eqb_eq in Es; lia|].
      rewrite aget_cons_same. split; [reflexivity|].
      rewrite app_length, junkbytes_length, slice_length by assumption.
      split.
      { rewrite firstn_app, slice_length, Nat.sub_diag by assumption. cbn [firstn]. rewrite app_nil_r.
        rewrite <- (slice_length (t_data t) (tl_off c t) (TL c)) at 1 by assumption. apply firstn_all. }
      repeat split; try lia; try (f_equal; lia); try (f_equal; f_equal; lia).
    + apply Nat.eqb_neq in E2. destruct (W2 E2) as (b & bytes & Hs & Hg & Hl). rewrite Hs in *. rewrite Hg in *.
      inversion Hv; subst old; clear Hv.
      destruct (size <=? t_tlsz t) eqn:E3.
      * (* reuse *)
        apply Nat.leb_le in E3. inversion H; subst; clear H.
        exists bytes. unfold tl_view, size_tasklocal, tl_region. rewrite Ht.
        destruct (t_tlsz t =? 0) eqn:E; [apply Nat.eqb_eq in E; contradiction|]. rewrite Hs, Hg.
        repeat split; try lia; [apply firstn_all|now rewrite Hl].
      * (* realloc keeps the old bytes *)
        apply Nat.leb_gt in E3. inversion H; subst; clear H.
        eexists. unfold tl_view, size_tasklocal, tl_region. cbn [s_tasks s_heap]. rewrite aget_aset_same. cbn [t_tlsz t_slot].
        destruct (size =? 0) eqn:Es; [apply Nat.eqb_eq in Es; lia|].
        rewrite aget_cons_same. split; [reflexivity|].
        rewrite (firstn_all2 bytes) by lia.
        rewrite app_length, junkbytes_length.
        split.
        { rewrite firstn_app, Nat.sub_diag, firstn_all. cbn [firstn]. now rewrite app_nil_r. }
        repeat split; try lia; try (f_equal; lia); try (f_equal; f_equal; lia).
Qed.

(* for every request sequence of a task, interleaved with anything the other tasks do *)
Theorem tl_grow_preserves_run : forall c junk ops tid size r s' old,
  let s := trun c junk init ops in
  get_tasklocal c junk s tid size = Some (r, s') -> tl_view c s tid = Some old ->
  exists new, tl_view c s' tid = Some new /\ firstn (Nat.min (length old) (length new)) new = firstn (Nat.min (length old) (length new)) old /\
              size <= length new.
Proof.
  intros c junk ops tid size r s' old s H Hv.
  destruct (tl_grow_preserves_step c junk s tid size r s' old (inv_reachable c junk ops) H Hv) as (new & H1 & H2 & H3 & H4 & _).
  exists new. split; [assumption|]. split; [|assumption].
  rewrite Nat.min_l by assumption. rewrite H2. symmetry. apply firstn_all.
Qed.

(* ---------- tl_private ---------- *)
Definition regions_disjoint (r1 r2 : region) : Prop :=
  match r1, r2 with
  | RDesc t1 o1 l1, RDesc t2 o2 l2 => t1 <> t2 \/ o1 + l1 <= o2 \/ o2 + l2 <= o1
  | RBlob b1 _, RBlob b2 _ => b1 <> b2
  | _, _ => True        (* a descriptor's data area and a malloc'ed block (C14 / libc) *)
  end.

Lemma tl_region_blocks : forall c s t T b n, aget (s_tasks s) t = Some T -> tl_region c s t = Some (RBlob b n) -> In b (blocks_of T).
Proof.
  intros c s t T b n HT H. unfold tl_region in H. rewrite HT in H.
  destruct (t_tlsz T =? 0) eqn:E; [discriminate|]. apply Nat.eqb_neq in E.
  destruct (t_slot T) as [b0|] eqn:Hs; [|discriminate]. inversion H; subst. now apply blob_in_blocks.
Qed.
Lemma arg_region_blocks : forall s t T b n, aget (s_tasks s) t = Some T -> arg_region s t = Some (RBlob b n) -> In b (blocks_of T).
Proof.
  intros s t T b n HT H. unfold arg_region in H. rewrite HT in H.
  destruct (t_arg T) as [|m|b0 m] eqn:Ha; try discriminate. inversion H; subst.
  unfold blocks_of, argblk_of. apply in_or_app. right. rewrite Ha. now left.
Qed.
Lemma region_desc_owner : forall c s t t' o l, tl_region c s t = Some (RDesc t' o l) -> t' = t.
Proof.
  intros c s t t' o l H. unfold tl_region in H. destruct (aget (s_tasks s) t) as [T|]; [|discriminate].
  destruct (t_tlsz T =? 0); [inversion H; reflexivity|destruct (t_slot T); discriminate].
Qed.
Lemma arg_desc_owner : forall s t t' o l, arg_region s t = Some (RDesc t' o l) -> t' = t.
Proof.
  intros s t t' o l H. unfold arg_region in H. destruct (aget (s_tasks s) t) as [T|]; [|discriminate].
  destruct (t_arg T); try discriminate. inversion H; reflexivity.
Qed.

(* regions of DISTINCT live tasks (task-local areas and argument copies, in any combination) are disjoint *)
Theorem tl_private_tasks : forall c s t1 t2 r1 r2, inv c s -> t1 <> t2 ->
  (tl_region c s t1 = Some r1 \/ arg_region s t1 = Some r1) ->
  (tl_region c s t2 = Some r2 \/ arg_region s t2 = Some r2) -> regions_disjoint r1 r2.
Proof.
  intros c s t1 t2 r1 r2 I Hne H1 H2.
  assert (A1 : exists T1, aget (s_tasks s) t1 = Some T1).
  { destruct H1 as [H1|H1]; [unfold tl_region in H1|unfold arg_region in H1]; destruct (aget (s_tasks s) t1); try discriminate; eauto. }
  assert (A2 : exists T2, aget (s_tasks s) t2 = Some T2).
  { destruct H2 as [H2|H2]; [unfold tl_region in H2|unfold arg_region in H2]; destruct (aget (s_tasks s) t2); try discriminate; eauto. }
  destruct A1 as [T1 HT1]. destruct A2 as [T2 HT2].
  destruct r1 as [u1 o1 l1|b1 n1]; destruct r2 as [u2 o2 l2|b2 n2]; cbn [regions_disjoint]; auto.
  - left. assert (u1 = t1) by (destruct H1; [eapply region_desc_owner|eapply arg_desc_owner]; eassumption).
    assert (u2 = t2) by (destruct H2; [eapply region_desc_owner|eapply arg_desc_owner]; eassumption). congruence.
  - intros Heq. subst b2. apply Hne.
    eapply (inv_distinct c s I); [exact HT1|exact HT2| |].
    + destruct H1; [eapply tl_region_blocks|eapply arg_region_blocks]; eassumption.
    + destruct H2; [eapply tl_region_blocks|eapply arg_region_blocks]; eassumption.
Qed.

(* within ONE task the task-local region and the argument copy are disjoint: the copy occupies data[0..n), n <= AC,
   the task-local area starts at data[AC]; blob and heap copy are different blocks *)
Theorem tl_private_own_arg : forall c s t r1 r2, inv c s ->
  tl_region c s t = Some r1 -> arg_region s t = Some r2 -> regions_disjoint r1 r2.
Proof.
  intros c s t r1 r2 I H1 H2. unfold tl_region in H1. unfold arg_region in H2.
  destruct (aget (s_tasks s) t) as [T|] eqn:HT; [|discriminate].
  pose proof (inv_wf c s I _ _ HT) as (W1 & W2 & W3 & W4 & W5).
  destruct (t_arg T) as [|n|b n] eqn:Ha; [discriminate| |]; inversion H2; subst; clear H2.
  - destruct (t_tlsz T =? 0); [|destruct (t_slot T); inversion H1; subst; exact Logic.I].
    inversion H1; subst. cbn [regions_disjoint]. right. right.
    destruct (W3 n eq_refl) as [Hb Hn]. unfold tl_off. rewrite Hb. lia.
  - destruct (t_tlsz T =? 0) eqn:E; [inversion H1; subst; exact Logic.I|]. apply Nat.eqb_neq in E.
    destruct (t_slot T) as [b0|] eqn:Hs; [|discriminate]. inversion H1; subst. cbn [regions_disjoint].
    rewrite (blocks_blob T b0 E Hs) in W5. inversion W5 as [|? ? Hnotin _]; subst.
    intros Heq. subst b0. apply Hnotin. unfold argblk_of. rewrite Ha. now left.
Qed.

(* the blob pointer fits into the in-descriptor area exactly when TL >= sizeof(void* ) (or the descriptor is the small one, which has slack) *)
Theorem tl_slot_fits : forall c s t T, inv c s -> aget (s_tasks s) t = Some T -> PTR <= TL c \/ t_big T = false ->
  tl_off c T + PTR <= length (t_data T) \/ t_big T = false.
Proof.
  intros c s t T I HT [H|H]; [left|now right].
  destruct (inv_wf c s I _ _ HT) as (W1 & _). lia.
Qed.

(* the store is read back *)
Theorem tl_write_read : forall c s tid bs s' old, inv c s -> tl_view c s tid = Some old -> length bs = length old ->
  tl_write c s tid 0 bs = Some s' -> tl_view c s' tid = Some bs.
Proof.
  intros c s tid bs s' old I Hv Hl H. unfold tl_write in H. unfold tl_view in *.
  destruct (aget (s_tasks s) tid) as [t|] eqn:Ht; [|discriminate].
  pose proof (inv_wf c s I _ _ Ht) as (W1 & W2 & _).
  destruct (t_tlsz t =? 0) eqn:E2.
  - inversion Hv; subst old; clear Hv. rewrite slice_length in Hl by assumption.
    destruct (0 + length bs <=? TL c); [|discriminate]. inversion H; subst; clear H.
    cbn [s_tasks s_heap]. rewrite aget_aset_same. cbn [t_tlsz t_data]. rewrite E2. unfold tl_off in *. cbn [t_big].
    rewrite Nat.add_0_r. rewrite <- Hl. f_equal. apply slice_upd_same. lia.
  - destruct (t_slot t) as [b|] eqn:Hs; [|discriminate]. rewrite Hv in H.
    destruct (0 + length bs <=? length old); [|discriminate]. inversion H; subst; clear H.
    cbn [s_tasks s_heap]. rewrite Ht, E2. rewrite Hs. rewrite aget_aset_same. f_equal.
    unfold upd_range. cbn [firstn plus app]. rewrite Hl, skipn_all. apply app_nil_r.
Qed.

(* ---------- non-vacuity ---------- *)
Definition cfg0 := mkcfg 16 8.
Definition j0 (i : nat) : byte := 170%N.
Example grow_example :
  let s0 := trun cfg0 j0 init [TSpawn 1 [1;2;3;4]%N; TSpawn 2 []; TGet 1 8; TWrite 1 0 [11;12;13;14;15;16;17;18]%N; TGet 2 20] in
  tl_view cfg0 s0 1%N = Some [11;12;13;14;15;16;17;18]%N /\
  (exists r s1, get_tasklocal cfg0 j0 s0 1%N 12 = Some (r, s1) /\
     tl_view cfg0 s1 1%N = Some [11;12;13;14;15;16;17;18;170;170;170;170]%N /\ arg_view s1 1%N = Some [1;2;3;4]%N /\
     tl_region cfg0 s1 2%N = tl_region cfg0 s0 2%N).
Proof. vm_compute. split; [reflexivity|]. eexists; eexists. repeat split; reflexivity. Qed.
