(* C04 progress (extension M), proofs part 4: no stranded work - in a state in which a queue holds a node that is in the
   simulation relation with the kernel state, an idle worker has an enabled scheduler step (own queue: owner path of
   qt_scheduler_get_thread; other queue: the steal), and the kernel model accepts the scheduler's choice. *)
From Coq Require Import List Bool Arith NArith ZArith Lia.
From QV Require Import Kernel.GenSpawnTable Kernel.Placement Kernel.ProofsPlacement Kernel.Model Kernel.ProofsKernel
     Kernel.ProofsC07 Kernel.ProofsPin Kernel.Progress Kernel.ProgressInv.
From QV Require TQueue.Model TQueue.Proofs TQueue.Proofs2.
Import ListNotations.

(* the simulation relation, per node: the node of queue i stands for a kernel reference InQueue from b with the same
   stealable bit; an unstealable node sits in the queue of the shepherd the kernel model has it on; the McCoy bit marks tid 0 *)
Definition node_agrees (k : state) (i : nat) (n : TQueue.Model.node) : Prop :=
  TQueue.Model.mccoy n = (ntid n =? 0) /\
  exists from, place_of (ntid n) k.(places) = Some (InQueue from (TQueue.Model.stl n)) /\
               (TQueue.Model.stl n = false -> from = i).

Lemma loc_eqb_refl l : loc_eqb l l = true.
Proof. destruct l; cbn; rewrite ?Nat.eqb_refl, ?eqb_reflx; reflexivity. Qed.

Lemma move_ok st t from to : place_of t st.(places) = Some from -> exists st', move st t from to = Some st'.
Proof. intros P. unfold move. rewrite P, loc_eqb_refl. eauto. Qed.

(* the kernel accepts the scheduler's choice *)
Lemma take_ok k s w n i :
  kinv k -> idle k s w = true -> s < k.(nsh) -> w < k.(nwk) -> node_agrees k i n ->
  (i = s \/ TQueue.Model.stl n = true) -> (TQueue.Model.mccoy n = true -> w = 0) ->
  exists from k', take_from k n = Some from /\ run k [LTake s w from (ntid n)] = Some k' /\
                  place_of (ntid n) k'.(places) = Some (Held s w false).
Proof.
  intros (R & Hs & Hw & Hn & K) I Ls Lw (Mc & from & P & U) Own McW.
  destruct (K _ _ (place_of_in _ _ _ P)) as (x & G & C).
  unfold cons_ok in C. destruct C as (_ & Cm & _ & _ & Cq & Cb & _).
  exists from. unfold take_from. rewrite P.
  unfold idle in I. destruct (worker_ref s w (places k)) eqn:W; [discriminate|].
  assert (E : exists k', step k (LTake s w from (ntid n)) = Some k' /\ place_of (ntid n) (places k') = Some (Held s w false)).
  { cbn [step]. apply Nat.ltb_lt in Ls, Lw. pose proof Cq as Cq'. apply Nat.ltb_lt in Cq'. rewrite Ls, Lw, Cq'. cbn [andb negb].
    rewrite P, G, Nat.eqb_refl. cbn [negb].
    assert (X : negb (from =? s) && negb (TQueue.Model.stl n) = false).
    { destruct (TQueue.Model.stl n) eqn:S; [apply andb_false_r|]. rewrite (U eq_refl).
      destruct Own as [->|Y]; [rewrite Nat.eqb_refl; reflexivity|discriminate]. }
    rewrite X.
    assert (Y : t_mccoy x && negb (w =? 0) = false).
    { rewrite Cm, <- Mc. destruct (TQueue.Model.mccoy n); [rewrite (McW eq_refl); reflexivity|reflexivity]. }
    rewrite Y, W. destruct (move_ok k (ntid n) (InQueue from (TQueue.Model.stl n)) (Held s w false) P) as (k' & M).
    exists k'. split; [exact M|]. apply move_spec in M. destruct M as (_ & M & _). rewrite M. cbn. rewrite Nat.eqb_refl. reflexivity. }
  destruct E as (k' & E & P'). exists k'. split; [reflexivity|]. split; [cbn [run]; rewrite E; reflexivity|exact P'].
Qed.

(* ENABLED_IF_WORK, own queue.  Side conditions stated precisely: the worker is idle; the C owner path
   (TQueue.dequeue_worker: tail of the own queue, the McCoy task passed over by every worker but 0.0) hands out a node;
   the node is in the simulation relation with the kernel state; the McCoy task needs worker 0.0. *)
Theorem enabled_if_work_pop_l c s w n q' :
  kinv c.(ck) -> idle c.(ck) s w = true -> s < c.(ck).(nsh) -> w < c.(ck).(nwk) ->
  TQueue.Model.dequeue_worker (TQueue.Model.getq c.(cs) s) (packed c.(ck) s w) = (Some n, q') ->
  node_agrees c.(ck) s n -> (TQueue.Model.mccoy n = true -> packed c.(ck) s w = 0) ->
  exists c', cstep c (EPop s w) = Some c' /\ place_of (ntid n) c'.(ck).(places) = Some (Held s w false) /\
             c'.(cs) = TQueue.Model.setq c.(cs) s q' /\ c'.(cprog) = c.(cprog).
Proof.
  intros KI I Ls Lw D A Mc.
  destruct (take_ok _ s w n s KI I Ls Lw A (or_introl eq_refl)) as (from & k' & T & R & P).
  { intros M. specialize (Mc M). unfold packed in Mc. lia. }
  unfold cstep. rewrite I. apply Nat.ltb_lt in Ls, Lw. rewrite Ls, Lw. cbn [andb]. rewrite D, T.
  unfold with_k. rewrite R. eexists. split; [reflexivity|]. cbn. auto.
Qed.

(* the owner path returns a node whenever the own queue is not empty, unless all it holds is the McCoy task and the
   worker is not 0.0 (dequeue_worker_cases of C08) *)
Lemma pop_returns q wp :
  TQueue.Model.items q <> [] ->
  (forall n, TQueue.Model.items q = [n] -> TQueue.Model.mccoy n = true -> wp = 0) ->
  exists n q', TQueue.Model.dequeue_worker q wp = (Some n, q') /\ In n (TQueue.Model.items q).
Proof.
  intros NE Only.
  destruct (TQueue.Proofs.dequeue_worker_cases q wp) as [E|[(l & n & Ei & Hm & E)|(l & m & n & Ei & Hm & Hw & E)]].
  - exfalso. unfold TQueue.Model.dequeue_worker in E.
    destruct (rev (TQueue.Model.items q)) as [|n r] eqn:Er.
    + apply (f_equal (@rev _)) in Er. rewrite rev_involutive in Er. cbn in Er. contradiction.
    + destruct (TQueue.Model.mccoy n && negb (wp =? 0)) eqn:C; [|discriminate E].
      destruct r as [|m r']; [|discriminate E].
      apply (f_equal (@rev _)) in Er. rewrite rev_involutive in Er. cbn in Er.
      apply andb_true_iff in C. destruct C as [C1 C2]. rewrite (Only n Er C1) in C2. discriminate C2.
  - exists n. eexists. split; [exact E|]. rewrite Ei. apply in_or_app. right. left. reflexivity.
  - exists m. eexists. split; [exact E|]. rewrite Ei. apply in_or_app. right. left. reflexivity.
Qed.

(* ENABLED_IF_WORK, stranded work.  An idle worker of an enabled shepherd whose own queue is empty obtains a task from any
   victim that holds a stealable node: the C scan (driven by qlength_stealable, exact counters) hands out at least one
   node (steal_progress of C08), stealable (steal_only_stealable), which the kernel accepts for any thief
   (a stealable node never is the McCoy task). *)
Theorem enabled_if_work_steal_l c s w v :
  kinv c.(ck) -> idle c.(ck) s w = true -> s < c.(ck).(nsh) -> w < c.(ck).(nwk) -> v < c.(ck).(nsh) -> v <> s ->
  nthb c.(ck).(active) s = true ->
  TQueue.Model.items (TQueue.Model.getq c.(cs) s) = [] ->
  TQueue.Proofs.exact (TQueue.Model.getq c.(cs) v) -> (0 <= TQueue.Model.chunk c.(cs))%Z ->
  0 < TQueue.Model.count_stl (TQueue.Model.items (TQueue.Model.getq c.(cs) v)) ->
  (forall n, In n (TQueue.Model.items (TQueue.Model.getq c.(cs) v)) -> node_agrees c.(ck) v n) ->
  exists c' n, cstep c (ESteal s w v) = Some c' /\ TQueue.Model.stl n = true /\
               In n (TQueue.Model.items (TQueue.Model.getq c.(cs) v)) /\
               place_of (ntid n) c'.(ck).(places) = Some (Held s w false).
Proof.
  intros KI I Ls Lw Lv Ne Act Emp Ex Ch Pos Ag.
  destruct (TQueue.Model.dequeue_steal (TQueue.Model.chunk (cs c)) false (TQueue.Model.getq (cs c) v)) as [st vq'] eqn:D.
  pose proof (TQueue.Proofs2.steal_progress_l _ _ _ _ Ex Ch Pos D) as NE.
  destruct (TQueue.Proofs2.dequeue_steal_sub _ _ _ _ Ex D) as (Sub & _ & _).
  destruct st as [|n surplus]; [contradiction|].
  destruct (Sub n (or_introl eq_refl)) as [Hin Hst].
  pose proof (Ag n Hin) as A.
  assert (NM : TQueue.Model.mccoy n = false).
  { destruct A as (Mc & from & P & _). rewrite Mc. destruct (ntid n =? 0) eqn:Z; [|reflexivity]. exfalso.
    apply Nat.eqb_eq in Z. destruct KI as (_ & _ & _ & _ & K).
    destruct (K _ _ (place_of_in _ _ _ P)) as (x & G & C). unfold cons_ok in C.
    destruct C as (_ & _ & _ & C0 & _ & Cb & _). destruct (C0 Z) as (_ & _ & U). rewrite U, Hst in Cb. discriminate. }
  destruct (take_ok _ s w n v KI I Ls Lw A (or_intror Hst)) as (from & k' & T & R & P).
  { intros M. congruence. }
  exists (mkC k' (let s1 := TQueue.Model.setq c.(cs) v vq' in
                  TQueue.Model.setq s1 s (TQueue.Model.enqueue_multiple (TQueue.Model.getq s1 s) surplus)) c.(cprog)), n.
  split; [|auto].
  unfold cstep. rewrite I. apply Nat.ltb_lt in Ls, Lw, Lv. rewrite Ls, Lw, Lv. cbn [andb].
  assert (X : negb (v =? s) = true) by (apply negb_true_iff, Nat.eqb_neq; exact Ne). rewrite X, Act. cbn [andb].
  rewrite Emp, D, T. unfold with_k. rewrite R. reflexivity.
Qed.

(* ENABLED_IF_WORK, own queue, in terms of the queue alone: a non-empty own queue whose nodes are in the simulation relation
   (distinct tids) always yields a scheduler step for an idle worker - except when all it holds is the McCoy task and the
   worker is not 0.0 (then the task waits for worker 0.0: mccoy_handover of C08) *)
Theorem enabled_if_work_own_l c s w :
  kinv c.(ck) -> idle c.(ck) s w = true -> s < c.(ck).(nsh) -> w < c.(ck).(nwk) ->
  TQueue.Model.items (TQueue.Model.getq c.(cs) s) <> [] ->
  (forall n, In n (TQueue.Model.items (TQueue.Model.getq c.(cs) s)) -> node_agrees c.(ck) s n) ->
  NoDup (map ntid (TQueue.Model.items (TQueue.Model.getq c.(cs) s))) ->
  (forall n, TQueue.Model.items (TQueue.Model.getq c.(cs) s) = [n] -> TQueue.Model.mccoy n = true -> packed c.(ck) s w = 0) ->
  exists c', cstep c (EPop s w) = Some c'.
Proof.
  intros KI I Ls Lw NE Ag ND Only.
  set (q := TQueue.Model.getq (cs c) s) in *. set (wp := packed (ck c) s w) in *.
  destruct (pop_returns q wp NE Only) as (n & q' & D & Hin).
  assert (Mc : TQueue.Model.mccoy n = true -> wp = 0).
  { intros M.
    destruct (TQueue.Proofs.dequeue_worker_cases q wp) as [E|[(l & n0 & Ei & Hm & E)|(l & m & n0 & Ei & Hm & Hw & E)]];
      rewrite E in D; inversion D; subst.
    - destruct Hm as [Hm|Hm]; [congruence|exact Hm].
    - exfalso. (* two McCoy nodes: both have tid 0 *)
      assert (A1 : ntid n = 0).
      { destruct (Ag n Hin) as (X & _). rewrite M in X. symmetry in X. apply Nat.eqb_eq in X. exact X. }
      assert (A2 : ntid n0 = 0).
      { assert (Hin0 : In n0 (TQueue.Model.items q)) by (rewrite Ei; apply in_or_app; right; right; left; reflexivity).
        destruct (Ag n0 Hin0) as (X & _). rewrite Hm in X. symmetry in X. apply Nat.eqb_eq in X. exact X. }
      rewrite Ei, map_app in ND. cbn [map] in ND. apply NoDup_remove_2 in ND. apply ND.
      apply in_or_app. right. left. congruence. }
  destruct (enabled_if_work_pop_l c s w n q' KI I Ls Lw D (Ag n Hin) Mc) as (c' & E & _). eauto.
Qed.
