(* C04 / C07: executable model of the task kernel of src/qthread.c (definitions only).

   A state holds the task descriptors (tid |-> task) and the multiset of REFERENCES to tasks (places): a reference is a
   pair (tid, location) and stands for one pointer to the descriptor held by a ready queue node, a worker's local
   variable / current slot, a FEB waiter list, the blocking subsystem, or the freed pool.  Every transition mirrors one
   branch of the code and moves references the way that branch moves the pointer.  Ready queues are kept as bags of
   (tid, stealable-bit) nodes: the order inside a queue is C08's subject (TQueue), not used here.

   Transitions are labelled; the labels are exactly the events that the white-box harness (harness/c/c04_*.c) observes on
   the real runtime, so the extracted [step] is the acceptor of the M4 correspondence. *)
From Coq Require Import List Bool Arith NArith.
From QV Require Import Kernel.GenSpawnTable Kernel.Placement.
Import ListNotations.

Inductive tstate := NEW | RUNNING | YIELDED | YIELDED_NEAR | FEB_BLOCKED | SYSCALL | MIGRATING | TERMINATED | NASCENT.

Definition tstate_eqb (a b : tstate) : bool :=
  match a, b with
  | NEW, NEW | RUNNING, RUNNING | YIELDED, YIELDED | YIELDED_NEAR, YIELDED_NEAR | FEB_BLOCKED, FEB_BLOCKED
  | SYSCALL, SYSCALL | MIGRATING, MIGRATING | TERMINATED, TERMINATED | NASCENT, NASCENT => true
  | _, _ => false
  end.

(* what the body will receive: the caller's pointer, or a private copy (in the descriptor's data[] or in a heap block) *)
Inductive argv := Ptr (p : N) | Copy (bytes : list N) (indesc : bool).

Fixpoint bytes_eqb (a b : list N) : bool :=
  match a, b with
  | [], [] => true
  | x :: r, y :: s => N.eqb x y && bytes_eqb r s
  | _, _ => false
  end.
Definition argv_eqb (a b : argv) : bool :=
  match a, b with
  | Ptr p, Ptr q => N.eqb p q
  | Copy x i, Copy y j => bytes_eqb x y && Bool.eqb i j
  | _, _ => false
  end.

Record task := mkTask {
  t_arg : argv;
  t_unsteal : bool;            (* QTHREAD_UNSTEALABLE *)
  t_mccoy : bool;              (* QTHREAD_REAL_MCCOY *)
  t_simple : bool;             (* QTHREAD_SIMPLE *)
  t_target : option nat;       (* target_shepherd, None = NO_SHEPHERD *)
  t_state : tstate;
  t_shep : nat;                (* rdata->shepherd_ptr *)
  t_started : nat;             (* ghost: number of NEW -> RUNNING transitions *)
  t_mayblock : bool            (* ghost: the body announced a possibly blocking FEB/syncvar/sinc operation *)
}.

Inductive loc :=
| InQueue (s : nat) (stealable : bool)
| Held (s w : nat) (near : bool)      (* returned by qt_scheduler_get_thread to worker (s,w), not yet dispatched *)
| OnWorker (s w : nat)                (* *current of worker (s,w) *)
| Blocked | InSyscall | Nascent | Freed.

Definition loc_eqb (a b : loc) : bool :=
  match a, b with
  | InQueue s x, InQueue s' y => (s =? s') && Bool.eqb x y
  | Held s w n, Held s' w' n' => (s =? s') && (w =? w') && Bool.eqb n n'
  | OnWorker s w, OnWorker s' w' => (s =? s') && (w =? w')
  | Blocked, Blocked | InSyscall, InSyscall | Nascent, Nascent | Freed, Freed => true
  | _, _ => false
  end.

Record state := mkState {
  nsh : nat; nwk : nat; argcopy : N;
  active : list bool;
  places : list (nat * loc);
  tasks : list (nat * task);
  mem : list (N * list N);       (* user memory: address |-> bytes *)
  next : nat
}.

(* ---------------------------------------------------------------- finite maps as association lists *)
Fixpoint place_of (t : nat) (ps : list (nat * loc)) : option loc :=
  match ps with
  | [] => None
  | (k, l) :: r => if k =? t then Some l else place_of t r
  end.
Definition drop_tid (t : nat) (ps : list (nat * loc)) : list (nat * loc) :=
  filter (fun p => negb (fst p =? t)) ps.
Fixpoint get_task (t : nat) (ts : list (nat * task)) : option task :=
  match ts with
  | [] => None
  | (k, v) :: r => if k =? t then Some v else get_task t r
  end.
Definition upd_task (t : nat) (f : task -> task) (ts : list (nat * task)) : list (nat * task) :=
  map (fun kv => if fst kv =? t then (fst kv, f (snd kv)) else kv) ts.
Fixpoint mem_get (a : N) (m : list (N * list N)) : list N :=
  match m with
  | [] => []
  | (k, v) :: r => if N.eqb k a then v else mem_get a r
  end.

Definition set_places (st : state) (ps : list (nat * loc)) : state :=
  mkState st.(nsh) st.(nwk) st.(argcopy) st.(active) ps st.(tasks) st.(mem) st.(next).
Definition set_tasks (st : state) (ts : list (nat * task)) : state :=
  mkState st.(nsh) st.(nwk) st.(argcopy) st.(active) st.(places) ts st.(mem) st.(next).
Definition set_active (st : state) (a : list bool) : state :=
  mkState st.(nsh) st.(nwk) st.(argcopy) a st.(places) st.(tasks) st.(mem) st.(next).
Definition set_mem (st : state) (m : list (N * list N)) : state :=
  mkState st.(nsh) st.(nwk) st.(argcopy) st.(active) st.(places) st.(tasks) m st.(next).

(* move the one reference to t from [from] to [to] *)
Definition move (st : state) (t : nat) (from to : loc) : option state :=
  match place_of t st.(places) with
  | Some l => if loc_eqb l from then Some (set_places st ((t, to) :: drop_tid t st.(places))) else None
  | None => None
  end.
Definition modify (st : state) (t : nat) (f : task -> task) : state := set_tasks st (upd_task t f st.(tasks)).

Definition with_state (x : task) (s : tstate) : task :=
  mkTask x.(t_arg) x.(t_unsteal) x.(t_mccoy) x.(t_simple) x.(t_target) s x.(t_shep) x.(t_started) x.(t_mayblock).
Definition with_shep (x : task) (s : nat) : task :=
  mkTask x.(t_arg) x.(t_unsteal) x.(t_mccoy) x.(t_simple) x.(t_target) x.(t_state) s x.(t_started) x.(t_mayblock).
Definition with_mayblock (x : task) (b : bool) : task :=
  mkTask x.(t_arg) x.(t_unsteal) x.(t_mccoy) x.(t_simple) x.(t_target) x.(t_state) x.(t_shep) x.(t_started) b.
Definition with_pin (x : task) (tg : option nat) (u : bool) : task :=
  mkTask x.(t_arg) u x.(t_mccoy) x.(t_simple) tg x.(t_state) x.(t_shep) x.(t_started) x.(t_mayblock).
Definition started_now (x : task) : task :=
  mkTask x.(t_arg) x.(t_unsteal) x.(t_mccoy) x.(t_simple) x.(t_target) RUNNING x.(t_shep) (S x.(t_started)) false.

(* the task (if any) a worker currently holds: Held or OnWorker *)
Fixpoint worker_ref (s w : nat) (ps : list (nat * loc)) : option (nat * loc) :=
  match ps with
  | [] => None
  | (t, l) :: r =>
    match l with
    | Held s' w' _ => if (s =? s') && (w =? w') then Some (t, l) else worker_ref s w r
    | OnWorker s' w' => if (s =? s') && (w =? w') then Some (t, l) else worker_ref s w r
    | _ => worker_ref s w r
    end
  end.

(* ---------------------------------------------------------------- qthread_thread_new: the argument the body will get *)
Definition thread_new_arg (st : state) (row : spawn_row) (asize src : N) : argv :=
  if row.(r_copy) && negb (N.eqb asize 0)
  then Copy (mem_get src st.(mem)) (N.leb asize st.(argcopy))     (* memcpy of the source bytes AT THIS STEP *)
  else Ptr src.

(* flags word of a fresh descriptor (for the M1 probe): BIG_STRUCT / HAS_ARGCOPY / 0 *)
Definition thread_new_flags (argcopy_size asize : N) : nat :=
  if N.eqb asize 0 then 0
  else if N.leb asize argcopy_size then Nat.pow 2 bit_big_struct else Nat.pow 2 bit_has_argcopy.
(* 0: caller's pointer, 1: data[] of the (big) descriptor, 2: heap block *)
Definition thread_new_where (argcopy_size asize : N) : nat :=
  if N.eqb asize 0 then 0 else if N.leb asize argcopy_size then 1 else 2.

(* ---------------------------------------------------------------- labels *)
Inductive label :=
| LStore (a : N) (bytes : list N)
| LSpawn (caller : option (nat * nat)) (row : spawn_row) (shep_param : option nat) (asize src : N) (pre_blocked : bool)
| LTake (s w from t : nat)
| LSendHome (s w t h : nat)
| LReroute (s w t r : nat)
| LExec (s w t : nat) (got : option argv)
| LYield (t : nat) | LYieldNear (t : nat) | LMayBlock (t : nat) | LNoBlock (t : nat) | LSyscallPre (t : nat)
| LMigrate (t : nat) (h : option nat) | LEnd (t : nat)
| LPostYield (s w t : nat) | LPostNear (s w t : nat) | LRequeueNear (s w f : nat) | LPostMigrate (s w t : nat)
| LBlocked (s w t : nat) | LPostSyscall (s w t : nat) | LFree (s w t : nat)
| LWake (ws t q tu : nat) | LLaunch (ws t q : nat) | LIoDone (t q : nat)
| LDisable (s : nat) | LEnable (s : nat).

Definition running_on (st : state) (t : nat) : option (nat * nat * task) :=
  match place_of t st.(places), get_task t st.(tasks) with
  | Some (OnWorker s w), Some x => if tstate_eqb x.(t_state) RUNNING then Some (s, w, x) else None
  | _, _ => None
  end.

Definition qnode (x : task) : bool := negb x.(t_unsteal).   (* node->stealable = qt_threadqueue_isstealable(t) *)

Definition step (st : state) (l : label) : option state :=
  match l with
  | LStore a bytes => Some (set_mem st ((a, bytes) :: st.(mem)))

  (* qthread_spawn: steps 2 (destination), 3 (qthread_thread_new, target/UNSTEALABLE, NASCENT), 6 (enqueue) *)
  | LSpawn caller row shep_param asize src pre_blocked =>
    let myshep := match caller with
                  | Some (s, w) => match worker_ref s w st.(places) with
                                   | Some (_, OnWorker _ _) => Some s
                                   | _ => None
                                   end
                  | None => Some 0                      (* qt_threadqueue_choose_dest(NULL) = 0 *)
                  end in
    match myshep with
    | None => None
    | Some ms =>
      if st.(nsh) =? 0 then None else
      let target := if row.(r_to) then option_map (fun h => h mod st.(nsh)) shep_param else None in
      let dest := match target with Some h => h | None => ms end in
      let nascent := row.(r_precond) && pre_blocked in
      let x := mkTask (thread_new_arg st row asize src)
                      (match target with Some _ => true | None => false end)
                      false row.(r_simple) target (if nascent then NASCENT else NEW) ms 0 false in
      let tid := st.(next) in
      Some (mkState st.(nsh) st.(nwk) st.(argcopy) st.(active)
                    ((tid, if nascent then Nascent else InQueue dest (qnode x)) :: st.(places))
                    ((tid, x) :: st.(tasks)) st.(mem) (S tid))
    end

  (* qt_scheduler_get_thread returned t to worker (s,w): from its own queue, or stolen (stealable nodes only);
     the main task is only ever returned to worker 0 *)
  | LTake s w from t =>
    if negb ((s <? st.(nsh)) && (w <? st.(nwk)) && (from <? st.(nsh))) then None else
    match place_of t st.(places), get_task t st.(tasks) with
    | Some (InQueue q b), Some x =>
      if negb (q =? from) then None else
      if negb (from =? s) && negb b then None else
      if x.(t_mccoy) && negb (w =? 0) then None else
      match worker_ref s w st.(places) with
      | None => move st t (InQueue q b) (Held s w false)
      | Some (y, OnWorker _ _) =>
        match get_task y st.(tasks) with
        | Some yx => if tstate_eqb yx.(t_state) YIELDED_NEAR then move st t (InQueue q b) (Held s w true) else None
        | None => None
        end
      | Some _ => None
      end
    | _, _ => None
    end

  (* qthread_master guard, first branch: send the thread home *)
  | LSendHome s w t h =>
    match get_task t st.(tasks) with
    | Some x =>
      match dispatch s x.(t_target) true true with
      | DSendHome h' => if (h =? h') && (h <? st.(nsh))
                        then option_map (fun st' => modify st' t (fun x => with_shep x h)) (move st t (Held s w false) (InQueue h (qnode x)))
                        else None
      | _ => None
      end
    | None => None
    end
  (* second branch: this shepherd is disabled, hand the thread to the shepherd find_active_shepherd returned *)
  | LReroute s w t r =>
    match get_task t st.(tasks) with
    | Some x =>
      match dispatch s x.(t_target) false false with
      | DReroute _ => if r <? st.(nsh)
                      then option_map (fun st' => modify st' t (fun x => with_shep x r)) (move st t (Held s w false) (InQueue r (qnode x)))
                      else None
      | _ => None
      end
    | None => None
    end
  (* third branch: execute *)
  | LExec s w t got =>
    match get_task t st.(tasks) with
    | Some x =>
      match dispatch s x.(t_target) false true with
      | DExec =>
        match x.(t_state) with
        | NEW =>
          if match got with Some g => argv_eqb g x.(t_arg) | None => true end
          then option_map (fun st' => modify st' t (fun x => with_shep (started_now x) s)) (move st t (Held s w false) (OnWorker s w))
          else None
        | RUNNING =>
          if x.(t_simple) then None else
          match got with
          | None => option_map (fun st' => modify st' t (fun x => with_mayblock (with_shep x s) false)) (move st t (Held s w false) (OnWorker s w))
          | Some _ => None
          end
        | _ => None
        end
      | _ => None
      end
    | None => None
    end

  (* operations of a running body *)
  | LYield t =>
    match running_on st t with
    | Some (_, _, x) => if x.(t_simple) then None else Some (modify st t (fun x => with_state x YIELDED))
    | None => None
    end
  | LYieldNear t =>
    match running_on st t with
    | Some (_, _, x) => if x.(t_simple) then None else Some (modify st t (fun x => with_state x YIELDED_NEAR))
    | None => None
    end
  | LMayBlock t =>
    match running_on st t with
    | Some (_, _, x) => if x.(t_simple) then None else Some (modify st t (fun x => with_mayblock x true))
    | None => None
    end
  | LNoBlock t =>
    match running_on st t with
    | Some _ => Some (modify st t (fun x => with_mayblock x false))
    | None => None
    end
  | LSyscallPre t =>
    match running_on st t with
    | Some (_, _, x) => if x.(t_simple) then None else Some (modify st t (fun x => with_state x SYSCALL))
    | None => None
    end
  | LMigrate t h =>
    match running_on st t with
    | Some (s, _, x) =>
      match migrate_case_of x.(t_mccoy) s h st.(nsh) with
      | MNotAllowed | MBadArgs => Some st
      | MSame => Some (modify st t (fun x => with_pin x h true))
      | MUnpin => Some (modify st t (fun x => with_pin x None false))
      | MMove => if x.(t_simple) then None else Some (modify st t (fun x => with_state (with_pin x h true) MIGRATING))
      end
    | None => None
    end
  | LEnd t =>
    match running_on st t with
    | Some (_, _, x) => if x.(t_mccoy) then None else Some (modify st t (fun x => with_state x TERMINATED))
    | None => None
    end

  (* qthread_master after qthread_exec returned: switch (t->thread_state) *)
  | LPostYield s w t =>
    match get_task t st.(tasks) with
    | Some x => if tstate_eqb x.(t_state) YIELDED
                then option_map (fun st' => modify st' t (fun x => with_state x RUNNING)) (move st t (OnWorker s w) (InQueue s (qnode x)))
                else None
    | None => None
    end
  | LPostNear s w t =>
    match get_task t st.(tasks) with
    | Some x => if tstate_eqb x.(t_state) YIELDED_NEAR
                then option_map (fun st' => modify st' t (fun x => with_state x RUNNING)) (move st t (OnWorker s w) (InQueue s (qnode x)))
                else None
    | None => None
    end
  | LRequeueNear s w f =>
    match get_task f st.(tasks) with
    | Some x => move st f (Held s w true) (InQueue s (qnode x))
    | None => None
    end
  | LPostMigrate s w t =>
    match get_task t st.(tasks) with
    | Some x =>
      match x.(t_state), x.(t_target) with
      | MIGRATING, Some h =>
        option_map (fun st' => modify st' t (fun x => with_shep (with_state x RUNNING) h)) (move st t (OnWorker s w) (InQueue h (qnode x)))
      | _, _ => None
      end
    | None => None
    end
  | LBlocked s w t =>
    match get_task t st.(tasks) with
    | Some x => if x.(t_mayblock) && tstate_eqb x.(t_state) RUNNING
                then option_map (fun st' => modify st' t (fun x => with_mayblock (with_state x FEB_BLOCKED) false)) (move st t (OnWorker s w) Blocked)
                else None
    | None => None
    end
  | LPostSyscall s w t =>
    match get_task t st.(tasks) with
    | Some x => if tstate_eqb x.(t_state) SYSCALL
                then option_map (fun st' => modify st' t (fun x => with_state x RUNNING)) (move st t (OnWorker s w) InSyscall)
                else None
    | None => None
    end
  | LFree s w t =>
    match get_task t st.(tasks) with
    | Some x => if tstate_eqb x.(t_state) TERMINATED then move st t (OnWorker s w) Freed else None
    | None => None
    end

  (* wake-ups *)
  | LWake ws t q tu =>
    match get_task t st.(tasks) with
    | Some x => if (q =? wake_dest tu x.(t_unsteal) x.(t_shep) ws) && (ws <? st.(nsh)) && (q <? st.(nsh))
                   && tstate_eqb x.(t_state) FEB_BLOCKED
                then option_map (fun st' => modify st' t (fun x => with_state x RUNNING)) (move st t Blocked (InQueue q (qnode x)))
                else None
    | None => None
    end
  | LLaunch ws t q =>
    match get_task t st.(tasks) with
    | Some x => if (q =? launch_dest x.(t_target) ws) && (ws <? st.(nsh)) && (q <? st.(nsh))
                   && tstate_eqb x.(t_state) NASCENT
                then option_map (fun st' => modify st' t (fun x => with_state x NEW)) (move st t Nascent (InQueue q (qnode x)))
                else None
    | None => None
    end
  | LIoDone t q =>
    match get_task t st.(tasks) with
    | Some x => if q =? x.(t_shep) then move st t InSyscall (InQueue q (qnode x)) else None
    | None => None
    end

  | LDisable s => Some (set_active st (disable_shep st.(nsh) st.(active) s))
  | LEnable s => Some (set_active st (enable_shep st.(nsh) st.(active) s))
  end.

Fixpoint run (st : state) (tr : list label) : option state :=
  match tr with
  | [] => Some st
  | l :: r => match step st l with Some st' => run st' r | None => None end
  end.

(* the values of the `active` flags that the worker must have read for the observed branch to be taken *)
Definition other_target (s : nat) (tg : option nat) : list nat :=
  match tg with Some h => if h =? s then [] else [h] | None => [] end.
Definition reads_of (st : state) (l : label) : list (nat * bool) :=
  match l with
  | LSendHome s w t h => [(h, true)]
  | LReroute s w t r =>
    match get_task t st.(tasks) with
    | Some x => (s, false) :: map (fun h => (h, false)) (other_target s x.(t_target))
    | None => []
    end
  | LExec s w t _ =>
    match get_task t st.(tasks) with
    | Some x => (s, true) :: map (fun h => (h, false)) (other_target s x.(t_target))
    | None => []
    end
  | _ => []
  end.
(* every read returned the value the flag has in the current state *)
Definition reads_current (st : state) (l : label) : bool :=
  forallb (fun sb => Bool.eqb (nthb st.(active) (fst sb)) (snd sb)) (reads_of st l).
(* weaker, holds for every execution whatever the timing: nobody ever writes shepherd 0's flag, so a read of it is true *)
Definition reads_plausible (st : state) (l : label) : bool :=
  forallb (fun sb => negb (fst sb =? 0) || snd sb) (reads_of st l).

(* initial state: the main task (tid 0) runs on worker 0 of shepherd 0 *)
Definition mccoy_task : task := mkTask (Ptr 0) true true false None RUNNING 0 1 false.
Definition init (ns nw : nat) (ac : N) : state :=
  mkState ns nw ac (repeat true ns) [(0, OnWorker 0 0)] [(0, mccoy_task)] [] 1.

(* end-of-run obligation of the acceptor: every task other than the main one has terminated, and its descriptor is freed
   or still in the hands of the worker that ran it to termination *)
Definition finished (st : state) : bool :=
  forallb (fun kv =>
             let t := fst kv in let x := snd kv in
             if x.(t_mccoy) then true
             else tstate_eqb x.(t_state) TERMINATED &&
                  match place_of t st.(places) with
                  | Some Freed => true
                  | Some (OnWorker _ _) => true
                  | _ => false
                  end) st.(tasks).
