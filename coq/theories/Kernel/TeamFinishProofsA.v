(* C05 extension T: general lemmas for the preservation proof of the team-finish invariant. *)
From Coq Require Import List ZArith Bool Arith Lia ZifyBool ZifyNat.
From QV Require Import Kernel.TeamFinish Kernel.TeamFinishInv.
Import ListNotations.
Local Open Scope Z_scope.

(* ---------- sumn ---------- *)
Lemma sumn_ext : forall n g h, (forall i, (i < n)%nat -> g i = h i) -> sumn n g = sumn n h.
Proof.
  induction n as [|n IH]; intros g h H; cbn [sumn]; [reflexivity|].
  rewrite (H n) by lia. rewrite (IH g h); [reflexivity|]. intros; apply H; lia.
Qed.

Lemma sumn_upd : forall n g h i, (i < n)%nat -> (forall j, (j < n)%nat -> j <> i -> g j = h j) ->
  sumn n g = sumn n h - h i + g i.
Proof.
  induction n as [|n IH]; intros g h i Hi H; [lia|]. cbn [sumn].
  destruct (Nat.eq_dec i n) as [->|Hne].
  - rewrite (sumn_ext n g h); [lia|]. intros j Hj; apply H; lia.
  - rewrite (H n) by lia. rewrite (IH g h i); [lia|lia|]. intros; apply H; lia.
Qed.

Lemma sumn_nonneg : forall n g, (forall i, (i < n)%nat -> 0 <= g i) -> 0 <= sumn n g.
Proof.
  induction n as [|n IH]; intros g H; cbn [sumn]; [lia|].
  assert (0 <= g n) by (apply H; lia). assert (0 <= sumn n g) by (apply IH; intros; apply H; lia). lia.
Qed.

Lemma sumn_ge : forall n g i, (forall i, (i < n)%nat -> 0 <= g i) -> (i < n)%nat -> g i <= sumn n g.
Proof.
  induction n as [|n IH]; intros g i H Hi; [lia|]. cbn [sumn].
  assert (0 <= g n) by (apply H; lia).
  assert (0 <= sumn n g) by (apply sumn_nonneg; intros; apply H; lia).
  destruct (Nat.eq_dec i n) as [->|Hne]; [lia|].
  assert (g i <= sumn n g) by (apply IH; [intros; apply H; lia|lia]). lia.
Qed.

Lemma sumn_nonneg_zero : forall n g, (forall i, (i < n)%nat -> 0 <= g i) -> sumn n g = 0 ->
  forall i, (i < n)%nat -> g i = 0.
Proof.
  intros n g H H0 i Hi. pose proof (sumn_ge n g i H Hi). pose proof (H i Hi). lia.
Qed.

Lemma sumn_zero : forall n g, (forall i, (i < n)%nat -> g i = 0) -> sumn n g = 0.
Proof.
  induction n as [|n IH]; intros g H; cbn [sumn]; [reflexivity|].
  rewrite (H n) by lia. rewrite IH; [reflexivity|]. intros; apply H; lia.
Qed.

(* ---------- contributions ---------- *)
Lemma mcon_range t m : 0 <= mcon t m <= 1.
Proof. unfold mcon. destruct (mteam m); [destruct (_ && _)|]; lia. Qed.

Lemma ccon_range t c : 0 <= ccon t c <= 1.
Proof. unfold ccon. destruct (tk c); try lia. destruct (_ && _); lia. Qed.

Lemma msum_nonneg s t : 0 <= msum s t.
Proof. unfold msum. apply sumn_nonneg. intros; apply mcon_range. Qed.

Lemma csum_nonneg s t : 0 <= csum s t.
Proof. unfold csum. apply sumn_nonneg. intros; apply ccon_range. Qed.

Lemma msum_ge s t k : (k < nm s)%nat -> mcon t (mem s k) <= msum s t.
Proof. intros Hk. unfold msum. apply (sumn_ge (nm s) (fun k => mcon t (mem s k)) k); [intros; apply mcon_range|exact Hk]. Qed.

Lemma csum_ge s t c : (c < nt s)%nat -> ccon t (ctl s c) <= csum s t.
Proof. intros Hc. unfold csum. apply (sumn_ge (nt s) (fun c => ccon t (ctl s c)) c); [intros; apply ccon_range|exact Hc]. Qed.

Lemma msum_zero_mcon s t k : msum s t = 0 -> (k < nm s)%nat -> mcon t (mem s k) = 0.
Proof. intros H Hk. pose proof (msum_ge s t k Hk). pose proof (mcon_range t (mem s k)). lia. Qed.

(* ---------- effect of updates on the sums ---------- *)
Lemma msum_same s s' t : nm s' = nm s -> (forall j, (j < nm s)%nat -> mcon t (mem s' j) = mcon t (mem s j)) ->
  msum s' t = msum s t.
Proof. intros Hn H. unfold msum. rewrite Hn. apply sumn_ext. exact H. Qed.

Lemma msum_upd s s' t k : nm s' = nm s -> (k < nm s)%nat -> (forall j, j <> k -> mem s' j = mem s j) ->
  msum s' t = msum s t - mcon t (mem s k) + mcon t (mem s' k).
Proof.
  intros Hn Hk H. unfold msum. rewrite Hn.
  rewrite (sumn_upd (nm s) (fun j => mcon t (mem s' j)) (fun j => mcon t (mem s j)) k); [reflexivity|exact Hk|].
  intros j _ Hj. rewrite H; [reflexivity|exact Hj].
Qed.

Lemma msum_new s s' t : nm s' = S (nm s) -> (forall j, (j < nm s)%nat -> mem s' j = mem s j) ->
  msum s' t = mcon t (mem s' (nm s)) + msum s t.
Proof.
  intros Hn H. unfold msum. rewrite Hn. cbn [sumn]. f_equal. apply sumn_ext. intros j Hj. rewrite H; [reflexivity|exact Hj].
Qed.

Lemma csum_same s s' t : nt s' = nt s -> (forall j, (j < nt s)%nat -> ccon t (ctl s' j) = ccon t (ctl s j)) ->
  csum s' t = csum s t.
Proof. intros Hn H. unfold csum. rewrite Hn. apply sumn_ext. exact H. Qed.

Lemma csum_upd s s' t k : nt s' = nt s -> (k < nt s)%nat -> (forall j, j <> k -> ctl s' j = ctl s j) ->
  csum s' t = csum s t - ccon t (ctl s k) + ccon t (ctl s' k).
Proof.
  intros Hn Hk H. unfold csum. rewrite Hn.
  rewrite (sumn_upd (nt s) (fun j => ccon t (ctl s' j)) (fun j => ccon t (ctl s j)) k); [reflexivity|exact Hk|].
  intros j _ Hj. rewrite H; [reflexivity|exact Hj].
Qed.

Lemma csum_new s s' t : nt s' = S (nt s) -> (forall j, (j < nt s)%nat -> ctl s' j = ctl s j) ->
  csum s' t = ccon t (ctl s' (nt s)) + csum s t.
Proof.
  intros Hn H. unfold csum. rewrite Hn. cbn [sumn]. f_equal. apply sumn_ext. intros j Hj. rewrite H; [reflexivity|exact Hj].
Qed.

(* ---------- the per-team invariant over explicit components ---------- *)
Definition eup (s : state) (c : tctl) : option nat := match tk c with KSub p => eu (obj s p) | _ => None end.

Definition tinvc (t : nat) (c : tctl) (o : tobj) (ms cs : Z) (e : option nat) : Prop :=
  sincok o = Nat.leb (lrank (lpc c)) 14 /\
  subsok o = Nat.leb (lrank (lpc c)) 15 /\
  freed o = negb (Nat.leb (lrank (lpc c)) 16) /\
  ((lrank (lpc c) <= 14)%nat -> sinc o = lcon (tk c) (lpc c) + wcon (wpc c) + ms) /\
  ((8 <= lrank (lpc c))%nat -> ms = 0) /\
  ((lrank (lpc c) <= 15)%nat -> subs o = lscon (lpc c) + cs) /\
  ((10 <= lrank (lpc c))%nat -> cs = 0) /\
  match tk c with
  | KSub p => (p < t)%nat /\ wrel (lpc c) (wpc c) /\ (e = Some t <-> (lpc c = LG /\ wpc c = WStarted))
  | _ => wpc c = WNone /\ ksubonly (lpc c) = false
  end /\
  fills o = if Nat.eqb (lrank (lpc c)) 18 then 1%nat else 0%nat.

Definition euok (s : state) (t : nat) : Prop :=
  forall c, eu (obj s t) = Some c -> (c < nt s)%nat /\ tk (ctl s c) = KSub t.

Lemma tinv_c s t : tinv s t -> tinvc t (ctl s t) (obj s t) (msum s t) (csum s t) (eup s (ctl s t)) /\ euok s t.
Proof.
  intros [H1 H2 H3 H4 H5 H6 H7 H8 H9 H10]. split; [|exact H9].
  unfold tinvc, eup.
  refine (conj H1 (conj H2 (conj H3 (conj H4 (conj H5 (conj H6 (conj H7 (conj _ H10)))))))).
  revert H8. destruct (tk (ctl s t)); intro H8; exact H8.
Qed.

Lemma tinv_of_c s t : tinvc t (ctl s t) (obj s t) (msum s t) (csum s t) (eup s (ctl s t)) -> euok s t -> tinv s t.
Proof.
  intros (H1&H2&H3&H4&H5&H6&H7&H8&H10) H9. constructor; auto.
  revert H8. unfold eup. destruct (tk (ctl s t)); intro H8; exact H8.
Qed.

Lemma tinv_frame s s' t : tinv s t ->
  ctl s' t = ctl s t -> obj s' t = obj s t -> msum s' t = msum s t -> csum s' t = csum s t ->
  (forall p, tk (ctl s t) = KSub p ->
     eu (obj s' p) = eu (obj s p) \/ (eu (obj s p) <> Some t /\ eu (obj s' p) <> Some t)) ->
  (forall c, (c < nt s)%nat -> (c < nt s')%nat /\ tk (ctl s' c) = tk (ctl s c)) ->
  tinv s' t.
Proof.
  intros [H1 H2 H3 H4 H5 H6 H7 H8 H9 H10] Hc Ho Hm Hcs He Hn.
  constructor; rewrite ?Hc, ?Ho, ?Hm, ?Hcs; auto.
  - destruct (tk (ctl s t)) eqn:Hk; auto.
    destruct H8 as (Ha&Hb&Hcc). split; [exact Ha|split; [exact Hb|]].
    destruct (He p eq_refl) as [E|[E1 E2]].
    + rewrite E. exact Hcc.
    + split; intro X; [contradiction|]. apply Hcc in X. contradiction.
  - intros c Hcu. destruct (H9 c Hcu) as [A B]. destruct (Hn c A) as [A' B']. split; [exact A'|]. rewrite B'. exact B.
Qed.

(* a live member / an open subteam keeps the team before its waits *)
Lemma live_memb_rank s t k : inv s -> (t < nt s)%nat -> (k < nm s)%nat -> mcon t (mem s k) = 1 ->
  (lrank (lpc (ctl s t)) <= 7)%nat.
Proof.
  intros Hi Ht Hk Hm. pose proof (ti_nomemb _ _ (i_team _ Hi t Ht)) as Hn.
  pose proof (msum_ge s t k Hk). lia.
Qed.

Lemma open_sub_rank s p c : inv s -> (p < nt s)%nat -> (c < nt s)%nat -> ccon p (ctl s c) = 1 ->
  (lrank (lpc (ctl s p)) <= 9)%nat.
Proof.
  intros Hi Hp Hc Hm. pose proof (ti_nosub _ _ (i_team _ Hi p Hp)) as Hn.
  pose proof (csum_ge s p c Hc). lia.
Qed.

(* ---------- shape A: one team's ctl and obj change, contributions to other teams unchanged ---------- *)
Lemma shapeA s s' t c' o' : inv s -> (t < nt s)%nat ->
  nt s' = nt s -> nm s' = nm s -> mem s' = mem s ->
  (forall j, ctl s' j = if Nat.eqb j t then c' else ctl s j) ->
  (forall j, obj s' j = if Nat.eqb j t then o' else obj s j) ->
  uaf s' = false ->
  tk c' = tk (ctl s t) ->
  (forall p, tk (ctl s t) = KSub p -> Nat.leb (lrank (lpc c')) 13 = Nat.leb (lrank (lpc (ctl s t))) 13) ->
  eu o' = eu (obj s t) ->
  tinvc t c' o' (msum s t) (csum s t) (eup s c') -> inv s'.
Proof.
  intros Hi Ht Hnt Hnm Hmem Hctl Hobj Hu Hk Hr He Hloc.
  assert (Hms : forall x, msum s' x = msum s x) by (intro; unfold msum; rewrite Hnm, Hmem; reflexivity).
  assert (Hcs : forall x, csum s' x = csum s x).
  { intro x. apply csum_same; [exact Hnt|]. intros j Hj. rewrite Hctl.
    destruct (Nat.eqb_spec j t); [subst j|reflexivity].
    unfold ccon. rewrite Hk. destruct (tk (ctl s t)) eqn:Hkk; [reflexivity|reflexivity|rewrite (Hr _ eq_refl); reflexivity]. }
  assert (Heu : forall j, eu (obj s' j) = eu (obj s j)).
  { intro j. rewrite Hobj. destruct (Nat.eqb_spec j t); [subst j; exact He|reflexivity]. }
  assert (Htk : forall j, tk (ctl s' j) = tk (ctl s j)).
  { intro j. rewrite Hctl. destruct (Nat.eqb_spec j t); [subst j; exact Hk|reflexivity]. }
  constructor.
  - intros x Hx. rewrite Hnt in Hx. destruct (Nat.eq_dec x t) as [->|Hne].
    + pose proof (Hctl t) as E; rewrite Nat.eqb_refl in E.
      pose proof (Hobj t) as E'; rewrite Nat.eqb_refl in E'.
      apply tinv_of_c.
      * rewrite Hms, Hcs, E, E'.
        replace (eup s' c') with (eup s c'); [exact Hloc|].
        unfold eup. destruct (tk c'); auto.
      * intros c Hc. rewrite Heu in Hc.
        destruct (tinv_c _ _ (i_team _ Hi t Ht)) as [_ Hok]. destruct (Hok c Hc) as [A B].
        rewrite Hnt, Htk. split; assumption.
    + apply (tinv_frame s s' x); auto.
      * apply (i_team _ Hi); exact Hx.
      * rewrite Hctl. destruct (Nat.eqb_spec x t); [contradiction|reflexivity].
      * rewrite Hobj. destruct (Nat.eqb_spec x t); [contradiction|reflexivity].
      * intros c Hc. rewrite Hnt, Htk. split; [exact Hc|reflexivity].
  - intros k x Hk' Hm. rewrite Hnt. rewrite Hnm in Hk'. rewrite Hmem in Hm. exact (i_memb _ Hi k x Hk' Hm).
  - exact Hu.
Qed.
