(* C04 progress (extension M), proofs part 9: the unconditional no-stranded-task theorems and the COMPLETION theorem *)
From Coq Require Import List Bool Arith NArith ZArith Lia.
From QV Require Import Kernel.GenSpawnTable Kernel.Placement Kernel.ProofsPlacement Kernel.Model Kernel.ProofsKernel
     Kernel.ProofsC07 Kernel.ProofsPin Kernel.Progress Kernel.ProgressInv Kernel.ProgressProofs Kernel.ProgressMeasure
     Kernel.ProgressEnabled Kernel.ProgressQueue Kernel.ProgressQueue2 Kernel.ProgressStep Kernel.ProgressInv2 Kernel.ProgressCinv
     Kernel.ProgressBusy Kernel.ProgressMainNT.
From QV Require TQueue.Model TQueue.Proofs TQueue.Proofs2.
Import ListNotations.

Local Notation getq := TQueue.Model.getq.
Local Notation items := TQueue.Model.items.
Local Notation queues := TQueue.Model.queues.
Local Notation nsheps := TQueue.Model.nsheps.
Local Notation stl := TQueue.Model.stl.
Local Notation tid := TQueue.Model.tid.
Local Notation cnt := TQueue.Proofs.cnt.
Local Notation cntq := TQueue.Proofs.cntq.

Lemma cnt_le_cntq t ss i : cnt t (items (getq ss i)) <= cntq t (queues ss).
Proof.
  unfold TQueue.Model.getq. generalize (queues ss). intros qs. revert i.
  induction qs as [|q r IH]; intros i; [destruct i; cbn; lia|].
  destruct i; cbn [nth TQueue.Proofs.cntq]; [lia|]. specialize (IH i). lia.
Qed.

Lemma nodup_of_cnt l : (forall t, cnt t l <= 1) -> NoDup (map ntid l).
Proof.
  induction l as [|n r IH]; intros H; [constructor|]. cbn [map]. constructor.
  - intros X. apply in_map_iff in X. destruct X as (m & E & Hm).
    assert (T : tid m = tid n) by (rewrite !tid_ntid, E; reflexivity).
    pose proof (cnt_in _ _ _ Hm T) as L. specialize (H (tid n)). cbn [TQueue.Proofs.cnt] in H. rewrite N.eqb_refl in H. lia.
  - apply IH. intros t. specialize (H t). cbn [TQueue.Proofs.cnt] in H. lia.
Qed.

Lemma queue_nodup c i : cinv c -> NoDup (map ntid (items (getq c.(cs) i))).
Proof.
  intros (_ & _ & (_ & _ & _ & _ & Q) & _). apply nodup_of_cnt. intros t.
  pose proof (cnt_le_cntq t (cs c) i) as L. specialize (Q (N.to_nat t)). rewrite N2Nat.id in Q.
  rewrite Q in L. unfold inq in L. destruct (place_of _ _) as [[]|]; lia.
Qed.

(* the McCoy node only ever sits in the queue of shepherd 0 *)
Lemma mccoy_node_on_0 c i n :
  cinv c -> In n (items (getq c.(cs) i)) -> TQueue.Model.mccoy n = true -> i = 0.
Proof.
  intros ((_ & _ & _ & _ & K) & _ & (_ & _ & _ & A & _) & _) Hin M.
  destruct (A _ _ Hin) as (Mc & from & P & U). rewrite M in Mc. symmetry in Mc. apply Nat.eqb_eq in Mc.
  destruct (K _ _ (place_of_in _ _ _ P)) as (x & G & C). unfold cons_ok in C.
  destruct C as (_ & _ & _ & C0 & _ & Cb & _ & Cq). destruct (C0 Mc) as (_ & _ & Un). rewrite Un in Cb. cbn in Cb.
  rewrite <- (U Cb). apply Cq. exact Mc.
Qed.

(* ENABLED_IF_WORK, unconditional (the simulation relation is an invariant: Qrel_cstep) *)
Theorem enabled_if_work_own_u c s w :
  cinv c -> idle c.(ck) s w = true -> s < c.(ck).(nsh) -> w < c.(ck).(nwk) ->
  items (getq c.(cs) s) <> [] ->
  (forall n, items (getq c.(cs) s) = [n] -> TQueue.Model.mccoy n = true -> w = 0) ->
  exists c', cstep c (EPop s w) = Some c'.
Proof.
  intros I Id Ls Lw NE Only. pose proof I as (KI & _ & (_ & _ & _ & A & _) & _).
  apply enabled_if_work_own_l; auto.
  - apply queue_nodup. exact I.
  - intros n E M. assert (Hin : In n (items (getq (cs c) s))) by (rewrite E; left; reflexivity).
    rewrite (mccoy_node_on_0 _ _ _ I Hin M), (Only n E M). reflexivity.
Qed.

Theorem enabled_if_work_steal_u c s w v :
  cinv c -> idle c.(ck) s w = true -> s < c.(ck).(nsh) -> w < c.(ck).(nwk) -> v < c.(ck).(nsh) -> v <> s ->
  items (getq c.(cs) s) = [] ->
  0 < TQueue.Model.count_stl (items (getq c.(cs) v)) ->
  exists c' n, cstep c (ESteal s w v) = Some c' /\ stl n = true /\ In n (items (getq c.(cs) v)) /\
               place_of (ntid n) c'.(ck).(places) = Some (Held s w false).
Proof.
  intros I Id Ls Lw Lv Ne Emp Pos. pose proof I as (KI & Ac & (_ & E & Ch & A & _) & _).
  apply enabled_if_work_steal_l; auto. apply TQueue.Proofs.exact_getq. exact E.
Qed.

Theorem enabled_if_work_pop_u c s w n q' :
  cinv c -> idle c.(ck) s w = true -> s < c.(ck).(nsh) -> w < c.(ck).(nwk) ->
  TQueue.Model.dequeue_worker (getq c.(cs) s) (packed c.(ck) s w) = (Some n, q') ->
  exists c', cstep c (EPop s w) = Some c' /\ place_of (ntid n) c'.(ck).(places) = Some (Held s w false) /\
             c'.(cs) = TQueue.Model.setq c.(cs) s q' /\ c'.(cprog) = c.(cprog).
Proof.
  intros I Id Ls Lw D. pose proof I as (KI & _ & (_ & _ & _ & A & _) & _).
  set (q := getq (cs c) s) in *. set (wp := packed (ck c) s w) in *.
  assert (Hin : In n (items q) /\ (TQueue.Model.mccoy n = true -> wp = 0)).
  { destruct (TQueue.Proofs.dequeue_worker_cases q wp) as [E|[(l & n0 & Ei & Hm & E)|(l & m & n0 & Ei & Hm & Hw & E)]];
      rewrite E in D; inversion D; subst.
    - split; [rewrite Ei; apply in_or_app; right; left; reflexivity|]. intros M. destruct Hm as [Hm|Hm]; [congruence|exact Hm].
    - assert (I1 : In n (items q)) by (rewrite Ei; apply in_or_app; right; left; reflexivity).
      assert (I2 : In n0 (items q)) by (rewrite Ei; apply in_or_app; right; right; left; reflexivity).
      split; [exact I1|]. intros M. exfalso.
      assert (A1 : ntid n = 0). { destruct (A _ _ I1) as (X & _). rewrite M in X. symmetry in X. apply Nat.eqb_eq in X. exact X. }
      assert (A2 : ntid n0 = 0). { destruct (A _ _ I2) as (X & _). rewrite Hm in X. symmetry in X. apply Nat.eqb_eq in X. exact X. }
      pose proof (queue_nodup c s I) as ND. fold q in ND. rewrite Ei, map_app in ND. cbn [map] in ND.
      apply NoDup_remove_2 in ND. apply ND. apply in_or_app. right. left. congruence. }
  destruct Hin as [Hin Mc]. apply enabled_if_work_pop_l; auto.
Qed.

(* ---------------------------------------------------------------- quiescence *)
(* no event of the runtime itself (scheduler, dispatch, body, post-switch of any worker) is enabled *)
Definition stuck (c : cstate) : Prop := forall e, internal e = true -> cstep c e = None.
(* BLOCKED_EVENTUALLY_RELEASED, as a property of the last state of an execution: no task is left on a waiter list, on an
   unsatisfied precondition or in the blocking subsystem - except the main task in its final wait *)
Definition released (c : cstate) : Prop :=
  forall t l, place_of t c.(ck).(places) = Some l -> l = Blocked \/ l = Nascent \/ l = InSyscall ->
              t = 0 /\ has_prog 0 c.(cprog) = false.
(* the execution cannot be extended by ANY event, the environment's releases included *)
Definition quiescent (c : cstate) : Prop := forall e, cstep c e = None.

(* the environment offers the release of every waiting task at any time (env_enabled): a state that no event extends has
   no waiting task *)
Lemma quiescent_stuck_released c : cinv c -> quiescent c -> stuck c /\ released c.
Proof.
  intros I Q. split; [intros e _; apply Q|]. intros t l P L.
  destruct (Nat.eq_dec t 0) as [->|Ne].
  - destruct (has_prog 0 (cprog c)) eqn:HP; [|auto]. exfalso.
    destruct (env_enabled c 0 l I P L (fun _ => HP)) as (e & c' & _ & E). rewrite Q in E. discriminate.
  - exfalso. destruct (env_enabled c t l I P L ltac:(intros; contradiction)) as (e & c' & _ & E). rewrite Q in E. discriminate.
Qed.

Lemma all_idle c : cinv c -> stuck c -> forall s w, worker_ref s w c.(ck).(places) = None.
Proof.
  intros I S s w. destruct (worker_ref s w (places (ck c))) as [[t l]|] eqn:W; [|reflexivity]. exfalso.
  destruct (busy_worker_can_step _ _ _ _ _ I W) as (e & c' & Ie & E). rewrite (S e Ie) in E. discriminate.
Qed.

(* at quiescence every reference is in the freed pool, or is the main task's in its final wait *)
Lemma place_at_quiescence c t l :
  cinv c -> stuck c -> released c -> place_of t c.(ck).(places) = Some l ->
  l = Freed \/ (t = 0 /\ l = Blocked /\ has_prog 0 c.(cprog) = false).
Proof.
  intros I S R P. pose proof (all_idle _ I S) as Idle.
  pose proof I as (KI & _ & Q & _). pose proof KI as (_ & Hs & Hw & _ & K).
  destruct l as [q b|s w n|s w| | | |]; auto.
  - (* queued: some worker of that queue's shepherd could pop *)
    exfalso. destruct Q as (Nq & _ & _ & A & Cq). specialize (Cq t). unfold inq in Cq. rewrite P in Cq.
    destruct (cntq_pos (N.of_nat t) (cs c) ltac:(lia)) as (i & n & Li & Hin & _).
    assert (NE : items (getq (cs c) i) <> []) by (intros X; rewrite X in Hin; exact Hin).
    destruct (enabled_if_work_own_u c i 0 I) as (c' & E); auto; try lia.
    + unfold idle. rewrite (Idle i 0). reflexivity.
    + rewrite (S (EPop i 0) eq_refl) in E. discriminate.
  - exfalso. eapply (ref_makes_busy s w); [apply place_of_in; exact P|right; eauto|apply Idle].
  - exfalso. eapply (ref_makes_busy s w); [apply place_of_in; exact P|left; reflexivity|apply Idle].
  - destruct (R _ _ P (or_introl eq_refl)) as [-> HP]. auto.
  - (* InSyscall: only main in its final wait may be left, and that one is Blocked *)
    exfalso. destruct (R _ _ P (or_intror (or_intror eq_refl))) as [-> HP].
    pose proof I as (_ & _ & _ & _ & Mw & _). rewrite (Mw HP) in P. discriminate.
  - (* Nascent: never the main task *)
    exfalso. destruct (R _ _ P (or_intror (or_introl eq_refl))) as [-> _].
    destruct (K _ _ (place_of_in _ _ _ P)) as (x & _ & C). unfold cons_ok in C. destruct C as (_ & _ & _ & _ & _ & C). apply C. reflexivity.
Qed.

(* COMPLETION.  In every state of the composed system reachable from the initial state of a finite well-formed program, if
   no event of the runtime is enabled (stuck) and every blocked task has been released (released), then every
   successfully spawned task has TERMINATED, was started exactly once, its descriptor is in the freed pool; every ready
   queue is empty with both counters 0; every worker is idle; the main task sits in its final wait. *)
Theorem every_spawn_runs_exactly_once_l ns nw ac chunk prog es c :
  0 < ns -> 0 < nw -> (0 <= chunk)%Z -> wf_prog prog = true ->
  crun (cinit ns nw ac chunk prog) es = Some c -> stuck c -> released c ->
  (forall t, 0 < t -> t < c.(ck).(next) ->
             exists x, get_task t c.(ck).(tasks) = Some x /\ x.(t_state) = TERMINATED /\ x.(t_started) = 1 /\
                       place_of t c.(ck).(places) = Some Freed) /\
  (forall i, items (getq c.(cs) i) = [] /\ TQueue.Model.qlen (getq c.(cs) i) = 0%Z /\ TQueue.Model.qstl (getq c.(cs) i) = 0%Z) /\
  (forall s w, worker_ref s w c.(ck).(places) = None) /\
  place_of 0 c.(ck).(places) = Some Blocked /\
  (exists tr, run (init ns nw ac) tr = Some c.(ck)).
Proof.
  intros Hs Hw Hc W H S R. pose proof (reachable_cinv _ _ _ _ _ _ _ Hs Hw Hc W H) as I.
  destruct (composed_refines_kernel_l _ _ _ _ _ _ _ H) as (tr & Rk).
  pose proof I as (KI & _ & Q & _). pose proof KI as ((ND & Dom) & _ & _ & Hn & K).
  assert (PL : forall t, t < next (ck c) -> exists l, place_of t (places (ck c)) = Some l).
  { intros t Lt. apply Dom in Lt. apply in_map_iff in Lt. destruct Lt as ([k l] & E & Hin). cbn in E; subst k.
    exists l. apply in_place_of; auto. }
  split; [|split; [|split; [|split]]].
  - intros t Pos Lt. destruct (PL t Lt) as (l & P).
    destruct (place_at_quiescence _ _ _ I S R P) as [->|(Z & _)]; [|lia].
    destruct (K _ _ (place_of_in _ _ _ P)) as (x & G & C). exists x. unfold cons_ok in C.
    destruct C as (_ & _ & _ & _ & St). split; [exact G|]. split; [exact St|]. split; [|exact P].
    destruct (runs_once _ _ _ _ _ _ _ Rk G) as (_ & T & _). apply T. exact St.
  - intros i. assert (E : items (getq (cs c) i) = []).
    { destruct (items (getq (cs c) i)) as [|n r] eqn:X; [reflexivity|]. exfalso.
      destruct Q as (_ & _ & _ & A & _). destruct (A i n ltac:(rewrite X; left; reflexivity)) as (_ & from & P & _).
      destruct (place_at_quiescence _ _ _ I S R P) as [X0|(_ & X0 & _)]; discriminate X0. }
    destruct Q as (_ & Ex & _). pose proof (TQueue.Proofs.exact_getq _ i Ex) as [E1 E2]. rewrite E in E1, E2. cbn in E1, E2. auto.
  - apply all_idle; auto.
  - destruct (PL 0 Hn) as (l & P). destruct (place_at_quiescence _ _ _ I S R P) as [->|(_ & -> & _)]; [|exact P].
    exfalso. destruct (K _ _ (place_of_in _ _ _ P)) as (x & G & C). unfold cons_ok in C.
    destruct C as (_ & _ & _ & _ & St).
    (* a freed main task would be TERMINATED: its body never returns (LEnd is refused for the McCoy task) *)
    exact (MainNT_reachable _ _ _ _ _ _ _ Hs Hw H _ G St).
  - exists tr. exact Rk.
Qed.

(* the same for MAXIMAL executions: the environment offers the release of every waiting task at any time, so a state that
   no event at all extends (quiescent) is stuck and released *)
Theorem every_spawn_runs_exactly_once_quiescent_l ns nw ac chunk prog es c :
  0 < ns -> 0 < nw -> (0 <= chunk)%Z -> wf_prog prog = true ->
  crun (cinit ns nw ac chunk prog) es = Some c -> quiescent c ->
  (forall t, 0 < t -> t < c.(ck).(next) ->
             exists x, get_task t c.(ck).(tasks) = Some x /\ x.(t_state) = TERMINATED /\ x.(t_started) = 1 /\
                       place_of t c.(ck).(places) = Some Freed) /\
  (forall i, items (getq c.(cs) i) = [] /\ TQueue.Model.qlen (getq c.(cs) i) = 0%Z /\ TQueue.Model.qstl (getq c.(cs) i) = 0%Z) /\
  (forall s w, worker_ref s w c.(ck).(places) = None) /\
  place_of 0 c.(ck).(places) = Some Blocked /\
  (exists tr, run (init ns nw ac) tr = Some c.(ck)).
Proof.
  intros Hs Hw Hc W H Q. pose proof (reachable_cinv _ _ _ _ _ _ _ Hs Hw Hc W H) as I.
  destruct (quiescent_stuck_released _ I Q) as [S R]. eapply every_spawn_runs_exactly_once_l; eauto.
Qed.
