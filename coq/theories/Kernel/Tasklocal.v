(* C09, task-local storage: executable model of qthread_get_tasklocal / qthread_size_tasklocal /
   qthread_thread_new (argument copy placement) / qthread_thread_free (blob release) of src/qthread.c.

   Descriptor data area  t->data[] :
      QTHREAD_BIG_STRUCT   : [ argcopy : AC bytes ][ tasklocal : TL bytes | blob pointer ]     (AC+TL bytes allocated)
      otherwise            : [ tasklocal : TL bytes | blob pointer ] (+ sizeof(void* ) slack)   (PTR+TL bytes allocated)
   AC = qlib->qthread_argcopy_size, TL = qlib->qthread_tasklocal_size, rdata->tasklocal_size = 0 means "in place".
   Sizes are only compared by the code (no arithmetic), so they are [nat]; bytes are [N].
   Definitions only (proofs: TasklocalProofs.v). *)
From Coq Require Import List NArith Bool Arith.
Import ListNotations.

Definition byte := N.
Definition PTR : nat := 8.

Record cfg := mkcfg { AC : nat; TL : nat }.

(* where the task's argument lives *)
Inductive argloc := ArgPtr | ArgInDesc (n : nat) | ArgHeap (b : N) (n : nat).

Record task := mktask {
  t_big  : bool;            (* QTHREAD_BIG_STRUCT *)
  t_arg  : argloc;
  t_data : list byte;       (* data[] *)
  t_tlsz : nat;             (* rdata->tasklocal_size *)
  t_slot : option N         (* *data_blob once tasklocal_size > 0 : the blob's identity *)
}.

Record st := mkst {
  s_tasks : list (N * task);
  s_heap  : list (N * list byte);   (* malloc'ed blocks: blobs and heap argument copies *)
  s_next  : N                       (* next fresh block identity *)
}.

Definition init : st := mkst [] [] 1%N.

(* ---- association lists keyed by N ---- *)
Fixpoint aget {A} (l : list (N * A)) (k : N) : option A :=
  match l with [] => None | (k', v) :: r => if N.eqb k' k then Some v else aget r k end.
Fixpoint aset {A} (l : list (N * A)) (k : N) (v : A) : list (N * A) :=
  match l with
  | [] => [(k, v)]
  | (k', w) :: r => if N.eqb k' k then (k', v) :: r else (k', w) :: aset r k v
  end.
Fixpoint adel {A} (l : list (N * A)) (k : N) : list (N * A) :=
  match l with
  | [] => []
  | (k', w) :: r => if N.eqb k' k then adel r k else (k', w) :: adel r k
  end.

(* ---- byte ranges ---- *)
Definition slice (l : list byte) (off len : nat) : list byte := firstn len (skipn off l).
Definition upd_range (l : list byte) (off : nat) (bs : list byte) : list byte :=
  firstn off l ++ bs ++ skipn (off + length bs) l.
Definition junkbytes (junk : nat -> byte) (from n : nat) : list byte := map junk (seq from n).

(* ---- qthread_thread_new: descriptor kind and argument copy ---- *)
Definition thread_new (c : cfg) (junk : nat -> byte) (s : st) (tid : N) (arg : list byte) : st :=
  let n := length arg in
  if (0 <? n) && (n <=? AC c) then
    (* ALLOC_BIG_QTHREAD; t->arg = &t->data; memcpy(t->arg, arg, arg_size); flags = BIG_STRUCT *)
    let data := arg ++ junkbytes junk n (AC c + TL c - n) in
    mkst (aset (s_tasks s) tid (mktask true (ArgInDesc n) data 0 None)) (s_heap s) (s_next s)
  else if 0 <? n then
    (* ALLOC_QTHREAD; t->arg = MALLOC(arg_size); memcpy; flags = HAS_ARGCOPY *)
    let b := s_next s in
    mkst (aset (s_tasks s) tid (mktask false (ArgHeap b n) (junkbytes junk 0 (PTR + TL c)) 0 None))
         ((b, arg) :: s_heap s) (N.succ b)
  else
    mkst (aset (s_tasks s) tid (mktask false ArgPtr (junkbytes junk 0 (PTR + TL c)) 0 None)) (s_heap s) (s_next s).

Definition tl_off (c : cfg) (t : task) : nat := if t_big t then AC c else 0.

Inductive region := RDesc (tid : N) (off len : nat) | RBlob (b : N) (len : nat).

(* ---- qthread_get_tasklocal(size), branch by branch ---- *)
Definition get_tasklocal (c : cfg) (junk : nat -> byte) (s : st) (tid : N) (size : nat) : option (region * st) :=
  match aget (s_tasks s) tid with
  | None => None                                   (* no current task: returns NULL *)
  | Some t =>
    let off := tl_off c t in
    if (t_tlsz t =? 0) && (size <=? TL c) then
      Some (RDesc tid off (TL c), s)               (* use default space *)
    else if t_tlsz t =? 0 then
      (* tmp = MALLOC(size); memcpy(tmp, data_blob, TL); *data_blob = tmp; tasklocal_size = size *)
      let b := s_next s in
      let bytes := slice (t_data t) off (TL c) ++ junkbytes junk (TL c) (size - TL c) in
      let t' := mktask (t_big t) (t_arg t) (t_data t) size (Some b) in
      Some (RBlob b size, mkst (aset (s_tasks s) tid t') ((b, bytes) :: s_heap s) (N.succ b))
    else if size <=? t_tlsz t then
      match t_slot t with                          (* use the blob, no resize *)
      | Some b => Some (RBlob b (t_tlsz t), s)
      | None => None
      end
    else
      match t_slot t with                          (* *data_blob = qt_realloc( *data_blob, size) *)
      | Some b =>
        match aget (s_heap s) b with
        | Some old =>
          let b' := s_next s in
          let bytes := firstn size old ++ junkbytes junk (length old) (size - length old) in
          let t' := mktask (t_big t) (t_arg t) (t_data t) size (Some b') in
          Some (RBlob b' size, mkst (aset (s_tasks s) tid t') ((b', bytes) :: adel (s_heap s) b) (N.succ b'))
        | None => None
        end
      | None => None
      end
  end.

(* qthread_size_tasklocal() *)
Definition size_tasklocal (c : cfg) (s : st) (tid : N) : option nat :=
  match aget (s_tasks s) tid with
  | None => None
  | Some t => Some (if t_tlsz t =? 0 then TL c else t_tlsz t)
  end.

(* the bytes of the task's current task-local region *)
Definition tl_view (c : cfg) (s : st) (tid : N) : option (list byte) :=
  match aget (s_tasks s) tid with
  | None => None
  | Some t =>
    if t_tlsz t =? 0 then Some (slice (t_data t) (tl_off c t) (TL c))
    else match t_slot t with Some b => aget (s_heap s) b | None => None end
  end.

(* the current region (what the last get_tasklocal returned) *)
Definition tl_region (c : cfg) (s : st) (tid : N) : option region :=
  match aget (s_tasks s) tid with
  | None => None
  | Some t =>
    if t_tlsz t =? 0 then Some (RDesc tid (tl_off c t) (TL c))
    else match t_slot t with Some b => Some (RBlob b (t_tlsz t)) | None => None end
  end.

(* the region of the argument copy, if any *)
Definition arg_region (s : st) (tid : N) : option region :=
  match aget (s_tasks s) tid with
  | Some t => match t_arg t with
              | ArgPtr => None
              | ArgInDesc n => Some (RDesc tid 0 n)
              | ArgHeap b n => Some (RBlob b n)
              end
  | None => None
  end.

(* bytes of the argument copy *)
Definition arg_view (s : st) (tid : N) : option (list byte) :=
  match aget (s_tasks s) tid with
  | Some t => match t_arg t with
              | ArgPtr => None
              | ArgInDesc n => Some (slice (t_data t) 0 n)
              | ArgHeap b n => aget (s_heap s) b
              end
  | None => None
  end.

(* the task stores [bs] at offset [pos] of its current region (None = out of bounds: undefined behaviour) *)
Definition tl_write (c : cfg) (s : st) (tid : N) (pos : nat) (bs : list byte) : option st :=
  match aget (s_tasks s) tid with
  | None => None
  | Some t =>
    if t_tlsz t =? 0 then
      if pos + length bs <=? TL c then
        let t' := mktask (t_big t) (t_arg t) (upd_range (t_data t) (tl_off c t + pos) bs) (t_tlsz t) (t_slot t) in
        Some (mkst (aset (s_tasks s) tid t') (s_heap s) (s_next s))
      else None
    else
      match t_slot t with
      | Some b =>
        match aget (s_heap s) b with
        | Some old => if pos + length bs <=? length old
                      then Some (mkst (s_tasks s) (aset (s_heap s) b (upd_range old pos bs)) (s_next s))
                      else None
        | None => None
        end
      | None => None
      end
  end.

(* qthread_thread_free: release the blob (slot at data[AC] / data[0] by BIG_STRUCT), the heap argument copy, the descriptor *)
Definition thread_free (s : st) (tid : N) : st :=
  match aget (s_tasks s) tid with
  | None => s
  | Some t =>
    let h1 := if t_tlsz t =? 0 then s_heap s
              else match t_slot t with Some b => adel (s_heap s) b | None => s_heap s end in
    let h2 := match t_arg t with ArgHeap b _ => adel h1 b | _ => h1 end in
    mkst (adel (s_tasks s) tid) h2 (s_next s)
  end.

(* ---- op sequences (any interleaving of tasks at op granularity) ---- *)
Inductive top :=
| TSpawn (tid : N) (arg : list byte)
| TGet (tid : N) (size : nat)
| TWrite (tid : N) (pos : nat) (bs : list byte)
| TFree (tid : N).

Definition tstep (c : cfg) (junk : nat -> byte) (s : st) (o : top) : st :=
  match o with
  | TSpawn tid arg => match aget (s_tasks s) tid with None => thread_new c junk s tid arg | Some _ => s end
  | TGet tid size => match get_tasklocal c junk s tid size with Some (_, s') => s' | None => s end
  | TWrite tid pos bs => match tl_write c s tid pos bs with Some s' => s' | None => s end
  | TFree tid => thread_free s tid
  end.

Definition trun (c : cfg) (junk : nat -> byte) (s : st) (ops : list top) : st := fold_left (tstep c junk) ops s.

Definition op_tid (o : top) : N :=
  match o with TSpawn t _ | TGet t _ | TWrite t _ _ | TFree t => t end.

(* pattern bytes used by the correspondence harness: byte i of fill [seed] *)
Definition pattern (seed : N) (i : nat) : byte := N.modulo (seed * 131 + N.of_nat i * 7 + N.of_nat i / 256) 256.
Definition pattern_bytes (seed : N) (n : nat) : list byte := map (pattern seed) (seq 0 n).
