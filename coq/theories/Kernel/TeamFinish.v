(* C05 extension T: team completion at the granularity of src/teams.c.
   A micro-step machine over the operations qt_internal_teamfinish / qt_internal_team_new / qt_internal_subteam_leader /
   qt_team_watcher / the team part of qthread_spawn and the tail of qthread_wrapper perform on a team's two sincs
   (team->sinc: members; team->subteams_sinc: subteams), on the parent's eureka word (watcher shut-down signal), on the
   team structure (FREE_TEAM) and on the founder's return location.  qt_sinc_expect / submit / wait / reset / destroy are
   atomic counter operations (the sinc itself is C10): wait is enabled iff the counter is 0.
   One task = one program counter; a schedule is a list of labels (who steps, and -- while its function runs -- what it
   does: return, spawn a member / a subteam / a new team).  Touching a destroyed sinc or a freed team sets the flag uaf.
   The parameter sw = true swaps the leader's two waits in branch 1.1 (regression: independent change C05-3).
   Definitions only (proofs: TeamFinishProofs*.v).  Extracted: the acceptor of the logged event order of the real code. *)
From Coq Require Import List ZArith Bool Arith.
Import ListNotations.
Local Open Scope Z_scope.

(* which branch of qt_internal_teamfinish the leader takes *)
Inductive tkind :=
| KNew                 (* 1.1   qthread_fork_new_team: parent_id = QTHREAD_NON_TEAM_ID *)
| KSubDef              (* 1.2.1 subteam founded by a task of the default team: no parent sinc, no watcher *)
| KSub (p : nat).      (* 1.2.2 subteam of team p: watcher task, parent_eureka, parent_subteams_sinc *)

(* leader program counter, named after the NEXT operation *)
Inductive lpcT :=
| LNasc    (* descriptor + team built by the spawner, not yet enqueued *)
| LReady   (* enqueued *)
| LWx      (* qt_internal_subteam_leader: qthread_fork(watcher) -> qt_sinc_expect(team->sinc, 1) *)
| LWw      (* qthread_readFF(watcher_started) *)
| LRun     (* the function runs (may spawn); next: it returns *)
| LA       (* qt_sinc_submit(team->sinc) *)
| LA2      (* 1.2.2 only: second qt_sinc_submit(team->sinc) (on the watcher's behalf) *)
| LB       (* qt_sinc_wait(team->sinc) *)
| LC       (* qt_sinc_submit(team->subteams_sinc) *)
| LD       (* qt_sinc_wait(team->subteams_sinc) *)
| LE       (* 1.2.2: qt_sinc_reset(team->sinc, 1) *)
| LF       (* 1.2.2: qthread_writeEF_const(parent_eureka, EXIT(me)) *)
| LG       (* 1.2.2: qt_sinc_wait(team->sinc)  (the watcher's submit) *)
| LH       (* 1.2.2: qt_sinc_submit(parent_subteams_sinc) *)
| LI       (* qt_sinc_destroy(team->sinc) *)
| LJ       (* qt_sinc_destroy(team->subteams_sinc) *)
| LK       (* qthread_fill(&team->eureka); FREE_TEAM(team) *)
| LL       (* qthread_wrapper: deliver the return value *)
| LDone.

Inductive wpcT :=
| WNone | WNasc | WReady
| WStarted   (* filled watcher_started; waits in readFF(parent_eureka) for EXIT(my team) *)
| WGot       (* emptied parent_eureka, function returned; next: qt_sinc_submit(team->sinc) in teamfinish *)
| WDone.

Inductive mpcT :=
| MNasc | MReady
| MRun       (* function runs (may spawn); next: it returns *)
| MRet       (* function returned; next: qt_internal_teamfinish -> qt_sinc_submit(team->sinc) (nothing for the default team) *)
| MSub       (* teamfinish returned; next: deliver the return value *)
| MDone.

Record tctl := mkctl { tk : tkind; lpc : lpcT; wpc : wpcT }.
Record tobj := mkobj {
  sinc : Z; sincok : bool;        (* team->sinc counter; false after qt_sinc_destroy *)
  subs : Z; subsok : bool;        (* team->subteams_sinc *)
  freed : bool;                   (* FREE_TEAM done *)
  eu : option nat;                (* team->eureka: None = empty, Some c = full with TEAM_SIGNAL_EXIT(c) *)
  fills : nat                     (* deliveries to the founder's return location *)
}.
Record memb := mkmemb { mteam : option nat; mpc : mpcT }.

Record state := mkst {
  nt : nat; ctl : nat -> tctl; obj : nat -> tobj;
  nm : nat; mem : nat -> memb;
  uaf : bool
}.

Definition fupd {A} (f : nat -> A) (i : nat) (x : A) : nat -> A := fun j => if Nat.eqb j i then x else f j.

Definition ctl0 : tctl := mkctl KNew LDone WNone.
Definition obj0 : tobj := mkobj 0 false 0 false true None 0.
Definition memb0 : memb := mkmemb None MDone.

(* the main task: a running member of the default team *)
Definition init : state := mkst 0 (fun _ => ctl0) (fun _ => obj0) 1 (fun _ => mkmemb None MRun) false.

Inductive actor := Lead (t : nat) | Watch (t : nat) | Memb (k : nat).
Inductive act :=
| AStep       (* the next operation of the actor's program (in Run: the function returns) *)
| ARel        (* the enqueue of a nascent task (by its spawner right away, or when its precondition is satisfied) *)
| ASpawnM     (* qthread_spawn, same team:   qt_sinc_expect(curr_team->sinc, 1); new member *)
| ASpawnS     (* qthread_spawn, NEW_SUBTEAM: qt_internal_team_new(curr_team): qt_sinc_expect(parent_subteams_sinc, 1) *)
| ASpawnT.    (* qthread_spawn, NEW_TEAM *)
Definition label := (actor * act)%type.

(* ---------- object operations; each returns the new object and whether the access was to dead memory ---------- *)
Definition set_sinc (o : tobj) (v : Z) : tobj := mkobj v (sincok o) (subs o) (subsok o) (freed o) (eu o) (fills o).
Definition set_subs (o : tobj) (v : Z) : tobj := mkobj (sinc o) (sincok o) v (subsok o) (freed o) (eu o) (fills o).
Definition set_eu (o : tobj) (e : option nat) : tobj := mkobj (sinc o) (sincok o) (subs o) (subsok o) (freed o) e (fills o).
Definition sinc_dead (o : tobj) : bool := freed o || negb (sincok o).     (* reached through team->sinc *)
Definition subs_dead (o : tobj) : bool := freed o || negb (subsok o).     (* reached through team->subteams_sinc *)

Definition set_ctl (s : state) (t : nat) (c : tctl) : state := mkst (nt s) (fupd (ctl s) t c) (obj s) (nm s) (mem s) (uaf s).
Definition set_obj (s : state) (t : nat) (o : tobj) (bad : bool) : state :=
  mkst (nt s) (ctl s) (fupd (obj s) t o) (nm s) (mem s) (uaf s || bad).
Definition set_mem (s : state) (k : nat) (m : memb) : state := mkst (nt s) (ctl s) (obj s) (nm s) (fupd (mem s) k m) (uaf s).
Definition set_lpc (s : state) (t : nat) (p : lpcT) : state := let c := ctl s t in set_ctl s t (mkctl (tk c) p (wpc c)).
Definition set_wpc (s : state) (t : nat) (p : wpcT) : state := let c := ctl s t in set_ctl s t (mkctl (tk c) (lpc c) p).
Definition set_mpc (s : state) (k : nat) (p : mpcT) : state := set_mem s k (mkmemb (mteam (mem s k)) p).

Definition new_team (s : state) (k : tkind) : state :=
  (* qt_internal_team_new: both sincs created with expect 1, eureka emptied *)
  mkst (S (nt s)) (fupd (ctl s) (nt s) (mkctl k LNasc WNone)) (fupd (obj s) (nt s) (mkobj 1 true 1 true false None 0))
       (nm s) (mem s) (uaf s).
Definition new_memb (s : state) (t : option nat) : state :=
  mkst (nt s) (ctl s) (obj s) (S (nm s)) (fupd (mem s) (nm s) (mkmemb t MNasc)) (uaf s).

(* spawns issued by a task whose current team is cur *)
Definition do_spawn (s : state) (cur : option nat) (a : act) : option state :=
  match a, cur with
  | ASpawnM, Some t => let o := obj s t in Some (new_memb (set_obj s t (set_sinc o (sinc o + 1)) (sinc_dead o)) (Some t))
  | ASpawnM, None => Some (new_memb s None)
  | ASpawnS, Some t => let o := obj s t in Some (new_team (set_obj s t (set_subs o (subs o + 1)) (subs_dead o)) (KSub t))
  | ASpawnS, None => Some (new_team s KSubDef)
  | ASpawnT, _ => Some (new_team s KNew)
  | _, _ => None
  end.

Definition is_knew (k : tkind) : bool := match k with KNew => true | _ => false end.
Definition is_ksub (k : tkind) : bool := match k with KSub _ => true | _ => false end.

(* the leader's program: successor of each operation, per branch; sw swaps the two waits of branch 1.1 *)
Definition lnext (sw : bool) (k : tkind) (p : lpcT) : lpcT :=
  match p with
  | LNasc => LReady
  | LReady => if is_ksub k then LWx else LRun
  | LWx => LWw
  | LWw => LRun
  | LRun => if sw && is_knew k then LC else LA
  | LA => if is_ksub k then LA2 else LB
  | LA2 => LB
  | LB => if sw && is_knew k then LI else LC
  | LC => LD
  | LD => if sw && is_knew k then LA else if is_ksub k then LE else LI
  | LE => LF | LF => LG | LG => LH | LH => LI | LI => LJ | LJ => LK | LK => LL | LL => LDone
  | LDone => LDone
  end.

Definition lead_step (sw : bool) (s : state) (t : nat) : option state :=
  let c := ctl s t in let o := obj s t in
  let go (s' : state) := Some (set_lpc s' t (lnext sw (tk c) (lpc c))) in
  match lpc c with
  | LNasc => None                         (* only ARel *)
  | LReady => go s
  | LWx => go (set_wpc (set_obj s t (set_sinc o (sinc o + 1)) (sinc_dead o)) t WNasc)
  | LWw => match wpc c with WStarted | WGot | WDone => go s | _ => None end
  | LRun => go s
  | LA | LA2 => go (set_obj s t (set_sinc o (sinc o - 1)) (sinc_dead o))
  | LB | LG => if sinc o =? 0 then go (set_obj s t o (sinc_dead o)) else None
  | LC => go (set_obj s t (set_subs o (subs o - 1)) (subs_dead o))
  | LD => if subs o =? 0 then go (set_obj s t o (subs_dead o)) else None
  | LE => go (set_obj s t (set_sinc o 1) (sinc_dead o))
  | LF => match tk c with
          | KSub p => let op := obj s p in
                      match eu op with
                      | None => go (set_obj s p (set_eu op (Some t)) (freed op))
                      | Some _ => None          (* writeEF waits while the word is full *)
                      end
          | _ => None
          end
  | LH => match tk c with
          | KSub p => let op := obj s p in go (set_obj s p (set_subs op (subs op - 1)) (negb (subsok op)))
          | _ => None
          end
  | LI => go (set_obj s t (mkobj (sinc o) false (subs o) (subsok o) (freed o) (eu o) (fills o)) (sinc_dead o))
  | LJ => go (set_obj s t (mkobj (sinc o) (sincok o) (subs o) false (freed o) (eu o) (fills o)) (subs_dead o))
  | LK => go (set_obj s t (mkobj (sinc o) (sincok o) (subs o) (subsok o) true (eu o) (fills o)) (freed o))
  | LL => go (set_obj s t (mkobj (sinc o) (sincok o) (subs o) (subsok o) (freed o) (eu o) (S (fills o))) false)
  | LDone => None
  end.

Definition watch_step (s : state) (t : nat) : option state :=
  let c := ctl s t in let o := obj s t in
  match wpc c with
  | WReady => Some (set_wpc (set_obj s t o (freed o)) t WStarted)            (* qthread_fill(&team->watcher_started) *)
  | WStarted => match tk c with
                | KSub p => let op := obj s p in
                            match eu op with
                            | Some c' => if Nat.eqb c' t then Some (set_wpc (set_obj s p (set_eu op None) (freed op)) t WGot) else None
                            | None => None
                            end
                | _ => None
                end
  | WGot => Some (set_wpc (set_obj s t (set_sinc o (sinc o - 1)) (sinc_dead o)) t WDone)
  | _ => None
  end.

Definition memb_step (s : state) (k : nat) : option state :=
  let m := mem s k in
  match mpc m with
  | MNasc => None
  | MReady => Some (set_mpc s k MRun)
  | MRun => Some (set_mpc s k MRet)
  | MRet => match mteam m with
            | Some t => let o := obj s t in Some (set_mpc (set_obj s t (set_sinc o (sinc o - 1)) (sinc_dead o)) k MSub)
            | None => Some (set_mpc s k MSub)
            end
  | MSub => Some (set_mpc s k MDone)
  | MDone => None
  end.

Definition step (sw : bool) (s : state) (l : label) : option state :=
  match l with
  | (Lead t, a) =>
    if Nat.ltb t (nt s) then
      match a with
      | AStep => lead_step sw s t
      | ARel => match lpc (ctl s t) with LNasc => Some (set_lpc s t LReady) | _ => None end
      | _ => match lpc (ctl s t) with LRun => do_spawn s (Some t) a | _ => None end
      end
    else None
  | (Watch t, a) =>
    if Nat.ltb t (nt s) then
      match a with
      | AStep => watch_step s t
      | ARel => match wpc (ctl s t) with WNasc => Some (set_wpc s t WReady) | _ => None end
      | _ => None
      end
    else None
  | (Memb k, a) =>
    if Nat.ltb k (nm s) then
      match a with
      | AStep => memb_step s k
      | ARel => match mpc (mem s k) with MNasc => Some (set_mpc s k MReady) | _ => None end
      | _ => match mpc (mem s k) with MRun => do_spawn s (mteam (mem s k)) a | _ => None end
      end
    else None
  end.

(* a schedule; labels that are not enabled are skipped (the actor waits / it is not its turn) *)
Fixpoint run (sw : bool) (s : state) (tr : list label) : state :=
  match tr with
  | [] => s
  | l :: r => match step sw s l with Some s' => run sw s' r | None => run sw s r end
  end.

(* the acceptor: every label must be enabled; returns the index of the first refused label *)
Fixpoint accept (sw : bool) (s : state) (tr : list label) (i : nat) : state * option nat :=
  match tr with
  | [] => (s, None)
  | l :: r => match step sw s l with Some s' => accept sw s' r (S i) | None => (s, Some i) end
  end.

(* ---------- observations ---------- *)
Definition lead_done (c : tctl) : bool := match lpc c with LDone => true | _ => false end.
Definition memb_fin (m : memb) : bool := match mpc m with MRet | MSub | MDone => true | _ => false end.   (* function returned *)
Definition memb_done (m : memb) : bool := match mpc m with MDone => true | _ => false end.
Definition watch_idle (c : tctl) : bool := match wpc c with WNone | WDone => true | _ => false end.

Fixpoint alln (n : nat) (p : nat -> bool) : bool := match n with O => true | S k => p k && alln k p end.
Definition all_done (s : state) : bool :=
  alln (nt s) (fun t => lead_done (ctl s t) && watch_idle (ctl s t)) && alln (nm s) (fun k => memb_done (mem s k)).
