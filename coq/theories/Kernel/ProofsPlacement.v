(* C07: theorems about the pure placement kernels of Kernel/Placement.v *)
From Coq Require Import List Bool Arith Lia.
From QV Require Import Kernel.Placement.
Import ListNotations.

(* ---------------------------------------------------------------- qthread_find_active_shepherd *)
Lemma skip_inactive_spec l act x r :
  skip_inactive l act = x :: r -> act x = true /\ In x l /\ (forall y, In y r -> In y l).
Proof.
  induction l as [|a l IH]; cbn; intros H; [discriminate|].
  destruct (act a) eqn:E.
  - inversion H; subst. repeat split; auto with datatypes.
  - destruct (IH H) as (A & B & C). repeat split; auto.
Qed.

Lemma skip_inactive_nonempty l act :
  (exists x, In x l /\ act x = true) -> skip_inactive l act <> [].
Proof.
  induction l as [|a l IH]; cbn; intros (x & Hin & Hx); [contradiction|].
  destruct (act a) eqn:E; [discriminate|].
  destruct Hin as [->|Hin]; [congruence|]. apply IH; eauto.
Qed.

Ltac case_ifs :=
  repeat match goal with
         | |- context [match ?c with _ => _ end] => destruct c eqn:?
         end.

Lemma scan_active rest d qlen act dist : forall best busy coins,
  act best = true -> act (scan rest d qlen act dist best busy coins) = true.
Proof.
  induction rest as [|a r IH]; cbn; intros best busy coins Hb; auto.
  case_ifs; auto; apply IH; auto; now apply negb_false_iff.
Qed.

Lemma scan_in rest d qlen act dist : forall best busy coins,
  scan rest d qlen act dist best busy coins = best \/ In (scan rest d qlen act dist best busy coins) rest.
Proof.
  induction rest as [|a r IH]; cbn; intros best busy coins; auto.
  case_ifs; auto;
    match goal with
    | |- context [scan r d qlen act dist ?b ?u ?c] => destruct (IH b u c) as [->|]; auto
    end.
Qed.

(* the shepherd a re-routed task is sent to is active (code after c719d4a), for every list, distance table, queue
   lengths and coin sequence *)
Theorem fas_active l d act qlen coins r :
  fas l d act qlen coins = Some r -> act r = true.
Proof.
  unfold fas. destruct (skip_inactive l act) as [|x rest] eqn:E; [discriminate|].
  intros H; inversion H; subst. apply scan_active. apply (skip_inactive_spec _ _ _ _ E).
Qed.

Theorem fas_in_list l d act qlen coins r :
  fas l d act qlen coins = Some r -> In r l.
Proof.
  unfold fas. destruct (skip_inactive l act) as [|x rest] eqn:E; [discriminate|].
  intros H; inversion H; subst. destruct (skip_inactive_spec _ _ _ _ E) as (_ & Hx & Hr).
  destruct (scan_in rest d qlen act (d x) x (qlen x) coins) as [->|Hin]; auto.
Qed.

(* ... and one is found whenever the list contains an active shepherd *)
Theorem fas_some l d act qlen coins :
  (exists x, In x l /\ act x = true) -> exists r, fas l d act qlen coins = Some r /\ act r = true /\ In r l.
Proof.
  intros H. pose proof (skip_inactive_nonempty _ _ H) as Hne. unfold fas.
  destruct (skip_inactive l act) as [|x rest] eqn:E; [congruence|].
  eexists; split; [reflexivity|]. split.
  - apply (fas_active l d act qlen coins). unfold fas. rewrite E. reflexivity.
  - apply (fas_in_list l d act qlen coins). unfold fas. rewrite E. reflexivity.
Qed.

(* shepherd 0 can never be disabled and is in every other shepherd's list: a disabled shepherd always finds a new home *)
Corollary fas_from_disabled_shepherd l d act qlen coins :
  In 0 l -> act 0 = true -> exists r, fas l d act qlen coins = Some r /\ act r = true.
Proof. intros H0 Ha. destruct (fas_some l d act qlen coins) as (r & A & B & _); eauto. Qed.

(* the code before c719d4a violates fas_active: regression witness (corpus/C07/fas_inactive_alternate.json) *)
Theorem fas_prefix_refuted :
  exists l d act qlen coins r,
    fas_prefix l d act qlen coins = Some r /\ act r = false /\ (exists x, In x l /\ act x = true).
Proof.
  exists [0; 2], (fun _ => 10), (fun i => i =? 0), (fun i => if i =? 0 then 1 else 0), [true], 2.
  repeat split; try reflexivity. exists 0; split; [left; reflexivity|reflexivity].
Qed.

Example fas_witness_now_active :
  fas [0; 2] (fun _ => 10) (fun i => i =? 0) (fun i => if i =? 0 then 1 else 0) [true] = Some 0.
Proof. reflexivity. Qed.

(* l == NULL branch *)
Lemma scan_all_active ids act qlen : forall cur coins r,
  (forall tg b, cur = Some (tg, b) -> act tg = true) ->
  scan_all ids act qlen cur coins = Some r -> act r = true.
Proof.
  induction ids as [|i ids IH]; cbn; intros cur coins r Hc H.
  - destruct cur as [[tg b]|]; cbn in H; [inversion H; subst; eauto|discriminate].
  - destruct (act i) eqn:Ei; [|eauto].
    assert (Hi : forall tg b, Some (i, qlen i) = Some (tg, b) -> act tg = true) by (intros ? ? X; inversion X; subst; auto).
    revert H. case_ifs; intros H; refine (IH _ _ _ _ H); subst; auto.
Qed.

Lemma scan_all_some ids act qlen : forall cur coins,
  (cur <> None \/ exists i, In i ids /\ act i = true) -> scan_all ids act qlen cur coins <> None.
Proof.
  induction ids as [|i ids IH]; cbn; intros cur coins H.
  - destruct H as [H|(i & [] & _)]. destruct cur; cbn; congruence.
  - destruct (act i) eqn:Ei.
    + case_ifs; apply IH; left; congruence.
    + apply IH. destruct H as [H|(j & [->|Hj] & Aj)]; [auto|congruence|right; eauto].
Qed.

Theorem fas_nolist_active n act qlen coins r :
  fas_nolist n act qlen coins = Some r -> act r = true.
Proof. apply scan_all_active. intros; discriminate. Qed.

Theorem fas_nolist_some n act qlen coins :
  (exists i, i < n /\ act i = true) -> exists r, fas_nolist n act qlen coins = Some r /\ act r = true.
Proof.
  intros (i & Hi & Ai).
  destruct (fas_nolist n act qlen coins) as [r|] eqn:E.
  - exists r; split; auto. eapply fas_nolist_active; eauto.
  - exfalso. revert E. apply scan_all_some. right. exists i; split; auto. apply in_seq; lia.
Qed.

(* ---------------------------------------------------------------- the dispatch guard of qthread_master *)
(* with reads that return the current flags: a pinned task whose home is enabled is only executed at home *)
Theorem dispatch_exec_home me h (act : nat -> bool) :
  dispatch me (Some h) (act h) (act me) = DExec -> act h = true -> me = h.
Proof.
  unfold dispatch. intros H Hh. rewrite Hh in H. destruct (h =? me) eqn:E.
  - symmetry; apply Nat.eqb_eq; auto.
  - cbn in H. discriminate.
Qed.

(* a disabled shepherd executes nothing *)
Theorem dispatch_disabled_no_exec me tg at_ :
  dispatch me tg at_ false <> DExec.
Proof. unfold dispatch. destruct tg as [h|]; cbn; [destruct (negb (h =? me) && at_)|]; discriminate. Qed.

(* an enabled shepherd executes whatever is not pinned to another enabled shepherd *)
Theorem dispatch_enabled_exec me tg at_ :
  (match tg with Some h => h = me \/ at_ = false | None => True end) -> dispatch me tg at_ true = DExec.
Proof.
  unfold dispatch. destruct tg as [h|]; cbn; auto. intros [Hm|Ha]; subst.
  - rewrite Nat.eqb_refl. reflexivity.
  - rewrite andb_false_r. reflexivity.
Qed.

Theorem dispatch_sendhome_is_target me tg at_ am h :
  dispatch me tg at_ am = DSendHome h -> tg = Some h /\ h <> me /\ at_ = true.
Proof.
  unfold dispatch. destruct tg as [x|]; [|destruct (negb am); discriminate].
  destruct (x =? me) eqn:E; cbn.
  - destruct (negb am); discriminate.
  - destruct at_; cbn; [|destruct (negb am); discriminate]. intros H; inversion H; subst.
    repeat split; auto. intros ->. rewrite Nat.eqb_refl in E. discriminate.
Qed.

(* ---------------------------------------------------------------- wake-up placement *)
Theorem wake_dest_feb_syncvar_agree unsteal tshep ws : wake_dest 1 unsteal tshep ws = wake_dest 2 unsteal tshep ws.
Proof.
  unfold wake_dest; cbn. destruct unsteal; cbn; auto. destruct (tshep =? ws) eqn:E; cbn; auto.
  apply Nat.eqb_eq in E. auto.
Qed.

Theorem wake_dest_pinned tu tshep ws : wake_dest tu true tshep ws = tshep.
Proof.
  unfold wake_dest. destruct (tu =? 2); auto. cbn. destruct (tshep =? ws) eqn:E; cbn; auto.
  apply Nat.eqb_eq in E. auto.
Qed.

Theorem wake_dest_unpinned tu tshep ws : wake_dest tu false tshep ws = ws.
Proof. unfold wake_dest. destruct (tu =? 2); auto. Qed.

(* ---------------------------------------------------------------- disable / enable *)
Lemma nthb_set_nth l i j b : nthb (set_nth l i b) j = if (i =? j) && (i <? length l) then b else nthb l j.
Proof.
  unfold nthb. revert i j. induction l as [|x l IH]; intros i j; cbn.
  - destruct i; cbn; rewrite ?andb_false_r; destruct j; reflexivity.
  - destruct i as [|i]; destruct j as [|j]; cbn; auto. rewrite IH. reflexivity.
Qed.

Theorem shepherd0_never_disabled nsh act s : nthb (disable_shep nsh act s) 0 = nthb act 0.
Proof.
  unfold disable_shep. destruct ((s =? 0) || negb (s <? nsh)) eqn:E; auto.
  rewrite nthb_set_nth. apply orb_false_iff in E. destruct E as [E _]. destruct s; [discriminate|]. reflexivity.
Qed.

Theorem disable_only_touches_s nsh act s j : j <> s -> nthb (disable_shep nsh act s) j = nthb act j.
Proof.
  intros H. unfold disable_shep. destruct ((s =? 0) || negb (s <? nsh)); auto. rewrite nthb_set_nth.
  destruct (s =? j) eqn:E; auto. apply Nat.eqb_eq in E. congruence.
Qed.

Theorem enable_only_touches_s nsh act s j : j <> s -> nthb (enable_shep nsh act s) j = nthb act j.
Proof.
  intros H. unfold enable_shep. destruct (s <? nsh); auto. rewrite nthb_set_nth.
  destruct (s =? j) eqn:E; auto. apply Nat.eqb_eq in E. congruence.
Qed.

Theorem disable_effective nsh act s : 0 < s -> s < nsh -> s < length act -> nthb (disable_shep nsh act s) s = false.
Proof.
  intros H0 H1 H2. unfold disable_shep.
  assert (E : (s =? 0) || negb (s <? nsh) = false).
  { apply orb_false_iff; split; [apply Nat.eqb_neq; lia|apply negb_false_iff, Nat.ltb_lt; lia]. }
  assert (G : (s <? length act) = true) by (apply Nat.ltb_lt; lia).
  rewrite E, nthb_set_nth, Nat.eqb_refl, G. reflexivity.
Qed.

(* ---------------------------------------------------------------- migrate_to *)
Theorem migrate_mccoy_refused cur h nsh : migrate_case_of true cur h nsh = MNotAllowed.
Proof. reflexivity. Qed.
