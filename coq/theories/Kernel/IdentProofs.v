(* C09, task identity: proofs about Kernel/Ident.v *)
From Coq Require Import List NArith ZArith Bool Lia ZifyBool ZifyNat ZifyN.
From QV Require Import Kernel.Ident.
Import ListNotations.
Local Open Scope N_scope.
Ltac Zify.zify_post_hook ::= Z.div_mod_to_equations.

Ltac unf := cbv [id_alloc fetch_add wrap32 wrap64 M32 M64 NULL_TASK_ID NON_TASK_ID] in *.

(* ---------- id_nonzero: for EVERY counter value ---------- *)
Lemma id_alloc_reserved : forall c, fst (id_alloc c) <> NON_TASK_ID /\ fst (id_alloc c) <> NULL_TASK_ID.
Proof.
  intros c. unf.
  destruct (c mod 4294967296 =? 4294967295) eqn:E1; cbn [fst].
  - apply N.eqb_eq in E1. split; lia.
  - destruct (c mod 4294967296 =? 0) eqn:E2; cbn [fst].
    + apply N.eqb_eq in E2. split; lia.
    + apply N.eqb_neq in E1. apply N.eqb_neq in E2. split; lia.
Qed.

Lemma id_alloc_lt : forall c, fst (id_alloc c) < M32.
Proof.
  intros c. unf.
  destruct (c mod 4294967296 =? 4294967295); cbn [fst]; [lia|].
  destruct (c mod 4294967296 =? 0); cbn [fst]; lia.
Qed.

(* ---------- the unbounded ("virtual") counter and the good-value count ---------- *)
(* allocation on an unbounded counter: (id, the counter value whose low 32 bits are the id, counter') *)
Definition id_alloc_u (c : N) : N * N * N :=
  let id1 := wrap32 c in
  if id1 =? NULL_TASK_ID then (wrap32 (c + 2), c + 2, c + 3)
  else if id1 =? NON_TASK_ID then (wrap32 (c + 1), c + 1, c + 2)
  else (id1, c, c + 1).

Lemma id_alloc_sim : forall V,
  id_alloc (wrap64 V) = (fst (fst (id_alloc_u V)), wrap64 (snd (id_alloc_u V))).
Proof.
  intros V. unfold id_alloc_u. unf.
  assert (H32 : (V mod 18446744073709551616) mod 4294967296 = V mod 4294967296) by lia.
  rewrite H32.
  destruct (V mod 4294967296 =? 4294967295) eqn:E1; cbn [fst snd].
  - f_equal; lia.
  - destruct (V mod 4294967296 =? 0) eqn:E2; cbn [fst snd]; f_equal; lia.
Qed.

(* number of counter values below c whose low 32 bits are neither 0 nor UINT_MAX *)
Definition G (c : Z) : Z := (c - (c + 4294967295) / 4294967296 - c / 4294967296)%Z.
Definition good (v : N) : Prop := wrap32 v <> 0 /\ wrap32 v <> 4294967295.

Lemma G_mono : forall a b, (0 <= a <= b)%Z -> (G a <= G b)%Z.
Proof. intros a b H. unfold G. lia. Qed.
Lemma G_shift : forall a, (0 <= a)%Z -> (G (a + 4294967296) = G a + 4294967294)%Z.
Proof. intros a H. unfold G. lia. Qed.

(* every allocation consumes exactly one good value, and that value is the id *)
Lemma id_alloc_u_spec : forall c id v c',
  id_alloc_u c = (id, v, c') ->
  c <= v < c' /\ good v /\ id = wrap32 v /\
  G (Z.of_N v) = G (Z.of_N c) /\ G (Z.of_N c') = (G (Z.of_N c) + 1)%Z.
Proof.
  intros c id v c' H. unfold id_alloc_u, good, G in *. unf.
  destruct (c mod 4294967296 =? 4294967295) eqn:E1.
  - apply N.eqb_eq in E1. inversion H; subst; clear H. repeat split; lia.
  - destruct (c mod 4294967296 =? 0) eqn:E2.
    + apply N.eqb_eq in E2. inversion H; subst; clear H. repeat split; lia.
    + apply N.eqb_neq in E1. apply N.eqb_neq in E2. inversion H; subst; clear H. repeat split; lia.
Qed.

Fixpoint vseq (n : nat) (c : N) : list N * N :=
  match n with
  | O => ([], c)
  | S n' => let '(_, v, c1) := id_alloc_u c in
            let '(l, c2) := vseq n' c1 in (v :: l, c2)
  end.

Lemma alloc_seq_sim : forall n V,
  alloc_seq n (wrap64 V) = (map wrap32 (fst (vseq n V)), wrap64 (snd (vseq n V))).
Proof.
  induction n as [|n IH]; intros V; cbn [alloc_seq vseq map fst snd]; [reflexivity|].
  rewrite id_alloc_sim.
  destruct (id_alloc_u V) as [[id v] c1] eqn:E. cbn [fst snd].
  rewrite IH. destruct (vseq n c1) as [l c2]. cbn [fst snd map].
  apply id_alloc_u_spec in E. destruct E as (_ & _ & Hid & _). now rewrite Hid.
Qed.

Lemma vseq_bounds : forall n c,
  Forall (fun w => c <= w /\ good w /\
                   (G (Z.of_N c) <= G (Z.of_N w) < G (Z.of_N c) + Z.of_nat n)%Z) (fst (vseq n c)).
Proof.
  induction n as [|n IH]; intros c; cbn [vseq fst]; [constructor|].
  destruct (id_alloc_u c) as [[id v] c1] eqn:E.
  specialize (IH c1). destruct (vseq n c1) as [l c2]. cbn [fst] in *.
  apply id_alloc_u_spec in E. destruct E as (Hv & Hg & _ & HGv & HGc).
  constructor.
  - repeat split; try lia; apply Hg.
  - eapply Forall_impl; [|exact IH]. cbn beta. intros w (Hw & Hgw & HG). repeat split; try lia; apply Hgw.
Qed.

Lemma good_far : forall v w, v < w -> (G (Z.of_N w) - G (Z.of_N v) < 4294967294)%Z -> w - v < M32.
Proof.
  intros v w Hlt HG.
  destruct (N.lt_ge_cases (w - v) M32) as [|Hge]; [assumption|exfalso].
  unfold M32 in Hge.
  assert (H1 : (G (Z.of_N v + 4294967296) <= G (Z.of_N w))%Z) by (apply G_mono; lia).
  rewrite G_shift in H1 by lia. lia.
Qed.

Lemma wrap32_neq : forall v w, v < w -> w - v < M32 -> wrap32 v <> wrap32 w.
Proof. intros v w H1 H2. unfold wrap32, M32 in *. lia. Qed.

Lemma vseq_nodup : forall n c, (N.of_nat n <= M32 - 2) -> NoDup (map wrap32 (fst (vseq n c))).
Proof.
  induction n as [|n IH]; intros c Hn; cbn [vseq fst map]; [constructor|].
  destruct (id_alloc_u c) as [[id v] c1] eqn:E.
  pose proof (vseq_bounds n c1) as HB. specialize (IH c1).
  destruct (vseq n c1) as [l c2]. cbn [fst map] in *.
  apply id_alloc_u_spec in E. destruct E as (Hv & Hg & _ & HGv & HGc).
  constructor.
  - intros Hin. apply in_map_iff in Hin. destruct Hin as (w & Hw & Hin).
    rewrite Forall_forall in HB. destruct (HB w Hin) as (Hcw & _ & HG).
    assert (Hlt : v < w) by lia.
    apply (wrap32_neq v w Hlt); [|now symmetry].
    apply good_far; [assumption|]. unfold M32 in Hn. lia.
  - apply IH. lia.
Qed.

(* ---------- id_distinct ---------- *)
(* any run of at most 2^32-2 consecutive allocations, from ANY 64-bit counter value, yields pairwise
   different ids; i.e. two ids drawn fewer than 2^32-2 allocations apart differ *)
Theorem alloc_seq_nodup : forall n c, c < M64 -> N.of_nat n <= M32 - 2 -> NoDup (fst (alloc_seq n c)).
Proof.
  intros n c Hc Hn.
  assert (Hw : c = wrap64 c) by (unfold wrap64, M64 in *; lia).
  rewrite Hw, alloc_seq_sim. cbn [fst]. now apply vseq_nodup.
Qed.

Lemma alloc_seq_app : forall n m c,
  alloc_seq (n + m) c = let '(l1, c1) := alloc_seq n c in let '(l2, c2) := alloc_seq m c1 in (l1 ++ l2, c2).
Proof.
  induction n as [|n IH]; intros m c; cbn [alloc_seq plus].
  - destruct (alloc_seq m c); reflexivity.
  - destruct (id_alloc c) as [i c1]. rewrite IH.
    destruct (alloc_seq n c1) as [l1 c2]. destruct (alloc_seq m c2) as [l2 c3]. reflexivity.
Qed.

Lemma alloc_seq_length : forall n c, length (fst (alloc_seq n c)) = n.
Proof.
  induction n as [|n IH]; intros c; cbn [alloc_seq]; [reflexivity|].
  destruct (id_alloc c) as [i c1]. specialize (IH c1). destruct (alloc_seq n c1). cbn [fst length] in *. lia.
Qed.

Theorem id_distinct_apart : forall n c i j a b,
  c < M64 -> (i < j < n)%nat -> N.of_nat (j - i) < M32 - 2 ->
  nth_error (fst (alloc_seq n c)) i = Some a -> nth_error (fst (alloc_seq n c)) j = Some b -> a <> b.
Proof.
  intros n c i j a b Hc Hij Hd Ha Hb.
  (* split the run: i allocations, then (j-i+1) allocations, then the rest *)
  replace n with (i + ((j - i + 1) + (n - j - 1)))%nat in Ha, Hb by lia.
  rewrite alloc_seq_app in Ha, Hb.
  destruct (alloc_seq i c) as [l1 c1] eqn:E1.
  rewrite alloc_seq_app in Ha, Hb.
  destruct (alloc_seq (j - i + 1) c1) as [l2 c2] eqn:E2.
  destruct (alloc_seq (n - j - 1) c2) as [l3 c3] eqn:E3. cbn [fst] in *.
  assert (L1 : length l1 = i) by (pose proof (alloc_seq_length i c) as L; rewrite E1 in L; exact L).
  assert (L2 : length l2 = (j - i + 1)%nat) by (pose proof (alloc_seq_length (j - i + 1) c1) as L; rewrite E2 in L; exact L).
  rewrite nth_error_app2 in Ha, Hb by lia.
  rewrite nth_error_app1 in Ha, Hb by lia.
  assert (Hc1 : c1 < M64).
  { clear - E1 Hc. revert c c1 l1 E1 Hc. induction i as [|i IH]; intros c c1 l1 E1 Hc; cbn [alloc_seq] in E1.
    - inversion E1; subst; assumption.
    - destruct (id_alloc c) as [x cx] eqn:Ex. destruct (alloc_seq i cx) as [lx cy] eqn:Ey.
      inversion E1; subst. eapply IH; [exact Ey|].
      unfold id_alloc, fetch_add, wrap64, M64 in Ex.
      destruct (wrap32 c =? NULL_TASK_ID); [|destruct (wrap32 c =? NON_TASK_ID)]; inversion Ex; subst; unfold M64; lia. }
  pose proof (alloc_seq_nodup (j - i + 1) c1 Hc1) as ND. rewrite E2 in ND. cbn [fst] in ND.
  assert (ND' : NoDup l2) by (apply ND; unfold M32 in *; lia).
  intros Heq. subst b.
  rewrite NoDup_nth_error in ND'.
  assert (K : (i - length l1 = j - length l1)%nat).
  { apply ND'; [rewrite L2; lia|]. now rewrite Ha, Hb. }
  lia.
Qed.

(* ---------- the bound is sharp: 2^32-2 allocations apart the same id comes back ---------- *)
(* (stated on the virtual sequence: the id of value v and of v + 2^32 coincide and exactly 2^32-2 good values lie between) *)
Lemma id_repeats_after_full_cycle : forall v, good v ->
  wrap32 v = wrap32 (v + M32) /\ (G (Z.of_N (v + M32)) - G (Z.of_N v) = 4294967294)%Z.
Proof. intros v _. unfold wrap32, M32, G. split; lia. Qed.

(* ---------- id_stable, on the descriptor system, for every op sequence ---------- *)
Lemma iget_iset_same : forall l t v, iget (iset l t v) t = Some v.
Proof.
  induction l as [|[k w] r IH]; intros t v; cbn [iset iget].
  - now rewrite N.eqb_refl.
  - destruct (k =? t) eqn:E; cbn [iget]; rewrite E; [reflexivity|apply IH].
Qed.
Lemma iget_iset_other : forall l t u v, t <> u -> iget (iset l t v) u = iget l u.
Proof.
  induction l as [|[k w] r IH]; intros t u v H; cbn [iset iget].
  - destruct (t =? u) eqn:E; [apply N.eqb_eq in E; contradiction|reflexivity].
  - destruct (k =? t) eqn:E; cbn [iget].
    + apply N.eqb_eq in E. subst k. destruct (t =? u) eqn:E2; [apply N.eqb_eq in E2; contradiction|reflexivity].
    + destruct (k =? u); [reflexivity|now apply IH].
Qed.
Lemma iget_idel_other : forall l t u, t <> u -> iget (idel l t) u = iget l u.
Proof.
  induction l as [|[k w] r IH]; intros t u H; cbn [idel iget]; [reflexivity|].
  destruct (k =? t) eqn:E.
  - apply N.eqb_eq in E. subst k. destruct (t =? u) eqn:E2; [apply N.eqb_eq in E2; contradiction|now apply IH].
  - cbn [iget]. destruct (k =? u); [reflexivity|now apply IH].
Qed.

Definition touches (t : N) (o : iop) : bool :=
  match o with ISpawn u | IFree u => u =? t | IId _ => false end.

Lemma qthread_id_assigned : forall fld c, fld <> NON_TASK_ID -> qthread_id fld c = (fld, fld, c).
Proof. intros fld c H. unfold qthread_id. destruct (fld =? NON_TASK_ID) eqn:E; [apply N.eqb_eq in E; contradiction|reflexivity]. Qed.

Lemma qthread_id_result : forall fld c r f c', qthread_id fld c = (r, f, c') -> r = f /\ f <> NON_TASK_ID /\ (fld <> NON_TASK_ID -> f = fld).
Proof.
  intros fld c r f c' H. unfold qthread_id in H.
  destruct (fld =? NON_TASK_ID) eqn:E.
  - destruct (id_alloc c) as [i cc] eqn:Ea. inversion H; subst.
    apply N.eqb_eq in E. repeat split; [|intros K; contradiction].
    pose proof (id_alloc_reserved c) as R. rewrite Ea in R. apply R.
  - apply N.eqb_neq in E. inversion H; subst. auto.
Qed.

(* once qthread_id() returned i for task t, every later call by t returns i, whatever the other
   tasks do in between (spawns, frees, their own id draws), as long as t's descriptor is live *)
Theorem id_stable_run : forall ops s t i,
  iget (i_tasks s) t = Some i -> i <> NON_TASK_ID ->
  forallb (fun o => negb (touches t o)) ops = true ->
  iget (i_tasks (fst (irun s ops))) t = Some i /\
  Forall2 (fun o x => o = IId t -> x = Some i) ops (snd (irun s ops)).
Proof.
  induction ops as [|o r IH]; intros s t i Hg Hi Hall; cbn [irun fst snd]; [split; [assumption|constructor]|].
  cbn [forallb] in Hall. apply andb_true_iff in Hall. destruct Hall as [Ho Hr].
  destruct (istep s o) as [s1 x] eqn:Es.
  assert (Hkeep : iget (i_tasks s1) t = Some i /\ (o = IId t -> x = Some i)).
  { destruct o as [u|u|u]; cbn [istep touches] in *.
    - inversion Es; subst; cbn [i_tasks]. apply negb_true_iff, N.eqb_neq in Ho.
      split; [rewrite iget_iset_other by assumption; assumption|discriminate].
    - destruct (N.eq_dec u t) as [->|Hne].
      + rewrite Hg in Es. rewrite qthread_id_assigned in Es by assumption.
        inversion Es; subst; cbn [i_tasks]. split; [apply iget_iset_same|reflexivity].
      + destruct (iget (i_tasks s) u) as [fld|] eqn:Eu.
        * destruct (qthread_id fld (i_ctr s)) as [[rr ff] cc]. inversion Es; subst; cbn [i_tasks].
          split; [rewrite iget_iset_other by assumption; assumption|intros K; inversion K; contradiction].
        * inversion Es; subst. split; [assumption|intros K; inversion K; contradiction].
    - inversion Es; subst; cbn [i_tasks]. apply negb_true_iff, N.eqb_neq in Ho.
      split; [rewrite iget_idel_other by assumption; assumption|discriminate]. }
  destruct Hkeep as [Hg1 Hx].
  specialize (IH s1 t i Hg1 Hi Hr).
  destruct (irun s1 r) as [s2 xs]. cbn [fst snd] in *. destruct IH as [IH1 IH2].
  split; [assumption|constructor; assumption].
Qed.

(* every id returned by qthread_id(), in any run from any state, is neither 0 nor UINT_MAX provided
   the descriptor fields already present are not UINT_MAX (they are 0 or earlier results) *)
Definition fields_ok (s : isys) : Prop := forall t f, iget (i_tasks s) t = Some f -> f <> NULL_TASK_ID.

Lemma istep_fields_ok : forall s o, fields_ok s -> fields_ok (fst (istep s o)) /\
  (forall r, snd (istep s o) = Some r -> r <> NON_TASK_ID /\ r <> NULL_TASK_ID).
Proof.
  intros s o H. unfold fields_ok in *. destruct o as [u|u|u]; cbn [istep].
  - cbn [fst snd i_tasks]. split; [|discriminate]. intros t f Hg.
    destruct (N.eq_dec u t) as [->|Hne]; [rewrite iget_iset_same in Hg; inversion Hg; subst; discriminate|].
    rewrite iget_iset_other in Hg by assumption. eapply H; eassumption.
  - destruct (iget (i_tasks s) u) as [fld|] eqn:Eu; [|cbn [fst snd]; split; [assumption|discriminate]].
    destruct (qthread_id fld (i_ctr s)) as [[rr ff] cc] eqn:Eq. cbn [fst snd i_tasks].
    assert (Hr : rr <> NON_TASK_ID /\ rr <> NULL_TASK_ID /\ ff = rr).
    { unfold qthread_id in Eq. destruct (fld =? NON_TASK_ID) eqn:E.
      - destruct (id_alloc (i_ctr s)) as [i c2] eqn:Ea. inversion Eq; subst.
        pose proof (id_alloc_reserved (i_ctr s)) as R. rewrite Ea in R. cbn [fst] in R. tauto.
      - inversion Eq; subst. apply N.eqb_neq in E. split; [assumption|]. split; [eapply H; eassumption|reflexivity]. }
    destruct Hr as (R1 & R2 & ->). split.
    + intros t f Hg. destruct (N.eq_dec u t) as [->|Hne]; [rewrite iget_iset_same in Hg; inversion Hg; subst; assumption|].
      rewrite iget_iset_other in Hg by assumption. eapply H; eassumption.
    + intros r Hr. inversion Hr; subst. split; assumption.
  - cbn [fst snd i_tasks]. split; [|discriminate]. intros t f Hg.
    destruct (N.eq_dec u t) as [->|Hne].
    + clear - Hg. exfalso. induction (i_tasks s) as [|[k w] l IH]; cbn [idel iget] in Hg; [discriminate|].
      destruct (k =? t) eqn:E; [auto|]. cbn [iget] in Hg. rewrite E in Hg. auto.
    + rewrite iget_idel_other in Hg by assumption. eapply H; eassumption.
Qed.

Theorem id_nonzero_run : forall ops s, fields_ok s ->
  Forall (fun x => forall r, x = Some r -> r <> NON_TASK_ID /\ r <> NULL_TASK_ID) (snd (irun s ops)).
Proof.
  induction ops as [|o r IH]; intros s H; cbn [irun snd]; [constructor|].
  pose proof (istep_fields_ok s o H) as [H1 H2].
  destruct (istep s o) as [s1 x]. cbn [fst snd] in *. specialize (IH s1 H1).
  destruct (irun s1 r) as [s2 xs]. cbn [snd] in *. constructor; assumption.
Qed.

(* ---------- micro-step layer: every interleaving of the two fetch-and-adds ---------- *)
(* invariant: every finished thread holds an id that is not reserved, PROVIDED no thread stays between its
   two accesses while the counter advances by 2^32-3 or more (explicit window hypothesis, as for id_distinct).
   Proved here in the form: the id computed by a re-draw at counter value c is reserved only if c is
   congruent to one of the reserved positions, which needs >= 2^32-3 intervening draws. *)
Lemma redraw_null_ok : forall c0 c, wrap32 c0 = NULL_TASK_ID -> c0 < c -> c - c0 < M32 - 2 ->
  forall c' p, astep (wrap64 c) PRedrawNull = (c', p) -> exists i, p = PDone i /\ i <> NON_TASK_ID /\ i <> NULL_TASK_ID.
Proof.
  intros c0 c H0 Hlt Hw c' p H. cbn [astep] in H. unf. inversion H; subst; clear H.
  eexists; split; [reflexivity|]. split; lia.
Qed.
Lemma redraw_non_ok : forall c0 c, wrap32 c0 = NON_TASK_ID -> c0 < c -> c - c0 < M32 - 1 ->
  forall c' p, astep (wrap64 c) PRedrawNon = (c', p) -> exists i, p = PDone i /\ i <> NON_TASK_ID /\ i <> NULL_TASK_ID.
Proof.
  intros c0 c H0 Hlt Hw c' p H. cbn [astep] in H. unf. inversion H; subst; clear H.
  eexists; split; [reflexivity|]. split; lia.
Qed.
(* and a bound is needed: with 2^32-1 draws in between the re-draw lands on the reserved value again *)
Example redraw_null_window_needed :
  astep (4294967295 + 4294967295) PRedrawNull = (4294967295 + 4294967297, PDone 4294967295).
Proof. vm_compute. reflexivity. Qed.

(* the sequential allocation is the two micro-steps run back to back *)
Lemma id_alloc_is_two_steps : forall c,
  let '(c1, p1) := astep c PStart in
  let '(c2, p2) := astep c1 p1 in
  p2 = PDone (fst (id_alloc c)) /\ c2 = snd (id_alloc c).
Proof.
  intros c. cbn [astep]. unfold id_alloc. cbn [fetch_add].
  destruct (wrap32 c =? NULL_TASK_ID); [cbn [astep fetch_add fst snd]; auto|].
  destruct (wrap32 c =? NON_TASK_ID); cbn [astep fetch_add fst snd]; auto.
Qed.

(* ---------- non-vacuity / boundary examples ---------- *)
Example id_wrap_null : id_alloc 4294967295 = (1, 4294967298).            (* draw = UINT_MAX *)
Proof. vm_compute. reflexivity. Qed.
Example id_wrap_non : id_alloc 4294967296 = (1, 4294967298).             (* draw = 0 *)
Proof. vm_compute. reflexivity. Qed.
Example id_wrap_2 : id_alloc 8589934591 = (1, 8589934594).               (* 2^33-1 *)
Proof. vm_compute. reflexivity. Qed.
Example id_wrap_64 : id_alloc 18446744073709551615 = (1, 2).            (* the 64-bit counter itself wraps *)
Proof. vm_compute. reflexivity. Qed.
Example alloc_seq_wrap : fst (alloc_seq 5 4294967293) = [4294967293; 4294967294; 1; 2; 3].
Proof. vm_compute. reflexivity. Qed.
(* the pre-fix code (second fetch-and-add without the +1) returned 0 here: *)
Example prefix_code_gave_zero : wrap32 (snd (fetch_add (snd (fetch_add 4294967295 1)) 0)) = 0.
Proof. vm_compute. reflexivity. Qed.
Example id_stable_hyp_sat :
  let s := fst (irun (mkisys 4294967295 []) [ISpawn 7; IId 7]) in
  iget (i_tasks s) 7 = Some 1 /\ snd (irun s [ISpawn 8; IId 8; IId 7; IFree 8; IId 7]) = [None; Some 2; Some 1; None; Some 1].
Proof. vm_compute. split; reflexivity. Qed.
