From Coq Require Import List Bool Arith NArith ZArith Lia.
From QV Require Import Kernel.GenSpawnTable Kernel.Placement Kernel.ProofsPlacement Kernel.Model Kernel.ProofsKernel
     Kernel.ProofsC07 Kernel.ProofsPin Kernel.Progress Kernel.ProgressInv Kernel.ProgressProofs Kernel.ProgressMeasure
     Kernel.ProgressEnabled Kernel.ProgressQueue Kernel.ProgressQueue2.
From QV Require TQueue.Model TQueue.Proofs TQueue.Proofs2.
Import ListNotations.

Lemma kinv_cstep c e c' : kinv c.(ck) -> cstep c e = Some c' -> kinv c'.(ck).
Proof. intros K H. destruct (cstep_run _ _ _ H) as (ls & M & R). eapply kinv_run_my; eauto. Qed.

Ltac destr_cstep H :=
  repeat match type of H with
         | match ?x with _ => _ end = Some _ => destruct x eqn:?; try discriminate H
         | (if ?x then _ else _) = Some _ => destruct x eqn:?; try discriminate H
         end.

Ltac enq_tac :=
  cbn [enq_of]; repeat match goal with G : get_task _ _ = Some _ |- _ => rewrite G end; cbn [option_map];
  repeat match goal with T : t_target _ = Some _ |- _ => rewrite T end; reflexivity.

(* THE QUEUE INVARIANT is preserved by every event of the composed system *)
Lemma Qrel_cstep c e c' : kinv c.(ck) -> Qrel c.(ck) c.(cs) -> cstep c e = Some c' -> Qrel c'.(ck) c'.(cs).
Proof.
  intros KI Q H. pose proof (kinv_cstep _ _ _ KI H) as KI'.
  unfold cstep in H. destr_cstep H; try use_with_k H; try (inversion H; subst; clear H); cbn [ck cs] in *.
  all: try (eapply Qrel_with_noq; [exact Q| |eassumption]; reflexivity).
  all: try exact Q.
  all: try (eapply Qrel_with_spawn; eauto; fail).
  all: try (match goal with
            | R : run _ [?l] = Some _ |- Qrel _ (enq _ ?q (nd ?t ?b)) =>
              apply (proj1 (Qrel_with_enq _ _ _ l t q b KI' Q ltac:(enq_tac) R))
            | R : run _ [?l] = Some _ |- Qrel _ (enq_head _ ?q (nd ?t ?b)) =>
              apply (proj2 (Qrel_with_enq _ _ _ l t q b KI' Q ltac:(enq_tac) R))
            end).
  all: match goal with R : run _ [LTake _ _ _ _] = Some _ |- _ => apply run1 in R; destruct (step_take _ _ _ _ _ _ R) as (near & P & Hn) end.
  all: bool_facts; split_bools.
  - eapply Qrel_pop; eauto; try (intros ? ? X; discriminate X).
  - eapply Qrel_steal; eauto; try (intros ? ? X; discriminate X).
Qed.
