(* C05 extension T: the invariant of the team-finish machine is preserved by every step (sw = false). *)
From Coq Require Import List ZArith Bool Arith Lia ZifyBool ZifyNat.
From QV Require Import Kernel.TeamFinish Kernel.TeamFinishInv.
From QV Require Export Kernel.TeamFinishProofsA Kernel.TeamFinishProofsB.
Import ListNotations.
Local Open Scope Z_scope.

(* ---------- pure facts on the local invariant ---------- *)
Ltac tcase Hc :=
  unfold tinvc in *; cbn -[Z.add Z.sub Z.opp] in *;
  destruct Hc as (H1&H2&H3&H4&H5&H6&H7&H8&H9);
  try solve [exfalso; clear - H8; intuition discriminate];
  splits; fin1.

Lemma loc_LF t p w o ms cs : tinvc t (mkctl (KSub p) LF w) o ms cs None ->
  tinvc t (mkctl (KSub p) LG w) o ms cs (Some t).
Proof. intros Hc. destruct w; tcase Hc. Qed.

Lemma loc_LH t p w o ms cs e : tinvc t (mkctl (KSub p) LH w) o ms cs e ->
  tinvc t (mkctl (KSub p) LI w) o ms cs e.
Proof. intros Hc. destruct w; tcase Hc. Qed.

Lemma loc_WS t p l o ms cs : tinvc t (mkctl (KSub p) l WStarted) o ms cs (Some t) ->
  tinvc t (mkctl (KSub p) l WGot) o ms cs None.
Proof. intros Hc. destruct l; tcase Hc. Qed.

Lemma tinvc_set_eu t c o ms cs e x : tinvc t c o ms cs e -> tinvc t c (set_eu o x) ms cs e.
Proof. intros Hc. exact Hc. Qed.

Lemma tinvc_subs_shift t c o ms cs e d v : tinvc t c o ms cs e -> (lrank (lpc c) <= 9)%nat -> v = subs o + d ->
  tinvc t c (set_subs o v) ms (cs + d) e.
Proof.
  intros (H1&H2&H3&H4&H5&H6&H7&H8&H9) Hr Hv. unfold tinvc. cbn -[Z.add Z.sub Z.opp].
  splits; try assumption; intros; lia.
Qed.

Lemma tinvc_sinc_shift t c o ms cs e d v : tinvc t c o ms cs e -> (lrank (lpc c) <= 7)%nat -> v = sinc o + d ->
  tinvc t c (set_sinc o v) (ms + d) cs e.
Proof.
  intros (H1&H2&H3&H4&H5&H6&H7&H8&H9) Hr Hv. unfold tinvc. cbn -[Z.add Z.sub Z.opp].
  splits; try assumption; intros; lia.
Qed.

(* ---------- shape P: the ctl of a 1.2.2 subteam t and the obj of its parent p change ---------- *)
Lemma shapeP s s' t p c' op' : inv s -> (t < nt s)%nat -> tk (ctl s t) = KSub p ->
  nt s' = nt s -> nm s' = nm s -> mem s' = mem s ->
  (forall j, ctl s' j = if Nat.eqb j t then c' else ctl s j) ->
  (forall j, obj s' j = if Nat.eqb j p then op' else obj s j) ->
  uaf s' = false -> tk c' = KSub p ->
  tinvc t c' (obj s t) (msum s t) (csum s t) (eu op') ->
  tinvc p (ctl s p) op' (msum s p) (csum s' p) (eup s (ctl s p)) ->
  (forall c, eu op' = Some c -> (c < nt s)%nat /\ tk (ctl s c) = KSub p) ->
  (forall x, x <> p -> csum s' x = csum s x) ->
  (forall x, x <> t -> eu op' = eu (obj s p) \/ (eu (obj s p) <> Some x /\ eu op' <> Some x)) ->
  inv s'.
Proof.
  intros Hi Ht Hk Hnt Hnm Hmem Hctl Hobj Hu Hk' Ht1 Hp1 Heuok Hcs Heu.
  pose proof (ti_watch _ _ (i_team _ Hi t Ht)) as Hwt. rewrite Hk in Hwt. destruct Hwt as (Hpt&_).
  assert (Hp : (p < nt s)%nat) by lia.
  assert (Hms : forall x, msum s' x = msum s x) by (intro; unfold msum; rewrite Hnm, Hmem; reflexivity).
  assert (Htk : forall j, tk (ctl s' j) = tk (ctl s j)).
  { intro j. rewrite Hctl. destruct (Nat.eqb_spec j t); [subst j; rewrite Hk', Hk|]; reflexivity. }
  constructor.
  - intros x Hx. rewrite Hnt in Hx.
    destruct (Nat.eq_dec x t) as [->|Hxt]; [|destruct (Nat.eq_dec x p) as [->|Hxp]].
    + apply tinv_of_c.
      * rewrite Hms, (Hcs t) by lia. rewrite Hctl, Nat.eqb_refl, Hobj.
        destruct (Nat.eqb_spec t p); [lia|].
        replace (eup s' c') with (eu op'); [exact Ht1|].
        unfold eup. rewrite Hk', Hobj, Nat.eqb_refl. reflexivity.
      * intros c Hc. rewrite Hobj in Hc. destruct (Nat.eqb_spec t p); [lia|].
        destruct (ti_eu _ _ (i_team _ Hi t Ht) c Hc) as [A B]. rewrite Hnt, Htk. split; assumption.
    + apply tinv_of_c.
      * rewrite Hms, Hctl, Hobj, Nat.eqb_refl. destruct (Nat.eqb_spec p t); [lia|].
        replace (eup s' (ctl s p)) with (eup s (ctl s p)); [exact Hp1|].
        unfold eup. pose proof (ti_watch _ _ (i_team _ Hi p Hp)) as Hwp.
        destruct (tk (ctl s p)) eqn:Hkp; auto.
        rewrite Hobj. destruct (Nat.eqb_spec p0 p); [lia|reflexivity].
      * intros c Hc. rewrite Hobj, Nat.eqb_refl in Hc. rewrite Hnt, Htk. apply Heuok; exact Hc.
    + apply (tinv_frame s s' x).
      * apply (i_team _ Hi); exact Hx.
      * rewrite Hctl. destruct (Nat.eqb_spec x t); [contradiction|reflexivity].
      * rewrite Hobj. destruct (Nat.eqb_spec x p); [contradiction|reflexivity].
      * apply Hms.
      * apply Hcs; exact Hxp.
      * intros q Hq. rewrite Hobj. destruct (Nat.eqb_spec q p); [subst q|left; reflexivity].
        destruct (Heu x Hxt) as [E|E]; [left; exact E|right; exact E].
      * intros c Hc. rewrite Hnt, Htk. split; [exact Hc|reflexivity].
  - intros k x Hk0 Hm. rewrite Hnt. rewrite Hnm in Hk0. rewrite Hmem in Hm. exact (i_memb _ Hi k x Hk0 Hm).
  - exact Hu.
Qed.

Lemma get_c s t k l w : inv s -> (t < nt s)%nat -> ctl s t = mkctl k l w ->
  tinvc t (mkctl k l w) (obj s t) (msum s t) (csum s t) (match k with KSub p => eu (obj s p) | _ => None end).
Proof.
  intros Hi Ht E. destruct (tinv_c _ _ (i_team _ Hi t Ht)) as [Hc _]. unfold eup in Hc. rewrite E in Hc. exact Hc.
Qed.

Lemma parent_alive s t p : inv s -> (t < nt s)%nat -> (p < nt s)%nat -> tk (ctl s t) = KSub p ->
  (lrank (lpc (ctl s t)) <= 13)%nat ->
  (lrank (lpc (ctl s p)) <= 9)%nat /\ freed (obj s p) = false /\ subsok (obj s p) = true.
Proof.
  intros Hi Ht Hp Hk Hr.
  assert (Hcc : ccon p (ctl s t) = 1).
  { unfold ccon. rewrite Hk, Nat.eqb_refl. destruct (Nat.leb_spec (lrank (lpc (ctl s t))) 13); [reflexivity|lia]. }
  pose proof (open_sub_rank s p t Hi Hp Ht Hcc) as Hrp.
  pose proof (ti_freed _ _ (i_team _ Hi p Hp)) as F. pose proof (ti_subsok _ _ (i_team _ Hi p Hp)) as G.
  split; [exact Hrp|]. split; lia.
Qed.

Ltac ctlpt t Hct :=
  let j := fresh "j" in
  intro j; cbn; unfold fupd; rewrite ?Hct; cbn; destruct (Nat.eqb_spec j t); reflexivity.

Lemma lead_LF s t s' : inv s -> (t < nt s)%nat -> lpc (ctl s t) = LF ->
  lead_step false s t = Some s' -> inv s'.
Proof.
  intros Hi Ht Hl Hs. unfold lead_step in Hs.
  destruct (ctl s t) as [k l w] eqn:Hct. cbn in Hl. subst l. cbn in Hs.
  destruct k as [| |p]; try discriminate. destruct (eu (obj s p)) eqn:He; try discriminate. injection Hs as <-.
  pose proof (get_c s t _ _ _ Hi Ht Hct) as Hc. cbn beta iota in Hc. rewrite He in Hc.
  assert (Hpt : (p < t)%nat) by (destruct Hc as (_&_&_&_&_&_&_&(X&_)&_); exact X).
  assert (Hp : (p < nt s)%nat) by lia.
  assert (Hk : tk (ctl s t) = KSub p) by (rewrite Hct; reflexivity).
  destruct (parent_alive s t p Hi Ht Hp Hk) as (Hrp&Hfp&Hsp); [rewrite Hct; cbn; lia|].
  destruct (tinv_c _ _ (i_team _ Hi p Hp)) as [Hcp Hokp].
  match goal with |- inv ?S => set (s1 := S) end.
  assert (Hcs : forall x, csum s1 x = csum s x).
  { intro x. apply csum_same; [reflexivity|]. intros j Hj. subst s1. cbn. unfold fupd.
    destruct (Nat.eqb_spec j t); [subst j; rewrite Hct; reflexivity|reflexivity]. }
  eapply (shapeP s s1 t p (mkctl (KSub p) LG w) (set_eu (obj s p) (Some t)));
    [exact Hi|exact Ht|exact Hk|reflexivity|reflexivity|reflexivity| | | |reflexivity| | | | |].
  - subst s1. ctlpt t Hct.
  - subst s1. ptwise p.
  - subst s1. cbn. rewrite (i_uaf _ Hi), Hfp. reflexivity.
  - apply loc_LF. exact Hc.
  - rewrite Hcs. exact Hcp.
  - intros c Hc0. cbn in Hc0. injection Hc0 as <-. split; [exact Ht|exact Hk].
  - intros x _. apply Hcs.
  - intros x Hx. right. cbn. rewrite He. split; [discriminate|]. intro X. injection X as X. congruence.
Qed.

Lemma lead_LH s t s' : inv s -> (t < nt s)%nat -> lpc (ctl s t) = LH ->
  lead_step false s t = Some s' -> inv s'.
Proof.
  intros Hi Ht Hl Hs. unfold lead_step in Hs.
  destruct (ctl s t) as [k l w] eqn:Hct. cbn in Hl. subst l. cbn in Hs.
  destruct k as [| |p]; try discriminate. injection Hs as <-.
  pose proof (get_c s t _ _ _ Hi Ht Hct) as Hc. cbn beta iota in Hc.
  assert (Hpt : (p < t)%nat) by (destruct Hc as (_&_&_&_&_&_&_&(X&_)&_); exact X).
  assert (Hp : (p < nt s)%nat) by lia.
  assert (Hk : tk (ctl s t) = KSub p) by (rewrite Hct; reflexivity).
  destruct (parent_alive s t p Hi Ht Hp Hk) as (Hrp&Hfp&Hsp); [rewrite Hct; cbn; lia|].
  destruct (tinv_c _ _ (i_team _ Hi p Hp)) as [Hcp Hokp].
  match goal with |- inv ?S => set (s1 := S) end.
  assert (Hcs : forall x, csum s1 x = csum s x - ccon x (ctl s t) + ccon x (ctl s1 t)).
  { intro x. apply csum_upd; [reflexivity|exact Ht|]. intros j Hj. subst s1. cbn. unfold fupd.
    destruct (Nat.eqb_spec j t); [contradiction|reflexivity]. }
  assert (E1 : ctl s1 t = mkctl (KSub p) LI w).
  { subst s1. cbn. unfold fupd. rewrite Nat.eqb_refl, Hct. reflexivity. }
  eapply (shapeP s s1 t p (mkctl (KSub p) LI w) (set_subs (obj s p) (subs (obj s p) - 1)));
    [exact Hi|exact Ht|exact Hk|reflexivity|reflexivity|reflexivity| | | |reflexivity| | | | |].
  - subst s1. ctlpt t Hct.
  - subst s1. ptwise p.
  - subst s1. cbn. rewrite (i_uaf _ Hi), Hsp. reflexivity.
  - apply loc_LH. exact Hc.
  - replace (csum s1 p) with (csum s p + -1).
    + apply tinvc_subs_shift; [exact Hcp|exact Hrp|lia].
    + rewrite Hcs, E1, Hct. unfold ccon. cbn. rewrite Nat.eqb_refl. cbn. lia.
  - intros c Hc0. apply Hokp. exact Hc0.
  - intros x Hx. rewrite Hcs, E1, Hct. unfold ccon. cbn.
    destruct (Nat.eqb_spec p x); [congruence|]. cbn. lia.
  - intros x Hx. left. reflexivity.
Qed.

Lemma watch_WS s t s' : inv s -> (t < nt s)%nat -> wpc (ctl s t) = WStarted ->
  watch_step s t = Some s' -> inv s'.
Proof.
  intros Hi Ht Hw Hs. unfold watch_step in Hs.
  destruct (ctl s t) as [k l w] eqn:Hct. cbn in Hw. subst w. cbn in Hs.
  destruct k as [| |p]; try discriminate. destruct (eu (obj s p)) as [c0|] eqn:He; try discriminate.
  destruct (Nat.eqb_spec c0 t) as [->|]; try discriminate. injection Hs as <-.
  pose proof (get_c s t _ _ _ Hi Ht Hct) as Hc. cbn beta iota in Hc. rewrite He in Hc.
  assert (Hpt : (p < t)%nat) by (destruct Hc as (_&_&_&_&_&_&_&(X&_)&_); exact X).
  assert (Hlg : l = LG).
  { destruct Hc as (_&_&_&_&_&_&_&(_&_&X)&_). destruct (proj1 X eq_refl) as [Y _]. exact Y. }
  subst l.
  assert (Hp : (p < nt s)%nat) by lia.
  assert (Hk : tk (ctl s t) = KSub p) by (rewrite Hct; reflexivity).
  destruct (parent_alive s t p Hi Ht Hp Hk) as (Hrp&Hfp&Hsp); [rewrite Hct; cbn; lia|].
  destruct (tinv_c _ _ (i_team _ Hi p Hp)) as [Hcp Hokp].
  match goal with |- inv ?S => set (s1 := S) end.
  assert (Hcs : forall x, csum s1 x = csum s x).
  { intro x. apply csum_same; [reflexivity|]. intros j Hj. subst s1. cbn. unfold fupd.
    destruct (Nat.eqb_spec j t); [subst j; rewrite Hct; reflexivity|reflexivity]. }
  eapply (shapeP s s1 t p (mkctl (KSub p) LG WGot) (set_eu (obj s p) None));
    [exact Hi|exact Ht|exact Hk|reflexivity|reflexivity|reflexivity| | | |reflexivity| | | | |].
  - subst s1. ctlpt t Hct.
  - subst s1. ptwise p.
  - subst s1. cbn. rewrite (i_uaf _ Hi), Hfp. reflexivity.
  - apply loc_WS. exact Hc.
  - rewrite Hcs. exact Hcp.
  - intros c Hc0. cbn in Hc0. discriminate.
  - intros x _. apply Hcs.
  - intros x Hx. right. cbn. rewrite He. split; [|discriminate]. intro X. injection X as X. congruence.
Qed.

(* ---------- member steps and spawns of members ---------- *)
Lemma shapeM s s' : inv s -> nt s' = nt s -> ctl s' = ctl s -> obj s' = obj s -> uaf s' = false ->
  (forall k x, (k < nm s')%nat -> mteam (mem s' k) = Some x -> (x < nt s)%nat) ->
  (forall x, msum s' x = msum s x) -> inv s'.
Proof.
  intros Hi Hnt Hctl Hobj Hu Hmemb Hms. constructor.
  - intros x Hx. rewrite Hnt in Hx. apply (tinv_frame s s' x).
    + apply (i_team _ Hi); exact Hx.
    + rewrite Hctl; reflexivity.
    + rewrite Hobj; reflexivity.
    + apply Hms.
    + unfold csum. rewrite Hnt, Hctl. reflexivity.
    + intros p _. left. rewrite Hobj. reflexivity.
    + intros c Hc. rewrite Hnt, Hctl. split; [exact Hc|reflexivity].
  - intros k x Hk Hm. rewrite Hnt. exact (Hmemb k x Hk Hm).
  - exact Hu.
Qed.

Lemma shapeMS s s' t d v : inv s -> (t < nt s)%nat -> (lrank (lpc (ctl s t)) <= 7)%nat ->
  nt s' = nt s -> ctl s' = ctl s ->
  (forall j, obj s' j = if Nat.eqb j t then set_sinc (obj s t) v else obj s j) -> v = sinc (obj s t) + d ->
  uaf s' = false ->
  (forall k x, (k < nm s')%nat -> mteam (mem s' k) = Some x -> (x < nt s)%nat) ->
  (forall x, x <> t -> msum s' x = msum s x) -> msum s' t = msum s t + d -> inv s'.
Proof.
  intros Hi Ht Hr Hnt Hctl Hobj Hv Hu Hmemb Hms Hmt.
  assert (Hcs : forall x, csum s' x = csum s x) by (intro; unfold csum; rewrite Hnt, Hctl; reflexivity).
  assert (Heu : forall j, eu (obj s' j) = eu (obj s j)).
  { intro j. rewrite Hobj. destruct (Nat.eqb_spec j t); [subst j|]; reflexivity. }
  constructor.
  - intros x Hx. rewrite Hnt in Hx. destruct (Nat.eq_dec x t) as [->|Hxt].
    + destruct (tinv_c _ _ (i_team _ Hi t Ht)) as [Hc Hok]. apply tinv_of_c.
      * rewrite Hcs, Hmt, Hctl, Hobj, Nat.eqb_refl.
        replace (eup s' (ctl s t)) with (eup s (ctl s t)).
        -- apply tinvc_sinc_shift; assumption.
        -- unfold eup. destruct (tk (ctl s t)); auto.
      * intros c Hc0. rewrite Heu in Hc0. rewrite Hnt, Hctl. apply Hok; exact Hc0.
    + apply (tinv_frame s s' x).
      * apply (i_team _ Hi); exact Hx.
      * rewrite Hctl; reflexivity.
      * rewrite Hobj. destruct (Nat.eqb_spec x t); [contradiction|reflexivity].
      * apply Hms; exact Hxt.
      * apply Hcs.
      * intros p _. left. apply Heu.
      * intros c Hc. rewrite Hnt, Hctl. split; [exact Hc|reflexivity].
  - intros k x Hk Hm. rewrite Hnt. exact (Hmemb k x Hk Hm).
  - exact Hu.
Qed.

Lemma set_mpc_inv s k p : inv s -> (k < nm s)%nat ->
  (forall x, mcon x (mkmemb (mteam (mem s k)) p) = mcon x (mem s k)) -> inv (set_mpc s k p).
Proof.
  intros Hi Hk Hm. apply (shapeM s); [exact Hi|reflexivity|reflexivity|reflexivity|exact (i_uaf _ Hi)| |].
  - intros k0 x Hk0 E. cbn in Hk0, E. unfold fupd in E.
    destruct (Nat.eqb_spec k0 k); [subst k0; cbn in E|]; exact (i_memb _ Hi _ x ltac:(eassumption) E).
  - intro x. apply msum_same; [reflexivity|]. intros j Hj. cbn. unfold fupd.
    destruct (Nat.eqb_spec j k); [subst j; apply Hm|reflexivity].
Qed.

Lemma memb_step_inv s k s' : inv s -> (k < nm s)%nat -> memb_step s k = Some s' -> inv s'.
Proof.
  intros Hi Hk Hs. unfold memb_step in Hs.
  destruct (mpc (mem s k)) eqn:Hp; try discriminate.
  - injection Hs as <-. apply set_mpc_inv; auto. intro x. unfold mcon, mlive. cbn. rewrite Hp. reflexivity.
  - injection Hs as <-. apply set_mpc_inv; auto. intro x. unfold mcon, mlive. cbn. rewrite Hp. reflexivity.
  - destruct (mteam (mem s k)) as [t|] eqn:Ht.
    + injection Hs as <-.
      pose proof (i_memb _ Hi k t Hk Ht) as Htn.
      assert (Hm1 : mcon t (mem s k) = 1).
      { unfold mcon, mlive. rewrite Ht, Hp, Nat.eqb_refl. reflexivity. }
      pose proof (live_memb_rank s t k Hi Htn Hk Hm1) as Hr.
      pose proof (ti_sincok _ _ (i_team _ Hi t Htn)) as F1. pose proof (ti_freed _ _ (i_team _ Hi t Htn)) as F2.
      match goal with |- inv ?S => set (s1 := S) end.
      assert (Hms : forall x, msum s1 x = msum s x - mcon x (mem s k) + mcon x (mem s1 k)).
      { intro x. apply msum_upd; [reflexivity|exact Hk|]. intros j Hj. subst s1. cbn. unfold fupd.
        destruct (Nat.eqb_spec j k); [contradiction|reflexivity]. }
      assert (E1 : forall x, mcon x (mem s1 k) = 0).
      { intro x. subst s1. cbn. unfold fupd. rewrite Nat.eqb_refl. unfold mcon, mlive. cbn. rewrite Ht.
        rewrite andb_false_r. reflexivity. }
      apply (shapeMS s s1 t (-1) (sinc (obj s t) - 1)); [exact Hi|exact Htn|exact Hr|reflexivity|reflexivity| | | | | |].
      * subst s1. ptwise t.
      * lia.
      * subst s1. cbn. unfold sinc_dead. rewrite (i_uaf _ Hi). lia.
      * intros k0 x Hk0 E. subst s1. cbn in Hk0, E. unfold fupd in E.
        destruct (Nat.eqb_spec k0 k); [subst k0; cbn in E|]; exact (i_memb _ Hi _ x ltac:(eassumption) E).
      * intros x Hx. rewrite Hms, E1. unfold mcon. rewrite Ht.
        destruct (Nat.eqb_spec t x); [congruence|]. cbn. lia.
      * rewrite Hms, E1, Hm1. lia.
    + injection Hs as <-. apply set_mpc_inv; auto. intro x. unfold mcon. cbn. rewrite Ht. reflexivity.
  - injection Hs as <-. apply set_mpc_inv; auto. intro x. unfold mcon, mlive. cbn. rewrite Hp.
    destruct (mteam (mem s k)); [rewrite !andb_false_r|]; reflexivity.
Qed.

(* ---------- new teams ---------- *)
Lemma msum_fresh s : inv s -> msum s (nt s) = 0.
Proof.
  intros Hi. unfold msum. apply sumn_zero. intros k Hk. unfold mcon.
  destruct (mteam (mem s k)) eqn:E; [|reflexivity].
  pose proof (i_memb _ Hi k n Hk E). destruct (Nat.eqb_spec n (nt s)); [lia|reflexivity].
Qed.

Lemma csum_fresh s : inv s -> csum s (nt s) = 0.
Proof.
  intros Hi. unfold csum. apply sumn_zero. intros c Hc. unfold ccon.
  pose proof (ti_watch _ _ (i_team _ Hi c Hc)) as W.
  destruct (tk (ctl s c)); try reflexivity. destruct W as (A&_).
  destruct (Nat.eqb_spec p (nt s)); [lia|reflexivity].
Qed.

Lemma newteam_c n k e : match k with KSub t => (t < n)%nat /\ e <> Some n | _ => True end ->
  tinvc n (mkctl k LNasc WNone) (mkobj 1 true 1 true false None 0) 0 0 e.
Proof.
  intros H. unfold tinvc. cbn -[Z.add Z.sub Z.opp].
  destruct k; splits; try reflexivity; try lia; intuition (congruence || lia).
Qed.

Lemma shapeNT s s' k : inv s ->
  nt s' = S (nt s) -> nm s' = nm s -> mem s' = mem s -> uaf s' = false ->
  (forall j, ctl s' j = if Nat.eqb j (nt s) then mkctl k LNasc WNone else ctl s j) ->
  obj s' (nt s) = mkobj 1 true 1 true false None 0 ->
  (forall j, j <> nt s -> eu (obj s' j) = eu (obj s j)) ->
  match k with KSub t => (t < nt s)%nat | _ => True end ->
  (forall x, (x < nt s)%nat ->
     tinvc x (ctl s x) (obj s' x) (msum s x) (ccon x (mkctl k LNasc WNone) + csum s x) (eup s (ctl s x))) ->
  inv s'.
Proof.
  intros Hi Hnt Hnm Hmem Hu Hctl Hon Heu Hk Hold.
  assert (Hms : forall x, msum s' x = msum s x) by (intro; unfold msum; rewrite Hnm, Hmem; reflexivity).
  assert (Hcs : forall x, csum s' x = ccon x (mkctl k LNasc WNone) + csum s x).
  { intro x. rewrite (csum_new s s' x Hnt).
    - rewrite Hctl, Nat.eqb_refl. reflexivity.
    - intros j Hj. rewrite Hctl. destruct (Nat.eqb_spec j (nt s)); [lia|reflexivity]. }
  assert (Hcold : forall j, (j < nt s)%nat -> ctl s' j = ctl s j).
  { intros j Hj. rewrite Hctl. destruct (Nat.eqb_spec j (nt s)); [lia|reflexivity]. }
  constructor.
  - intros x Hx. rewrite Hnt in Hx. destruct (Nat.eq_dec x (nt s)) as [->|Hxn].
    + apply tinv_of_c.
      * rewrite Hms, Hcs, Hctl, Nat.eqb_refl, Hon, (msum_fresh s Hi), (csum_fresh s Hi).
        replace (ccon (nt s) (mkctl k LNasc WNone)) with 0.
        -- apply newteam_c. unfold eup. cbn [tk]. destruct k as [| |t]; auto. split; [exact Hk|].
           rewrite Heu by lia. intro X. destruct (ti_eu _ _ (i_team _ Hi t Hk) _ X) as [A _]. lia.
        -- unfold ccon. cbn [tk lpc]. destruct k as [| |t]; auto.
           destruct (Nat.eqb_spec t (nt s)); [lia|reflexivity].
      * intros c Hc. rewrite Hon in Hc. cbn in Hc. discriminate.
    + assert (Hx' : (x < nt s)%nat) by lia.
      apply tinv_of_c.
      * rewrite Hms, Hcs, (Hcold x Hx').
        replace (eup s' (ctl s x)) with (eup s (ctl s x)); [apply Hold; exact Hx'|].
        unfold eup. pose proof (ti_watch _ _ (i_team _ Hi x Hx')) as W.
        destruct (tk (ctl s x)); auto. rewrite Heu; [reflexivity|lia].
      * intros c Hc. rewrite Heu in Hc by exact Hxn.
        destruct (ti_eu _ _ (i_team _ Hi x Hx') c Hc) as [A B].
        rewrite Hnt, (Hcold c A). split; [lia|exact B].
  - intros m x Hm E. rewrite Hnm in Hm. rewrite Hmem in E. pose proof (i_memb _ Hi m x Hm E). lia.
  - exact Hu.
Qed.

Lemma new_team_plain s k : inv s -> is_ksub k = false -> inv (new_team s k).
Proof.
  intros Hi Hk. apply (shapeNT s _ k); [exact Hi|reflexivity|reflexivity|reflexivity|exact (i_uaf _ Hi)|intro j; reflexivity| | | |].
  - cbn. unfold fupd. rewrite Nat.eqb_refl. reflexivity.
  - intros j Hj. cbn. unfold fupd. destruct (Nat.eqb_spec j (nt s)); [contradiction|reflexivity].
  - destruct k; try exact I. discriminate.
  - intros x Hx. replace (ccon x (mkctl k LNasc WNone)) with 0 by (unfold ccon; destruct k; try reflexivity; discriminate).
    rewrite Z.add_0_l. cbn. unfold fupd. destruct (Nat.eqb_spec x (nt s)); [lia|].
    exact (proj1 (tinv_c _ _ (i_team _ Hi x Hx))).
Qed.

Lemma new_team_sub s t : inv s -> (t < nt s)%nat -> (lrank (lpc (ctl s t)) <= 7)%nat ->
  inv (new_team (set_obj s t (set_subs (obj s t) (subs (obj s t) + 1)) (subs_dead (obj s t))) (KSub t)).
Proof.
  intros Hi Ht Hr.
  pose proof (ti_subsok _ _ (i_team _ Hi t Ht)) as F1. pose proof (ti_freed _ _ (i_team _ Hi t Ht)) as F2.
  apply (shapeNT s _ (KSub t)); [exact Hi|reflexivity|reflexivity|reflexivity| |intro j; reflexivity| | | |].
  - cbn. unfold subs_dead. rewrite (i_uaf _ Hi). lia.
  - cbn. unfold fupd. rewrite Nat.eqb_refl. reflexivity.
  - intros j Hj. cbn. unfold fupd. destruct (Nat.eqb_spec j (nt s)); [contradiction|].
    destruct (Nat.eqb_spec j t); [subst j|]; reflexivity.
  - exact Ht.
  - intros x Hx. cbn -[Z.add]. unfold fupd. destruct (Nat.eqb_spec x (nt s)); [lia|].
    unfold ccon. cbn -[Z.add]. rewrite (Nat.eqb_sym t x).
    destruct (Nat.eqb_spec x t) as [->|Hxt].
    + cbn [andb]. rewrite (Z.add_comm _ (csum s t)).
      apply tinvc_subs_shift; [exact (proj1 (tinv_c _ _ (i_team _ Hi t Ht)))|lia|reflexivity].
    + cbn [andb]. rewrite Z.add_0_l. exact (proj1 (tinv_c _ _ (i_team _ Hi x Hx))).
Qed.

Lemma new_memb_none s : inv s -> inv (new_memb s None).
Proof.
  intros Hi. apply (shapeM s); [exact Hi|reflexivity|reflexivity|reflexivity|exact (i_uaf _ Hi)| |].
  - intros k x Hk E. cbn in Hk, E. unfold fupd in E.
    destruct (Nat.eqb_spec k (nm s)); [discriminate|]. apply (i_memb _ Hi k x); [lia|exact E].
  - intro x. rewrite (msum_new s _ x); [|reflexivity|].
    + cbn. unfold fupd. rewrite Nat.eqb_refl. reflexivity.
    + intros j Hj. cbn. unfold fupd. destruct (Nat.eqb_spec j (nm s)); [lia|reflexivity].
Qed.

Lemma new_memb_some s t : inv s -> (t < nt s)%nat -> (lrank (lpc (ctl s t)) <= 7)%nat ->
  inv (new_memb (set_obj s t (set_sinc (obj s t) (sinc (obj s t) + 1)) (sinc_dead (obj s t))) (Some t)).
Proof.
  intros Hi Ht Hr.
  pose proof (ti_sincok _ _ (i_team _ Hi t Ht)) as F1. pose proof (ti_freed _ _ (i_team _ Hi t Ht)) as F2.
  match goal with |- inv ?S => set (s1 := S) end.
  assert (Hms : forall x, msum s1 x = mcon x (mkmemb (Some t) MNasc) + msum s x).
  { intro x. rewrite (msum_new s s1 x); [|reflexivity|].
    + subst s1. cbn -[Z.add]. unfold fupd. rewrite Nat.eqb_refl. reflexivity.
    + intros j Hj. subst s1. cbn. unfold fupd. destruct (Nat.eqb_spec j (nm s)); [lia|reflexivity]. }
  apply (shapeMS s s1 t 1 (sinc (obj s t) + 1)); [exact Hi|exact Ht|exact Hr|reflexivity|reflexivity| | | | | |].
  - subst s1. ptwise t.
  - reflexivity.
  - subst s1. cbn. unfold sinc_dead. rewrite (i_uaf _ Hi). lia.
  - intros k x Hk E. subst s1. cbn in Hk, E. unfold fupd in E.
    destruct (Nat.eqb_spec k (nm s)); [cbn in E; injection E as <-; exact Ht|].
    apply (i_memb _ Hi k x); [lia|exact E].
  - intros x Hx. rewrite Hms. unfold mcon. cbn -[Z.add]. destruct (Nat.eqb_spec t x); [congruence|]. cbn. reflexivity.
  - rewrite Hms. unfold mcon. cbn -[Z.add]. rewrite Nat.eqb_refl. cbn -[Z.add]. lia.
Qed.

Lemma spawn_inv s cur a s' : inv s ->
  (forall t, cur = Some t -> (t < nt s)%nat /\ (lrank (lpc (ctl s t)) <= 7)%nat) ->
  do_spawn s cur a = Some s' -> inv s'.
Proof.
  intros Hi Hcur Hs. unfold do_spawn in Hs.
  destruct a; try discriminate; destruct cur as [t|]; try discriminate; injection Hs as <-.
  - destruct (Hcur t eq_refl). apply new_memb_some; assumption.
  - apply new_memb_none; assumption.
  - destruct (Hcur t eq_refl). apply new_team_sub; assumption.
  - apply new_team_plain; [assumption|reflexivity].
  - apply new_team_plain; [assumption|reflexivity].
  - apply new_team_plain; [assumption|reflexivity].
Qed.

(* ---------- the theorems ---------- *)
Lemma inv_init : inv init.
Proof.
  constructor.
  - intros t Ht. cbn in Ht. lia.
  - intros k t Hk E. cbn in E. discriminate.
  - reflexivity.
Qed.

Lemma lead_step_inv s t s' : inv s -> (t < nt s)%nat -> lead_step false s t = Some s' -> inv s'.
Proof.
  intros Hi Ht Hs.
  destruct (lpc (ctl s t)) eqn:Hl;
    try (apply (lead_own_inv s t s' Hi Ht); [rewrite Hl; discriminate|rewrite Hl; discriminate|rewrite Hl; discriminate|rewrite Hl; discriminate|exact Hs]).
  - apply (lead_wx_inv s t s' Hi Ht); [left; exact Hl|exact Hs].
  - apply (lead_wx_inv s t s' Hi Ht); [right; exact Hl|exact Hs].
  - exact (lead_LF s t s' Hi Ht Hl Hs).
  - exact (lead_LH s t s' Hi Ht Hl Hs).
Qed.

Lemma watch_step_inv s t s' : inv s -> (t < nt s)%nat -> watch_step s t = Some s' -> inv s'.
Proof.
  intros Hi Ht Hs.
  destruct (wpc (ctl s t)) eqn:Hw; try (unfold watch_step in Hs; rewrite Hw in Hs; discriminate).
  - apply (watch_own_inv s t s' Hi Ht); [left; exact Hw|exact Hs].
  - exact (watch_WS s t s' Hi Ht Hw Hs).
  - apply (watch_own_inv s t s' Hi Ht); [right; exact Hw|exact Hs].
Qed.

Lemma step_inv : forall s l s', inv s -> step false s l = Some s' -> inv s'.
Proof.
  intros s [[t|t|k] a] s' Hi Hs; unfold step in Hs.
  - destruct (Nat.ltb_spec t (nt s)) as [Ht|]; [|discriminate].
    destruct a.
    + exact (lead_step_inv s t s' Hi Ht Hs).
    + destruct (lpc (ctl s t)) eqn:Hl; try discriminate. injection Hs as <-. apply lead_rel_inv; assumption.
    + destruct (lpc (ctl s t)) eqn:Hl; try discriminate.
      apply (spawn_inv s (Some t) ASpawnM s' Hi); [|exact Hs].
      intros t0 E. injection E as <-. split; [exact Ht|rewrite Hl; cbn; lia].
    + destruct (lpc (ctl s t)) eqn:Hl; try discriminate.
      apply (spawn_inv s (Some t) ASpawnS s' Hi); [|exact Hs].
      intros t0 E. injection E as <-. split; [exact Ht|rewrite Hl; cbn; lia].
    + destruct (lpc (ctl s t)) eqn:Hl; try discriminate.
      apply (spawn_inv s (Some t) ASpawnT s' Hi); [|exact Hs].
      intros t0 E. injection E as <-. split; [exact Ht|rewrite Hl; cbn; lia].
  - destruct (Nat.ltb_spec t (nt s)) as [Ht|]; [|discriminate].
    destruct a; try discriminate.
    + exact (watch_step_inv s t s' Hi Ht Hs).
    + destruct (wpc (ctl s t)) eqn:Hw; try discriminate. injection Hs as <-. apply watch_rel_inv; assumption.
  - destruct (Nat.ltb_spec k (nm s)) as [Hk|]; [|discriminate].
    assert (Hsp : forall a0, mpc (mem s k) = MRun -> do_spawn s (mteam (mem s k)) a0 = Some s' -> inv s').
    { intros a0 Hp Hd. apply (spawn_inv s (mteam (mem s k)) a0 s' Hi); [|exact Hd].
      intros t0 E. pose proof (i_memb _ Hi k t0 Hk E) as Ht0. split; [exact Ht0|].
      apply (live_memb_rank s t0 k Hi Ht0 Hk). unfold mcon, mlive. rewrite E, Hp, Nat.eqb_refl. reflexivity. }
    destruct a.
    + exact (memb_step_inv s k s' Hi Hk Hs).
    + destruct (mpc (mem s k)) eqn:Hp; try discriminate. injection Hs as <-.
      apply set_mpc_inv; auto. intro x. unfold mcon, mlive. cbn. rewrite Hp. reflexivity.
    + destruct (mpc (mem s k)) eqn:Hp; try discriminate. apply (Hsp ASpawnM); auto.
    + destruct (mpc (mem s k)) eqn:Hp; try discriminate. apply (Hsp ASpawnS); auto.
    + destruct (mpc (mem s k)) eqn:Hp; try discriminate. apply (Hsp ASpawnT); auto.
Qed.

Theorem run_inv : forall tr s, inv s -> inv (run false s tr).
Proof.
  induction tr as [|l r IH]; intros s Hi; cbn [run]; [exact Hi|].
  destruct (step false s l) as [s'|] eqn:E.
  - apply IH. exact (step_inv s l s' Hi E).
  - apply IH. exact Hi.
Qed.

Corollary reach_inv : forall tr, inv (run false init tr).
Proof. intro tr. apply run_inv. exact inv_init. Qed.
