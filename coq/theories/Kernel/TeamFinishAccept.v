(* C05 extension T: the event acceptor on top of the team-finish machine (Kernel/TeamFinish.v).
   The real code logs, per task, the operations it performs on team sincs / the team structure / the return location; an
   event (actor, op) is accepted iff op is EXACTLY the next operation of the actor's program in the machine (or a spawn
   while its function runs) and the machine's step is enabled.  Definitions only. *)
From Coq Require Import List ZArith Bool Arith.
From QV Require Import Kernel.TeamFinish.
Import ListNotations.

Inductive op :=
| OpRel                      (* the task is enqueued *)
| OpStart                    (* the task's function starts *)
| OpRet                      (* the task's function returns *)
| OpExpectS (t : nat)        (* qt_sinc_expect(team t ->sinc) *)
| OpExpectB (t : nat)        (* qt_sinc_expect(team t ->subteams_sinc) *)
| OpSubmitS (t : nat) | OpSubmitB (t : nat)
| OpWaitS (t : nat) | OpWaitB (t : nat)      (* qt_sinc_wait returned *)
| OpResetS (t : nat)
| OpDestroyS (t : nat) | OpDestroyB (t : nat)
| OpFree (t : nat)
| OpSignal (p : nat)         (* writeEF_const(&team p ->eureka, EXIT(me)) *)
| OpGot (p : nat)            (* watcher: qthread_empty(&team p ->eureka) after reading EXIT(my team) *)
| OpWStart (t : nat)         (* watcher: qthread_fill(&team t ->watcher_started) *)
| OpWaitW (t : nat)          (* leader: readFF(&team t ->watcher_started) returned *)
| OpFill                     (* qthread_wrapper delivers the return value *)
| OpNewTeam                  (* qt_internal_team_new(NULL, NON_TEAM_ID): new team *)
| OpNewSubDef.               (* qt_internal_team_new(NULL, DEFAULT_TEAM_ID): subteam of the default team *)

Definition op_eqb (a b : op) : bool :=
  match a, b with
  | OpRel, OpRel | OpStart, OpStart | OpRet, OpRet | OpFill, OpFill | OpNewTeam, OpNewTeam | OpNewSubDef, OpNewSubDef => true
  | OpExpectS x, OpExpectS y | OpExpectB x, OpExpectB y | OpSubmitS x, OpSubmitS y | OpSubmitB x, OpSubmitB y
  | OpWaitS x, OpWaitS y | OpWaitB x, OpWaitB y | OpResetS x, OpResetS y | OpDestroyS x, OpDestroyS y
  | OpDestroyB x, OpDestroyB y | OpFree x, OpFree y | OpSignal x, OpSignal y | OpGot x, OpGot y
  | OpWStart x, OpWStart y | OpWaitW x, OpWaitW y => Nat.eqb x y
  | _, _ => false
  end.

Definition parent_of (k : tkind) : option nat := match k with KSub p => Some p | _ => None end.

(* the operation the leader of team t performs next *)
Definition lead_op (c : tctl) (t : nat) : option op :=
  match lpc c with
  | LNasc => Some OpRel
  | LReady => Some OpStart          (* the wrapper starts; for a 1.2.2 subteam the watcher is forked before the function *)
  | LWx => Some (OpExpectS t)
  | LWw => Some (OpWaitW t)
  | LRun => Some OpRet
  | LA | LA2 => Some (OpSubmitS t)
  | LB | LG => Some (OpWaitS t)
  | LC => Some (OpSubmitB t)
  | LD => Some (OpWaitB t)
  | LE => Some (OpResetS t)
  | LF => match parent_of (tk c) with Some p => Some (OpSignal p) | None => None end
  | LH => match parent_of (tk c) with Some p => Some (OpSubmitB p) | None => None end
  | LI => Some (OpDestroyS t)
  | LJ => Some (OpDestroyB t)
  | LK => Some (OpFree t)
  | LL => Some OpFill
  | LDone => None
  end.

Definition watch_op (c : tctl) (t : nat) : option op :=
  match wpc c with
  | WNasc => Some OpRel
  | WReady => Some (OpWStart t)
  | WStarted => match parent_of (tk c) with Some p => Some (OpGot p) | None => None end
  | WGot => Some (OpSubmitS t)
  | _ => None
  end.

Definition memb_op (m : memb) : option op :=
  match mpc m with
  | MNasc => Some OpRel
  | MReady => Some OpStart
  | MRun => Some OpRet
  | MRet => match mteam m with Some t => Some (OpSubmitS t) | None => None end
  | MSub => Some OpFill
  | MDone => None
  end.

Definition cur_team (s : state) (a : actor) : option (option nat) :=
  match a with
  | Lead t => if Nat.ltb t (nt s) then match lpc (ctl s t) with LRun => Some (Some t) | _ => None end else None
  | Memb k => if Nat.ltb k (nm s) then match mpc (mem s k) with MRun => Some (mteam (mem s k)) | _ => None end else None
  | Watch _ => None
  end.

Definition next_op (s : state) (a : actor) : option op :=
  match a with
  | Lead t => if Nat.ltb t (nt s) then lead_op (ctl s t) t else None
  | Watch t => if Nat.ltb t (nt s) then watch_op (ctl s t) t else None
  | Memb k => if Nat.ltb k (nm s) then memb_op (mem s k) else None
  end.

(* one logged event *)
Definition estep (sw : bool) (s : state) (a : actor) (o : op) : option state :=
  let prog := match next_op s a with
              | Some o' => if op_eqb o o' then step sw s (a, match o with OpRel => ARel | _ => AStep end) else None
              | None => None
              end in
  match prog with
  | Some s' => Some s'
  | None =>
    (* a spawn by a task whose function runs: the registration names the spawner's OWN team *)
    match cur_team s a, o with
    | Some (Some t), OpExpectS t' => if Nat.eqb t t' then step sw s (a, ASpawnM) else None
    | Some (Some t), OpExpectB t' => if Nat.eqb t t' then step sw s (a, ASpawnS) else None
    | Some None, OpNewSubDef => step sw s (a, ASpawnS)
    | Some None, OpStart => None
    | Some _, OpNewTeam => step sw s (a, ASpawnT)
    | _, _ => None
    end
  end.

(* a member of the default team spawning a member: no registration at all (no event), performed on the harness marker *)
Definition espawn_default_member (sw : bool) (s : state) (a : actor) : option state :=
  match cur_team s a with Some None => step sw s (a, ASpawnM) | _ => None end.

(* a MRet member of the default team has no teamfinish: its next logged event is the fill *)
Definition skip_default_finish (sw : bool) (s : state) (k : nat) : option state :=
  if Nat.ltb k (nm s) then
    match mpc (mem s k), mteam (mem s k) with MRet, None => step sw s (Memb k, AStep) | _, _ => None end
  else None.

(* queries used by the driver *)
Definition q_lpc (s : state) (t : nat) : lpcT := lpc (ctl s t).
Definition q_wpc (s : state) (t : nat) : wpcT := wpc (ctl s t).
Definition q_kind (s : state) (t : nat) : tkind := tk (ctl s t).
Definition q_mpc (s : state) (k : nat) : mpcT := mpc (mem s k).
Definition q_mteam (s : state) (k : nat) : option nat := mteam (mem s k).
Definition q_sinc (s : state) (t : nat) : Z := sinc (obj s t).
Definition q_subs (s : state) (t : nat) : Z := subs (obj s t).
Definition q_fills (s : state) (t : nat) : nat := fills (obj s t).
Definition q_eu (s : state) (t : nat) : option nat := eu (obj s t).
