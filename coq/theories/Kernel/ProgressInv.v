(* C04 progress (extension M), proofs part 1: a kernel-level invariant that ties the place of every task reference to the
   state of its descriptor (queued / held tasks are runnable, a worker only holds tasks in the states the post-switch of
   qthread_master knows, blocked tasks are FEB_BLOCKED, freed ones TERMINATED, the main task stays on shepherd 0 / worker 0,
   targets and shepherd pointers are in range).  Preserved by every label the composed system (Kernel/Progress.v) emits. *)
From Coq Require Import List Bool Arith NArith ZArith Lia.
From QV Require Import Kernel.GenSpawnTable Kernel.Placement Kernel.ProofsPlacement Kernel.Model Kernel.ProofsKernel Kernel.ProofsC07 Kernel.ProofsPin Kernel.Progress.
Import ListNotations.

Definition runnable (x : task) : Prop := x.(t_state) = NEW \/ (x.(t_state) = RUNNING /\ x.(t_simple) = false).

Definition cons_ok (ns nw t : nat) (l : loc) (x : task) : Prop :=
  (forall h, x.(t_target) = Some h -> h < ns) /\
  x.(t_mccoy) = (t =? 0) /\
  x.(t_shep) < ns /\
  (t = 0 -> x.(t_shep) = 0 /\ x.(t_target) = None /\ x.(t_unsteal) = true) /\
  match l with
  | InQueue q b => q < ns /\ b = negb x.(t_unsteal) /\ runnable x /\ (t = 0 -> q = 0)
  | Held s w near => near = false /\ s < ns /\ w < nw /\ runnable x /\ (t = 0 -> s = 0 /\ w = 0)
  | OnWorker s w => s < ns /\ w < nw /\ (t = 0 -> s = 0 /\ w = 0) /\
                    (x.(t_state) = RUNNING \/ x.(t_state) = TERMINATED \/
                     (x.(t_simple) = false /\ (x.(t_state) = YIELDED \/ x.(t_state) = SYSCALL \/
                                               (x.(t_state) = MIGRATING /\ x.(t_target) <> None)))) /\
                    (x.(t_mayblock) = true -> x.(t_simple) = false)
  | Blocked => x.(t_state) = FEB_BLOCKED /\ x.(t_simple) = false
  | InSyscall => x.(t_state) = RUNNING /\ x.(t_simple) = false
  | Nascent => x.(t_state) = NASCENT /\ t <> 0
  | Freed => x.(t_state) = TERMINATED
  end.

Lemma cons_take ns nw t s0 b ox s w from :
  cons_ok ns nw t (InQueue s0 b) ox ->
  negb ((s <? ns) && (w <? nw) && (from <? ns)) = false -> negb (s0 =? from) = false ->
  negb (from =? s) && negb b = false -> t_mccoy ox && negb (w =? 0) = false ->
  cons_ok ns nw t (Held s w false) ox.
Proof.
  unfold cons_ok at 1; cbn [t_mccoy]; intros (A & B & C & D & E1 & E2 & E3 & E4) H1 H2 H3 H4.
  apply negb_false_iff in H1, H2. apply andb_true_iff in H1. destruct H1 as [H1 H1c].
  apply andb_true_iff in H1. destruct H1 as [H1a H1b].
  apply Nat.ltb_lt in H1a, H1b, H1c. apply Nat.eqb_eq in H2. subst s0.
  assert (T0 : t = 0 -> s = 0 /\ w = 0).
  { intros ->. destruct (D eq_refl) as (D1 & D2 & D3). rewrite D3 in E2. cbn in E2. subst b.
    rewrite (E4 eq_refl) in *. cbn [negb] in H3. rewrite andb_true_r in H3. apply negb_false_iff, Nat.eqb_eq in H3.
    rewrite B, Nat.eqb_refl in H4. cbn [andb] in H4. apply negb_false_iff, Nat.eqb_eq in H4. auto. }
  unfold cons_ok. split; [|split; [|split; [|split]]]; auto.
  all: try (split; [|split; [|split; [|split]]]; auto).
Qed.

Lemma cons_migrate_same ns nw t n n0 ox h :
  cons_ok ns nw t (OnWorker n n0) ox -> migrate_case_of (t_mccoy ox) n h ns = MSame -> t_state ox = RUNNING ->
  cons_ok ns nw t (OnWorker n n0) (with_pin ox h true).
Proof.
  unfold cons_ok at 1; cbn [t_mccoy]; intros (A & B & C & D & E1 & E2 & E3 & E4 & E5) M R. unfold migrate_case_of in M.
  destruct (t_mccoy ox) eqn:Mc; [discriminate|]. destruct h as [x|]; [|discriminate].
  destruct (x =? n) eqn:X; [apply Nat.eqb_eq in X; subst x|destruct (x <? ns); discriminate].
  assert (t <> 0) by (intros ->; cbn in B; discriminate).
  unfold cons_ok; cbn. split; [|split; [|split; [|split]]]; auto; try tauto; try congruence.
  all: try (intros h Hh; inversion Hh; subst; auto).
Qed.

Lemma cons_migrate_unpin ns nw t n n0 ox h :
  cons_ok ns nw t (OnWorker n n0) ox -> migrate_case_of (t_mccoy ox) n h ns = MUnpin -> t_state ox = RUNNING ->
  cons_ok ns nw t (OnWorker n n0) (with_pin ox None false).
Proof.
  unfold cons_ok at 1; cbn [t_mccoy]; intros (A & B & C & D & E1 & E2 & E3 & E4 & E5) M R. unfold migrate_case_of in M.
  destruct (t_mccoy ox) eqn:Mc; [discriminate|].
  assert (t <> 0) by (intros ->; cbn in B; discriminate).
  unfold cons_ok; cbn. split; [|split; [|split; [|split]]]; auto; try tauto; try congruence. all: try (intros h0 Hh; discriminate).
Qed.

Lemma cons_migrate_move ns nw t n n0 ox h :
  cons_ok ns nw t (OnWorker n n0) ox -> migrate_case_of (t_mccoy ox) n h ns = MMove -> t_state ox = RUNNING ->
  t_simple ox = false ->
  cons_ok ns nw t (OnWorker n n0) (with_state (with_pin ox h true) MIGRATING).
Proof.
  unfold cons_ok at 1; cbn [t_mccoy]; intros (A & B & C & D & E1 & E2 & E3 & E4 & E5) M R S. unfold migrate_case_of in M.
  destruct (t_mccoy ox) eqn:Mc; [discriminate|]. destruct h as [x|]; [|discriminate].
  destruct (x =? n) eqn:X; [discriminate|]. destruct (x <? ns) eqn:L; [|discriminate]. apply Nat.ltb_lt in L.
  assert (t <> 0) by (intros ->; cbn in B; discriminate).
  unfold cons_ok; cbn. split; [|split; [|split; [|split]]]; auto; try tauto; try congruence.
  all: try (intros h Hh; inversion Hh; subst; auto; fail).
  split; [|split; [|split; [|split]]]; auto.
  right. right. split; auto. right. right. split; auto. discriminate.
Qed.

Lemma cons_wake ns nw t ox q tu ws :
  cons_ok ns nw t Blocked ox ->
  (q =? wake_dest tu (t_unsteal ox) (t_shep ox) ws) && (ws <? ns) && (q <? ns) && tstate_eqb (t_state ox) FEB_BLOCKED = true ->
  cons_ok ns nw t (InQueue q (qnode ox)) (with_state ox RUNNING).
Proof.
  unfold cons_ok at 1; cbn [t_mccoy]; intros (A & B & C & D & E1 & E2) H.
  apply andb_true_iff in H. destruct H as [H H4]. apply andb_true_iff in H. destruct H as [H H3].
  apply andb_true_iff in H. destruct H as [H1 H2]. apply Nat.eqb_eq in H1. apply Nat.ltb_lt in H2, H3.
  unfold cons_ok, runnable, qnode; cbn. split; [|split; [|split; [|split]]]; auto.
  split; [|split; [|split]]; auto.
  intros ->. destruct (D eq_refl) as (D1 & D2 & D3). rewrite D3, D1 in H1. rewrite wake_dest_pinned in H1. auto.
Qed.

Lemma cons_launch ns nw t ox q ws :
  cons_ok ns nw t Nascent ox ->
  (q =? launch_dest (t_target ox) ws) && (ws <? ns) && (q <? ns) && tstate_eqb (t_state ox) NASCENT = true ->
  cons_ok ns nw t (InQueue q (qnode ox)) (with_state ox NEW).
Proof.
  unfold cons_ok at 1; cbn [t_mccoy]; intros (A & B & C & D & E1 & E2) H.
  apply andb_true_iff in H. destruct H as [H H4]. apply andb_true_iff in H. destruct H as [H H3].
  apply Nat.ltb_lt in H3.
  unfold cons_ok, runnable, qnode; cbn. split; [|split; [|split; [|split]]]; auto.
  split; [|split; [|split]]; auto. intros ->. congruence.
Qed.

Definition KC (ns nw : nat) (ps : list (nat * loc)) (ts : list (nat * task)) : Prop :=
  forall t l, In (t, l) ps -> exists x, get_task t ts = Some x /\ cons_ok ns nw t l x.

Lemma KC_move_upd ns nw ps ts t0 x0 f to :
  KC ns nw ps ts -> get_task t0 ts = Some x0 -> cons_ok ns nw t0 to (f x0) ->
  KC ns nw ((t0, to) :: drop_tid t0 ps) (upd_task t0 f ts).
Proof.
  intros K G C t l [X|X].
  - inversion X; subst. rewrite get_upd, Nat.eqb_refl, G. cbn. eauto.
  - apply in_drop_tid in X. destruct X as [X Ne]. destruct (K _ _ X) as (x & Gx & Cx).
    exists x. split; auto. rewrite get_upd. destruct (t0 =? t) eqn:E; auto. apply Nat.eqb_eq in E. congruence.
Qed.

Lemma KC_move ns nw ps ts t0 x0 to :
  KC ns nw ps ts -> get_task t0 ts = Some x0 -> cons_ok ns nw t0 to x0 ->
  KC ns nw ((t0, to) :: drop_tid t0 ps) ts.
Proof.
  intros K G C t l [X|X].
  - inversion X; subst. eauto.
  - apply in_drop_tid in X. destruct X as [X Ne]. eauto.
Qed.

Lemma KC_upd ns nw ps ts t0 x0 f l0 :
  NoDup (map fst ps) -> KC ns nw ps ts -> place_of t0 ps = Some l0 -> get_task t0 ts = Some x0 ->
  cons_ok ns nw t0 l0 (f x0) -> KC ns nw ps (upd_task t0 f ts).
Proof.
  intros ND K P G C t l X. rewrite get_upd. destruct (t0 =? t) eqn:E.
  - apply Nat.eqb_eq in E; subst t. rewrite G. cbn. pose proof (in_place_of _ _ _ ND X) as P'.
    rewrite P in P'. inversion P'; subst. eauto.
  - eauto.
Qed.

Lemma KC_new ns nw ps ts n x l :
  KC ns nw ps ts -> (forall l', ~ In (n, l') ps) -> cons_ok ns nw n l x -> KC ns nw ((n, l) :: ps) ((n, x) :: ts).
Proof.
  intros K N C t l0 [X|X].
  - inversion X; subst. cbn. rewrite Nat.eqb_refl. eauto.
  - cbn. destruct (n =? t) eqn:E; [apply Nat.eqb_eq in E; subst; exfalso; eapply N; eauto|eauto].
Qed.

Definition kinv (st : state) : Prop :=
  refs_ok st /\ 0 < st.(nsh) /\ 0 < st.(nwk) /\ 0 < st.(next) /\ KC st.(nsh) st.(nwk) st.(places) st.(tasks).

(* labels the composed system emits *)
Definition my_label (l : label) : bool :=
  match l with
  | LReroute _ _ _ _ | LYieldNear _ | LPostNear _ _ _ | LRequeueNear _ _ _ | LDisable _ | LEnable _ => false
  | _ => true
  end.

Lemma worker_ref_in s w ps t l : worker_ref s w ps = Some (t, l) -> In (t, l) ps /\
  (l = OnWorker s w \/ exists n, l = Held s w n).
Proof.
  induction ps as [|[k v] r IH]; cbn; [discriminate|].
  destruct v; try (intros H; destruct (IH H); split; auto; fail).
  - destruct ((s =? s0) && (w =? w0)) eqn:E.
    + intros H; inversion H; subst. apply andb_true_iff in E. destruct E as [A B].
      apply Nat.eqb_eq in A, B. subst. split; auto. right. eauto.
    + intros H; destruct (IH H); split; auto.
  - destruct ((s =? s0) && (w =? w0)) eqn:E.
    + intros H; inversion H; subst. apply andb_true_iff in E. destruct E as [A B].
      apply Nat.eqb_eq in A, B. subst. split; auto.
    + intros H; destruct (IH H); split; auto.
Qed.

Ltac norm_state :=
  cbn [places tasks nsh nwk next modify set_tasks set_mem set_active set_places] in *;
  repeat match goal with
         | X : places ?s = _ |- _ => rewrite X in *; clear X
         | X : tasks ?s = _ |- _ => rewrite X in *; clear X
         | X : nsh ?s = _ |- _ => rewrite X in *; clear X
         | X : nwk ?s = _ |- _ => rewrite X in *; clear X
         | X : next ?s = _ |- _ => rewrite X in *; clear X
         end;
  cbn [places tasks nsh nwk next modify set_tasks set_mem set_active set_places] in *.

Ltac old_cons K :=
  repeat match goal with
         | P : place_of ?t (places ?st) = Some ?l |- _ =>
           lazymatch goal with
           | _ : cons_ok _ _ t l _ |- _ => fail
           | _ => let x := fresh "ox" in let G := fresh "OG" in let C := fresh "OC" in
                  destruct (K _ _ (place_of_in _ _ _ P)) as (x & G & C)
           end
         end.

Ltac same_task :=
  repeat match goal with
         | G0 : get_task ?t ?ts = Some ?y0, G1 : get_task ?t ?ts = Some ?y1 |- _ =>
           rewrite G0 in G1; inversion G1; subst; clear G1
         end.

Ltac bool_facts :=
  repeat match goal with
         | E : tstate_eqb _ _ = true |- _ => apply tstate_eqb_eq in E
         | E : _ && _ = true |- _ => apply andb_true_iff in E; destruct E
         | E : negb _ = true |- _ => apply negb_true_iff in E
         | E : negb _ = false |- _ => apply negb_false_iff in E
         | E : (_ =? _) = true |- _ => apply Nat.eqb_eq in E
         | E : (_ <? _) = true |- _ => apply Nat.ltb_lt in E
         | E : _ || _ = false |- _ => apply orb_false_iff in E; destruct E
         end.

Ltac solve_cons :=
  unfold cons_ok, runnable in *; cbn in *; bool_facts;
  repeat match goal with H : _ /\ _ |- _ => destruct H end;
  repeat split; intros; subst; try congruence; try lia; auto;
  try (intuition (try congruence; try lia; eauto); fail).

Ltac split_bools :=
  repeat match goal with
         | E : _ && _ = false |- _ => apply andb_false_iff in E; destruct E
         | E : (_ =? _) = false |- _ => apply Nat.eqb_neq in E
         | E : (_ <? _) = false |- _ => apply Nat.ltb_ge in E
         | E : negb _ = true |- _ => apply negb_true_iff in E
         | E : negb _ = false |- _ => apply negb_false_iff in E
         | E : (_ =? _) = true |- _ => apply Nat.eqb_eq in E
         | E : (_ <? _) = true |- _ => apply Nat.ltb_lt in E
         end.

Ltac solve_cons2 :=
  unfold cons_ok, runnable, dispatch, migrate_case_of, wake_dest, launch_dest, qnode in *; cbn in *; bool_facts;
  repeat match goal with H : _ /\ _ |- _ => destruct H end;
  repeat match goal with
         | H : context [match t_target ?x with _ => _ end] |- _ => destruct (t_target x) eqn:?
         | H : context [if ?c then _ else _] |- _ => destruct c eqn:?
         | |- context [match t_target ?x with _ => _ end] => destruct (t_target x) eqn:?
         | |- context [if ?c then _ else _] => destruct c eqn:?
         end; try discriminate; split_bools; bool_facts;
  repeat match goal with H : Some _ = Some _ |- _ => inversion H; subst; clear H end;
  repeat match goal with H : DSendHome _ = DSendHome _ |- _ => inversion H; subst; clear H end;
  repeat split; intros; subst; try congruence; try lia; auto;
  try (intuition (try congruence; try lia; eauto); fail).

Lemma kinv_step st l st' : kinv st -> my_label l = true -> step st l = Some st' -> kinv st'.
Proof.
  intros (R & Hs & Hw & Hn & K) ML H.
  assert (R' : refs_ok st') by (eapply refs_ok_step; eauto).
  pose proof (next_mono _ _ _ H) as NM.
  destruct R as [ND Dom].
  destruct l; try discriminate ML; cbn [step] in H; inv_step H; use_running; use_moves;
    try (inversion H; subst; clear H); old_cons K; same_task.
  all: unfold kinv; norm_state; (split; [exact R'|]); repeat (split; [first [assumption|lia]|]).
  all: try assumption.
  all: try (first [ eapply KC_move_upd; [eassumption|eassumption|]
                  | eapply KC_move; [eassumption|eassumption|]
                  | eapply KC_upd; [eassumption|eassumption|eassumption|eassumption|] ]; solve [solve_cons | solve_cons2]).
  (* LTake with a yield-near partner: no such worker state here *)
  all: try (match goal with
            | Y : tstate_eqb _ YIELDED_NEAR = true, W : worker_ref _ _ _ = Some _ |- _ =>
              exfalso; destruct (worker_ref_in _ _ _ _ _ W) as [I _]; destruct (K _ _ I) as (y & Gy & Cy); same_task;
              apply tstate_eqb_eq in Y; unfold cons_ok in Cy; cbn in Cy; rewrite Y in Cy;
              destruct Cy as (_ & _ & _ & _ & _ & _ & _ & Cy & _);
              destruct Cy as [Cy|[Cy|(_ & [Cy|[Cy|[Cy _]]])]]; discriminate Cy
            end).
  all: try (eapply KC_move; [eassumption|eassumption|]; eapply cons_take; eassumption).
  all: try (eapply KC_upd; [eassumption|eassumption|eassumption|eassumption|];
            first [eapply cons_migrate_same; eassumption | eapply cons_migrate_unpin; eassumption
                  | eapply cons_migrate_move; try eassumption; bool_facts; assumption]).
  all: try (eapply KC_move_upd; [eassumption|eassumption|];
            first [eapply cons_wake; eassumption | eapply cons_launch; eassumption]).
  (* LSpawn *)
  assert (Nn : n < nsh st).
  { destruct caller as [[s w]|]; [|inversion Heqo; subst; assumption].
    destruct (worker_ref s w (places st)) as [[y ly]|] eqn:W; [|discriminate].
    destruct ly; try discriminate. inversion Heqo; subst.
    destruct (worker_ref_in _ _ _ _ _ W) as [I [E|[? E]]]; [|discriminate].
    inversion E; subst. destruct (K _ _ I) as (y' & Gy & Cy). unfold cons_ok in Cy; cbn in Cy. tauto. }
  eapply KC_new; [exact K| |].
  - intros l' X. apply (in_map fst) in X. apply Dom in X. cbn in X. lia.
  - set (tg := if r_to row then option_map (fun h => h mod nsh st) shep_param else None).
    assert (TG : forall h, tg = Some h -> h < nsh st).
    { intros h E. unfold tg in E. destruct (r_to row); [|discriminate]. destruct shep_param; [|discriminate].
      cbn in E. inversion E. apply Nat.mod_upper_bound. lia. }
    assert (N0 : next st <> 0) by lia.
    unfold cons_ok, runnable, qnode; cbn. fold tg.
    split; [exact TG|]. split; [symmetry; apply Nat.eqb_neq; assumption|]. split; [assumption|].
    split; [intros; lia|].
    destruct (r_precond row && pre_blocked); cbn.
    + split; auto.
    + split; [destruct tg eqn:T; [apply TG; auto|assumption]|].
      split; [destruct tg; reflexivity|]. split; [left; reflexivity|intros; lia].
Qed.
