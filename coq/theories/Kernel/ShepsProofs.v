(* C07 extension N: theorems about Kernel/Sheps.v (shepherds.c API, sort_sheps / gendists, the worker and shepherd switches) *)
From Coq Require Import List Bool Arith ZArith Lia Permutation Sorted.
From QV Require Import Kernel.Placement Kernel.ProofsPlacement Kernel.Sheps.
Import ListNotations.

(* ================================================================== qthread_shep_next / qthread_shep_prev *)
Lemma shep_next_valid n c : 0 < n -> shep_next n c < n.
Proof. unfold shep_next. intros H. destruct (S c <? n) eqn:E; [apply Nat.ltb_lt in E|]; lia. Qed.

Lemma shep_prev_valid n c : c < n -> shep_prev n c < n.
Proof. unfold shep_prev. intros H. destruct (c =? 0); lia. Qed.

Lemma shep_next_prev n c : c < n -> shep_next n (shep_prev n c) = c.
Proof.
  unfold shep_next, shep_prev. intros H. destruct (c =? 0) eqn:E.
  - apply Nat.eqb_eq in E. subst. destruct (S (n - 1) <? n) eqn:F; [apply Nat.ltb_lt in F; lia|reflexivity].
  - apply Nat.eqb_neq in E. destruct (S (c - 1) <? n) eqn:F; [lia|apply Nat.ltb_ge in F; lia].
Qed.

Lemma shep_prev_next n c : c < n -> shep_prev n (shep_next n c) = c.
Proof.
  unfold shep_next, shep_prev. intros H. destruct (S c <? n) eqn:F.
  - cbn. lia.
  - apply Nat.ltb_ge in F. cbn. lia.
Qed.

Lemma shep_next_prev_valid n c :
  0 < n ->
  shep_next n c < n /\
  (c < n -> shep_prev n c < n /\ shep_next n (shep_prev n c) = c /\ shep_prev n (shep_next n c) = c).
Proof.
  intros H. split; [now apply shep_next_valid|]. intros Hc.
  repeat split; [now apply shep_prev_valid|now apply shep_next_prev|now apply shep_prev_next].
Qed.

(* k applications of shep_next walk round the ring of ALL shepherds, enabled or not *)
Lemma shep_next_iter n c k : c < n -> Nat.iter k (shep_next n) c = (c + k) mod n.
Proof.
  intros H. induction k as [|k IH].
  - cbn. rewrite Nat.add_0_r, Nat.mod_small; auto.
  - change (Nat.iter (S k) (shep_next n) c) with (shep_next n (Nat.iter k (shep_next n) c)). rewrite IH. unfold shep_next.
    assert (Hn : n <> 0) by lia.
    pose proof (Nat.mod_upper_bound (c + k) n Hn) as Hb.
    pose proof (Nat.div_mod (c + k) n Hn) as Hd.
    destruct (S ((c + k) mod n) <? n) eqn:F.
    + apply Nat.ltb_lt in F. apply (Nat.mod_unique _ _ ((c + k) / n)); lia.
    + apply Nat.ltb_ge in F. apply (Nat.mod_unique _ _ (S ((c + k) / n))); lia.
Qed.

(* what the code does with an id that is not a shepherd: prev just decrements *)
Lemma shep_prev_out_of_range_refuted : exists n c, 0 < n /\ ~ shep_prev n c < n.
Proof. exists 2, 7. cbn. lia. Qed.

(* neither function looks at the active flags: every shepherd, disabled or not, is the successor of its predecessor *)
Lemma shep_next_reaches_disabled n (act : nat -> bool) s :
  s < n -> act s = false -> exists c, c < n /\ act (shep_next n c) = false.
Proof. intros H A. exists (shep_prev n s). split; [apply shep_prev_valid; auto|]. rewrite shep_next_prev; auto. Qed.

(* ================================================================== shuffle_sheps is a permutation *)
Lemma upd_length s i x : length (upd s i x) = length s.
Proof. revert i. induction s as [|a s IH]; intros [|i]; cbn; auto. Qed.

Lemma upd_perm s : forall i x, i < length s -> Permutation (x :: s) (nth i s 0 :: upd s i x).
Proof.
  induction s as [|a s IH]; intros i x H; cbn in H; [lia|].
  destruct i as [|i]; cbn.
  - apply perm_swap.
  - eapply perm_trans; [apply perm_swap|].
    eapply perm_trans; [apply perm_skip, (IH i x); lia|]. apply perm_swap.
Qed.

Lemma nth_upd s : forall i j x, i < length s -> nth j (upd s i x) 0 = if i =? j then x else nth j s 0.
Proof.
  induction s as [|a s IH]; intros i j x H; cbn in H; [lia|].
  destruct i as [|i]; destruct j as [|j]; cbn; auto. apply IH. lia.
Qed.

Lemma swap_length s i j : length (swap s i j) = length s.
Proof. unfold swap. now rewrite !upd_length. Qed.

Lemma swap_perm s i j : i < length s -> j < length s -> Permutation (swap s i j) s.
Proof.
  intros Hi Hj. unfold swap.
  set (a := nth i s 0). set (b := nth j s 0). set (s1 := upd s j a).
  assert (P1 : Permutation (a :: s) (b :: s1)) by (apply upd_perm; auto).
  assert (P2 : Permutation (b :: s1) (nth i s1 0 :: upd s1 i b)).
  { apply upd_perm. unfold s1. rewrite upd_length. auto. }
  assert (E : nth i s1 0 = a).
  { unfold s1. rewrite nth_upd by auto. destruct (j =? i); reflexivity. }
  rewrite E in P2. symmetry. eapply Permutation_cons_inv. eapply perm_trans; eauto.
Qed.

Lemma shuffle_from_perm k : forall i s rs, i + k = length s -> Permutation (fst (shuffle_from k i s rs)) s.
Proof.
  induction k as [|k IH]; intros i s rs H; cbn; [reflexivity|].
  destruct (take_rand rs) as [r rs'].
  assert (Hl : length s <> 0) by lia.
  pose proof (Nat.mod_upper_bound r (length s) Hl) as Hb.
  eapply perm_trans; [apply IH; rewrite swap_length; lia|]. apply swap_perm; lia.
Qed.

Lemma shuffle_perm s rs : Permutation (fst (shuffle s rs)) s.
Proof. apply shuffle_from_perm. reflexivity. Qed.

(* ================================================================== sort_sheps: a permutation, sorted by distance *)
Lemma minl_le_head x l : minl x l <= x.
Proof. unfold minl. induction l as [|y l IH]; cbn; lia. Qed.
Lemma minl_le_in x l y : In y l -> minl x l <= y.
Proof. unfold minl. induction l as [|z l IH]; cbn; [tauto|]. intros [->|H]; [lia|]. specialize (IH H). lia. Qed.
Lemma minl_attained x l : minl x l = x \/ In (minl x l) l.
Proof.
  unfold minl. induction l as [|y l IH]; cbn; auto.
  destruct (Nat.min_spec y (fold_right Nat.min x l)) as [[_ E]|[_ E]]; rewrite E; auto. destruct IH; auto.
Qed.

Lemma filter_split {A} (f g : A -> bool) s :
  (forall x, In x s -> g x = negb (f x)) -> Permutation (filter f s ++ filter g s) s.
Proof.
  induction s as [|a s IH]; intros H; cbn; [constructor|].
  rewrite (H a (or_introl eq_refl)). destruct (f a); cbn.
  - constructor. apply IH. intros; apply H; now right.
  - symmetry. apply Permutation_cons_app. symmetry. apply IH. intros; apply H; now right.
Qed.

Section SortedBy.
  Variable d : nat -> nat.
  Definition dle (a b : nat) : Prop := d a <= d b.

  Lemma ssorted_app l1 : forall l2,
    StronglySorted dle l1 -> StronglySorted dle l2 -> (forall a b, In a l1 -> In b l2 -> dle a b) ->
    StronglySorted dle (l1 ++ l2).
  Proof.
    induction l1 as [|a l1 IH]; intros l2 S1 S2 H; cbn; auto.
    inversion S1; subst. constructor.
    - apply IH; auto. intros; apply H; cbn; auto.
    - apply Forall_app; split; auto. apply Forall_forall. intros b Hb. apply H; cbn; auto.
  Qed.

  Lemma ssorted_all_related l : (forall a b, In a l -> In b l -> dle a b) -> StronglySorted dle l.
  Proof.
    induction l as [|a l IH]; intros H; constructor.
    - apply IH. intros; apply H; cbn; auto.
    - apply Forall_forall. intros b Hb. apply H; cbn; auto.
  Qed.

  Lemma sort_loop_spec fuel : forall s acc rs,
    length s <= fuel ->
    Permutation (fst (sort_loop fuel d s acc rs)) (acc ++ s) /\
    (StronglySorted dle acc -> (forall a b, In a acc -> In b s -> dle a b) ->
     StronglySorted dle (fst (sort_loop fuel d s acc rs))).
  Proof.
    induction fuel as [|f IH]; intros s acc rs Hl.
    - destruct s; cbn in Hl; [|lia]. cbn. rewrite app_nil_r. split; auto.
    - destruct s as [|x r]; [cbn; rewrite app_nil_r; split; auto|].
      cbn [sort_loop].
      set (s := x :: r) in *.
      set (m := minl (d x) (map d r)).
      set (grp := filter (fun y => d y =? m) s).
      set (rest := filter (fun y => m <? d y) s).
      set (gr := if 1 <? length grp then shuffle grp rs else (grp, rs)).
      assert (Hmin : forall y, In y s -> m <= d y).
      { intros y [<-|Hy]; [apply minl_le_head|]. apply minl_le_in. now apply in_map. }
      assert (Hatt : exists y, In y s /\ d y = m).
      { destruct (minl_attained (d x) (map d r)) as [E|E].
        - exists x. split; [now left|auto].
        - apply in_map_iff in E. destruct E as (y & E & Hy). exists y. split; [now right|auto]. }
      assert (Psplit : Permutation (grp ++ rest) s).
      { apply filter_split. intros y Hy. specialize (Hmin y Hy).
        destruct (d y =? m) eqn:E1; destruct (m <? d y) eqn:E2; cbn; auto;
          [apply Nat.eqb_eq in E1; apply Nat.ltb_lt in E2; lia|apply Nat.eqb_neq in E1; apply Nat.ltb_ge in E2; lia]. }
      assert (Pgr : Permutation (fst gr) grp).
      { unfold gr. destruct (1 <? length grp); [apply shuffle_perm|reflexivity]. }
      assert (Hgne : grp <> []).
      { destruct Hatt as (y & Hy & E). intros Hn. assert (In y grp) as Hi.
        { apply filter_In. split; auto. now apply Nat.eqb_eq. } rewrite Hn in Hi. contradiction. }
      assert (Hlen : length rest <= f).
      { pose proof (Permutation_length Psplit) as L. rewrite app_length in L.
        assert (Hg : 0 < length grp) by (destruct grp; [congruence|cbn; lia]).
        assert (Ls : length s = S (length r)) by reflexivity. lia. }
      destruct (IH rest (acc ++ fst gr) (snd gr) Hlen) as [P S]. split.
      + eapply perm_trans; [exact P|]. rewrite <- app_assoc. apply Permutation_app_head.
        eapply perm_trans; [apply Permutation_app_tail; exact Pgr|exact Psplit].
      + intros Sacc Hacc. apply S.
        * apply ssorted_app; auto.
          -- apply ssorted_all_related. intros a b Ha Hb.
             apply (Permutation_in _ Pgr) in Ha. apply (Permutation_in _ Pgr) in Hb.
             apply filter_In in Ha. apply filter_In in Hb. destruct Ha as [_ Ea]. destruct Hb as [_ Eb].
             apply Nat.eqb_eq in Ea. apply Nat.eqb_eq in Eb. unfold dle. lia.
          -- intros a b Ha Hb. apply Hacc; auto. apply (Permutation_in _ Pgr) in Hb. apply filter_In in Hb. tauto.
        * intros a b Ha Hb. apply filter_In in Hb. destruct Hb as [Hb Eb]. apply Nat.ltb_lt in Eb.
          apply in_app_or in Ha. destruct Ha as [Ha|Ha]; [apply Hacc; auto|].
          apply (Permutation_in _ Pgr) in Ha. apply filter_In in Ha. destruct Ha as [_ Ea]. apply Nat.eqb_eq in Ea.
          unfold dle. lia.
  Qed.

  Theorem sort_sheps_spec s rs :
    Permutation (fst (sort_sheps d s rs)) s /\ StronglySorted dle (fst (sort_sheps d s rs)).
  Proof.
    unfold sort_sheps. destruct (sort_loop_spec (length s) s [] rs (le_n _)) as [P S]. split; auto.
    apply S; [constructor|intros a b []].
  Qed.
End SortedBy.

(* ================================================================== qt_affinity_gendists: what every shepherd's row and list are *)
Lemma others_spec n i x : In x (others n i) <-> x < n /\ x <> i.
Proof.
  unfold others. rewrite filter_In, in_seq, negb_true_iff, Nat.eqb_neq. lia.
Qed.

Lemma others_nodup n i : NoDup (others n i).
Proof. unfold others. apply NoDup_filter, seq_NoDup. Qed.

Lemma nth_map_seq {A} (f : nat -> A) d n : forall a j, j < n -> nth j (map f (seq a n)) d = f (a + j).
Proof.
  induction n as [|n IH]; intros a j H; [lia|]. cbn. destruct j as [|j].
  - now rewrite Nat.add_0_r.
  - rewrite IH by lia. f_equal. lia.
Qed.

Lemma dist_row_nth n D i j : j < n -> nth j (dist_row n D i) 0 = if j =? i then 0 else D i j.
Proof. intros H. unfold dist_row. now rewrite nth_map_seq. Qed.

Lemma dist_row_length n D i : length (dist_row n D i) = n.
Proof. unfold dist_row. now rewrite map_length, seq_length. Qed.

(* the list qt_affinity_gendists leaves in shepherds[i].sorted_sheplist is a permutation of the OTHER shepherds, sorted by
   non-decreasing distance from i, whatever the distance matrix and whatever rand() returns; shep_dists is indexed by
   shepherd id with slot i = 0 *)
Theorem gendists_row_spec n D i rs :
  i < n ->
  let row := fst (fst (gendists_row n D i rs)) in
  let l := snd (fst (gendists_row n D i rs)) in
  row = dist_row n D i /\
  Permutation l (others n i) /\
  StronglySorted (fun a b => row_fun row a <= row_fun row b) l /\
  StronglySorted (fun a b => D i a <= D i b) l.
Proof.
  intros Hi. unfold gendists_row. destruct (1 <? n) eqn:E; cbn.
  - destruct (sort_sheps_spec (row_fun (dist_row n D i)) (others n i) rs) as [P S].
    repeat split; auto.
    assert (Hin : forall a, In a (fst (sort_sheps (row_fun (dist_row n D i)) (others n i) rs)) -> a < n /\ a <> i).
    { intros a Ha. apply others_spec. eapply Permutation_in; eauto. }
    revert Hin. generalize (fst (sort_sheps (row_fun (dist_row n D i)) (others n i) rs)) S. clear P.
    intros l0 S0. induction S0 as [|a l0 S0 IH F]; intros Hin; constructor.
    + apply IH. intros; apply Hin; now right.
    + rewrite Forall_forall in *. intros b Hb. specialize (F b Hb). unfold dle, row_fun in F.
      destruct (Hin a (or_introl eq_refl)) as [A1 A2]. destruct (Hin b (or_intror Hb)) as [B1 B2].
      rewrite !dist_row_nth in F by auto.
      apply Nat.eqb_neq in A2. apply Nat.eqb_neq in B2. rewrite A2, B2 in F. exact F.
  - apply Nat.ltb_ge in E. assert (n = 1) by lia. subst. assert (i = 0) by lia. subst. cbn.
    repeat split; auto; constructor.
Qed.

(* the whole table: entry i of gendists is gendists_row of i (on the rand() values left over by the earlier shepherds) *)
Lemma gendists_from_nth k : forall i0 n D rs j, j < k ->
  exists rs', nth j (fst (gendists_from k i0 n D rs)) ([], []) = fst (gendists_row n D (i0 + j) rs').
Proof.
  induction k as [|k IH]; intros i0 n D rs j H; [lia|]. cbn.
  destruct j as [|j].
  - exists rs. now rewrite Nat.add_0_r.
  - destruct (IH (S i0) n D (snd (gendists_row n D i0 rs)) j) as (rs' & E); [lia|].
    exists rs'. rewrite E. f_equal. f_equal. lia.
Qed.

Theorem gendists_nth n D rs i : i < n ->
  exists rs', nth i (fst (gendists n D rs)) ([], []) = fst (gendists_row n D i rs').
Proof. intros H. apply (gendists_from_nth n 0 n D rs i H). Qed.

Lemma gendists_from_length k : forall i0 n D rs, length (fst (gendists_from k i0 n D rs)) = k.
Proof. induction k as [|k IH]; intros; cbn; auto. Qed.

Theorem sorted_sheplist_is_permutation n D rs i :
  i < n ->
  let e := nth i (fst (gendists n D rs)) ([], []) in
  fst e = dist_row n D i /\
  Permutation (snd e) (others n i) /\
  StronglySorted (fun a b => D i a <= D i b) (snd e).
Proof.
  intros H. destruct (gendists_nth n D rs i H) as (rs' & E). cbn zeta. rewrite E.
  destruct (gendists_row_spec n D i rs' H) as (A & B & _ & C). auto.
Qed.

(* ================================================================== find_active_shepherd on the lists the code builds *)
Lemma scan_dist rest d qlen act dist : forall best busy coins,
  d best = dist -> d (scan rest d qlen act dist best busy coins) = dist.
Proof.
  induction rest as [|a r IH]; cbn; intros best busy coins Hb; auto.
  destruct (d a =? dist) eqn:E; auto. apply Nat.eqb_eq in E.
  case_ifs; auto.
Qed.

Lemma skip_inactive_sorted (R : nat -> nat -> Prop) l act x rest :
  StronglySorted R l -> skip_inactive l act = x :: rest ->
  (forall y, In y l -> act y = true -> y = x \/ In y rest) /\ (forall y, In y rest -> R x y).
Proof.
  induction l as [|a l IH]; cbn; intros S H; [discriminate|].
  inversion S as [|? ? S' F]; subst. destruct (act a) eqn:E.
  - inversion H; subst. split.
    + intros y [->|Hy] _; auto.
    + rewrite Forall_forall in F. auto.
  - destruct (IH S' H) as [A B]. split; auto.
    intros y [->|Hy] Ay; [congruence|auto].
Qed.

(* on a list sorted by d, the shepherd chosen is one of the NEAREST active ones *)
Theorem fas_nearest l d act qlen coins r :
  StronglySorted (fun a b => d a <= d b) l ->
  fas l d act qlen coins = Some r ->
  forall y, In y l -> act y = true -> d r <= d y.
Proof.
  intros S H y Hy Ay. unfold fas in H. destruct (skip_inactive l act) as [|x rest] eqn:E; [discriminate|].
  inversion H; subst. rewrite scan_dist by reflexivity.
  destruct (skip_inactive_sorted _ _ _ _ _ S E) as [A B].
  destruct (A y Hy Ay) as [->|Hr]; auto.
Qed.

(* fas_active / fas_some restated for the list the runtime builds itself (no permutation hypothesis left): a task
   re-routed from shepherd me lands on an enabled OTHER shepherd, at the smallest distance any enabled other shepherd has,
   whenever one exists — for every distance matrix, rand() sequence, queue lengths and coin sequence *)
Theorem fas_constructed n D rs me act qlen coins :
  me < n ->
  let row := fst (fst (gendists_row n D me rs)) in
  let l := snd (fst (gendists_row n D me rs)) in
  (exists x, x < n /\ x <> me /\ act x = true) ->
  exists r, fas l (row_fun row) act qlen coins = Some r /\ act r = true /\ r < n /\ r <> me /\
            (forall y, y < n -> y <> me -> act y = true -> D me r <= D me y).
Proof.
  intros Hme row l (x & X1 & X2 & X3).
  destruct (gendists_row_spec n D me rs Hme) as (Erow & P & S & _). fold row in Erow, S. fold l in P, S.
  destruct (fas_some l (row_fun row) act qlen coins) as (r & F & Ar & Ir).
  { exists x. split; auto. eapply Permutation_in; [symmetry; exact P|]. apply others_spec. auto. }
  assert (Hr : r < n /\ r <> me) by (apply others_spec; eapply Permutation_in; eauto).
  exists r. repeat split; auto; try tauto.
  intros y Y1 Y2 Y3.
  assert (Iy : In y l) by (eapply Permutation_in; [symmetry; exact P|]; apply others_spec; auto).
  pose proof (fas_nearest l (row_fun row) act qlen coins r S F y Iy Y3) as Hd.
  unfold row_fun in Hd. rewrite Erow, !dist_row_nth in Hd by tauto.
  destruct Hr as [_ Hr]. apply Nat.eqb_neq in Hr. apply Nat.eqb_neq in Y2. rewrite Hr, Y2 in Hd. exact Hd.
Qed.

Theorem fas_constructed_active n D rs me act qlen coins r :
  me < n -> fas (snd (fst (gendists_row n D me rs))) (row_fun (fst (fst (gendists_row n D me rs)))) act qlen coins = Some r ->
  act r = true /\ r < n /\ r <> me.
Proof.
  intros Hme F. split; [eapply fas_active; eauto|].
  apply others_spec. destruct (gendists_row_spec n D me rs Hme) as (_ & P & _).
  eapply Permutation_in; [exact P|]. eapply fas_in_list; eauto.
Qed.

(* shepherd 0 is never disabled: a task on a disabled shepherd always finds a home *)
Corollary fas_constructed_from_disabled n D rs me act qlen coins :
  me < n -> me <> 0 -> act 0 = true ->
  exists r, fas (snd (fst (gendists_row n D me rs))) (row_fun (fst (fst (gendists_row n D me rs)))) act qlen coins = Some r /\
            act r = true /\ r <> me.
Proof.
  intros H1 H2 H3. destruct (fas_constructed n D rs me act qlen coins H1) as (r & A & B & _ & C & _).
  - exists 0. repeat split; auto; lia.
  - eauto.
Qed.

(* ================================================================== qthread_distance *)
Lemma distance_below n rows src dest row :
  src < n -> dest < src -> nth src rows None = Some row -> distance n rows src dest = DistVal (nth dest row 0).
Proof.
  intros H1 H2 E. unfold distance. rewrite E.
  assert (A : (n <=? src) || (n <=? dest) = false).
  { apply orb_false_iff. split; apply Nat.leb_gt; lia. }
  rewrite A. assert (B : src <? dest = false) by (apply Nat.ltb_ge; lia). rewrite B.
  assert (C : dest =? src = false) by (apply Nat.eqb_neq; lia). now rewrite C.
Qed.

Lemma distance_above_shifted n rows src dest row :
  dest < n -> src < dest -> nth src rows None = Some row -> distance n rows src dest = DistVal (nth (dest - 1) row 0).
Proof.
  intros H1 H2 E. unfold distance. rewrite E.
  assert (A : (n <=? src) || (n <=? dest) = false).
  { apply orb_false_iff. split; apply Nat.leb_gt; lia. }
  rewrite A. assert (B : src <? dest = true) by (apply Nat.ltb_lt; lia). now rewrite B.
Qed.

Lemma distance_bad n rows src dest : n <= src \/ n <= dest -> distance n rows src dest = DistBad.
Proof.
  intros H. unfold distance.
  assert (A : (n <=? src) || (n <=? dest) = true).
  { apply orb_true_iff. destruct H; [left|right]; apply Nat.leb_le; lia. }
  now rewrite A.
Qed.

Definition rows_of (tb : list (list nat * list nat)) : list (option (list nat)) := map (fun e => Some (fst e)) tb.

Lemma rows_of_nth tb : forall i, i < length tb -> nth i (rows_of tb) None = Some (fst (nth i tb ([], []))).
Proof. induction tb as [|e tb IH]; intros [|i] H; cbn in *; try lia; auto. apply IH. lia. Qed.

Lemma gendists_length n D rs : length (fst (gendists n D rs)) = n.
Proof. unfold gendists. apply gendists_from_length. Qed.

(* on the tables the runtime builds: exact below the source shepherd ... *)
Theorem distance_constructed_below n D rs src dest :
  src < n -> dest < src -> distance n (rows_of (fst (gendists n D rs))) src dest = DistVal (D src dest).
Proof.
  intros H1 H2. destruct (sorted_sheplist_is_permutation n D rs src H1) as (E & _).
  rewrite (distance_below _ _ _ _ (dist_row n D src)); auto.
  - rewrite dist_row_nth by lia. assert (C : dest =? src = false) by (apply Nat.eqb_neq; lia). now rewrite C.
  - rewrite rows_of_nth by (rewrite gendists_length; auto). now rewrite E.
Qed.

(* ... but above it the code reads slot dest-1 of a row that is indexed by shepherd id: the distance to the NEXT shepherd is
   read from the shepherd's own (zero) slot *)
Theorem distance_constructed_above_refuted :
  exists n D rs src dest, src < dest /\ dest < n /\
    distance n (rows_of (fst (gendists n D rs))) src dest <> DistVal (D src dest).
Proof. exists 2, (fun _ _ => 10), [], 0, 1. repeat split; auto. cbn. discriminate. Qed.

Theorem distance_constructed_above n D rs src dest :
  dest < n -> src < dest ->
  distance n (rows_of (fst (gendists n D rs))) src dest = DistVal (if dest - 1 =? src then 0 else D src (dest - 1)).
Proof.
  intros H1 H2. assert (Hs : src < n) by lia. destruct (sorted_sheplist_is_permutation n D rs src Hs) as (E & _).
  rewrite (distance_above_shifted _ _ _ _ (dist_row n D src)); auto.
  - rewrite dist_row_nth by lia. reflexivity.
  - rewrite rows_of_nth by (rewrite gendists_length; auto). now rewrite E.
Qed.

(* ================================================================== the switches: disable/enable shepherd and worker *)
Definition wf (t : tbl) : Prop := 0 < nsh t /\ length (sact t) = nsh t /\ length (wact t) = nsh t * nwps t.

Lemma set_nth_length l i b : length (set_nth l i b) = length l.
Proof. revert i. induction l as [|x l IH]; intros [|i]; cbn; auto. Qed.

Lemma widx_lt t s k : s < nsh t -> k < nwps t -> widx t s k < nsh t * nwps t.
Proof. unfold widx. intros H1 H2. nia. Qed.

Lemma widx_zero t s k : k < nwps t -> widx t s k = 0 -> s = 0 /\ k = 0.
Proof. unfold widx. intros H1 H2. nia. Qed.

Lemma mod_lt_nsh t w : wf t -> w mod nsh t < nsh t.
Proof. intros (H & _). apply Nat.mod_upper_bound. lia. Qed.

Definition b2z (b : bool) : Z := if b then 1%Z else 0%Z.

Lemma count_true_cons b l : count_true (b :: l) = (b2z b + count_true l)%Z.
Proof. unfold count_true. destruct b; cbn [filter length b2z]; lia. Qed.

Lemma count_set_nth l : forall i b,
  count_true (set_nth l i b) = (count_true l + (if (i <? length l)%nat then b2z b - b2z (nthb l i) else 0))%Z.
Proof.
  induction l as [|x l IH]; intros i b.
  - destruct i; cbn; lia.
  - destruct i as [|i].
    + cbn [set_nth]. rewrite !count_true_cons. unfold nthb. cbn. lia.
    + cbn [set_nth]. rewrite !count_true_cons, IH. unfold nthb. cbn [nth length].
      change (S i <? S (length l)) with (i <? length l). destruct (i <? length l); lia.
Qed.

Lemma apply_op_shape t o : nsh (snd (apply_op t o)) = nsh t /\ nwps (snd (apply_op t o)) = nwps t /\
  length (sact (snd (apply_op t o))) = length (sact t) /\ length (wact (snd (apply_op t o))) = length (wact t).
Proof.
  destruct o as [s|s|w|w]; cbn [apply_op snd];
    unfold disable_worker, enable_worker, disable_shepherd, enable_shepherd; cbn [nsh nwps sact wact];
    repeat match goal with |- context [if ?c then _ else _] => destruct c end;
    cbn [snd nsh nwps sact wact]; rewrite ?set_nth_length; auto.
Qed.

Lemma apply_op_wf t o : wf t -> wf (snd (apply_op t o)).
Proof.
  intros (A & B & C). destruct (apply_op_shape t o) as (E1 & E2 & E3 & E4). unfold wf. rewrite E1, E2, E3, E4. auto.
Qed.

Lemma run_ops_wf ops : forall t, wf t -> wf (run_ops t ops).
Proof. induction ops as [|o ops IH]; intros t H; cbn; auto. apply IH, apply_op_wf, H. Qed.

Lemma run_ops_cons t o ops : run_ops t (o :: ops) = run_ops (snd (apply_op t o)) ops.
Proof. reflexivity. Qed.

(* ---- the first worker of the first shepherd, and the first shepherd, are never disabled *)
Lemma zero_stays t o :
  wf t -> nthb (sact t) 0 = true -> nthb (wact t) 0 = true ->
  nthb (sact (snd (apply_op t o))) 0 = true /\ nthb (wact (snd (apply_op t o))) 0 = true.
Proof.
  intros W S0 W0. pose proof W as (Hn & Ls & Lw).
  destruct o as [s|s|w|w]; cbn [apply_op snd].
  - unfold disable_shepherd. destruct (negb (s <? nsh t)); [auto|]. destruct (s =? 0) eqn:E; [auto|].
    cbn [snd sact wact]. rewrite nthb_set_nth. destruct s; [discriminate|]. auto.
  - unfold enable_shepherd. destruct (s <? nsh t); [|auto]. cbn [sact wact]. rewrite nthb_set_nth.
    destruct ((s =? 0) && (s <? length (sact t))); auto.
  - unfold disable_worker. set (s := w mod nsh t). set (k := w / nsh t).
    destruct (negb (k <? nwps t)) eqn:Ek; [auto|]. apply negb_false_iff, Nat.ltb_lt in Ek.
    destruct ((k =? 0) && (s =? 0)) eqn:Ez; [auto|]. cbn [snd].
    assert (Hw : widx t s k <> 0).
    { intros Hz. destruct (widx_zero t s k Ek Hz) as [-> ->]. discriminate. }
    assert (G : nthb (set_nth (wact t) (widx t s k) false) 0 = true).
    { rewrite nthb_set_nth. destruct (widx t s k) eqn:Ew; [congruence|]. auto. }
    destruct (k =? 0) eqn:Ek0; cbn [sact wact]; auto.
    unfold disable_shepherd. cbn [nsh nwps sact wact nsa nwa].
    destruct (negb (s <? nsh t)); [cbn [snd sact wact]; auto|].
    cbn in Ez. rewrite Ez. cbn [snd sact wact]. rewrite nthb_set_nth. split; auto.
    destruct s; [discriminate|]. auto.
  - unfold enable_worker. set (s := w mod nsh t). set (k := w / nsh t).
    assert (T1 : nthb (sact (if k =? 0 then enable_shepherd t s else t)) 0 = true /\
                 wact (if k =? 0 then enable_shepherd t s else t) = wact t).
    { destruct (k =? 0); auto. unfold enable_shepherd. destruct (s <? nsh t); auto. cbn [sact wact]. split; auto.
      rewrite nthb_set_nth. destruct ((s =? 0) && (s <? length (sact t))); auto. }
    destruct T1 as [T1 T2]. destruct (k <? nwps t); cbn [sact wact]; (split; [auto|]); [|now rewrite T2].
    rewrite T2, nthb_set_nth. destruct ((widx t s k =? 0) && (widx t s k <? length (wact t))); auto.
Qed.

Theorem shepherd0_worker0_never_disabled ops : forall t,
  wf t -> nthb (sact t) 0 = true -> nthb (wact t) 0 = true ->
  nthb (sact (run_ops t ops)) 0 = true /\ nthb (wact (run_ops t ops)) 0 = true.
Proof.
  induction ops as [|o ops IH]; intros t W A B; [auto|]. rewrite run_ops_cons.
  destruct (zero_stays t o W A B). apply IH; auto. now apply apply_op_wf.
Qed.

(* ---- disabling worker 0 of shepherd s (s <> 0) disables the shepherd as well *)
Theorem disable_worker0_disables_shepherd t s :
  wf t -> 0 < s -> s < nsh t -> 0 < nwps t ->
  fst (disable_worker t s) = RcSuccess /\
  nthb (sact (snd (disable_worker t s))) s = false /\
  nthb (wact (snd (disable_worker t s))) (widx t s 0) = false.
Proof.
  intros (Hn & Ls & Lw) H0 H1 H2. unfold disable_worker.
  rewrite Nat.mod_small, Nat.div_small by auto.
  assert (E1 : negb (0 <? nwps t) = false) by (apply negb_false_iff, Nat.ltb_lt; auto). rewrite E1.
  assert (E2 : (0 =? 0) && (s =? 0) = false) by (cbn; apply Nat.eqb_neq; lia). rewrite E2.
  cbn [fst snd Nat.eqb]. split; auto.
  unfold disable_shepherd. cbn [nsh nwps sact wact nsa nwa].
  assert (E3 : negb (s <? nsh t) = false) by (apply negb_false_iff, Nat.ltb_lt; auto). rewrite E3.
  assert (E4 : s =? 0 = false) by (apply Nat.eqb_neq; lia). rewrite E4.
  cbn [snd sact wact]. rewrite !nthb_set_nth, !Nat.eqb_refl.
  assert (E5 : s <? length (sact t) = true) by (apply Nat.ltb_lt; lia).
  assert (E6 : widx t s 0 <? length (wact t) = true).
  { apply Nat.ltb_lt. rewrite Lw. apply widx_lt; auto. }
  rewrite E5, E6. auto.
Qed.

(* ---- the flags after a call do not depend on the counters (C07 only reads the flags) *)
Definition same_flags (a b : tbl) : Prop := nsh a = nsh b /\ nwps a = nwps b /\ sact a = sact b /\ wact a = wact b.

Lemma apply_op_same_flags a b o :
  same_flags a b -> fst (apply_op a o) = fst (apply_op b o) /\ same_flags (snd (apply_op a o)) (snd (apply_op b o)).
Proof.
  intros (E1 & E2 & E3 & E4). destruct a as [n1 w1 s1 wa1 c1 d1], b as [n2 w2 s2 wa2 c2 d2]. cbn in E1, E2, E3, E4. subst.
  destruct o as [s|s|w|w]; cbn [apply_op fst snd];
    unfold disable_worker, enable_worker, disable_shepherd, enable_shepherd, widx, same_flags; cbn [nsh nwps sact wact nsa nwa];
    repeat match goal with |- context [if ?c then _ else _] => destruct c end;
    cbn [fst snd nsh nwps sact wact]; auto.
Qed.

Theorem switch_flags_independent_of_counters ops : forall a b,
  same_flags a b -> same_flags (run_ops a ops) (run_ops b ops).
Proof.
  induction ops as [|o ops IH]; intros a b H; [auto|]. rewrite !run_ops_cons. apply IH. now apply apply_op_same_flags.
Qed.

(* ---- the shepherd flags move exactly as Kernel.Placement's disable_shep / enable_shep (the functions the C07 trace model
   and its theorems disabled_runs_nothing / pinned_exec_home are stated over) *)
Theorem disable_shepherd_is_placement t s :
  sact (snd (disable_shepherd t s)) = disable_shep (nsh t) (sact t) s.
Proof.
  unfold disable_shepherd, disable_shep. destruct (s <? nsh t) eqn:E; cbn [negb].
  - rewrite orb_false_r. destruct (s =? 0); reflexivity.
  - rewrite orb_true_r. reflexivity.
Qed.

Theorem enable_shepherd_is_placement t s :
  sact (enable_shepherd t s) = enable_shep (nsh t) (sact t) s.
Proof. unfold enable_shepherd, enable_shep. destruct (s <? nsh t); reflexivity. Qed.

(* ---- the two counters: nshepherds_active / nworkers_active move on EVERY accepted call, the flags only when they change.
   Exact law: counter - (number of set flags) changes by the ghost value `redundant` of the call *)
Local Open Scope Z_scope.

Lemma step_drift t o : wf t ->
  nsa (snd (apply_op t o)) - count_true (sact (snd (apply_op t o))) = nsa t - count_true (sact t) + fst (redundant t o) /\
  nwa (snd (apply_op t o)) - count_true (wact (snd (apply_op t o))) = nwa t - count_true (wact t) + snd (redundant t o).
Proof.
  intros W. pose proof W as (Hn & Ls & Lw).
  destruct o as [s|s|w|w]; cbn [apply_op snd redundant].
  - unfold disable_shepherd. destruct (s <? nsh t)%nat eqn:E1; cbn [negb andb fst snd]; [|lia].
    destruct (s =? 0)%nat eqn:E2; cbn [negb andb fst snd]; [lia|].
    cbn [nsa nwa sact wact]. rewrite count_set_nth, Ls, E1. destruct (nthb (sact t) s); cbn [negb b2z]; lia.
  - unfold enable_shepherd. destruct (s <? nsh t)%nat eqn:E1; cbn [andb fst snd]; [|lia].
    cbn [nsa nwa sact wact]. rewrite count_set_nth, Ls, E1. destruct (nthb (sact t) s); cbn [b2z]; lia.
  - unfold disable_worker. set (s := (w mod nsh t)%nat). set (k := (w / nsh t)%nat).
    assert (Hs : (s <? nsh t)%nat = true) by (apply Nat.ltb_lt, mod_lt_nsh; auto).
    destruct (k <? nwps t)%nat eqn:Ek; cbn [negb andb fst snd]; [|lia].
    destruct ((k =? 0)%nat && (s =? 0)%nat) eqn:Ez; cbn [negb fst snd]; [lia|].
    assert (Hw : (widx t s k <? length (wact t))%nat = true).
    { apply Nat.ltb_lt. rewrite Lw. apply widx_lt; [apply Nat.ltb_lt|apply Nat.ltb_lt]; auto. }
    destruct (k =? 0)%nat eqn:Ek0; cbn [andb fst snd].
    + cbn in Ez. unfold disable_shepherd. cbn [nsh nwps sact wact nsa nwa]. rewrite Hs, Ez. cbn [negb snd nsa nwa sact wact].
      rewrite !count_set_nth, Ls, Hs, Hw.
      destruct (nthb (sact t) s); destruct (nthb (wact t) (widx t s k)); cbn [negb b2z]; lia.
    + cbn [nsa nwa sact wact]. rewrite count_set_nth, Hw. destruct (nthb (wact t) (widx t s k)); cbn [negb b2z]; lia.
  - unfold enable_worker. set (s := (w mod nsh t)%nat). set (k := (w / nsh t)%nat).
    assert (Hs : (s <? nsh t)%nat = true) by (apply Nat.ltb_lt, mod_lt_nsh; auto).
    rewrite Hs. rewrite andb_true_r.
    destruct (k =? 0)%nat eqn:Ek0; cbn [andb fst snd].
    + unfold enable_shepherd. rewrite Hs. destruct (k <? nwps t)%nat eqn:Ek; cbn [nsh nwps nsa nwa sact wact andb].
      * assert (Hw : (widx t s k <? length (wact t))%nat = true).
        { apply Nat.ltb_lt. rewrite Lw. apply widx_lt; apply Nat.ltb_lt; auto. }
        rewrite !count_set_nth, Ls, Hs, Hw.
        destruct (nthb (sact t) s); destruct (nthb (wact t) (widx t s k)); cbn [b2z]; lia.
      * rewrite count_set_nth, Ls, Hs. destruct (nthb (sact t) s); cbn [b2z]; lia.
    + destruct (k <? nwps t)%nat eqn:Ek; cbn [nsh nwps nsa nwa sact wact andb]; [|lia].
      assert (Hw : (widx t s k <? length (wact t))%nat = true).
      { apply Nat.ltb_lt. rewrite Lw. apply widx_lt; apply Nat.ltb_lt; auto. }
      rewrite count_set_nth, Hw. destruct (nthb (wact t) (widx t s k)); cbn [b2z]; lia.
Qed.

Theorem counters_drift ops : forall t, wf t ->
  nsa (run_ops t ops) - count_true (sact (run_ops t ops)) = nsa t - count_true (sact t) + fst (drift t ops) /\
  nwa (run_ops t ops) - count_true (wact (run_ops t ops)) = nwa t - count_true (wact t) + snd (drift t ops).
Proof.
  induction ops as [|o ops IH]; intros t W.
  - cbn. lia.
  - rewrite run_ops_cons. destruct (IH _ (apply_op_wf t o W)) as [A B]. destruct (step_drift t o W) as [C D].
    cbn [drift fst snd]. lia.
Qed.

(* no call in the sequence repeats what the flag already says *)
Fixpoint nonredundant (t : tbl) (ops : list op) : Prop :=
  match ops with
  | [] => True
  | o :: r => redundant t o = (0, 0) /\ nonredundant (snd (apply_op t o)) r
  end.

Lemma nonredundant_drift ops : forall t, nonredundant t ops -> drift t ops = (0, 0).
Proof.
  induction ops as [|o ops IH]; intros t H; [reflexivity|]. destruct H as [A B]. cbn [drift]. rewrite A, (IH _ B). reflexivity.
Qed.

Definition consistent (t : tbl) : Prop := nsa t = count_true (sact t) /\ nwa t = count_true (wact t).

(* qthread_num_workers() / qthread_num_shepherds() are exact as long as no call was redundant ... *)
Theorem nworkers_active_exact t ops :
  wf t -> consistent t -> nonredundant t ops -> consistent (run_ops t ops).
Proof.
  intros W [A B] N. destruct (counters_drift ops t W) as [C D]. rewrite (nonredundant_drift _ _ N) in C, D.
  cbn [fst snd] in C, D. split; lia.
Qed.

(* ... and drift for good on the first redundant call: disabling a worker twice counts it twice *)
Theorem nworkers_active_refuted :
  exists t ops, wf t /\ consistent t /\ nwa (run_ops t ops) <> count_true (wact (run_ops t ops)) /\
                nsa (run_ops t ops) <> count_true (sact (run_ops t ops)).
Proof.
  exists (init_tbl 2 1 2), [DisW 1%nat; DisW 1%nat; EnW 1%nat].
  repeat split; cbn; try lia; discriminate.
Qed.
Local Close Scope Z_scope.

(* the runtime's initial table is well formed and consistent (checked for every topology up to 8 x 4 and every hw_par) *)
Definition init_ok (ns nw h : nat) : bool :=
  let t := init_tbl ns nw h in
  (length (sact t) =? ns) && (length (wact t) =? ns * nw) && nthb (sact t) 0 && nthb (wact t) 0 &&
  (nsa t =? count_true (sact t))%Z && (nwa t =? count_true (wact t))%Z.
Definition init_domain : list (nat * nat * nat) :=
  flat_map (fun ns => flat_map (fun nw => map (fun h => (ns, nw, h)) (seq 1 (ns * nw))) (seq 1 4)) (seq 1 8).
Lemma init_ok_all : forallb (fun '(ns, nw, h) => init_ok ns nw h) init_domain = true.
Proof. vm_compute. reflexivity. Qed.

Theorem init_tbl_consistent_partial ns nw h :
  1 <= ns <= 8 -> 1 <= nw <= 4 -> 1 <= h <= ns * nw ->
  wf (init_tbl ns nw h) /\ consistent (init_tbl ns nw h) /\
  nthb (sact (init_tbl ns nw h)) 0 = true /\ nthb (wact (init_tbl ns nw h)) 0 = true.
Proof.
  intros H1 H2 H3. pose proof init_ok_all as A. rewrite forallb_forall in A.
  assert (I : In (ns, nw, h) init_domain).
  { unfold init_domain. apply in_flat_map. exists ns. split; [apply in_seq; lia|].
    apply in_flat_map. exists nw. split; [apply in_seq; lia|]. apply in_map_iff. exists h. split; auto. apply in_seq. lia. }
  specialize (A _ I). cbn beta iota in A. unfold init_ok in A.
  repeat (apply andb_true_iff in A; destruct A as [A ?]).
  apply Nat.eqb_eq in A.
  repeat match goal with H : (_ =? _) = true |- _ => apply Nat.eqb_eq in H end.
  repeat match goal with H : (_ =? _)%Z = true |- _ => apply Z.eqb_eq in H end.
  unfold wf, consistent. cbn [nsh nwps init_tbl] in *. repeat split; auto; lia.
Qed.

(* ================================================================== non-vacuity: the hypotheses are met by non-trivial reachable states *)
Definition exD (i j : nat) : nat := if (i + j) mod 3 =? 0 then 10 else if (i + j) mod 3 =? 1 then 20 else 10.

Example ex_gendists_row :
  gendists_row 5 exD 1 [3; 1; 4; 1; 5] = (([20; 0; 10; 20; 10], [4; 2; 0; 3]), [5]).
Proof. vm_compute. reflexivity. Qed.

Example ex_fas_constructed_hyp : exists x, x < 5 /\ x <> 1 /\ (fun i => (i =? 0) || (i =? 3)) x = true.
Proof. exists 3. repeat split; auto. Qed.

Example ex_fas_constructed_value :
  fas (snd (fst (gendists_row 5 exD 1 [3; 1; 4; 1; 5]))) (row_fun (fst (fst (gendists_row 5 exD 1 [3; 1; 4; 1; 5]))))
      (fun i => (i =? 0) || (i =? 3)) (fun _ => 1) [true] = Some 3.
Proof. vm_compute. reflexivity. Qed.

Example ex_nonredundant :
  wf (init_tbl 3 2 5) /\ consistent (init_tbl 3 2 5) /\
  nonredundant (init_tbl 3 2 5) [DisW 4; DisS 2; EnW 5; EnS 2; DisW 1; EnW 1; DisW 6; DisS 0; DisW 0].
Proof. vm_compute. repeat split; auto; lia. Qed.

Example ex_disable_worker0 :
  wf (init_tbl 3 2 6) /\ 0 < 2 /\ 2 < nsh (init_tbl 3 2 6) /\ 0 < nwps (init_tbl 3 2 6) /\
  sact (snd (disable_worker (init_tbl 3 2 6) 2)) = [true; true; false].
Proof. vm_compute. repeat split; auto; lia. Qed.

Example ex_drift_value : drift (init_tbl 2 1 2) [DisW 1; DisW 1; EnW 1] = ((-1)%Z, (-1)%Z).
Proof. vm_compute. reflexivity. Qed.

Example ex_next_iter : Nat.iter 7 (shep_next 5) 3 = 0.
Proof. reflexivity. Qed.
