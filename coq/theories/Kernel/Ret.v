(* C05, return-value handshake: executable model of qthread_spawn step 4 (prepare the return location), of the
   tail of qthread_wrapper (call f; qt_internal_teamfinish; deliver the value per kind) and of the counting done
   by qt_internal_teamfinish / qt_internal_team_new (src/qthread.c, src/teams.c).
   Small abstract cell / sinc specs are local to this file.  Definitions only (proofs: RetProofs.v). *)
From Coq Require Import List ZArith Bool.
Import ListNotations.
Local Open Scope Z_scope.

(* ---------- INT64TOINT60 / INT60TOINT64 (include/qthread/qthread.h) ---------- *)
Definition M60 : Z := 1152921504606846976.          (* 2^60 *)
Definition M64 : Z := 18446744073709551616.         (* 2^64 *)
(* the function result is an aligned_t: the 64-bit pattern of v *)
Definition to_u64 (v : Z) : Z := v mod M64.
(* ((uint64_t)((x) & 0xfffffffffffffffULL)) *)
Definition int64_to_int60 (x : Z) : Z := Z.land x (Z.ones 60).
(* INT60TOINT64: ((x) & 0x800000000000000) ? ((x) | 0xf800000000000000) : (x), read as int64_t: sign extension from
   bit 59, written arithmetically (user-side macro, not on the runtime's path) *)
Definition int60_to_int64 (x : Z) : Z := if 576460752303423488 <=? x then x - M60 else x.

(* ---------- the return location ---------- *)
Inductive rkind := KAligned | KSyncvar | KSinc | KVoidSinc.

Record loc := mkloc {
  l_full : bool;          (* FEB bit of the word / status of the syncvar *)
  l_val  : Z;             (* payload *)
  l_subs : list Z         (* values submitted to the sinc (0 for a void submit) *)
}.

Inductive phase :=
| PNew                    (* descriptor built, step 4 of qthread_spawn not yet done *)
| PSpawned                (* qthread_spawn returned, task enqueued *)
| PRunning                (* f is executing *)
| PBodyDone (v : Z)       (* f returned v *)
| PTeamDone (v : Z)       (* qt_internal_teamfinish returned (or no team) *)
| PFilled.                (* value delivered *)

Record rstate := mkrs { r_loc : loc; r_phase : phase; r_fills : list Z (* deliveries made by the runtime *) }.

(* the value the wrapper delivers for a result v (an int64 / uint64 pattern) *)
Definition delivered (k : rkind) (v : Z) : Z :=
  match k with
  | KAligned => to_u64 v
  | KSyncvar => int64_to_int60 (to_u64 v)
  | KSinc => to_u64 v    (* qt_sinc_submit(ret, &retval); the void test compares with equality since /repo 53168f8 *)
  | KVoidSinc => 0
  end.
(* what the property asks for *)
Definition delivered_spec (k : rkind) (v : Z) : Z :=
  match k with KAligned | KSinc => to_u64 v | KSyncvar => int64_to_int60 (to_u64 v) | KVoidSinc => 0 end.

Inductive ev :=
(* the task's own steps, in program order *)
| OSpawn | OStart | OReturn (v : Z) | OTeamFinish | OFill
(* steps of other tasks on the location *)
| EStatus | EReadFF | EReadFE | EFill (v : Z) | ESubmit (v : Z).

(* one step; None = the step is not enabled in this state (the acting task stays blocked / it is not its turn) *)
Definition rstep (k : rkind) (s : rstate) (e : ev) : option rstate :=
  let l := r_loc s in
  match e, r_phase s with
  | OSpawn, PNew =>
    (* step 4: KAligned: qthread_empty(ret); KSyncvar: if (status) qthread_syncvar_empty(ret); sincs: nothing *)
    let l' := match k with
              | KAligned => mkloc false (l_val l) (l_subs l)
              | KSyncvar => if l_full l then mkloc false (l_val l) (l_subs l) else l
              | _ => l
              end in
    Some (mkrs l' PSpawned (r_fills s))
  | OStart, PSpawned => Some (mkrs l PRunning (r_fills s))
  | OReturn v, PRunning => Some (mkrs l (PBodyDone v) (r_fills s))
  | OTeamFinish, PBodyDone v => Some (mkrs l (PTeamDone v) (r_fills s))
  | OFill, PTeamDone v =>
    let d := delivered k v in
    match k with
    | KAligned | KSyncvar =>
      (* qthread_writeEF_const / qthread_syncvar_writeEF_const: waits while the location is full *)
      if l_full l then None else Some (mkrs (mkloc true d (l_subs l)) PFilled (r_fills s ++ [d]))
    | KSinc | KVoidSinc => Some (mkrs (mkloc (l_full l) (l_val l) (l_subs l ++ [d])) PFilled (r_fills s ++ [d]))
    end
  | EStatus, _ => Some s
  | EReadFF, _ => if l_full l then Some s else None
  | EReadFE, _ => if l_full l then Some (mkrs (mkloc false (l_val l) (l_subs l)) (r_phase s) (r_fills s)) else None
  | EFill v, _ => Some (mkrs (mkloc true v (l_subs l)) (r_phase s) (r_fills s))
  | ESubmit v, _ => Some (mkrs (mkloc (l_full l) (l_val l) (l_subs l ++ [v])) (r_phase s) (r_fills s))
  | _, _ => None
  end.

(* run a trace; steps that are not enabled are skipped (the actor waits) *)
Fixpoint rrun (k : rkind) (s : rstate) (tr : list ev) : rstate :=
  match tr with
  | [] => s
  | e :: r => match rstep k s e with Some s' => rrun k s' r | None => rrun k s r end
  end.

Definition is_other_fill (e : ev) : bool := match e with EFill _ => true | _ => false end.
Definition pending (p : phase) : bool :=
  match p with PSpawned | PRunning | PBodyDone _ | PTeamDone _ => true | _ => false end.

(* the observation script of the correspondence harness: status probes and reads by the controller.
   Returns the list of observations (status bits / values; -1 = the read would block) *)
Inductive probe := QStatus | QReadFF | QReadFE | QStep (e : ev).
Fixpoint observe (k : rkind) (s : rstate) (ps : list probe) : list Z :=
  match ps with
  | [] => []
  | QStatus :: r => (if l_full (r_loc s) then 1 else 0) :: observe k s r
  | QReadFF :: r => (if l_full (r_loc s) then l_val (r_loc s) else -1) :: observe k s r
  | QReadFE :: r => match rstep k s EReadFE with
                    | Some s' => l_val (r_loc s) :: observe k s' r
                    | None => (-1) :: observe k s r
                    end
  | QStep e :: r => match rstep k s e with Some s' => observe k s' r | None => observe k s r end
  end.

(* ---------- team completion counting (one team; its members and its direct subteams) ----------
   team->sinc starts at 1 (the leader); every member spawned into the team adds 1 (qt_sinc_expect by the spawner,
   who is an unfinished member); a subteam leader started under a non-default team forks a watcher into its team
   (+1) and later submits on the watcher's behalf.  team->subteams_sinc starts at 1; every subteam created adds 1
   to the parent's subteams_sinc and its leader submits it after its own two waits. *)
Inductive lphase := LRun | LSubmitted | LWait1 | LSubSubmitted | LWait2 | LDone.

Record tstate := mktst {
  t_cnt     : Z;       (* team->sinc counter: expected - submitted *)
  t_sub     : Z;       (* team->subteams_sinc counter *)
  t_live    : Z;       (* members (not the leader, not the watcher) that have not finished *)
  t_sublive : Z;       (* direct subteams whose leader has not yet submitted to our subteams_sinc *)
  t_watch   : bool;    (* subteam of a non-default team: has a watcher *)
  t_lph     : lphase
}.

Definition team_init (watched : bool) : tstate :=
  (* qt_internal_team_new: both sincs created with expect 1; the watcher fork (qt_internal_subteam_leader) expects 1 more *)
  mktst (if watched then 2 else 1) 1 0 0 watched LRun.

Inductive tev :=
| TMemberSpawn      (* an unfinished member (or the running leader) spawns a member into the team *)
| TMemberFinish     (* a member's function returned: qt_internal_teamfinish submits team->sinc *)
| TSubteamNew       (* an unfinished member creates a subteam: expect on subteams_sinc *)
| TSubteamDone      (* a subteam's leader passed both of its waits and submits to our subteams_sinc *)
| TLeaderSubmit     (* leader: submit(sinc) [twice if watched] *)
| TLeaderWait1      (* leader: qt_sinc_wait(sinc) returns *)
| TLeaderSubSubmit  (* leader: submit(subteams_sinc) *)
| TLeaderWait2      (* leader: qt_sinc_wait(subteams_sinc) returns *)
| TLeaderExit.      (* leader: (watcher shut down,) submit to the parent's subteams_sinc; teamfinish returns *)

Definition can_spawn (s : tstate) : bool :=
  (* the spawner is a task of the team that has not yet submitted *)
  (0 <? t_live s) || match t_lph s with LRun => true | _ => false end.

Definition tstep (s : tstate) (e : tev) : option tstate :=
  match e with
  | TMemberSpawn => if can_spawn s then Some (mktst (t_cnt s + 1) (t_sub s) (t_live s + 1) (t_sublive s) (t_watch s) (t_lph s)) else None
  | TMemberFinish => if 0 <? t_live s then Some (mktst (t_cnt s - 1) (t_sub s) (t_live s - 1) (t_sublive s) (t_watch s) (t_lph s)) else None
  | TSubteamNew => if can_spawn s then Some (mktst (t_cnt s) (t_sub s + 1) (t_live s) (t_sublive s + 1) (t_watch s) (t_lph s)) else None
  | TSubteamDone => if 0 <? t_sublive s then Some (mktst (t_cnt s) (t_sub s - 1) (t_live s) (t_sublive s - 1) (t_watch s) (t_lph s)) else None
  | TLeaderSubmit => match t_lph s with
                     | LRun => Some (mktst (t_cnt s - (if t_watch s then 2 else 1)) (t_sub s) (t_live s) (t_sublive s) (t_watch s) LSubmitted)
                     | _ => None end
  | TLeaderWait1 => match t_lph s with
                    | LSubmitted => if t_cnt s =? 0 then Some (mktst (t_cnt s) (t_sub s) (t_live s) (t_sublive s) (t_watch s) LWait1) else None
                    | _ => None end
  | TLeaderSubSubmit => match t_lph s with
                        | LWait1 => Some (mktst (t_cnt s) (t_sub s - 1) (t_live s) (t_sublive s) (t_watch s) LSubSubmitted)
                        | _ => None end
  | TLeaderWait2 => match t_lph s with
                    | LSubSubmitted => if t_sub s =? 0 then Some (mktst (t_cnt s) (t_sub s) (t_live s) (t_sublive s) (t_watch s) LWait2) else None
                    | _ => None end
  | TLeaderExit => match t_lph s with
                   | LWait2 => Some (mktst (t_cnt s) (t_sub s) (t_live s) (t_sublive s) (t_watch s) LDone)
                   | _ => None end
  end.

Fixpoint trun (s : tstate) (tr : list tev) : tstate :=
  match tr with
  | [] => s
  | e :: r => match tstep s e with Some s' => trun s' r | None => trun s r end
  end.
