From Coq Require Import List NArith.
From QV Require Import Kernel.Ident Kernel.Tasklocal Kernel.IdentMicro Kernel.Reuse.
Require Extraction.
Require Import ExtrOcamlBasic.
Extraction Language OCaml.
Extraction "../ocaml/gen/c09micro_model.ml" IdentMicro.init IdentMicro.step IdentMicro.run_to_sp IdentMicro.is_sp rinit rstep desc_of live_fld tl_view tl_region size_tasklocal tl_off.
