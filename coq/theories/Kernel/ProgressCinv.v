From Coq Require Import List Bool Arith NArith ZArith Lia.
From QV Require Import Kernel.GenSpawnTable Kernel.Placement Kernel.ProofsPlacement Kernel.Model Kernel.ProofsKernel
     Kernel.ProofsC07 Kernel.ProofsPin Kernel.Progress Kernel.ProgressInv Kernel.ProgressProofs Kernel.ProgressMeasure
     Kernel.ProgressEnabled Kernel.ProgressQueue Kernel.ProgressQueue2 Kernel.ProgressStep Kernel.ProgressInv2.
From QV Require TQueue.Model TQueue.Proofs TQueue.Proofs2.
Import ListNotations.

(* the invariant of the composed system *)
Definition cinv (c : cstate) : Prop :=
  kinv c.(ck) /\ Aact c.(ck) /\ Qrel c.(ck) c.(cs) /\ Pinv c /\ Mainwait c /\ MS c.(ck).

Lemma cinv_cstep c e c' : cinv c -> cstep c e = Some c' -> cinv c'.
Proof.
  intros (K & A & Q & P & M & S) H. split; [eapply kinv_cstep; eauto|]. split; [eapply Aact_cstep; eauto|].
  split; [eapply Qrel_cstep; eauto|]. split; [eapply Pinv_cstep; eauto|]. split; [eapply Mainwait_cstep; eauto|eapply MS_cstep; eauto].
Qed.

Lemma cinv_crun es : forall c c', cinv c -> crun c es = Some c' -> cinv c'.
Proof.
  induction es as [|e r IH]; cbn; intros c c' I H; [inversion H; subst; exact I|].
  destruct (cstep c e) as [c1|] eqn:E; [|discriminate]. eapply IH; [eapply cinv_cstep; eauto|exact H].
Qed.

Lemma cntq_repeat_empty t n : TQueue.Proofs.cntq t (repeat TQueue.Model.empty_queue n) = 0.
Proof. induction n; cbn; auto. Qed.

Lemma nthb_repeat_true n i : i < n -> nthb (repeat true n) i = true.
Proof. revert i. induction n; intros i L; [lia|]. destruct i; cbn; [reflexivity|]. apply IHn. lia. Qed.

Lemma cinv_init ns nw ac chunk prog :
  0 < ns -> 0 < nw -> (0 <= chunk)%Z -> wf_prog prog = true -> cinv (cinit ns nw ac chunk prog).
Proof.
  intros Hs Hw Hc W. unfold cinit, cinv; cbn [ck cs cprog].
  split; [apply kinv_init; assumption|]. split; [intros i L; cbn in *; apply nthb_repeat_true; exact L|].
  split.
  { unfold Qrel. cbn. split; [apply repeat_length|]. split; [apply TQueue.Proofs.sys_exact_init|]. split; [exact Hc|]. split.
    - intros i n Hin. exfalso. unfold TQueue.Model.getq, TQueue.Model.init_sys in Hin. cbn in Hin.
      rewrite nth_repeat in Hin. cbn in Hin. exact Hin.
    - intros t. rewrite cntq_repeat_empty. unfold inq. cbn. destruct t; reflexivity. }
  split.
  { intros t x p G GP. destruct t; [|cbn in G; discriminate G]. cbn in G, GP.
    inversion G; inversion GP; subst. split; [exact W|]. cbn. discriminate. }
  split; [intros HP; cbn in HP; discriminate HP|].
  intros x G. cbn in G. inversion G; subst. reflexivity.
Qed.

Theorem reachable_cinv ns nw ac chunk prog es c :
  0 < ns -> 0 < nw -> (0 <= chunk)%Z -> wf_prog prog = true ->
  crun (cinit ns nw ac chunk prog) es = Some c -> cinv c.
Proof. intros Hs Hw Hc W H. exact (cinv_crun es _ _ (cinv_init ns nw ac chunk prog Hs Hw Hc W) H). Qed.
