(* C07 extension N: the shepherd API of src/shepherds.c, the worker switches of src/workers.c and the construction of
   sorted_sheplist / shep_dists (src/affinity/hwloc.c qt_affinity_gendists + src/affinity/shufflesheps.h), mirrored
   branch by branch (definitions only).

     shep_next / shep_prev          qthread_shep_next / _prev (and the identical _local variants)   shepherds.c:37-93
     shep_ok / shep_self            qthread_shep_ok / qthread_shep                                  shepherds.c:24-106
     distance                       qthread_distance                                                shepherds.c:109-131
     sorted_remote                  qthread_sorted_sheps_remote (and qthread_sorted_sheps)          shepherds.c:133-160
     shuffle / sort_sheps           shuffle_sheps / sort_sheps                                      shufflesheps.h
     gendists_row / gendists        the two loops at the end of qt_affinity_gendists                hwloc.c:610-641
     disable_shepherd .. enable_worker, init_tbl                                                    shepherds.c:160-188,
                                                                                                    workers.c:20-65, qthread.c:1107,1148

   Conventions: shepherd / worker ids are nat (qthread_shepherd_id_t is unsigned short: 0..65535; the sentinel
   NO_SHEPHERD = 65535 is `None` where a function can return it); rand() results are an oracle list (only rand() % len is
   used); the two active counters are Z (aligned_t; the API reads them back modulo 2^16, see num_shepherds/num_workers). *)
From Coq Require Import List Bool Arith ZArith.
From QV Require Import Kernel.Placement.
Import ListNotations.

(* ------------------------------------------------------------------ qthread_shep_next / qthread_shep_prev *)
(* cur++; cur *= cur < nshepherds.  For cur = 65535 the unsigned short wraps to 0 (and 0 * .. = 0); for cur = 65534 the
   result 65535 is not < nshepherds <= 65535: both give 0, as the formula below does. No test of `active` anywhere. *)
Definition shep_next (n cur : nat) : nat := if S cur <? n then S cur else 0.
(* if (0 == cur) cur = nshepherds - 1; else cur--; *)
Definition shep_prev (n cur : nat) : nat := if cur =? 0 then n - 1 else cur - 1.

(* ------------------------------------------------------------------ qthread_shep_ok / qthread_shep
   me: the shepherd of the calling pthread (None: not a worker thread) *)
Inductive okres := OkErr | OkFlag (b : bool).
Definition shep_ok (me : option nat) (act : list bool) : okres :=
  match me with None => OkErr | Some s => OkFlag (nthb act s) end.
Definition shep_self (me : option nat) : option nat := me.       (* None = NO_SHEPHERD *)

(* ------------------------------------------------------------------ qthread_distance
   rows: shepherds[src].shep_dists (None = NULL). The code indexes dest-1 above src and dest below it. *)
Inductive distres := DistBad | DistVal (d : nat).
Definition distance (n : nat) (rows : list (option (list nat))) (src dest : nat) : distres :=
  if (n <=? src) || (n <=? dest) then DistBad
  else match nth src rows None with
       | None => DistVal 0
       | Some row => if src <? dest then DistVal (nth (dest - 1) row 0)
                     else if dest =? src then DistVal 0
                     else DistVal (nth dest row 0)
       end.

Definition sorted_remote (n : nat) (lists : list (list nat)) (src : nat) : option (list nat) :=
  if n <=? src then None else Some (nth src lists []).

(* ------------------------------------------------------------------ shuffle_sheps *)
Fixpoint upd (s : list nat) (i x : nat) : list nat :=
  match s, i with
  | [], _ => []
  | _ :: r, 0 => x :: r
  | a :: r, S k => a :: upd r k x
  end.
(* tmp = s[j]; s[j] = s[i]; s[i] = tmp; *)
Definition swap (s : list nat) (i j : nat) : list nat :=
  let a := nth i s 0 in let b := nth j s 0 in upd (upd s j a) i b.
Definition take_rand (rs : list nat) : nat * list nat :=
  match rs with [] => (0, []) | r :: t => (r, t) end.
(* for (i = 0; i < len; ++i) { j = rand() % len; swap s[j], s[i] }   — k iterations left, i the loop index *)
Fixpoint shuffle_from (k i : nat) (s : list nat) (rs : list nat) : list nat * list nat :=
  match k with
  | 0 => (s, rs)
  | S k' => let (r, rs') := take_rand rs in
            shuffle_from k' (S i) (swap s i (r mod length s)) rs'
  end.
Definition shuffle (s rs : list nat) : list nat * list nat := shuffle_from (length s) 0 s rs.

(* ------------------------------------------------------------------ sort_sheps
   while (s_max > 0): mindist over s; the sheps at mindist are appended to tmp (in order) and, when more than one, that
   slice of tmp is shuffled; s is compressed to the sheps further away.  fuel = length s suffices (ShepsProofs). *)
Definition minl (x : nat) (l : list nat) : nat := fold_right Nat.min x l.
Fixpoint sort_loop (fuel : nat) (d : nat -> nat) (s acc rs : list nat) : list nat * list nat :=
  match fuel with
  | 0 => (acc ++ s, rs)                                   (* never reached with s <> [] (sort_loop_complete) *)
  | S f =>
    match s with
    | [] => (acc, rs)
    | x :: r =>
      let m := minl (d x) (map d r) in
      let grp := filter (fun y => d y =? m) s in
      let gr := if 1 <? length grp then shuffle grp rs else (grp, rs) in
      sort_loop f d (filter (fun y => m <? d y) s) (acc ++ fst gr) (snd gr)
    end
  end.
Definition sort_sheps (d : nat -> nat) (s rs : list nat) : list nat * list nat :=
  sort_loop (length s) d s [] rs.

(* ------------------------------------------------------------------ qt_affinity_gendists, per shepherd i
   D i j: the distance the backend assigns to the pair (10 for every pair in this build: QTHREAD_HAVE_HWLOC_DISTS is
   not defined); shep_dists has nshepherds slots indexed by shepherd id, slot i stays 0 (calloc). *)
Definition others (n i : nat) : list nat := filter (fun j => negb (j =? i)) (seq 0 n).
Definition dist_row (n : nat) (D : nat -> nat -> nat) (i : nat) : list nat :=
  map (fun j => if j =? i then 0 else D i j) (seq 0 n).
Definition row_fun (row : list nat) : nat -> nat := fun x => nth x row 0.
Definition gendists_row (n : nat) (D : nat -> nat -> nat) (i : nat) (rs : list nat) : (list nat * list nat) * list nat :=
  let row := dist_row n D i in
  if 1 <? n then let r := sort_sheps (row_fun row) (others n i) rs in ((row, fst r), snd r)
  else ((row, others n i), rs).
Fixpoint gendists_from (k i n : nat) (D : nat -> nat -> nat) (rs : list nat) : list (list nat * list nat) * list nat :=
  match k with
  | 0 => ([], rs)
  | S k' => let r := gendists_row n D i rs in
            let t := gendists_from k' (S i) n D (snd r) in
            (fst r :: fst t, snd t)
  end.
Definition gendists (n : nat) (D : nat -> nat -> nat) (rs : list nat) : list (list nat * list nat) * list nat :=
  gendists_from n 0 n D rs.

(* ------------------------------------------------------------------ the switches *)
Record tbl := mkTbl {
  nsh  : nat;            (* qlib->nshepherds *)
  nwps : nat;            (* qlib->nworkerspershep *)
  sact : list bool;      (* shepherds[s].active *)
  wact : list bool;      (* shepherds[s].workers[w].active at index s * nwps + w *)
  nsa  : Z;              (* qlib->nshepherds_active *)
  nwa  : Z }.            (* qlib->nworkers_active *)

Definition widx (t : tbl) (s w : nat) : nat := s * nwps t + w.

(* qthread.c:990,1066,1107,1148: every shepherd active; worker (i,j) active iff j*nshepherds + i + 1 <= hw_par,
   worker (0,0) always; nworkers_active = hw_par *)
Definition init_wact (ns nw hwpar : nat) : list bool :=
  flat_map (fun i => map (fun j => ((i =? 0) && (j =? 0)) || (j * ns + i + 1 <=? hwpar)) (seq 0 nw)) (seq 0 ns).
Definition init_tbl (ns nw hwpar : nat) : tbl :=
  mkTbl ns nw (repeat true ns) (init_wact ns nw hwpar) (Z.of_nat ns) (Z.of_nat hwpar).

Inductive rc := RcSuccess | RcBadArgs | RcNotAllowed | RcVoid.

(* qthread_disable_shepherd: range test, shepherd 0 refused, THEN the counter is decremented unconditionally and the
   flag is CASed 1 -> 0 *)
Definition disable_shepherd (t : tbl) (s : nat) : rc * tbl :=
  if negb (s <? nsh t) then (RcBadArgs, t)
  else if s =? 0 then (RcNotAllowed, t)
  else (RcSuccess, mkTbl (nsh t) (nwps t) (set_nth (sact t) s false) (wact t) (nsa t - 1) (nwa t)).
(* qthread_enable_shepherd: void; the range test is an assert (compiled out): s >= nshepherds is outside the API
   contract (the code would write out of bounds) — the model leaves the table alone, the generators never issue it *)
Definition enable_shepherd (t : tbl) (s : nat) : tbl :=
  if s <? nsh t then mkTbl (nsh t) (nwps t) (set_nth (sact t) s true) (wact t) (nsa t + 1) (nwa t) else t.

(* qthread_disable_worker(w): shep = w % nshepherds, worker = w / nshepherds *)
Definition disable_worker (t : tbl) (w : nat) : rc * tbl :=
  let s := w mod nsh t in let k := w / nsh t in
  if negb (k <? nwps t) then (RcBadArgs, t)
  else if (k =? 0) && (s =? 0) then (RcNotAllowed, t)
  else let t1 := mkTbl (nsh t) (nwps t) (sact t) (set_nth (wact t) (widx t s k) false) (nsa t) (nwa t - 1) in
       (RcSuccess, if k =? 0 then snd (disable_shepherd t1 s) else t1).
(* qthread_enable_worker(w) *)
Definition enable_worker (t : tbl) (w : nat) : tbl :=
  let s := w mod nsh t in let k := w / nsh t in
  let t1 := if k =? 0 then enable_shepherd t s else t in
  if k <? nwps t then mkTbl (nsh t1) (nwps t1) (sact t1) (set_nth (wact t1) (widx t s k) true) (nsa t1) (nwa t1 + 1)
  else t1.

Inductive op := DisS (s : nat) | EnS (s : nat) | DisW (w : nat) | EnW (w : nat).
Definition apply_op (t : tbl) (o : op) : rc * tbl :=
  match o with
  | DisS s => disable_shepherd t s
  | EnS s => (RcVoid, enable_shepherd t s)
  | DisW w => disable_worker t w
  | EnW w => (RcVoid, enable_worker t w)
  end.
Definition run_ops (t : tbl) (ops : list op) : tbl := fold_left (fun a o => snd (apply_op a o)) ops t.

(* qthread_num_shepherds() / qthread_num_workers(): the counters cast to unsigned short *)
Definition num_shepherds (t : tbl) : Z := (nsa t mod 65536)%Z.
Definition num_workers (t : tbl) : Z := (nwa t mod 65536)%Z.

Definition count_true (l : list bool) : Z := Z.of_nat (length (filter (fun b => b) l)).

(* ghost classification of a call (used only in theorems): does it decrement/increment a counter although the flag
   already had the new value?  (dS, dW): redundant shepherd-counter moves, redundant worker-counter moves; disables count
   -1, enables +1 *)
Definition redundant (t : tbl) (o : op) : Z * Z :=
  match o with
  | DisS s => (if (s <? nsh t) && negb (s =? 0) && negb (nthb (sact t) s) then (-1)%Z else 0%Z, 0%Z)
  | EnS s => (if (s <? nsh t) && nthb (sact t) s then 1%Z else 0%Z, 0%Z)
  | DisW w =>
    let s := w mod nsh t in let k := w / nsh t in
    if (k <? nwps t) && negb ((k =? 0) && (s =? 0)) then
      (if (k =? 0) && negb (nthb (sact t) s) then (-1)%Z else 0%Z,
       if negb (nthb (wact t) (widx t s k)) then (-1)%Z else 0%Z)
    else (0%Z, 0%Z)
  | EnW w =>
    let s := w mod nsh t in let k := w / nsh t in
    (if (k =? 0) && (s <? nsh t) && nthb (sact t) s then 1%Z else 0%Z,
     if (k <? nwps t) && nthb (wact t) (widx t s k) then 1%Z else 0%Z)
  end.
Fixpoint drift (t : tbl) (ops : list op) : Z * Z :=
  match ops with
  | [] => (0%Z, 0%Z)
  | o :: r => let a := redundant t o in let b := drift (snd (apply_op t o)) r in
              ((fst a + fst b)%Z, (snd a + snd b)%Z)
  end.
