From Coq Require Import List ZArith.
From QV Require Import Kernel.Ret.
Require Extraction.
Require Import ExtrOcamlBasic.
Extraction Language OCaml.
Extraction "../ocaml/gen/c05_model.ml" observe rstep rrun delivered delivered_spec team_init tstep trun.
