(* C07 placement kernels, mirrored from the code (definitions only):
     dispatch          qthread_master's guard before qthread_exec            (src/qthread.c:521-558)
     wake_dest         qt_feb_schedule / qthread_syncvar_schedule            (src/feb.c:173-190, src/syncvar.c:957-972)
     launch_dest       qthread_precond_launch                                (src/feb.c:378-404)
     fas / fas_nolist  qthread_find_active_shepherd, both branches           (src/shepherds.c:197-288)
     migrate_case      qthread_migrate_to's case analysis                    (src/qthread.c:2952-2989) *)
From Coq Require Import List Bool Arith.
Import ListNotations.

Definition nthb (l : list bool) (i : nat) : bool := nth i l false.

Inductive decision := DSendHome (h : nat) | DReroute (lists_of : nat) | DExec.

(* at_ = value read from shepherds[target].active (only read when target is set and differs from me: C short-circuit),
   am  = value read from me->active *)
Definition dispatch (me : nat) (target : option nat) (at_ am : bool) : decision :=
  match target with
  | Some h => if negb (h =? me) && at_ then DSendHome h
              else if negb am then DReroute (if h =? me then me else h)
              else DExec
  | None => if negb am then DReroute me else DExec
  end.

(* tu = 1: feb.c   (UNSTEALABLE && waiter's shepherd != waker's shepherd -> waiter's shepherd, else waker's)
   tu = 2: syncvar.c (UNSTEALABLE -> waiter's shepherd, else waker's) *)
Definition wake_dest (tu : nat) (unsteal : bool) (tshep ws : nat) : nat :=
  if tu =? 2 then (if unsteal then tshep else ws)
  else (if unsteal && negb (tshep =? ws) then tshep else ws).

Definition launch_dest (target : option nat) (ws : nat) : nat :=
  match target with Some h => h | None => ws end.

(* ---- qthread_find_active_shepherd, l != NULL branch.
   l: sorted_sheplist (the nsheps-1 other shepherds), d: shep_dists indexed by shepherd id, act: the active flags,
   qlen: advisory queue lengths, coins: results of (random() % 2 == 0), consumed only on ties (short-circuit ||,&&). *)
Fixpoint skip_inactive (l : list nat) (act : nat -> bool) : list nat :=
  match l with
  | [] => []
  | x :: r => if act x then l else skip_inactive r act
  end.

Fixpoint scan (rest : list nat) (d qlen : nat -> nat) (act : nat -> bool) (dist best busy : nat) (coins : list bool) : nat :=
  match rest with
  | [] => best
  | a :: r =>
    if d a =? dist then
      if negb (act a) then scan r d qlen act dist best busy coins          (* `continue`: a disabled alternate is skipped *)
      else
      let lvl := qlen a in
      if lvl <? busy then scan r d qlen act dist a lvl coins
      else if lvl =? busy then
        match coins with
        | c :: cs => if c then scan r d qlen act dist a lvl cs else scan r d qlen act dist best busy cs
        | [] => scan r d qlen act dist best busy []
        end
      else scan r d qlen act dist best busy coins
    else best
  end.

Definition fas (l : list nat) (d : nat -> nat) (act : nat -> bool) (qlen : nat -> nat) (coins : list bool) : option nat :=
  match skip_inactive l act with
  | [] => None
  | x :: r => Some (scan r d qlen act (d x) x (qlen x) coins)
  end.

(* the code before commit c719d4a (kept only for the regression witness in corpus/C07): no activity test on alternates *)
Definition fas_prefix (l : list nat) (d : nat -> nat) (act : nat -> bool) (qlen : nat -> nat) (coins : list bool) : option nat :=
  match skip_inactive l act with
  | [] => None
  | x :: r => Some (scan r d qlen (fun _ => true) (d x) x (qlen x) coins)
  end.

(* the alternates the second loop looks at *)
Definition alts (l : list nat) (act : nat -> bool) : list nat := tl (skip_inactive l act).
Definition first_active (l : list nat) (act : nat -> bool) : option nat := hd_error (skip_inactive l act).

(* ---- l == NULL branch (no locality information): least busy ACTIVE shepherd among 0..n-1 *)
Fixpoint scan_all (ids : list nat) (act : nat -> bool) (qlen : nat -> nat) (cur : option (nat * nat)) (coins : list bool)
  : option nat :=
  match ids with
  | [] => option_map fst cur
  | i :: r =>
    if act i then
      let lvl := qlen i in
      match cur with
      | None => scan_all r act qlen (Some (i, lvl)) coins
      | Some (tg, busy) =>
        if lvl <? busy then scan_all r act qlen (Some (i, lvl)) coins
        else if lvl =? busy then
          match coins with
          | c :: cs => if c then scan_all r act qlen (Some (i, lvl)) cs else scan_all r act qlen cur cs
          | [] => scan_all r act qlen cur []
          end
        else scan_all r act qlen cur coins
      end
    else scan_all r act qlen cur coins
  end.

Definition fas_nolist (n : nat) (act : nat -> bool) (qlen : nat -> nat) (coins : list bool) : option nat :=
  scan_all (seq 0 n) act qlen None coins.

(* ---- qthread_migrate_to *)
Inductive migrate_case := MNotAllowed | MSame | MUnpin | MMove | MBadArgs.
Definition migrate_case_of (mccoy : bool) (cur : nat) (h : option nat) (nsh : nat) : migrate_case :=
  if mccoy then MNotAllowed
  else match h with
       | Some x => if x =? cur then MSame else if x <? nsh then MMove else MBadArgs
       | None => MUnpin
       end.
(* QTHREAD_SUCCESS 0, QTHREAD_BADARGS -1, QTHREAD_NOT_ALLOWED: see include/qthread/qthread.h; the harness compares names *)
Definition migrate_rc (c : migrate_case) : nat :=
  match c with MNotAllowed => 2 | MBadArgs => 1 | _ => 0 end.

(* ---- qthread_disable_shepherd / qthread_enable_shepherd on the flag vector *)
Fixpoint set_nth (l : list bool) (i : nat) (b : bool) : list bool :=
  match l, i with
  | [], _ => []
  | _ :: r, 0 => b :: r
  | x :: r, S j => x :: set_nth r j b
  end.
Definition disable_shep (nsh : nat) (act : list bool) (s : nat) : list bool :=
  if (s =? 0) || negb (s <? nsh) then act else set_nth act s false.
Definition enable_shep (nsh : nat) (act : list bool) (s : nat) : list bool :=
  if s <? nsh then set_nth act s true else act.
