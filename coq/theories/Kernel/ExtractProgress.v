From Coq Require Import List NArith ZArith.
From QV Require Import Kernel.GenSpawnTable Kernel.Placement Kernel.Model Kernel.Progress.
Require Extraction.
Require Import ExtrOcamlBasic.
Extraction Language OCaml.
Extraction "../ocaml/gen/c04progress_model.ml" step init finished reads_of reads_current reads_plausible place_of get_task spawn_table fas fas_nolist thread_new_flags thread_new_where migrate_case_of migrate_rc dispatch wake_dest launch_dest nthb bit_unstealable bit_simple bit_real_mccoy bit_big_struct bit_has_argcopy worker_ref quiescent_ok cquiescent_ok not_done spawn_call cstep crun cinit measure internal.
