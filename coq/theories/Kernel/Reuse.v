(* C09 extension G (and C04/C09 descriptor life cycle): qthread_thread_new / qthread_thread_free with the two
   descriptor pools of src/qthread.c (generic_qthread_pool, generic_big_qthread_pool), layered over
   Kernel/Tasklocal.v (task-local storage, argument copies, heap blocks) and Kernel/Ident.v (lazy ids).

   A descriptor released by qthread_thread_free goes to the front of its pool's free list (the worker's
   qt_mpool cache is a LIFO stack; the pool only overwrites the first two words of the item, which are the
   descriptor's f/arg fields, never data[]) and is handed out again by the next qthread_thread_new of the same kind.
   What a recycled descriptor still contains:
     * thread_id of the previous owner            -> qthread_thread_new stores QTHREAD_NON_TASK_ID (lazy ids)
     * data[]: argument copy / task-local bytes    -> NOT cleared (neither the code nor the manual promise it);
                                                     the new owner's default task-local area starts with the bytes the
                                                     previous owner left there, except the blob slot, which
                                                     qthread_thread_free overwrites with NULL after releasing the blob
     * rdata->tasklocal_size                       -> rdata is allocated anew at the first run: 0
   Definitions only (proofs: ReuseProofs.v). *)
From Coq Require Import List NArith Bool Arith.
From QV Require Import Kernel.Ident Kernel.Tasklocal.
Import ListNotations.

Record rst := mkr {
  r_tl     : st;                     (* live tasks (descriptor contents, rdata->tasklocal_size, blob) and the heap *)
  r_ctr    : N;                      (* qlib->max_thread_id *)
  r_desc   : list (N * N);           (* live task -> the descriptor it occupies *)
  r_fld    : list (N * N);           (* descriptor -> its thread_id field (kept while the descriptor is free) *)
  r_stale  : list (N * list byte);   (* free descriptor -> the data[] bytes it was released with *)
  r_free_s : list N;                 (* generic_qthread_pool: free list, most recently freed first *)
  r_free_b : list N;                 (* generic_big_qthread_pool *)
  r_ndesc  : N;                      (* descriptors carved out of fresh pool memory so far *)
  r_freed  : list N                  (* ghost: heap blocks released so far, newest first *)
}.

Definition rinit (c0 : N) : rst := mkr init c0 [] [] [] [] [] 0%N [].

Inductive rop :=
| RSpawn (tid : N) (arg : list byte)
| RId (tid : N)
| RGet (tid : N) (size : nat)
| RWrite (tid : N) (seed : N)        (* the task fills its whole current region with the pattern [seed] *)
| RFree (tid : N).                   (* the task has returned: qthread_thread_free *)

Definition is_big (c : cfg) (arg : list byte) : bool := (0 <? length arg) && (length arg <=? AC c).

(* qthread_thread_new *)
Definition rspawn (c : cfg) (junk : nat -> byte) (s : rst) (tid : N) (arg : list byte) : rst :=
  match aget (s_tasks (r_tl s)) tid with
  | Some _ => s
  | None =>
    let big := is_big c arg in
    let fl := if big then r_free_b s else r_free_s s in
    let '(d, fl', nd, stale) :=
        match fl with
        | d :: rest => (d, rest, r_ndesc s, aget (r_stale s) d)          (* ALLOC_[BIG_]QTHREAD: the cached item *)
        | [] => (r_ndesc s, [], N.succ (r_ndesc s), None)                 (* fresh pool memory *)
        end in
    let junk' := match stale with Some bs => (fun k => nth k bs (junk k)) | None => junk end in
    mkr (thread_new c junk' (r_tl s) tid arg) (r_ctr s)
        (aset (r_desc s) tid d)
        (aset (r_fld s) d NON_TASK_ID)                                    (* t->thread_id = QTHREAD_NON_TASK_ID *)
        (adel (r_stale s) d)
        (if big then r_free_s s else fl') (if big then fl' else r_free_b s) nd (r_freed s)
  end.

Definition fld_of (s : rst) (d : N) : N := match aget (r_fld s) d with Some f => f | None => NON_TASK_ID end.

(* qthread_id() of task tid (op-atomic; the micro-step layer is Kernel/IdentMicro.v) *)
Definition rid (s : rst) (tid : N) : rst * option N :=
  match aget (r_desc s) tid with
  | None => (s, None)
  | Some d =>
    let '(r, fld', c') := qthread_id (fld_of s d) (r_ctr s) in
    (mkr (r_tl s) c' (r_desc s) (aset (r_fld s) d fld') (r_stale s) (r_free_s s) (r_free_b s) (r_ndesc s) (r_freed s),
     Some r)
  end.

Definition slot_of (s : st) (tid : N) : option N :=
  match aget (s_tasks s) tid with
  | Some t => if t_tlsz t =? 0 then None else t_slot t
  | None => None
  end.

(* qthread_get_tasklocal(size); a realloc releases the old block *)
Definition rget (c : cfg) (junk : nat -> byte) (s : rst) (tid : N) (size : nat) : rst :=
  match get_tasklocal c junk (r_tl s) tid size with
  | None => s
  | Some (_, tl') =>
    let rel := match slot_of (r_tl s) tid, slot_of tl' tid with
               | Some b, Some b' => if N.eqb b b' then [] else [b]
               | _, _ => []
               end in
    mkr tl' (r_ctr s) (r_desc s) (r_fld s) (r_stale s) (r_free_s s) (r_free_b s) (r_ndesc s) (rel ++ r_freed s)
  end.

Definition rwrite (c : cfg) (s : rst) (tid : N) (seed : N) : rst :=
  match tl_view c (r_tl s) tid with
  | None => s
  | Some old =>
    match tl_write c (r_tl s) tid 0 (pattern_bytes seed (length old)) with
    | Some tl' => mkr tl' (r_ctr s) (r_desc s) (r_fld s) (r_stale s) (r_free_s s) (r_free_b s) (r_ndesc s) (r_freed s)
    | None => s
    end
  end.

(* qthread_thread_free: FREE(blob); *slot = NULL; qt_free(heap argument copy); FREE_[BIG_]QTHREAD(t) *)
Definition rfree (c : cfg) (s : rst) (tid : N) : rst :=
  match aget (s_tasks (r_tl s)) tid, aget (r_desc s) tid with
  | Some t, Some d =>
    let data' := if t_tlsz t =? 0 then t_data t
                 else upd_range (t_data t) (tl_off c t) (repeat 0%N PTR) in
    let blob := if t_tlsz t =? 0 then [] else match t_slot t with Some b => [b] | None => [] end in
    let argb := match t_arg t with ArgHeap b _ => [b] | _ => [] end in
    mkr (thread_free (r_tl s) tid) (r_ctr s) (adel (r_desc s) tid) (r_fld s) (aset (r_stale s) d data')
        (if t_big t then r_free_s s else d :: r_free_s s)
        (if t_big t then d :: r_free_b s else r_free_b s)
        (r_ndesc s) (argb ++ blob ++ r_freed s)
  | _, _ => s
  end.

Definition rstep (c : cfg) (junk : nat -> byte) (s : rst) (o : rop) : rst * option N :=
  match o with
  | RSpawn tid arg => (rspawn c junk s tid arg, None)
  | RId tid => rid s tid
  | RGet tid size => (rget c junk s tid size, None)
  | RWrite tid seed => (rwrite c s tid seed, None)
  | RFree tid => (rfree c s tid, None)
  end.

Definition rrun (c : cfg) (junk : nat -> byte) (s : rst) (ops : list rop) : rst :=
  fold_left (fun s o => fst (rstep c junk s o)) ops s.

(* observations used by the replay on the real code *)
Definition desc_of (s : rst) (tid : N) : option N := aget (r_desc s) tid.
Definition live_fld (s : rst) (tid : N) : option N :=
  match aget (r_desc s) tid with Some d => Some (fld_of s d) | None => None end.
