(* C07: trace-level invariants linking a ready-queue node's stealable bit to the task's pin, and confining the main
   (McCoy) task to shepherd 0 / worker 0; steal_respects_pin and mccoy_worker0 for every run of the kernel model *)
From Coq Require Import List Bool Arith NArith Lia.
From QV Require Import Kernel.GenSpawnTable Kernel.Placement Kernel.ProofsPlacement Kernel.Model Kernel.ProofsKernel Kernel.ProofsC07.
Import ListNotations.

(* ---------------------------------------------------------------- the two invariants on lists *)
(* J1: the bit stored in a queue node is the negation of the task's present UNSTEALABLE flag *)
Definition J1l (ps : list (nat * loc)) (ts : list (nat * task)) : Prop :=
  forall t q b, In (t, InQueue q b) ps -> exists x, get_task t ts = Some x /\ b = negb x.(t_unsteal).
(* J2: UNSTEALABLE is set exactly for tasks with a target shepherd, and for the main task *)
Definition pinrel (x : task) : Prop :=
  x.(t_unsteal) = match x.(t_target) with Some _ => true | None => x.(t_mccoy) end.
Definition J2l (ts : list (nat * task)) : Prop := forall t x, get_task t ts = Some x -> pinrel x.

Lemma J1_move_upd ps ts t0 x0 f to :
  J1l ps ts -> get_task t0 ts = Some x0 -> (forall y, t_unsteal (f y) = t_unsteal y) ->
  (forall q b, to = InQueue q b -> b = negb x0.(t_unsteal)) ->
  J1l ((t0, to) :: drop_tid t0 ps) (upd_task t0 f ts).
Proof.
  intros J G F T t q b [X|X].
  - inversion X; subst. rewrite get_upd, Nat.eqb_refl, G. cbn. eexists; split; [reflexivity|].
    rewrite F. eapply T; reflexivity.
  - apply in_drop_tid in X. destruct X as [X Ne]. destruct (J _ _ _ X) as (x & Gx & Bx).
    exists x. split; auto. rewrite get_upd. destruct (t0 =? t) eqn:E; auto. apply Nat.eqb_eq in E. congruence.
Qed.

Lemma J1_move ps ts t0 x0 to :
  J1l ps ts -> get_task t0 ts = Some x0 ->
  (forall q b, to = InQueue q b -> b = negb x0.(t_unsteal)) ->
  J1l ((t0, to) :: drop_tid t0 ps) ts.
Proof.
  intros J G T t q b [X|X].
  - inversion X; subst. eexists; split; [eassumption|]. eapply T; reflexivity.
  - apply in_drop_tid in X. destruct X as [X Ne]. eauto.
Qed.

Lemma J1_upd ps ts t0 f :
  J1l ps ts -> (forall y, t_unsteal (f y) = t_unsteal y) -> J1l ps (upd_task t0 f ts).
Proof.
  intros J F t q b X. destruct (J _ _ _ X) as (x & Gx & Bx). rewrite get_upd.
  destruct (t0 =? t); [rewrite Gx; cbn; eexists; split; [reflexivity|rewrite F; auto]|eauto].
Qed.

Lemma J1_upd_unqueued ps ts t0 f :
  J1l ps ts -> (forall q b, ~ In (t0, InQueue q b) ps) -> J1l ps (upd_task t0 f ts).
Proof.
  intros J N t q b X. destruct (J _ _ _ X) as (x & Gx & Bx). rewrite get_upd.
  destruct (t0 =? t) eqn:E; [apply Nat.eqb_eq in E; subst; exfalso; eapply N; eauto|eauto].
Qed.

Lemma J1_new ps ts n x l :
  J1l ps ts -> (forall l', ~ In (n, l') ps) -> (forall q b, l = InQueue q b -> b = negb x.(t_unsteal)) ->
  J1l ((n, l) :: ps) ((n, x) :: ts).
Proof.
  intros J N T t q b [X|X].
  - inversion X; subst. cbn. rewrite Nat.eqb_refl. eexists; split; [reflexivity|]. eapply T; reflexivity.
  - cbn. destruct (n =? t) eqn:E; [apply Nat.eqb_eq in E; subst; exfalso; eapply N; eauto|eauto].
Qed.

Lemma J2_upd ts t0 f :
  J2l ts -> (forall y, get_task t0 ts = Some y -> pinrel y -> pinrel (f y)) -> J2l (upd_task t0 f ts).
Proof.
  intros J F t x G. rewrite get_upd in G. destruct (t0 =? t) eqn:E; [|eauto].
  apply Nat.eqb_eq in E; subst. destruct (get_task t ts) as [y|] eqn:Gy; [|discriminate].
  cbn in G. inversion G; subst. eauto.
Qed.

Lemma J2_new ts n x : J2l ts -> pinrel x -> J2l ((n, x) :: ts).
Proof. intros J P t y G. cbn in G. destruct (n =? t); [inversion G; subst; auto|eauto]. Qed.

(* ---------------------------------------------------------------- preservation *)
Definition pin_inv (st : state) : Prop := refs_ok st /\ J1l st.(places) st.(tasks) /\ J2l st.(tasks).

Ltac norm_state :=
  cbn [places tasks modify set_tasks set_mem set_active set_places];
  repeat match goal with
         | X : places ?s = _ |- _ => rewrite X in *; clear X
         | X : tasks ?s = _ |- _ => rewrite X in *; clear X
         end;
  cbn [places tasks modify set_tasks set_mem set_active set_places].

Ltac side_unsteal := intros; reflexivity.
Ltac side_to :=
  let X := fresh in intros ? ? X; first [discriminate X | inversion X; subst; unfold qnode; reflexivity].

Lemma unqueued_running st t s w :
  refs_ok st -> place_of t st.(places) = Some (OnWorker s w) -> forall q b, ~ In (t, InQueue q b) st.(places).
Proof.
  intros [ND _] P q b X. pose proof (in_place_of _ _ _ ND X). congruence.
Qed.

Lemma J1_step st l st' : pin_inv st -> step st l = Some st' -> J1l st'.(places) st'.(tasks).
Proof.
  intros (R & J1 & J2) H.
  destruct l; cbn [step] in H; inv_step H; use_running; use_moves;
    try (inversion H; subst; clear H); norm_state; auto;
      try (first [ eapply J1_move_upd; [eassumption|eassumption|side_unsteal|side_to]
                 | eapply J1_move; [eassumption|eassumption|side_to]
                 | eapply J1_upd; [eassumption|side_unsteal]
                 | eapply J1_upd_unqueued; [eassumption|eapply unqueued_running; eassumption] ]).
  (* spawn *)
  eapply J1_new; auto.
  - intros l' X. destruct R as [_ Dom]. apply (in_map fst) in X. apply Dom in X. cbn in X. lia.
  - intros q b X. destruct (r_precond row && pre_blocked); [discriminate X|inversion X; subst; reflexivity].
Qed.

Lemma J2_step st l st' : pin_inv st -> step st l = Some st' -> J2l st'.(tasks).
Proof.
  intros (R & J1 & J2) H.
  destruct l; cbn [step] in H; inv_step H; use_running; use_moves;
    try (inversion H; subst; clear H); norm_state; auto;
      try (eapply J2_upd; [eassumption|];
           let G := fresh in let P := fresh in intros ? G P; unfold pinrel in *; cbn; try exact P).
  (* spawn *)
  1: { eapply J2_new; auto. unfold pinrel; cbn.
       destruct (if r_to row then option_map (fun h : nat => h mod nsh st) shep_param else None); reflexivity. }
  (* migrate_to: same shepherd, unpin, move *)
  all: match goal with G0 : get_task ?t ?ts = Some ?y0, G1 : get_task ?t ?ts = Some ?y1 |- _ => rewrite G0 in G1; inversion G1; subst end.
  all: match goal with E : migrate_case_of _ _ _ _ = _ |- _ => unfold migrate_case_of in E end.
  all: destruct (t_mccoy y); try discriminate; destruct h; try reflexivity;
    repeat match goal with E : (if ?c then _ else _) = _ |- _ => destruct c end; discriminate.
Qed.

Lemma pin_inv_init ns nw ac : pin_inv (init ns nw ac).
Proof.
  split; [apply refs_ok_init|]. split.
  - intros t q b [X|[]]. inversion X.
  - intros t x G. destruct t; cbn in G; inversion G; subst. reflexivity.
Qed.

Lemma pin_inv_step st l st' : pin_inv st -> step st l = Some st' -> pin_inv st'.
Proof.
  intros I H. split; [eapply refs_ok_step; [apply I|eauto]|]. split; [eapply J1_step|eapply J2_step]; eauto.
Qed.

Lemma pin_inv_run tr : forall st st', pin_inv st -> run st tr = Some st' -> pin_inv st'.
Proof.
  induction tr as [|l r IH]; cbn; intros st st' I H; [inversion H; subst; auto|].
  destruct (step st l) as [s1|] eqn:E; [|discriminate]. apply (IH s1 st'); [eapply pin_inv_step; eauto|exact H].
Qed.

(* steal_respects_pin, for every run: a task obtained from another shepherd's queue is not pinned - its UNSTEALABLE flag
   is clear, it has no target shepherd and it is not the main task *)
Theorem steal_respects_pin ns nw ac tr st s w src t st' :
  run (init ns nw ac) tr = Some st -> step st (LTake s w src t) = Some st' -> src <> s ->
  exists x, get_task t st.(tasks) = Some x /\ x.(t_unsteal) = false /\ x.(t_target) = None /\ x.(t_mccoy) = false.
Proof.
  intros R H Ne. destruct (pin_inv_run _ _ _ (pin_inv_init ns nw ac) R) as (_ & J1 & J2).
  destruct (steal_respects_pin_partial _ _ _ _ _ _ H) as (b & x & P & G & B & _).
  exists x. split; auto. apply place_of_in in P. destruct (J1 _ _ _ P) as (x' & G' & Bx).
  rewrite G in G'; inversion G'; subst x'. rewrite (B Ne) in Bx.
  assert (U : t_unsteal x = false) by (destruct (t_unsteal x); [discriminate|reflexivity]).
  pose proof (J2 _ _ G) as Pr. unfold pinrel in Pr. rewrite U in Pr.
  destruct (t_target x); [discriminate|]. auto.
Qed.

(* the converse direction of the invariant, as a statement about queues: a pinned task always sits in an unstealable node *)
Theorem pinned_node_unstealable ns nw ac tr st t q b x h :
  run (init ns nw ac) tr = Some st -> In (t, InQueue q b) st.(places) -> get_task t st.(tasks) = Some x ->
  x.(t_target) = Some h -> b = false.
Proof.
  intros R X G T. destruct (pin_inv_run _ _ _ (pin_inv_init ns nw ac) R) as (_ & J1 & J2).
  destruct (J1 _ _ _ X) as (x' & G' & Bx). rewrite G in G'; inversion G'; subst x'.
  pose proof (J2 _ _ G) as Pr. unfold pinrel in Pr. rewrite T in Pr. rewrite Pr in Bx. exact Bx.
Qed.

(* ================================================================ the main (McCoy) task *)
Definition mccoy_place (l : loc) : Prop :=
  match l with
  | InQueue 0 false | Held 0 0 _ | OnWorker 0 0 | Blocked | InSyscall | Freed => True
  | _ => False
  end.
Definition mcrel (t : nat) (x : task) : Prop :=
  (x.(t_mccoy) = true <-> t = 0) /\ (t = 0 -> x.(t_shep) = 0 /\ x.(t_target) = None /\ x.(t_unsteal) = true).
Definition Mtl (ts : list (nat * task)) : Prop := forall t x, get_task t ts = Some x -> mcrel t x.
Definition Mpl (ps : list (nat * loc)) : Prop := forall l, In (0, l) ps -> mccoy_place l.

Lemma Mt_upd ts t0 f :
  Mtl ts -> (forall y, get_task t0 ts = Some y -> mcrel t0 y -> mcrel t0 (f y)) -> Mtl (upd_task t0 f ts).
Proof.
  intros J F t x G. rewrite get_upd in G. destruct (t0 =? t) eqn:E; [|eauto].
  apply Nat.eqb_eq in E; subst. destruct (get_task t ts) as [y|] eqn:Gy; [|discriminate].
  cbn in G. inversion G; subst. eauto.
Qed.

Lemma Mt_new ts n x : Mtl ts -> n <> 0 -> x.(t_mccoy) = false -> Mtl ((n, x) :: ts).
Proof.
  intros J N M t y G. cbn in G. destruct (n =? t) eqn:E; [|eauto].
  apply Nat.eqb_eq in E; subst. inversion G; subst. split.
  - rewrite M. split; [discriminate|intros; contradiction].
  - intros; contradiction.
Qed.

Lemma Mp_move ps t0 to : Mpl ps -> (t0 = 0 -> mccoy_place to) -> Mpl ((t0, to) :: drop_tid t0 ps).
Proof.
  intros J T l [X|X].
  - inversion X; subst. auto.
  - apply in_drop_tid in X. destruct X. auto.
Qed.

Lemma Mp_new ps n l : Mpl ps -> n <> 0 -> Mpl ((n, l) :: ps).
Proof. intros J N l' [X|X]; [inversion X; subst; contradiction|auto]. Qed.

Definition mc_inv (st : state) : Prop := refs_ok st /\ Mtl st.(tasks) /\ Mpl st.(places) /\ 0 < st.(next).

(* where the main task is, given the place the transition takes it from *)
Ltac mc_where :=
  repeat match goal with
         | M : Mpl ?ps, P : place_of 0 ?ps = Some ?l |- _ =>
           let X := fresh "MP" in
           pose proof (M _ (place_of_in _ _ _ P)) as X; cbn in X; clear P
         end;
  repeat match goal with
         | X : match ?s with 0 => _ | S _ => _ end |- _ => destruct s; try contradiction
         | X : match ?b with true => _ | false => _ end |- _ => destruct b; try contradiction
         end.

Ltac bool_hyps :=
  repeat match goal with
         | H : negb _ = false |- _ => apply negb_false_iff in H
         | H : negb _ = true |- _ => apply negb_true_iff in H
         | H : _ && _ = true |- _ => apply andb_true_iff in H; destruct H
         | H : (_ =? _) = true |- _ => apply Nat.eqb_eq in H
         end.

Ltac mc_task_facts Mt :=
  repeat match goal with
         | G : get_task 0 _ = Some ?y |- _ =>
           let A := fresh "MA" in let B := fresh "MB" in
           pose proof (Mt _ _ G) as [A B]; destruct (B eq_refl) as (? & ? & ?); clear B;
           destruct A as [_ A]; specialize (A eq_refl); revert G
         end; intros.

Ltac mc_finish :=
  try contradiction; unfold qnode, reads_plausible, reads_of in *;
  repeat match goal with
         | E : t_shep _ = 0 |- _ => progress (rewrite E in * )
         | E : t_target _ = None |- _ => progress (rewrite E in * )
         | E : t_unsteal _ = true |- _ => progress (rewrite E in * )
         | A : t_mccoy _ = true |- _ => progress (rewrite A in * )
         | G : get_task 0 ?ts = Some _, X : context [get_task 0 ?ts] |- _ => rewrite G in X
         end;
  rewrite ?wake_dest_pinned in *; cbn in *; bool_hyps; subst; cbn in *;
  try discriminate; try congruence; auto.

Lemma Mp_step st l st' : mc_inv st -> reads_plausible st l = true -> step st l = Some st' -> Mpl st'.(places).
Proof.
  intros (R & Mt & Mp & Np) RP H.
  destruct l; cbn [step] in H; inv_step H; use_running; use_moves;
    try (inversion H; subst; clear H); norm_state; auto;
      try (apply Mp_new; [assumption|lia]);
      try (eapply Mp_move; [eassumption|]; intros ->; mc_task_facts Mt; mc_where; cbn; auto; mc_finish).
  all: destruct from; try discriminate; destruct s; cbn in *; try discriminate; exact I.
Qed.

Lemma Mt_step st l st' : mc_inv st -> reads_plausible st l = true -> step st l = Some st' -> Mtl st'.(tasks).
Proof.
  intros (R & Mt & Mp & Np) RP H.
  destruct l; cbn [step] in H; inv_step H; use_running; use_moves;
    try (inversion H; subst; clear H); norm_state; auto;
      try (apply Mt_new; [assumption|lia|reflexivity]);
      try (eapply Mt_upd; [eassumption|];
           let G := fresh "G" in let A := fresh "A" in let B := fresh "B" in
           intros ? G [A B]; unfold mcrel; cbn; split; [exact A|]; intros ->;
           destruct (B eq_refl) as (? & ? & ?);
           try (repeat split; assumption)).
  all: repeat match goal with
              | G0 : get_task 0 ?ts = Some ?a, G1 : get_task 0 ?ts = Some ?b |- _ => rewrite G0 in G1; inversion G1; subst; clear G1
              end.
  all: try match goal with A : t_mccoy ?y = true <-> 0 = 0 |- _ => destruct A as [_ A]; specialize (A eq_refl) end.
  all: mc_where.
  all: unfold migrate_case_of in *; mc_finish.
Qed.

Fixpoint all_reads_plausible (st : state) (tr : list label) : Prop :=
  match tr with
  | [] => True
  | l :: r => reads_plausible st l = true /\ match step st l with Some st' => all_reads_plausible st' r | None => True end
  end.

Lemma mc_inv_init ns nw ac : mc_inv (init ns nw ac).
Proof.
  split; [apply refs_ok_init|]. split; [|split].
  - intros t x G. destruct t; cbn in G; inversion G; subst. unfold mcrel; cbn. split; [tauto|auto].
  - intros l [X|[]]. inversion X; subst. exact I.
  - cbn. lia.
Qed.

Lemma mc_inv_step st l st' : mc_inv st -> reads_plausible st l = true -> step st l = Some st' -> mc_inv st'.
Proof.
  intros I RP H. split; [eapply refs_ok_step; [apply I|eauto]|]. split; [eapply Mt_step; eauto|].
  split; [eapply Mp_step; eauto|]. destruct I as (_ & _ & _ & Np). pose proof (next_mono _ _ _ H). lia.
Qed.

Lemma mc_inv_run tr : forall st st', mc_inv st -> all_reads_plausible st tr -> run st tr = Some st' -> mc_inv st'.
Proof.
  induction tr as [|l r IH]; cbn; intros st st' I RP H; [inversion H; subst; auto|].
  destruct (step st l) as [s1|] eqn:E; [|discriminate]. destruct RP as [RP1 RP2].
  apply (IH s1 st'); [eapply mc_inv_step; eauto|exact RP2|exact H].
Qed.

(* mccoy_worker0, for every run: every execution of the main task is on worker 0 of shepherd 0.
   Hypothesis all_reads_plausible: a read of shepherd 0's `active` flag returns true (nobody ever writes that flag:
   qthread_disable_shepherd(0) is refused - shepherd0_never_disabled); it holds for every real execution whatever the timing. *)
Theorem mccoy_worker0 ns nw ac tr st s w t got st' x :
  run (init ns nw ac) tr = Some st -> all_reads_plausible (init ns nw ac) tr ->
  step st (LExec s w t got) = Some st' -> get_task t st.(tasks) = Some x -> x.(t_mccoy) = true ->
  s = 0 /\ w = 0.
Proof.
  intros R RP H G M. destruct (mc_inv_run _ _ _ (mc_inv_init ns nw ac) RP R) as (_ & Mt & Mp & _).
  destruct (Mt _ _ G) as [A _]. apply A in M. subst t.
  cbn [step] in H. rewrite G in H. inv_step H; use_moves; mc_where; auto.
Qed.

(* the main task is never found anywhere but in shepherd 0's queue (as an unstealable node), in the hands of worker (0,0),
   or suspended; in particular no other shepherd's queue ever holds it *)
Theorem mccoy_confined ns nw ac tr st l :
  run (init ns nw ac) tr = Some st -> all_reads_plausible (init ns nw ac) tr -> In (0, l) st.(places) -> mccoy_place l.
Proof.
  intros R RP X. destruct (mc_inv_run _ _ _ (mc_inv_init ns nw ac) RP R) as (_ & _ & Mp & _). auto.
Qed.

(* non-vacuity of the hypothesis and of the reachable situation: the main task blocks, is woken by a task running on
   shepherd 1, is dequeued by worker (0,0) and executed there *)
Example mccoy_example :
  let row := mkRow true false true false false 0 0 false in
  let tr := [LSpawn (Some (0, 0)) row (Some 1) 0%N 5%N false; LMayBlock 0; LBlocked 0 0 0; LTake 1 0 1 1;
             LExec 1 0 1 (Some (Ptr 5)); LWake 1 0 0 1; LTake 0 0 0 0] in
  all_reads_plausible (init 2 2 1024) tr /\
  exists st, run (init 2 2 1024) tr = Some st /\ exists st', step st (LExec 0 0 0 None) = Some st'.
Proof. cbn. repeat split; auto. eexists; split; [reflexivity|]. eexists. vm_compute. reflexivity. Qed.
