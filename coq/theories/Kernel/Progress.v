(* C04 progress (extension M): the kernel model (Kernel/Model.v) COMPOSED with the ready queues of C08 (TQueue/Model.v).

   A composed state = the kernel state (task descriptors + multiset of references) + one sherwood queue per shepherd
   (TQueue.Model.sys: ordered node lists with the two counters) + the remaining program of every task.  Every composed
   event is executed by running the kernel labels it stands for through Kernel.Model.run (so the composed system is a
   refinement of the kernel model BY CONSTRUCTION: the kernel component of every composed execution is a kernel run, and all
   safety theorems of ProofsKernel/ProofsPin apply) and by performing the queue operation of the code branch on the
   TQueue queues:

     EPop s w       idle worker (s,w) pops its own queue:  TQueue.dequeue_worker (McCoy left in place for workers != 0.0)
     ESteal s w v   idle worker of an enabled shepherd whose own queue is empty steals from v: TQueue.dequeue_steal
                    (the C scan driven by qlength_stealable); first node to the worker, surplus by enqueue_multiple
     EDispatch s w  qthread_master's guard: send home (enqueue at the target's tail) or execute
     EBody s w      the task running on (s,w) performs the next operation of its body (spawn of any variant / failed
                    spawn / store / yield / migrate_to / blocking system call / FEB-style wait that blocks or not /
                    return); the main task ends with a final wait (it blocks until everybody is done)
     EMaster s w    qthread_master after qthread_exec returned: YIELDED -> head of the own queue, MIGRATING -> tail of the
                    target's queue, blocked -> waiter list, SYSCALL -> blocking subsystem, TERMINATED -> free
     EWake / ELaunch / EIoDone   the environment releases a blocked / nascent / syscall-blocked task (C02, C20)

   The only way a queued task starts is EPop / ESteal followed by EDispatch.
   Scope: executions without qthread_disable_shepherd (the dispatch re-route branch is C07's subject) and without
   qthread_yield_near.  Definitions only (no proofs): this file is extracted. *)
From Coq Require Import List Bool Arith NArith ZArith.
From QV Require Import Kernel.GenSpawnTable Kernel.Placement Kernel.Model.
From QV Require TQueue.Model.
Import ListNotations.


(* ---------------------------------------------------------------- task bodies: finite lists of operations *)
Inductive bop :=
| BSpawn (row : spawn_row) (shep_param : option nat) (asize src : N) (pre_blocked : bool) (child : list bop)
| BSpawnFail (row : spawn_row) (shep_param : option nat) (asize src : N)   (* qthread_spawn fails in step 4 *)
| BStore (a : N) (bytes : list N)
| BNoBlock                 (* a possibly blocking FEB / syncvar / sinc operation that does not block *)
| BYield
| BMigrate (h : option nat)
| BSyscall
| BBlock.                  (* a FEB / syncvar / sinc wait that blocks (released by the environment: EWake) *)

(* number of operations of a program, the programs of the children it spawns included (+1 per child for its return) *)
Fixpoint osize (o : bop) : nat :=
  match o with
  | BSpawn _ _ _ _ _ child => 2 + (fix ps (l : list bop) : nat := match l with [] => 0 | x :: r => osize x + ps r end) child
  | _ => 1
  end.
Fixpoint psize (p : list bop) : nat := match p with [] => 0 | x :: r => osize x + psize r end.

(* a QTHREAD_SIMPLE task has no context of its own: its body must not suspend *)
Definition simple_op (o : bop) : bool :=
  match o with BSpawn _ _ _ _ _ _ | BSpawnFail _ _ _ _ | BStore _ _ => true | _ => false end.
Fixpoint wf_op (o : bop) : bool :=
  match o with
  | BSpawn row _ _ _ _ child =>
    (fix wfl (l : list bop) : bool := match l with [] => true | x :: r => wf_op x && wfl r end) child
    && (negb row.(r_simple) || forallb simple_op child)
  | _ => true
  end.
Fixpoint wf_prog (p : list bop) : bool := match p with [] => true | x :: r => wf_op x && wf_prog r end.

(* ---------------------------------------------------------------- composed state *)
Record cstate := mkC { ck : state; cs : TQueue.Model.sys; cprog : list (nat * list bop) }.

Fixpoint get_prog (t : nat) (ps : list (nat * list bop)) : option (list bop) :=
  match ps with
  | [] => None
  | (k, p) :: r => if k =? t then Some p else get_prog t r
  end.
Definition del_prog (t : nat) (ps : list (nat * list bop)) : list (nat * list bop) :=
  filter (fun kp => negb (fst kp =? t)) ps.
Definition set_prog (t : nat) (p : list bop) (ps : list (nat * list bop)) : list (nat * list bop) :=
  (t, p) :: del_prog t ps.

(* the queue node of task t: tid, stealable bit, McCoy flag (the main task is tid 0) *)
Definition nd (t : nat) (b : bool) : TQueue.Model.node := TQueue.Model.mkNode (N.of_nat t) b (t =? 0) 0%N.
Definition ntid (n : TQueue.Model.node) : nat := N.to_nat (TQueue.Model.tid n).

(* qthread_worker(NULL): packed worker id, 0 only for worker 0 of shepherd 0 *)
Definition packed (k : state) (s w : nat) : nat := s * k.(nwk) + w.
Definition idle (k : state) (s w : nat) : bool :=
  match worker_ref s w k.(places) with None => true | Some _ => false end.

Definition enq (ss : TQueue.Model.sys) (q : nat) (n : TQueue.Model.node) : TQueue.Model.sys := TQueue.Model.setq ss q (TQueue.Model.enqueue (TQueue.Model.getq ss q) n).
Definition enq_head (ss : TQueue.Model.sys) (q : nat) (n : TQueue.Model.node) : TQueue.Model.sys := TQueue.Model.setq ss q (TQueue.Model.enqueue_yielded (TQueue.Model.getq ss q) n).

(* the shepherd in whose bag the kernel model keeps the reference of a queued node *)
Definition take_from (k : state) (n : TQueue.Model.node) : option nat :=
  match place_of (ntid n) k.(places) with Some (InQueue from _) => Some from | _ => None end.

Definition with_k (c : cstate) (ls : list label) (ss : TQueue.Model.sys) (pr : list (nat * list bop)) : option cstate :=
  match run c.(ck) ls with Some k' => Some (mkC k' ss pr) | None => None end.

Inductive cev :=
| EPop (s w : nat)
| ESteal (s w v : nat)
| EDispatch (s w : nat)
| EBody (s w : nat)
| EMaster (s w : nat)
| EWake (t ws tu : nat)
| ELaunch (t ws : nat)
| EIoDone (t : nat).

Definition has_prog (t : nat) (ps : list (nat * list bop)) : bool :=
  match get_prog t ps with Some _ => true | None => false end.

Definition cstep (c : cstate) (e : cev) : option cstate :=
  let k := c.(ck) in
  let ss := c.(cs) in
  match e with
  | EPop s w =>
    if idle k s w && (s <? k.(nsh)) && (w <? k.(nwk)) then
      match TQueue.Model.dequeue_worker (TQueue.Model.getq ss s) (packed k s w) with
      | (Some n, q') =>
        match take_from k n with
        | Some from => with_k c [LTake s w from (ntid n)] (TQueue.Model.setq ss s q') c.(cprog)
        | None => None
        end
      | (None, _) => None
      end
    else None
  | ESteal s w v =>
    if idle k s w && (s <? k.(nsh)) && (w <? k.(nwk)) && (v <? k.(nsh)) && negb (v =? s) && nthb k.(active) s then
      match TQueue.Model.items (TQueue.Model.getq ss s) with
      | [] =>
        match TQueue.Model.dequeue_steal (TQueue.Model.chunk ss) false (TQueue.Model.getq ss v) with
        | (n :: surplus, vq') =>
          match take_from k n with
          | Some from =>
            let s1 := TQueue.Model.setq ss v vq' in
            with_k c [LTake s w from (ntid n)] (TQueue.Model.setq s1 s (TQueue.Model.enqueue_multiple (TQueue.Model.getq s1 s) surplus)) c.(cprog)
          | None => None
          end
        | ([], _) => None
        end
      | _ :: _ => None
      end
    else None
  | EDispatch s w =>
    match worker_ref s w k.(places) with
    | Some (t, Held _ _ false) =>
      match get_task t k.(tasks) with
      | Some x =>
        let at_ := match x.(t_target) with Some h => nthb k.(active) h | None => false end in
        match dispatch s x.(t_target) at_ (nthb k.(active) s) with
        | DSendHome h => with_k c [LSendHome s w t h] (enq ss h (nd t (qnode x))) c.(cprog)
        | DReroute _ => None
        | DExec => with_k c [LExec s w t (match x.(t_state) with NEW => Some x.(t_arg) | _ => None end)] ss c.(cprog)
        end
      | None => None
      end
    | _ => None
    end
  | EBody s w =>
    match worker_ref s w k.(places) with
    | Some (t, OnWorker _ _) =>
      match get_task t k.(tasks) with
      | Some x =>
        if tstate_eqb x.(t_state) RUNNING && negb x.(t_mayblock) then
          match get_prog t c.(cprog) with
          | Some (op :: rest) =>
            let pr := set_prog t rest c.(cprog) in
            match op with
            | BSpawn row sp asize src pre child =>
              let tid := k.(next) in
              match run k [LSpawn (Some (s, w)) row sp asize src pre] with
              | Some k' =>
                let ss' := match place_of tid k'.(places) with
                           | Some (InQueue q b) => enq ss q (nd tid b)      (* step 6: qt_threadqueue_enqueue *)
                           | _ => ss                                         (* nascent: parked on its precondition *)
                           end in
                Some (mkC k' ss' ((tid, child) :: pr))
              | None => None
              end
            | BSpawnFail _ _ _ _ => Some (mkC k ss pr)                        (* descriptor allocated and freed again *)
            | BStore a bytes => with_k c [LStore a bytes] ss pr
            | BNoBlock => with_k c [LMayBlock t; LNoBlock t] ss pr
            | BYield => with_k c [LYield t] ss pr
            | BMigrate h => with_k c [LMigrate t h] ss pr
            | BSyscall => with_k c [LSyscallPre t] ss pr
            | BBlock => with_k c [LMayBlock t] ss pr
            end
          | Some [] =>
            if t =? 0 then with_k c [LMayBlock t; LBlocked s w t] ss (del_prog t c.(cprog))   (* main: the final wait, it blocks *)
            else with_k c [LEnd t] ss (del_prog t c.(cprog))
          | None => if t =? 0 then None else with_k c [LEnd t] ss c.(cprog)
          end
        else None
      | None => None
      end
    | _ => None
    end
  | EMaster s w =>
    match worker_ref s w k.(places) with
    | Some (t, OnWorker _ _) =>
      match get_task t k.(tasks) with
      | Some x =>
        match x.(t_state) with
        | YIELDED => with_k c [LPostYield s w t] (enq_head ss s (nd t (qnode x))) c.(cprog)
        | MIGRATING =>
          match x.(t_target) with
          | Some h => with_k c [LPostMigrate s w t] (enq ss h (nd t (qnode x))) c.(cprog)
          | None => None
          end
        | RUNNING => if x.(t_mayblock) then with_k c [LBlocked s w t] ss c.(cprog) else None
        | SYSCALL => with_k c [LPostSyscall s w t] ss c.(cprog)
        | TERMINATED => with_k c [LFree s w t] ss c.(cprog)
        | _ => None
        end
      | None => None
      end
    | _ => None
    end
  | EWake t ws tu =>
    match place_of t k.(places), get_task t k.(tasks) with
    | Some Blocked, Some x =>
      if negb (t =? 0) || has_prog 0 c.(cprog) then          (* the final wait of main is released by nobody *)
        let q := wake_dest tu x.(t_unsteal) x.(t_shep) ws in
        with_k c [LWake ws t q tu] (enq ss q (nd t (qnode x))) c.(cprog)
      else None
    | _, _ => None
    end
  | ELaunch t ws =>
    match place_of t k.(places), get_task t k.(tasks) with
    | Some Nascent, Some x =>
      let q := launch_dest x.(t_target) ws in
      with_k c [LLaunch ws t q] (enq ss q (nd t (qnode x))) c.(cprog)
    | _, _ => None
    end
  | EIoDone t =>
    match place_of t k.(places), get_task t k.(tasks) with
    | Some InSyscall, Some x => with_k c [LIoDone t x.(t_shep)] (enq ss x.(t_shep) (nd t (qnode x))) c.(cprog)
    | _, _ => None
    end
  end.

Fixpoint crun (c : cstate) (es : list cev) : option cstate :=
  match es with
  | [] => Some c
  | e :: r => match cstep c e with Some c' => crun c' r | None => None end
  end.

Definition cinit (ns nw : nat) (ac : N) (chunk : Z) (mainprog : list bop) : cstate :=
  mkC (init ns nw ac) (TQueue.Model.init_sys ns chunk) [(0, mainprog)].

(* events of the runtime itself (workers); the other three are the environment's releases *)
Definition internal (e : cev) : bool :=
  match e with EWake _ _ _ | ELaunch _ _ | EIoDone _ => false | _ => true end.
Definition sched (e : cev) : bool :=
  match e with EPop _ _ | ESteal _ _ _ => true | _ => false end.

(* ---------------------------------------------------------------- progress measure *)
(* distance of one task reference from the next point at which its body makes a step (0: never again) *)
Definition pos (l : loc) (x : task) : nat :=
  match l with
  | Freed => 0
  | OnWorker _ _ =>
    match x.(t_state) with
    | TERMINATED => 1
    | RUNNING => if x.(t_mayblock) then 8 else 2
    | SYSCALL => 8
    | _ => 7
    end
  | Held s _ _ => match x.(t_target) with Some h => if h =? s then 3 else 5 | None => 3 end
  | InQueue q _ => match x.(t_target) with Some h => if h =? q then 4 else 6 | None => 4 end
  | Blocked | InSyscall | Nascent => 7
  end.

Fixpoint possum (ps : list (nat * loc)) (ts : list (nat * task)) : nat :=
  match ps with
  | [] => 0
  | (t, l) :: r => match get_task t ts with Some x => pos l x | None => 0 end + possum r ts
  end.

Fixpoint progsum (ps : list (nat * list bop)) : nat :=
  match ps with [] => 0 | (_, p) :: r => S (psize p) + progsum r end.

Definition measure (c : cstate) : nat := 8 * progsum c.(cprog) + possum c.(ck).(places) c.(ck).(tasks).

(* ---------------------------------------------------------------- the end-of-run predicate (checked on every real run) *)
(* qobs: per shepherd (qlength, qlength_stealable, head == NULL && tail == NULL), read white-box from the real queues *)
Definition task_done (k : state) (kv : nat * task) : bool :=
  let t := fst kv in
  let x := snd kv in
  if x.(t_mccoy) then true
  else tstate_eqb x.(t_state) TERMINATED && (x.(t_started) =? 1) &&
       match place_of t k.(places) with Some Freed => true | _ => false end.

Definition ref_done (p : nat * loc) : bool :=
  match snd p with
  | Freed => true
  | Blocked | OnWorker _ _ => fst p =? 0          (* the main task: in its final wait, or running again after it *)
  | _ => false
  end.

Definition queue_obs_empty (q : Z * Z * bool) : bool :=
  let '(ql, qs, nohead) := q in Z.eqb ql 0 && Z.eqb qs 0 && nohead.

Definition quiescent_ok (k : state) (qobs : list (Z * Z * bool)) : bool :=
  forallb (task_done k) k.(tasks) && forallb ref_done k.(places) &&
  (length qobs =? k.(nsh)) && forallb queue_obs_empty qobs.

Definition obs_of_queue (q : TQueue.Model.queue) : Z * Z * bool :=
  (TQueue.Model.qlen q, TQueue.Model.qstl q, match TQueue.Model.items q with [] => true | _ => false end).
Definition cquiescent_ok (c : cstate) : bool :=
  quiescent_ok c.(ck) (map obs_of_queue (TQueue.Model.queues c.(cs))).

(* which of the tasks are not done (for the check's message) *)
Definition not_done (k : state) : list nat :=
  map fst (filter (fun kv => negb (task_done k kv)) k.(tasks)).

(* ---------------------------------------------------------------- spawn failure (qthread_spawn step 4) *)
(* The descriptor has been taken from the pool (qthread_thread_new) when the preparation of the return location fails
   (qthread_empty / qthread_syncvar_empty: QTHREAD_MALLOC_ERROR, QTHREAD_TIMEOUT); the error path is
   `qthread_thread_free(t); return test;`.  As a kernel transition: the descriptor is handed out and handed back, no
   reference to it is created (no tid is consumed, nothing is enqueued, nothing will run). *)
Inductive spawn_outcome := SpawnOk (st : state) | SpawnFailed (rc : nat) (st : state) | SpawnInvalid.

(* ret_rc: return code of the return-location preparation, 0 = QTHREAD_SUCCESS; None = no return location *)
Definition spawn_call (st : state) (caller : option (nat * nat)) (row : spawn_row) (shep_param : option nat)
           (asize src : N) (pre_blocked : bool) (ret_rc : option nat) : spawn_outcome :=
  match ret_rc with
  | Some (S rc) => SpawnFailed (S rc) st
  | _ => match step st (LSpawn caller row shep_param asize src pre_blocked) with
         | Some st' => SpawnOk st'
         | None => SpawnInvalid
         end
  end.
