(* C05, team completion over the WHOLE team tree (forest model on top of the one-team automaton of Kernel/Ret.v).
   A forest is a list of teams; team i's parent (if any) has a smaller index.  Local events act on one team; creating a
   subteam expects on the parent's subteams_sinc and appends the new team; a leader's exit marks its team done and
   submits to the parent's subteams_sinc.  Invariant: every team's subteams counter t_sublive equals the NUMBER of its
   direct subteams that are not yet done.  Not extracted (proof-side only). *)
From Coq Require Import List ZArith Bool Arith Lia ZifyBool ZifyNat.
From QV Require Import Kernel.Ret Kernel.RetProofs.
Import ListNotations.

Record fteam := mkft { f_t : tstate; f_par : option nat }.

Fixpoint upd {A} (l : list A) (i : nat) (x : A) : list A :=
  match l, i with
  | [], _ => []
  | _ :: r, O => x :: r
  | y :: r, S i' => y :: upd r i' x
  end.

Definition is_done (p : lphase) : bool := match p with LDone => true | _ => false end.
Definition open_child (p : nat) (e : fteam) : bool :=
  match f_par e with Some q => (q =? p)%nat && negb (is_done (t_lph (f_t e))) | None => false end.
Definition cnt (p : nat) (l : list fteam) : nat := length (filter (open_child p) l).
Definition b2n (b : bool) : nat := if b then 1 else 0.

Definition is_local (e : tev) : bool := match e with TSubteamNew | TSubteamDone | TLeaderExit => false | _ => true end.

Inductive fev :=
| FLocal (i : nat) (e : tev)     (* member spawn / member finish / leader submit, waits, subteams submit in team i *)
| FNew (p : nat) (w : bool)      (* an unfinished member of team p creates a subteam *)
| FExit (i : nat).               (* team i's leader leaves qt_internal_teamfinish: submits to the parent's subteams_sinc *)

Definition fstep (l : list fteam) (ev : fev) : option (list fteam) :=
  match ev with
  | FLocal i e =>
    if is_local e then
      match nth_error l i with
      | Some x => match tstep (f_t x) e with Some t' => Some (upd l i (mkft t' (f_par x))) | None => None end
      | None => None
      end
    else None
  | FNew p w =>
    match nth_error l p with
    | Some x => match tstep (f_t x) TSubteamNew with
                | Some t' => Some (upd l p (mkft t' (f_par x)) ++ [mkft (team_init w) (Some p)])
                | None => None
                end
    | None => None
    end
  | FExit i =>
    match nth_error l i with
    | Some x =>
      match tstep (f_t x) TLeaderExit with
      | Some t' =>
        let l1 := upd l i (mkft t' (f_par x)) in
        match f_par x with
        | None => Some l1
        | Some p => match nth_error l1 p with
                    | Some y => match tstep (f_t y) TSubteamDone with
                                | Some u' => Some (upd l1 p (mkft u' (f_par y)))
                                | None => None
                                end
                    | None => None
                    end
        end
      | None => None
      end
    | None => None
    end
  end.

Fixpoint frun (l : list fteam) (tr : list fev) : list fteam :=
  match tr with
  | [] => l
  | e :: r => match fstep l e with Some l' => frun l' r | None => frun l r end
  end.

Definition forest_init (w : bool) : list fteam := [mkft (team_init w) None].

(* ---------- list facts ---------- *)
Lemma nth_upd_eq : forall (A : Type) (l : list A) i e x, nth_error l i = Some e -> nth_error (upd l i x) i = Some x.
Proof. induction l as [|y r IH]; intros [|i] e x H; cbn in *; try discriminate; [reflexivity|eapply IH; eassumption]. Qed.
Lemma nth_upd_neq : forall (A : Type) (l : list A) i j x, i <> j -> nth_error (upd l i x) j = nth_error l j.
Proof. induction l as [|y r IH]; intros [|i] [|j] x H; cbn; try reflexivity; try contradiction. apply IH. lia. Qed.
Lemma length_upd : forall (A : Type) (l : list A) i x, length (upd l i x) = length l.
Proof. induction l as [|y r IH]; intros [|i] x; cbn; auto. Qed.

Lemma cnt_upd : forall p l i e e', nth_error l i = Some e ->
  cnt p (upd l i e') + b2n (open_child p e) = cnt p l + b2n (open_child p e').
Proof.
  intros p. unfold cnt. induction l as [|y r IH]; intros [|i] e e' H; cbn [nth_error] in H; try discriminate.
  - inversion H; subst. cbn [upd filter]. destruct (open_child p e), (open_child p e'); cbn [length b2n]; lia.
  - cbn [upd filter]. specialize (IH i e e' H). destruct (open_child p y); cbn [length]; lia.
Qed.
Lemma cnt_app1 : forall p l x, cnt p (l ++ [x]) = cnt p l + b2n (open_child p x).
Proof. intros. unfold cnt. rewrite filter_app, app_length. cbn [filter]. destruct (open_child p x); cbn; lia. Qed.
Lemma cnt_zero_closed : forall p l i e, cnt p l = 0 -> nth_error l i = Some e -> open_child p e = false.
Proof.
  intros p l i e H Hn. destruct (open_child p e) eqn:E; [|reflexivity]. exfalso.
  assert (Hin : In e (filter (open_child p) l)) by (apply filter_In; split; [eapply nth_error_In; eassumption|assumption]).
  unfold cnt in H. destruct (filter (open_child p) l); [contradiction|discriminate].
Qed.
Lemma cnt_none : forall p l, (forall i e, nth_error l i = Some e -> f_par e <> Some p) -> cnt p l = 0.
Proof.
  intros p l H. unfold cnt. induction l as [|y r IH]; [reflexivity|]. cbn [filter].
  assert (open_child p y = false).
  { unfold open_child. destruct (f_par y) as [q|] eqn:E; [|reflexivity].
    destruct (Nat.eqb_spec q p) as [->|]; [exfalso; apply (H 0 y eq_refl E)|reflexivity]. }
  rewrite H0. apply IH. intros i e Hn. apply (H (S i) e Hn).
Qed.
Lemma open_child_same : forall p e e', f_par e = f_par e' -> is_done (t_lph (f_t e)) = is_done (t_lph (f_t e')) ->
  open_child p e = open_child p e'.
Proof. intros p e e' H1 H2. unfold open_child. now rewrite H1, H2. Qed.

(* ---------- facts about the one-team steps ---------- *)
Lemma local_keeps : forall t e t', is_local e = true -> tstep t e = Some t' ->
  is_done (t_lph t') = is_done (t_lph t) /\ t_sublive t' = t_sublive t.
Proof.
  intros [c s lv sl w ph] e t' Hl H. destruct e; cbn [is_local] in Hl; try discriminate;
    cbn [tstep t_cnt t_sub t_live t_sublive t_watch t_lph] in H; unfold can_spawn in H; cbn [t_live t_lph] in H.
  - destruct ((0 <? lv)%Z || match ph with LRun => true | _ => false end); cbv iota in H; [|discriminate]. inversion H; subst; auto.
  - destruct (0 <? lv)%Z; cbv iota in H; [|discriminate]. inversion H; subst; auto.
  - destruct ph; try discriminate. inversion H; subst; auto.
  - destruct ph; try discriminate. destruct (c =? 0)%Z; cbv iota in H; [|discriminate]. inversion H; subst; auto.
  - destruct ph; try discriminate. inversion H; subst; auto.
  - destruct ph; try discriminate. destruct (s =? 0)%Z; cbv iota in H; [|discriminate]. inversion H; subst; auto.
Qed.
Lemma subnew_effect : forall t t', tstep t TSubteamNew = Some t' -> t_lph t' = t_lph t /\ t_sublive t' = (t_sublive t + 1)%Z.
Proof.
  intros [c s lv sl w ph] t' H. cbn [tstep t_cnt t_sub t_live t_sublive t_watch t_lph] in H. unfold can_spawn in H. cbn [t_live t_lph] in H.
  destruct ((0 <? lv)%Z || match ph with LRun => true | _ => false end); cbv iota in H; [|discriminate]. inversion H; subst; auto.
Qed.
Lemma subdone_effect : forall t t', tstep t TSubteamDone = Some t' -> t_lph t' = t_lph t /\ t_sublive t' = (t_sublive t - 1)%Z.
Proof.
  intros [c s lv sl w ph] t' H. cbn [tstep t_cnt t_sub t_live t_sublive t_watch t_lph] in H.
  destruct (0 <? sl)%Z; cbv iota in H; [|discriminate]. inversion H; subst; auto.
Qed.
Lemma subdone_enabled : forall t, (0 < t_sublive t)%Z -> exists t', tstep t TSubteamDone = Some t'.
Proof. intros t H. cbn [tstep]. destruct (0 <? t_sublive t)%Z eqn:E; [eauto|lia]. Qed.
Lemma exit_effect : forall t t', tstep t TLeaderExit = Some t' -> t_lph t = LWait2 /\ t_lph t' = LDone /\ t_sublive t' = t_sublive t.
Proof.
  intros [c s lv sl w ph] t' H. cbn [tstep t_cnt t_sub t_live t_sublive t_watch t_lph] in H.
  destruct ph; try discriminate. inversion H; subst; auto.
Qed.

(* ---------- the forest invariant ---------- *)
Record finv (l : list fteam) : Prop := mkfinv {
  fi_tinv : forall i e, nth_error l i = Some e -> tinv (f_t e);
  fi_cnt  : forall i e, nth_error l i = Some e -> t_sublive (f_t e) = Z.of_nat (cnt i l);
  fi_par  : forall i e p, nth_error l i = Some e -> f_par e = Some p -> p < i
}.

Lemma finv_init : forall w, finv (forest_init w).
Proof.
  intros w. constructor.
  - intros [|i] e H; cbn in H; [inversion H; subst; apply tinv_init|destruct i; discriminate].
  - intros [|i] e H; cbn in H; [inversion H; subst; reflexivity|destruct i; discriminate].
  - intros [|i] e p H Hp; cbn in H; [inversion H; subst; discriminate|destruct i; discriminate].
Qed.

(* replacing entry i by one with the same parent and the same done-ness changes no count *)
Lemma cnt_upd_same : forall p l i e e', nth_error l i = Some e -> f_par e' = f_par e ->
  is_done (t_lph (f_t e')) = is_done (t_lph (f_t e)) -> cnt p (upd l i e') = cnt p l.
Proof.
  intros p l i e e' H H1 H2. pose proof (cnt_upd p l i e e' H) as C.
  rewrite (open_child_same p e' e H1 H2) in C. lia.
Qed.

Lemma finv_local : forall l i e x t', finv l -> is_local e = true -> nth_error l i = Some x -> tstep (f_t x) e = Some t' ->
  finv (upd l i (mkft t' (f_par x))).
Proof.
  intros l i e x t' I Hl Hx Ht. destruct (local_keeps _ _ _ Hl Ht) as [Kd Ks].
  assert (C : forall p, cnt p (upd l i (mkft t' (f_par x))) = cnt p l) by (intros p; eapply cnt_upd_same; eauto).
  constructor.
  - intros j y Hy. destruct (Nat.eq_dec i j) as [<-|Hne].
    + rewrite (nth_upd_eq _ l i x _ Hx) in Hy. inversion Hy; subst. cbn. eapply tstep_tinv; [eapply fi_tinv; eassumption|eassumption].
    + rewrite nth_upd_neq in Hy by assumption. eapply fi_tinv; eassumption.
  - intros j y Hy. rewrite C. destruct (Nat.eq_dec i j) as [<-|Hne].
    + rewrite (nth_upd_eq _ l i x _ Hx) in Hy. inversion Hy; subst. cbn. rewrite Ks. eapply fi_cnt; eassumption.
    + rewrite nth_upd_neq in Hy by assumption. eapply fi_cnt; eassumption.
  - intros j y p Hy Hp. destruct (Nat.eq_dec i j) as [<-|Hne].
    + rewrite (nth_upd_eq _ l i x _ Hx) in Hy. inversion Hy; subst. cbn in Hp. eapply fi_par; eassumption.
    + rewrite nth_upd_neq in Hy by assumption. eapply fi_par; eassumption.
Qed.

Lemma nth_error_snoc : forall (A : Type) (l : list A) x j y, nth_error (l ++ [x]) j = Some y ->
  (j < length l /\ nth_error l j = Some y) \/ (j = length l /\ y = x).
Proof.
  intros A l x j y H. destruct (Nat.lt_ge_cases j (length l)) as [Hlt|Hge].
  - left. split; [assumption|]. now rewrite nth_error_app1 in H by assumption.
  - right. rewrite nth_error_app2 in H by assumption.
    destruct (j - length l) as [|k] eqn:E; cbn in H; [inversion H; split; [lia|reflexivity]|destruct k; discriminate].
Qed.

Lemma finv_new : forall l p w x t', finv l -> nth_error l p = Some x -> tstep (f_t x) TSubteamNew = Some t' ->
  finv (upd l p (mkft t' (f_par x)) ++ [mkft (team_init w) (Some p)]).
Proof.
  intros l p w x t' I Hx Ht. destruct (subnew_effect _ _ Ht) as [Kp Ks].
  set (l1 := upd l p (mkft t' (f_par x))).
  assert (Hlen : length l1 = length l) by apply length_upd.
  assert (Hp : p < length l) by (apply nth_error_Some; rewrite Hx; discriminate).
  assert (C1 : forall q, cnt q l1 = cnt q l).
  { intros q. eapply cnt_upd_same; [exact Hx|reflexivity|]. cbn. now rewrite Kp. }
  assert (C : forall q, cnt q (l1 ++ [mkft (team_init w) (Some p)]) = cnt q l + b2n (p =? q)%nat).
  { intros q. rewrite cnt_app1, C1. f_equal. unfold open_child. cbn. destruct w; cbn; now rewrite andb_true_r. }
  assert (Hold : forall j y, j < length l -> nth_error l1 j = Some y ->
                 (j = p /\ y = mkft t' (f_par x)) \/ (j <> p /\ nth_error l j = Some y)).
  { intros j y Hj Hy. unfold l1 in Hy. destruct (Nat.eq_dec p j) as [<-|Hne].
    - rewrite (nth_upd_eq _ l p x _ Hx) in Hy. inversion Hy; subst. now left.
    - rewrite nth_upd_neq in Hy by assumption. right. split; [auto|assumption]. }
  constructor.
  - intros j y Hy. apply nth_error_snoc in Hy. rewrite Hlen in Hy. destruct Hy as [[Hj Hy]|[Hj ->]].
    + destruct (Hold j y Hj Hy) as [[-> ->]|[Hne Hy']]; cbn.
      * eapply tstep_tinv; [eapply fi_tinv; eassumption|eassumption].
      * eapply fi_tinv; eassumption.
    + cbn. apply tinv_init.
  - intros j y Hy. rewrite C. apply nth_error_snoc in Hy. rewrite Hlen in Hy. destruct Hy as [[Hj Hy]|[Hj ->]].
    + destruct (Hold j y Hj Hy) as [[-> ->]|[Hne Hy']]; cbn.
      * rewrite Ks, Nat.eqb_refl. cbn. rewrite (fi_cnt l I p x Hx). lia.
      * destruct (Nat.eqb_spec p j); [congruence|]. cbn. rewrite (fi_cnt l I j y Hy'). lia.
    + subst j. destruct (Nat.eqb_spec p (length l)); [lia|]. cbn.
      rewrite (cnt_none (length l) l); [destruct w; reflexivity|].
      intros i e Hi Hpar. pose proof (fi_par l I i e _ Hi Hpar).
      assert (i < length l) by (apply nth_error_Some; rewrite Hi; discriminate). lia.
  - intros j y q Hy Hq. apply nth_error_snoc in Hy. rewrite Hlen in Hy. destruct Hy as [[Hj Hy]|[Hj ->]].
    + destruct (Hold j y Hj Hy) as [[-> ->]|[Hne Hy']]; cbn in *; eapply fi_par; eassumption.
    + cbn in Hq. inversion Hq; subst. lia.
Qed.

Lemma finv_exit : forall l i x t' l', finv l -> nth_error l i = Some x -> tstep (f_t x) TLeaderExit = Some t' ->
  fstep l (FExit i) = Some l' -> finv l'.
Proof.
  intros l i x t' l' I Hx Ht Hs. cbn [fstep] in Hs. rewrite Hx, Ht in Hs.
  destruct (exit_effect _ _ Ht) as (Kw & Kd & Ks).
  set (x' := mkft t' (f_par x)) in *. set (l1 := upd l i x') in *.
  assert (N1 : forall j, nth_error l1 j = if Nat.eq_dec i j then Some x' else nth_error l j).
  { intros j. unfold l1. destruct (Nat.eq_dec i j) as [<-|Hne]; [eapply nth_upd_eq; eassumption|now apply nth_upd_neq]. }
  (* counts after marking team i done *)
  assert (C1 : forall q, cnt q l1 + b2n (match f_par x with Some p => (p =? q)%nat | None => false end) = cnt q l).
  { intros q. pose proof (cnt_upd q l i x x' Hx) as C. fold l1 in C.
    assert (E1 : open_child q x' = false) by (unfold open_child, x'; cbn; rewrite Kd; destruct (f_par x); cbn; [apply andb_false_r|reflexivity]).
    assert (E2 : open_child q x = match f_par x with Some p => (p =? q)%nat | None => false end)
      by (unfold open_child; rewrite Kw; destruct (f_par x); cbn; [apply andb_true_r|reflexivity]).
    rewrite E1, E2 in C. cbn [b2n] in C. lia. }
  destruct (f_par x) as [p|] eqn:Hpar.
  - (* the parent's counter is decremented *)
    pose proof (fi_par l I i x p Hx Hpar) as Hlt.
    destruct (nth_error l1 p) as [y|] eqn:Hy; [|discriminate].
    assert (Hy0 : nth_error l p = Some y) by (rewrite N1 in Hy; destruct (Nat.eq_dec i p); [lia|assumption]).
    destruct (tstep (f_t y) TSubteamDone) as [u'|] eqn:Hu; [|discriminate]. inversion Hs; subst l'; clear Hs.
    destruct (subdone_effect _ _ Hu) as [Up Us].
    set (y' := mkft u' (f_par y)).
    assert (C2 : forall q, cnt q (upd l1 p y') = cnt q l1).
    { intros q. eapply cnt_upd_same; [exact Hy|reflexivity|]. cbn. now rewrite Up. }
    assert (N2 : forall j, nth_error (upd l1 p y') j = if Nat.eq_dec p j then Some y' else nth_error l1 j).
    { intros j. destruct (Nat.eq_dec p j) as [<-|Hne]; [eapply nth_upd_eq; eassumption|now apply nth_upd_neq]. }
    constructor.
    + intros j z Hz. rewrite N2 in Hz. destruct (Nat.eq_dec p j) as [<-|Hne].
      * inversion Hz; subst. cbn. eapply tstep_tinv; [eapply (fi_tinv l I); exact Hy0|eassumption].
      * rewrite N1 in Hz. destruct (Nat.eq_dec i j) as [<-|Hne2].
        -- inversion Hz; subst. cbn. eapply tstep_tinv; [eapply (fi_tinv l I); exact Hx|eassumption].
        -- eapply fi_tinv; eassumption.
    + intros j z Hz. rewrite C2. specialize (C1 j). rewrite N2 in Hz. destruct (Nat.eq_dec p j) as [<-|Hne].
      * inversion Hz; subst. cbn. rewrite Us. rewrite Nat.eqb_refl in C1. cbn [b2n] in C1. rewrite (fi_cnt l I p y Hy0). lia.
      * destruct (Nat.eqb_spec p j); [contradiction|]. cbn [b2n] in C1.
        rewrite N1 in Hz. destruct (Nat.eq_dec i j) as [<-|Hne2].
        -- inversion Hz; subst. cbn. rewrite Ks. rewrite (fi_cnt l I i x Hx). lia.
        -- rewrite (fi_cnt l I j z Hz). lia.
    + intros j z q Hz Hq. rewrite N2 in Hz. destruct (Nat.eq_dec p j) as [<-|Hne].
      * inversion Hz; subst. cbn in Hq. eapply (fi_par l I); [exact Hy0|exact Hq].
      * rewrite N1 in Hz. destruct (Nat.eq_dec i j) as [<-|Hne2].
        -- inversion Hz; subst. cbn in Hq. rewrite Hq in Hpar. eapply (fi_par l I); [exact Hx|]. congruence.
        -- eapply fi_par; eassumption.
  - inversion Hs; subst l'; clear Hs.
    constructor.
    + intros j z Hz. rewrite N1 in Hz. destruct (Nat.eq_dec i j) as [<-|Hne2].
      * inversion Hz; subst. cbn. eapply tstep_tinv; [eapply (fi_tinv l I); exact Hx|eassumption].
      * eapply fi_tinv; eassumption.
    + intros j z Hz. specialize (C1 j). cbn [b2n] in C1. rewrite N1 in Hz. destruct (Nat.eq_dec i j) as [<-|Hne2].
      * inversion Hz; subst. cbn. rewrite Ks. rewrite (fi_cnt l I i x Hx). lia.
      * rewrite (fi_cnt l I j z Hz). lia.
    + intros j z q Hz Hq. rewrite N1 in Hz. destruct (Nat.eq_dec i j) as [<-|Hne2].
      * inversion Hz; subst. cbn in Hq. discriminate.
      * eapply fi_par; eassumption.
Qed.

Lemma fstep_finv : forall l ev l', finv l -> fstep l ev = Some l' -> finv l'.
Proof.
  intros l ev l' I H. destruct ev as [i e|p w|i].
  - cbn [fstep] in H. destruct (is_local e) eqn:El; [|discriminate].
    destruct (nth_error l i) as [x|] eqn:Hx; [|discriminate].
    destruct (tstep (f_t x) e) as [t'|] eqn:Ht; [|discriminate]. inversion H; subst. eapply finv_local; eassumption.
  - cbn [fstep] in H. destruct (nth_error l p) as [x|] eqn:Hx; [|discriminate].
    destruct (tstep (f_t x) TSubteamNew) as [t'|] eqn:Ht; [|discriminate]. inversion H; subst. eapply finv_new; eassumption.
  - pose proof H as H0. cbn [fstep] in H. destruct (nth_error l i) as [x|] eqn:Hx; [|discriminate].
    destruct (tstep (f_t x) TLeaderExit) as [t'|] eqn:Ht; [|discriminate]. eapply finv_exit; eassumption.
Qed.

Theorem finv_reachable : forall tr w, finv (frun (forest_init w) tr).
Proof.
  intros tr w. generalize (finv_init w). generalize (forest_init w).
  induction tr as [|e r IH]; intros l I; cbn [frun]; [assumption|].
  destruct (fstep l e) as [l'|] eqn:E; apply IH; [eapply fstep_finv; eassumption|assumption].
Qed.

(* ---------- the whole-tree theorem ---------- *)
(* d is a (transitive) subteam of a *)
Inductive anc (l : list fteam) : nat -> nat -> Prop :=
| anc_child : forall a d e, nth_error l d = Some e -> f_par e = Some a -> anc l a d
| anc_step  : forall a m d e, anc l a m -> nth_error l d = Some e -> f_par e = Some m -> anc l a d.

Lemma done_children_done : forall l a ea d ed, finv l -> nth_error l a = Some ea -> t_lph (f_t ea) = LDone ->
  nth_error l d = Some ed -> f_par ed = Some a -> t_lph (f_t ed) = LDone.
Proof.
  intros l a ea d ed I Ha Hd Hed Hp.
  destruct (fi_tinv l I a ea Ha) as (_ & _ & _ & _ & _ & H6). rewrite Hd in H6. cbn in H6.
  assert (Hc : cnt a l = 0) by (pose proof (fi_cnt l I a ea Ha); lia).
  pose proof (cnt_zero_closed a l d ed Hc Hed) as Ho. unfold open_child in Ho. rewrite Hp, Nat.eqb_refl in Ho. cbn in Ho.
  destruct (t_lph (f_t ed)); cbn in Ho; try discriminate. reflexivity.
Qed.

Lemma done_no_live : forall l a ea, finv l -> nth_error l a = Some ea -> t_lph (f_t ea) = LDone -> t_live (f_t ea) = 0%Z /\ t_sublive (f_t ea) = 0%Z.
Proof.
  intros l a ea I Ha Hd. destruct (fi_tinv l I a ea Ha) as (_ & _ & _ & _ & H5 & H6). rewrite Hd in *. cbn in *. lia.
Qed.

(* In every reachable forest (every order of member spawns / finishes, subteam creations at any depth, leader steps and
   exits): when team a's leader has left qt_internal_teamfinish -- the only point after which the wrapper delivers a's
   return value -- team a has no unfinished member, and EVERY subteam below it, transitively, is done and has no
   unfinished member either. *)
Theorem team_ret_after_members_tree : forall tr w a ea,
  let l := frun (forest_init w) tr in
  nth_error l a = Some ea -> t_lph (f_t ea) = LDone ->
  t_live (f_t ea) = 0%Z /\
  forall d ed, anc l a d -> nth_error l d = Some ed -> t_lph (f_t ed) = LDone /\ t_live (f_t ed) = 0%Z.
Proof.
  intros tr w a ea l Ha Hd. pose proof (finv_reachable tr w) as I. fold l in I.
  split; [eapply done_no_live; eassumption|].
  intros d ed Hanc. revert ed. induction Hanc as [a d e He Hp|a m d e Hanc IH He Hp]; intros ed Hed.
  - rewrite He in Hed. inversion Hed; subst ed.
    assert (Hdd : t_lph (f_t e) = LDone) by exact (done_children_done l a ea d e I Ha Hd He Hp).
    split; [assumption|exact (proj1 (done_no_live l d e I He Hdd))].
  - rewrite He in Hed. inversion Hed; subst ed.
    assert (Hm : exists em, nth_error l m = Some em).
    { pose proof (fi_par l I d e m He Hp). assert (d < length l) by (apply nth_error_Some; rewrite He; discriminate).
      destruct (nth_error l m) eqn:E; [eauto|apply nth_error_None in E; lia]. }
    destruct Hm as [em Hem]. destruct (IH Ha em Hem) as [Hmd _].
    assert (Hdd : t_lph (f_t e) = LDone) by exact (done_children_done l m em d e I Hem Hmd He Hp).
    split; [assumption|exact (proj1 (done_no_live l d e I He Hdd))].
Qed.

(* faithfulness of FExit: under the invariant the submit to the parent's subteams_sinc is never refused (the code submits
   unconditionally): a team that can exit always completes the forest step *)
Theorem exit_not_refused : forall tr w i x t',
  let l := frun (forest_init w) tr in
  nth_error l i = Some x -> tstep (f_t x) TLeaderExit = Some t' -> exists l', fstep l (FExit i) = Some l'.
Proof.
  intros tr w i x t' l Hx Ht. pose proof (finv_reachable tr w) as I. fold l in I.
  cbn [fstep]. rewrite Hx, Ht. destruct (f_par x) as [p|] eqn:Hp; [|eauto].
  pose proof (fi_par l I i x p Hx Hp) as Hlt.
  assert (Hi : i < length l) by (apply nth_error_Some; rewrite Hx; discriminate).
  destruct (nth_error l p) as [y|] eqn:Hy; [|apply nth_error_None in Hy; lia].
  rewrite nth_upd_neq by lia. rewrite Hy.
  destruct (exit_effect _ _ Ht) as (Kw & _ & _).
  assert (Hpos : (0 < t_sublive (f_t y))%Z).
  { rewrite (fi_cnt l I p y Hy). destruct (cnt p l) eqn:E; [|lia]. exfalso.
    pose proof (cnt_zero_closed p l i x E Hx) as Ho. unfold open_child in Ho. rewrite Hp, Nat.eqb_refl, Kw in Ho. discriminate. }
  destruct (subdone_enabled _ Hpos) as [u' Hu]. rewrite Hu. eauto.
Qed.

(* non-vacuity: a founder with one member, a subteam with a member and a sub-subteam; everything finishes bottom-up *)
Example forest_example :
  let l := frun (forest_init false)
    [FLocal 0 TMemberSpawn; FNew 0 true; FLocal 1 TMemberSpawn; FNew 1 true;
     FLocal 0 TLeaderSubmit; FLocal 0 TMemberFinish; FLocal 0 TLeaderWait1; FLocal 0 TLeaderSubSubmit; FLocal 0 TLeaderWait2 (* refused *);
     FLocal 2 TLeaderSubmit; FLocal 2 TLeaderWait1; FLocal 2 TLeaderSubSubmit; FLocal 2 TLeaderWait2; FExit 2;
     FLocal 1 TMemberFinish; FLocal 1 TLeaderSubmit; FLocal 1 TLeaderWait1; FLocal 1 TLeaderSubSubmit; FLocal 1 TLeaderWait2; FExit 1;
     FLocal 0 TLeaderWait2; FExit 0] in
  map (fun e => t_lph (f_t e)) l = [LDone; LDone; LDone] /\ anc l 0 2.
Proof.
  vm_compute. split; [reflexivity|].
  eapply anc_step; [eapply anc_child with (d := 1); reflexivity|reflexivity|reflexivity].
Qed.
