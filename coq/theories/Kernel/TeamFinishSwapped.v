(* C05 extension T: regression for the order of the leader's two waits (independent change C05-3).
   With the waits of branch 1.1 swapped (sw = true: subteams sinc first, members sinc second) a live member that founds a
   subteam after the leader passed the subteams wait is not waited for: the founder's location is filled while the subteam
   has not even started, and the subteam later writes into the freed parent structure. *)
From Coq Require Import List ZArith Bool Arith Lia.
From QV Require Import Kernel.TeamFinish Kernel.TeamFinishInv Kernel.TeamFinishTheorems.
Import ListNotations.

(* main spawns a new team; its leader spawns one member; the leader's function returns; the member founds a subteam LATE
   and returns; the leader runs to the end *)
Definition late_subteam_schedule : list label :=
  [(Memb 0, ASpawnT); (Lead 0, ARel); (Lead 0, AStep);              (* team 0 running *)
   (Lead 0, ASpawnM); (Memb 1, ARel); (Memb 1, AStep);              (* member 1 running *)
   (Lead 0, AStep);                                                 (* leader's function returns *)
   (Lead 0, AStep); (Lead 0, AStep); (Lead 0, AStep); (Lead 0, AStep);   (* as far as the leader gets before the member finishes *)
   (Memb 1, ASpawnS);                                               (* the late subteam: team 1 = KSub 0 *)
   (Memb 1, AStep); (Memb 1, AStep); (Memb 1, AStep);               (* member returns, submits, delivers *)
   (Lead 0, AStep); (Lead 0, AStep); (Lead 0, AStep); (Lead 0, AStep); (Lead 0, AStep); (Lead 0, AStep); (Lead 0, AStep); (Lead 0, AStep)].
(* afterwards the subteam runs: its leader signals its watcher through the parent's eureka word *)
Definition subteam_runs : list label :=
  [(Lead 1, ARel); (Lead 1, AStep); (Lead 1, AStep); (Watch 1, ARel); (Watch 1, AStep); (Lead 1, AStep); (Lead 1, AStep);
   (Lead 1, AStep); (Lead 1, AStep); (Lead 1, AStep); (Lead 1, AStep); (Lead 1, AStep); (Lead 1, AStep); (Lead 1, AStep)].

Theorem swapped_waits_refuted :
  exists tr, let s := run true init tr in
    (0 < fills (obj s 0))%nat /\ (1 < nt s)%nat /\ desc s 0 1 /\ lpc (ctl s 1) = LNasc /\ uaf s = false /\
    exists tr', uaf (run true s tr') = true.
Proof.
  exists late_subteam_schedule. cbv zeta. split; [vm_compute; lia|]. split; [vm_compute; lia|].
  split; [eapply desc_step; [apply desc_refl|vm_compute; lia|vm_compute; reflexivity]|].
  split; [vm_compute; reflexivity|]. split; [vm_compute; reflexivity|].
  exists subteam_runs. vm_compute. reflexivity.
Qed.

(* the same schedule on the machine of the code as it is: the leader is still blocked in the subteams wait, nothing is
   filled, nothing is freed; and when everybody has run the location is filled after the subteam finished *)
Example code_order_waits_for_late_subteam :
  let s := run false init late_subteam_schedule in
  fills (obj s 0) = 0%nat /\ lpc (ctl s 0) = LD /\ freed (obj s 0) = false /\
  let s' := run false s (subteam_runs ++ [(Lead 1, AStep); (Lead 1, AStep); (Lead 1, AStep); (Lead 1, AStep); (Watch 1, AStep); (Watch 1, AStep);
                                          (Lead 1, AStep); (Lead 1, AStep); (Lead 1, AStep); (Lead 1, AStep); (Lead 1, AStep); (Lead 1, AStep);
                                          (Lead 0, AStep); (Lead 0, AStep); (Lead 0, AStep); (Lead 0, AStep); (Lead 0, AStep);
                                          (Memb 0, AStep); (Memb 0, AStep); (Memb 0, AStep)]) in
  fills (obj s' 0) = 1%nat /\ fills (obj s' 1) = 1%nat /\ uaf s' = false /\ all_done s' = true.
Proof. vm_compute. repeat split; reflexivity. Qed.
