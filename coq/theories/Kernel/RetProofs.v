(* C05, return-value handshake: proofs about Kernel/Ret.v *)
From Coq Require Import List ZArith Bool Lia ZifyBool.
From QV Require Import Kernel.Ret.
Import ListNotations.
Local Open Scope Z_scope.
Ltac Zify.zify_post_hook ::= Z.div_mod_to_equations.

(* ---------- INT64TOINT60 ---------- *)
Lemma int64_to_int60_mod : forall x, int64_to_int60 x = x mod M60.
Proof. intros x. unfold int64_to_int60, M60. rewrite Z.land_ones by lia. reflexivity. Qed.

(* for every function result v (any int64 / uint64 value, negative ones included) the delivered payload is v mod 2^60 *)
Theorem int60_of_result : forall v, int64_to_int60 (to_u64 v) = v mod M60.
Proof. intros v. rewrite int64_to_int60_mod. unfold to_u64, M60, M64. lia. Qed.

Theorem int60_range : forall v, 0 <= int64_to_int60 (to_u64 v) < M60.
Proof. intros v. rewrite int60_of_result. unfold M60. lia. Qed.

(* values that fit 60 signed bits survive the round trip through INT60TOINT64 *)
Theorem int60_roundtrip : forall v, - 576460752303423488 <= v < 576460752303423488 ->
  int60_to_int64 (int64_to_int60 (to_u64 v)) = v.
Proof.
  intros v H. rewrite int60_of_result. unfold int60_to_int64, M60.
  destruct (576460752303423488 <=? v mod 1152921504606846976) eqn:E; lia.
Qed.
(* and values >= 2^60 are reduced *)
Example int60_big : int64_to_int60 (to_u64 (M60 + 5)) = 5 /\ int64_to_int60 (to_u64 (-1)) = M60 - 1 /\
                    int64_to_int60 (to_u64 (- M60 - 3)) = M60 - 3.
Proof. vm_compute. auto. Qed.

(* ---------- ret_empty_until_done ---------- *)
Definition inv_empty (s : rstate) : Prop := pending (r_phase s) = true -> l_full (r_loc s) = false.

Lemma step_inv_empty : forall k s e s', (k = KAligned \/ k = KSyncvar) -> is_other_fill e = false ->
  (r_phase s = PNew \/ inv_empty s) -> rstep k s e = Some s' -> inv_empty s'.
Proof.
  intros k s e s' Hk He Hinv H. unfold inv_empty in *.
  destruct s as [[f v subs] ph fills]. cbn [r_loc r_phase l_full] in *.
  destruct e; cbn [is_other_fill] in He; try discriminate; cbn [rstep r_loc r_phase r_fills l_full l_val l_subs] in H.
  - (* OSpawn *) destruct ph; try discriminate. destruct Hk as [->| ->]; [|destruct f]; inversion H; subst; reflexivity.
  - destruct ph; try discriminate. inversion H; subst; cbn in *. destruct Hinv as [Hn|Hi]; [discriminate|]. intros _. now apply Hi.
  - destruct ph; try discriminate. inversion H; subst; cbn in *. destruct Hinv as [Hn|Hi]; [discriminate|]. intros _. now apply Hi.
  - destruct ph; try discriminate. inversion H; subst; cbn in *. destruct Hinv as [Hn|Hi]; [discriminate|]. intros _. now apply Hi.
  - (* OFill *) destruct ph; try discriminate.
    destruct Hk as [->| ->]; (destruct f; [discriminate|]); inversion H; subst; cbn; intros; discriminate.
  - inversion H; subst. cbn. destruct Hinv as [Hn|Hi]; [subst; cbn; intros; discriminate|assumption].
  - destruct f; [|discriminate]. inversion H; subst. cbn. destruct Hinv as [Hn|Hi]; [subst; cbn; intros; discriminate|assumption].
  - destruct f; [|discriminate]. inversion H; subst. cbn. intros _. reflexivity.
  - inversion H; subst. cbn. destruct Hinv as [Hn|Hi]; [subst; cbn; intros; discriminate|assumption].
Qed.

(* From the spawn's return until the delivery, in every state of every interleaving with the other tasks' status
   probes / reads / sinc submissions, the location is empty -- provided no OTHER task fills it. *)
Theorem ret_empty_until_done : forall k tr s0, (k = KAligned \/ k = KSyncvar) ->
  r_phase s0 = PNew \/ inv_empty s0 ->
  forallb (fun e => negb (is_other_fill e)) tr = true ->
  inv_empty (rrun k s0 tr).
Proof.
  intros k tr. induction tr as [|e r IH]; intros s0 Hk H0 Hall; cbn [rrun].
  - destruct H0 as [Hn|Hi]; [|assumption]. unfold inv_empty. rewrite Hn. cbn. discriminate.
  - cbn [forallb] in Hall. apply andb_true_iff in Hall. destruct Hall as [He Hr]. apply negb_true_iff in He.
    destruct (rstep k s0 e) as [s1|] eqn:E.
    + apply IH; [assumption| |assumption]. right. eapply step_inv_empty; eassumption.
    + apply IH; assumption.
Qed.

(* the hypothesis is necessary: another task's fill makes the location full while the body still runs, and the
   runtime's own writeEF then waits forever (no delivery) *)
Example other_fill_breaks :
  let s := rrun KAligned (mkrs (mkloc true 7 []) PNew []) [OSpawn; OStart; EFill 99; OReturn 5; OTeamFinish; OFill] in
  l_full (r_loc s) = true /\ l_val (r_loc s) = 99 /\ r_phase s = PTeamDone 5 /\ r_fills s = [].
Proof. vm_compute. auto. Qed.

(* ---------- ret_filled_once ---------- *)
Definition inv_fill (k : rkind) (s : rstate) (done : list ev) : Prop :=
  match r_phase s with
  | PNew | PSpawned | PRunning => r_fills s = []
  | PBodyDone v | PTeamDone v => r_fills s = [] /\ In (OReturn v) done
  | PFilled => exists v, In (OReturn v) done /\ r_fills s = [delivered k v]
  end.

Lemma step_inv_fill : forall k s e s' done, inv_fill k s done -> rstep k s e = Some s' -> inv_fill k s' (done ++ [e]).
Proof.
  intros k s e s' done Hinv H. unfold inv_fill in *.
  destruct s as [[f v subs] ph fills]. cbn [r_loc r_phase r_fills l_full] in *.
  assert (Hin : forall x, In x done -> In x (done ++ [e])) by (intros; apply in_or_app; now left).
  destruct e; cbn [rstep r_loc r_phase r_fills l_full l_val l_subs] in H.
  - destruct ph; try discriminate. inversion H; cbn. assumption.
  - destruct ph; try discriminate. inversion H; cbn. assumption.
  - destruct ph; try discriminate. inversion H; cbn. split; [assumption|]. apply in_or_app. right. now left.
  - destruct ph; try discriminate. inversion H; cbn. destruct Hinv; split; auto.
  - destruct ph; try discriminate. destruct Hinv as [Hf Hr].
    destruct k; try (destruct f; [discriminate|]); inversion H; cbn; exists v0; rewrite Hf; auto.
  - inversion H; cbn. destruct ph; try assumption; try (destruct Hinv; split; auto). destruct Hinv as (w & ? & ?). eauto.
  - destruct f; [|discriminate]. inversion H; cbn. destruct ph; try assumption; try (destruct Hinv; split; auto). destruct Hinv as (w & ? & ?). eauto.
  - destruct f; [|discriminate]. inversion H; cbn. destruct ph; try assumption; try (destruct Hinv; split; auto). destruct Hinv as (w & ? & ?). eauto.
  - inversion H; cbn. destruct ph; try assumption; try (destruct Hinv; split; auto). destruct Hinv as (w & ? & ?). eauto.
  - inversion H; cbn. destruct ph; try assumption; try (destruct Hinv; split; auto). destruct Hinv as (w & ? & ?). eauto.
Qed.

Lemma inv_fill_weaken : forall k s done e, inv_fill k s done -> inv_fill k s (done ++ [e]).
Proof.
  intros k s done e H. unfold inv_fill in *.
  destruct (r_phase s); try assumption.
  - destruct H; split; [assumption|apply in_or_app; now left].
  - destruct H; split; [assumption|apply in_or_app; now left].
  - destruct H as (w & ? & ?). exists w. split; [apply in_or_app; now left|assumption].
Qed.

Lemma run_inv_fill : forall k tr s done, inv_fill k s done -> inv_fill k (rrun k s tr) (done ++ tr).
Proof.
  intros k tr. induction tr as [|e r IH]; intros s done H; cbn [rrun]; [now rewrite app_nil_r|].
  replace (done ++ e :: r) with ((done ++ [e]) ++ r) by (rewrite <- app_assoc; reflexivity).
  destruct (rstep k s e) as [s1|] eqn:E; apply IH; [eapply step_inv_fill; eassumption|now apply inv_fill_weaken].
Qed.

(* In every interleaving the runtime delivers at most once; when it has delivered, it delivered exactly once and the
   value is the delivered form of a result returned by the body (mod 2^60 for syncvars); before that, nothing. *)
Theorem ret_filled_once : forall k tr l0,
  let s := rrun k (mkrs l0 PNew []) tr in
  (length (r_fills s) <= 1)%nat /\
  (r_phase s = PFilled -> exists v, In (OReturn v) tr /\ r_fills s = [delivered k v]) /\
  (r_phase s <> PFilled -> r_fills s = []).
Proof.
  intros k tr l0 s. pose proof (run_inv_fill k tr (mkrs l0 PNew []) [] eq_refl) as H. cbn [app] in H. fold s in H.
  unfold inv_fill in H. destruct (r_phase s) eqn:E.
  1-3: (rewrite H; split; [cbn; lia|split; [discriminate|reflexivity]]).
  1-2: (destruct H as [H _]; rewrite H; split; [cbn; lia|split; [discriminate|reflexivity]]).
  destruct H as (v & Hin & Hf). rewrite Hf. split; [cbn; lia|]. split; [eauto|congruence].
Qed.

(* the delivery makes an aligned_t / syncvar location full with exactly that value: a readFF linearised right after it
   yields it, a readFE empties the location again and nothing refills it (the phase is final) *)
Theorem fill_then_read : forall k s v s', (k = KAligned \/ k = KSyncvar) -> r_phase s = PTeamDone v ->
  rstep k s OFill = Some s' ->
  observe k s' [QReadFF; QStatus; QReadFE; QStatus; QStep OFill; QStep OSpawn; QStatus] = [delivered k v; 1; delivered k v; 0; 0].
Proof.
  intros k s v s' Hk Hp H. destruct s as [[f x subs] ph fills]. cbn in Hp. subst ph.
  destruct Hk as [->| ->]; cbn [rstep r_loc r_phase l_full] in H; (destruct f; [discriminate|]); inversion H; subst; reflexivity.
Qed.

(* the delivered value is the specified one for every kind (value-returning sincs included: fixed in /repo 53168f8,
   the pre-fix code submitted NULL for them) *)
Theorem delivered_is_spec : forall k v, delivered k v = delivered_spec k v.
Proof. intros k v. destruct k; reflexivity. Qed.

Theorem syncvar_payload : forall v, delivered KSyncvar v = v mod M60.
Proof. intros v. unfold delivered. apply int60_of_result. Qed.

(* ---------- team completion: the founder's teamfinish returns only after all members and subteams ---------- *)
Definition lrank (p : lphase) : Z :=
  match p with LRun => 0 | LSubmitted => 1 | LWait1 => 2 | LSubSubmitted => 3 | LWait2 => 4 | LDone => 5 end.

Definition tinv (s : tstate) : Prop :=
  0 <= t_live s /\ 0 <= t_sublive s /\
  t_cnt s = t_live s + (match t_lph s with LRun => if t_watch s then 2 else 1 | _ => 0 end) /\
  t_sub s = t_sublive s + (if lrank (t_lph s) <? 3 then 1 else 0) /\
  (2 <= lrank (t_lph s) -> t_live s = 0) /\
  (4 <= lrank (t_lph s) -> t_sublive s = 0).

Lemma tinv_init : forall w, tinv (team_init w).
Proof. intros w. unfold tinv, team_init. cbn. destruct w; lia. Qed.

Lemma tstep_tinv : forall s e s', tinv s -> tstep s e = Some s' -> tinv s'.
Proof.
  intros [cnt sub live sublive w ph] e s' (H1 & H2 & H3 & H4 & H5 & H6) H. unfold tinv. cbn [t_cnt t_sub t_live t_sublive t_watch t_lph] in *.
  destruct e; cbn [tstep t_cnt t_sub t_live t_sublive t_watch t_lph] in H; unfold can_spawn in H; cbn [t_live t_lph] in H.
  - destruct ((0 <? live) || match ph with LRun => true | _ => false end) eqn:E; cbv iota in H; [|discriminate]. inversion H; subst; cbn.
    destruct ph; cbn in *; try destruct w; lia.
  - destruct (0 <? live) eqn:E; cbv iota in H; [|discriminate]. inversion H; subst; cbn. destruct ph; cbn in *; try destruct w; lia.
  - destruct ((0 <? live) || match ph with LRun => true | _ => false end) eqn:E; cbv iota in H; [|discriminate]. inversion H; subst; cbn.
    destruct ph; cbn in *; try destruct w; lia.
  - destruct (0 <? sublive) eqn:E; cbv iota in H; [|discriminate]. inversion H; subst; cbn. destruct ph; cbn in *; try destruct w; lia.
  - destruct ph; try discriminate. inversion H; subst; cbn in *. destruct w; lia.
  - destruct ph; try discriminate. destruct (cnt =? 0) eqn:E; cbv iota in H; [|discriminate]. inversion H; subst; cbn in *. lia.
  - destruct ph; try discriminate. inversion H; subst; cbn in *. lia.
  - destruct ph; try discriminate. destruct (sub =? 0) eqn:E; cbv iota in H; [|discriminate]. inversion H; subst; cbn in *. lia.
  - destruct ph; try discriminate. inversion H; subst; cbn in *. lia.
Qed.

Lemma trun_tinv : forall tr s, tinv s -> tinv (trun s tr).
Proof.
  induction tr as [|e r IH]; intros s H; cbn [trun]; [assumption|].
  destruct (tstep s e) as [s1|] eqn:E; apply IH; [eapply tstep_tinv; eassumption|assumption].
Qed.

(* For every order of member spawns / finishes, subteam creations / completions and leader steps: when the founder's
   qt_internal_teamfinish has returned (only then does the wrapper deliver the return value), no member of the team is
   unfinished and no direct subteam is incomplete.  A subteam reports completion (TSubteamDone) from ITS leader's exit,
   i.e. under the same theorem one level down: by induction over the team tree every descendant has finished. *)
Theorem team_ret_after_members : forall tr w,
  let s := trun (team_init w) tr in
  t_lph s = LDone -> t_live s = 0 /\ t_sublive s = 0.
Proof.
  intros tr w s Hd. pose proof (trun_tinv tr (team_init w) (tinv_init w)) as (H1 & H2 & H3 & H4 & H5 & H6). fold s in H1, H2, H3, H4, H5, H6.
  rewrite Hd in *. cbn in *. lia.
Qed.

(* the leader cannot pass its first wait while a member is unfinished, nor its second while a subteam is incomplete *)
Theorem team_waits_block : forall tr w,
  let s := trun (team_init w) tr in
  (0 < t_live s -> tstep s TLeaderWait1 = None) /\ (0 < t_sublive s -> tstep s TLeaderWait2 = None).
Proof.
  intros tr w s. pose proof (trun_tinv tr (team_init w) (tinv_init w)) as (H1 & H2 & H3 & H4 & H5 & H6). fold s in H1, H2, H3, H4, H5, H6.
  destruct s as [cnt sub live sublive ww ph]. cbn [t_cnt t_sub t_live t_sublive t_watch t_lph tstep] in *.
  split; intros Hp; destruct ph; cbn in *; try reflexivity.
  - destruct (cnt =? 0) eqn:E; [lia|reflexivity].
  - destruct (sub =? 0) eqn:E; [lia|reflexivity].
Qed.

(* non-vacuity: a watched subteam with two members and one sub-subteam runs to completion *)
Example team_example :
  let s := trun (team_init true) [TMemberSpawn; TSubteamNew; TMemberSpawn; TLeaderSubmit; TLeaderWait1; TMemberFinish; TLeaderWait1;
                                  TMemberFinish; TLeaderWait1; TLeaderSubSubmit; TLeaderWait2; TSubteamDone; TLeaderWait2; TLeaderExit] in
  t_lph s = LDone /\ t_cnt s = 0 /\ t_sub s = 0.
Proof. vm_compute. auto. Qed.
