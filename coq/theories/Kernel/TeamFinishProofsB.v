(* C05 extension T: preservation, steps that touch one team's own ctl/obj only. *)
From Coq Require Import List ZArith Bool Arith Lia ZifyBool ZifyNat.
From QV Require Import Kernel.TeamFinish Kernel.TeamFinishInv Kernel.TeamFinishProofsA.
Import ListNotations.
Local Open Scope Z_scope.

Ltac splits := repeat match goal with |- _ /\ _ => split end.

Ltac fin1 :=
  first [ assumption | reflexivity | lia | (intuition (congruence || lia)) ].

(* after shapeA: solve a goal from the destructured local invariant; Hz is an extra fact (or I) *)
Ltac locsolve s t Hl Hc Hm0 Hc0 Hu Hz :=
  generalize Hz; revert Hu Hm0 Hc0 Hc; unfold tinvc, eup, sinc_dead, subs_dead;
  generalize (msum s t), (csum s t); cbn -[Z.add Z.sub Z.opp]; rewrite ?Hl;
  destruct (tk (ctl s t)); destruct (wpc (ctl s t)); cbn -[Z.add Z.sub Z.opp];
  intros ms cs Hu Hm0 Hc0 (H1&H2&H3&H4&H5&H6&H7&H8&H9) Hz'; try discriminate Hz';
  try solve [exfalso; clear - H8; intuition discriminate];
  try solve [exfalso; lia];
  splits; fin1.

Ltac ptwise t :=
  let j := fresh "j" in
  intro j; cbn; unfold fupd; rewrite ?Nat.eqb_refl; destruct (Nat.eqb_spec j t); subst; reflexivity.

Ltac leadA s t Hi Ht Hl Hc Hm0 Hc0 Hu Hz :=
  eapply (shapeA s _ t);
  [ exact Hi | exact Ht | reflexivity | reflexivity | reflexivity
  | intro; reflexivity
  | first [ intro; reflexivity | ptwise t ]
  | locsolve s t Hl Hc Hm0 Hc0 Hu Hz
  | reflexivity
  | locsolve s t Hl Hc Hm0 Hc0 Hu Hz
  | reflexivity
  | locsolve s t Hl Hc Hm0 Hc0 Hu Hz ].

Lemma lead_own_inv s t s' : inv s -> (t < nt s)%nat ->
  lpc (ctl s t) <> LF -> lpc (ctl s t) <> LH -> lpc (ctl s t) <> LWx -> lpc (ctl s t) <> LWw ->
  lead_step false s t = Some s' -> inv s'.
Proof.
  intros Hi Ht HnF HnH HnWx HnWw Hs.
  destruct (tinv_c _ _ (i_team _ Hi t Ht)) as [Hc _].
  pose proof (msum_nonneg s t) as Hm0. pose proof (csum_nonneg s t) as Hc0.
  pose proof (i_uaf _ Hi) as Hu.
  unfold lead_step in Hs.
  destruct (lpc (ctl s t)) eqn:Hl; try congruence; try discriminate.
  - (* LReady *) injection Hs as <-. leadA s t Hi Ht Hl Hc Hm0 Hc0 Hu I.
  - (* LRun *) injection Hs as <-. leadA s t Hi Ht Hl Hc Hm0 Hc0 Hu I.
  - (* LA *) injection Hs as <-. leadA s t Hi Ht Hl Hc Hm0 Hc0 Hu I.
  - (* LA2 *) injection Hs as <-. leadA s t Hi Ht Hl Hc Hm0 Hc0 Hu I.
  - (* LB *) destruct (Z.eqb_spec (sinc (obj s t)) 0) as [Hz|]; [|discriminate]. injection Hs as <-.
    leadA s t Hi Ht Hl Hc Hm0 Hc0 Hu Hz.
  - (* LC *) injection Hs as <-. leadA s t Hi Ht Hl Hc Hm0 Hc0 Hu I.
  - (* LD *) destruct (Z.eqb_spec (subs (obj s t)) 0) as [Hz|]; [|discriminate]. injection Hs as <-.
    leadA s t Hi Ht Hl Hc Hm0 Hc0 Hu Hz.
  - (* LE *) injection Hs as <-. leadA s t Hi Ht Hl Hc Hm0 Hc0 Hu I.
  - (* LG *) destruct (Z.eqb_spec (sinc (obj s t)) 0) as [Hz|]; [|discriminate]. injection Hs as <-.
    leadA s t Hi Ht Hl Hc Hm0 Hc0 Hu Hz.
  - (* LI *) injection Hs as <-. leadA s t Hi Ht Hl Hc Hm0 Hc0 Hu I.
  - (* LJ *) injection Hs as <-. leadA s t Hi Ht Hl Hc Hm0 Hc0 Hu I.
  - (* LK *) injection Hs as <-. leadA s t Hi Ht Hl Hc Hm0 Hc0 Hu I.
  - (* LL *) injection Hs as <-. leadA s t Hi Ht Hl Hc Hm0 Hc0 Hu I.
Qed.

(* explicit new ctl / obj *)
Ltac leadAx s t c' o' Hi Ht Hl Hc Hm0 Hc0 Hu Hz :=
  eapply (shapeA s _ t c' o');
  [ exact Hi | exact Ht | reflexivity | reflexivity | reflexivity
  | ptwise t
  | ptwise t
  | locsolve s t Hl Hc Hm0 Hc0 Hu Hz
  | reflexivity
  | locsolve s t Hl Hc Hm0 Hc0 Hu Hz
  | reflexivity
  | locsolve s t Hl Hc Hm0 Hc0 Hu Hz ].

Lemma lead_wx_inv s t s' : inv s -> (t < nt s)%nat ->
  lpc (ctl s t) = LWx \/ lpc (ctl s t) = LWw ->
  lead_step false s t = Some s' -> inv s'.
Proof.
  intros Hi Ht Hl0 Hs.
  destruct (tinv_c _ _ (i_team _ Hi t Ht)) as [Hc _].
  pose proof (msum_nonneg s t) as Hm0. pose proof (csum_nonneg s t) as Hc0.
  pose proof (i_uaf _ Hi) as Hu.
  unfold lead_step in Hs.
  destruct Hl0 as [Hl|Hl]; rewrite Hl in Hs.
  - injection Hs as <-.
    leadAx s t (mkctl (tk (ctl s t)) LWw WNasc) (set_sinc (obj s t) (sinc (obj s t) + 1)) Hi Ht Hl Hc Hm0 Hc0 Hu I.
  - destruct (wpc (ctl s t)) eqn:Hw; try discriminate; injection Hs as <-.
    + leadA s t Hi Ht Hl Hc Hm0 Hc0 Hu Hw.
    + leadA s t Hi Ht Hl Hc Hm0 Hc0 Hu Hw.
    + leadA s t Hi Ht Hl Hc Hm0 Hc0 Hu Hw.
Qed.

Lemma lead_rel_inv s t : inv s -> (t < nt s)%nat -> lpc (ctl s t) = LNasc -> inv (set_lpc s t LReady).
Proof.
  intros Hi Ht Hl.
  destruct (tinv_c _ _ (i_team _ Hi t Ht)) as [Hc _].
  pose proof (msum_nonneg s t) as Hm0. pose proof (csum_nonneg s t) as Hc0.
  pose proof (i_uaf _ Hi) as Hu.
  leadAx s t (mkctl (tk (ctl s t)) LReady (wpc (ctl s t))) (obj s t) Hi Ht Hl Hc Hm0 Hc0 Hu I.
Qed.

(* watcher steps on its own team: the watcher pc is known, the leader pc is not *)
Ltac wsolve s t Hw Hc Hm0 Hc0 Hu :=
  revert Hu Hm0 Hc0 Hc; unfold tinvc, eup, sinc_dead, subs_dead;
  generalize (msum s t), (csum s t); cbn -[Z.add Z.sub Z.opp]; rewrite ?Hw;
  destruct (tk (ctl s t)); destruct (lpc (ctl s t)); cbn -[Z.add Z.sub Z.opp];
  intros ms cs Hu Hm0 Hc0 (H1&H2&H3&H4&H5&H6&H7&H8&H9);
  try solve [exfalso; clear - H8; intuition discriminate];
  splits; fin1.

Ltac watchAx s t c' o' Hi Ht Hw Hc Hm0 Hc0 Hu :=
  eapply (shapeA s _ t c' o');
  [ exact Hi | exact Ht | reflexivity | reflexivity | reflexivity
  | ptwise t
  | ptwise t
  | wsolve s t Hw Hc Hm0 Hc0 Hu
  | reflexivity
  | intros; reflexivity
  | reflexivity
  | wsolve s t Hw Hc Hm0 Hc0 Hu ].

Lemma watch_rel_inv s t : inv s -> (t < nt s)%nat -> wpc (ctl s t) = WNasc -> inv (set_wpc s t WReady).
Proof.
  intros Hi Ht Hw.
  destruct (tinv_c _ _ (i_team _ Hi t Ht)) as [Hc _].
  pose proof (msum_nonneg s t) as Hm0. pose proof (csum_nonneg s t) as Hc0.
  pose proof (i_uaf _ Hi) as Hu.
  watchAx s t (mkctl (tk (ctl s t)) (lpc (ctl s t)) WReady) (obj s t) Hi Ht Hw Hc Hm0 Hc0 Hu.
Qed.

Lemma watch_own_inv s t s' : inv s -> (t < nt s)%nat ->
  wpc (ctl s t) = WReady \/ wpc (ctl s t) = WGot ->
  watch_step s t = Some s' -> inv s'.
Proof.
  intros Hi Ht Hw0 Hs.
  destruct (tinv_c _ _ (i_team _ Hi t Ht)) as [Hc _].
  pose proof (msum_nonneg s t) as Hm0. pose proof (csum_nonneg s t) as Hc0.
  pose proof (i_uaf _ Hi) as Hu.
  unfold watch_step in Hs.
  destruct Hw0 as [Hw|Hw]; rewrite Hw in Hs; injection Hs as <-.
  - watchAx s t (mkctl (tk (ctl s t)) (lpc (ctl s t)) WStarted) (obj s t) Hi Ht Hw Hc Hm0 Hc0 Hu.
  - watchAx s t (mkctl (tk (ctl s t)) (lpc (ctl s t)) WDone) (set_sinc (obj s t) (sinc (obj s t) - 1)) Hi Ht Hw Hc Hm0 Hc0 Hu.
Qed.
