(* C04 / C07: invariants of the kernel model (Kernel/Model.v), proved for every label sequence *)
From Coq Require Import List Bool Arith NArith Lia.
From QV Require Import Kernel.GenSpawnTable Kernel.Placement Kernel.ProofsPlacement Kernel.Model.
Import ListNotations.

(* ---------------------------------------------------------------- association lists *)
Lemma place_of_in t ps l : place_of t ps = Some l -> In (t, l) ps.
Proof.
  induction ps as [|[k v] r IH]; cbn; [discriminate|].
  destruct (k =? t) eqn:E; intros H.
  - apply Nat.eqb_eq in E. inversion H; subst. auto.
  - auto.
Qed.

Lemma in_place_of t ps l : NoDup (map fst ps) -> In (t, l) ps -> place_of t ps = Some l.
Proof.
  induction ps as [|[k v] r IH]; cbn; intros ND H; [contradiction|].
  inversion ND as [|? ? Hn ND']; subst.
  destruct H as [H|H].
  - inversion H; subst. rewrite Nat.eqb_refl. reflexivity.
  - destruct (k =? t) eqn:E.
    + apply Nat.eqb_eq in E; subst. exfalso. apply Hn. apply (in_map fst) in H. exact H.
    + auto.
Qed.

Lemma in_drop_tid t t' l ps : In (t', l) (drop_tid t ps) <-> In (t', l) ps /\ t' <> t.
Proof.
  unfold drop_tid. rewrite filter_In. cbn. split; intros [A B]; split; auto.
  - intros ->. rewrite Nat.eqb_refl in B. discriminate.
  - apply negb_true_iff, Nat.eqb_neq. auto.
Qed.

Lemma in_fst_drop_tid t t' ps : In t' (map fst (drop_tid t ps)) <-> In t' (map fst ps) /\ t' <> t.
Proof.
  rewrite !in_map_iff. split.
  - intros ([k l0] & E & H). cbn in E; subst. apply in_drop_tid in H. destruct H. split; auto. exists (t', l0); auto.
  - intros (([k l0] & E & H) & N). cbn in E; subst. exists (t', l0); split; auto. apply in_drop_tid; auto.
Qed.

Lemma nodup_drop_tid t ps : NoDup (map fst ps) -> NoDup (map fst (drop_tid t ps)).
Proof.
  induction ps as [|[k v] r IH]; cbn; intros ND; [constructor|].
  inversion ND as [|? ? Hn ND']; subst.
  destruct (negb (k =? t)); cbn; auto. constructor; auto.
  intros H. apply in_fst_drop_tid in H. tauto.
Qed.

Lemma get_upd t t0 f ts :
  get_task t (upd_task t0 f ts) = if t0 =? t then option_map f (get_task t ts) else get_task t ts.
Proof.
  induction ts as [|[k v] r IH]; cbn; [destruct (t0 =? t); reflexivity|].
  destruct (k =? t0) eqn:E0; cbn.
  - apply Nat.eqb_eq in E0; subst. destruct (t0 =? t) eqn:E; cbn; auto.
  - destruct (k =? t) eqn:E; cbn; auto.
    apply Nat.eqb_eq in E; subst. rewrite Nat.eqb_sym in E0. rewrite E0. reflexivity.
Qed.

(* ---------------------------------------------------------------- frames of the state combinators *)
Lemma move_spec st t from to st' :
  move st t from to = Some st' ->
  place_of t st.(places) = Some from /\ st'.(places) = (t, to) :: drop_tid t st.(places) /\
  st'.(tasks) = st.(tasks) /\ st'.(active) = st.(active) /\ st'.(next) = st.(next) /\ st'.(mem) = st.(mem) /\
  st'.(nsh) = st.(nsh) /\ st'.(nwk) = st.(nwk) /\ st'.(argcopy) = st.(argcopy).
Proof.
  unfold move. destruct (place_of t (places st)) as [l|] eqn:E; [|discriminate].
  destruct (loc_eqb l from) eqn:F; [|discriminate]. intros H; inversion H; subst; cbn.
  assert (l = from).
  { destruct l, from; cbn in F; try discriminate; auto;
      repeat (apply andb_true_iff in F; destruct F as [F ?]);
      repeat match goal with
             | H : (_ =? _) = true |- _ => apply Nat.eqb_eq in H; subst
             | H : Bool.eqb _ _ = true |- _ => apply eqb_prop in H; subst
             end; auto. }
  subst. repeat split; auto.
Qed.

(* how a successful step changes the multiset of references *)
Inductive places_change (st st' : state) : Prop :=
| PCsame : st'.(places) = st.(places) -> st'.(next) = st.(next) -> places_change st st'
| PCmove t from to : place_of t st.(places) = Some from -> st'.(places) = (t, to) :: drop_tid t st.(places) ->
                     st'.(next) = st.(next) -> places_change st st'
| PCnew l : st'.(places) = (st.(next), l) :: st.(places) -> st'.(next) = S st.(next) -> places_change st st'.

Ltac inv_step H :=
  repeat (match type of H with
          | match ?c with _ => _ end = Some _ => destruct c eqn:?; try discriminate H
          | option_map _ ?m = Some _ => destruct m eqn:?; cbn [option_map] in H; try discriminate H
          end).

Ltac use_moves :=
  repeat match goal with
         | M : move _ _ _ _ = Some _ |- _ => apply move_spec in M; destruct M as (? & ? & ? & ? & ? & ? & ? & ? & ?)
         end.

Lemma step_places st l st' : step st l = Some st' -> places_change st st'.
Proof.
  intros H. destruct l; cbn [step] in H; unfold running_on in H; inv_step H; use_moves;
    try (inversion H; subst; cbn;
         first [ apply PCsame; cbn; congruence
               | eapply PCmove; cbn; eauto; congruence
               | eapply PCnew; cbn; eauto ]).
Qed.

(* ================================================================ C04: loc_unique *)
Definition refs_ok (st : state) : Prop :=
  NoDup (map fst st.(places)) /\ (forall t, In t (map fst st.(places)) <-> t < st.(next)).

Lemma refs_ok_init ns nw ac : refs_ok (init ns nw ac).
Proof.
  split; cbn.
  - constructor; [intros []|constructor].
  - intros t; split; [intros [<-|[]]; lia|intros H; left; lia].
Qed.

Lemma refs_ok_step st l st' : refs_ok st -> step st l = Some st' -> refs_ok st'.
Proof.
  intros [ND Dom] H. unfold refs_ok. destruct (step_places _ _ _ H) as [E N|t from to P E N|loc E N].
  - rewrite E, N; auto.
  - rewrite E, N. split; cbn.
    + constructor; [|apply nodup_drop_tid; auto]. intros X. apply in_fst_drop_tid in X. tauto.
    + intros t'. rewrite in_fst_drop_tid. rewrite Dom.
      assert (t < next st) by (apply Dom; apply place_of_in in P; apply (in_map fst) in P; exact P).
      destruct (Nat.eq_dec t t'); subst; split; intros HH; auto; try tauto;
        try (destruct HH as [HH|[? ?]]; subst; auto).
  - rewrite E, N. split; cbn.
    + constructor; auto. intros X. apply Dom in X. lia.
    + intros t. rewrite Dom. split; [intros [<-|?]; lia|intros ?; destruct (Nat.eq_dec (next st) t); auto; right; lia].
Qed.

Lemma refs_ok_run tr : forall st st', refs_ok st -> run st tr = Some st' -> refs_ok st'.
Proof.
  induction tr as [|l r IH]; cbn; intros st st' I H; [inversion H; subst; auto|].
  destruct (step st l) as [s1|] eqn:E; [|discriminate]. apply (IH s1 st'); [eapply refs_ok_step; eauto|exact H].
Qed.

(* every task id ever handed out is referenced from exactly one place *)
Theorem loc_unique ns nw ac tr st :
  run (init ns nw ac) tr = Some st ->
  NoDup (map fst st.(places)) /\
  (forall t, t < st.(next) -> exists l, In (t, l) st.(places) /\ forall l', In (t, l') st.(places) -> l' = l).
Proof.
  intros H. destruct (refs_ok_run _ _ _ (refs_ok_init ns nw ac) H) as [ND Dom]. split; auto.
  intros t Ht. apply Dom in Ht. apply in_map_iff in Ht. destruct Ht as ([k l] & E & Hin). cbn in E; subst.
  exists l; split; auto. intros l' Hin'.
  pose proof (in_place_of _ _ _ ND Hin) as A. pose proof (in_place_of _ _ _ ND Hin') as B. congruence.
Qed.

(* at most once in all ready queues together (special case, stated for the queues) *)
Corollary queued_at_most_once ns nw ac tr st t s b s' b' :
  run (init ns nw ac) tr = Some st ->
  In (t, InQueue s b) st.(places) -> In (t, InQueue s' b') st.(places) -> s = s' /\ b = b'.
Proof.
  intros H A B. destruct (refs_ok_run _ _ _ (refs_ok_init ns nw ac) H) as [ND _].
  pose proof (in_place_of _ _ _ ND A). pose proof (in_place_of _ _ _ ND B).
  assert (E : InQueue s b = InQueue s' b') by congruence. inversion E; auto.
Qed.

(* Freed is entered only by the worker that ran the task to TERMINATED ... *)
Theorem freed_only_from_terminated_on_worker st l st' t :
  step st l = Some st' -> In (t, Freed) st'.(places) -> ~ In (t, Freed) st.(places) ->
  exists s w x, l = LFree s w t /\ place_of t st.(places) = Some (OnWorker s w) /\
                get_task t st.(tasks) = Some x /\ x.(t_state) = TERMINATED.
Proof.
  intros H Hin Hn.
  destruct l; cbn [step] in H; unfold running_on in H; inv_step H; use_moves;
    try (inversion H; subst; cbn in *);
    repeat match goal with
           | E : places _ = _ |- _ => rewrite E in Hin
           end;
    try (match type of Hin with context [if ?c then Nascent else _] => destruct c end);
    try (exfalso; cbn in Hin;
         repeat match goal with
                | X : _ \/ _ |- _ => destruct X as [X|X]; [try discriminate X; try (inversion X; fail)|]
                end;
         try (apply in_drop_tid in Hin; tauto); tauto).
  (* the LFree case *)
  cbn in Hin. destruct Hin as [X|X].
  - inversion X; subst. exists s, w, t1. repeat split; auto.
    destruct (t_state t1); try discriminate; auto.
  - apply in_drop_tid in X. tauto.
Qed.

Lemma freed_stays_step st l s1 t :
  refs_ok st -> In (t, Freed) st.(places) -> step st l = Some s1 -> In (t, Freed) s1.(places).
Proof.
  intros [ND _] Hin E. pose proof (in_place_of _ _ _ ND Hin) as P.
  destruct l; cbn [step] in E; unfold running_on in E; inv_step E; use_moves;
    try (inversion E; subst); cbn [places modify set_tasks set_mem set_active set_places];
      repeat match goal with
             | X : places _ = _ |- _ => rewrite X
             end; auto;
        try (right; exact Hin);
        match goal with
        | |- In (t, Freed) ((?t', _) :: drop_tid ?t' _) =>
          destruct (Nat.eq_dec t' t) as [->|Ne]; [exfalso; congruence|right; apply in_drop_tid; auto]
        end.
Qed.

Lemma freed_stays tr : forall st st' t,
  refs_ok st -> In (t, Freed) st.(places) -> run st tr = Some st' -> In (t, Freed) st'.(places).
Proof.
  induction tr as [|l r IH]; cbn; intros st st' t I Hin H; [inversion H; subst; auto|].
  destruct (step st l) as [s1|] eqn:E; [|discriminate].
  apply (IH s1 st' t); [eapply refs_ok_step; eauto|eapply freed_stays_step; eauto|exact H].
Qed.

(* ... and is final: once freed, a task id is referenced from the freed pool only, for ever *)
Theorem nothing_refers_to_freed ns nw ac tr1 tr2 st st' t :
  run (init ns nw ac) tr1 = Some st -> In (t, Freed) st.(places) -> run st tr2 = Some st' ->
  forall l, In (t, l) st'.(places) -> l = Freed.
Proof.
  intros H1 Hin H2 l Hl.
  pose proof (refs_ok_run _ _ _ (refs_ok_init ns nw ac) H1) as I.
  pose proof (freed_stays _ _ _ _ I Hin H2) as F.
  destruct (refs_ok_run _ _ _ I H2) as [ND _].
  pose proof (in_place_of _ _ _ ND F). pose proof (in_place_of _ _ _ ND Hl). congruence.
Qed.

(* ================================================================ per-task invariants *)
Lemma running_on_spec st t s w x :
  running_on st t = Some (s, w, x) ->
  place_of t st.(places) = Some (OnWorker s w) /\ get_task t st.(tasks) = Some x /\ x.(t_state) = RUNNING.
Proof.
  unfold running_on. destruct (place_of t (places st)) as [[]|]; try discriminate.
  destruct (get_task t (tasks st)) as [y|]; try discriminate.
  destruct (tstate_eqb (t_state y) RUNNING) eqn:E; try discriminate.
  intros H; inversion H; subst. repeat split; auto. destruct (t_state x); try discriminate; auto.
Qed.

Ltac use_running :=
  repeat match goal with
         | R : running_on _ _ = Some (_, _, _) |- _ => apply running_on_spec in R; destruct R as (? & ? & ?)
         | R : running_on _ _ = Some (?p, _) |- _ => destruct p
         | R : running_on _ _ = Some ?p |- _ => destruct p as [[? ?] ?]
         end.

Definition once (x : task) : Prop :=
  x.(t_started) <= 1 /\ (x.(t_started) = 0 <-> (x.(t_state) = NEW \/ x.(t_state) = NASCENT)).

Lemma tstate_eqb_eq a b : tstate_eqb a b = true -> a = b.
Proof. destruct a, b; cbn; intros; try discriminate; auto. Qed.

Ltac norm_tasks :=
  repeat match goal with
         | E : tasks ?s = _ |- _ => rewrite E in *; clear E
         end.

Lemma once_step st l st' :
  (forall t x, get_task t st.(tasks) = Some x -> once x) -> step st l = Some st' ->
  forall t x, get_task t st'.(tasks) = Some x -> once x.
Proof.
  intros I H t x G.
  destruct l; cbn [step] in H; inv_step H; use_running; use_moves;
    try (inversion H; subst; clear H); cbn [tasks modify set_tasks set_mem set_active set_places] in G; norm_tasks;
      try (cbn [tasks modify set_tasks] in G); try (eapply I; eassumption);
        try (rewrite get_upd in G;
             match type of G with
             | (if ?c then _ else _) = _ => destruct c eqn:EQ; [apply Nat.eqb_eq in EQ; subst|eapply I; eassumption]
             end;
             match goal with
             | G0 : get_task ?tt ?ts = Some ?y, G1 : option_map _ (get_task ?tt ?ts) = Some _ |- _ =>
               rewrite G0 in G1; cbn in G1; inversion G1; subst; clear G1; pose proof (I _ _ G0) as [A B]
             end;
             repeat match goal with
                    | E : tstate_eqb _ _ = true |- _ => apply tstate_eqb_eq in E
                    | E : _ && _ = true |- _ => apply andb_true_iff in E; destruct E
                    end;
             unfold once; cbn;
             repeat match goal with
                    | E : t_state ?y = _ |- _ => rewrite E in *
                    end;
             try match goal with B0 : ?a = 0 <-> _ |- _ => assert (a = 0) by (apply B0; auto) end;
             split; [lia|];
             first [ tauto
                   | split; [intros Z; try lia; try (destruct B as [B1 B2]; destruct (B1 Z); discriminate)
                            |intros [Z|Z]; try discriminate Z; try lia; try tauto] ]).
  all: try (cbn in G; destruct (next st =? t) eqn:EQ;
            [inversion G; subst; unfold once; cbn; split; [lia|]; split; auto;
             destruct (r_precond row && pre_blocked); auto
            |eapply I; eassumption]).
Qed.

Lemma once_run tr : forall st st',
  (forall t x, get_task t st.(tasks) = Some x -> once x) -> run st tr = Some st' ->
  forall t x, get_task t st'.(tasks) = Some x -> once x.
Proof.
  induction tr as [|l r IH]; cbn; intros st st' I H; [inversion H; subst; auto|].
  destruct (step st l) as [s1|] eqn:E; [|discriminate].
  apply (IH s1 st'); [eapply once_step; eauto|exact H].
Qed.

(* C04 runs_once: the NEW -> RUNNING transition (first instruction of the body) happens at most once per task, and a
   terminated task has made it exactly once *)
Theorem runs_once ns nw ac tr st t x :
  run (init ns nw ac) tr = Some st -> get_task t st.(tasks) = Some x ->
  x.(t_started) <= 1 /\ (x.(t_state) = TERMINATED -> x.(t_started) = 1) /\
  (x.(t_started) = 0 <-> (x.(t_state) = NEW \/ x.(t_state) = NASCENT)).
Proof.
  intros H G.
  assert (I0 : forall t x, get_task t (init ns nw ac).(tasks) = Some x -> once x).
  { intros t0 x0 X. destruct t0; cbn in X; inversion X; subst.
    unfold once, mccoy_task; cbn. split; [lia|]. split; [intros Z; discriminate Z|intros [?|?]; discriminate]. }
  destruct (once_run _ _ _ I0 H _ _ G) as [A B]. repeat split; auto; try apply B.
  intros T. destruct (Nat.eq_dec (t_started x) 0) as [Z|Z]; [|lia].
  apply B in Z. rewrite T in Z. destruct Z; discriminate.
Qed.

(* the ghost counter really counts executions of a NEW task: it moves only in LExec of that task in state NEW *)
Theorem started_moves_only_at_first_exec st l st' t x x' :
  step st l = Some st' -> get_task t st.(tasks) = Some x -> get_task t st'.(tasks) = Some x' -> t < st.(next) ->
  x'.(t_started) = x.(t_started) \/
  (exists s w got, l = LExec s w t got /\ x.(t_state) = NEW /\ x'.(t_state) = RUNNING /\ x'.(t_started) = S x.(t_started)).
Proof.
  intros H G G' Lt.
  destruct l; cbn [step] in H; inv_step H; use_running; use_moves;
    try (inversion H; subst; clear H); cbn [tasks modify set_tasks set_mem set_active set_places] in G'; norm_tasks;
      try (cbn [tasks modify set_tasks] in G'); try (left; congruence);
        try (rewrite get_upd in G';
             match type of G' with
             | (if ?c then _ else _) = _ => destruct c eqn:EQ; [apply Nat.eqb_eq in EQ; subst|left; congruence]
             end;
             match goal with
             | G0 : get_task ?tt ?ts = Some ?y, G1 : option_map _ (get_task ?tt ?ts) = Some _ |- _ =>
               rewrite G0 in G1; cbn in G1; inversion G1; subst; clear G1
             end;
             first [ left; cbn; congruence
                   | right; do 3 eexists; repeat split; eauto; cbn; congruence ]).
  cbn in G'. destruct (next st =? t) eqn:EQ; [apply Nat.eqb_eq in EQ; lia|left; congruence].
Qed.

(* ================================================================ C04: arg_semantics *)
Lemma arg_step st l st' t x :
  step st l = Some st' -> t < st.(next) -> get_task t st.(tasks) = Some x ->
  exists x', get_task t st'.(tasks) = Some x' /\ x'.(t_arg) = x.(t_arg).
Proof.
  intros H Lt G.
  destruct l; cbn [step] in H; inv_step H; use_running; use_moves;
    try (inversion H; subst; clear H); cbn [tasks modify set_tasks set_mem set_active set_places]; norm_tasks;
      try (cbn [tasks modify set_tasks]); try (eexists; split; [eassumption|reflexivity]);
        try (rewrite get_upd;
             match goal with
             | |- context [if ?c then _ else _] => destruct c eqn:EQ; [apply Nat.eqb_eq in EQ; subst|eexists; split; [eassumption|reflexivity]]
             end;
             rewrite G; cbn; eexists; split; [reflexivity|reflexivity]).
  cbn. destruct (next st =? t) eqn:EQ; [apply Nat.eqb_eq in EQ; lia|eexists; split; [eassumption|reflexivity]].
Qed.

Lemma next_mono st l st' : step st l = Some st' -> st.(next) <= st'.(next).
Proof. intros H. destruct (step_places _ _ _ H) as [? N|? ? ? ? ? N|? ? N]; rewrite N; lia. Qed.

Lemma arg_run tr : forall st st' t x,
  run st tr = Some st' -> t < st.(next) -> get_task t st.(tasks) = Some x ->
  exists x', get_task t st'.(tasks) = Some x' /\ x'.(t_arg) = x.(t_arg).
Proof.
  induction tr as [|l r IH]; cbn; intros st st' t x H Lt G.
  - inversion H; subst. eauto.
  - destruct (step st l) as [s1|] eqn:E; [|discriminate].
    destruct (arg_step _ _ _ _ _ E Lt G) as (x1 & G1 & A1).
    destruct (IH s1 st' t x1 H) as (x2 & G2 & A2); auto.
    + pose proof (next_mono _ _ _ E). lia.
    + exists x2. split; auto. congruence.
Qed.

(* whatever happens after the spawn step (stores into the source buffer included), the body's argument is the one
   fixed at the spawn: the caller's pointer when no size is given, else the source bytes as they were at that step *)
Theorem arg_semantics st caller row shep_param asize src pre st1 tr st2 :
  step st (LSpawn caller row shep_param asize src pre) = Some st1 -> run st1 tr = Some st2 ->
  exists x, get_task st.(next) st2.(tasks) = Some x /\
            x.(t_arg) = (if row.(r_copy) && negb (N.eqb asize 0)
                         then Copy (mem_get src st.(mem)) (N.leb asize st.(argcopy))
                         else Ptr src).
Proof.
  intros H R. cbn [step] in H. inv_step H. inversion H; subst; clear H.
  eapply (arg_run tr _ st2 (next st)) in R; cbn; [|lia|rewrite Nat.eqb_refl; reflexivity].
  destruct R as (x & G & A). exists x; split; auto.
Qed.

(* a later store to the source does not reach the copy (instance of the above, spelled out) *)
Corollary arg_copy_immune_to_scribble st caller row shep_param asize src pre st1 junk tr st2 :
  row.(r_copy) = true -> asize <> 0%N ->
  step st (LSpawn caller row shep_param asize src pre) = Some st1 -> run st1 (LStore src junk :: tr) = Some st2 ->
  exists x, get_task st.(next) st2.(tasks) = Some x /\ x.(t_arg) = Copy (mem_get src st.(mem)) (N.leb asize st.(argcopy)).
Proof.
  intros C Z H R. destruct (arg_semantics _ _ _ _ _ _ _ _ _ _ H R) as (x & G & A). exists x; split; auto.
  rewrite A, C. apply N.eqb_neq in Z. rewrite Z. reflexivity.
Qed.

(* the body is started with exactly that argument: LExec of a NEW task is only accepted with it *)
Theorem exec_gets_spawn_argument st s w t g st' x :
  step st (LExec s w t (Some g)) = Some st' -> get_task t st.(tasks) = Some x -> argv_eqb g x.(t_arg) = true.
Proof.
  intros H G. cbn [step] in H. rewrite G in H. inv_step H. auto.
Qed.
