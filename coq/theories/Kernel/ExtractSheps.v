From Coq Require Import List NArith ZArith.
From QV Require Import Kernel.Placement Kernel.Sheps.
Require Extraction.
Require Import ExtrOcamlBasic.
Extraction Language OCaml.
Extraction "../ocaml/gen/c07sheps_model.ml" shep_next shep_prev shep_ok shep_self distance sorted_remote shuffle sort_sheps gendists init_tbl apply_op num_shepherds num_workers fas nthb.
