From Coq Require Import List Bool Arith NArith ZArith Lia.
From QV Require Import Kernel.GenSpawnTable Kernel.Placement Kernel.ProofsPlacement Kernel.Model Kernel.ProofsKernel
     Kernel.ProofsC07 Kernel.ProofsPin Kernel.Progress Kernel.ProgressInv Kernel.ProgressProofs Kernel.ProgressMeasure
     Kernel.ProgressEnabled Kernel.ProgressQueue Kernel.ProgressQueue2 Kernel.ProgressStep.
Import ListNotations.

(* QTHREAD_SIMPLE is fixed at the spawn *)
Lemma simple_step st l st' t x :
  step st l = Some st' -> t < st.(next) -> get_task t st.(tasks) = Some x ->
  exists x', get_task t st'.(tasks) = Some x' /\ x'.(t_simple) = x.(t_simple).
Proof.
  intros H Lt G.
  destruct l; cbn [step] in H; inv_step H; use_running; use_moves;
    try (inversion H; subst; clear H); cbn [tasks modify set_tasks set_mem set_active set_places]; norm_tasks;
      try (cbn [tasks modify set_tasks]); try (eexists; split; [eassumption|reflexivity]);
        try (rewrite get_upd;
             match goal with
             | |- context [if ?c then _ else _] => destruct c eqn:EQ; [apply Nat.eqb_eq in EQ; subst|eexists; split; [eassumption|reflexivity]]
             end;
             rewrite G; cbn; eexists; split; [reflexivity|reflexivity]).
  cbn. destruct (next st =? t) eqn:EQ; [apply Nat.eqb_eq in EQ; lia|eexists; split; [eassumption|reflexivity]].
Qed.

Lemma simple_run tr : forall st st' t x,
  run st tr = Some st' -> t < st.(next) -> get_task t st.(tasks) = Some x ->
  exists x', get_task t st'.(tasks) = Some x' /\ x'.(t_simple) = x.(t_simple).
Proof.
  induction tr as [|l r IH]; cbn; intros st st' t x H Lt G.
  - inversion H; subst. eauto.
  - destruct (step st l) as [s1|] eqn:E; [|discriminate].
    destruct (simple_step _ _ _ _ _ E Lt G) as (x1 & G1 & A1).
    destruct (IH s1 st' t x1 H) as (x2 & G2 & A2); auto.
    + pose proof (next_mono _ _ _ E). lia.
    + exists x2. split; auto. congruence.
Qed.

(* only a wake-up takes a task off a waiter list *)
Definition nowake0 (l : label) : bool := match l with LWake _ t _ _ => negb (t =? 0) | _ => true end.

Lemma step_blocked0 st l st' :
  0 < st.(next) ->
  nowake0 l = true -> step st l = Some st' -> place_of 0 st.(places) = Some Blocked -> place_of 0 st'.(places) = Some Blocked.
Proof.
  intros Hn NW H B.
  destruct l; cbn [step] in H; inv_step H; use_running; use_moves;
    try (inversion H; subst; clear H); norm_state; auto.
  all: try (rewrite place_of_move;
            match goal with
            | P : place_of ?t _ = Some ?l |- context [?t =? 0] =>
              destruct (t =? 0) eqn:Z; [apply Nat.eqb_eq in Z; subst; try congruence|exact B]
            end).
  all: try (cbn [nowake0] in NW; rewrite Nat.eqb_refl in NW; discriminate NW).
  cbn [place_of]. destruct (next st =? 0) eqn:Z; [apply Nat.eqb_eq in Z; lia|exact B].
Qed.

Lemma run_blocked0 ls : forall st st',
  0 < st.(next) -> forallb nowake0 ls = true -> run st ls = Some st' ->
  place_of 0 st.(places) = Some Blocked -> place_of 0 st'.(places) = Some Blocked.
Proof.
  induction ls as [|l r IH]; cbn; intros st st' Hn M H B; [inversion H; subst; exact B|].
  apply andb_true_iff in M. destruct M as [M1 M2]. destruct (step st l) as [s1|] eqn:E; [|discriminate].
  eapply (IH s1); eauto. pose proof (next_mono _ _ _ E). lia. eapply step_blocked0; eauto.
Qed.

(* the composed system never disables a shepherd *)
Lemma run_active_my ls : forall st st', forallb my_label ls = true -> run st ls = Some st' ->
  st'.(active) = st.(active) /\ st'.(nsh) = st.(nsh).
Proof.
  induction ls as [|l r IH]; cbn; intros st st' M H; [inversion H; subst; auto|].
  apply andb_true_iff in M. destruct M as [M1 M2]. destruct (step st l) as [s1|] eqn:E; [|discriminate].
  destruct (active_step _ _ _ E) as [A N]. destruct (IH _ _ M2 H) as [A' N'].
  split; [|congruence]. rewrite A', A. destruct l; try reflexivity; discriminate M1.
Qed.

Definition spawn_row_of (l : label) : option spawn_row := match l with LSpawn _ row _ _ _ _ => Some row | _ => None end.

(* backwards: a descriptor of the new state is an old one with the same QTHREAD_SIMPLE flag, or the one just spawned *)
Lemma simple_back st l st' t x' :
  step st l = Some st' -> get_task t st'.(tasks) = Some x' ->
  (exists x, get_task t st.(tasks) = Some x /\ x'.(t_simple) = x.(t_simple) /\ (t = st.(next) -> spawn_row_of l = None)) \/
  (t = st.(next) /\ exists row, spawn_row_of l = Some row /\ x'.(t_simple) = row.(r_simple)).
Proof.
  intros H G.
  destruct l; cbn [step] in H; inv_step H; use_running; use_moves;
    try (inversion H; subst; clear H); cbn [tasks modify set_tasks set_mem set_active set_places] in G; norm_tasks;
      try (cbn [tasks modify set_tasks] in G); try (left; eexists; split; [eassumption|split; [reflexivity|intros _; reflexivity]]);
        try (rewrite get_upd in G;
             match type of G with
             | (if ?c then _ else _) = _ => destruct c eqn:EQ; [apply Nat.eqb_eq in EQ; subst|left; eexists; split; [eassumption|split; [reflexivity|intros _; reflexivity]]]
             end;
             match goal with
             | G0 : get_task ?tt ?ts = Some ?y, G1 : option_map _ (get_task ?tt ?ts) = Some _ |- _ =>
               rewrite G0 in G1; cbn in G1; inversion G1; subst; clear G1
             end; left; eexists; split; [eassumption|split; [reflexivity|intros _; reflexivity]]).
  cbn in G. destruct (next st =? t) eqn:EQ.
  - apply Nat.eqb_eq in EQ. inversion G; subst. right. split; auto. eexists. split; reflexivity.
  - left. eexists; split; [eassumption|split; [reflexivity|]]. intros ->. rewrite Nat.eqb_refl in EQ. discriminate.
Qed.

Definition nospawn (l : label) : bool := match l with LSpawn _ _ _ _ _ _ => false | _ => true end.

Lemma simple_back_run ls : forall st st' t x',
  forallb nospawn ls = true -> run st ls = Some st' -> get_task t st'.(tasks) = Some x' ->
  exists x, get_task t st.(tasks) = Some x /\ x'.(t_simple) = x.(t_simple).
Proof.
  induction ls as [|l r IH]; cbn; intros st st' t x' M H G; [inversion H; subst; eauto|].
  apply andb_true_iff in M. destruct M as [M1 M2]. destruct (step st l) as [s1|] eqn:E; [|discriminate].
  destruct (IH _ _ _ _ M2 H G) as (x1 & G1 & S1).
  destruct (simple_back _ _ _ _ _ E G1) as [(x & G0 & S0 & _)|(_ & row & R & _)].
  - exists x. split; auto. congruence.
  - destruct l; try discriminate R. discriminate M1.
Qed.

(* programs as association lists *)
Lemma get_del_prog t t0 ps : get_prog t (del_prog t0 ps) = if t0 =? t then None else get_prog t ps.
Proof.
  induction ps as [|[k q] r IH]; [cbn; destruct (t0 =? t); reflexivity|]. rewrite del_prog_cons.
  destruct (k =? t0) eqn:E.
  - apply Nat.eqb_eq in E; subst k. rewrite IH. cbn [get_prog]. destruct (t0 =? t); reflexivity.
  - cbn [get_prog]. rewrite IH. destruct (k =? t) eqn:E2; [|reflexivity].
    apply Nat.eqb_eq in E2; subst k. rewrite Nat.eqb_sym in E. rewrite E. reflexivity.
Qed.

Lemma get_set_prog t t0 p ps : get_prog t (set_prog t0 p ps) = if t0 =? t then Some p else get_prog t ps.
Proof. unfold set_prog. cbn [get_prog]. rewrite get_del_prog. destruct (t0 =? t); reflexivity. Qed.

Lemma wf_op_spawn row sp a s p child :
  wf_op (BSpawn row sp a s p child) = wf_prog child && (negb row.(r_simple) || forallb simple_op child).
Proof. reflexivity. Qed.

Definition Aact (k : state) : Prop := forall i, i < k.(nsh) -> nthb k.(active) i = true.
Definition MS (k : state) : Prop := forall x, get_task 0 k.(tasks) = Some x -> x.(t_simple) = false.
Definition Pinv (c : cstate) : Prop :=
  forall t x p, get_task t c.(ck).(tasks) = Some x -> get_prog t c.(cprog) = Some p ->
                wf_prog p = true /\ (x.(t_simple) = true -> forallb simple_op p = true).
Definition Mainwait (c : cstate) : Prop := has_prog 0 c.(cprog) = false -> place_of 0 c.(ck).(places) = Some Blocked.

Lemma Aact_cstep c e c' : Aact c.(ck) -> cstep c e = Some c' -> Aact c'.(ck).
Proof.
  intros A H. destruct (cstep_run _ _ _ H) as (ls & M & R). destruct (run_active_my _ _ _ M R) as [E N].
  intros i L. rewrite E. apply A. lia.
Qed.

Lemma simple_back_old ls : forall st st' t x',
  t < st.(next) -> run st ls = Some st' -> get_task t st'.(tasks) = Some x' ->
  exists x, get_task t st.(tasks) = Some x /\ x'.(t_simple) = x.(t_simple).
Proof.
  induction ls as [|l r IH]; cbn; intros st st' t x' Lt H G; [inversion H; subst; eauto|].
  destruct (step st l) as [s1|] eqn:E; [|discriminate].
  pose proof (next_mono _ _ _ E) as NM.
  assert (Lt1 : t < next s1) by lia. destruct (IH s1 st' t x' Lt1 H G) as (x1 & G1 & S1).
  destruct (simple_back _ _ _ _ _ E G1) as [(x & G0 & S0 & _)|(X & _)]; [|lia].
  exists x. split; auto. congruence.
Qed.

Lemma MS_cstep c e c' : kinv c.(ck) -> MS c.(ck) -> cstep c e = Some c' -> MS c'.(ck).
Proof.
  intros (_ & _ & _ & Hn & _) M H x' G. destruct (cstep_run _ _ _ H) as (ls & _ & R).
  destruct (simple_back_old _ _ _ _ _ Hn R G) as (x & G0 & S). rewrite S. apply M. exact G0.
Qed.

Lemma wf_tail o r : wf_prog (o :: r) = true -> wf_op o = true /\ wf_prog r = true.
Proof. cbn. intros H. apply andb_true_iff in H. exact H. Qed.

Lemma simple_tail o r : forallb simple_op (o :: r) = true -> simple_op o = true /\ forallb simple_op r = true.
Proof. cbn. intros H. apply andb_true_iff in H. exact H. Qed.

Lemma Pinv_cstep c e c' : Pinv c -> cstep c e = Some c' -> Pinv c'.
Proof.
  intros P H. unfold cstep in H. destr_cstep H; try use_with_k H; try (inversion H; subst; clear H).
  all: intros t' x' p' G' GP'; cbn [ck cs cprog] in *.
  (* programs unchanged, no spawn *)
  all: try (match goal with
            | R : run _ ?ls = Some _ |- _ =>
              destruct (simple_back_run ls _ _ _ _ eq_refl R G') as (x0 & G0 & S0); rewrite S0; eapply P; eassumption
            end; fail).
  all: try (match goal with R : run _ ?ls = Some _ |- _ => destruct (simple_back_run ls _ _ _ _ eq_refl R G') as (x0 & G0 & S0) end;
            first [rewrite get_set_prog in GP' | rewrite get_del_prog in GP'];
            match type of GP' with (if ?c then _ else _) = _ => destruct c eqn:EQ end;
            [ first [ discriminate GP'
                    | apply Nat.eqb_eq in EQ; subst; inversion GP'; subst; clear GP';
                      match goal with Pr : get_prog _ _ = Some (_ :: _) |- _ => destruct (P _ _ _ G0 Pr) as (W & S) end;
                      apply wf_tail in W; destruct W as [W1 W2]; split; [exact W2|]; rewrite S0; intros SI; apply (simple_tail _ _ (S SI)) ]
            | rewrite S0; eapply P; eassumption ]; fail).
  - (* spawn *)
    apply run1 in Heqo2. cbn [get_prog] in GP'.
    destruct (P _ _ _ Heqo0 Heqo1) as (W & S). apply wf_tail in W. destruct W as [W1 W2].
    rewrite wf_op_spawn in W1. apply andb_true_iff in W1. destruct W1 as [Wc Sc].
    destruct (simple_back _ _ _ _ _ Heqo2 G') as [(x0 & G0 & S0 & NS)|(Tn & row' & Rw & Sr)].
    + destruct (next (ck c) =? t') eqn:EQ.
      * exfalso. apply Nat.eqb_eq in EQ. symmetry in EQ. specialize (NS EQ). discriminate NS.
      * rewrite get_set_prog in GP'. destruct (n =? t') eqn:E2.
        -- apply Nat.eqb_eq in E2; subst t'. inversion GP'; subst; clear GP'. rewrite G0 in Heqo0. inversion Heqo0; subst.
           split; [exact W2|]. rewrite S0. intros SI. apply (simple_tail _ _ (S SI)).
        -- rewrite S0. eapply P; eassumption.
    + subst t'. rewrite Nat.eqb_refl in GP'. inversion GP'; subst; clear GP'. cbn in Rw. inversion Rw; subst row'.
      split; [exact Wc|]. intros SI. rewrite Sr in SI. rewrite SI in Sc. cbn in Sc. exact Sc.
  - (* failed spawn: nothing but the program changes *)
    rewrite get_set_prog in GP'. destruct (n =? t') eqn:E2.
    + apply Nat.eqb_eq in E2; subst t'. inversion GP'; subst; clear GP'. rewrite G' in Heqo0. inversion Heqo0; subst.
      destruct (P _ _ _ G' Heqo1) as (W & S). apply wf_tail in W. destruct W as [W1 W2].
      split; [exact W2|]. intros SI. apply (simple_tail _ _ (S SI)).
    + eapply P; eassumption.
Qed.

Lemma cstep_run_nw c e c' :
  cstep c e = Some c' -> has_prog 0 c.(cprog) = false ->
  exists ls, forallb nowake0 ls = true /\ run c.(ck) ls = Some c'.(ck).
Proof.
  intros H HP. unfold cstep in H. destr_cstep H; try use_with_k H; try (inversion H; subst; clear H); cbn [ck].
  all: try (eexists; split; [|eassumption]; reflexivity).
  all: try (exists []; split; reflexivity).
  (* EWake: the guard *)
  eexists; split; [|eassumption]. cbn. rewrite HP, orb_false_r in *. rewrite andb_true_r. assumption.
Qed.

Lemma has_prog_set t p ps : has_prog 0 (set_prog t p ps) = if t =? 0 then true else has_prog 0 ps.
Proof. unfold has_prog. rewrite get_set_prog. destruct (t =? 0); reflexivity. Qed.

Lemma has_prog_del t ps : has_prog 0 (del_prog t ps) = if t =? 0 then false else has_prog 0 ps.
Proof. unfold has_prog. rewrite get_del_prog. destruct (t =? 0); reflexivity. Qed.

Lemma Mainwait_cstep c e c' : kinv c.(ck) -> Mainwait c -> cstep c e = Some c' -> Mainwait c'.
Proof.
  intros KI M H HP'.
  assert (Hn : 0 < next (ck c)) by (destruct KI as (_ & _ & _ & Hn & _); exact Hn).
  assert (Old : has_prog 0 (cprog c) = false -> place_of 0 (places (ck c')) = Some Blocked).
  { intros HP. destruct (cstep_run_nw _ _ _ H HP) as (ls & NW & R). eapply run_blocked0; eauto. }
  unfold cstep in H. destr_cstep H; try use_with_k H; try (inversion H; subst; clear H); cbn [ck cs cprog] in *.
  all: try (apply Old; exact HP').
  all: try (rewrite has_prog_set in HP'; destruct (_ =? 0) eqn:Z in HP'; [discriminate HP'|apply Old; exact HP']).
  - (* the final wait: main blocks *)
    cbn [run] in R. destruct (step (ck c) (LMayBlock n)) as [k1|] eqn:E1; [|discriminate R].
    destruct (step k1 (LBlocked s w n)) as [k2|] eqn:E2; [|discriminate R]. inversion R; subst; clear R.
    apply Nat.eqb_eq in Heqb0. subst n. cbn [step] in E2. inv_step E2. use_moves. inversion E2; subst; clear E2.
    cbn [places modify set_tasks]. rewrite H0. cbn. reflexivity.
  - rewrite has_prog_del, Heqb0 in HP'. apply Old. exact HP'.
  - unfold has_prog in HP'. cbn [get_prog] in HP'.
    destruct (next (ck c) =? 0) eqn:Z; [apply Nat.eqb_eq in Z; lia|]. fold (has_prog 0 (set_prog n l1 (cprog c))) in HP'.
    rewrite has_prog_set in HP'. destruct (n =? 0); [discriminate HP'|apply Old; exact HP'].
Qed.
