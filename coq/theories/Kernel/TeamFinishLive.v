(* C05 extension T: deadlock freedom of the team-finish machine (Kernel/TeamFinish.v) from the invariant alone
   (Kernel/TeamFinishInv.v): in every state satisfying inv, either everything is finished or some label is enabled. *)
From Coq Require Import List ZArith Bool Arith Lia ZifyBool ZifyNat.
From QV Require Import Kernel.TeamFinish Kernel.TeamFinishInv.
Import ListNotations.
Local Open Scope Z_scope.

(* ---------- general lemmas ---------- *)
Lemma live_sumn_zero n g : (forall i, (i < n)%nat -> g i = 0) -> sumn n g = 0.
Proof.
  induction n as [|n IH]; intros H; cbn [sumn]; [reflexivity|].
  rewrite (H n) by lia. rewrite IH; [reflexivity|]. intros i Hi; apply H; lia.
Qed.

Lemma live_sumn_nonneg n g : (forall i, (i < n)%nat -> 0 <= g i) -> 0 <= sumn n g.
Proof.
  induction n as [|n IH]; intros H; cbn [sumn]; [lia|].
  assert (0 <= g n) by (apply H; lia).
  assert (0 <= sumn n g) by (apply IH; intros i Hi; apply H; lia).
  lia.
Qed.

Lemma live_sumn_nonneg_zero n g :
  (forall i, (i < n)%nat -> 0 <= g i) -> sumn n g = 0 -> forall i, (i < n)%nat -> g i = 0.
Proof.
  induction n as [|n IH]; intros H S0 i Hi; [lia|].
  cbn [sumn] in S0.
  assert (0 <= g n) by (apply H; lia).
  assert (0 <= sumn n g) by (apply live_sumn_nonneg; intros j Hj; apply H; lia).
  destruct (Nat.eq_dec i n) as [->|Hne]; [lia|].
  apply IH; [intros j Hj; apply H; lia | lia | lia].
Qed.

Lemma live_alln n p : (forall i, (i < n)%nat -> p i = true) -> alln n p = true.
Proof.
  induction n as [|n IH]; intros H; cbn [alln]; [reflexivity|].
  rewrite (H n) by lia. rewrite IH; [reflexivity|]. intros i Hi; apply H; lia.
Qed.

(* the greatest index below n at which b is false, if any *)
Lemma live_greatest (b : nat -> bool) n :
  (forall t, (t < n)%nat -> b t = true) \/
  exists t, (t < n)%nat /\ b t = false /\ forall t', (t < t')%nat -> (t' < n)%nat -> b t' = true.
Proof.
  induction n as [|n IH].
  - left; intros t Ht; lia.
  - destruct (b n) eqn:Bn.
    + destruct IH as [IH | (t & Ht & Bt & Hmax)].
      * left. intros t Ht. destruct (Nat.eq_dec t n) as [->|Hne]; [exact Bn | apply IH; lia].
      * right. exists t. split; [lia|]. split; [exact Bt|].
        intros t' H1 H2. destruct (Nat.eq_dec t' n) as [->|Hne]; [exact Bn | apply Hmax; lia].
    + right. exists n. split; [lia|]. split; [exact Bn|]. intros t' H1 H2; lia.
Qed.

(* ---------- enabledness of the individual actors ---------- *)
Definition live_enabled (s : state) : Prop := exists l s', step false s l = Some s'.

Ltac lstep H :=
  unfold step, lead_step, watch_step, memb_step; cbv beta zeta; rewrite (proj2 (Nat.ltb_lt _ _) H).

Lemma live_en_memb s k : (k < nm s)%nat -> memb_done (mem s k) = false -> live_enabled s.
Proof.
  intros Hk Hd. unfold memb_done in Hd.
  destruct (mpc (mem s k)) eqn:E; try discriminate.
  - exists (Memb k, ARel). lstep Hk. rewrite E. eexists; reflexivity.
  - exists (Memb k, AStep). lstep Hk. rewrite E. eexists; reflexivity.
  - exists (Memb k, AStep). lstep Hk. rewrite E. eexists; reflexivity.
  - exists (Memb k, AStep). lstep Hk. rewrite E. destruct (mteam (mem s k)); eexists; reflexivity.
  - exists (Memb k, AStep). lstep Hk. rewrite E. eexists; reflexivity.
Qed.

Lemma live_en_watch_nasc s t : (t < nt s)%nat -> wpc (ctl s t) = WNasc -> live_enabled s.
Proof. intros H E. exists (Watch t, ARel). lstep H. rewrite E. eexists; reflexivity. Qed.

Lemma live_en_watch_ready s t : (t < nt s)%nat -> wpc (ctl s t) = WReady -> live_enabled s.
Proof. intros H E. exists (Watch t, AStep). lstep H. rewrite E. eexists; reflexivity. Qed.

Lemma live_en_watch_got s t : (t < nt s)%nat -> wpc (ctl s t) = WGot -> live_enabled s.
Proof. intros H E. exists (Watch t, AStep). lstep H. rewrite E. eexists; reflexivity. Qed.

Lemma live_en_watch_started s t p :
  (t < nt s)%nat -> wpc (ctl s t) = WStarted -> tk (ctl s t) = KSub p -> eu (obj s p) = Some t -> live_enabled s.
Proof.
  intros H E K U. exists (Watch t, AStep). lstep H. rewrite E, K, U, Nat.eqb_refl. eexists; reflexivity.
Qed.

Lemma live_en_lead_nasc s t : (t < nt s)%nat -> lpc (ctl s t) = LNasc -> live_enabled s.
Proof. intros H E. exists (Lead t, ARel). lstep H. rewrite E. eexists; reflexivity. Qed.

Definition live_lfree (p : lpcT) : bool :=
  match p with LReady | LWx | LRun | LA | LA2 | LC | LE | LI | LJ | LK | LL => true | _ => false end.

Lemma live_en_lead_free s t : (t < nt s)%nat -> live_lfree (lpc (ctl s t)) = true -> live_enabled s.
Proof.
  intros H F. exists (Lead t, AStep). lstep H.
  destruct (lpc (ctl s t)); try discriminate; eexists; reflexivity.
Qed.

Lemma live_en_lead_LWw s t :
  (t < nt s)%nat -> lpc (ctl s t) = LWw -> wpc (ctl s t) = WStarted -> live_enabled s.
Proof. intros H E W. exists (Lead t, AStep). lstep H. rewrite E, W. eexists; reflexivity. Qed.

Lemma live_en_lead_wait s t :
  (t < nt s)%nat -> lpc (ctl s t) = LB \/ lpc (ctl s t) = LG -> sinc (obj s t) = 0 -> live_enabled s.
Proof.
  intros H [E|E] Z0; exists (Lead t, AStep); lstep H; rewrite E, Z0; eexists; reflexivity.
Qed.

Lemma live_en_lead_LD s t :
  (t < nt s)%nat -> lpc (ctl s t) = LD -> subs (obj s t) = 0 -> live_enabled s.
Proof. intros H E Z0. exists (Lead t, AStep). lstep H. rewrite E, Z0. eexists; reflexivity. Qed.

Lemma live_en_lead_LF s t p :
  (t < nt s)%nat -> lpc (ctl s t) = LF -> tk (ctl s t) = KSub p -> eu (obj s p) = None -> live_enabled s.
Proof. intros H E K U. exists (Lead t, AStep). lstep H. rewrite E, K, U. eexists; reflexivity. Qed.

Lemma live_en_lead_LH s t p :
  (t < nt s)%nat -> lpc (ctl s t) = LH -> tk (ctl s t) = KSub p -> live_enabled s.
Proof. intros H E K. exists (Lead t, AStep). lstep H. rewrite E, K. eexists; reflexivity. Qed.

(* ---------- consequences of the invariant ---------- *)
Lemma live_lead_done c : lead_done c = true -> lpc c = LDone.
Proof. unfold lead_done. destruct (lpc c); try discriminate; reflexivity. Qed.

Lemma live_ksub s t :
  tinv s t -> ksubonly (lpc (ctl s t)) = true ->
  exists p, tk (ctl s t) = KSub p /\ (p < t)%nat /\ wrel (lpc (ctl s t)) (wpc (ctl s t)) /\
            (eu (obj s p) = Some t <-> (lpc (ctl s t) = LG /\ wpc (ctl s t) = WStarted)).
Proof.
  intros T H. pose proof (ti_watch _ _ T) as W.
  destruct (tk (ctl s t)) as [| |p] eqn:K.
  - destruct W as [_ W]; congruence.
  - destruct W as [_ W]; congruence.
  - exists p. destruct W as (W1 & W2 & W3). auto.
Qed.

Lemma live_msum0 s t : (forall k, (k < nm s)%nat -> memb_done (mem s k) = true) -> msum s t = 0.
Proof.
  intros H. unfold msum. apply live_sumn_zero. intros k Hk. specialize (H k Hk).
  unfold memb_done in H. unfold mcon, mlive.
  destruct (mpc (mem s k)); try discriminate.
  destruct (mteam (mem s k)); [rewrite andb_false_r|]; reflexivity.
Qed.

Lemma live_csum0 s t :
  inv s -> (forall t', (t < t')%nat -> (t' < nt s)%nat -> lead_done (ctl s t') = true) -> csum s t = 0.
Proof.
  intros I Hmax. unfold csum. apply live_sumn_zero. intros c Hc.
  pose proof (ti_watch _ _ (i_team _ I c Hc)) as W. unfold ccon.
  destruct (tk (ctl s c)) as [| |p] eqn:K; try reflexivity.
  destruct W as (W1 & _).
  destruct (Nat.eqb p t) eqn:Ept; [|reflexivity].
  apply Nat.eqb_eq in Ept. subst p.
  rewrite (live_lead_done _ (Hmax c W1 Hc)). reflexivity.
Qed.

Lemma live_all_done s :
  inv s ->
  (forall k, (k < nm s)%nat -> memb_done (mem s k) = true) ->
  (forall t, (t < nt s)%nat -> lead_done (ctl s t) = true) ->
  all_done s = true.
Proof.
  intros I Hm Hl. unfold all_done. apply andb_true_intro. split.
  - apply live_alln. intros t Ht. rewrite (Hl t Ht). cbn [andb].
    pose proof (ti_watch _ _ (i_team _ I t Ht)) as W.
    pose proof (live_lead_done _ (Hl t Ht)) as E.
    unfold watch_idle.
    destruct (tk (ctl s t)) as [| |p].
    + destruct W as [W _]. rewrite W. reflexivity.
    + destruct W as [W _]. rewrite W. reflexivity.
    + destruct W as (_ & W & _). rewrite E in W. cbn in W. rewrite W. reflexivity.
  - apply live_alln. exact Hm.
Qed.

(* ---------- the leader cases that wait ---------- *)
Section LeadCases.
  Variable s : state.
  Variable t : nat.
  Hypothesis I : inv s.
  Hypothesis Ht : (t < nt s)%nat.
  Hypothesis Hm : forall t', msum s t' = 0.

  Let T : tinv s t := i_team _ I t Ht.

  Lemma live_case_LWw : lpc (ctl s t) = LWw -> live_enabled s.
  Proof.
    intros E. destruct (live_ksub s t T) as (p & K & Hp & W & _); [rewrite E; reflexivity|].
    rewrite E in W. cbn in W. destruct W as [W|[W|W]].
    - exact (live_en_watch_nasc s t Ht W).
    - exact (live_en_watch_ready s t Ht W).
    - exact (live_en_lead_LWw s t Ht E W).
  Qed.

  Lemma live_case_LB : lpc (ctl s t) = LB -> live_enabled s.
  Proof.
    intros E. apply (live_en_lead_wait s t Ht (or_introl E)).
    pose proof (ti_sinc _ _ T) as S0. pose proof (ti_watch _ _ T) as W.
    rewrite E, Hm in S0. rewrite E in W.
    specialize (S0 ltac:(cbn; lia)). rewrite S0.
    destruct (tk (ctl s t)) as [| |p].
    - destruct W as [W _]. rewrite W. reflexivity.
    - destruct W as [W _]. rewrite W. reflexivity.
    - destruct W as (_ & W & _). cbn in W. rewrite W. reflexivity.
  Qed.

  Lemma live_case_LD :
    (forall t', (t < t')%nat -> (t' < nt s)%nat -> lead_done (ctl s t') = true) ->
    lpc (ctl s t) = LD -> live_enabled s.
  Proof.
    intros Hmax E. apply (live_en_lead_LD s t Ht E).
    pose proof (ti_subs _ _ T) as S0. rewrite E in S0.
    specialize (S0 ltac:(cbn; lia)). rewrite S0, (live_csum0 s t I Hmax). reflexivity.
  Qed.

  Lemma live_case_LF : lpc (ctl s t) = LF -> live_enabled s.
  Proof.
    intros E. destruct (live_ksub s t T) as (p & K & Hp & _); [rewrite E; reflexivity|].
    destruct (eu (obj s p)) as [c'|] eqn:U.
    - assert (Hpn : (p < nt s)%nat) by lia.
      destruct (ti_eu _ _ (i_team _ I p Hpn) c' U) as (Hc & Kc).
      pose proof (ti_watch _ _ (i_team _ I c' Hc)) as W. rewrite Kc in W.
      destruct W as (_ & _ & W). destruct (proj1 W U) as (_ & Wc).
      exact (live_en_watch_started s c' p Hc Wc Kc U).
    - exact (live_en_lead_LF s t p Ht E K U).
  Qed.

  Lemma live_case_LG : lpc (ctl s t) = LG -> live_enabled s.
  Proof.
    intros E. destruct (live_ksub s t T) as (p & K & Hp & W & U); [rewrite E; reflexivity|].
    rewrite E in W. cbn in W. destruct W as [W|[W|W]].
    - apply (live_en_watch_started s t p Ht W K). apply (proj2 U). split; assumption.
    - exact (live_en_watch_got s t Ht W).
    - apply (live_en_lead_wait s t Ht (or_intror E)).
      pose proof (ti_sinc _ _ T) as S0. rewrite E, Hm, W in S0.
      specialize (S0 ltac:(cbn; lia)). rewrite S0. reflexivity.
  Qed.

  Lemma live_case_LH : lpc (ctl s t) = LH -> live_enabled s.
  Proof.
    intros E. destruct (live_ksub s t T) as (p & K & _); [rewrite E; reflexivity|].
    exact (live_en_lead_LH s t p Ht E K).
  Qed.

  Lemma live_lead_case :
    lead_done (ctl s t) = false ->
    (forall t', (t < t')%nat -> (t' < nt s)%nat -> lead_done (ctl s t') = true) ->
    live_enabled s.
  Proof.
    intros Hd Hmax. unfold lead_done in Hd.
    destruct (lpc (ctl s t)) eqn:E; try discriminate;
      try (apply (live_en_lead_free s t Ht); rewrite E; reflexivity).
    - exact (live_en_lead_nasc s t Ht E).
    - exact (live_case_LWw E).
    - exact (live_case_LB E).
    - exact (live_case_LD Hmax E).
    - exact (live_case_LF E).
    - exact (live_case_LG E).
    - exact (live_case_LH E).
  Qed.
End LeadCases.

(* ---------- deadlock freedom ---------- *)
Theorem inv_progress : forall s, inv s -> all_done s = true \/ exists l s', step false s l = Some s'.
Proof.
  intros s I.
  destruct (live_greatest (fun k => memb_done (mem s k)) (nm s)) as [Hm | (k & Hk & Hd & _)].
  2: { right. exact (live_en_memb s k Hk Hd). }
  destruct (live_greatest (fun t => lead_done (ctl s t)) (nt s)) as [Hl | (t & Ht & Hd & Hmax)].
  - left. exact (live_all_done s I Hm Hl).
  - right. apply (live_lead_case s t I Ht); [|exact Hd|exact Hmax].
    intros t'. apply live_msum0. exact Hm.
Qed.
